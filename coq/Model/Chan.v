(* L1 model: the channel protocols of gophersat (properties C20 and C16).

   A small executable interleaving semantics of goroutines communicating over
   Go channels and shared memory cells, and the programs of the library that
   use channels:

     solver/solver.go:945-1032   Solver.Optimal (solver) (defer close(results); one send per improved result)
     solver/solver.go:644-686    Solver.Enumerate (defer close(models))
     solver/solver.go:901-925    addCurrentModels    (2^k sends per solver model)
     maxsat/parser.go:23-39      Solver.Optimal (solver) (forwarding goroutine)
     explain/check.go:117-154    UnsatSubset         (certificate channel + status hand-over)
     main.go:104-113,129-131,216-246  the consumers (for ... range ch)

   Definitions only; the proofs are in Proofs/Chan.v.

   Go semantics mirrored (The Go Programming Language Specification, "Channel
   types", "Send statements", "Receive operator", "Close"; The Go Memory Model):
   - a send on an unbuffered channel (capacity 0) proceeds only together with a
     receive: one combined step [rendezvous];
   - a send on a buffered channel proceeds iff the buffer is not full;
   - a receive takes the oldest buffered value; on a closed and empty channel
     it returns immediately ([OClosed]) and ends a [for range] loop;
   - a send on a closed channel and the close of a closed channel panic, and a
     panic stops the whole program;
   - happens-before: program order, k-th send -> k-th receive, close -> the
     receive that observes the close.                                        *)
From Coq Require Import List ZArith Bool Arith Relations.
Import ListNotations.

(* A value travelling on a channel or stored in a cell: a flat integer
   encoding (a Result is [status; weight; bit; bit; ...], a model is its bits,
   a certificate line is its literals, a status is [code]).                 *)
Definition value := list Z.

Fixpoint value_eqb (a b : value) : bool :=
  match a, b with
  | [], [] => true
  | x :: a', y :: b' => Z.eqb x y && value_eqb a' b'
  | _, _ => false
  end.

(* Instructions of a goroutine.  Data dependent loops of the producers are
   unrolled from the data; the only loop instruction is [for v := range ch]:
   [Range ch body brk] receives v, then runs [body v] and either leaves the
   loop ([brk v = true]: a [return]/[break] inside the body) or iterates; it
   ends when the channel is closed and drained.                             *)
Inductive instr :=
| Send (ch : nat) (v : value)
| Recv (ch : nat)
| Range (ch : nat) (body : value -> list instr) (brk : value -> bool)
| Close (ch : nat)
| Write (cell : nat) (v : value)
| Read (cell : nat).

(* What a goroutine observes; its result is the list of its observations. *)
Inductive obs := OVal (v : value) | OClosed | ORead (v : value).

Record thread := Thread { code : list instr; log : list obs }.

Record chan := Chan { cap : nat; queue : list value; closed : bool; nsent : nat; nrecv : nat }.

(* Events of an execution, in the order of the interleaving.  [k] numbers the
   sends (resp. receives) of one channel from 0. *)
Inductive ev :=
| ESend (t ch k : nat)
| ERecv (t ch k : nat)
| EClose (t ch : nat)
| ERecvClosed (t ch : nat)
| EWrite (t cell : nat)
| ERead (t cell : nat)
| EPanic (t : nat).

Record sys := Sys {
  threads : list thread;
  chans : list (nat * chan);
  cells : list (nat * value);
  trace : list ev;
  panic : bool }.

(* ---------- finite maps as association lists, updated in place ---------- *)

Fixpoint lookup {A} (d : A) (k : nat) (l : list (nat * A)) : A :=
  match l with
  | [] => d
  | (k', a) :: r => if k' =? k then a else lookup d k r
  end.

Fixpoint set {A} (k : nat) (a : A) (l : list (nat * A)) : list (nat * A) :=
  match l with
  | [] => [(k, a)]
  | (k', a') :: r => if k' =? k then (k, a) :: r else (k', a') :: set k a r
  end.

Fixpoint upd_nth {A} (n : nat) (a : A) (l : list A) : list A :=
  match l, n with
  | [], _ => []
  | _ :: r, O => a :: r
  | x :: r, S n' => x :: upd_nth n' a r
  end.

(* a channel that was never made: unbuffered, open, empty *)
Definition nochan : chan := Chan 0 [] false 0 0.
Definition getc (s : sys) (ch : nat) : chan := lookup nochan ch (chans s).
Definition getcell (s : sys) (c : nat) : value := lookup [] c (cells s).
Definition getthread (s : sys) (t : nat) : thread := nth t (threads s) (Thread [] []).

(* ---------- one step ---------- *)

Definition recv_of (i : instr) : option nat :=
  match i with Recv c => Some c | Range c _ _ => Some c | _ => None end.

Definition wants_recv (ch : nat) (th : thread) : option unit :=
  match code th with
  | i :: _ => match recv_of i with
              | Some c => if c =? ch then Some tt else None
              | None => None
              end
  | [] => None
  end.

Definition wants_send (ch : nat) (th : thread) : option value :=
  match code th with
  | Send c v :: _ => if c =? ch then Some v else None
  | _ => None
  end.

(* first thread other than [skip] for which [f] answers *)
Fixpoint find_from {B} (f : thread -> option B) (skip i : nat) (l : list thread)
  : option (nat * B) :=
  match l with
  | [] => None
  | th :: r =>
    if i =? skip then find_from f skip (S i) r
    else match f th with
         | Some b => Some (i, b)
         | None => find_from f skip (S i) r
         end
  end.

Definition advance (th : thread) : thread := Thread (tl (code th)) (log th).

(* the receiving goroutine gets [Some v], or [None] from a closed channel *)
Definition deliver (th : thread) (o : option value) : thread :=
  match code th with
  | Recv _ :: rest =>
      Thread rest (log th ++ [match o with Some v => OVal v | None => OClosed end])
  | Range c body brk :: rest =>
      match o with
      | Some v => Thread (body v ++ (if brk v then rest else Range c body brk :: rest))
                         (log th ++ [OVal v])
      | None => Thread rest (log th ++ [OClosed])
      end
  | _ => th
  end.

Definition set_thread (s : sys) (t : nat) (th : thread) : list thread :=
  upd_nth t th (threads s).

Definition do_panic (s : sys) (t : nat) : sys :=
  Sys (threads s) (chans s) (cells s) (trace s ++ [EPanic t]) true.

(* sender [ts] and receiver [tr] meet on the unbuffered channel [ch] *)
Definition rendezvous (s : sys) (ts tr ch : nat) (v : value) : sys :=
  let c := getc s ch in
  let th1 := upd_nth ts (advance (getthread s ts)) (threads s) in
  let th2 := upd_nth tr (deliver (getthread s tr) (Some v)) th1 in
  Sys th2
      (set ch (Chan (cap c) (queue c) (closed c) (S (nsent c)) (S (nrecv c))) (chans s))
      (cells s)
      (trace s ++ [ESend ts ch (nsent c); ERecv tr ch (nrecv c)])
      false.

Definition recv_step (s : sys) (t : nat) (th : thread) (ch : nat) : option sys :=
  let c := getc s ch in
  match queue c with
  | v :: q =>
      Some (Sys (set_thread s t (deliver th (Some v)))
                (set ch (Chan (cap c) q (closed c) (nsent c) (S (nrecv c))) (chans s))
                (cells s) (trace s ++ [ERecv t ch (nrecv c)]) false)
  | [] =>
      if closed c then
        Some (Sys (set_thread s t (deliver th None)) (chans s) (cells s)
                  (trace s ++ [ERecvClosed t ch]) false)
      else if cap c =? 0 then
        match find_from (wants_send ch) t 0 (threads s) with
        | Some (ts, v) => Some (rendezvous s ts t ch v)
        | None => None
        end
      else None
  end.

(* [step s t]: the scheduler chooses goroutine [t].  [None]: [t] is not
   enabled (finished, blocked, no such goroutine, or the program has
   panicked).  A panicking step yields a state with [panic = true]. *)
Definition step (s : sys) (t : nat) : option sys :=
  if panic s then None else
  match nth_error (threads s) t with
  | None => None
  | Some th =>
    match code th with
    | [] => None
    | Send ch v :: _ =>
        let c := getc s ch in
        if closed c then Some (do_panic s t)
        else if cap c =? 0 then
          match find_from (wants_recv ch) t 0 (threads s) with
          | Some (r, _) => Some (rendezvous s t r ch v)
          | None => None
          end
        else if length (queue c) <? cap c then
          Some (Sys (set_thread s t (advance th))
                    (set ch (Chan (cap c) (queue c ++ [v]) false (S (nsent c)) (nrecv c)) (chans s))
                    (cells s) (trace s ++ [ESend t ch (nsent c)]) false)
        else None
    | Recv ch :: _ => recv_step s t th ch
    | Range ch _ _ :: _ => recv_step s t th ch
    | Close ch :: _ =>
        let c := getc s ch in
        if closed c then Some (do_panic s t)
        else Some (Sys (set_thread s t (advance th))
                       (set ch (Chan (cap c) (queue c) true (nsent c) (nrecv c)) (chans s))
                       (cells s) (trace s ++ [EClose t ch]) false)
    | Write cell v :: _ =>
        Some (Sys (set_thread s t (advance th)) (chans s) (set cell v (cells s))
                  (trace s ++ [EWrite t cell]) false)
    | Read cell :: _ =>
        Some (Sys (set_thread s t (Thread (tl (code th)) (log th ++ [ORead (getcell s cell)])))
                  (chans s) (cells s) (trace s ++ [ERead t cell]) false)
    end
  end.

(* A schedule is the list of the scheduler's choices; a choice that is not
   enabled is skipped (the goroutine stays parked). *)
Fixpoint run (sched : list nat) (s : sys) : sys :=
  match sched with
  | [] => s
  | t :: r => match step s t with Some s' => run r s' | None => run r s end
  end.

(* strict replay: every choice must be enabled *)
Fixpoint run_strict (sched : list nat) (s : sys) : option sys :=
  match sched with
  | [] => Some s
  | t :: r => match step s t with Some s' => run_strict r s' | None => None end
  end.

Definition enabled (s : sys) (t : nat) : bool :=
  match step s t with Some _ => true | None => false end.

(* nothing can move any more: all goroutines finished, or deadlock *)
Definition quiescent (s : sys) : Prop := forall t, step s t = None.
Definition quiescentb (s : sys) : bool :=
  forallb (fun t => negb (enabled s t)) (seq 0 (length (threads s))).

Definition finished (th : thread) : bool := match code th with [] => true | _ => false end.
Definition all_finished (s : sys) : bool := forallb finished (threads s).

(* values received so far by goroutine [t], in order *)
Fixpoint vals_of (l : list obs) : list value :=
  match l with
  | [] => []
  | OVal v :: r => v :: vals_of r
  | _ :: r => vals_of r
  end.
Definition received (s : sys) (t : nat) : list value := vals_of (log (getthread s t)).

Definition is_close (ch : nat) (e : ev) : bool :=
  match e with EClose _ c => c =? ch | _ => false end.
Definition nb_close (ch : nat) (tr : list ev) : nat := length (filter (is_close ch) tr).

(* [k] rounds in each of which every goroutine 0..n-1 is offered a step:
   the fairness needed for termination *)
Inductive rounds (n : nat) : nat -> list nat -> Prop :=
| rounds_O : forall l, rounds n 0 l
| rounds_S : forall k seg l,
    (forall t, t < n -> In t seg) -> rounds n k l -> rounds n (S k) (seg ++ l).

Fixpoint round_robin (n k : nat) : list nat :=
  match k with O => [] | S k' => seq 0 n ++ round_robin n k' end.

(* ---------- the library's programs ---------- *)

Definition mkchan (c : nat) : chan := Chan c [] false 0 0.
Definition start (ths : list (list instr)) (chs : list (nat * chan)) : sys :=
  Sys (map (fun c => Thread c []) ths) chs [] [] false.

(* solver.go:945-1032 Optimal with results != nil: one send per result
   (953, 966, 1017), then the deferred close (947).  [results] is the
   sequence of values of [res] that the loop produces; the returned value is
   the last one (955, 968, 1031). *)
Definition producer (ch : nat) (results : list value) : list instr :=
  map (Send ch) results ++ [Close ch].
Definition producer_optimal := producer 0.
Definition returned (results : list value) : value := last results [].

(* main.go:218,242 [for res = range results], main.go:107 [for range models] *)
Definition collect (ch : nat) : instr := Range ch (fun _ => []) (fun _ => false).
Definition consumer (ch : nat) : list instr := [collect ch].

(* goroutine 0 = the producer, goroutine 1 = the consumer, channel 0 *)
Definition optimal_sys (c : nat) (results : list value) : sys :=
  start [producer_optimal results; consumer 0] [(0, mkchan c)].

(* solver.go:644-686 Enumerate: each solver model gives a batch of 2^k sends
   (addCurrentModels, 913-923); deferred close (646); returns the number sent. *)
Definition producer_enumerate (batches : list (list value)) : list instr :=
  flat_map (map (Send 0)) batches ++ [Close 0].
Definition enumerate_sys (c : nat) (batches : list (list value)) : sys :=
  start [producer_enumerate batches; consumer 0] [(0, mkchan c)].
Definition returned_count (batches : list (list value)) : value :=
  [Z.of_nat (length (concat batches))].

(* maxsat/parser.go:28-38: localRes := make(chan Result) (unbuffered, channel 0);
   go s.solver.Optimal(localRes, stop) (goroutine 0);
   for res = range localRes { trim; results <- res } ; defer close(results)
   (goroutine 1, outer channel 1 of any capacity); goroutine 2 = the caller's
   consumer of [results]. *)
Definition forwarder (trim : value -> value) : list instr :=
  [Range 0 (fun v => [Send 1 (trim v)]) (fun _ => false); Close 1].
Definition forwarder_sys (c : nat) (trim : value -> value) (results : list value) : sys :=
  start [producer 0 results; forwarder trim; consumer 1] [(0, mkchan 0); (1, mkchan c)].

(* parser.go:33-35: a Sat result (status code 1) loses its relaxation
   variables: Model[:firstRelax]; the encoding is [status; weight; bits]. *)
Definition trim_result (first_relax : nat) (v : value) : value :=
  match v with
  | st :: w :: bits => if Z.eqb st 1 then st :: w :: firstn first_relax bits else v
  | _ => v
  end.

(* explain/check.go:127-138 as coded now.  Channel 0 = s.CertChan
   (unbuffered), channel 1 = statusCh (capacity 1), cell 0 = the solver's
   status (written by Solve).
   goroutine 1 (131-134): Solve sends the certificate [lines], writes its
   status, the status is sent on statusCh, CertChan is closed.
   goroutine 0 (135-138): UnsatChan = range over CertChan which may return
   early ([brk line]: invalid step or the empty clause, check.go:59-65); the
   drain loop (136); the receive from statusCh (138).  The final [Read 0] is
   a GHOST read that is not in the Go code: it makes the theorem say that
   whatever the solving goroutine wrote before the hand-over may be read by
   the caller after it without a race. *)
Definition us_solver_new (lines : list value) (st : value) : list instr :=
  map (Send 0) lines ++ [Write 0 st; Send 1 st; Close 0].
Definition us_main_new (brk : value -> bool) : list instr :=
  [Range 0 (fun _ => []) brk; collect 0; Recv 1; Read 0].
Definition us_new_sys (lines : list value) (st : value) (brk : value -> bool) : sys :=
  start [us_main_new brk; us_solver_new lines st] [(0, mkchan 0); (1, mkchan 1)].

(* the same before commit "fix: data race on the solver status in UnsatSubset":
   go func() { status = s.Solve(); close(s.CertChan) }()
   if valid, err := pb.UnsatChan(s.CertChan); !valid || status == solver.Sat *)
Definition us_solver_old (lines : list value) (st : value) : list instr :=
  map (Send 0) lines ++ [Write 0 st; Close 0].
Definition us_main_old (brk : value -> bool) : list instr :=
  [Range 0 (fun _ => []) brk; Read 0].
Definition us_old_sys (lines : list value) (st : value) (brk : value -> bool) : sys :=
  start [us_main_old brk; us_solver_old lines st] [(0, mkchan 0)].

(* check.go:62: the empty clause ends the check *)
Definition is_empty_clause (line : value) : bool :=
  match line with [z] => Z.eqb z 0 | _ => false end.

(* ---------- happens-before and data races ---------- *)

Definition ev_thread (e : ev) : nat :=
  match e with
  | ESend t _ _ | ERecv t _ _ | EClose t _ | ERecvClosed t _
  | EWrite t _ | ERead t _ | EPanic t => t
  end.

(* synchronisation edges of the Go memory model that the library relies on *)
Definition sync_edge (a b : ev) : bool :=
  match a, b with
  | ESend _ c k, ERecv _ c' k' => (c =? c') && (k =? k')
  | EClose _ c, ERecvClosed _ c' => c =? c'
  | _, _ => false
  end.

Definition ev_edge (a b : ev) : bool := (ev_thread a =? ev_thread b) || sync_edge a b.

(* positions i < j of the trace are directly ordered *)
Definition edge (tr : list ev) (i j : nat) : bool :=
  (i <? j) &&
  match nth_error tr i, nth_error tr j with
  | Some a, Some b => ev_edge a b
  | _, _ => false
  end.

Definition hb (tr : list ev) : nat -> nat -> Prop :=
  clos_trans nat (fun i j => edge tr i j = true).

(* decision procedure for [hb] (edges only go forward) *)
Fixpoint hbb_fuel (d : nat) (tr : list ev) (i j : nat) : bool :=
  match d with
  | O => false
  | S d' => edge tr i j ||
            existsb (fun m => edge tr m j && hbb_fuel d' tr i m) (seq (S i) (j - S i))
  end.
Definition hbb (tr : list ev) (i j : nat) : bool := hbb_fuel j tr i j.

Definition cell_access (e : ev) : option (nat * nat * bool) :=   (* thread, cell, is write *)
  match e with
  | EWrite t c => Some (t, c, true)
  | ERead t c => Some (t, c, false)
  | _ => None
  end.

Definition conflict (a b : ev) : bool :=
  match cell_access a, cell_access b with
  | Some (t, c, w), Some (t', c', w') => negb (t =? t') && (c =? c') && (w || w')
  | _, _ => false
  end.

(* every two conflicting accesses are ordered *)
Definition race_free (tr : list ev) : Prop :=
  forall i j a b, i < j -> nth_error tr i = Some a -> nth_error tr j = Some b ->
    conflict a b = true -> hb tr i j.

(* the unordered conflicting pairs of a trace (executable race detector) *)
Definition races (tr : list ev) : list (nat * nat) :=
  flat_map (fun j =>
    flat_map (fun i =>
      match nth_error tr i, nth_error tr j with
      | Some a, Some b => if conflict a b && negb (hbb tr i j) then [(i, j)] else []
      | _, _ => []
      end) (seq 0 j)) (seq 0 (length tr)).

(* ---------- footprints (C16_frame) ---------- *)

(* [uses C K i]: instruction [i] only touches channels in [C], cells in [K] *)
Inductive uses (C K : nat -> Prop) : instr -> Prop :=
| u_send : forall ch v, C ch -> uses C K (Send ch v)
| u_recv : forall ch, C ch -> uses C K (Recv ch)
| u_range : forall ch body brk, C ch ->
    (forall v i, In i (body v) -> uses C K i) -> uses C K (Range ch body brk)
| u_close : forall ch, C ch -> uses C K (Close ch)
| u_write : forall c v, K c -> uses C K (Write c v)
| u_read : forall c, K c -> uses C K (Read c).

(* goroutine t has footprint (C t, K t); footprints are pairwise disjoint *)
Definition disjoint_footprints (C K : nat -> nat -> Prop) (s : sys) : Prop :=
  (forall t i, In i (code (getthread s t)) -> uses (C t) (K t) i) /\
  (forall t t' x, t <> t' -> ~ (C t x /\ C t' x)) /\
  (forall t t' x, t <> t' -> ~ (K t x /\ K t' x)).

(* goroutine [t] alone: the others never run *)
Fixpoint keep_only (t i : nat) (l : list thread) : list thread :=
  match l with
  | [] => []
  | th :: r => (if i =? t then th else Thread [] []) :: keep_only t (S i) r
  end.
Definition alone (t : nat) (s : sys) : sys :=
  Sys (keep_only t 0 (threads s)) (chans s) (cells s) (trace s) (panic s).

(* ---------- the observable trace recorded by the Go harness ---------- *)

(* From the consumer side: each value received, the end of the range loop,
   and the value returned by the producing call (fetched after the loop). *)
Inductive oev := OReceived (v : value) | OClosedEv | OReturned (v : value).

Definition oev_eqb (a b : oev) : bool :=
  match a, b with
  | OReceived v, OReceived w => value_eqb v w
  | OClosedEv, OClosedEv => true
  | OReturned v, OReturned w => value_eqb v w
  | _, _ => false
  end.

Fixpoint oevs_eqb (a b : list oev) : bool :=
  match a, b with
  | [], [] => true
  | x :: a', y :: b' => oev_eqb x y && oevs_eqb a' b'
  | _, _ => false
  end.

Definition expected_trace (ret : value) (results : list value) : list oev :=
  map OReceived results ++ [OClosedEv; OReturned ret].

(* The capacity is an argument because it is part of a harness case; the
   protocol theorem shows that the answer does not depend on it. *)
Definition accepts_trace_gen (ret : value) (results : list value) (c : nat) (tr : list oev) : bool :=
  oevs_eqb tr (expected_trace ret results).

Definition accepts_trace (results : list value) (c : nat) (tr : list oev) : bool :=
  accepts_trace_gen (returned results) results c tr.

Definition accepts_enum_trace (batches : list (list value)) (c : nat) (tr : list oev) : bool :=
  accepts_trace_gen (returned_count batches) (concat batches) c tr.

(* what the consumer goroutine [t] of a run saw, in the harness's vocabulary *)
Definition oev_of_obs (o : obs) : list oev :=
  match o with OVal v => [OReceived v] | OClosed => [OClosedEv] | ORead _ => [] end.
Definition consumer_view (ret : value) (s : sys) (t : nat) : list oev :=
  flat_map oev_of_obs (log (getthread s t)) ++ [OReturned ret].

(* ---------- the values of a stream (C20_stream_values) ---------- *)

Fixpoint strictly_decreasing (l : list Z) : Prop :=
  match l with
  | [] => True
  | x :: r => match r with [] => True | y :: _ => (y < x)%Z end /\ strictly_decreasing r
  end.

(* [good v]: v is a model of all constraints carrying its true cost *)
Definition is_decreasing_stream (good : value -> Prop) (costv : value -> Z) (l : list value) : Prop :=
  Forall good l /\ strictly_decreasing (map costv l).

(* encoders for the judge *)
Definition enc_bits (m : list bool) : value := map (fun b : bool => if b then 1%Z else 0%Z) m.
Definition enc_result (status weight : Z) (m : list bool) : value := status :: weight :: enc_bits m.
