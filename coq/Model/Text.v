(* L1 model: the text readers of gophersat.
     solver/parser.go     ParseCNF, readInt, parseHeader      (byte machine)
     solver/parser_pb.go  ParseOPB, parsePBLine, parsePBConstrLine, parsePBOptim,
                          parseTerms                          (lines + fields)
     maxsat/parser.go     ParseWCNF, parseWCNFClause          (lines + fields)
     explain/parser.go    ParseCNF, parseHeader, parseClause  (lines + fields)
   Definitions only; proofs are in Proofs/Text*.v.

   Modelling decisions (all of them are restated in the final report):
   * a text is a list of bytes ([list ascii]); the [string] wrappers are at
     the end of the file;
   * Go [int] is [Z]: overflow of [readInt] and the range error of
     [strconv.Atoi] (|z| >= 2^63) are not modelled;
   * [strings.Fields] is modelled on ASCII: the blanks are \t \n \v \f \r and
     space.  Go also splits at the UTF-8 encodings of U+0085, U+00A0 and of the
     Unicode space separators; a text containing those is outside the model;
   * [bufio.Scanner] (ParseOPB, ParseWCNF, explain.ParseCNF): lines are cut at
     \n, one trailing \r is dropped, a last line without \n is delivered when
     it is not empty, and a line of 65536 bytes or more (the \n not counted,
     the \r counted) stops the scanner with ErrTooLong (bufio.MaxScanTokenSize);
   * every reader returns a [pres]: [POk v], [PErr] (Go returned an error),
     [PPanic] (Go panicked) or [PFuel] (the model ran out of fuel, never
     happens with the fuel used by the top-level functions). *)
From Coq Require Import List ZArith Bool NArith String Ascii.
From GS Require Import Spec.Base Spec.PB Spec.Solver.
Import ListNotations.
Open Scope Z_scope.

Definition bytes := list ascii.

Inductive pres (A : Type) : Type :=
| POk (a : A)
| PErr
| PPanic
| PFuel.
Arguments POk {A} a.
Arguments PErr {A}.
Arguments PPanic {A}.
Arguments PFuel {A}.

Definition pres_opt {A} (r : pres A) : option A :=
  match r with POk a => Some a | _ => None end.

(* ------------------------------------------------------------------ *)
(* Bytes.                                                              *)

Definition LF  : ascii := "010"%char.
Definition CR  : ascii := "013"%char.
Definition TAB : ascii := "009"%char.
Definition VT  : ascii := "011"%char.
Definition FF  : ascii := "012"%char.
Definition SP  : ascii := " "%char.

Definition code (c : ascii) : Z := Z.of_N (N_of_ascii c).
Definition chr (z : Z) : ascii := ascii_of_N (Z.to_N z).

Definition tok (s : string) : bytes := list_ascii_of_string s.

Fixpoint leqb (a b : bytes) : bool :=
  match a, b with
  | [], [] => true
  | x :: a', y :: b' => Ascii.eqb x y && leqb a' b'
  | _, _ => false
  end.

(* solver/parser.go:75-77  isSpace *)
Definition is_space (b : ascii) : bool :=
  Ascii.eqb b SP || Ascii.eqb b TAB || Ascii.eqb b LF || Ascii.eqb b CR.

(* strings.Fields on ASCII: asciiSpace = {'\t','\n','\v','\f','\r',' '} *)
Definition is_fspace (b : ascii) : bool :=
  Ascii.eqb b SP || Ascii.eqb b TAB || Ascii.eqb b LF || Ascii.eqb b CR
  || Ascii.eqb b VT || Ascii.eqb b FF.

(* ------------------------------------------------------------------ *)
(* Decimal integers.                                                   *)

Definition digit_of (c : ascii) : option Z :=
  let n := code c in
  if (48 <=? n) && (n <=? 57) then Some (n - 48) else None.

Definition digit_char (d : Z) : ascii := chr (48 + d).

(* most significant digit first, accumulator = value read so far *)
Fixpoint read_digits (acc : Z) (s : bytes) : option Z :=
  match s with
  | [] => Some acc
  | c :: r =>
    match digit_of c with
    | Some d => read_digits (acc * 10 + d) r
    | None => None
    end
  end.

(* strconv.Atoi: an optional sign '+' or '-', then at least one digit, and
   nothing else (base 10: no underscore).  Leading zeros are accepted. *)
Definition atoi (s : bytes) : option Z :=
  match s with
  | [] => None
  | c :: r =>
    if Ascii.eqb c "-"%char then
      match r with [] => None | _ => option_map Z.opp (read_digits 0 r) end
    else if Ascii.eqb c "+"%char then
      match r with [] => None | _ => read_digits 0 r end
    else read_digits 0 s
  end.

(* fmt "%d".  Least significant digit first; [S (log2 n)] digits are always
   enough, the [O] branch is never reached (Proofs/TextNum.v). *)
Fixpoint le_digits (fuel : nat) (n : Z) : list Z :=
  match fuel with
  | O => []
  | S f => (n mod 10) :: (if n <? 10 then [] else le_digits f (n / 10))
  end.

Definition print_nat_Z (n : Z) : bytes :=
  map digit_char (rev (le_digits (S (Z.to_nat (Z.log2 n))) n)).

Definition print_Zl (z : Z) : bytes :=
  if z <? 0 then "-"%char :: print_nat_Z (- z) else print_nat_Z z.

(* ------------------------------------------------------------------ *)
(* strings.Fields.                                                     *)

Fixpoint fields (s : bytes) : list bytes :=
  match s with
  | [] => []
  | c :: r =>
    if is_fspace c then fields r
    else match r with
         | [] => [[c]]
         | c' :: _ =>
           if is_fspace c' then [c] :: fields r
           else match fields r with
                | t :: ts => (c :: t) :: ts
                | [] => [[c]]           (* not reachable: r starts a field *)
                end
         end
  end.

(* strings.TrimSpace on ASCII: leading and trailing \t \n \v \f \r and space *)
Fixpoint drop_fspace (s : bytes) : bytes :=
  match s with
  | [] => []
  | c :: r => if is_fspace c then drop_fspace r else s
  end.

Definition trim_space (s : bytes) : bytes := rev (drop_fspace (rev (drop_fspace s))).

(* ------------------------------------------------------------------ *)
(* bufio.Scanner with ScanLines.                                       *)

(* cut at every \n; the part after the last \n is a line iff it is not empty *)
Fixpoint raw_lines (s : bytes) : list bytes :=
  match s with
  | [] => []
  | c :: r =>
    if Ascii.eqb c LF then [] :: raw_lines r
    else match raw_lines r with
         | [] => [[c]]
         | l :: ls => (c :: l) :: ls
         end
  end.

(* bufio.dropCR *)
Fixpoint drop_cr (l : bytes) : bytes :=
  match l with
  | [] => []
  | [c] => if Ascii.eqb c CR then [] else [c]
  | c :: r => c :: drop_cr r
  end.

Definition max_token : Z := 65536.
Definition short_line (l : bytes) : bool := Z.of_nat (List.length l) <? max_token.

(* the lines delivered by Scan() and whether Err() is ErrTooLong at the end *)
Fixpoint scan_raw (ls : list bytes) : list bytes * bool :=
  match ls with
  | [] => ([], false)
  | l :: r =>
    if short_line l then let (ls', e) := scan_raw r in (drop_cr l :: ls', e)
    else ([], true)
  end.

Definition scan_lines (s : bytes) : list bytes * bool := scan_raw (raw_lines s).

(* ------------------------------------------------------------------ *)
(* solver.ParseCNF (solver/parser.go).                                 *)

(* The reader state is the list of the bytes not yet consumed, with the
   "current byte" b of the Go code at its head; [] is err == io.EOF. *)

Inductive rint :=
| RInt (v : Z) (rest : bytes)   (* value, nil error; rest = current byte (a blank) :: unread *)
| REof                          (* err == io.EOF, before any digit *)
| RErr.

(* parser.go:85-87  for err == nil && isSpace( *b ) { *b, err = r.ReadByte() } *)
Fixpoint skip_spaces (s : bytes) : bytes :=
  match s with
  | [] => []
  | c :: r => if is_space c then skip_spaces r else s
  end.

(* parser.go:102-113.  [s] = current byte :: unread.
     for err == nil {
       if *b < '0' || *b > '9' { return error }
       res = 10*res + int( *b -'0')
       *b, err = r.ReadByte()
       if isSpace( *b ) { break }
     }
     res *= neg
     if err == io.EOF { *b = ' '; err = nil }   -- EOF is reported by the NEXT call
     return res, err
   When ReadByte hits EOF after a digit the value is returned with a nil error
   and the current byte becomes a blank: [RInt v [SP]]. *)
Fixpoint read_int_digits (neg : Z) (res : Z) (s : bytes) : rint :=
  match s with
  | [] => REof                                   (* never called with [] *)
  | b :: r =>
    match digit_of b with
    | None => RErr
    | Some d =>
      let res' := 10 * res + d in
      match r with
      | [] => RInt (res' * neg) [SP]      (* :113-116: EOF after a digit: *b = ' ', err = nil *)
      | b' :: _ => if is_space b' then RInt (res' * neg) r
                   else read_int_digits neg res' r
      end
    end
  end.

(* parser.go:84-114  readInt *)
Definition read_int (s : bytes) : rint :=
  match skip_spaces s with
  | [] => REof                                   (* :88-90 *)
  | b :: r =>
    if Ascii.eqb b "-"%char then                 (* :95-101 *)
      match r with
      | [] => RErr                               (* "cannot read int: EOF" *)
      | _ => read_int_digits (-1) 0 r
      end
    else read_int_digits 1 0 (b :: r)
  end.

Inductive cres :=
| CDone (c : option clause) (rest : bytes)  (* clause appended (or not), bytes for the outer loop *)
| CErr
| CFuel.

(* parser.go:159-180, the inner [for] of the clause branch.
   [rest] of [CDone] is what the outer loop sees after its own
   [b, err = r.ReadByte()] (:182): the byte after the blank that ended "0". *)
Fixpoint read_clause (fuel : nat) (nbvars : Z) (s : bytes) (lits : clause) : cres :=
  match fuel with
  | O => CFuel
  | S f =>
    match read_int s with
    | REof => CDone (match lits with [] => None | _ => Some lits end) []   (* :162-167 *)
    | RErr => CErr                                                         (* :168-170 *)
    | RInt v rest =>
      if v =? 0 then CDone (Some lits) (tl rest)                           (* :171-173 *)
      else if (nbvars <? v) || (nbvars <? - v) then CErr                   (* :175-177 *)
      else read_clause f nbvars rest (lits ++ [v])                         (* :178 *)
    end
  end.

(* bufio.Reader.ReadString('\n'): the line with its \n, and the rest;
   None when EOF comes first. *)
Fixpoint read_line (s : bytes) : option (bytes * bytes) :=
  match s with
  | [] => None
  | c :: r =>
    if Ascii.eqb c LF then Some ([c], r)
    else match read_line r with
         | Some (l, rest) => Some (c :: l, rest)
         | None => None
         end
  end.

(* parser.go:116-134  parseHeader; the 'p' has been consumed by the caller *)
Definition parse_header (s : bytes) : pres (Z * Z * bytes) :=
  (* :117-120  err != nil && (err != io.EOF || line == ""): the header may be
     the last line of the file, without its \n, if it is not empty *)
  match (match read_line s with
         | Some lr => Some lr
         | None => match s with [] => None | _ => Some (s, []) end
         end) with
  | None => PErr
  | Some (line, rest) =>
    match fields line with
    | _ :: f1 :: f2 :: _ =>
      match atoi f1 with
      | None => PErr
      | Some nv => match atoi f2 with
                   | None => PErr
                   | Some nc => POk (nv, nc, rest)
                   end
      end
    | _ => PErr
    end
  end.

(* parser.go:147-150: the bytes after the first \n (nothing if there is none) *)
Fixpoint skip_comment (s : bytes) : bytes :=
  match s with
  | [] => []
  | c :: r => if Ascii.eqb c LF then r else skip_comment r
  end.

(* parser.go:143-186, the outer loop.  [s] = current byte :: unread.
   The result is (pb.NbVars, pb.Clauses) just before simplify2 (:187). *)
Fixpoint cnf_top (fuel : nat) (s : bytes) (nbvars : Z) (cls : cnf) : pres (Z * cnf) :=
  match fuel with
  | O => PFuel
  | S f =>
    match s with
    | [] => POk (nbvars, cls)                                  (* err == io.EOF, :184 *)
    | b :: r =>
      if is_space b then cnf_top f r nbvars cls                 (* :145 *)
      else if Ascii.eqb b "c"%char then                         (* :146-150 *)
        cnf_top f (skip_comment r) nbvars cls
      else if Ascii.eqb b "p"%char then                         (* :151-157 *)
        match parse_header r with
        | POk (nv, nc, rest) =>
          (* make([]decLevel, nv) / make([]*Clause, 0, nc) panic when negative *)
          if (nv <? 0) || (nc <? 0) then PPanic
          else cnf_top f rest nv []
        | PErr => PErr
        | PPanic => PPanic
        | PFuel => PFuel
        end
      else                                                      (* :158-181 *)
        match read_clause f nbvars s [] with
        | CDone oc rest =>
          cnf_top f rest nbvars (match oc with Some c => cls ++ [c] | None => cls end)
        | CErr => PErr
        | CFuel => PFuel
        end
    end
  end.

(* fuel |text| + 2: always enough (Proofs/Text.v); |text| + 1 is enough for
   every rendered text (C13_dimacs_fuel) *)
Definition parse_dimacs_r (s : bytes) : pres (Z * cnf) :=
  cnf_top (S (S (List.length s))) s 0 [].

(* ------------------------------------------------------------------ *)
(* explain.ParseCNF (explain/parser.go).                               *)

Fixpoint omap_atoi (fs : list bytes) : option (list Z) :=
  match fs with
  | [] => Some []
  | f :: r => match atoi f with
              | None => None
              | Some z => match omap_atoi r with
                          | None => None
                          | Some zs => Some (z :: zs)
                          end
              end
  end.

Definition nonzero (z : Z) : bool := negb (z =? 0).

(* state: NbVars, NbClauses, Clauses *)
Definition estate := (Z * Z * cnf)%type.

(* parser.go:32-47, one iteration of the scanner loop *)
Definition expl_line (line : bytes) (st : estate) : pres estate :=
  let '(nbvars, nbclauses, cls) := st in
  let fs := fields line in
  match fs with
  | [] => POk st                                                   (* :33-35 *)
  | f0 :: _ =>
    if leqb f0 (tok "c") then POk st                               (* :37-38 *)
    else if leqb f0 (tok "p") then                                 (* :39-42, parseHeader :55-79 *)
      match fs with
      | [_; _; f2; f3] =>
        match atoi f2 with
        | None => PErr
        | Some nv =>
          if nv <? 0 then PErr else
          match atoi f3 with
          | None => PErr
          | Some nc => if nc <? 0 then PErr else POk (nv, nc, [])
          end
        end
      | _ => PErr                                                  (* len(fields) != 4 *)
      end
    else                                                           (* :43-46, parseClause :81-104 and :12-24 *)
      match omap_atoi fs with
      | None => PErr
      | Some zs =>
        let c := filter nonzero zs in
        match c with
        | [l] => if nbvars <? Z.abs l then PErr else POk (nbvars, nbclauses, cls ++ [c])
        | _ => POk (nbvars, nbclauses, cls ++ [c])
        end
      end
  end.

Fixpoint expl_lines (ls : list bytes) (st : estate) : pres estate :=
  match ls with
  | [] => POk st
  | l :: r => match expl_line l st with
              | POk st' => expl_lines r st'
              | e => e
              end
  end.

Definition parse_explain_r (s : bytes) : pres estate :=
  let (ls, toolong) := scan_lines s in
  match expl_lines ls (0, 0, []) with
  | POk st => if toolong then PErr else POk st                     (* :49-51 sc.Err() *)
  | e => e
  end.

(* ------------------------------------------------------------------ *)
(* maxsat.ParseWCNF (maxsat/parser.go).                                *)

(* what the reader has understood of the text: every clause with its weight,
   in the order of the file, without its terminator *)
Definition wclause := (Z * clause)%type.

Record wstate := WState {
  w_nbvars : Z;                  (* nbVars *)
  w_top : Z;                     (* topWeight, 0 = none *)
  w_relax : Z;                   (* relaxLit *)
  w_items : list wclause;        (* (weight, literals of the file) *)
  w_goclauses : cnf;             (* clauses: with the relaxing literal for the soft ones *)
  w_weights : list Z             (* weights: of the soft clauses *)
}.

Definition wstate0 : wstate := WState 0 0 0 [] [] [].

(* parser.go:111-135 parseWCNFClause: (lits of the file, clause given to ParseSlice, weight).
     fields := strings.Fields(line)
     lits = make([]int, len(fields)-1)         -- panics when there is no field
     every field must be an int (error otherwise); first = weight, others = lits
     the LAST field is not looked at: it is overwritten by the relaxing literal
     (soft) or cut off (hard); with a single field, lits[len(lits)-1] panics. *)
Definition wcnf_clause (line : bytes) (top relax : Z) : pres (clause * clause * Z) :=
  match fields line with
  | [] => PPanic
  | fs =>
    match omap_atoi fs with
    | None => PErr
    | Some [] => PPanic                                  (* not reachable *)
    | Some (w :: ls) =>
      match ls with
      | [] => PPanic                                     (* index -1 *)
      | _ =>
        let body := removelast ls in
        if (top =? 0) || (w <? top) then POk (body, body ++ [relax], w)
        else POk (body, body, w)
      end
    end
  end.

(* parser.go:59-99, one iteration of the scanner loop *)
Definition wcnf_line (line : bytes) (st : wstate) : pres wstate :=
  match line with
  | [] => POk st                                                    (* :61-63 *)
  | c0 :: _ =>
    match trim_space line with
    | [] => POk st                            (* :61-63 strings.TrimSpace(line) == "" *)
    | _ =>
    if Ascii.eqb c0 "p"%char then                                   (* :64-86 *)
      match fields line with
      | _ :: f1 :: f2 :: f3 :: rest =>
        if negb (leqb f1 (tok "wcnf")) then PErr else
        match atoi f2 with
        | None => PErr
        | Some nv =>
          match atoi f3 with
          | None => PErr
          | Some nc =>
            if nc <? 0 then PPanic else                             (* make(.., 0, nbClauses) *)
            match rest with
            | [f4] =>                                               (* len(fields) == 5 *)
              match atoi f4 with
              | None => PErr
              | Some t => POk (WState nv t (nv + 1) [] [] [])
              end
            | _ => POk (WState nv (w_top st) (nv + 1) [] [] [])
            end
          end
        end
      | _ => PErr                                                   (* len(fields) < 4 *)
      end
    else if Ascii.eqb c0 "c"%char then POk st                       (* :87 *)
    else                                                            (* :88-97 *)
      match wcnf_clause line (w_top st) (w_relax st) with
      | POk (body, goclause, w) =>
        if (w_top st =? 0) || (w <? w_top st) then
          POk (WState (w_nbvars st) (w_top st) (w_relax st + 1)
                      (w_items st ++ [(w, body)]) (w_goclauses st ++ [goclause])
                      (w_weights st ++ [w]))
        else
          POk (WState (w_nbvars st) (w_top st) (w_relax st)
                      (w_items st ++ [(w, body)]) (w_goclauses st ++ [goclause])
                      (w_weights st))
      | PErr => PErr
      | PPanic => PPanic
      | PFuel => PFuel
      end
    end
  end.

Fixpoint wcnf_lines (ls : list bytes) (st : wstate) : pres wstate :=
  match ls with
  | [] => POk st
  | l :: r => match wcnf_line l st with
              | POk st' => wcnf_lines r st'
              | e => e
              end
  end.

(* solver.ParseSlice (solver/parser.go:28-57) panics on a literal 0; it stops
   at the first empty clause (Status = Unsat; return). *)
Fixpoint slice_panics (cls : cnf) : bool :=
  match cls with
  | [] => false
  | [] :: _ => false
  | c :: r => if existsb (Z.eqb 0) c then true else slice_panics r
  end.

(* ParseWCNF ignores scanner.Err(): a line that is too long silently ends the
   problem (parser.go:59, no check after the loop). *)
Definition parse_wcnf_state (s : bytes) : pres wstate :=
  let (ls, _) := scan_lines s in
  match wcnf_lines ls wstate0 with
  | POk st =>
    (* parser.go:100  make([]solver.Lit, relaxLit-nbVars-1): negative when the
       text has no "p" line and no soft clause *)
    if w_relax st - w_nbvars st - 1 <? 0 then PPanic
    else if slice_panics (w_goclauses st) then PPanic     (* parser.go:104 ParseSlice *)
    else POk st
  | e => e
  end.

Definition parse_wcnf_r (s : bytes) : pres (Z * Z * list wclause) :=
  match parse_wcnf_state s with
  | POk st => POk (w_nbvars st, w_top st, w_items st)
  | PErr => PErr
  | PPanic => PPanic
  | PFuel => PFuel
  end.

(* ------------------------------------------------------------------ *)
(* solver.ParseOPB (solver/parser_pb.go).                              *)

Definition has_prefix (p s : bytes) : bool := leqb p (firstn (List.length p) s).

(* "x.." or "~x.." *)
Definition var_prefix (l : bytes) : bool := has_prefix (tok "x") l || has_prefix (tok "~x") l.

(* parser_pb.go:230-243: the literal and the variable number it mentions.
   "~xN" gives (-N, N), "xN" gives (N, N); N is read by Atoi (so "x+3", "x03"
   and even "x-3" are accepted, and "x0" gives the literal 0). *)
Definition opb_lit (l : bytes) : option (Z * Z) :=
  match l with
  | c :: _ =>
    if Ascii.eqb c "~"%char then option_map (fun v => (- v, v)) (atoi (skipn 2 l))
    else option_map (fun v => (v, v)) (atoi (skipn 1 l))
  | [] => None
  end.

(* parser_pb.go:208-247 parseTerms.  [nall] = len(terms), [i] = the index of
   the head of [ts] in terms (only used for the index of the error message
   :218, terms[i*2], which panics when it is out of range).
   Result: the terms and the updated NbVars. *)
Fixpoint parse_terms (nall i : nat) (ts : list bytes) (nbvars : Z) (acc : list term)
  : pres (list term * Z) :=
  match ts with
  | [] => POk (acc, nbvars)
  | t :: r =>
    match atoi t with
    | None =>                                                       (* :215-221 weight 1 *)
      if negb (var_prefix t) then
        (if Nat.ltb (2 * i) nall then PErr else PPanic)             (* :218 *)
      else
        match opb_lit t with
        | None => PErr                                              (* :238-240 *)
        | Some (l, v) => parse_terms nall (S i) r (Z.max nbvars v) (acc ++ [(1, l)])
        end
    | Some w =>                                                     (* :222-229 *)
      match r with
      | [] => PPanic                                                (* :225 terms[i] out of range *)
      | lt :: r' =>
        if negb (var_prefix lt) || Nat.ltb (List.length lt) 2 then PErr   (* :226-228 *)
        else
          match opb_lit lt with
          | None => PErr
          | Some (l, v) => parse_terms nall (S (S i)) r' (Z.max nbvars v) (acc ++ [(w, l)])
          end
      end
    end
  end.

(* state: NbVars, the constraints in the order of the file, the cost function *)
Definition ostate := (Z * list uc * option cost)%type.

(* parser_pb.go:146-158 parsePBLine, :133-144 parsePBOptim,
   :160-175 parsePBConstrLine up to the call of GtEq / Eq.  [line] is not
   empty.  What follows in Go (:176-205: GtEq/Eq, trivially true and false
   constraints, units, NewPBClause) cannot fail and belongs to Model/PBNorm. *)
Definition opb_line (line : bytes) (st : ostate) : pres ostate :=
  let '(nbvars, cs, cost) := st in
  if negb (Ascii.eqb (last line SP) ";"%char) then PErr else         (* :147-149 *)
  let fs := fields (removelast line) in
  match fs with
  | [] => PErr                                                        (* :151-153 *)
  | f0 :: rest =>
    if leqb f0 (tok "min:") then                                      (* :154-156 *)
      match parse_terms (List.length rest) 0 rest nbvars [] with
      | POk (ts, nv) => POk (nv, cs, Some ts)
      | PErr => PErr
      | PPanic => PPanic
      | PFuel => PFuel
      end
    else
      match rev fs with
      | rhs :: op :: t1 :: rts =>                                     (* len(fields) >= 3 *)
        let is_ge := leqb op (tok ">=") in
        let is_eq := leqb op (tok "=") in
        if negb (is_ge || is_eq) then PErr else                       (* :164-167 *)
        match atoi rhs with
        | None => PErr                                                (* :168-171 *)
        | Some k =>
          let ts := rev (t1 :: rts) in                                (* fields[:len(fields)-2] *)
          match parse_terms (List.length ts) 0 ts nbvars [] with      (* :172 *)
          | POk (tms, nv) => POk (nv, cs ++ [UC tms (if is_ge then Ge else Eq) k], cost)
          | PErr => PErr
          | PPanic => PPanic
          | PFuel => PFuel
          end
        end
      | _ => PErr                                                     (* :161-163 *)
      end
  end.

(* parser_pb.go:254-262 *)
Fixpoint opb_lines (ls : list bytes) (st : ostate) : pres ostate :=
  match ls with
  | [] => POk st
  | l0 :: r =>
    let l := trim_space l0 in                          (* :255 strings.TrimSpace(scanner.Text()) *)
    match l with
    | [] => opb_lines r st                                            (* line == "" *)
    | c0 :: _ =>
      if Ascii.eqb c0 "*"%char then opb_lines r st
      else match opb_line l st with
           | POk st' => opb_lines r st'
           | e => e
           end
    end
  end.

Definition parse_opb_r (s : bytes) : pres ostate :=
  let (ls, toolong) := scan_lines s in
  match opb_lines ls (0, [], None) with
  | POk st => if toolong then PErr else POk st                        (* :263-265 *)
  | e => e
  end.

(* ------------------------------------------------------------------ *)
(* The [string] interface.                                             *)

Definition read_Z (s : string) : option Z := atoi (list_ascii_of_string s).
Definition print_Z (z : Z) : string := string_of_list_ascii (print_Zl z).

(* (declared nbvars, clauses before simplify2) *)
Definition parse_dimacs (s : string) : option (Z * cnf) :=
  pres_opt (parse_dimacs_r (list_ascii_of_string s)).

(* (NbVars, NbClauses, Clauses) *)
Definition parse_dimacs_explain (s : string) : option (Z * Z * cnf) :=
  pres_opt (parse_explain_r (list_ascii_of_string s)).

(* (NbVars = highest variable mentioned, constraints, cost function) *)
Definition parse_opb (s : string) : option (Z * list uc * option cost) :=
  pres_opt (parse_opb_r (list_ascii_of_string s)).

(* (nbvars, top (0 = none), (weight, clause) in the order of the file) *)
Definition parse_wcnf (s : string) : option (Z * Z * list wclause) :=
  pres_opt (parse_wcnf_r (list_ascii_of_string s)).
