(* Model of solving under assumptions: solver.go Assume (:601-639) followed
   by Solve (:545-597).

   The CDCL search is NOT modelled: it is the parameter [solve], called on
   the top-level facts, the current assumptions (both as unit constraints)
   and the constraint database.  What the search adds to the solver during a
   round (learned units, which become reason-less level-1 literals, and
   learned clauses) is the parameter [learn]; its contract [learn_ok] -- what
   is learned under assumptions follows from the problem alone (learn.go:18,
   :61-65: literals of lower levels, assumptions included, stay in the learned
   clause) -- is a Section hypothesis of Proofs/Assume.v, not something
   proved here.

   Definitions only; proofs are in Proofs/Assume.v. *)
From Coq Require Import List ZArith Bool.
From GS Require Import Spec.Base Spec.PB Spec.Solver Model.Incr.
Import ListNotations.
Open Scope Z_scope.

Record astate := AState {
  a_n : nat;
  a_facts : list lit;     (* level-1 literals without reason that were not assumed *)
  a_db : problem;         (* original and learned constraints *)
  a_assumed : list lit;   (* the literals marked in s.assumptions, in trail order *)
  a_dead : bool           (* s.status == Unsat && s.model == nil: Unsat when built *)
}.

(* The loop of Assume, solver.go:620-631.  The trail is facts ++ assumed.
   An assumption that is already true (a fact, or assumed twice) is skipped;
   one that contradicts a fact or another assumption makes the round Unsat
   (false) and leaves the assumptions made so far on the trail. *)
Fixpoint assume_loop (facts assumed lits : list lit) : list lit * bool :=
  match lits with
  | [] => (assumed, true)
  | l :: r =>
    match lit_status (facts ++ assumed) l with
    | Some true => assume_loop facts assumed r
    | Some false => (assumed, false)
    | None => assume_loop facts (assumed ++ [l]) r
    end
  end.

(* Assume, solver.go:601-639: the facts survive, the former assumptions and
   everything deduced from them are dropped (cleanupBindings(0), :613).
   The final propagate(0, 1) (:633) is left to [solve]: a conflict there
   means the facts, assumptions and constraints have no model. *)
Definition assume (st : astate) (lits : list lit) : astate * bool :=
  if a_dead st then (st, false) else
  let (asm, ok) := assume_loop (a_facts st) [] lits in
  (AState (a_n st) (a_facts st) (a_db st) asm false, ok).

Definition round_problem (st : astate) : problem :=
  units (a_facts st) ++ units (a_assumed st) ++ a_db st.

Section Rounds.

Variable solve : solver.
(* learn n facts db assumed = (new facts, new clauses) *)
Variable learn : nat -> list lit -> problem -> list lit -> list lit * problem.

(* One round: Assume(lits) then Solve().  When Assume returns Unsat, Solve
   returns at once (:546). *)
Definition round (st : astate) (lits : list lit) : option model * astate :=
  let (st1, ok) := assume st lits in
  if ok then
    let out := solve (a_n st1) (round_problem st1) in
    let (nf, nc) := learn (a_n st1) (a_facts st1) (a_db st1) (a_assumed st1) in
    (out, AState (a_n st1) (a_facts st1 ++ nf) (a_db st1 ++ nc) (a_assumed st1) false)
  else (None, st1).

Fixpoint run_rounds (st : astate) (rounds : list (list lit)) : list (option model) :=
  match rounds with
  | [] => []
  | ls :: r => let (out, st') := round st ls in out :: run_rounds st' r
  end.

End Rounds.

(* A solver built from a problem: unit constraints are on the trail only
   (problem.Units); contradictory units: New returns &Solver{status: Unsat}. *)
Definition init_assume (n : nat) (base : problem) : astate :=
  let (us, db) := split_units base in
  match propagate_units [] us with
  | Some f => AState n f db [] false
  | None => AState n [] db [] true
  end.

(* Contract of [learn]: over the declared variables, what is learned follows
   from the facts and the database alone -- not from the assumptions. *)
Definition learn_ok (learn : nat -> list lit -> problem -> list lit -> list lit * problem) : Prop :=
  forall n F D A m, length m = n ->
    sat_problem m (units F ++ D) = true ->
    sat_problem m (units (fst (learn n F D A)) ++ snd (learn n F D A)) = true.

(* the verdicts of fresh solvers on base + the assumptions of each round *)
Definition round_verdicts (solve' : solver) (n : nat) (base : problem)
           (rounds : list (list lit)) : list bool :=
  map (fun ls => is_some (solve' n (base ++ units ls))) rounds.

(* ------------------------------------------------------------------ *)
(* Instances of [learn].                                                *)

Definition learn_none (n : nat) (F : list lit) (D : problem) (A : list lit)
  : list lit * problem := ([], []).

(* literals of variables k, ..., 1 that hold in every model of P *)
Fixpoint backbone (n : nat) (P : problem) (k : nat) : list lit :=
  match k with
  | O => []
  | S k' =>
    let v := Z.of_nat k in
    (match ref_solve n (P ++ [unit_pbc v]) with
     | None => [- v]
     | Some _ =>
       match ref_solve n (P ++ [unit_pbc (- v)]) with
       | None => [v]
       | Some _ => []
       end
     end) ++ backbone n P k'
  end.

(* Learns every backbone literal of the problem as a fact and, when the
   round is Unsat, the clause made of the negated assumptions. *)
Definition learn_ref (n : nat) (F : list lit) (D : problem) (A : list lit)
  : list lit * problem :=
  (backbone n (units F ++ D) n,
   if forallb (fun l => negb (l =? 0)) A then
     match ref_solve n (units F ++ units A ++ D) with
     | None => [clause_pbc (map Z.opp A)]
     | Some _ => []
     end
   else []).

Definition run_rounds_ref (n : nat) (base : problem) (rounds : list (list lit))
  : list (option model) :=
  run_rounds ref_solve learn_ref (init_assume n base) rounds.
