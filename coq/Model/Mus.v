(* Model/Mus.v -- executable mirror of explain/mus.go (MUSDeletion,
   MUSInsertion, MUSMaxSat, MUS) over abstract oracles, their instantiation
   with the exhaustive reference procedures, and an executable [is_musb].
   Definitions only; the proofs are in Proofs/Mus.v. *)
From Coq Require Import List ZArith Lia Bool.
From GS Require Import Spec.Base Spec.PB Spec.Solver Model.Rup.
Import ListNotations.
Open Scope Z_scope.

Inductive mus_res :=
| MusOk (s : cnf)   (* mus, nil                                          *)
| MusErr            (* nil, err  (problem not UNSAT)                     *)
| MusPanic          (* index out of range in MUSInsertion (mus.go:129)   *)
| MusFuel.          (* model artefact: out of fuel (proved unreachable)  *)

Fixpoint remove_nth {A : Type} (i : nat) (l : list A) : list A :=
  match l, i with
  | [], _ => []
  | _ :: r, O => r
  | a :: r, S j => a :: remove_nth j r
  end.

Definition clause_eq_dec : forall a b : clause, {a = b} + {a <> b} := list_eq_dec Z.eq_dec.

Section Algorithms.

(* pb.NbVars *)
Variable n : nat.
(* "is this clause set satisfiable over nv variables": solver.New(..).Solve() == Sat *)
Variable sat : nat -> cnf -> bool.
(* pb.UnsatSubset(): None = ErrNotUnsat *)
Variable subset : cnf -> option cnf.
(* an optimum of "satisfy [hard], violate as few clauses of [soft] as possible"
   over nv variables; None when [hard] is unsatisfiable (Minimize() = -1)   *)
Variable minrelax : nat -> cnf -> cnf -> option model.

(* ------------------------------------------------------------------ *)
(* MUSDeletion, mus.go:157-204, with the relaxation encoding abstracted:
   clause i is dropped when the clauses kept so far together with the ones
   not yet visited are still unsatisfiable.                              *)
Fixpoint del_loop (kept rest : cnf) : cnf :=
  match rest with
  | [] => kept
  | c :: r =>
    if sat n (kept ++ r) then del_loop (kept ++ [c]) r   (* Sat: reinsert the clause *)
    else del_loop kept r                                  (* still Unsat: removed     *)
  end.

Definition mus_deletion (f : cnf) : mus_res :=
  match subset f with
  | None => MusErr
  | Some s => MusOk (del_loop [] s)
  end.

(* The same with the encoding of the Go code: relax literal NbVars+i+1 is
   appended to clause i (mus.go:165-171), all assumptions start as the
   negated relax literals (173-176), assumption i is flipped, the solver is
   asked under the assumptions, and flipped back when the answer is Sat
   (177-190).  Solving under assumptions is modelled as solving with the
   assumptions added as unit clauses.                                     *)
Fixpoint relax_from (v : Z) (s : cnf) : cnf :=
  match s with
  | [] => []
  | c :: r => (c ++ [v]) :: relax_from (v + 1) r
  end.

Fixpoint lits_from (v : Z) (k : nat) : list lit :=
  match k with
  | O => []
  | S k' => v :: lits_from (v + 1) k'
  end.

Definition units_of (a : list lit) : cnf := map (fun l => [l]) a.

Fixpoint delr_loop (nv : nat) (R : cnf) (pre rest : list lit) : list lit :=
  match rest with
  | [] => pre
  | a :: r =>
    if sat nv (R ++ units_of (pre ++ (- a) :: r)) then delr_loop nv R (pre ++ [a]) r
    else delr_loop nv R (pre ++ [- a]) r
  end.

Definition mus_deletion_relax (f : cnf) : mus_res :=
  match subset f with
  | None => MusErr
  | Some s =>
    let k := length s in
    let first := Z.of_nat n + 1 in
    let A := delr_loop (n + k) (relax_from first s) [] (map Z.opp (lits_from first k)) in
    (* mus.go:194-202: the clauses whose assumption is not positive *)
    MusOk (select (map (fun a => negb (0 <? a)) A) s)
  end.

(* (pb *Problem).MUS(), mus.go:213-215 *)
Definition mus (f : cnf) : mus_res := mus_deletion f.

(* ------------------------------------------------------------------ *)
(* MUSInsertion, mus.go:109-147                                         *)

(* the inner loop (128-138): clauses[idx] are appended one by one while the
   solver says Sat.  Result: (clauses[:idx], clauses[idx]) after [idx--];
   None when idx runs past the end (Go panics).                          *)
Fixpoint ins_find (mus added cands : cnf) : option (cnf * clause) :=
  match cands with
  | [] => None
  | c :: r =>
    if sat n (mus ++ added ++ [c]) then ins_find mus (added ++ [c]) r
    else Some (added, c)
  end.

Fixpoint ins_loop (fuel : nat) (mus cands : cnf) : mus_res :=
  match fuel with
  | O => MusFuel
  | S f =>
    if sat n mus then
      match ins_find mus [] cands with
      | None => MusPanic
      | Some (pre, c) => ins_loop f (mus ++ [c]) pre
      end
    else MusOk mus
  end.

Definition mus_insertion (f : cnf) : mus_res :=
  match subset f with
  | None => MusErr
  | Some s => ins_loop (S (length s)) [] s
  end.

(* ------------------------------------------------------------------ *)
(* MUSMaxSat, mus.go:15-68.  State: the clauses with their [done] marks. *)

Definition hard_of (st : list (bool * clause)) : cnf := map snd (filter fst st).
Definition soft_of (st : list (bool * clause)) : cnf :=
  map snd (filter (fun x => negb (fst x)) st).

(* mus.go:45-59: every clause that is not yet done and that the optimum
   model violates becomes hard and joins the MUS                         *)
Fixpoint mark_violated (m : model) (st : list (bool * clause))
  : list (bool * clause) * cnf :=
  match st with
  | [] => ([], [])
  | (d, c) :: r =>
    let (st', add) := mark_violated m r in
    if negb d && negb (sat_clause m c) then ((true, c) :: st', c :: add)
    else ((d, c) :: st', add)
  end.

Fixpoint maxsat_loop (fuel : nat) (st : list (bool * clause)) (mus : cnf) : mus_res :=
  match fuel with
  | O => MusFuel
  | S f =>
    match minrelax n (hard_of st) (soft_of st) with
    | None => MusOk mus               (* cost == -1: the gathered clauses *)
    | Some m =>
      if forallb (sat_clause m) (soft_of st) then MusErr    (* cost == 0  *)
      else let (st', add) := mark_violated m st in
           maxsat_loop f st' (mus ++ add)
    end
  end.

(* the gathering loop alone: the clauses violated by the successive optima *)
Definition mus_maxsat_gather (f : cnf) : mus_res :=
  maxsat_loop (S (length f)) (map (pair false) f) [].

(* MUSMaxSat before commit 6770e40: the gathered clauses were returned as
   they are (not minimal: D19).  Kept as a regression witness.            *)
Definition mus_maxsat_old (f : cnf) : mus_res := mus_maxsat_gather f.

(* mus.go:36-40: when cost == -1 the function returns
   makeMus(nbVars, musClauses).MUSDeletion(): the gathered clauses are
   minimised with the deletion method (which first calls UnsatSubset on
   them).  makeMus (80-98) keeps NbVars and fills [units] from the unit
   clauses, i.e. builds [mk_problem n gathered].                         *)
Definition mus_maxsat (f : cnf) : mus_res :=
  match mus_maxsat_gather f with
  | MusOk g => mus_deletion g
  | r => r
  end.

End Algorithms.

(* ================================================================== *)
(* Instantiation with the verified exhaustive procedures.              *)

Definition sat_ref (nv : nat) (f : cnf) : bool :=
  match ref_solve nv (cnf_problem f) with Some _ => true | None => false end.

Definition subset_ref (nv : nat) (f : cnf) : option cnf :=
  if sat_ref nv f then None else Some f.

Definition viol (m : model) (s : cnf) : Z :=
  Z.of_nat (length (filter (fun c => negb (sat_clause m c)) s)).

Definition minrelax_ref (nv : nat) (hard soft : cnf) : option model :=
  match min_cost nv (fun m => sat_cnf m hard) (fun m => viol m soft) with
  | None => None
  | Some k => find_model nv (fun m => sat_cnf m hard && (viol m soft =? k))
  end.

Definition mus_deletion_ref (n : nat) (f : cnf) : mus_res :=
  mus_deletion n sat_ref (subset_ref n) f.
Definition mus_deletion_relax_ref (n : nat) (f : cnf) : mus_res :=
  mus_deletion_relax n sat_ref (subset_ref n) f.
Definition mus_insertion_ref (n : nat) (f : cnf) : mus_res :=
  mus_insertion n sat_ref (subset_ref n) f.
Definition mus_maxsat_ref (n : nat) (f : cnf) : mus_res :=
  mus_maxsat n sat_ref (subset_ref n) minrelax_ref f.
Definition mus_maxsat_old_ref (n : nat) (f : cnf) : mus_res :=
  mus_maxsat_old n minrelax_ref f.
Definition mus_ref (n : nat) (f : cnf) : mus_res := mus_deletion_ref n f.

(* ================================================================== *)
(* Executable specification, for the judge: is [s] a MUS of [f] ?       *)

Definition count_cl (s : cnf) (c : clause) : nat := count_occ clause_eq_dec s c.

Definition submultisetb (s f : cnf) : bool :=
  forallb (fun c => (count_cl s c <=? count_cl f c)%nat) s.

Definition is_musb (n : nat) (f s : cnf) : bool :=
  submultisetb s f && negb (sat_ref n s) &&
  forallb (fun i => sat_ref n (remove_nth i s)) (seq 0 (length s)).
