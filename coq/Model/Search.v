(* Model/Search.v -- the CDCL search loop of gophersat as a NONDETERMINISTIC
   transition system: solver/solver.go Solve (:545-597), search (:536-542),
   propagateAndSearch (:386-442), and what it calls: chooseLit (:259),
   unifyLiteral / propagateUnit (watcher.go:329, :348), cleanupBindings (:294),
   reduceLearned (watcher.go:190), and the conflict branch, which is
   Model.Learn.conflict_step.

   Everything the heuristics decide is left open: which literal is chosen,
   which constraints are looked at by propagation and in which order (lazy
   propagation is allowed), when a restart happens, which learned clauses are
   forgotten.  What is NOT left open is what the code does with a conflict:
   the successor is the one computed by [conflict_step] (learnClause,
   backtrackData, cleanupBindings).

   Definitions only; the proofs are in Proofs/Search.v.

   A configuration is (st, learned, lvl): [st] the bindings (Model.Learn.lstate),
   [learned] the clauses learned and still held (s.wl.learned), [lvl] the
   current decision level (1 = top level; the first decision is made at level
   2, solver.go:538).  The problem P (original constraints) and the number of
   variables n are fixed. *)
From Coq Require Import List ZArith Lia Bool.
From GS Require Import Spec.Base Spec.PB Model.Learn.
Import ListNotations.
Open Scope Z_scope.

Record sstate := SState {
  ss_st : lstate;
  ss_learned : list pbc;
  ss_lvl : Z
}.

Inductive answer :=
| ASat (m : list bool)      (* Solve returns Sat; m is s.Model()            *)
| AUnsat.                   (* setUnsat()                                   *)

Inductive config :=
| Running (s : sstate)
| Final (a : answer)
| Crashed.                  (* learnClause ran off the trail (Go: panic)    *)

(* propagateUnit, watcher.go:348-355: s.reason[v] = c; s.model[v] = +-lvl;
   the literal goes to the end of the trail *)
Definition propagate_unit (st : lstate) (c : pbc) (lvl : Z) (l : lit) : lstate :=
  LState (s_trail st ++ [l])
         (fun v => if v =? lvar l then signed_lvl l lvl else s_model st v)
         (fun v => if v =? lvar l then Some c else s_reason st v)
         (s_assumptions st).

(* the constraint is falsified by the current bindings: the terms that are
   not false cannot reach the degree (slack < 0)                          *)
Definition nonfalse_sum (st : lstate) (c : pbc) : Z :=
  wsum (filter (fun t => negb (lit_false st (snd t))) (terms c)).

(* Solver.Model(), solver.go:902-915: variable v is true iff model[v] > 0 *)
Definition read_model (n : nat) (st : lstate) : list bool :=
  map (fun i => 0 <? s_model st (Z.of_nat (S i))) (seq 0 n).

Definition all_assigned (n : nat) (st : lstate) : Prop :=
  forall v, 1 <= v <= Z.of_nat n -> s_model st v <> 0.

(* what it means for c to be falsified, semantically: c entails the
   disjunction of its false literals (as in Proofs.Learn.confl_ok)         *)
Definition falsified (st : lstate) (c : pbc) : Prop :=
  (forall x, In x (c_lits c) -> x <> 0) /\
  forall m, sat_pbc m c = true ->
            exists x, In x (c_lits c) /\ lit_false st x = true /\ lit_val m x = true.

(* what it means for c to propagate l when the trail is t1
   (Proofs.Learn.reason_ok, restated here because Model files hold no proofs) *)
Definition forces (t1 : list lit) (l : lit) (c : pbc) : Prop :=
  (forall x, In x (c_lits c) -> x <> 0) /\
  forall m, sat_pbc m c = true ->
    lit_val m l = true \/ exists x, In x (c_lits c) /\ In (- x) t1 /\ lit_val m x = true.

(* the conflict constraint handed to learnClause (Proofs.Learn.confl_ok) *)
Definition conflicting (st : lstate) (lvl : Z) (c : pbc) : Prop :=
  falsified st c /\
  NoDup (map lvar (filter (lit_false st) (c_lits c))) /\
  exists x, In x (c_lits c) /\ lit_false st x = true /\ lvl_of st (lvar x) = lvl.

Section Steps.
Variable P : problem.     (* the original constraints          *)
Variable n : nat.         (* the number of variables (s.nbVars) *)

Inductive step : config -> config -> Prop :=
(* lit = s.chooseLit(); lvl++; unifyLiteral(lit, lvl) -- any free literal *)
| St_decide : forall st L lvl l,
    l <> 0 -> s_model st (lvar l) = 0 ->
    step (Running (SState st L lvl))
         (Running (SState (unify_literal st l (lvl + 1)) L (lvl + 1)))
(* propagate: a constraint of the problem or a learned clause that forces a
   free literal binds it at the current level with itself as reason; any
   constraint, in any order, or none at all                                *)
| St_propagate : forall st L lvl l c,
    In c (P ++ L) -> l <> 0 -> s_model st (lvar l) = 0 ->
    forces (s_trail st) l c ->
    step (Running (SState st L lvl))
         (Running (SState (propagate_unit st c lvl l) L lvl))
(* a conflict: learnClause, then solver.go:412-438 *)
| St_conflict_jump : forall st L lvl c st' bl h cl,
    In c (P ++ L) -> conflicting st lvl c ->
    conflict_step c lvl st = OJump st' bl h cl ->
    step (Running (SState st L lvl))
         (Running (SState (unify_literal st' h bl) (clause_pbc cl :: L) bl))
| St_conflict_unit : forall st L lvl c st' u,
    In c (P ++ L) -> conflicting st lvl c ->
    conflict_step c lvl st = OUnit st' u ->
    step (Running (SState st L lvl))
         (Running (SState (unify_literal st' u 1) L 1))
| St_conflict_unsat : forall st L lvl c,
    In c (P ++ L) -> conflicting st lvl c ->
    conflict_step c lvl st = OUnsat ->
    step (Running (SState st L lvl)) (Final AUnsat)
| St_conflict_panic : forall st L lvl c,
    In c (P ++ L) -> conflicting st lvl c ->
    conflict_step c lvl st = OPanic ->
    step (Running (SState st L lvl)) Crashed
(* solver.go:421-423: after a learned unit was bound at level 1, a conflict
   found by its propagation is answered Unsat at once, without analysis     *)
| St_top_conflict : forall st L c,
    In c (P ++ L) -> falsified st c ->
    step (Running (SState st L 1)) (Final AUnsat)
(* solver.go:394-398 and Solve's loop: cleanupBindings(1), search() again *)
| St_restart : forall st L lvl,
    step (Running (SState st L lvl))
         (Running (SState (cleanup_bindings st 1) L 1))
(* reduceLearned: any learned clauses go, except the locked ones (reasons) *)
| St_forget : forall st L lvl L',
    incl L' L ->
    (forall t c, In t (s_trail st) -> s_reason st (lvar t) = Some c -> In c (P ++ L')) ->
    step (Running (SState st L lvl)) (Running (SState st L' lvl))
(* chooseLit() = -1: every variable is bound, the loop ends with Sat *)
| St_answer_sat : forall st L lvl,
    all_assigned n st ->
    (forall c, In c P -> degree c <= nonfalse_sum st c) ->
    step (Running (SState st L lvl)) (Final (ASat (read_model n st))).

Inductive run : config -> config -> Prop :=
| run_refl : forall a, run a a
| run_step : forall a b c, run a b -> step b c -> run a c.

End Steps.

(* ------------------------------------------------------------------ *)
(* The initial configuration: the unit constraints of the problem (the
   parser's Units, solver.go:127-134) and the assumed literals (Assume,
   solver.go:620-631), all at level 1 without reason.                   *)

Definition init_model (tr : list lit) : Z -> Z :=
  fun v => match find (fun l => lvar l =? v) tr with
           | Some l => signed_lvl l 1
           | None => 0
           end.

Definition init_lstate (units assumed : list lit) : lstate :=
  LState (units ++ assumed) (init_model (units ++ assumed)) (fun _ => None)
         (fun v => memv v assumed).

Definition init_config (units assumed : list lit) : config :=
  Running (SState (init_lstate units assumed) [] 1).

(* every variable of the problem is among 1..n *)
Definition vars_in (n : nat) (P : problem) : Prop :=
  forall c x, In c P -> In x (c_lits c) -> 1 <= lvar x <= Z.of_nat n.

(* ------------------------------------------------------------------ *)
(* An executable replay of a run given as a list of commands; every side
   condition is checked (sound, not complete: the checks are the slack
   tests of Model.Learn section 5).  Constraints are named by their index
   in P ++ learned.                                                     *)

Inductive cmd :=
| CDecide (l : lit)
| CPropagate (l : lit) (i : nat)
| CConflict (i : nat)
| CTopConflict (i : nat)
| CRestart
| CForget (keep : list bool)        (* one flag per learned clause *)
| CAnswerSat.

Fixpoint s_terms_eqb (x y : list term) : bool :=
  match x, y with
  | [], [] => true
  | (w1, l1) :: x', (w2, l2) :: y' => (w1 =? w2) && (l1 =? l2) && s_terms_eqb x' y'
  | _, _ => false
  end.
Definition s_pbc_eqb (c d : pbc) : bool := (degree c =? degree d) && s_terms_eqb (terms c) (terms d).

Fixpoint select_mask {A : Type} (mask : list bool) (l : list A) : list A :=
  match mask, l with
  | b :: ms, x :: xs => if b then x :: select_mask ms xs else select_mask ms xs
  | _, _ => []
  end.

Definition falsifiedb (st : lstate) (c : pbc) : bool :=
  nonneg_w c && nonzero_lits c && (nonfalse_sum st c <? degree c).

Definition vars_inb (n : nat) (P : problem) : bool :=
  forallb (fun c => forallb (fun x => (1 <=? lvar x) && (lvar x <=? Z.of_nat n)) (c_lits c)) P.

Definition replay_step (P : problem) (n : nat) (s : sstate) (k : cmd) : option config :=
  let st := ss_st s in
  let L := ss_learned s in
  let lvl := ss_lvl s in
  match k with
  | CDecide l =>
    if negb (l =? 0) && (s_model st (lvar l) =? 0)
    then Some (Running (SState (unify_literal st l (lvl + 1)) L (lvl + 1)))
    else None
  | CPropagate l i =>
    match nth_error (P ++ L) i with
    | Some c =>
      if negb (l =? 0) && (s_model st (lvar l) =? 0) && pb_reason_chk (s_trail st) l c
      then Some (Running (SState (propagate_unit st c lvl l) L lvl))
      else None
    | None => None
    end
  | CConflict i =>
    match nth_error (P ++ L) i with
    | Some c =>
      if confl_okb st lvl c then
        Some (match conflict_step c lvl st with
              | OJump st' bl h cl => Running (SState (unify_literal st' h bl) (clause_pbc cl :: L) bl)
              | OUnit st' u => Running (SState (unify_literal st' u 1) L 1)
              | OUnsat => Final AUnsat
              | OPanic => Crashed
              end)
      else None
    | None => None
    end
  | CTopConflict i =>
    match nth_error (P ++ L) i with
    | Some c => if (lvl =? 1) && falsifiedb st c then Some (Final AUnsat) else None
    | None => None
    end
  | CRestart => Some (Running (SState (cleanup_bindings st 1) L 1))
  | CForget keep =>
    let L' := select_mask keep L in
    if forallb (fun t => match s_reason st (lvar t) with
                         | None => true
                         | Some c => existsb (s_pbc_eqb c) (P ++ L')
                         end) (s_trail st)
    then Some (Running (SState st L' lvl))
    else None
  | CAnswerSat =>
    if forallb (fun i => negb (s_model st (Z.of_nat (S i)) =? 0)) (seq 0 n) &&
       forallb (fun c => degree c <=? nonfalse_sum st c) P
    then Some (Final (ASat (read_model n st)))
    else None
  end.

Fixpoint replay_from (P : problem) (n : nat) (cf : config) (ks : list cmd) : option config :=
  match ks with
  | [] => Some cf
  | k :: r =>
    match cf with
    | Running s =>
      match replay_step P n s k with
      | Some cf' => replay_from P n cf' r
      | None => None
      end
    | _ => None        (* no step after the final answer *)
    end
  end.

(* the initial configuration is acceptable: non-zero literals on distinct
   variables; [unit_of_problem]: each unit is a unit constraint of P       *)
Definition init_okb (P : problem) (units assumed : list lit) : bool :=
  forallb (fun l => negb (l =? 0)) (units ++ assumed) &&
  nodupb (map lvar (units ++ assumed)) &&
  forallb (fun u => existsb (s_pbc_eqb (clause_pbc [u])) P) units.

Definition replay (P : problem) (n : nat) (units assumed : list lit) (ks : list cmd)
  : option config :=
  if init_okb P units assumed then replay_from P n (init_config units assumed) ks else None.
