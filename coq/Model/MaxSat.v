(* L1: mirror of the MaxSAT front-ends of gophersat,
     maxsat/problem.go:22  func New(constrs ...Constr) *Problem
     maxsat/problem.go:101 func (pb *Problem) Solve() (Model, int)
     maxsat/parser.go:51   func ParseWCNF(f io.Reader) (solver.Interface, error)
     maxsat/parser.go:114  func parseWCNFClause(line string, topWeight, relaxLit int)
     maxsat/parser.go:23   func (s *Solver) Optimal(results chan solver.Result, stop chan struct{})
   on top of Model/Optim.v.  Also the specification vocabulary of C04 (what a weighted
   partial MaxSAT instance means).  Definitions only; proofs are in Proofs/MaxSat.v. *)
From Coq Require Import List ZArith Bool.
From GS Require Import Spec.Base Spec.PB Spec.Solver Model.Optim.
Import ListNotations.
Open Scope Z_scope.

(* ================================================================== *)
(* 1. The constraint API.                                              *)

(* maxsat.Constr (constr.go:32).  A user variable name is a positive integer v, a
   maxsat.Lit is a non-zero integer (Var = |l|, Negated = l < 0).  [mc_coeffs = []] is
   "Coeffs == nil" (problem.go:39 treats an empty slice as nil).  [mc_weight = 0] = hard. *)
Record mconstr := MC {
  mc_lits : list lit;
  mc_coeffs : list Z;
  mc_atleast : Z;
  mc_weight : Z
}.
Definition minst := list mconstr.

(* constr.go:40-70 *)
Definition hard_clause (ls : list lit) : mconstr := MC ls [] 1 0.
Definition soft_clause (ls : list lit) : mconstr := MC ls [] 1 1.
Definition weighted_clause (ls : list lit) (w : Z) : mconstr := MC ls [] 1 w.
Definition hard_pb (ls : list lit) (cs : list Z) (k : Z) : mconstr := MC ls cs k 0.
Definition soft_pb (ls : list lit) (cs : list Z) (k : Z) : mconstr := MC ls cs k 1.
Definition weighted_pb (ls : list lit) (cs : list Z) (k w : Z) : mconstr := MC ls cs k w.

(* ---- specification: meaning of an instance under an assignment [mu] of the user
   variables (index v-1 = variable v, as everywhere) ---- *)
Definition mc_terms (c : mconstr) : list term :=
  match mc_coeffs c with
  | [] => unit_terms (mc_lits c)
  | cs => combine cs (mc_lits c)
  end.
Definition mc_sat (mu : model) (c : mconstr) : bool := mc_atleast c <=? lhs mu (mc_terms c).
Definition mc_hard (c : mconstr) : bool := mc_weight c =? 0.
Definition sat_hard (mu : model) (inst : minst) : bool :=
  forallb (fun c => negb (mc_hard c) || mc_sat mu c) inst.
Fixpoint violated_weight (mu : model) (inst : minst) : Z :=
  match inst with
  | [] => 0
  | c :: r => (if mc_hard c || mc_sat mu c then 0 else mc_weight c) + violated_weight mu r
  end.

(* The instances for which C04 holds: literals non-zero; coefficients absent or as many
   as literals (otherwise GtEq panics, pb.go:64); weights >= 0 (0 = hard).  Negative and
   null coefficients and any AtLeast are allowed. *)
Definition wf_constr (c : mconstr) : bool :=
  forallb (fun l => negb (l =? 0)) (mc_lits c) &&
  (match mc_coeffs c with [] => true | cs => Nat.eqb (length cs) (length (mc_lits c)) end) &&
  (0 <=? mc_weight c).
Definition wf_inst (inst : minst) : bool := forallb wf_constr inst.

(* ---- mirror of New ---- *)

(* pb.varInts (problem.go:16): for each solver variable (index i = variable i+1) the user
   name, None = "" = blocking literal.  pb.intVars is its inverse: [var_index]. *)
Definition vmap := list (option Z).

Fixpoint var_index (v : Z) (vi : vmap) (k : Z) : option Z :=
  match vi with
  | [] => None
  | x :: r =>
    if match x with Some u => u =? v | None => false end then Some k
    else var_index v r (k + 1)
  end.

Definition signed (l : lit) (k : Z) : lit := if l <? 0 then - k else k.

(* problem.go:27-37 *)
Definition tr_lit (vi : vmap) (l : lit) : vmap * lit :=
  match var_index (Z.abs l) vi 1 with
  | Some k => (vi, signed l k)
  | None => (vi ++ [Some (Z.abs l)], signed l (Z.of_nat (length vi) + 1))
  end.

Fixpoint tr_lits (vi : vmap) (ls : list lit) : vmap * list lit :=
  match ls with
  | [] => (vi, [])
  | l :: r =>
    let (vi1, l') := tr_lit vi l in
    let (vi2, r') := tr_lits vi1 r in
    (vi2, l' :: r')
  end.

(* solver.GtEq (pb.go:63-80) on the list of (weight, lit): a negative weight is made
   positive by negating the literal and raising n, a zero weight is dropped.
   (Model/PBNorm.v has the index-exact mirror of the same function.) *)
Fixpoint gteq_terms (ts : list term) (n : Z) : list term * Z :=
  match ts with
  | [] => ([], n)
  | (w, l) :: r =>
    if w <? 0 then let (r', n') := gteq_terms r (n + - w) in ((- w, - l) :: r', n')
    else if w =? 0 then gteq_terms r n
    else let (r', n') := gteq_terms r n in ((w, l) :: r', n')
  end.

(* [coeffs = None]: weights == nil, the loop of GtEq does nothing.  With weights given
   GtEq panics unless len(lits) == len(weights) (pb.go:64); [combine] truncates instead. *)
Definition gteq (lits : list lit) (coeffs : option (list Z)) (n : Z) : pbc :=
  match coeffs with
  | None => PBC (unit_terms lits) n
  | Some cs => let (ts, n') := gteq_terms (combine cs lits) n in PBC ts n'
  end.

(* the PBConstr returned by GtEq as (Lits, Weights, AtLeast); [gteq] is its meaning *)
Definition gteq_c (lits : list lit) (coeffs : option (list Z)) (n : Z)
  : list lit * option (list Z) * Z :=
  match coeffs with
  | None => (lits, None, n)
  | Some cs =>
    let (ts, n') := gteq_terms (combine cs lits) n in (map snd ts, Some (map fst ts), n')
  end.

(* problem.go:25-65, one turn of the loop: new varInts, the PBConstr, and the entry
   added to blockWeights (as a term of the cost function) for a soft constraint. *)
Definition enc_constr (vi : vmap) (c : mconstr) : vmap * pbc * option term :=
  let (vi1, lits) := tr_lits vi (mc_lits c) in
  let coeffs := match mc_coeffs c with [] => None | cs => Some cs end in (* problem.go:38-42 *)
  if mc_weight c =? 0 then (vi1, gteq lits coeffs (mc_atleast c), None)  (* problem.go:64 *)
  else                                                                   (* problem.go:44 *)
    let vi2 := vi1 ++ [None] in                                          (* problem.go:45 *)
    let bl := Z.of_nat (length vi2) in                                   (* problem.go:46 *)
    let '(lits1, coeffs1, a1) := gteq_c lits coeffs (mc_atleast c) in    (* problem.go:51-52 *)
    let coeffs2 :=                                                       (* problem.go:53-58 *)
      match coeffs1 with
      | None => if 1 <? a1 then Some (repeat 1 (length lits1)) else None
      | Some cs => Some cs
      end in
    let lits3 := lits1 ++ [bl] in                                        (* problem.go:59 *)
    let coeffs3 :=                                                       (* problem.go:60-62 *)
      match coeffs2 with None => None | Some cs => Some (cs ++ [a1]) end in
    (vi2, gteq lits3 coeffs3 a1, Some (mc_weight c, bl)).                (* problem.go:64 *)

Fixpoint enc_all (vi : vmap) (cs : list mconstr) : vmap * problem * cost :=
  match cs with
  | [] => (vi, [], [])
  | c :: r =>
    let '(vi1, p, ot) := enc_constr vi c in
    let '(vi2, P, co) := enc_all vi1 r in
    (vi2, p :: P, match ot with Some t => t :: co | None => co end)
  end.

(* varInts, the constraints given to ParsePBConstrs and the cost function.
   blockWeights is a Go map: the order of the terms of the cost function (problem.go:64-67)
   is random in Go; here it is the creation order (the order is irrelevant for [cost_of]
   and for the bound constraint). *)
Definition encode (inst : minst) : vmap * problem * cost := enc_all [] inst.

(* ParsePBConstrs (parser_pb.go:80-86): NbVars = largest variable that still occurs
   after GtEq dropped the zero coefficients; problem.go:73-76 then grows it up to
   len(pb.varInts). *)
Definition pbc_maxvar (p : pbc) : Z := fold_right (fun t a => Z.max (Z.abs (snd t)) a) 0 (terms p).
Definition problem_nbvars (P : problem) : Z := fold_right (fun p a => Z.max (pbc_maxvar p) a) 0 P.

(* problem.go:106-112: the named part of the solver's model *)
Fixpoint named_model (vi : vmap) (m : model) : list (Z * bool) :=
  match vi, m with
  | Some v :: vi', b :: m' => (v, b) :: named_model vi' m'
  | None :: vi', _ :: m' => named_model vi' m'
  | _, _ => []
  end.

(* result of (pb *Problem) Solve(): (nil, -1), a maxsat.Model with its cost, or a panic *)
Inductive mresult := MUnsat | MSat (m : list (Z * bool)) (cost : Z) | MGoPanic.

Definition maxsat (solve : solver) (inst : minst) : mresult :=
  let '(vi, P, co) := encode inst in
  let n := Z.to_nat (Z.max (problem_nbvars P) (Z.of_nat (length vi))) in (* problem.go:72-76 *)
  match minimize_run solve n P (Some co) with      (* problem.go:102 *)
  | MRDone w last =>
    if w =? -1 then MUnsat                          (* problem.go:103-105 *)
    else match last with
         | Some m => MSat (named_model vi m) w      (* problem.go:106-113 *)
         | None => MGoPanic
         end
  | MRPanic => MGoPanic   (* s.model[lit.Var()] out of range (solver.go:1078), NewPBClause *)
  | MRFuel => MGoPanic    (* never: Proofs/Optim.v *)
  end.

(* reading a maxsat.Model as an assignment of the variables 1..nu (absent = false) *)
Fixpoint lookup (v : Z) (l : list (Z * bool)) : option bool :=
  match l with
  | [] => None
  | (u, b) :: r => if u =? v then Some b else lookup v r
  end.
Definition to_model (nu : nat) (res : list (Z * bool)) : model :=
  map (fun i => match lookup (Z.of_nat i) res with Some b => b | None => false end) (seq 1 nu).
Definition inst_maxvar (inst : minst) : Z :=
  fold_right (fun c a => Z.max (maxvar_clause (mc_lits c)) a) 0 inst.
Definition inst_nvars (inst : minst) : nat := Z.to_nat (inst_maxvar inst).
(* the variable names used by the instance *)
Definition inst_names (inst : minst) : list Z := flat_map (fun c => map Z.abs (mc_lits c)) inst.

(* the maxsat.Model as list bool, Some (model, cost) / None for Unsat (and for a panic) *)
Definition maxsat_model (solve : solver) (inst : minst) : option (model * Z) :=
  match maxsat solve inst with
  | MSat res w => Some (to_model (inst_nvars inst) res, w)
  | _ => None
  end.

(* ================================================================== *)
(* 2. The WCNF route.                                                  *)

(* The file after tokenisation: header fields nbVars and top (0 when absent,
   parser.go:84-89), and for each clause line its integer fields
   weight l1 ... lk 0. *)
Record wcnf := WCNF { w_nbvars : Z; w_top : Z; w_lines : list (list Z) }.

(* parser.go:96, 132 *)
Definition w_soft (top weight : Z) : bool := (top =? 0) || (weight <? top).

(* lits[len(lits)-1] = x ; on an empty slice Go panics, here nothing happens *)
Definition set_last (l : list Z) (x : Z) : list Z :=
  match l with [] => [] | _ => removelast l ++ [x] end.

(* parser.go:114-138; the last field (the terminating 0, not checked by the Go code)
   is overwritten by the relax literal or dropped *)
Definition parse_wcnf_clause (fields : list Z) (top relax : Z) : list lit * Z :=
  let weight := hd 0 fields in
  let lits := tl fields in
  if w_soft top weight then (set_last lits relax, weight) else (removelast lits, weight).

(* parser.go:90-101: clauses, weights, final relaxLit *)
Fixpoint wcnf_loop (lines : list (list Z)) (top relax : Z) : list clause * list Z * Z :=
  match lines with
  | [] => ([], [], relax)
  | f :: r =>
    let (cl, w) := parse_wcnf_clause f top relax in
    if w_soft top w then
      let '(cs, ws, rl) := wcnf_loop r top (relax + 1) in (cl :: cs, w :: ws, rl)
    else
      let '(cs, ws, rl) := wcnf_loop r top relax in (cl :: cs, ws, rl)
  end.

(* parser.go:100-109.  ParseSliceNb(clauses, relaxLit-1): every clause becomes a
   constraint of degree 1 and NbVars is relaxLit-1, or the largest variable occurring in
   the clauses if that is larger (solver/parser.go:22, 28-52). *)
Definition wcnf_encode (w : wcnf) : nat * problem * cost :=
  let '(cs, ws, rl) := wcnf_loop (w_lines w) (w_top w) (w_nbvars w + 1) in
  let relax_lits :=
    map (fun i => w_nbvars w + Z.of_nat i + 1) (seq 0 (Z.to_nat (rl - w_nbvars w - 1))) in
  (Z.to_nat (Z.max (rl - 1) (maxvar cs)), cnf_problem cs, combine ws relax_lits).

(* res.Model[:s.firstRelax] (parser.go:27, 37); None = slice bounds out of range *)
Definition trim_result (k : Z) (r : oresult) : option oresult :=
  match r with
  | OUnsat => Some OUnsat
  | OSat m c =>
    if k <=? Z.of_nat (length m) then Some (OSat (firstn (Z.to_nat k) m) c) else None
  end.

Fixpoint trim_all (k : Z) (s : list oresult) : option (list oresult) :=
  match s with
  | [] => Some []
  | r :: s' =>
    match trim_result k r, trim_all k s' with
    | Some r', Some s'' => Some (r' :: s'')
    | _, _ => None
    end
  end.

Inductive wrun := WPanic | WDone (r : oresult) (stream : list oresult).

(* parser.go:31-41: Optimal with a results channel *)
Definition wcnf_optimal_chan (solve : solver) (w : wcnf) : wrun :=
  let '(n, P, co) := wcnf_encode w in
  match optimal_run solve n P (Some co) with
  | RDone _ s =>
    match trim_all (w_nbvars w) s with
    | Some s' => WDone (last s' OUnsat) s'
    | None => WPanic
    end
  | _ => WPanic
  end.

(* parser.go:24-30: Optimal(nil, stop) trims the returned model too; nothing is streamed *)
Definition wcnf_optimal_nil (solve : solver) (w : wcnf) : wrun :=
  let '(n, P, co) := wcnf_encode w in
  match optimal_run solve n P (Some co) with
  | RDone r _ =>
    match trim_result (w_nbvars w) r with
    | Some r' => WDone r' []
    | None => WPanic
    end
  | _ => WPanic
  end.

(* ---- specification of a WCNF instance ---- *)
Definition wl_weight (f : list Z) : Z := hd 0 f.
Definition wl_clause (f : list Z) : clause := removelast (tl f).
Definition wl_soft (top : Z) (f : list Z) : bool := w_soft top (wl_weight f).

Definition w_sat_hard (mu : model) (w : wcnf) : bool :=
  forallb (fun f => wl_soft (w_top w) f || sat_clause mu (wl_clause f)) (w_lines w).
Fixpoint lines_violated (mu : model) (top : Z) (lines : list (list Z)) : Z :=
  match lines with
  | [] => 0
  | f :: r =>
    (if wl_soft top f && negb (sat_clause mu (wl_clause f)) then wl_weight f else 0)
    + lines_violated mu top r
  end.
Definition w_violated (mu : model) (w : wcnf) : Z := lines_violated mu (w_top w) (w_lines w).

(* well-formed lines: weight l1..lk 0 with 0 < |li| <= nbVars, weights >= 0 *)
Definition wf_line (nb : Z) (f : list Z) : bool :=
  (2 <=? Z.of_nat (length f)) && (last f 1 =? 0) && (0 <=? wl_weight f) &&
  forallb (fun l => negb (l =? 0) && (Z.abs l <=? nb)) (wl_clause f).
Definition wf_wcnf (w : wcnf) : bool :=
  (0 <=? w_nbvars w) && forallb (wf_line (w_nbvars w)) (w_lines w).
(* ================================================================== *)
(* Closed executable instances.                                        *)
Definition maxsat_ref := maxsat ref_solve.
Definition maxsat_model_ref := maxsat_model ref_solve.
Definition wcnf_optimal_chan_ref := wcnf_optimal_chan ref_solve.
Definition wcnf_optimal_nil_ref := wcnf_optimal_nil ref_solve.
