(* Mirror of gophersat/bf/parser.go (text syntax of boolean formulas), C17.
   Definitions only.

   Tokenisation is done in Go by text/scanner in its default mode (GoTokens,
   GoWhitespace, comments skipped).  [tokenize] models it on the documented
   alphabet.  A token is "name-like" (scanner kind < 0: identifiers -- text/scanner
   has no keywords -- and numbers) or a punctuation character (kind >= 0).
   [TId s] is a name-like token: an identifier or a plain sequence of decimal
   digits.  [TBad] is everything outside the model: characters such as '#',
   unterminated comments, and the other name-like tokens of text/scanner (floats,
   hexadecimal numbers, "strings", 'c'), which the Go parser would accept as
   variable names.  The model rejects any text that contains [TBad].

   The Go parser state is (scanner, eof flag, kind, current token).  Here it is the
   list of the tokens not yet consumed: its head is p.token, [] means p.eof
   (p.token = "" then).  p.scan() is "drop the head". *)
From Coq Require Import List String Ascii Arith Bool.
Import ListNotations.
Open Scope string_scope.
Open Scope nat_scope.
Open Scope list_scope.

Inductive tok :=
| TId (s : string) | TLp | TRp | TLb | TRb | TComma | TSemi | TEq | TBar | TAmp
| TCaret | TMinus | TGt | TBad.

Inductive binop := Seq | Equiv | Impl | Or | And.

Inductive ast :=
| AVar (s : string)
| ANot (a : ast)
| ABin (o : binop) (a b : ast)
| AUniq (l : list string).

(* ---------------------------------------------------------------- *)
(* Semantics: what bf.Formula.Eval computes on the formula built by  *)
(* the parser (bf.go: And, Or, Not, Implies, Eq, Unique).            *)

Definition eval_bin (o : binop) (x y : bool) : bool :=
  match o with
  | Seq => andb x y                     (* parser.go:86  And(f, f2) *)
  | And => andb x y                     (* parser.go:187 And(f, f2) *)
  | Or => orb x y                       (* parser.go:165 *)
  | Impl => orb (negb x) y              (* bf.go:297 or{not{f1}, f2} *)
  | Equiv => Bool.eqb x y               (* bf.go:302 *)
  end.

Fixpoint count_true (env : string -> bool) (l : list string) : nat :=
  match l with
  | [] => 0
  | x :: r => (if env x then 1 else 0) + count_true env r
  end.

(* Unique(vars...) : exactly one position of the list is true (bf.go:313;
   for more than 4 names gophersat adds auxiliary variables, the meaning on
   the named variables is the same). *)
Fixpoint eval_ast (env : string -> bool) (a : ast) : bool :=
  match a with
  | AVar s => env s
  | ANot x => negb (eval_ast env x)
  | ABin o x y => eval_bin o (eval_ast env x) (eval_ast env y)
  | AUniq l => Nat.eqb (count_true env l) 1
  end.

(* ---------------------------------------------------------------- *)
(* Tokens                                                            *)

(* p.s.TokenText() *)
Definition tok_text (t : tok) : option string :=
  match t with
  | TId s => Some s
  | TLp => Some "(" | TRp => Some ")" | TLb => Some "{" | TRb => Some "}"
  | TComma => Some "," | TSemi => Some ";" | TEq => Some "=" | TBar => Some "|"
  | TAmp => Some "&" | TCaret => Some "^" | TMinus => Some "-" | TGt => Some ">"
  | TBad => None
  end.

(* parser.go:54 isOperator.  The "->" alternative never matches: the scanner
   delivers "-" and ">" separately. *)
Definition is_operator (t : tok) : bool :=
  match t with TEq | TBar | TAmp | TSemi => true | _ => false end.

(* isOperator(p.token) on the current state; at eof p.token = "" *)
Definition starts_operator (ts : list tok) : bool :=
  match ts with t :: _ => is_operator t | [] => false end.

(* p.kind < 0: the token is name-like.  parser.go:240 and :255 reject the
   others ("a punctuation sign is not a variable name"). *)
Definition ident_text (t : tok) : option string :=
  match t with TId s => Some s | _ => None end.

Inductive res :=
| Ok (a : ast) (rest : list tok)
| Err
| OutOfFuel.

(* parser.go:235-251, the loop [for p.token != "}"].  [ts] is what follows the
   current token, which is "{" (first iteration) or "," (later ones). *)
Fixpoint parse_vars (ts : list tok) : option (list string * list tok) :=
  match ts with
  | [] => None                                   (* :236-238 scan, eof *)
  | t :: ts1 =>
    match ident_text t with                      (* :240 p.kind >= 0 *)
    | None => None
    | Some s =>                                  (* :243 append *)
      match ts1 with                             (* :244 scan *)
      | [] => None                               (* :245 eof *)
      | TRb :: ts2 => Some ([s], ts2)            (* loop ends, :252 scan *)
      | TComma :: ts2 =>
        match parse_vars ts2 with
        | Some (l, r) => Some (s :: l, r)
        | None => None
        end
      | _ :: _ => None                           (* :248 *)
      end
    end
  end.

Fixpoint parse_clause (fuel : nat) (ts : list tok) {struct fuel} : res :=
  match fuel with O => OutOfFuel | S n =>
  if starts_operator ts then Err else            (* :67 *)
  match parse_equiv n ts with                    (* :70 *)
  | Ok f r =>
    match r with
    | [] => Ok f []                              (* :74 *)
    | TSemi :: r1 =>                             (* :77 scan *)
      match r1 with
      | [] => Ok f []                            (* :79 trailing ";" accepted *)
      | _ :: _ =>
        match parse_clause n r1 with             (* :82 *)
        | Ok f2 r2 => Ok (ABin Seq f f2) r2
        | e => e
        end
      end
    | _ :: _ => Ok f r                           (* :88 *)
    end
  | e => e
  end end

with parse_equiv (fuel : nat) (ts : list tok) {struct fuel} : res :=
  match fuel with O => OutOfFuel | S n =>
  match ts with [] => Err | _ :: _ =>            (* :92 *)
  if starts_operator ts then Err else            (* :95 *)
  match parse_implies n ts with                  (* :98 *)
  | Ok f r =>
    match r with
    | [] => Ok f []                              (* :102 *)
    | TEq :: r1 =>
      match r1 with
      | [] => Err                                (* :107 *)
      | _ :: _ =>
        match parse_equiv n r1 with              (* :110 *)
        | Ok f2 r2 => Ok (ABin Equiv f f2) r2
        | e => e
        end
      end
    | _ :: _ => Ok f r
    end
  | e => e
  end end end

with parse_implies (fuel : nat) (ts : list tok) {struct fuel} : res :=
  match fuel with O => OutOfFuel | S n =>
  match parse_or n ts with                       (* :120 *)
  | Ok f r =>
    match r with
    | [] => Ok f []                              (* :124 *)
    | TMinus :: r1 =>                            (* :127 *)
      match r1 with
      | [] => Err                                (* :129 *)
      | TGt :: r2 =>
        match r2 with
        | [] => Err                              (* :136 *)
        | _ :: _ =>
          match parse_implies n r2 with          (* :139 *)
          | Ok f2 r3 => Ok (ABin Impl f f2) r3
          | e => e
          end
        end
      | _ :: _ => Err                            (* :132 *)
      end
    | _ :: _ => Ok f r
    end
  | e => e
  end end

with parse_or (fuel : nat) (ts : list tok) {struct fuel} : res :=
  match fuel with O => OutOfFuel | S n =>
  match parse_and n ts with                      (* :149 *)
  | Ok f r =>
    match r with
    | [] => Ok f []
    | TBar :: r1 =>
      match r1 with
      | [] => Err                                (* :158 *)
      | _ :: _ =>
        match parse_or n r1 with
        | Ok f2 r2 => Ok (ABin Or f f2) r2
        | e => e
        end
      end
    | _ :: _ => Ok f r
    end
  | e => e
  end end

with parse_and (fuel : nat) (ts : list tok) {struct fuel} : res :=
  match fuel with O => OutOfFuel | S n =>
  match parse_not n ts with                      (* :171 *)
  | Ok f r =>
    match r with
    | [] => Ok f []
    | TAmp :: r1 =>
      match r1 with
      | [] => Err                                (* :180 *)
      | _ :: _ =>
        match parse_and n r1 with
        | Ok f2 r2 => Ok (ABin And f f2) r2
        | e => e
        end
      end
    | _ :: _ => Ok f r
    end
  | e => e
  end end

with parse_not (fuel : nat) (ts : list tok) {struct fuel} : res :=
  match fuel with O => OutOfFuel | S n =>
  if starts_operator ts then Err else            (* :193 *)
  match ts with
  | TCaret :: r1 =>                              (* :196 *)
    match r1 with
    | [] => Err                                  (* :198 *)
    | _ :: _ =>
      match parse_not n r1 with
      | Ok f r2 => Ok (ANot f) r2
      | e => e
      end
    end
  | _ => parse_basic n ts                        (* :207 *)
  end end

with parse_basic (fuel : nat) (ts : list tok) {struct fuel} : res :=
  match fuel with O => OutOfFuel | S n =>
  match ts with
  | [] => Ok (AVar "") []                        (* :258 p.token = "", kind = EOF (never reached) *)
  | t :: r =>
    if is_operator t then Err else               (* :215 *)
    match t with
    | TRp => Err                                 (* :215 *)
    | TLp =>                                     (* :218 *)
      match parse_clause n r with                (* :220 *)
      | Ok f r1 =>
        match r1 with
        | [] => Err                              (* :224 *)
        | TRp :: r2 => Ok f r2                   (* :230 *)
        | _ :: _ => Err                          (* :227 *)
        end
      | e => e
      end
    | TLb =>                                     (* :233 *)
      match parse_vars r with
      | Some (l, r') => Ok (AUniq l) r'          (* :253 *)
      | None => Err
      end
    | _ =>
      match ident_text t with                    (* :255 p.kind >= 0 *)
      | Some s => Ok (AVar s) r                  (* :258-259 *)
      | None => Err
      end
    end
  end end.

(* Enough fuel: every call spends one unit, a token is consumed at least every
   7 calls (Proofs.BfParse.parse_clause_total). *)
Definition parse_fuel (toks : list tok) : nat := 7 * List.length toks + 7.

(* parser.go:39 Parse *)
Definition parse (toks : list tok) : option ast :=
  match parse_clause (parse_fuel toks) toks with
  | Ok f [] => Some f
  | Ok _ (_ :: _) => None                        (* :48 expected EOF *)
  | Err => None
  | OutOfFuel => None
  end.

(* ---------------------------------------------------------------- *)
(* Token-level printer                                               *)

Definition layout := list nat.

Definition next (lay : layout) : nat * layout :=
  match lay with [] => (0, []) | k :: l => (k, l) end.

Definition op_toks (o : binop) : list tok :=
  match o with
  | Seq => [TSemi] | Equiv => [TEq] | Impl => [TMinus; TGt] | Or => [TBar] | And => [TAmp]
  end.

(* priority levels: 0 atom, 1 ^, 2 &, 3 |, 4 ->, 5 =, 6 ; *)
Definition lvl (o : binop) : nat :=
  match o with Seq => 6 | Equiv => 5 | Impl => 4 | Or => 3 | And => 2 end.

Definition alvl (a : ast) : nat :=
  match a with AVar _ => 0 | AUniq _ => 0 | ANot _ => 1 | ABin o _ _ => lvl o end.

Fixpoint commas (l : list string) : list tok :=
  match l with
  | [] => []
  | [s] => [TId s]
  | s :: r => TId s :: TComma :: commas r
  end.

Fixpoint wrap (k : nat) (body : list tok) : list tok :=
  match k with O => body | S j => TLp :: wrap j body ++ [TRp] end.

(* [pr ctx a lay]: tokens of [a] in a position where a formula of level at most
   [ctx] is expected.  One layout number per sub-term: k mod 3 redundant pairs
   of parentheses.  Left operand of o: level < lvl o, right operand: <= lvl o
   (right nesting). *)
Fixpoint pr (ctx : nat) (a : ast) (lay : layout) {struct a} : list tok * layout :=
  let (k, lay1) := next lay in
  let extra := Nat.modulo k 3 in
  let need := if alvl a <=? ctx then 0 else 1 in
  let (body, lay2) :=
    match a with
    | AVar s => ([TId s], lay1)
    | AUniq l => (TLb :: commas l ++ [TRb], lay1)
    | ANot x => let (p, l2) := pr 1 x lay1 in (TCaret :: p, l2)
    | ABin o x y =>
      let (p, l2) := pr (lvl o - 1) x lay1 in
      let (q, l3) := pr (lvl o) y l2 in
      (p ++ op_toks o ++ q, l3)
    end in
  (wrap (if extra =? 0 then need else extra) body, lay2).

Definition print (lay : layout) (a : ast) : list tok := fst (pr 6 a lay).

(* ---------------------------------------------------------------- *)
(* Characters                                                        *)

Definition chr (n : nat) : ascii := ascii_of_nat n.

Definition is_letter (c : ascii) : bool :=
  let n := nat_of_ascii c in
  ((65 <=? n) && (n <=? 90)) || ((97 <=? n) && (n <=? 122)) || (n =? 95).
Definition is_digit (c : ascii) : bool :=
  let n := nat_of_ascii c in (48 <=? n) && (n <=? 57).
Definition is_blank (c : ascii) : bool :=
  let n := nat_of_ascii c in (n =? 32) || (n =? 9) || (n =? 13) || (n =? 10).

Definition punct (c : ascii) : option tok :=
  let n := nat_of_ascii c in
  if n =? 40 then Some TLp else if n =? 41 then Some TRp
  else if n =? 123 then Some TLb else if n =? 125 then Some TRb
  else if n =? 44 then Some TComma else if n =? 59 then Some TSemi
  else if n =? 61 then Some TEq else if n =? 124 then Some TBar
  else if n =? 38 then Some TAmp else if n =? 94 then Some TCaret
  else if n =? 45 then Some TMinus else if n =? 62 then Some TGt
  else None.

Fixpoint string_of_list (l : list ascii) : string :=
  match l with [] => EmptyString | c :: r => String c (string_of_list r) end.
Fixpoint list_of_string (s : string) : list ascii :=
  match s with EmptyString => [] | String c r => c :: list_of_string r end.

(* scanner state *)
Inductive sstate :=
| SNormal
| SIdent (acc : list ascii)     (* reversed characters of the identifier being read *)
| SNum (acc : list ascii)       (* reversed digits of the decimal number being read *)
| SSlash                        (* a '/' was read *)
| SLine                         (* inside // ... *)
| SBlock                        (* inside /* ... *)
| SBlockStar.                   (* inside /* ... and the last character was '*' *)

Definition step_normal (c : ascii) : list tok * sstate :=
  if is_blank c then ([], SNormal)
  else if is_letter c then ([], SIdent [c])
  else if is_digit c then ([], SNum [c])
  else if nat_of_ascii c =? 47 then ([], SSlash)
  else match punct c with
       | Some t => ([t], SNormal)
       | None => ([TBad], SNormal)
       end.

Definition step (st : sstate) (c : ascii) : list tok * sstate :=
  match st with
  | SNormal => step_normal c
  | SIdent acc =>
    if is_letter c || is_digit c then ([], SIdent (c :: acc))
    else let (out, st') := step_normal c in (TId (string_of_list (rev acc)) :: out, st')
  | SNum acc =>
    (* scanner.Int, kind < 0: name-like.  Only plain decimal digit sequences are
       modelled; a letter, '_' or '.' right after the digits (hexadecimal,
       exponent, float, digit separator) is outside the model. *)
    if is_digit c then ([], SNum (c :: acc))
    else if is_letter c || (nat_of_ascii c =? 46)
    then let (out, st') := step_normal c in (TBad :: out, st')
    else let (out, st') := step_normal c in (TId (string_of_list (rev acc)) :: out, st')
  | SSlash =>
    if nat_of_ascii c =? 47 then ([], SLine)
    else if nat_of_ascii c =? 42 then ([], SBlock)
    else let (out, st') := step_normal c in (TBad :: out, st')   (* a lone '/' *)
  | SLine => if nat_of_ascii c =? 10 then ([], SNormal) else ([], SLine)
  | SBlock => if nat_of_ascii c =? 42 then ([], SBlockStar) else ([], SBlock)
  | SBlockStar =>
    if nat_of_ascii c =? 47 then ([], SNormal)
    else if nat_of_ascii c =? 42 then ([], SBlockStar) else ([], SBlock)
  end.

Definition flush (st : sstate) : list tok :=
  match st with
  | SNormal | SLine => []
  | SIdent acc => [TId (string_of_list (rev acc))]
  | SNum acc => [TId (string_of_list (rev acc))]
  | SSlash => [TBad]
  | SBlock | SBlockStar => [TBad]     (* "comment not terminated" *)
  end.

Fixpoint scan_from (st : sstate) (cs : list ascii) : list tok :=
  match cs with
  | [] => flush st
  | c :: r => let (out, st') := step st c in out ++ scan_from st' r
  end.

Definition tokenize (cs : list ascii) : list tok := scan_from SNormal cs.

(* Full pipeline on a character list / on a Coq string *)
Definition parse_chars (cs : list ascii) : option ast := parse (tokenize cs).
Definition parse_string (s : string) : option ast := parse_chars (list_of_string s).

(* ---------------------------------------------------------------- *)
(* Character-level printer                                           *)

Definition tok_chars (t : tok) : list ascii :=
  match tok_text t with Some s => list_of_string s | None => [chr 35] (* '#' *) end.

(* comment text: a few characters, never '*' nor LF *)
Definition ctext_char (n : nat) : ascii :=
  match Nat.modulo n 6 with
  | 0 => chr 120 (* x *) | 1 => chr 32 | 2 => chr 38 (* & *) | 3 => chr 47 (* / *)
  | 4 => chr 40 (* ( *) | _ => chr 45 (* - *)
  end.

(* one separator item chosen by a layout number *)
Definition gap_item (k : nat) : list ascii :=
  match Nat.modulo k 6 with
  | 0 => [chr 32]
  | 1 => [chr 9]
  | 2 => [chr 10]
  | 3 => [chr 13]
  | 4 => chr 47 :: chr 47 :: ctext_char k :: ctext_char (k / 6) :: [chr 10]       (* // .. LF *)
  | _ => chr 47 :: chr 42 :: ctext_char k :: ctext_char (k / 6) :: chr 42 :: [chr 47]  (* /* .. */ *)
  end.

(* a gap: the first layout number says how many items (0..3), the next ones
   choose them *)
Fixpoint gap_items (n : nat) (lay : layout) : list ascii * layout :=
  match n with
  | O => ([], lay)
  | S m => let (k, l1) := next lay in
           let (g, l2) := gap_items m l1 in (gap_item k ++ g, l2)
  end.

Definition gap (lay : layout) : list ascii * layout :=
  let (k, l1) := next lay in gap_items (Nat.modulo k 4) l1.

Definition is_id (t : tok) : bool := match t with TId _ => true | _ => false end.

(* the separator between two identifiers cannot be empty *)
Definition gap_between (t1 t2 : tok) (lay : layout) : list ascii * layout :=
  let (g, l1) := gap lay in
  match g with
  | [] => if is_id t1 && is_id t2 then ([chr 32], l1) else ([], l1)
  | _ => (g, l1)
  end.

Fixpoint chars_after (t : tok) (ts : list tok) (lay : layout) : list ascii :=
  match ts with
  | [] => fst (gap lay)
  | t2 :: r => let (g, l1) := gap_between t t2 lay in
               g ++ tok_chars t2 ++ chars_after t2 r l1
  end.

Definition chars_of_toks (lay : layout) (ts : list tok) : list ascii :=
  match ts with
  | [] => fst (gap lay)
  | t :: r => let (g, l1) := gap lay in g ++ tok_chars t ++ chars_after t r l1
  end.

(* layout numbers are first used by the token printer, the rest by the blanks *)
Definition print_chars (lay : layout) (a : ast) : list ascii :=
  let (ts, lay') := pr 6 a lay in chars_of_toks lay' ts.

(* ---------------------------------------------------------------- *)
(* Well-formed identifiers, balance                                  *)

Definition valid_ident (s : string) : bool :=
  match list_of_string s with
  | [] => false
  | c :: r => is_letter c && forallb (fun d => is_letter d || is_digit d) r
  end.

(* a decimal number is a variable name too (scanner.Int has kind < 0) *)
Definition valid_number (s : string) : bool :=
  match list_of_string s with
  | [] => false
  | c :: r => is_digit c && forallb is_digit r
  end.

(* the name-like tokens of the model; Go keywords are ordinary names *)
Definition valid_name (s : string) : bool := valid_ident s || valid_number s.

Fixpoint wf_identsb (a : ast) : bool :=
  match a with
  | AVar s => valid_name s
  | ANot x => wf_identsb x
  | ABin _ x y => wf_identsb x && wf_identsb y
  | AUniq l =>
    match l with [] => false | _ :: _ => true end
    && forallb valid_name l
  end.

Definition wf_idents (a : ast) : Prop := wf_identsb a = true.

(* stack discipline for ( ) and { } ; true = brace *)
Fixpoint bal (st : list bool) (ts : list tok) : bool :=
  match ts with
  | [] => match st with [] => true | _ :: _ => false end
  | TLp :: r => bal (false :: st) r
  | TLb :: r => bal (true :: st) r
  | TRp :: r => match st with false :: s => bal s r | _ => false end
  | TRb :: r => match st with true :: s => bal s r | _ => false end
  | _ :: r => bal st r
  end.

Definition balanced (ts : list tok) : Prop := bal [] ts = true.

(* the shape of accepted token lists: operand/operator alternation with a
   parenthesis counter (Proofs.BfParse.parse_accept) *)
Inductive amode := MWant | MAfter | MMinus | MBName | MBSep.

Definition astep (m : amode) (d : nat) (t : tok) : option (amode * nat) :=
  match m with
  | MWant =>
    match t with
    | TId _ => Some (MAfter, d)
    | TLp => Some (MWant, S d)
    | TCaret => Some (MWant, d)
    | TLb => Some (MBName, d)
    | _ => None
    end
  | MAfter =>
    match t with
    | TAmp | TBar | TEq | TSemi => Some (MWant, d)
    | TMinus => Some (MMinus, d)
    | TRp => match d with O => None | S d' => Some (MAfter, d') end
    | _ => None
    end
  | MMinus => match t with TGt => Some (MWant, d) | _ => None end
  | MBName => match t with TId _ => Some (MBSep, d) | _ => None end
  | MBSep =>
    match t with
    | TComma => Some (MBName, d)
    | TRb => Some (MAfter, d)
    | _ => None
    end
  end.

Fixpoint arun (m : amode) (d : nat) (ts : list tok) : option (amode * nat) :=
  match ts with
  | [] => Some (m, d)
  | t :: r => match astep m d t with Some (m', d') => arun m' d' r | None => None end
  end.

(* accepted shape: operand/operator alternation, balanced parentheses, brace
   groups of names separated by commas, optional final ";" *)
Definition accept (ts : list tok) : bool :=
  match arun MWant 0 ts with
  | Some (MAfter, O) => true
  | Some (MWant, O) => match rev ts with TSemi :: _ :: _ => true | _ => false end
  | _ => false
  end.

(* tokens that cannot follow a complete formula: everything but the first token
   of a binary operator, i.e. identifiers ( ) { } , ^ > and TBad *)
Definition nocont (t : tok) : bool :=
  match t with TSemi | TEq | TBar | TAmp | TMinus => false | _ => true end.

(* tokens of the documented alphabet: the tokenizer gives them back *)
Definition good_tok (t : tok) : bool :=
  match t with TId s => valid_name s | TBad => false | _ => true end.

(* tokens that can start an operand: a name ( { ^ *)
Definition operand_start (t : tok) : bool :=
  match t with TId _ | TLp | TLb | TCaret => true | _ => false end.
