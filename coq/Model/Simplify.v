(* Model of the parse-time front ends and simplifiers of package solver:
     solver/parser.go     parseSlice          (l.28-73)
     solver/parser_pb.go  ParseCardConstrs    (l.13-66), ParsePBConstrs (l.76-130)
     solver/problem.go    simplify2 (l.104-168), simplifyCard (l.256-310),
                          simplifyPB (l.312-367), addUnit, addUnits,
                          replicateUnits, updateStatus
     solver/clause.go     NewClause, NewCardClause, NewPBClause, removeLit,
                          updateCardinality, Shrink
   Definitions only.  Literals stay DIMACS integers; Go's Lit encoding
   (2v / 2v+1) is a bijection with the non-zero integers and is not modelled.
   int32/uint32 overflow is not modelled (numbers are Z).

   Conventions used to mirror the Go arrays:
   * an array prefix [0..n) that Go manipulates with "x[k] = x[n-1]; n--"
     (swap-with-last removal) is a Coq list; when the slot being removed is the
     head of the not-yet-visited suffix [t], the new suffix is [swap_head t];
   * every loop has an explicit fuel.  The inner loops are called with a fuel
     equal to the length of the list they traverse, which always suffices; the
     outer "restart"/"modified" loops take the user's fuel and return a flag
     telling whether the fixpoint was reached ([true]) or the fuel ran out
     ([false]).  When the fuel runs out the current (equivalent, less
     simplified) problem is returned.
   * When Go returns early with Status = Unsat the contents of pb.Clauses is
     garbage (untruncated array whose clauses were modified in place); the
     model returns the clauses it currently knows.  Nothing may depend on
     [gp_clauses] when [gp_status = Unsat]. *)
From Coq Require Import List ZArith Lia Bool.
From GS Require Import Spec.Base Spec.PB.
Import ListNotations.
Open Scope Z_scope.

(* types.go:10-14 *)
Inductive status := Indet | Sat | Unsat.

Definition status_eqb (a b : status) : bool :=
  match a, b with
  | Indet, Indet | Sat, Sat | Unsat, Unsat => true
  | _, _ => false
  end.

(* clause.go:16 Clause: lits, pbData.weights (nil for clauses and cardinality
   constraints), Cardinality() = lbdValue+1. *)
Record gclause := GC {
  gc_lits : list lit;
  gc_weights : option (list Z);
  gc_card : Z
}.

(* problem.go:8 Problem *)
Record gproblem := GP {
  gp_nbvars : Z;
  gp_status : status;
  gp_units : list lit;
  gp_model : list Z;      (* per variable: 0 unbound, 1 true, -1 false *)
  gp_clauses : list gclause
}.

Definition set_status (g : gproblem) (s : status) : gproblem :=
  GP (gp_nbvars g) s (gp_units g) (gp_model g) (gp_clauses g).
Definition set_clauses (g : gproblem) (cs : list gclause) : gproblem :=
  GP (gp_nbvars g) (gp_status g) (gp_units g) (gp_model g) cs.
Definition set_model (g : gproblem) (M : list Z) : gproblem :=
  GP (gp_nbvars g) (gp_status g) (gp_units g) M (gp_clauses g).
Definition is_unsat (g : gproblem) : bool := status_eqb (gp_status g) Unsat.

(* ------------------------------------------------------------------ *)
(* pb.Model[lit.Var()]                                                  *)

Definition vidx (l : lit) : nat := Z.to_nat (Z.abs l - 1).
Definition mget (M : list Z) (l : lit) : Z := nth (vidx l) M 0.

Fixpoint list_set {A} (l : list A) (i : nat) (x : A) : list A :=
  match l, i with
  | [], _ => []
  | _ :: t, O => x :: t
  | a :: t, S i' => a :: list_set t i' x
  end.
Definition mset (M : list Z) (l : lit) (x : Z) : list Z := list_set M (vidx l) x.

(* "(pb.Model[lit.Var()] == 1) == lit.IsPositive()", used when Model != 0 *)
Definition mtrue (M : list Z) (l : lit) : bool := Bool.eqb (mget M l =? 1) (0 <? l).

(* "if v >= pb.NbVars { pb.NbVars = v + 1 }" with v = |l| - 1 *)
Definition grow (nb : Z) (l : lit) : Z := if nb <? Z.abs l then Z.abs l else nb.
Definition grow_all (nb : Z) (ls : list lit) : Z := fold_left grow ls nb.

(* Removing slot k of an array whose slots after k are [t]:
   "x[k] = x[n-1]; n--".  The slots from k on become [swap_head t]. *)
Definition swap_head {A} (t : list A) : list A :=
  match t with
  | [] => []
  | x :: _ => last t x :: removelast t
  end.

(* ------------------------------------------------------------------ *)
(* problem.go:369 addUnit                                               *)

Definition add_unit (g : gproblem) (l : lit) : gproblem :=
  if 0 <? l then
    if mget (gp_model g) l =? -1 then set_status g Unsat
    else GP (gp_nbvars g) (gp_status g) (gp_units g ++ [l]) (mset (gp_model g) l 1) (gp_clauses g)
  else
    if mget (gp_model g) l =? 1 then set_status g Unsat
    else GP (gp_nbvars g) (gp_status g) (gp_units g ++ [l]) (mset (gp_model g) l (-1)) (gp_clauses g).

(* problem.go:386 addUnits: no early exit when a conflict is met *)
Definition add_units (g : gproblem) (ls : list lit) : gproblem := fold_left add_unit ls g.

(* problem.go:393 replicateUnits *)
Definition replicate_units (g : gproblem) : gproblem :=
  set_model g (fold_left (fun M u => mset M u (if 0 <? u then 1 else -1)) (gp_units g) (gp_model g)).

(* problem.go:96 updateStatus (the truncation pb.Clauses[:nbClauses] is implicit:
   the model only keeps the live prefix) *)
Definition update_status (g : gproblem) : gproblem :=
  match gp_status g, gp_clauses g with
  | Indet, [] => set_status g Sat
  | _, _ => g
  end.

(* clause.go:186 updateCardinality on Cardinality() = lbdValue + 1 *)
Definition update_card (stored add : Z) : Z :=
  if (add <? 0) && (stored - 1 <? - add) then 1 else stored + add.

(* The loop shared by parser.go:58-71, parser_pb.go:50-63 and 114-127:
   pb.Model = make(..); bind every unit, stop at the first conflict.
   Returns the model array and [false] on conflict. *)
Fixpoint bind_units (U : list lit) (M : list Z) : list Z * bool :=
  match U with
  | [] => (M, true)
  | u :: r =>
    if mget M u =? 0 then bind_units r (mset M u (if 0 <? u then 1 else -1))
    else if Bool.eqb (0 <? mget M u) (0 <? u) then bind_units r M
    else (M, false)
  end.

(* ------------------------------------------------------------------ *)
(* simplify2, problem.go:104-168                                        *)

(* l.118-130: the k loop.  [kept] = slots j+1..k-1, [todo] = slots k..nbLits-1.
   None = "clauseSat" (lit and its negation both present). *)
Fixpoint s2_dedup (fuel : nat) (l : lit) (kept todo : list lit) : option (list lit) :=
  match fuel with
  | O => Some (kept ++ todo)
  | S f =>
    match todo with
    | [] => Some kept
    | l2 :: t =>
      if l2 =? - l then None
      else if l2 =? l then s2_dedup f l kept (swap_head t)
      else s2_dedup f l (kept ++ [l2]) t
    end
  end.

(* l.115-144: the j loop.  [pre] = slots 0..j-1, [todo] = slots j..nbLits-1.
   None = clauseSat; Some ls = the first nbLits slots at loop exit. *)
Fixpoint s2_lits (fuel : nat) (M : list Z) (pre todo : list lit) : option (list lit) :=
  match fuel with
  | O => Some (pre ++ todo)
  | S f =>
    match todo with
    | [] => Some pre
    | l :: t =>
      match s2_dedup (length t) l [] t with
      | None => None
      | Some t' =>
        if mget M l =? 0 then s2_lits f M (pre ++ [l]) t'
        else if mtrue M l then None
        else s2_lits f M pre (swap_head t')
      end
    end
  end.

Definition set_lits (c : gclause) (ls : list lit) : gclause := GC ls (gc_weights c) (gc_card c).

(* l.110-165: one execution of the "for i < nbClauses" loop.
   [done] = slots 0..i-1, [todo] = slots i..nbClauses-1; [g] carries Status,
   Units and Model ([gp_clauses g] is ignored and overwritten at exit). *)
Fixpoint s2_pass (fuel : nat) (g : gproblem) (done todo : list gclause) (restart : bool)
  : gproblem * bool :=
  match fuel with
  | O => (set_clauses g (done ++ todo), restart)
  | S f =>
    match todo with
    | [] => (set_clauses g done, restart)
    | c :: t =>
      match s2_lits (length (gc_lits c)) (gp_model g) [] (gc_lits c) with
      | None => s2_pass f g done (swap_head t) restart                      (* l.145-147 *)
      | Some [] => (set_status (set_clauses g (done ++ todo)) Unsat, restart) (* l.148-150 *)
      | Some [l] =>                                                          (* l.151-158 *)
        let g' := add_unit g l in
        if is_unsat g' then (set_clauses g' (done ++ todo), restart)
        else s2_pass f g' done (swap_head t) true
      | Some ls => s2_pass f g (done ++ [set_lits c ls]) t restart           (* l.159-164 *)
      end
    end
  end.

(* l.107-167: the "for restart" loop followed by updateStatus.
   Second component: true = loop exited normally, false = out of fuel. *)
Fixpoint s2_loop (fuel : nat) (g : gproblem) : gproblem * bool :=
  match fuel with
  | O => (g, false)
  | S f =>
    let '(g', restart) := s2_pass (length (gp_clauses g)) g [] (gp_clauses g) false in
    if is_unsat g' then (g', true)
    else if restart then s2_loop f g'
    else (update_status g', true)
  end.

(* ------------------------------------------------------------------ *)
(* parseSlice, parser.go:28-73                                          *)

(* l.29-57.  Result: (empty clause met, NbVars, Units, Clauses). *)
Fixpoint ps_scan (F : cnf) (nb : Z) (U : list lit) (C : list gclause)
  : bool * Z * list lit * list gclause :=
  match F with
  | [] => (false, nb, U, C)
  | line :: rest =>
    match line with
    | [] => (true, nb, U, C)
    | [l] => ps_scan rest (grow nb l) (U ++ [l]) C
    | _ => ps_scan rest (grow_all nb line) U (C ++ [GC line None 1])
    end
  end.

(* ParseSliceNb(F, n) with an explicit fuel for simplify2's restart loop;
   ParseSlice(F) is the case n = 0. *)
Definition parse_slice_full (fuel : nat) (n : Z) (F : cnf) : gproblem * bool :=
  let '(empty, nb, U, C) := ps_scan F n [] [] in
  if empty then (GP nb Unsat U [] C, true)                         (* l.31-33: Model is nil *)
  else
    let '(M, ok) := bind_units U (repeat 0 (Z.to_nat nb)) in       (* l.58-71 *)
    if ok then s2_loop fuel (GP nb Indet U M C)                     (* l.72 *)
    else (GP nb Unsat U M C, true).

Definition parse_slice (fuel : nat) (n : Z) (F : cnf) : gproblem := fst (parse_slice_full fuel n F).
Definition parse_slice_done (fuel : nat) (n : Z) (F : cnf) : bool := snd (parse_slice_full fuel n F).

(* A fuel that always suffices (every restart removes a clause). *)
Definition parse_slice_fuel (F : cnf) : nat := S (length F).
Definition ParseSliceNb (F : cnf) (n : Z) : gproblem := parse_slice (parse_slice_fuel F) n F.
Definition ParseSlice (F : cnf) : gproblem := ParseSliceNb F 0.

(* ------------------------------------------------------------------ *)
(* simplifyCard, problem.go:256-310                                     *)

(* l.268-285.  None = clauseSat; Some (first nbLits slots, card). *)
Fixpoint sc_lits (fuel : nat) (M : list Z) (card : Z) (pre todo : list lit)
  : option (list lit * Z) :=
  match fuel with
  | O => Some (pre ++ todo, card)
  | S f =>
    match todo with
    | [] => Some (pre, card)
    | l :: t =>
      if mget M l =? 0 then sc_lits f M card (pre ++ [l]) t
      else if mtrue M l then
        if card - 1 =? 0 then None
        else sc_lits f M (card - 1) pre (swap_head t)
      else sc_lits f M card pre (swap_head t)
    end
  end.

Fixpoint sc_pass (fuel : nat) (g : gproblem) (done todo : list gclause) (restart : bool)
  : gproblem * bool :=
  match fuel with
  | O => (set_clauses g (done ++ todo), restart)
  | S f =>
    match todo with
    | [] => (set_clauses g done, restart)
    | c :: t =>
      match sc_lits (length (gc_lits c)) (gp_model g) (gc_card c) [] (gc_lits c) with
      | None => sc_pass f g done (swap_head t) restart                         (* l.287-289 *)
      | Some (ls, card) =>
        let stored := update_card (gc_card c) (card - gc_card c) in            (* l.286 *)
        let nbLits := Z.of_nat (length ls) in
        if nbLits <? card then                                                   (* l.290-292 *)
          (set_status (set_clauses g (done ++ todo)) Unsat, restart)
        else if nbLits =? card then                                              (* l.293-300 *)
          let g' := add_units g ls in
          if is_unsat g' then (set_clauses g' (done ++ todo), restart)
          else sc_pass f g' done (swap_head t) true
        else sc_pass f g (done ++ [GC ls (gc_weights c) stored]) t restart       (* l.301-305 *)
      end
    end
  end.

Fixpoint sc_loop (fuel : nat) (g : gproblem) : gproblem * bool :=
  match fuel with
  | O => (g, false)
  | S f =>
    let '(g', restart) := sc_pass (length (gp_clauses g)) g [] (gp_clauses g) false in
    if is_unsat g' then (g', true)
    else if restart then sc_loop f g'
    else (update_status g', true)
  end.

(* ------------------------------------------------------------------ *)
(* ParseCardConstrs, parser_pb.go:13-66                                 *)

(* card.go:5 CardConstr{Lits, AtLeast} *)
Definition cardconstr := (list lit * Z)%type.

(* l.15-49.  Result: (unsat met, NbVars, Units, Clauses). *)
Fixpoint pc_scan (cs : list cardconstr) (nb : Z) (U : list lit) (C : list gclause)
  : bool * Z * list lit * list gclause :=
  match cs with
  | [] => (false, nb, U, C)
  | (lits, card) :: rest =>
    if card <=? 0 then pc_scan rest nb U C                                       (* l.17-19 *)
    else if Z.of_nat (length lits) <? card then (true, nb, U, C)                 (* l.20-23 *)
    else if Z.of_nat (length lits) =? card then
      pc_scan rest (grow_all nb lits) (U ++ lits) C                              (* l.24-35 *)
    else pc_scan rest (grow_all nb lits) U (C ++ [GC lits None card])            (* l.36-48 *)
  end.

Definition parse_card_full (fuel : nat) (cs : list cardconstr) : gproblem * bool :=
  let '(unsat, nb, U, C) := pc_scan cs 0 [] [] in
  if unsat then (GP nb Unsat U [] C, true)
  else
    let '(M, ok) := bind_units U (repeat 0 (Z.to_nat nb)) in
    if ok then sc_loop fuel (GP nb Indet U M C)
    else (GP nb Unsat U M C, true).

Definition parse_card (fuel : nat) (cs : list cardconstr) : gproblem := fst (parse_card_full fuel cs).
Definition parse_card_done (fuel : nat) (cs : list cardconstr) : bool := snd (parse_card_full fuel cs).
Definition parse_card_fuel (cs : list cardconstr) : nat := S (length cs).
Definition ParseCardConstrs (cs : list cardconstr) : gproblem := parse_card (parse_card_fuel cs) cs.

(* ------------------------------------------------------------------ *)
(* simplifyPB, problem.go:312-367.  Go keeps lits and weights in two
   parallel arrays on which removeLit (clause.go:198) acts in lock step; the
   model zips them into a list of terms (weight, lit). *)

Record spb_state := SPB {
  sp_g : gproblem;        (* Status, Units, Model *)
  sp_card : Z;            (* the local variable card *)
  sp_stored : Z;          (* c.Cardinality() as maintained by updateCardinality *)
  sp_wsum : Z;            (* the local variable wSum *)
  sp_terms : list term;   (* c's terms at exit *)
  sp_modified : bool;
  sp_abort : bool         (* returned at l.330-332 *)
}.

(* l.323-350: the j loop.  [pre] = slots 0..j-1, [todo] = slots j..Len()-1. *)
Fixpoint spb_lits (fuel : nat) (g : gproblem) (card stored wsum : Z)
         (pre todo : list term) (modified : bool) : spb_state :=
  match fuel with
  | O => SPB g card stored wsum (pre ++ todo) modified false
  | S f =>
    match todo with
    | [] => SPB g card stored wsum pre modified false
    | (w, l) :: t =>
      if mget (gp_model g) l =? 0 then
        if wsum - w <? card then                                       (* l.328-337 *)
          let g' := add_unit g l in
          if is_unsat g' then SPB g' card stored wsum (pre ++ todo) modified true
          else spb_lits f g' (card - w) (update_card stored (- w)) (wsum - w)
                        pre (swap_head t) true
        else spb_lits f g card stored wsum (pre ++ [(w, l)]) t modified   (* l.338-340 *)
      else                                                             (* l.341-349 *)
        if mtrue (gp_model g) l
        then spb_lits f g (card - w) (update_card stored (- w)) (wsum - w) pre (swap_head t) true
        else spb_lits f g card stored (wsum - w) pre (swap_head t) true
    end
  end.

(* clause.go:165 WeightSum on a PB clause *)
Definition sum_weights (ts : list term) : Z := fold_left (fun a t => a + fst t) ts 0.

Definition gc_terms (c : gclause) : list term :=
  match gc_weights c with
  | None => unit_terms (gc_lits c)
  | Some ws => combine ws (gc_lits c)
  end.

Definition terms_clause (ts : list term) (card : Z) : gclause :=
  GC (map snd ts) (Some (map fst ts)) card.

(* l.318-362: one execution of the "for i < len(pb.Clauses)" loop. *)
Fixpoint spb_pass (fuel : nat) (g : gproblem) (done todo : list gclause) (modified : bool)
  : gproblem * bool :=
  match fuel with
  | O => (set_clauses g (done ++ todo), modified)
  | S f =>
    match todo with
    | [] => (set_clauses g done, modified)
    | c :: t =>
      let ts := gc_terms c in
      let s := spb_lits (length ts) g (gc_card c) (gc_card c) (sum_weights ts) [] ts modified in
      if sp_abort s then (set_clauses (sp_g s) (done ++ todo), true)
      else if sp_card s <=? 0 then                                     (* l.351-354 *)
        spb_pass f (sp_g s) done (swap_head t) true
      else if sp_wsum s <? sp_card s then                              (* l.355-358 *)
        (set_status (set_clauses (sp_g s) []) Unsat, true)
      else spb_pass f (sp_g s) (done ++ [terms_clause (sp_terms s) (sp_stored s)]) t
                    (sp_modified s)                                    (* l.359-361 *)
    end
  end.

(* l.313-366 without replicateUnits *)
Fixpoint spb_loop (fuel : nat) (g : gproblem) : gproblem * bool :=
  match fuel with
  | O => (g, false)
  | S f =>
    let '(g', modified) := spb_pass (length (gp_clauses g)) g [] (gp_clauses g) false in
    if is_unsat g' then (g', true)
    else if modified then spb_loop f g'
    else (update_status g', true)                                      (* l.364-366 *)
  end.

Definition simplify_pb (fuel : nat) (g : gproblem) : gproblem * bool :=
  spb_loop fuel (replicate_units g).

(* ------------------------------------------------------------------ *)
(* ParsePBConstrs, parser_pb.go:76-130                                  *)

(* pb.go:4 PBConstr.  [None] is the nil slice. *)
Record pbconstr := PBCo {
  pc_lits : list lit;
  pc_weights : option (list Z);
  pc_atleast : Z
}.

(* pb.go:11 WeightSum *)
Definition pc_weight_sum (c : pbconstr) : Z :=
  match pc_weights c with
  | None => Z.of_nat (length (pc_lits c))
  | Some ws => fold_left Z.add ws 0
  end.

(* clause.go:65 NewPBClause.  sort.Sort with Less(i,j) = weights[i] > weights[j]:
   for at most 12 terms Go runs a (stable) insertion sort, mirrored here; for
   longer constraints Go's pdqsort may order terms of equal weight differently. *)
Fixpoint insert_term (t : term) (ts : list term) : list term :=
  match ts with
  | [] => [t]
  | h :: r => if fst h <? fst t then t :: h :: r else h :: insert_term t r
  end.
Definition sort_terms (ts : list term) : list term :=
  fold_left (fun acc t => insert_term t acc) ts [].

Definition new_pb_clause (lits : list lit) (weights : option (list Z)) (card : Z) : gclause :=
  match weights with
  | None => GC lits (Some (repeat 1 (length lits))) card
  | Some ws => terms_clause (sort_terms (combine ws lits)) card
  end.

(* l.97-109: append the literals that are not yet in pb.Units *)
Definition add_new_units (U : list lit) (lits : list lit) : list lit :=
  fold_left (fun U l => if existsb (Z.eqb l) U then U else U ++ [l]) lits U.

(* l.79-113.  Result: (unsat met, NbVars, Units, Clauses). *)
Fixpoint pp_scan (cs : list pbconstr) (nb : Z) (U : list lit) (C : list gclause)
  : bool * Z * list lit * list gclause :=
  match cs with
  | [] => (false, nb, U, C)
  | c :: rest =>
    let nb' := grow_all nb (pc_lits c) in                                        (* l.80-86 *)
    let card := pc_atleast c in
    if card <=? 0 then pp_scan rest nb' U C                                      (* l.88-90 *)
    else
      let sumW := pc_weight_sum c in
      if sumW <? card then (true, nb', U, C)                                     (* l.92-95 *)
      else if sumW =? card then pp_scan rest nb' (add_new_units U (pc_lits c)) C (* l.96-109 *)
      else pp_scan rest nb' U (C ++ [new_pb_clause (pc_lits c) (pc_weights c) card])
  end.

Definition parse_pb_full (fuel : nat) (cs : list pbconstr) : gproblem * bool :=
  let '(unsat, nb, U, C) := pp_scan cs 0 [] [] in
  if unsat then (GP nb Unsat U [] C, true)
  else
    let '(M, ok) := bind_units U (repeat 0 (Z.to_nat nb)) in
    if ok then simplify_pb fuel (GP nb Indet U M C)
    else (GP nb Unsat U M C, true).

Definition parse_pb (fuel : nat) (cs : list pbconstr) : gproblem := fst (parse_pb_full fuel cs).
Definition parse_pb_done (fuel : nat) (cs : list pbconstr) : bool := snd (parse_pb_full fuel cs).

(* A fuel that always suffices: every pass that sets "modified" removes a
   term or a constraint. *)
Definition pb_size (cs : list pbconstr) : nat :=
  fold_right (fun c a => (S (length (pc_lits c)) + a)%nat) O cs.
Definition parse_pb_fuel (cs : list pbconstr) : nat := S (pb_size cs).
Definition ParsePBConstrs (cs : list pbconstr) : gproblem := parse_pb (parse_pb_fuel cs) cs.

(* ------------------------------------------------------------------ *)
(* Meaning of a Go problem, and of the inputs.                          *)

Definition sat_gclause (m : model) (c : gclause) : bool := gc_card c <=? lhs m (gc_terms c).

Definition sat_units (m : model) (U : list lit) : bool := forallb (lit_val m) U.

Definition sat_gproblem (m : model) (g : gproblem) : bool :=
  match gp_status g with
  | Unsat => false
  | _ => sat_units m (gp_units g) && forallb (sat_gclause m) (gp_clauses g)
  end.

(* the clauses read by parseSlice before it returns on an empty clause *)
Fixpoint before_empty (F : cnf) : cnf :=
  match F with
  | [] => []
  | [] :: _ => []
  | c :: r => c :: before_empty r
  end.

Definition has_empty (F : cnf) : bool := existsb (fun c => match c with [] => true | _ => false end) F.

Definition card_pbc_of (c : cardconstr) : pbc := card_pbc (fst c) (snd c).

Definition pbconstr_terms (c : pbconstr) : list term :=
  match pc_weights c with
  | None => unit_terms (pc_lits c)
  | Some ws => combine ws (pc_lits c)
  end.
Definition pbconstr_pbc (c : pbconstr) : pbc := PBC (pbconstr_terms c) (pc_atleast c).

(* well-formed PBConstr: non-zero literals, as many weights as literals,
   weights positive (what PropClause/AtLeast/AtMost/GtEq produce). *)
Definition wf_pbconstrb (c : pbconstr) : bool :=
  forallb (fun l => negb (l =? 0)) (pc_lits c) &&
  match pc_weights c with
  | None => true
  | Some ws => (length ws =? length (pc_lits c))%nat && forallb (fun w => 0 <? w) ws
  end.

Definition wf_cardconstrb (c : cardconstr) : bool := forallb (fun l => negb (l =? 0)) (fst c).
