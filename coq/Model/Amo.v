(* Model of solver/problem.go:170-253  Problem.DetectAtMostOne and
   Problem.removeBinaries, plus an independent translation validator.
   Definitions only. *)
From Coq Require Import List ZArith Bool.
From GS Require Import Spec.Base Spec.PB.
Import ListNotations.
Open Scope Z_scope.

(* A clause or cardinality constraint of gophersat (a *Clause without pbData):
   literals (DIMACS integers) and minimal cardinality.  Propositional clauses
   have cardinality 1. *)
Definition gcl := (list lit * Z)%type.

Definition gcl_pbc (c : gcl) : pbc := card_pbc (fst c) (snd c).
Definition gproblem (P : list gcl) : problem := map gcl_pbc P.
Definition sat_gcl (m : model) (c : gcl) : bool := sat_pbc m (gcl_pbc c).
Definition sat_gcls (m : model) (P : list gcl) : bool := forallb (sat_gcl m) P.

Definition zmem (x : Z) (l : list Z) : bool := existsb (Z.eqb x) l.

(* ------------------------------------------------------------------ *)
(* problem.go:178-189.  For the internal literal [a], [propagates[a]] and
   [indexes[a]] zipped: for each clause number i with exactly two literals
   l1 l2 (ONLY c.Len() == 2 is tested, the cardinality is not looked at):
   propagates[not l1] gets l2, then propagates[not l2] gets l1.           *)
Fixpoint props_from (i : nat) (P : list gcl) (a : lit) : list (lit * nat) :=
  match P with
  | [] => []
  | c :: r =>
    (match fst c with
     | [l1; l2] =>
       (if - l1 =? a then [(l2, i)] else []) ++ (if - l2 =? a then [(l1, i)] else [])
     | _ => []
     end) ++ props_from (S i) r a
  end.

Definition props (P : list gcl) (a : lit) : list (lit * nat) := props_from 0 P a.

(* problem.go:209-214: is [other] in propagates[a] ? *)
Definition has_prop (P : list gcl) (a other : lit) : bool :=
  existsb (fun p => fst p =? other) (props P a).

(* problem.go:201-224: the loop over [others]; [considered] does not change
   during that loop.  [constr] grows at its end, so does [binaries]. *)
Fixpoint grow (P : list gcl) (considered : list Z) (others : list (lit * nat))
         (constr : list lit) (bins : list nat) : list lit * list nat :=
  match others with
  | [] => (constr, bins)
  | (other, idx) :: r =>
    if zmem other considered then grow P considered r constr bins
    else if forallb (fun c => has_prop P (- c) other) (tl constr)
         then grow P considered r (constr ++ [other]) (bins ++ [idx])
         else grow P considered r constr bins
  end.

(* state of the main loop: considered literals, new cardinality constraints
   (in creation order), indexes to remove *)
Definition amo_state := (list Z * list gcl * list nat)%type.

(* problem.go:190-232, one iteration for the literal [l] *)
Definition amo_step (P : list gcl) (st : amo_state) (l : lit) : amo_state :=
  let '(seen, news, rem) := st in
  if zmem l seen then st else
  let others := props P l in
  if (List.length others <? 2)%nat then st else
  let '(constr, bins) := grow P seen others [- l] [] in
  if (2 <? List.length constr)%nat
  then (map Z.opp constr ++ seen,
        news ++ [(constr, Z.of_nat (List.length constr) - 1)],
        rem ++ bins)
  else st.

(* internal literal order 0,1,2,... = x1, ~x1, x2, ~x2, ... *)
Fixpoint lits_from (v : Z) (n : nat) : list lit :=
  match n with O => [] | S k => v :: - v :: lits_from (v + 1) k end.
Definition all_lits (n : nat) : list lit := lits_from 1 n.

(* problem.go:238-253 removeBinaries: delete exactly the scheduled positions *)
Fixpoint remove_at (i : nat) (rem : list nat) (l : list gcl) : list gcl :=
  match l with
  | [] => []
  | c :: r =>
    if existsb (Nat.eqb i) rem then remove_at (S i) rem r
    else c :: remove_at (S i) rem r
  end.

Definition amo_run (n : nat) (P : list gcl) : amo_state :=
  fold_left (amo_step P) (all_lits n) ([], [], []).

(* DetectAtMostOne: the new constraints are appended to pb.Clauses (line 229)
   before removeBinaries runs (line 233).  Precondition in Go: every variable
   of a 2-literal constraint is <= n (otherwise index out of range). *)
Definition detect_amo (n : nat) (P : list gcl) : list gcl :=
  let '(_, news, rem) := amo_run n P in remove_at 0 rem (P ++ news).

(* ------------------------------------------------------------------ *)
(* Translation validation: is P' an admissible result for P ?          *)

Fixpoint zlist_eqb (a b : list Z) : bool :=
  match a, b with
  | [], [] => true
  | x :: r, y :: s => (x =? y) && zlist_eqb r s
  | _, _ => false
  end.

Definition gcl_eqb (c d : gcl) : bool := zlist_eqb (fst c) (fst d) && (snd c =? snd d).
Definition gcl_mem (c : gcl) (P : list gcl) : bool := existsb (gcl_eqb c) P.

(* the propositional clause (a v b) or (b v a) is a constraint of P *)
Definition has_bin (P : list gcl) (a b : lit) : bool :=
  existsb (fun c => (snd c =? 1) &&
                    match fst c with
                    | [x; y] => ((x =? a) && (y =? b)) || ((x =? b) && (y =? a))
                    | _ => false
                    end) P.

(* f holds of every pair of distinct positions (earlier, later) *)
Fixpoint all_pairs (f : lit -> lit -> bool) (S : list lit) : bool :=
  match S with
  | [] => true
  | x :: r => forallb (f x) r && all_pairs f r
  end.

(* a and b occur at two distinct positions of S *)
Fixpoint pair_in (a b : lit) (S : list lit) : bool :=
  match S with
  | [] => false
  | x :: r => ((x =? a) && zmem b r) || ((x =? b) && zmem a r) || pair_in a b r
  end.

(* "at least |S|-1 literals of S" *)
Definition is_amo (c : gcl) : bool := snd c =? Z.of_nat (List.length (fst c)) - 1.

(* new constraint: an at-most-one-false group all of whose pairs are binary
   clauses of P *)
Definition clique_of (P : list gcl) (c : gcl) : bool :=
  is_amo c && all_pairs (has_bin P) (fst c).

(* dropped constraint: a binary clause covered by a group of P' *)
Definition covered_by (P' : list gcl) (c : gcl) : bool :=
  (snd c =? 1) &&
  match fst c with
  | [a; b] => existsb (fun g => is_amo g && pair_in a b (fst g)) P'
  | _ => false
  end.

Definition amo_valid (P P' : list gcl) : bool :=
  forallb (fun c' => gcl_mem c' P || clique_of P c') P' &&
  forallb (fun c => gcl_mem c P' || covered_by P' c) P.

(* precondition under which DetectAtMostOne is correct: a constraint with two
   literals is a propositional clause *)
Definition bin_wf (P : list gcl) : bool :=
  forallb (fun c => negb (List.length (fst c) =? 2)%nat || (snd c =? 1)) P.
