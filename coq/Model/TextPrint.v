(* L1 model: (a) renderers that write a problem as a text of its format under
   a free layout, (b) the Go printers
     solver/problem.go  CNF (:26-35), PBString (:38-52), costFuncString (:67-94)
     solver/clause.go   CNF (:218-224), PBString (:227-243)
     solver/solver.go   PBString (:807-842)
     explain/problem.go CNF (:111-125)
   Definitions only; proofs are in Proofs/Text*.v.

   LAYOUT.  A layout is a [list nat] read from left to right, one number per
   choice; when it is exhausted every further choice is 0.  The choices are
     - how many blanks (space / tab) between two tokens of a line (1 to 3),
       and at the end of a line or before ';' (0 to 2);
     - DIMACS only (solver.ParseCNF): the separators inside a clause may also
       be line breaks (\n or \r\n), several clauses may share a line, a clause
       line may start with blanks;
     - comment lines and empty lines before the header, between clauses /
       constraints and at the end (0 to 2 each time, any printable text);
     - \n or \r\n at the end of each line, and whether the last line of the
       file has its end of line at all;
     - OPB: '+' in front of a non-negative coefficient or right-hand side, a
       coefficient 1 left out (an extension that ParseOPB reads), the header
       comment "* #variable= n #constraint= m", 0-2 blanks before and after
       every line (ParseOPB trims the lines);
     - every format: lines made of blanks only among the comment lines;
     - DIMACS: the file may end right after the last "0", or right after the
       header when there is no clause;
     - WCNF: the top weight is written iff it is not 0 (0 = "no top").
   The choice 0 is always the one the Go printers make, so that for DIMACS
   [print_cnf] is [render_dimacs []].

   LAYOUTS THAT THE FORMATS ALLOW BUT THE GO READERS REJECT are NOT generated
   (the theorems of Properties/C13.v would be false).  Each of them is a
   finding about gophersat, with a kernel-checked example in Proofs/Text.v:
     O1 OPB     no blank between the relation and the right-hand side (">=2") -> error
     O2 OPB     no blank after "min:"                                  -> error
     O4 OPB     "#variable= n" ignored: NbVars = highest variable used
     O5 OPB     a line of 65536 bytes or more (bufio.Scanner)          -> error
     W2 WCNF    a line of 65536 bytes or more -> rest of the file silently dropped
     W3 WCNF    clause on two lines -> silently misread (terminator not checked)
     E1 explain comment "c" not followed by a blank ("cfoo")          -> error
     E2 explain several clauses on a line / a clause on several lines -> misread
     E3 explain a line of 65536 bytes or more                          -> error
   (D1 D2 O3 W1 of the first round are fixed in /repo and are now part of the
   layouts.  render_dimacs does generate multi-line clauses and shared lines: they are
   read correctly by solver.ParseCNF; render_explain is one clause per line.) *)
From Coq Require Import List ZArith Bool NArith String Ascii.
From GS Require Import Spec.Base Spec.PB Spec.Solver Model.Text.
Import ListNotations.
Open Scope Z_scope.

Definition layout := list nat.

Definition next (lay : layout) : nat * layout :=
  match lay with [] => (O, []) | k :: r => (k, r) end.

Definition blank (k : nat) : ascii := if Nat.even k then SP else TAB.

(* one separator atom: a blank, or (multi) a line break *)
Definition atom (multi : bool) (k : nat) : bytes :=
  if multi then
    match Nat.modulo k 4 with
    | O => [SP] | 1%nat => [TAB] | 2%nat => [LF] | _ => [CR; LF]
    end
  else [blank k].

Fixpoint atoms (multi : bool) (c : nat) (lay : layout) : bytes * layout :=
  match c with
  | O => ([], lay)
  | S c' =>
    let (k, l1) := next lay in
    let (r, l2) := atoms multi c' l1 in
    (atom multi k ++ r, l2)
  end.

(* 1 to 3 atoms; default one space *)
Definition sep1 (multi : bool) (lay : layout) : bytes * layout :=
  let (k, l1) := next lay in atoms multi (S (Nat.modulo k 3)) l1.

(* 0 to 2 blanks; default none *)
Definition sep0 (lay : layout) : bytes * layout :=
  let (k, l1) := next lay in atoms false (Nat.modulo k 3) l1.

(* 0 to 2 blanks; default one space *)
Definition sep0' (lay : layout) : bytes * layout :=
  let (k, l1) := next lay in atoms false (Nat.modulo (S k) 3) l1.

(* printable ASCII, 32..126 *)
Fixpoint ctext (c : nat) (lay : layout) : bytes * layout :=
  match c with
  | O => ([], lay)
  | S c' =>
    let (k, l1) := next lay in
    let (r, l2) := ctext c' l1 in
    (chr (32 + Z.of_nat (Nat.modulo k 95)) :: r, l2)
  end.

Definition comment_text (lay : layout) : bytes * layout :=
  let (k, l1) := next lay in ctext (Nat.modulo k 6) l1.

(* a line and whether it ends with \r\n rather than \n *)
Definition tline := (bytes * bool)%type.

Definition line_end (crlf : bool) : bytes := if crlf then [CR; LF] else [LF].

(* [omit]: the last line has no end of line (when it is not empty) *)
Fixpoint join_lines (omit : bool) (ls : list tline) : bytes :=
  match ls with
  | [] => []
  | (l, crlf) :: r =>
    match r with
    | [] => if omit then (match l with [] => line_end crlf | _ => l end)
            else l ++ line_end crlf
    | _ => l ++ line_end crlf ++ join_lines omit r
    end
  end.

(* comment lines ([pre] ++ text, or [pre] ++ " " ++ text when [spaced], after
   0-2 blanks when [leadok]) and lines made of 0-2 blanks *)
Fixpoint filler (pre : bytes) (spaced leadok : bool) (c : nat) (lay : layout)
  : list tline * layout :=
  match c with
  | O => ([], lay)
  | S c' =>
    let (k, l1) := next lay in
    let (e, l2) := next l1 in
    let (ld, l2') := sep0 l2 in
    if Nat.even k then
      let (t, l3) := comment_text l2' in
      let (r, l4) := filler pre spaced leadok c' l3 in
      let body := if spaced then (match t with [] => [] | _ => SP :: t end) else t in
      (((if leadok then ld else []) ++ pre ++ body, Nat.odd e) :: r, l4)
    else
      let (r, l3) := filler pre spaced leadok c' l2' in
      ((ld, Nat.odd e) :: r, l3)
  end.

Definition gen_filler (pre : bytes) (spaced leadok : bool) (lay : layout)
  : list tline * layout :=
  let (k, l1) := next lay in filler pre spaced leadok (Nat.modulo k 3) l1.

(* (token, the separator that follows it) *)
Definition tsep := (bytes * bytes)%type.
Definition flat (ps : list tsep) : bytes := List.concat (map (fun p => fst p ++ snd p) ps).

(* tokens each followed by 1 to 3 blanks *)
Fixpoint spaced_toks (ts : list bytes) (lay : layout) : list tsep * layout :=
  match ts with
  | [] => ([], lay)
  | t :: r =>
    let (s, l1) := sep1 false lay in
    let (ps, l2) := spaced_toks r l1 in
    ((t, s) :: ps, l2)
  end.

Definition lits_toks (c : clause) : list bytes := map print_Zl c.

(* ------------------------------------------------------------------ *)
(* DIMACS CNF for solver.ParseCNF.                                     *)

(* "p cnf n m", 1-3 blanks between the fields, 0-2 at the end, \n or \r\n *)
Definition render_header (kind : string) (nums : list Z) (lay : layout) : bytes * layout :=
  let (ps, l1) := spaced_toks [tok "p"; tok kind] lay in
  let (qs, l2) := spaced_toks (removelast (map print_Zl nums)) l1 in
  let (e, l3) := sep0 l2 in
  (flat ps ++ flat qs ++ print_Zl (last nums 0) ++ e, l3).

(* each literal followed by 1-3 blanks or line breaks *)
Fixpoint render_lits (c : clause) (lay : layout) : bytes * layout :=
  match c with
  | [] => ([], lay)
  | l :: r =>
    let (s, l1) := sep1 true lay in
    let (rest, l2) := render_lits r l1 in
    (print_Zl l ++ s ++ rest, l2)
  end.

(* [bol]: the previous item ended with a line break, so comment lines may come.
   After the "0" of a clause (choice k):
     k mod 4 = 0, 1 : 0-2 blanks and an end of line
     k mod 4 = 2    : 1-3 blanks, the next clause starts on the same line
     k mod 4 = 3    : for the last clause: end of file right after the "0";
                      otherwise as 0. *)
Fixpoint render_clauses (F : cnf) (bol : bool) (lay : layout) : bytes :=
  match F with
  | [] =>
    if bol then let (fl, _) := gen_filler (tok "c") false false lay in join_lines false fl
    else []
  | c :: r =>
    let (fl, l1) := if bol then gen_filler (tok "c") false false lay else ([], lay) in
    let (lead, l2) := sep0 l1 in
    let (ls, l3) := render_lits c l2 in
    let (k, l4) := next l3 in
    let m := Nat.modulo k 4 in
    let body := join_lines false fl ++ lead ++ ls ++ tok "0" in
    if Nat.eqb m 2 then
      let (s, l5) := sep1 false l4 in body ++ s ++ render_clauses r false l5
    else if Nat.eqb m 3 && (match r with [] => true | _ => false end) then
      body
    else
      let (s, l5) := sep0 l4 in
      let (e, l6) := next l5 in
      body ++ s ++ line_end (Nat.odd e) ++ render_clauses r true l6
  end.

Definition render_dimacs_b (lay : layout) (n : Z) (F : cnf) : bytes :=
  let (fl, l1) := gen_filler (tok "c") false false lay in
  let (h, l2) := render_header "cnf" [n; Z.of_nat (List.length F)] l1 in
  let (e, l3) := next l2 in
  let (o, l4) := next l3 in
  match F with
  | [] =>
    (* no clause: the file may end right after the header, without end of line *)
    if Nat.odd o then join_lines false fl ++ h
    else join_lines false fl ++ h ++ line_end (Nat.odd e) ++ render_clauses F true l4
  | _ => join_lines false fl ++ h ++ line_end (Nat.odd e) ++ render_clauses F true l4
  end.

(* ------------------------------------------------------------------ *)
(* DIMACS CNF for explain.ParseCNF: one clause per line.               *)

Definition render_clause_line (pre : list bytes) (c : clause) (lay : layout) : bytes * layout :=
  let (lead, l1) := sep0 lay in
  let (ps, l2) := spaced_toks (pre ++ lits_toks c) l1 in
  let (e, l3) := sep0 l2 in
  (lead ++ flat ps ++ tok "0" ++ e, l3).

Fixpoint render_clause_lines (pre : bytes) (spaced : bool) (F : cnf) (lay : layout)
  : list tline * layout :=
  match F with
  | [] => ([], lay)
  | c :: r =>
    let (fl, l1) := gen_filler pre spaced false lay in
    let (b, l2) := render_clause_line [] c l1 in
    let (e, l3) := next l2 in
    let (rest, l4) := render_clause_lines pre spaced r l3 in
    (fl ++ (b, Nat.odd e) :: rest, l4)
  end.

Definition render_explain_b (lay : layout) (n : Z) (F : cnf) : bytes :=
  let (fl, l1) := gen_filler (tok "c") true false lay in
  let (h, l2) := render_header "cnf" [n; Z.of_nat (List.length F)] l1 in
  let (e, l3) := next l2 in
  let (body, l4) := render_clause_lines (tok "c") true F l3 in
  let (fl2, l5) := gen_filler (tok "c") true false l4 in
  let (o, _) := next l5 in
  join_lines (Nat.odd o) (fl ++ (h, Nat.odd e) :: body ++ fl2).

(* ------------------------------------------------------------------ *)
(* WCNF for maxsat.ParseWCNF.                                          *)

Fixpoint render_wclause_lines (I : list wclause) (lay : layout) : list tline * layout :=
  match I with
  | [] => ([], lay)
  | (w, c) :: r =>
    let (fl, l1) := gen_filler (tok "c") false false lay in
    let (b, l2) := render_clause_line [print_Zl w] c l1 in
    let (e, l3) := next l2 in
    let (rest, l4) := render_wclause_lines r l3 in
    (fl ++ (b, Nat.odd e) :: rest, l4)
  end.

(* I = (nbvars, top, clauses); the top weight is written iff it is not 0 *)
Definition render_wcnf_b (lay : layout) (I : Z * Z * list wclause) : bytes :=
  let '(n, top, items) := I in
  let (fl, l1) := gen_filler (tok "c") false false lay in
  let nums := [n; Z.of_nat (List.length items)] ++ (if top =? 0 then [] else [top]) in
  let (h, l2) := render_header "wcnf" nums l1 in
  let (e, l3) := next l2 in
  let (body, l4) := render_wclause_lines items l3 in
  let (fl2, l5) := gen_filler (tok "c") false false l4 in
  let (o, _) := next l5 in
  join_lines (Nat.odd o) (fl ++ (h, Nat.odd e) :: body ++ fl2).

(* ------------------------------------------------------------------ *)
(* OPB for solver.ParseOPB.                                            *)

(* "xN" / "~xN" (clause.go:234-240, problem.go:84-90) *)
Definition var_tok (l : Z) : bytes :=
  (if l <? 0 then tok "~x" else tok "x") ++ print_Zl (Z.abs l).

(* One term.  Choice k:
     k mod 3 = 2 and the coefficient is 1: the coefficient is left out;
     otherwise the coefficient is written, with a '+' when it is >= 0 and
     (k mod 3 = 1) differs from "first term of the line" -- so that choice 0
     is Go's: no sign on the first term, '+' on the next ones. *)
Definition render_term (first : bool) (t : term) (lay : layout) : list tsep * layout :=
  let (w, l) := t in
  let (k, l1) := next lay in
  let m := Nat.modulo k 3 in
  if (w =? 1) && Nat.eqb m 2 then
    let (s, l2) := sep1 false l1 in ([(var_tok l, s)], l2)
  else
    let plus := (0 <=? w) && xorb (negb first) (Nat.eqb m 1) in
    let (s1, l2) := sep1 false l1 in
    let (s2, l3) := sep1 false l2 in
    ([((if plus then tok "+" else []) ++ print_Zl w, s1); (var_tok l, s2)], l3).

Fixpoint render_terms (first : bool) (ts : list term) (lay : layout) : list tsep * layout :=
  match ts with
  | [] => ([], lay)
  | t :: r =>
    let (p, l1) := render_term first t lay in
    let (q, l2) := render_terms false r l1 in
    (p ++ q, l2)
  end.

Definition rel_tok (r : rel) : bytes :=
  match r with Ge => tok ">=" | Eq => tok "=" | Le => tok "<=" end.

(* terms, relation, 1-3 blanks, right-hand side, 0-2 blanks, ';' *)
Definition render_constr (c : uc) (lay : layout) : bytes * layout :=
  let (ps, l1) := render_terms true (u_terms c) lay in
  let (s, l2) := sep1 false l1 in
  let (k, l3) := next l2 in
  let (e, l4) := sep0' l3 in
  (flat ps ++ rel_tok (u_rel c) ++ s
   ++ (if Nat.odd k && (0 <=? u_rhs c) then tok "+" else []) ++ print_Zl (u_rhs c)
   ++ e ++ tok ";", l4).

(* "min:", 1-3 blanks, the terms each followed by 1-3 blanks, ';' *)
Definition render_min (ts : list term) (lay : layout) : bytes * layout :=
  let (s, l1) := sep1 false lay in
  let (ps, l2) := render_terms true ts l1 in
  (tok "min:" ++ s ++ flat ps ++ tok ";", l2).

Fixpoint render_constrs (cs : list uc) (lay : layout) : list tline * layout :=
  match cs with
  | [] => ([], lay)
  | c :: r =>
    let (fl, l1) := gen_filler (tok "*") false true lay in
    let (ld, la) := sep0 l1 in
    let (b, l2) := render_constr c la in
    let (tr, lb) := sep0 l2 in
    let (e, l3) := next lb in
    let (rest, l4) := render_constrs r l3 in
    (fl ++ (ld ++ b ++ tr, Nat.odd e) :: rest, l4)
  end.

Definition opb_header_comment (n m : Z) : bytes :=
  tok "* #variable= " ++ print_Zl n ++ tok " #constraint= " ++ print_Zl m.

(* P = (declared number of variables, constraints, cost function) *)
Definition render_opb_b (lay : layout) (P : ostate) : bytes :=
  let '(n, cs, cost) := P in
  let (k0, la) := next lay in
  let (e0, lb) := next la in
  let hdr := if Nat.odd k0
             then [(opb_header_comment n (Z.of_nat (List.length cs)), Nat.odd e0)] else [] in
  let (fl1, l1) := gen_filler (tok "*") false true lb in
  let (minl, l2) :=
    match cost with
    | None => ([], l1)
    | Some ts => let (ld, lc0) := sep0 l1 in
                 let (b, lc) := render_min ts lc0 in
                 let (tr, lc1) := sep0 lc in
                 let (e, ld') := next lc1 in ([(ld ++ b ++ tr, Nat.odd e)], ld')
    end in
  let (body, l3) := render_constrs cs l2 in
  let (fl2, l4) := gen_filler (tok "*") false true l3 in
  let (o, _) := next l4 in
  join_lines (Nat.odd o) (hdr ++ fl1 ++ minl ++ body ++ fl2).

(* ------------------------------------------------------------------ *)
(* The Go printers.                                                    *)

Fixpoint join (sep : bytes) (l : list bytes) : bytes :=
  match l with
  | [] => []
  | [x] => x
  | x :: r => x ++ sep ++ join sep r
  end.

(* clause.go:218-224  for each lit "%d ", then "0" *)
Definition clause_cnf (c : clause) : bytes :=
  List.concat (map (fun l => print_Zl l ++ [SP]) c) ++ tok "0".

(* problem.go:26-38; P = (NbVars, Status == Unsat, Units, Clauses).
   A trivially UNSAT problem is printed as the single empty clause (:27-29). *)
Definition print_cnf_b (P : Z * bool * list lit * cnf) : bytes :=
  let '(n, unsat, units, cls) := P in
  if unsat then tok "p cnf " ++ print_Zl n ++ tok " 1" ++ [LF] ++ tok "0" ++ [LF]
  else
  tok "p cnf " ++ print_Zl n ++ [SP]
  ++ print_Zl (Z.of_nat (List.length cls) + Z.of_nat (List.length units)) ++ [LF]
  ++ List.concat (map (fun u => print_Zl u ++ tok " 0" ++ [LF]) units)
  ++ List.concat (map (fun c => clause_cnf c ++ [LF]) cls).

(* explain/problem.go:111-125; P = (NbVars, Clauses), NbClauses = len(Clauses) *)
Definition print_explain_b (P : Z * cnf) : bytes :=
  let (n, cls) := P in
  join [LF]
    ((tok "p cnf " ++ print_Zl n ++ [SP] ++ print_Zl (Z.of_nat (List.length cls)))
     :: map (fun c => join [SP] (map print_Zl c ++ [tok "0"])) cls).

(* "%d %sx%d" (clause.go:240, solver.go:823) *)
Definition term_str (t : term) : bytes := print_Zl (fst t) ++ [SP] ++ var_tok (snd t).

(* clause.go:227-243 *)
Definition clause_pbstring (c : pbc) : bytes :=
  join (tok " +") (map term_str (terms c)) ++ tok " >= " ++ print_Zl (degree c) ++ tok " ;".

(* problem.go:72-91, the loop of costFuncString: [first] is i == 0 *)
Fixpoint cost_terms_str (first : bool) (ts : list term) : bytes :=
  match ts with
  | [] => []
  | t :: r =>
    (if first then [] else if 0 <=? fst t then tok " +" else tok " ")
    ++ term_str t ++ cost_terms_str false r
  end.

(* problem.go:67-94 *)
Definition cost_func_string (cost : option cost) : bytes :=
  match cost with
  | None => []
  | Some ts => tok "min: " ++ cost_terms_str true ts ++ tok " ;" ++ [LF]
  end.

(* A problem as solver.Problem holds it. *)
Record pb_problem := PBProblem {
  pp_nbvars : Z;
  pp_unsat : bool;             (* Status == Unsat *)
  pp_units : list lit;
  pp_clauses : list pbc;       (* a plain clause c is PBC (unit_terms c) 1 *)
  pp_cost : option cost
}.

(* problem.go:41-58.  A trivially UNSAT problem is printed as the cost function
   and the contradiction "1 x1 >= 2 ;" (:42-44). *)
Definition print_opb_b (P : pb_problem) : bytes :=
  if pp_unsat P then cost_func_string (pp_cost P) ++ tok "1 x1 >= 2 ;" ++ [LF]
  else
  cost_func_string (pp_cost P)
  ++ List.concat (map (fun u => tok "1 " ++ var_tok u ++ tok " = 1 ;" ++ [LF]) (pp_units P))
  ++ List.concat (map (fun c => clause_pbstring c ++ [LF]) (pp_clauses P)).

(* What Solver.PBString looks at. *)
Record solver_view := SolverView {
  sv_nbvars : Z;
  sv_unsat : bool;             (* s.status == Unsat *)
  sv_orig : list pbc;          (* s.wl.origClauses *)
  sv_learned : list pbc;       (* s.wl.learned, cardinality 1 *)
  sv_cost : option cost;       (* s.minLits / s.minWeights *)
  sv_model : list Z            (* s.model: signed decision levels, index i = variable i+1 *)
}.

(* solver.go:841-847 *)
Fixpoint facts_str (i : Z) (m : list Z) : list bytes :=
  match m with
  | [] => []
  | v :: r =>
    (if v =? 1 then [tok "1 x" ++ print_Zl (i + 1) ++ tok " = 1 ;"]
     else if v =? -1 then [tok "1 x" ++ print_Zl (i + 1) ++ tok " = 0 ;"]
     else [])
    ++ facts_str (i + 1) r
  end.

(* solver.go:812-828: no '+' on the first term and on the negative ones *)
Fixpoint solver_cost_terms (first : bool) (ts : list term) : list bytes :=
  match ts with
  | [] => []
  | t :: r =>
    ((if first || (fst t <? 0) then [] else tok "+") ++ term_str t) :: solver_cost_terms false r
  end.

(* solver.go:807-849 *)
Definition print_solver_opb_b (S : solver_view) : bytes :=
  let meta := tok "* #variable= " ++ print_Zl (sv_nbvars S)
              ++ tok " #constraint= " ++ print_Zl (Z.of_nat (List.length (sv_orig S)))
              ++ tok " #learned= " ++ print_Zl (Z.of_nat (List.length (sv_learned S))) ++ [LF] in
  let minline := match sv_cost S with
                 | None => []
                 | Some ts => tok "min: " ++ join [SP] (solver_cost_terms true ts)
                              ++ tok " ;" ++ [LF]                       (* :829 *)
                 end in
  let clauses := map clause_pbstring (sv_orig S ++ sv_learned S)
                 ++ (if sv_unsat S then [tok "1 x1 >= 2 ;"] else [])    (* :838-840 *)
                 ++ facts_str 0 (sv_model S) in
  meta ++ minline ++ join [LF] clauses.

(* ------------------------------------------------------------------ *)
(* The [string] interface.                                             *)

Definition render_dimacs (lay : layout) (n : Z) (F : cnf) : string :=
  string_of_list_ascii (render_dimacs_b lay n F).
Definition render_explain (lay : layout) (n : Z) (F : cnf) : string :=
  string_of_list_ascii (render_explain_b lay n F).
Definition render_wcnf (lay : layout) (I : Z * Z * list wclause) : string :=
  string_of_list_ascii (render_wcnf_b lay I).
Definition render_opb (lay : layout) (P : ostate) : string :=
  string_of_list_ascii (render_opb_b lay P).

Definition print_cnf (P : Z * bool * list lit * cnf) : string := string_of_list_ascii (print_cnf_b P).
Definition print_explain (P : Z * cnf) : string := string_of_list_ascii (print_explain_b P).
Definition print_opb (P : pb_problem) : string := string_of_list_ascii (print_opb_b P).
Definition print_solver_opb (S : solver_view) : string :=
  string_of_list_ascii (print_solver_opb_b S).
