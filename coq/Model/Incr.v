(* Model of adding constraints to a live solver: solver.go AppendClause
   (:846-881), propagateUnits (:785-804), litStatus (:210-219), newVar
   (:141-158), Solve (:545-597); clause.go removeLit (:198-205),
   updateCardinality (:186-192).

   The CDCL search is NOT modelled: it is the parameter [solve], called on
   the constraints the solver currently holds (its top-level facts as unit
   constraints, then its constraint database).  Top-level propagation and
   unit learning are not modelled either: they are the parameter [infer],
   which may add to the facts any literal the current constraints entail (in
   Go, AppendClause looks at every level-1 binding, whether it was given,
   propagated or learned), or report a top-level conflict.

   Definitions only; proofs are in Proofs/Incr.v. *)
From Coq Require Import List ZArith Bool.
From GS Require Import Spec.Base Spec.PB Spec.Solver.
Import ListNotations.
Open Scope Z_scope.

Definition unit_pbc (l : lit) : pbc := clause_pbc [l].
Definition units (ls : list lit) : problem := map unit_pbc ls.

(* litStatus, solver.go:210-219, against the level-1 bindings only (every
   caller below runs cleanupBindings(1) first).
   Some true = Sat, Some false = Unsat, None = Indet. *)
Definition lit_status (facts : list lit) (l : lit) : option bool :=
  if existsb (Z.eqb l) facts then Some true
  else if existsb (Z.eqb (- l)) facts then Some false
  else None.

(* propagateUnits, solver.go:785-804: a unit that is already a fact is
   skipped, one that contradicts a fact sets status = Unsat (None here),
   otherwise it is bound at level 1 and appended to the trail. *)
Fixpoint propagate_units (facts : list lit) (us : list lit) : option (list lit) :=
  match us with
  | [] => Some facts
  | u :: r =>
    match lit_status facts u with
    | Some true => propagate_units facts r
    | Some false => None
    | None => propagate_units (facts ++ [u]) r
    end
  end.

(* removeLit, clause.go:198-205, seen from position i: the literals from i
   on are [t :: r]; t is overwritten by the last one and the slice shrinks. *)
Definition swap_last (r : list term) : list term :=
  match r with
  | [] => []
  | _ => last r (0, 0) :: removelast r
  end.

(* updateCardinality(-w), clause.go:186-192: the stored value is
   cardinality-1 in an unsigned field, clamped at 0. *)
Definition upd_card (cur w : Z) : Z :=
  if (0 <? w) && (cur - 1 <? w) then 1 else cur - w.

(* The loop of AppendClause, solver.go:852-868.  [done] = lits[0..i),
   [rest] = lits[i..).  Result: remaining literals, minW, maxW and the
   updated cardinality; None = out of fuel (never with fuel >= length rest). *)
Fixpoint simp_loop (fuel : nat) (facts : list lit) (done rest : list term)
         (minW maxW cur : Z) : option (list term * Z * Z * Z) :=
  match rest with
  | [] => Some (done, minW, maxW, cur)
  | t :: r =>
    match fuel with
    | O => None
    | S f =>
      match lit_status facts (snd t) with
      | Some true =>
          simp_loop f facts done (swap_last r)
                    (minW + fst t) (maxW + fst t) (upd_card cur (fst t))
      | Some false => simp_loop f facts done (swap_last r) minW maxW cur
      | None => simp_loop f facts (done ++ [t]) r minW (maxW + fst t) cur
      end
    end
  end.

Definition lit_nat (l : lit) : nat := Z.to_nat (Z.abs l).
Definition terms_nvars (ts : list term) : nat :=
  fold_right (fun t a => Nat.max (lit_nat (snd t)) a) 0%nat ts.

Record istate := IState {
  i_n : nat;              (* s.nbVars *)
  i_facts : list lit;     (* level-1 part of s.trail *)
  i_db : problem;         (* s.wl.origClauses *)
  i_dead : bool           (* s.status == Unsat, which Solve never leaves *)
}.

Definition state_problem (st : istate) : problem := units (i_facts st) ++ i_db st.

Definition set_dead (st : istate) : istate :=
  IState (i_n st) (i_facts st) (i_db st) true.

(* AppendClause, solver.go:846-881, without the final top-level propagation. *)
Definition add_core (st : istate) (c : pbc) : istate :=
  (* newVar is called for every literal before anything else is decided *)
  let n' := Nat.max (i_n st) (terms_nvars (terms c)) in
  let st0 := IState n' (i_facts st) (i_db st) (i_dead st) in
  let card := degree c in
  match simp_loop (length (terms c)) (i_facts st) [] (terms c) 0 0 card with
  | None => st0                                        (* out of fuel: unreachable *)
  | Some (kept, minW, maxW, cur) =>
    if card <=? minW then st0                          (* clause is already sat *)
    else if maxW <? card then set_dead st0             (* clause cannot be satisfied *)
    else if maxW =? card then                          (* Unit *)
      match propagate_units (i_facts st) (map snd kept) with
      | None => set_dead st0
      | Some f' => IState n' f' (i_db st) (i_dead st)
      end
    else IState n' (i_facts st) (i_db st ++ [PBC kept cur]) (i_dead st)   (* appendClause *)
  end.

Section Machine.

Variable solve : solver.
Variable infer : nat -> list lit -> problem -> option (list lit).

(* Top-level propagation / unit learning (unifyLiteral at level 1 inside
   propagateUnits, the level-1 part of the search): abstract. *)
Definition settle (st : istate) : istate :=
  if i_dead st then st else
  match infer (i_n st) (i_facts st) (i_db st) with
  | None => set_dead st
  | Some ls => IState (i_n st) (i_facts st ++ ls) (i_db st) false
  end.

Definition add_constraint (st : istate) (c : pbc) : istate := settle (add_core st c).

(* Solve, solver.go:545-597. *)
Definition solve_step (st : istate) : option model * istate :=
  if i_dead st then (None, st) else
  match solve (i_n st) (state_problem st) with
  | Some m => (Some m, settle st)
  | None => (None, set_dead st)
  end.

Inductive op := OSolve | OAdd (c : pbc).

Fixpoint run (st : istate) (ops : list op) : list (option model) :=
  match ops with
  | [] => []
  | OSolve :: r => let (out, st') := solve_step st in out :: run st' r
  | OAdd c :: r => run (add_constraint st c) r
  end.

Fixpoint exec (st : istate) (ops : list op) : istate :=
  match ops with
  | [] => st
  | OSolve :: r => exec (snd (solve_step st)) r
  | OAdd c :: r => exec (add_constraint st c) r
  end.

(* A constraint that says "l is true": one term whose weight reaches the degree. *)
Definition unit_of (c : pbc) : option lit :=
  match terms c with
  | [(w, l)] => if (0 <? degree c) && (degree c <=? w) then Some l else None
  | _ => None
  end.

Fixpoint split_units (P : problem) : list lit * problem :=
  match P with
  | [] => ([], [])
  | c :: r =>
    let (us, db) := split_units r in
    match unit_of c with
    | Some l => (l :: us, db)
    | None => (us, c :: db)
    end
  end.

(* A solver built from a problem: the unit constraints live on the trail
   only (problem.Units), the others in the database; contradictory units make
   the problem Unsat from the start. *)
Definition init (n : nat) (base : problem) : istate :=
  let (us, db) := split_units base in
  settle (match propagate_units [] us with
          | Some f => IState n f db false
          | None => IState n [] db true
          end).

End Machine.

(* The total assignments a live solver still accepts. *)
Definition state_models (st : istate) (m : model) : Prop :=
  i_dead st = false /\ sat_problem m (state_problem st) = true.

(* Contract of [infer] (used as a Section hypothesis): the literals it adds
   are entailed by the constraints the solver holds; a reported conflict
   means these constraints have no model.  Entailment does not depend on the
   number of declared variables, so no length is mentioned. *)
Definition infer_ok (infer : nat -> list lit -> problem -> option (list lit)) : Prop :=
  forall n F D,
    match infer n F D with
    | Some ls => forall m, sat_problem m (units F ++ D) = true -> forallb (lit_val m) ls = true
    | None => forall m, sat_problem m (units F ++ D) = false
    end.

(* ------------------------------------------------------------------ *)
(* What the outputs are compared with.                                  *)

(* For each OSolve, the number of variables and the conjunction so far. *)
Fixpoint spec_run (n : nat) (P : problem) (ops : list op) : list (nat * problem) :=
  match ops with
  | [] => []
  | OSolve :: r => (n, P) :: spec_run n P r
  | OAdd c :: r => spec_run (Nat.max n (terms_nvars (terms c))) (P ++ [c]) r
  end.

Fixpoint spec_n (n : nat) (ops : list op) : nat :=
  match ops with
  | [] => n
  | OSolve :: r => spec_n n r
  | OAdd c :: r => spec_n (Nat.max n (terms_nvars (terms c))) r
  end.

Fixpoint added (ops : list op) : problem :=
  match ops with
  | [] => []
  | OSolve :: r => added r
  | OAdd c :: r => c :: added r
  end.

Definition is_some {A : Type} (o : option A) : bool :=
  match o with Some _ => true | None => false end.

(* the verdicts of fresh solvers on the successive conjunctions *)
Definition fresh_verdicts (solve' : solver) (n : nat) (base : problem) (ops : list op) : list bool :=
  map (fun q => is_some (solve' (fst q) (snd q))) (spec_run n base ops).

(* a Sat answer comes with a model of (n, P); an Unsat answer means there is none *)
Definition answer_ok (out : option model) (q : nat * problem) : Prop :=
  match out with
  | Some m => length m = fst q /\ sat_problem m (snd q) = true
  | None => forall m, length m = fst q -> sat_problem m (snd q) = false
  end.

(* Well-formedness. *)
Definition lits_ok (n : nat) (ts : list term) : Prop :=
  Forall (fun t => snd t <> 0 /\ (lit_nat (snd t) <= n)%nat) ts.
Definition problem_ok (n : nat) (P : problem) : Prop :=
  Forall (fun c => lits_ok n (terms c)) P.

(* literals are non-zero, weights are positive *)
Definition pbc_pos (c : pbc) : Prop :=
  Forall (fun t => 0 < fst t /\ snd t <> 0) (terms c).
(* literals are non-zero, weights are non-negative *)
Definition pbc_nonneg (c : pbc) : Prop :=
  Forall (fun t => 0 <= fst t /\ snd t <> 0) (terms c).

Definition op_ok (pr : pbc -> Prop) (o : op) : Prop :=
  match o with OSolve => True | OAdd c => pr c end.
Definition ops_ok (pr : pbc -> Prop) (ops : list op) : Prop := Forall (op_ok pr) ops.

(* boolean versions, for the examples *)
Definition pbc_posb (c : pbc) : bool :=
  forallb (fun t => (0 <? fst t) && negb (snd t =? 0)) (terms c).
Definition pbc_nonnegb (c : pbc) : bool :=
  forallb (fun t => (0 <=? fst t) && negb (snd t =? 0)) (terms c).
Definition problem_okb (n : nat) (P : problem) : bool :=
  forallb (fun c => forallb (fun t => negb (snd t =? 0) && Nat.leb (lit_nat (snd t)) n) (terms c)) P.

(* ------------------------------------------------------------------ *)
(* Instances of [infer].                                                *)

(* no top-level inference at all *)
Definition infer_none (n : nat) (facts : list lit) (db : problem) : option (list lit) := Some [].

(* Slack-based propagation of one constraint under the facts: None = it can
   no longer be satisfied; otherwise the literals it forces. *)
Definition forced_of (facts : list lit) (c : pbc) : option (list lit) :=
  if negb (nonneg_terms (terms c)) then Some [] else
  match simp_loop (length (terms c)) facts [] (terms c) 0 0 (degree c) with
  | None => Some []
  | Some (kept, minW, maxW, _) =>
    if maxW <? degree c then None
    else Some (map snd (filter (fun t => maxW - fst t <? degree c) kept))
  end.

(* one pass over the database *)
Fixpoint up_pass (facts : list lit) (db : problem) : option (list lit) :=
  match db with
  | [] => Some facts
  | c :: r =>
    match forced_of facts c with
    | None => None
    | Some ls =>
      match propagate_units facts ls with
      | None => None
      | Some f' => up_pass f' r
      end
    end
  end.

Fixpoint up_iter (fuel : nat) (facts : list lit) (db : problem) : option (list lit) :=
  match fuel with
  | O => Some facts
  | S f =>
    match up_pass facts db with
    | None => None
    | Some f' => up_iter f f' db
    end
  end.

(* unit propagation to (at most) n+1 passes; returns the new facts only *)
Definition infer_up (n : nat) (facts : list lit) (db : problem) : option (list lit) :=
  match up_iter (S n) facts db with
  | None => None
  | Some f' => Some (skipn (length facts) f')
  end.

Definition run_ref (n : nat) (base : problem) (ops : list op) : list (option model) :=
  run ref_solve infer_up (init infer_up n base) ops.
