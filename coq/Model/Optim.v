(* L1: mirror of the optimisation loops of gophersat,
     solver/solver.go:962  func (s *Solver) Optimal(results chan Result, stop chan struct{}) Result
     solver/solver.go:1052 func (s *Solver) Minimize() int
     solver/solver.go:1114 func (s *Solver) minCost() int
     solver/solver.go:1126 func boundConstr(lits []Lit, weights []int, bound int) *Clause
   The CDCL search is not modelled: [solve] is any function satisfying
   [Spec.Solver.solver_ok].  The incremental
       s.AppendClause(boundConstr(s.hypothesis, weights, maxCost-cost+1)); s.Solve()
   (solver.go:1040-1042) is modelled as solving [bound :: P] from scratch.

   Definitions only.  Proofs are in Proofs/Optim.v. *)
From Coq Require Import List ZArith Bool.
From GS Require Import Spec.Base Spec.PB Spec.Solver Model.PBNorm.
Import ListNotations.
Open Scope Z_scope.

(* solver.Result (solver/interface.go:8) restricted to Status in {Unsat, Sat}. *)
Inductive oresult := OUnsat | OSat (m : model) (w : Z).

(* The integer that Minimize returns for a result (-1 when Unsat, solver.go:1055). *)
Definition oweight (r : oresult) : Z := match r with OUnsat => -1 | OSat _ w => w end.
Definition omodel (r : oresult) : option model :=
  match r with OUnsat => None | OSat m _ => Some m end.

(* A cost function is [Spec.Solver.cost] = list (weight, literal): s.minWeights / s.minLits.
   SetCostFunc(lits, nil) ("all weights are 1", problem.go:55) is [unit_cost lits]:
   solver.go:989-990 (maxCost = len), 1001-1004 (weights[i] = 1), 1020-1021 (cost++);
   minCost ranges over the nil slice and is 0. *)
Definition unit_cost (lits : list lit) : cost := map (fun l => (1, l)) lits.

(* solver.go:988-995  maxCost := sum of s.minWeights (may be negative) *)
Definition total_weight (c : cost) : Z := fold_right (fun t a => fst t + a) 0 c.

(* solver.go:1114-1122  minCost: the sum of the negative weights, the smallest value the
   cost function can take *)
Definition min_cost_bound (c : cost) : Z :=
  fold_right (fun t a => (if fst t <? 0 then fst t else 0) + a) 0 c.

(* Only used to compute enough fuel (no Go counterpart). *)
Definition abs_weight (c : cost) : Z := fold_right (fun t a => Z.abs (fst t) + a) 0 c.

(* solver.go:996-999  s.hypothesis[i] = lit.Negation() *)
Definition neg_term (t : term) : term := (fst t, - snd t).

(* solver.go:1008  sort.Sort(wLits{...}) with Less(i,j) = weights[i] > weights[j]
   (solver.go:1144).  sort.Sort is not stable; the relative order of equal weights is
   NOT mirrored (we use a stable insertion sort).  The order of the terms of the bound
   constraint has no influence on its meaning (Proofs/Optim.v, lhs_perm). *)
Fixpoint insert_desc (t : term) (l : list term) : list term :=
  match l with
  | [] => [t]
  | u :: r => if fst u <? fst t then t :: l else u :: insert_desc t r
  end.
Definition sort_desc (l : list term) : list term := fold_right insert_desc [] l.

(* solver.go:1009-1012  drop the trailing entries whose weight is 0 (with negative weights
   the zeros are not last; GtEq drops them in boundConstr) *)
Fixpoint trim_zeros (l : list term) : list term :=
  match l with
  | [] => []
  | t :: r =>
    match trim_zeros r with
    | [] => if fst t =? 0 then [] else [t]
    | r' => t :: r'
    end
  end.

Definition hypothesis (c : cost) : list term := trim_zeros (sort_desc (map neg_term c)).

(* solver.go:1126-1134  boundConstr = GtEq(lits, copy of weights, bound).Clause():
   negative weights are moved to the complementary literal and the degree raised, zero
   weights dropped (pb.go:63), weights saturated (pb.go:28) and sorted by NewPBClause,
   which panics ([None]) if the final degree is < 1 (clause.go:66).  All of this is
   Model/PBNorm.v. *)
Definition bound_constr (hyp : list term) (d : Z) : option pbc :=
  pb_clause (gt_eq (map snd hyp) (map fst hyp) d).

(* solver.go:1040  boundConstr(s.hypothesis, weights, maxCost-cost+1) *)
Definition bound_pbc (c : cost) (cur : Z) : option pbc :=
  bound_constr (hypothesis c) (total_weight c - cur + 1).

(* s.model[lit.Var()] (solver.go:1019) is an out-of-range access if a cost literal
   mentions a variable >= nbVars; IntToLit(0) is meaningless.  *)
Definition cost_wf (n : nat) (c : cost) : bool :=
  forallb (fun t => negb (snd t =? 0) && (Z.abs (snd t) <=? Z.of_nat n)) c.

(* ------------------------------------------------------------------ *)
(* One turn of the loop "for status == Sat" (solver.go:1015-1043).
   State at the loop head: the constraints added so far, the model just found and the
   results already sent on [results] (most recent first). *)

Inductive ostep :=
| SDone (r : oresult) (acc : list oresult)       (* loop exit *)
| SPanic (acc : list oresult)                     (* NewPBClause panics: card < 1 (clause.go:66);
                                                     never happens: Proofs/Optim.v *)
| SMore (P : problem) (m : model) (acc : list oresult).

Definition opt_step (solve : solver) (n : nat) (c : cost)
           (P : problem) (m : model) (acc : list oresult) : ostep :=
  let w := cost_of m c in                         (* solver.go:1017-1026 *)
  let r := OSat m w in                            (* solver.go:1027-1031 *)
  let acc' := r :: acc in                         (* solver.go:1033-1035 results <- res *)
  if w =? min_cost_bound c then SDone r acc'      (* solver.go:1036-1038 *)
  else
    match bound_pbc c w with                      (* solver.go:1040 *)
    | None => SPanic acc'
    | Some b =>
      let P' := b :: P in
      match solve n P' with                       (* solver.go:1042 *)
      | None => SDone r acc'
      | Some m' => SMore P' m' acc'
      end
    end.

(* [opt_iter k] runs at most 2^k turns of the loop (binary fuel, so that the fuel stays
   a small [nat] even for large weights). *)
Fixpoint opt_iter (solve : solver) (n : nat) (c : cost) (k : nat)
         (P : problem) (m : model) (acc : list oresult) : ostep :=
  match k with
  | O => opt_step solve n c P m acc
  | S k' =>
    match opt_iter solve n c k' P m acc with
    | SMore P' m' acc' => opt_iter solve n c k' P' m' acc'
    | x => x
    end
  end.

(* 2 ^ default_fuel c > 2 * abs_weight c  (Proofs/Optim.v, default_fuel_enough) *)
Definition default_fuel (c : cost) : nat := S (S (Z.to_nat (Z.log2 (abs_weight c)))).

Inductive orun :=
| RFuel                                            (* out of fuel: never happens with default_fuel *)
| RPanic (stream : list oresult)                   (* the Go code panics after sending [stream] *)
| RDone (r : oresult) (stream : list oresult).     (* returned result, everything sent on [results] *)

(* solver.go:962-1045.  [oc = None] is s.minLits == nil. *)
Definition optimal_fuel (k : nat) (solve : solver) (n : nat) (P : problem)
           (oc : option cost) : orun :=
  match solve n P with                             (* solver.go:966 *)
  | None => RDone OUnsat [OUnsat]                  (* solver.go:967-973: the Unsat result is sent too *)
  | Some m =>
    match oc with
    | None => RDone (OSat m 0) [OSat m 0]          (* solver.go:974-986 *)
    | Some c =>
      if cost_wf n c then
        match opt_iter solve n c k P m [] with
        | SDone r acc => RDone r (rev acc)
        | SPanic acc => RPanic (rev acc)
        | SMore _ _ _ => RFuel
        end
      else RPanic []                               (* solver.go:1019 index out of range *)
    end
  end.

Definition oc_fuel (oc : option cost) : nat :=
  match oc with Some c => default_fuel c | None => O end.

Definition optimal_run (solve : solver) (n : nat) (P : problem) (oc : option cost) : orun :=
  optimal_fuel (oc_fuel oc) solve n P oc.

(* Final result and the stream of results sent on the channel, in order. *)
Definition optimal (solve : solver) (n : nat) (P : problem) (oc : option cost)
  : oresult * list oresult :=
  match optimal_run solve n P oc with
  | RDone r s => (r, s)
  | RPanic s => (OUnsat, s)
  | RFuel => (OUnsat, [])
  end.

(* ------------------------------------------------------------------ *)
(* Minimize (solver.go:1052-1111): the same loop without the channel; it returns the
   cost, and s.lastModel (what s.Model() returns afterwards) is the last model.
   Note that -1 is also a legitimate cost when weights are negative. *)

Inductive mstep :=
| MDone (w : Z) (m : model)
| MPanic
| MMore (P : problem) (m : model).

Definition min_step (solve : solver) (n : nat) (c : cost) (P : problem) (m : model) : mstep :=
  let w := cost_of m c in                         (* solver.go:1089-1098 *)
  if w =? min_cost_bound c then MDone w m         (* solver.go:1099-1101 *)
  else
    match bound_pbc c w with                      (* solver.go:1106 *)
    | None => MPanic
    | Some b =>
      let P' := b :: P in
      match solve n P' with                       (* solver.go:1108 *)
      | None => MDone w m                         (* solver.go:1110 return cost *)
      | Some m' => MMore P' m'
      end
    end.

Fixpoint min_iter (solve : solver) (n : nat) (c : cost) (k : nat)
         (P : problem) (m : model) : mstep :=
  match k with
  | O => min_step solve n c P m
  | S k' =>
    match min_iter solve n c k' P m with
    | MMore P' m' => min_iter solve n c k' P' m'
    | x => x
    end
  end.

Inductive mrun :=
| MRFuel
| MRPanic
| MRDone (w : Z) (last : option model).            (* returned int, s.lastModel *)

Definition minimize_fuel (k : nat) (solve : solver) (n : nat) (P : problem)
           (oc : option cost) : mrun :=
  match solve n P with
  | None => MRDone (-1) None                       (* solver.go:1054-1056 *)
  | Some m =>
    match oc with
    | None => MRDone 0 (Some m)                    (* solver.go:1057-1059; Solve set lastModel *)
    | Some c =>
      if cost_wf n c then
        match min_iter solve n c k P m with
        | MDone w m' => MRDone w (Some m')
        | MPanic => MRPanic
        | MMore _ _ => MRFuel
        end
      else MRPanic
    end
  end.

Definition minimize_run (solve : solver) (n : nat) (P : problem) (oc : option cost) : mrun :=
  minimize_fuel (oc_fuel oc) solve n P oc.

Definition minimize (solve : solver) (n : nat) (P : problem) (oc : option cost) : Z :=
  match minimize_run solve n P oc with
  | MRDone w _ => w
  | _ => -1
  end.

(* s.Model() after Minimize() *)
Definition minimize_model (solve : solver) (n : nat) (P : problem) (oc : option cost)
  : option model :=
  match minimize_run solve n P oc with
  | MRDone _ m => m
  | _ => None
  end.

(* ------------------------------------------------------------------ *)
(* Closed executable instances with the verified reference search. *)
Definition optimal_run_ref := optimal_run ref_solve.
Definition optimal_ref := optimal ref_solve.
Definition minimize_run_ref := minimize_run ref_solve.
Definition minimize_ref := minimize ref_solve.
Definition minimize_model_ref := minimize_model ref_solve.
