(* Proofs about Model/BfParse.v (C17).

   Structure: [Der L p a] is the language really accepted by the Go parser at
   priority level L together with the tree it builds.  The fuelled mirror is
   proved sound and complete for it; every property is then an induction on
   [Der]. *)
From Coq Require Import List String Ascii Arith Bool Lia.
From GS Require Import Model.BfParse.
Import ListNotations.
Open Scope string_scope.
Open Scope nat_scope.
Open Scope list_scope.

(* ---------------------------------------------------------------- *)
(* Unfolding equations                                               *)

Lemma parse_clause_S n ts : parse_clause (S n) ts =
  if starts_operator ts then Err else
  match parse_equiv n ts with
  | Ok f r =>
    match r with
    | [] => Ok f []
    | TSemi :: r1 =>
      match r1 with
      | [] => Ok f []
      | _ :: _ =>
        match parse_clause n r1 with
        | Ok f2 r2 => Ok (ABin Seq f f2) r2
        | e => e
        end
      end
    | _ :: _ => Ok f r
    end
  | e => e
  end.
Proof. reflexivity. Qed.

Lemma parse_equiv_S n ts : parse_equiv (S n) ts =
  match ts with [] => Err | _ :: _ =>
  if starts_operator ts then Err else
  match parse_implies n ts with
  | Ok f r =>
    match r with
    | [] => Ok f []
    | TEq :: r1 =>
      match r1 with
      | [] => Err
      | _ :: _ =>
        match parse_equiv n r1 with
        | Ok f2 r2 => Ok (ABin Equiv f f2) r2
        | e => e
        end
      end
    | _ :: _ => Ok f r
    end
  | e => e
  end end.
Proof. reflexivity. Qed.

Lemma parse_implies_S n ts : parse_implies (S n) ts =
  match parse_or n ts with
  | Ok f r =>
    match r with
    | [] => Ok f []
    | TMinus :: r1 =>
      match r1 with
      | [] => Err
      | TGt :: r2 =>
        match r2 with
        | [] => Err
        | _ :: _ =>
          match parse_implies n r2 with
          | Ok f2 r3 => Ok (ABin Impl f f2) r3
          | e => e
          end
        end
      | _ :: _ => Err
      end
    | _ :: _ => Ok f r
    end
  | e => e
  end.
Proof. reflexivity. Qed.

Lemma parse_or_S n ts : parse_or (S n) ts =
  match parse_and n ts with
  | Ok f r =>
    match r with
    | [] => Ok f []
    | TBar :: r1 =>
      match r1 with
      | [] => Err
      | _ :: _ =>
        match parse_or n r1 with
        | Ok f2 r2 => Ok (ABin Or f f2) r2
        | e => e
        end
      end
    | _ :: _ => Ok f r
    end
  | e => e
  end.
Proof. reflexivity. Qed.

Lemma parse_and_S n ts : parse_and (S n) ts =
  match parse_not n ts with
  | Ok f r =>
    match r with
    | [] => Ok f []
    | TAmp :: r1 =>
      match r1 with
      | [] => Err
      | _ :: _ =>
        match parse_and n r1 with
        | Ok f2 r2 => Ok (ABin And f f2) r2
        | e => e
        end
      end
    | _ :: _ => Ok f r
    end
  | e => e
  end.
Proof. reflexivity. Qed.

Lemma parse_not_S n ts : parse_not (S n) ts =
  if starts_operator ts then Err else
  match ts with
  | TCaret :: r1 =>
    match r1 with
    | [] => Err
    | _ :: _ =>
      match parse_not n r1 with
      | Ok f r2 => Ok (ANot f) r2
      | e => e
      end
    end
  | _ => parse_basic n ts
  end.
Proof. reflexivity. Qed.

Lemma parse_basic_S n ts : parse_basic (S n) ts =
  match ts with
  | [] => Ok (AVar "") []
  | t :: r =>
    if is_operator t then Err else
    match t with
    | TRp => Err
    | TLp =>
      match parse_clause n r with
      | Ok f r1 =>
        match r1 with
        | [] => Err
        | TRp :: r2 => Ok f r2
        | _ :: _ => Err
        end
      | e => e
      end
    | TLb =>
      match parse_vars r with
      | Some (l, r') => Ok (AUniq l) r'
      | None => Err
      end
    | _ =>
      match ident_text t with
      | Some s => Ok (AVar s) r
      | None => Err
      end
    end
  end.
Proof. reflexivity. Qed.

(* ---------------------------------------------------------------- *)
(* The accepted language                                             *)

(* content of a brace group after "{", closing brace included *)
Inductive Vars : list tok -> list string -> Prop :=
| V1 t s : ident_text t = Some s -> Vars [t; TRb] [s]
| VS t s p l : ident_text t = Some s -> Vars p l -> Vars (t :: TComma :: p) (s :: l).

(* the tokens parseBasic turns into a variable: the name-like ones *)
Definition var_tok (t : tok) : option string := ident_text t.

Inductive Der : nat -> list tok -> ast -> Prop :=
| DVar t s : var_tok t = Some s -> Der 0 [t] (AVar s)
| DParen p a : Der 6 p a -> Der 0 (TLp :: p ++ [TRp]) a
| DUniq p l : Vars p l -> Der 0 (TLb :: p) (AUniq l)
| DNot p a : Der 1 p a -> Der 1 (TCaret :: p) (ANot a)
| DUp L p a : Der L p a -> L < 6 -> Der (S L) p a
| DBin o p q a b :
    Der (lvl o - 1) p a -> Der (lvl o) q b ->
    Der (lvl o) (p ++ op_toks o ++ q) (ABin o a b).

(* what Parse accepts: a clause list, optionally followed by one ";" *)
Definition DerTop (p : list tok) (a : ast) : Prop :=
  Der 6 p a \/ exists p', p = p' ++ [TSemi] /\ Der 6 p' a.

Lemma Der_up : forall L L' p a, Der L p a -> L <= L' -> L' <= 6 -> Der L' p a.
Proof.
  intros L L' p a D H1 H2. induction H1 as [|m H1 IH]; [exact D|].
  apply DUp; [apply IH; lia|lia].
Qed.

Lemma Der_head : forall L p a, Der L p a ->
  exists t p', p = t :: p' /\ is_operator t = false.
Proof.
  intros L p a D. induction D as [t s H|p a D IH|p l V|p a D IH|L p a D IH HL|o p q a b D1 IH1 D2 IH2].
  - exists t, []. split; [reflexivity|]. destruct t; simpl in *; try discriminate; reflexivity.
  - exists TLp, (p ++ [TRp]). auto.
  - exists TLb, p. auto.
  - exists TCaret, p. auto.
  - exact IH.
  - destruct IH1 as [t [p' [-> Ht]]]. exists t, (p' ++ op_toks o ++ q). auto.
Qed.

Lemma Der0_head : forall p a, Der 0 p a ->
  exists t p', p = t :: p' /\ is_operator t = false /\ t <> TCaret.
Proof.
  intros p a D. remember 0 as L eqn:EL.
  destruct D as [t s H|p a D|p l V|p a D|L p a D HL|o p q a b D1 D2]; try discriminate.
  - exists t, []. destruct t; simpl in *; try discriminate; repeat split; congruence.
  - exists TLp, (p ++ [TRp]). repeat split; congruence.
  - exists TLb, p. repeat split; congruence.
  - destruct o; discriminate.
Qed.

Lemma Der_level : forall L p a, Der L p a -> L <= 6.
Proof.
  intros L p a D. induction D; lia.
Qed.

(* ---------------------------------------------------------------- *)
(* parse_vars                                                        *)

Lemma parse_vars_sound : forall ts l r,
  parse_vars ts = Some (l, r) -> exists p, ts = p ++ r /\ Vars p l.
Proof.
  fix IH 1. intros ts l r H. destruct ts as [|t ts1]; [discriminate|].
  simpl in H. destruct (ident_text t) as [s|] eqn:Et; [|discriminate].
  destruct ts1 as [|t1 ts2]; [discriminate|].
  destruct t1; try discriminate.
  - inversion H; subst. exists [t; TRb]. split; [reflexivity|]. apply V1; exact Et.
  - destruct (parse_vars ts2) as [[l' r']|] eqn:E2; [|discriminate].
    inversion H; subst. apply IH in E2. destruct E2 as [p [-> V]].
    exists (t :: TComma :: p). split; [reflexivity|]. apply VS; assumption.
Qed.

Lemma parse_vars_complete : forall p l, Vars p l ->
  forall r, parse_vars (p ++ r) = Some (l, r).
Proof.
  intros p l V. induction V as [t s H|t s p l H V IH]; intro r; simpl.
  - rewrite H. reflexivity.
  - rewrite H. rewrite IH. reflexivity.
Qed.

Lemma Vars_length : forall p l, Vars p l -> 2 <= List.length p.
Proof. intros p l V. destruct V; simpl; lia. Qed.

(* ---------------------------------------------------------------- *)
(* Soundness: whatever the mirror accepts is in [Der]                *)

Definition snd_lvl (P : nat -> list tok -> res) (L n : nat) : Prop :=
  forall t r a rest, P n (t :: r) = Ok a rest ->
    exists pre, t :: r = pre ++ rest /\ Der L pre a.

Definition snd_basic (n : nat) : Prop :=
  forall t r a rest, t <> TCaret -> parse_basic n (t :: r) = Ok a rest ->
    exists pre, t :: r = pre ++ rest /\ Der 0 pre a.

Definition snd_equiv (n : nat) : Prop :=
  forall ts a rest, parse_equiv n ts = Ok a rest ->
    exists pre, ts = pre ++ rest /\ Der 5 pre a.

Definition snd_clause (n : nat) : Prop :=
  forall ts a rest, parse_clause n ts = Ok a rest ->
    exists pre, ts = pre ++ rest /\
      (Der 6 pre a \/ (rest = [] /\ exists p, pre = p ++ [TSemi] /\ Der 6 p a)).

Lemma snd_basic_step n : snd_clause n -> snd_basic (S n).
Proof.
  intros IHc t r a rest Hc H. rewrite parse_basic_S in H.
  destruct (is_operator t) eqn:Eo; [discriminate|].
  destruct t; try discriminate; simpl in H;
    try (inversion H; subst; eexists [_]; split; [reflexivity|]; apply DVar; reflexivity).
  - (* ( *)
    destruct (parse_clause n r) as [f r1| |] eqn:E; try discriminate.
    destruct r1 as [|t1 r2]; [discriminate|]. destruct t1; try discriminate.
    inversion H; subst. apply IHc in E. destruct E as [pre [-> [D|[E _]]]]; [|discriminate].
    exists (TLp :: pre ++ [TRp]). split.
    + simpl. rewrite <- app_assoc. reflexivity.
    + apply DParen. exact D.
  - (* { *)
    destruct (parse_vars r) as [[l r']|] eqn:E; [|discriminate].
    inversion H; subst. apply parse_vars_sound in E. destruct E as [p [-> V]].
    exists (TLb :: p). split; [reflexivity|]. apply DUniq. exact V.
Qed.

Lemma snd_not_step n : snd_basic n -> snd_lvl parse_not 1 n -> snd_lvl parse_not 1 (S n).
Proof.
  intros IHb IHn t r a rest H. rewrite parse_not_S in H.
  destruct (starts_operator (t :: r)) eqn:Eo; [discriminate|].
  assert (Hb : t <> TCaret -> parse_basic n (t :: r) = Ok a rest ->
               exists pre, t :: r = pre ++ rest /\ Der 1 pre a).
  { intros Hc Hp. apply IHb in Hp; [|exact Hc]. destruct Hp as [pre [E D]].
    exists pre. split; [exact E|]. apply DUp; [exact D|lia]. }
  destruct t; try (apply Hb; [discriminate|exact H]).
  destruct r as [|t1 r1]; [discriminate|].
  destruct (parse_not n (t1 :: r1)) as [f r2| |] eqn:E; try discriminate.
  inversion H; subst. apply IHn in E. destruct E as [pre [E D]].
  exists (TCaret :: pre). split; [simpl; rewrite E; reflexivity|]. apply DNot. exact D.
Qed.

Lemma snd_and_step n : snd_lvl parse_not 1 n -> snd_lvl parse_and 2 n -> snd_lvl parse_and 2 (S n).
Proof.
  intros IH1 IH2 t r a rest H. rewrite parse_and_S in H.
  destruct (parse_not n (t :: r)) as [f r0| |] eqn:E; try discriminate.
  apply IH1 in E. destruct E as [pre [E D]].
  assert (Hs : Ok f r0 = Ok a rest -> exists pre, t :: r = pre ++ rest /\ Der 2 pre a).
  { intro Hq. inversion Hq; subst. exists pre. split; [exact E|]. apply DUp; [exact D|lia]. }
  destruct r0 as [|t1 r1]; [exact (Hs H)|].
  destruct t1; try exact (Hs H).
  destruct r1 as [|t2 r2]; [discriminate|].
  destruct (parse_and n (t2 :: r2)) as [f2 r3| |] eqn:E2; try discriminate.
  inversion H; subst. apply IH2 in E2. destruct E2 as [pre2 [E2 D2]].
  exists (pre ++ op_toks And ++ pre2). split.
  - rewrite E, E2. simpl. rewrite <- app_assoc. reflexivity.
  - apply (DBin And); assumption.
Qed.

Lemma snd_or_step n : snd_lvl parse_and 2 n -> snd_lvl parse_or 3 n -> snd_lvl parse_or 3 (S n).
Proof.
  intros IH1 IH2 t r a rest H. rewrite parse_or_S in H.
  destruct (parse_and n (t :: r)) as [f r0| |] eqn:E; try discriminate.
  apply IH1 in E. destruct E as [pre [E D]].
  assert (Hs : Ok f r0 = Ok a rest -> exists pre, t :: r = pre ++ rest /\ Der 3 pre a).
  { intro Hq. inversion Hq; subst. exists pre. split; [exact E|]. apply DUp; [exact D|lia]. }
  destruct r0 as [|t1 r1]; [exact (Hs H)|].
  destruct t1; try exact (Hs H).
  destruct r1 as [|t2 r2]; [discriminate|].
  destruct (parse_or n (t2 :: r2)) as [f2 r3| |] eqn:E2; try discriminate.
  inversion H; subst. apply IH2 in E2. destruct E2 as [pre2 [E2 D2]].
  exists (pre ++ op_toks Or ++ pre2). split.
  - rewrite E, E2. simpl. rewrite <- app_assoc. reflexivity.
  - apply (DBin Or); assumption.
Qed.

Lemma snd_implies_step n :
  snd_lvl parse_or 3 n -> snd_lvl parse_implies 4 n -> snd_lvl parse_implies 4 (S n).
Proof.
  intros IH1 IH2 t r a rest H. rewrite parse_implies_S in H.
  destruct (parse_or n (t :: r)) as [f r0| |] eqn:E; try discriminate.
  apply IH1 in E. destruct E as [pre [E D]].
  assert (Hs : Ok f r0 = Ok a rest -> exists pre, t :: r = pre ++ rest /\ Der 4 pre a).
  { intro Hq. inversion Hq; subst. exists pre. split; [exact E|]. apply DUp; [exact D|lia]. }
  destruct r0 as [|t1 r1]; [exact (Hs H)|].
  destruct t1; try exact (Hs H).
  destruct r1 as [|t2 r2]; [discriminate|].
  destruct t2; try discriminate.
  destruct r2 as [|t3 r3]; [discriminate|].
  destruct (parse_implies n (t3 :: r3)) as [f2 r4| |] eqn:E2; try discriminate.
  inversion H; subst. apply IH2 in E2. destruct E2 as [pre2 [E2 D2]].
  exists (pre ++ op_toks Impl ++ pre2). split.
  - rewrite E, E2. simpl. rewrite <- app_assoc. reflexivity.
  - apply (DBin Impl); assumption.
Qed.

Lemma snd_equiv_step n : snd_lvl parse_implies 4 n -> snd_equiv n -> snd_equiv (S n).
Proof.
  intros IH1 IH2 ts a rest H. rewrite parse_equiv_S in H.
  destruct ts as [|t r]; [discriminate|].
  destruct (starts_operator (t :: r)); [discriminate|].
  destruct (parse_implies n (t :: r)) as [f r0| |] eqn:E; try discriminate.
  apply IH1 in E. destruct E as [pre [E D]].
  assert (Hs : Ok f r0 = Ok a rest -> exists pre, t :: r = pre ++ rest /\ Der 5 pre a).
  { intro Hq. inversion Hq; subst. exists pre. split; [exact E|]. apply DUp; [exact D|lia]. }
  destruct r0 as [|t1 r1]; [exact (Hs H)|].
  destruct t1; try exact (Hs H).
  destruct r1 as [|t2 r2]; [discriminate|].
  destruct (parse_equiv n (t2 :: r2)) as [f2 r3| |] eqn:E2; try discriminate.
  inversion H; subst. apply IH2 in E2. destruct E2 as [pre2 [E2 D2]].
  exists (pre ++ op_toks Equiv ++ pre2). split.
  - rewrite E, E2. simpl. rewrite <- app_assoc. reflexivity.
  - apply (DBin Equiv); assumption.
Qed.

Lemma snd_clause_step n : snd_equiv n -> snd_clause n -> snd_clause (S n).
Proof.
  intros IH1 IH2 ts a rest H. rewrite parse_clause_S in H.
  destruct (starts_operator ts); [discriminate|].
  destruct (parse_equiv n ts) as [f r0| |] eqn:E; try discriminate.
  apply IH1 in E. destruct E as [pre [E D]].
  assert (Hs : Ok f r0 = Ok a rest -> exists pre, ts = pre ++ rest /\
      (Der 6 pre a \/ (rest = [] /\ exists p, pre = p ++ [TSemi] /\ Der 6 p a))).
  { intro Hq. inversion Hq; subst. exists pre. split; [reflexivity|]. left.
    apply DUp; [exact D|lia]. }
  destruct r0 as [|t1 r1]; [exact (Hs H)|].
  destruct t1; try exact (Hs H).
  destruct r1 as [|t2 r2].
  - inversion H; subst. exists (pre ++ [TSemi]). split; [rewrite app_nil_r; reflexivity|].
    right. split; [reflexivity|]. exists pre. split; [reflexivity|]. apply DUp; [exact D|lia].
  - destruct (parse_clause n (t2 :: r2)) as [f2 r3| |] eqn:E2; try discriminate.
    inversion H; subst. apply IH2 in E2. destruct E2 as [pre2 [E2 [D2|[-> [p [-> D2]]]]]].
    + exists (pre ++ op_toks Seq ++ pre2). split.
      * rewrite E2. simpl. rewrite <- app_assoc. reflexivity.
      * left. apply (DBin Seq); assumption.
    + exists ((pre ++ op_toks Seq ++ p) ++ [TSemi]). split.
      * rewrite E2. simpl. rewrite !app_nil_r. rewrite <- !app_assoc. reflexivity.
      * right. split; [reflexivity|]. eexists. split; [reflexivity|].
        apply (DBin Seq); assumption.
Qed.

Lemma sound_all : forall n,
  snd_basic n /\ snd_lvl parse_not 1 n /\ snd_lvl parse_and 2 n /\ snd_lvl parse_or 3 n /\
  snd_lvl parse_implies 4 n /\ snd_equiv n /\ snd_clause n.
Proof.
  induction n as [|n IH].
  - repeat split; intro; intros; discriminate.
  - destruct IH as [Hb [Hn [Ha [Ho [Hi [He Hc]]]]]].
    repeat split.
    + apply snd_basic_step; assumption.
    + apply snd_not_step; assumption.
    + apply snd_and_step; assumption.
    + apply snd_or_step; assumption.
    + apply snd_implies_step; assumption.
    + apply snd_equiv_step; assumption.
    + apply snd_clause_step; assumption.
Qed.

Lemma parse_clause_sound : forall n ts a rest, parse_clause n ts = Ok a rest ->
  exists pre, ts = pre ++ rest /\
    (Der 6 pre a \/ (rest = [] /\ exists p, pre = p ++ [TSemi] /\ Der 6 p a)).
Proof. intro n. apply (sound_all n). Qed.

Theorem parse_sound : forall toks a, parse toks = Some a -> DerTop toks a.
Proof.
  intros toks a H. unfold parse in H.
  destruct (parse_clause (parse_fuel toks) toks) as [f r| |] eqn:E; try discriminate.
  destruct r; [|discriminate]. inversion H; subst.
  apply parse_clause_sound in E. destruct E as [pre [E D]]. rewrite app_nil_r in E. subst pre.
  destruct D as [D|[_ [p [-> D]]]]; [left; exact D|right; eauto].
Qed.


(* ---------------------------------------------------------------- *)
(* Completeness: every element of [Der] is accepted, with the tree   *)

Definition oplvl (t : tok) : option nat :=
  match t with
  | TAmp => Some 2 | TBar => Some 3 | TMinus => Some 4 | TEq => Some 5 | TSemi => Some 6
  | _ => None
  end.

(* the token after the formula does not continue it at level L *)
Definition stop (L : nat) (rest : list tok) : Prop :=
  match rest with
  | [] => True
  | t :: _ => match oplvl t with Some k => L < k | None => True end
  end.

Definition parse_lvl (L : nat) : nat -> list tok -> res :=
  match L with
  | 0 => parse_basic | 1 => parse_not | 2 => parse_and | 3 => parse_or
  | 4 => parse_implies | 5 => parse_equiv | _ => parse_clause
  end.

Lemma stop_mono : forall L L' rest, stop L' rest -> L <= L' -> stop L rest.
Proof.
  intros L L' [|t r] H HL; simpl in *; [exact I|]. destruct (oplvl t); [lia|exact I].
Qed.

Ltac stop_ret Hs :=
  match goal with
  | |- context [match ?rest with [] => _ | _ :: _ => _ end] =>
    destruct rest as [|?t ?r]; [reflexivity|];
    match goal with |- context [match ?t with TId _ => _ | _ => _ end] =>
      destruct t; try reflexivity; simpl in Hs; exfalso; lia end
  end.

Lemma complete : forall L p a, Der L p a ->
  forall rest fuel, stop L rest -> 7 * List.length p + L + 1 <= fuel ->
  parse_lvl L fuel (p ++ rest) = Ok a rest.
Proof.
  intros L p a D.
  induction D as [t s H|p a D IH|p l V|p a D IH|L p a D IH HL|o p q a b D1 IH1 D2 IH2];
    intros rest fuel Hs Hf.
  - (* variable *)
    destruct fuel as [|n]; [simpl in Hf; lia|]. unfold parse_lvl. rewrite parse_basic_S. simpl.
    destruct t; simpl in *; try discriminate; inversion H; reflexivity.
  - (* parentheses *)
    destruct fuel as [|n]; [simpl in Hf; lia|]. unfold parse_lvl. rewrite parse_basic_S.
    simpl. rewrite <- app_assoc. simpl.
    unfold parse_lvl in IH. rewrite IH; [reflexivity|exact I|].
    simpl in Hf. rewrite app_length in Hf. simpl in Hf. lia.
  - (* braces *)
    destruct fuel as [|n]; [simpl in Hf; lia|]. unfold parse_lvl. rewrite parse_basic_S. simpl.
    rewrite (parse_vars_complete _ _ V). reflexivity.
  - (* negation *)
    destruct fuel as [|n]; [simpl in Hf; lia|]. unfold parse_lvl. rewrite parse_not_S. simpl.
    destruct (Der_head _ _ _ D) as [t [p' [Ep _]]].
    unfold parse_lvl in IH. specialize (IH rest n Hs). rewrite Ep in *. simpl in *.
    rewrite IH; [reflexivity|lia].
  - (* a formula of level L is one of level L+1 *)
    destruct fuel as [|n]; [simpl in Hf; lia|].
    assert (Hs' : stop L rest) by (apply (stop_mono L (S L)); [exact Hs|lia]).
    specialize (IH rest n Hs').
    destruct (Der_head _ _ _ D) as [t [p' [Ep Ho]]].
    destruct L as [|[|[|[|[|[|L]]]]]]; unfold parse_lvl in *.
    + destruct (Der0_head _ _ D) as [t0 [p0 [E0 [Ho0 Hc0]]]].
      rewrite parse_not_S. rewrite E0 in *. simpl. rewrite Ho0.
      rewrite <- IH by lia. destruct t0; try reflexivity. congruence.
    + rewrite parse_and_S. rewrite IH by lia. stop_ret Hs.
    + rewrite parse_or_S. rewrite IH by lia. stop_ret Hs.
    + rewrite parse_implies_S. rewrite IH by lia. stop_ret Hs.
    + rewrite parse_equiv_S. rewrite Ep in *. simpl in IH, Hf |- *. rewrite Ho. rewrite IH by lia. stop_ret Hs.
    + rewrite parse_clause_S. rewrite Ep in *. simpl in IH, Hf |- *. rewrite Ho. rewrite IH by lia. stop_ret Hs.
    + lia.
  - (* binary operators *)
    destruct fuel as [|n]; [simpl in Hf; lia|].
    destruct (Der_head _ _ _ D1) as [t1 [p1 [Ep1 Ho1]]].
    destruct (Der_head _ _ _ D2) as [t2 [q2 [Eq2 Ho2]]].
    rewrite !app_length in Hf.
    specialize (IH2 rest n Hs).
    rewrite Ep1, Eq2 in *.
    destruct o; cbv beta iota delta [parse_lvl lvl Nat.sub op_toks] in *;
      rewrite <- !app_assoc; simpl app in *; simpl List.length in *.
    + rewrite parse_clause_S. simpl starts_operator. rewrite Ho1.
      rewrite IH1; [|simpl; lia|lia]. rewrite IH2 by lia. reflexivity.
    + rewrite parse_equiv_S. simpl starts_operator. rewrite Ho1.
      rewrite IH1; [|simpl; lia|lia]. rewrite IH2 by lia. reflexivity.
    + rewrite parse_implies_S.
      rewrite IH1; [|simpl; lia|lia]. rewrite IH2 by lia. reflexivity.
    + rewrite parse_or_S.
      rewrite IH1; [|simpl; lia|lia]. rewrite IH2 by lia. reflexivity.
    + rewrite parse_and_S.
      rewrite IH1; [|simpl; lia|lia]. rewrite IH2 by lia. reflexivity.
Qed.

Theorem parse_complete : forall p a, Der 6 p a -> parse p = Some a.
Proof.
  intros p a D. unfold parse, parse_fuel.
  pose proof (complete 6 p a D [] (7 * List.length p + 7) I) as H.
  rewrite app_nil_r in H. unfold parse_lvl in H. rewrite H by lia. reflexivity.
Qed.

(* the final ";" *)
Lemma complete_semi : forall L p a, Der L p a -> L = 6 ->
  forall fuel, 7 * (List.length p + 1) + 7 <= fuel ->
  parse_clause fuel (p ++ [TSemi]) = Ok a [].
Proof.
  intros L p a D.
  induction D as [t s H|p a D IH|p l V|p a D IH|L p a D IH HL|o p q a b D1 IH1 D2 IH2];
    intros EL fuel Hf; try discriminate.
  - injection EL as EL. subst L. destruct fuel as [|n]; [lia|].
    destruct (Der_head _ _ _ D) as [t [p' [Ep Ho]]].
    rewrite parse_clause_S.
    pose proof (complete 5 p a D [TSemi] n) as H. unfold parse_lvl in H.
    rewrite Ep in *. simpl app in *. simpl starts_operator. rewrite Ho.
    rewrite H; [reflexivity|simpl; lia|simpl List.length in *; lia].
  - destruct o; try discriminate. clear EL IH1.
    destruct fuel as [|n]; [lia|].
    destruct (Der_head _ _ _ D1) as [t1 [p1 [Ep1 Ho1]]].
    destruct (Der_head _ _ _ D2) as [t2 [q2 [Eq2 Ho2]]].
    cbv beta iota delta [lvl Nat.sub op_toks] in *.
    pose proof (complete 5 p a D1 (TSemi :: q ++ [TSemi]) n) as H. unfold parse_lvl in H.
    specialize (IH2 eq_refl n).
    rewrite !app_length in Hf. rewrite Ep1, Eq2 in *.
    rewrite <- !app_assoc. simpl app in *. simpl List.length in *.
    rewrite parse_clause_S. simpl starts_operator. rewrite Ho1.
    rewrite H; [|simpl; lia|lia]. rewrite IH2 by lia. reflexivity.
Qed.

Theorem parse_complete_semi : forall p a, Der 6 p a -> parse (p ++ [TSemi]) = Some a.
Proof.
  intros p a D. unfold parse, parse_fuel.
  rewrite (complete_semi 6 p a D eq_refl); [reflexivity|].
  rewrite app_length. simpl. lia.
Qed.

Theorem parse_complete_top : forall p a, DerTop p a -> parse p = Some a.
Proof.
  intros p a [D|[p' [-> D]]]; [apply parse_complete|apply parse_complete_semi]; exact D.
Qed.

(* The mirror is exactly the relation [DerTop]. *)
Theorem parse_iff : forall p a, parse p = Some a <-> DerTop p a.
Proof. intros p a. split; [apply parse_sound|apply parse_complete_top]. Qed.

(* ---------------------------------------------------------------- *)
(* Totality: the fuel of [parse] is never exhausted                  *)

Lemma Der_len : forall L p a, Der L p a -> 1 <= List.length p.
Proof.
  intros L p a D. destruct (Der_head _ _ _ D) as [t [p' [-> _]]]. simpl. lia.
Qed.

Lemma sound_lvl_shorter (P : nat -> list tok -> res) L n :
  snd_lvl P L n -> forall t r a rest, P n (t :: r) = Ok a rest ->
  List.length rest < List.length (t :: r).
Proof.
  intros S t r a rest H. apply S in H. destruct H as [pre [E D]].
  apply Der_len in D. rewrite E, app_length. lia.
Qed.

Definition tot_lvl (P : nat -> list tok -> res) (L n : nat) : Prop :=
  forall t r, 7 * List.length (t :: r) + L + 1 <= n -> P n (t :: r) <> OutOfFuel.
Definition tot_all (P : nat -> list tok -> res) (L n : nat) : Prop :=
  forall ts, 7 * List.length ts + L + 1 <= n -> P n ts <> OutOfFuel.

Lemma tot_basic_step n : tot_all parse_clause 6 n -> tot_lvl parse_basic 0 (S n).
Proof.
  intros IH t r Hf. rewrite parse_basic_S.
  destruct (is_operator t); [discriminate|].
  destruct t; try discriminate; simpl.
  - pose proof (IH r) as H. simpl in Hf.
    destruct (parse_clause n r) as [f r1| |]; [|discriminate|apply H; lia].
    destruct r1 as [|t1 r2]; [discriminate|]. destruct t1; discriminate.
  - destruct (parse_vars r) as [[l r']|]; discriminate.
Qed.

Lemma tot_not_step n :
  tot_lvl parse_basic 0 n -> tot_lvl parse_not 1 n -> tot_lvl parse_not 1 (S n).
Proof.
  intros IHb IHn t r Hf. rewrite parse_not_S.
  destruct (starts_operator (t :: r)); [discriminate|].
  assert (Hb : parse_basic n (t :: r) <> OutOfFuel) by (apply IHb; lia).
  destruct t; try exact Hb.
  destruct r as [|t1 r1]; [discriminate|].
  pose proof (IHn t1 r1) as H. simpl List.length in *.
  destruct (parse_not n (t1 :: r1)); [discriminate|discriminate|apply H; lia].
Qed.

Lemma tot_and_step n :
  tot_lvl parse_not 1 n -> tot_lvl parse_and 2 n -> tot_lvl parse_and 2 (S n).
Proof.
  intros IH1 IH2 t r Hf. rewrite parse_and_S.
  pose proof (IH1 t r) as H1.
  destruct (parse_not n (t :: r)) as [f r0| |] eqn:E; [|discriminate|apply H1; lia].
  apply (sound_lvl_shorter _ 1 n) in E; [|apply (sound_all n)].
  destruct r0 as [|t1 r1]; [discriminate|]. destruct t1; try discriminate.
  destruct r1 as [|t2 r2]; [discriminate|].
  pose proof (IH2 t2 r2) as H2. simpl List.length in *.
  destruct (parse_and n (t2 :: r2)); [discriminate|discriminate|apply H2; lia].
Qed.

Lemma tot_or_step n :
  tot_lvl parse_and 2 n -> tot_lvl parse_or 3 n -> tot_lvl parse_or 3 (S n).
Proof.
  intros IH1 IH2 t r Hf. rewrite parse_or_S.
  pose proof (IH1 t r) as H1.
  destruct (parse_and n (t :: r)) as [f r0| |] eqn:E; [|discriminate|apply H1; lia].
  apply (sound_lvl_shorter _ 2 n) in E; [|apply (sound_all n)].
  destruct r0 as [|t1 r1]; [discriminate|]. destruct t1; try discriminate.
  destruct r1 as [|t2 r2]; [discriminate|].
  pose proof (IH2 t2 r2) as H2. simpl List.length in *.
  destruct (parse_or n (t2 :: r2)); [discriminate|discriminate|apply H2; lia].
Qed.

Lemma tot_implies_step n :
  tot_lvl parse_or 3 n -> tot_lvl parse_implies 4 n -> tot_lvl parse_implies 4 (S n).
Proof.
  intros IH1 IH2 t r Hf. rewrite parse_implies_S.
  pose proof (IH1 t r) as H1.
  destruct (parse_or n (t :: r)) as [f r0| |] eqn:E; [|discriminate|apply H1; lia].
  apply (sound_lvl_shorter _ 3 n) in E; [|apply (sound_all n)].
  destruct r0 as [|t1 r1]; [discriminate|]. destruct t1; try discriminate.
  destruct r1 as [|t2 r2]; [discriminate|]. destruct t2; try discriminate.
  destruct r2 as [|t3 r3]; [discriminate|].
  pose proof (IH2 t3 r3) as H2. simpl List.length in *.
  destruct (parse_implies n (t3 :: r3)); [discriminate|discriminate|apply H2; lia].
Qed.

Lemma tot_equiv_step n :
  tot_lvl parse_implies 4 n -> tot_all parse_equiv 5 n -> tot_all parse_equiv 5 (S n).
Proof.
  intros IH1 IH2 ts Hf. rewrite parse_equiv_S.
  destruct ts as [|t r]; [discriminate|].
  destruct (starts_operator (t :: r)); [discriminate|].
  pose proof (IH1 t r) as H1.
  destruct (parse_implies n (t :: r)) as [f r0| |] eqn:E; [|discriminate|apply H1; lia].
  apply (sound_lvl_shorter _ 4 n) in E; [|apply (sound_all n)].
  destruct r0 as [|t1 r1]; [discriminate|]. destruct t1; try discriminate.
  destruct r1 as [|t2 r2]; [discriminate|].
  pose proof (IH2 (t2 :: r2)) as H2. simpl List.length in *.
  destruct (parse_equiv n (t2 :: r2)); [discriminate|discriminate|apply H2; lia].
Qed.

Lemma tot_clause_step n :
  tot_all parse_equiv 5 n -> tot_all parse_clause 6 n -> tot_all parse_clause 6 (S n).
Proof.
  intros IH1 IH2 ts Hf. rewrite parse_clause_S.
  destruct (starts_operator ts); [discriminate|].
  pose proof (IH1 ts) as H1.
  destruct (parse_equiv n ts) as [f r0| |] eqn:E; [|discriminate|apply H1; lia].
  assert (Hl : List.length r0 < List.length ts).
  { destruct (sound_all n) as [_ [_ [_ [_ [_ [He _]]]]]]. apply He in E.
    destruct E as [pre [-> D]]. apply Der_len in D. rewrite app_length. lia. }
  destruct r0 as [|t1 r1]; [discriminate|]. destruct t1; try discriminate.
  destruct r1 as [|t2 r2]; [discriminate|].
  pose proof (IH2 (t2 :: r2)) as H2. simpl List.length in *.
  destruct (parse_clause n (t2 :: r2)); [discriminate|discriminate|apply H2; lia].
Qed.

Lemma total_all : forall n,
  tot_lvl parse_basic 0 n /\ tot_lvl parse_not 1 n /\ tot_lvl parse_and 2 n /\
  tot_lvl parse_or 3 n /\ tot_lvl parse_implies 4 n /\ tot_all parse_equiv 5 n /\
  tot_all parse_clause 6 n.
Proof.
  induction n as [|n IH].
  - repeat split; intro; intros; simpl in *; lia.
  - destruct IH as [Hb [Hn [Ha [Ho [Hi [He Hc]]]]]].
    repeat split.
    + apply tot_basic_step; assumption.
    + apply tot_not_step; assumption.
    + apply tot_and_step; assumption.
    + apply tot_or_step; assumption.
    + apply tot_implies_step; assumption.
    + apply tot_equiv_step; assumption.
    + apply tot_clause_step; assumption.
Qed.

Theorem parse_clause_total : forall toks,
  parse_clause (parse_fuel toks) toks <> OutOfFuel.
Proof.
  intro toks. apply (total_all (parse_fuel toks)). unfold parse_fuel. lia.
Qed.


(* ---------------------------------------------------------------- *)
(* The printer produces elements of [Der]; round trip                *)

Lemma alvl_le6 : forall a, alvl a <= 6.
Proof. intros [s|x|o x y|l]; simpl; try lia. destruct o; simpl; lia. Qed.

Lemma wrap_Der : forall k body a, Der 6 body a -> Der 0 (wrap (S k) body) a.
Proof.
  induction k as [|k IH]; intros body a D.
  - simpl. apply DParen. exact D.
  - change (wrap (S (S k)) body) with (TLp :: wrap (S k) body ++ [TRp]).
    apply DParen. apply (Der_up 0); [apply IH; exact D|lia|lia].
Qed.

Lemma wrap_sel : forall a body ctx extra, Der (alvl a) body a -> ctx <= 6 ->
  Der ctx (wrap (if extra =? 0 then (if alvl a <=? ctx then 0 else 1) else extra) body) a.
Proof.
  intros a body ctx extra D Hc.
  assert (D6 : Der 6 body a) by (apply (Der_up (alvl a)); [exact D|apply alvl_le6|lia]).
  destruct extra as [|e]; simpl Nat.eqb; cbv iota.
  - destruct (alvl a <=? ctx) eqn:E.
    + apply Nat.leb_le in E. simpl. apply (Der_up (alvl a)); assumption.
    + apply (Der_up 0); [apply wrap_Der; exact D6|lia|exact Hc].
  - apply (Der_up 0); [apply wrap_Der; exact D6|lia|exact Hc].
Qed.

Lemma commas_Vars : forall l, l <> [] -> Vars (commas l ++ [TRb]) l.
Proof.
  induction l as [|s l IH]; intros Hne; [congruence|].
  destruct l as [|s2 l2].
  - simpl. apply V1. reflexivity.
  - change (commas (s :: s2 :: l2)) with (TId s :: TComma :: commas (s2 :: l2)).
    simpl app. apply VS; [reflexivity|]. apply IH. discriminate.
Qed.

Lemma pr_Der : forall a, wf_idents a -> forall ctx lay, ctx <= 6 ->
  Der ctx (fst (pr ctx a lay)) a.
Proof.
  unfold wf_idents.
  induction a as [s|x IHx|o x IHx y IHy|l]; intros Hwf ctx lay Hc; simpl in Hwf; simpl pr;
    destruct (next lay) as [k lay1].
  - simpl fst. apply (wrap_sel (AVar s)); [|exact Hc]. apply DVar. reflexivity.
  - specialize (IHx Hwf 1 lay1). destruct (pr 1 x lay1) as [p l2]. simpl fst in *.
    apply (wrap_sel (ANot x)); [|exact Hc]. simpl. apply DNot. apply IHx. lia.
  - apply andb_prop in Hwf. destruct Hwf as [Hx Hy].
    specialize (IHx Hx (lvl o - 1) lay1). destruct (pr (lvl o - 1) x lay1) as [p l2].
    specialize (IHy Hy (lvl o) l2). destruct (pr (lvl o) y l2) as [q l3]. simpl fst in *.
    apply (wrap_sel (ABin o x y)); [|exact Hc]. simpl. apply DBin.
    + apply IHx. destruct o; simpl; lia.
    + apply IHy. destruct o; simpl; lia.
  - simpl fst. apply (wrap_sel (AUniq l)); [|exact Hc]. simpl.
    apply andb_prop in Hwf. destruct Hwf as [Hne Hl].
    change (TLb :: commas l ++ [TRb]) with (TLb :: (commas l ++ [TRb])).
    apply DUniq. apply commas_Vars. destruct l; [discriminate|discriminate].
Qed.

(* C17_roundtrip: the parser rebuilds exactly the tree that was printed *)
Theorem parse_print : forall lay a, wf_idents a -> parse (print lay a) = Some a.
Proof.
  intros lay a H. apply parse_complete. unfold print. apply pr_Der; [exact H|lia].
Qed.

Theorem roundtrip : forall lay a, wf_idents a ->
  exists a', parse (print lay a) = Some a' /\ a' = a /\
             forall env, eval_ast env a' = eval_ast env a.
Proof.
  intros lay a H. exists a. split; [apply parse_print; exact H|]. split; reflexivity.
Qed.

(* the final ";" is accepted and ignored *)
Theorem parse_print_semi : forall lay a, wf_idents a ->
  parse (print lay a ++ [TSemi]) = Some a.
Proof.
  intros lay a H. apply parse_complete_semi. unfold print. apply pr_Der; [exact H|lia].
Qed.

(* priorities and right nesting, on three variables *)
Theorem prec_pairs : forall o1 o2 x y z,
  parse ([TId x] ++ op_toks o1 ++ [TId y] ++ op_toks o2 ++ [TId z]) =
  Some (if lvl o2 <=? lvl o1
        then ABin o1 (AVar x) (ABin o2 (AVar y) (AVar z))
        else ABin o2 (ABin o1 (AVar x) (AVar y)) (AVar z)).
Proof. intros o1 o2 x y z. destruct o1, o2; reflexivity. Qed.

Theorem right_nesting : forall o x y z,
  parse ([TId x] ++ op_toks o ++ [TId y] ++ op_toks o ++ [TId z]) =
  Some (ABin o (AVar x) (ABin o (AVar y) (AVar z))).
Proof. intros o x y z. destruct o; reflexivity. Qed.

(* ---------------------------------------------------------------- *)
(* The shape automaton                                               *)

Lemma arun_app : forall p q m d, arun m d (p ++ q) =
  match arun m d p with Some (m', d') => arun m' d' q | None => None end.
Proof.
  induction p as [|t p IH]; intros q m d; simpl; [reflexivity|].
  destruct (astep m d t) as [[m' d']|]; [apply IH|reflexivity].
Qed.

Lemma ident_text_not_bad : forall t s, ident_text t = Some s -> t <> TBad.
Proof. intros t s H E. subst t. discriminate. Qed.

Lemma Vars_run : forall p l, Vars p l -> forall d, arun MBName d p = Some (MAfter, d).
Proof.
  intros p l V. induction V as [t s H|t s p l H V IH]; intro d.
  - destruct t; try discriminate. reflexivity.
  - destruct t; try discriminate. simpl. apply IH.
Qed.

Lemma Der_run : forall L p a, Der L p a -> forall d, arun MWant d p = Some (MAfter, d).
Proof.
  intros L p a D.
  induction D as [t s H|p a D IH|p l V|p a D IH|L p a D IH HL|o p q a b D1 IH1 D2 IH2]; intro d.
  - destruct t; try discriminate. reflexivity.
  - simpl. rewrite arun_app. rewrite IH. reflexivity.
  - simpl. apply Vars_run with (l := l). exact V.
  - simpl. apply IH.
  - apply IH.
  - rewrite arun_app. rewrite IH1. rewrite arun_app. destruct o; simpl; apply IH2.
Qed.

Lemma parse_run : forall toks a, parse toks = Some a ->
  arun MWant 0 toks = Some (MAfter, 0) \/
  exists p, toks = p ++ [TSemi] /\ arun MWant 0 p = Some (MAfter, 0).
Proof.
  intros toks a H. apply parse_sound in H. destruct H as [D|[p [-> D]]].
  - left. apply (Der_run _ _ _ D).
  - right. exists p. split; [reflexivity|apply (Der_run _ _ _ D)].
Qed.

Lemma parse_run_weak : forall toks a, parse toks = Some a ->
  arun MWant 0 toks = Some (MAfter, 0) \/ arun MWant 0 toks = Some (MWant, 0).
Proof.
  intros toks a H. apply parse_run in H. destruct H as [H|[p [-> H]]]; [left; exact H|].
  right. rewrite arun_app, H. reflexivity.
Qed.

Theorem parse_accept : forall toks a, parse toks = Some a -> accept toks = true.
Proof.
  intros toks a H. unfold accept. destruct (parse_run _ _ H) as [R|[p [-> R]]].
  - rewrite R. reflexivity.
  - rewrite arun_app, R. simpl. rewrite rev_app_distr. simpl.
    destruct p as [|t p]; [discriminate|]. simpl.
    destruct (rev p ++ [t]) eqn:E; [destruct (rev p); discriminate|reflexivity].
Qed.

Theorem trailing : forall toks a t rest,
  parse toks = Some a -> (forall p, toks <> p ++ [TSemi]) -> nocont t = true ->
  parse (toks ++ t :: rest) = None.
Proof.
  intros toks a t rest H Hs Ht.
  destruct (parse (toks ++ t :: rest)) as [b|] eqn:E; [|reflexivity]. exfalso.
  apply parse_run in H. destruct H as [R|[p [Ep _]]]; [|exact (Hs p Ep)].
  apply parse_run_weak in E. rewrite arun_app, R in E.
  destruct t; simpl in *; try discriminate; destruct E; discriminate.
Qed.

(* with the documented exception: one final ";" *)
Theorem trailing_semi : forall toks a,
  parse toks = Some a -> (forall p, toks <> p ++ [TSemi]) ->
  parse (toks ++ [TSemi]) = Some a /\ parse (toks ++ [TSemi; TSemi]) = None.
Proof.
  intros toks a H Hs. pose proof (parse_sound _ _ H) as D.
  destruct D as [D|[p [Ep _]]]; [|exfalso; exact (Hs p Ep)]. split.
  - apply parse_complete_semi. exact D.
  - destruct (parse (toks ++ [TSemi; TSemi])) as [b|] eqn:E; [|reflexivity]. exfalso.
    apply parse_run_weak in E. rewrite arun_app, (Der_run _ _ _ D) in E. simpl in E.
    destruct E; discriminate.
Qed.

Lemma op_last : forall o, o <> Seq -> exists l x, op_toks o = l ++ [x] /\ x <> TSemi.
Proof.
  intros o H. destruct o; try congruence.
  - exists [], TEq. split; [reflexivity|discriminate].
  - exists [TMinus], TGt. split; [reflexivity|discriminate].
  - exists [], TBar. split; [reflexivity|discriminate].
  - exists [], TAmp. split; [reflexivity|discriminate].
Qed.

Lemma op_run_not_after : forall o m d m' d',
  arun m d (op_toks o) = Some (m', d') -> m' <> MAfter.
Proof.
  intros o m d m' d' H. destruct o, m; simpl in H; try discriminate;
    inversion H; subst; discriminate.
Qed.

Theorem missing_right_operand : forall toks o, o <> Seq -> parse (toks ++ op_toks o) = None.
Proof.
  intros toks o Ho.
  destruct (parse (toks ++ op_toks o)) as [b|] eqn:E; [|reflexivity]. exfalso.
  apply parse_run in E. destruct E as [R|[p [Ep _]]].
  - rewrite arun_app in R. destruct (arun MWant 0 toks) as [[m d]|]; [|discriminate].
    apply op_run_not_after in R. congruence.
  - destruct (op_last o Ho) as [l [x [El Hx]]]. rewrite El, app_assoc in Ep.
    apply app_inj_tail in Ep. destruct Ep as [_ Ex]. congruence.
Qed.

Theorem missing_left_operand : forall toks o, parse (op_toks o ++ toks) = None.
Proof.
  intros toks o.
  destruct (parse (op_toks o ++ toks)) as [b|] eqn:E; [|reflexivity]. exfalso.
  apply parse_run_weak in E. rewrite arun_app in E.
  destruct o; simpl in E; destruct E; discriminate.
Qed.

Lemma two_ops_run : forall o1 o2 m d, arun m d (op_toks o1 ++ op_toks o2) = None.
Proof. intros o1 o2 m d. destruct o1, o2, m; reflexivity. Qed.

Theorem two_operators : forall pre post o1 o2,
  parse (pre ++ op_toks o1 ++ op_toks o2 ++ post) = None.
Proof.
  intros pre post o1 o2.
  destruct (parse (pre ++ op_toks o1 ++ op_toks o2 ++ post)) as [b|] eqn:E; [|reflexivity].
  exfalso. apply parse_run_weak in E.
  rewrite (app_assoc (op_toks o1)) in E. rewrite arun_app in E.
  destruct (arun MWant 0 pre) as [[m d]|].
  - rewrite arun_app, two_ops_run in E. destruct E; discriminate.
  - destruct E; discriminate.
Qed.

(* empty text, empty parentheses *)
Theorem parse_nil : parse [] = None.
Proof. reflexivity. Qed.

(* after an operator comes an operand: a name ( { ^ ; anything else (stray
   punctuation, another operator) is an error *)
Lemma op_run_want : forall o m d m' d',
  arun m d (op_toks o) = Some (m', d') -> m' = MWant.
Proof.
  intros o m d m' d' H. destruct o, m; simpl in H; try discriminate;
    inversion H; subst; reflexivity.
Qed.

Theorem operator_then_stray : forall pre o t rest,
  operand_start t = false -> parse (pre ++ op_toks o ++ t :: rest) = None.
Proof.
  intros pre o t rest Ht.
  destruct (parse (pre ++ op_toks o ++ t :: rest)) as [b|] eqn:E; [|reflexivity].
  exfalso. apply parse_run_weak in E. rewrite arun_app in E.
  destruct (arun MWant 0 pre) as [[m d]|]; [|destruct E; discriminate].
  rewrite arun_app in E.
  destruct (arun m d (op_toks o)) as [[m' d']|] eqn:R; [|destruct E; discriminate].
  apply op_run_want in R. subst m'.
  destruct t; simpl in Ht; try discriminate; simpl in E; destruct E; discriminate.
Qed.

(* the same at the beginning of the text, after "(" and after "^" *)
Theorem stray_first : forall t rest,
  operand_start t = false -> parse (t :: rest) = None.
Proof.
  intros t rest Ht. destruct (parse (t :: rest)) as [b|] eqn:E; [|reflexivity].
  exfalso. apply parse_run_weak in E.
  destruct t; simpl in Ht; try discriminate; simpl in E; destruct E; discriminate.
Qed.

Theorem open_then_stray : forall pre t0 t rest,
  t0 = TLp \/ t0 = TCaret -> operand_start t = false ->
  parse (pre ++ t0 :: t :: rest) = None.
Proof.
  intros pre t0 t rest H0 Ht.
  destruct (parse (pre ++ t0 :: t :: rest)) as [b|] eqn:E; [|reflexivity].
  exfalso. apply parse_run_weak in E. rewrite arun_app in E.
  destruct (arun MWant 0 pre) as [[m d]|]; [|destruct E; discriminate].
  destruct H0; subst t0; destruct m; simpl in E; try (destruct E; discriminate);
    destruct t; simpl in Ht; try discriminate; simpl in E; destruct E; discriminate.
Qed.

(* ---------------------------------------------------------------- *)
(* Balance                                                           *)

Lemma Vars_bal : forall p l, Vars p l ->
  forall st more, bal (true :: st) (p ++ more) = bal st more.
Proof.
  intros p l V. induction V as [t s H|t s p l H V IH]; intros st more;
    destruct t; try discriminate.
  - reflexivity.
  - simpl. apply IH.
Qed.

Lemma op_bal : forall o st r, bal st (op_toks o ++ r) = bal st r.
Proof. intros o st r. destruct o; reflexivity. Qed.

Lemma Der_bal : forall L p a, Der L p a ->
  forall st more, bal st (p ++ more) = bal st more.
Proof.
  intros L p a D.
  induction D as [t s H|p a D IH|p l V|p a D IH|L p a D IH HL|o p q a b D1 IH1 D2 IH2];
    intros st more.
  - destruct t; try discriminate. reflexivity.
  - simpl. rewrite <- app_assoc. rewrite IH. reflexivity.
  - simpl. apply (Vars_bal p l V).
  - simpl. apply IH.
  - apply IH.
  - rewrite <- !app_assoc. rewrite IH1. rewrite op_bal. apply IH2.
Qed.

(* C17_unbalanced *)
Theorem parse_balanced : forall toks a, parse toks = Some a -> balanced toks.
Proof.
  intros toks a H. unfold balanced. apply parse_sound in H.
  destruct H as [D|[p [-> D]]].
  - rewrite <- (app_nil_r toks). rewrite (Der_bal _ _ _ D). reflexivity.
  - rewrite (Der_bal _ _ _ D). reflexivity.
Qed.

(* what the parser builds: non-empty brace groups, the names are those of the
   name-like tokens *)
Fixpoint names_from (a : ast) : list string :=
  match a with
  | AVar s => [s]
  | ANot x => names_from x
  | ABin _ x y => names_from x ++ names_from y
  | AUniq l => l
  end.

Fixpoint tok_names (ts : list tok) : list string :=
  match ts with
  | [] => []
  | TId s :: r => s :: tok_names r
  | _ :: r => tok_names r
  end.

Lemma tok_names_app : forall p q, tok_names (p ++ q) = tok_names p ++ tok_names q.
Proof.
  induction p as [|t p IH]; intro q; [reflexivity|].
  destruct t; simpl; rewrite IH; reflexivity.
Qed.

Lemma Vars_names : forall p l, Vars p l -> tok_names p = l.
Proof.
  intros p l V. induction V as [t s H|t s p l H V IH]; destruct t; try discriminate;
    injection H as Hs; simpl; rewrite Hs.
  - reflexivity.
  - rewrite IH. reflexivity.
Qed.

Lemma Der_names : forall L p a, Der L p a -> tok_names p = names_from a.
Proof.
  intros L p a D.
  induction D as [t s H|p a D IH|p l V|p a D IH|L p a D IH HL|o p q a b D1 IH1 D2 IH2].
  - destruct t; try discriminate. inversion H; subst. reflexivity.
  - simpl. rewrite tok_names_app, IH. simpl. apply app_nil_r.
  - simpl. apply (Vars_names p l V).
  - simpl. exact IH.
  - exact IH.
  - rewrite !tok_names_app, IH1, IH2. destruct o; reflexivity.
Qed.

(* the variables of the result are exactly the names of the text, in order *)
Theorem parse_names : forall toks a, parse toks = Some a -> names_from a = tok_names toks.
Proof.
  intros toks a H. apply parse_sound in H. destruct H as [D|[p [-> D]]].
  - symmetry. apply (Der_names _ _ _ D).
  - rewrite tok_names_app. simpl. rewrite app_nil_r. symmetry. apply (Der_names _ _ _ D).
Qed.

(* ---------------------------------------------------------------- *)
(* The tokenizer undoes the character-level printer                  *)

Definition idchar (c : ascii) : bool := is_letter c || is_digit c.
Definition sep_char (c : ascii) : bool := is_blank c || (nat_of_ascii c =? 47).
Definition ends_ok (cs : list ascii) : bool :=
  match cs with [] => true | c :: _ => negb (idchar c || (nat_of_ascii c =? 46)) end.
Definition head_sep (cs : list ascii) : bool :=
  match cs with [] => true | c :: _ => sep_char c end.

Lemma scan_cons : forall st c r,
  scan_from st (c :: r) = let (out, st') := step st c in out ++ scan_from st' r.
Proof. reflexivity. Qed.

Lemma letter_facts : forall c, is_letter c = true ->
  is_blank c = false /\ (nat_of_ascii c =? 47) = false.
Proof.
  intros c H. unfold is_letter, is_blank in *. remember (nat_of_ascii c) as n eqn:En. clear En.
  rewrite !orb_true_iff, !andb_true_iff, !Nat.leb_le, Nat.eqb_eq in H.
  split.
  - rewrite !orb_false_iff. repeat split; apply Nat.eqb_neq; lia.
  - apply Nat.eqb_neq. lia.
Qed.

Lemma sep_not_id : forall c, sep_char c = true ->
  idchar c || (nat_of_ascii c =? 46) = false.
Proof.
  intros c H. unfold sep_char, idchar, is_blank, is_letter, is_digit in *.
  remember (nat_of_ascii c) as n eqn:En. clear En.
  rewrite !orb_true_iff, !Nat.eqb_eq in H.
  rewrite !orb_false_iff, !andb_false_iff, !Nat.leb_gt, !Nat.eqb_neq.
  repeat split; lia.
Qed.

Lemma digit_facts : forall c, is_digit c = true ->
  is_blank c = false /\ is_letter c = false.
Proof.
  intros c H. unfold is_digit, is_letter, is_blank in *.
  remember (nat_of_ascii c) as n eqn:En. clear En.
  rewrite !andb_true_iff, !Nat.leb_le in H.
  rewrite !orb_false_iff, !andb_false_iff, !Nat.leb_gt, !Nat.eqb_neq.
  repeat split; lia.
Qed.

Lemma step_normal_digit : forall c, is_digit c = true -> step_normal c = ([], SNum [c]).
Proof.
  intros c H. unfold step_normal. destruct (digit_facts c H) as [Hb Hl].
  rewrite Hb, Hl, H. reflexivity.
Qed.

Lemma step_normal_letter : forall c, is_letter c = true -> step_normal c = ([], SIdent [c]).
Proof.
  intros c H. unfold step_normal. destruct (letter_facts c H) as [Hb _]. rewrite Hb, H. reflexivity.
Qed.

Lemma ident_run : forall r acc cs, forallb idchar r = true ->
  scan_from (SIdent acc) (r ++ cs) = scan_from (SIdent (rev r ++ acc)) cs.
Proof.
  induction r as [|d r IH]; intros acc cs H; [reflexivity|].
  simpl in H. apply andb_prop in H. destruct H as [Hd Hr].
  simpl app. rewrite scan_cons. unfold idchar in Hd. simpl step. rewrite Hd. simpl.
  rewrite IH by exact Hr. rewrite <- app_assoc. reflexivity.
Qed.

Lemma ident_end : forall acc cs, ends_ok cs = true ->
  scan_from (SIdent acc) cs = TId (string_of_list (rev acc)) :: scan_from SNormal cs.
Proof.
  intros acc [|c r] H; [reflexivity|].
  simpl in H. apply negb_true_iff in H. apply orb_false_iff in H. destruct H as [H _].
  unfold idchar in H.
  rewrite !scan_cons. simpl step. rewrite H. destruct (step_normal c) as [out st']. reflexivity.
Qed.

Lemma num_run : forall r acc cs, forallb is_digit r = true ->
  scan_from (SNum acc) (r ++ cs) = scan_from (SNum (rev r ++ acc)) cs.
Proof.
  induction r as [|d r IH]; intros acc cs H; [reflexivity|].
  simpl in H. apply andb_prop in H. destruct H as [Hd Hr].
  simpl app. rewrite scan_cons. simpl step. rewrite Hd. simpl.
  rewrite IH by exact Hr. rewrite <- app_assoc. reflexivity.
Qed.

Lemma num_end : forall acc cs, ends_ok cs = true ->
  scan_from (SNum acc) cs = TId (string_of_list (rev acc)) :: scan_from SNormal cs.
Proof.
  intros acc [|c r] H; [reflexivity|].
  simpl in H. apply negb_true_iff in H. apply orb_false_iff in H. destruct H as [H Hdot].
  unfold idchar in H. apply orb_false_iff in H. destruct H as [Hl Hd].
  rewrite !scan_cons. simpl step. rewrite Hd, Hl, Hdot. simpl.
  destruct (step_normal c) as [out st']. reflexivity.
Qed.

Lemma string_list_id : forall s, string_of_list (list_of_string s) = s.
Proof. induction s as [|c s IH]; simpl; [reflexivity|rewrite IH; reflexivity]. Qed.

Lemma ident_scan : forall s cs, valid_ident s = true -> ends_ok cs = true ->
  scan_from SNormal (list_of_string s ++ cs) = TId s :: scan_from SNormal cs.
Proof.
  intros s cs Hv He. unfold valid_ident in Hv.
  rewrite <- (string_list_id s) at 2.
  destruct (list_of_string s) as [|c r]; [discriminate|].
  apply andb_prop in Hv. destruct Hv as [Hc Hr].
  simpl app. rewrite scan_cons. simpl step. rewrite (step_normal_letter c Hc). simpl.
  rewrite ident_run by exact Hr. rewrite ident_end by exact He.
  rewrite rev_app_distr, rev_involutive. reflexivity.
Qed.

Lemma number_scan : forall s cs, valid_number s = true -> ends_ok cs = true ->
  scan_from SNormal (list_of_string s ++ cs) = TId s :: scan_from SNormal cs.
Proof.
  intros s cs Hv He. unfold valid_number in Hv.
  rewrite <- (string_list_id s) at 2.
  destruct (list_of_string s) as [|c r]; [discriminate|].
  apply andb_prop in Hv. destruct Hv as [Hc Hr].
  simpl app. rewrite scan_cons. simpl step. rewrite (step_normal_digit c Hc). simpl.
  rewrite num_run by exact Hr. rewrite num_end by exact He.
  rewrite rev_app_distr, rev_involutive. reflexivity.
Qed.

Lemma tok_scan : forall t cs, good_tok t = true -> (is_id t = true -> ends_ok cs = true) ->
  scan_from SNormal (tok_chars t ++ cs) = t :: scan_from SNormal cs.
Proof.
  intros t cs Hg He. destruct t; try reflexivity.
  simpl in Hg. unfold valid_name in Hg. apply orb_true_iff in Hg. destruct Hg as [Hg|Hg].
  - apply ident_scan; [exact Hg|apply He; reflexivity].
  - apply number_scan; [exact Hg|apply He; reflexivity].
Qed.

Lemma gap_item_skip : forall k cs,
  scan_from SNormal (gap_item k ++ cs) = scan_from SNormal cs.
Proof.
  intros k cs. unfold gap_item, ctext_char.
  destruct (Nat.modulo k 6) as [|[|[|[|[|n]]]]]; try reflexivity;
    destruct (Nat.modulo (k / 6) 6) as [|[|[|[|[|m]]]]]; reflexivity.
Qed.

Lemma gap_item_head : forall k r, head_sep (gap_item k ++ r) = true.
Proof.
  intros k r. unfold gap_item.
  destruct (Nat.modulo k 6) as [|[|[|[|[|n]]]]]; reflexivity.
Qed.

Lemma gap_items_skip : forall n lay cs,
  scan_from SNormal (fst (gap_items n lay) ++ cs) = scan_from SNormal cs.
Proof.
  induction n as [|n IH]; intros lay cs; [reflexivity|].
  simpl. destruct (next lay) as [k l1]. specialize (IH l1 cs).
  destruct (gap_items n l1) as [g l2]. simpl fst in *.
  rewrite <- app_assoc. rewrite gap_item_skip. exact IH.
Qed.

Lemma gap_items_head : forall n lay, head_sep (fst (gap_items n lay)) = true.
Proof.
  intros [|n] lay; [reflexivity|].
  simpl. destruct (next lay) as [k l1]. destruct (gap_items n l1) as [g l2]. simpl fst.
  apply gap_item_head.
Qed.

Lemma gap_skip : forall lay cs, scan_from SNormal (fst (gap lay) ++ cs) = scan_from SNormal cs.
Proof. intros lay cs. unfold gap. destruct (next lay) as [k l1]. apply gap_items_skip. Qed.

Lemma gap_head : forall lay, head_sep (fst (gap lay)) = true.
Proof. intros lay. unfold gap. destruct (next lay) as [k l1]. apply gap_items_head. Qed.

Lemma gap_between_skip : forall t1 t2 lay cs,
  scan_from SNormal (fst (gap_between t1 t2 lay) ++ cs) = scan_from SNormal cs.
Proof.
  intros t1 t2 lay cs. unfold gap_between.
  pose proof (gap_skip lay cs) as H. destruct (gap lay) as [g l1]. simpl fst in H.
  destruct g as [|c g]; [|exact H].
  destruct (is_id t1 && is_id t2); reflexivity.
Qed.

Lemma head_sep_ends : forall cs r, cs <> [] -> head_sep cs = true -> ends_ok (cs ++ r) = true.
Proof.
  intros [|c cs] r Hne H; [congruence|]. simpl in *. rewrite (sep_not_id c H). reflexivity.
Qed.

Lemma gap_between_ends : forall t1 t2 lay more,
  is_id t1 = true -> good_tok t2 = true ->
  ends_ok (fst (gap_between t1 t2 lay) ++ tok_chars t2 ++ more) = true.
Proof.
  intros t1 t2 lay more H1 H2. unfold gap_between.
  pose proof (gap_head lay) as H. destruct (gap lay) as [g l1]. simpl fst in H.
  destruct g as [|c g].
  - rewrite H1. destruct t2; reflexivity.
  - simpl fst. apply head_sep_ends; [discriminate|exact H].
Qed.

Lemma chars_after_scan : forall ts t lay,
  good_tok t = true -> forallb good_tok ts = true ->
  scan_from SNormal (tok_chars t ++ chars_after t ts lay) = t :: ts.
Proof.
  induction ts as [|t2 r IH]; intros t lay Hg Hts.
  - simpl chars_after. rewrite tok_scan; [|exact Hg|].
    + rewrite <- (app_nil_r (fst (gap lay))). rewrite gap_skip. reflexivity.
    + intros _. pose proof (gap_head lay) as H. destruct (fst (gap lay)) as [|c g]; [reflexivity|].
      simpl in *. rewrite (sep_not_id c H). reflexivity.
  - simpl in Hts. apply andb_prop in Hts. destruct Hts as [H2 Hr].
    simpl chars_after.
    pose proof (gap_between_skip t t2 lay) as Hskip.
    pose proof (gap_between_ends t t2 lay) as Hend.
    destruct (gap_between t t2 lay) as [g l1]. simpl fst in *.
    rewrite tok_scan; [|exact Hg|intro Hi; apply Hend; assumption].
    rewrite Hskip. rewrite IH by assumption. reflexivity.
Qed.

Theorem tokenize_chars_of_toks : forall lay ts,
  forallb good_tok ts = true -> tokenize (chars_of_toks lay ts) = ts.
Proof.
  intros lay [|t r] H; unfold tokenize, chars_of_toks.
  - rewrite <- (app_nil_r (fst (gap lay))). rewrite gap_skip. reflexivity.
  - simpl in H. apply andb_prop in H. destruct H as [Ht Hr].
    pose proof (gap_skip lay) as Hs. destruct (gap lay) as [g l1]. simpl fst in Hs.
    rewrite Hs. apply chars_after_scan; assumption.
Qed.

Lemma forallb_app_true : forall (A : Type) (f : A -> bool) l1 l2,
  forallb f l1 = true -> forallb f l2 = true -> forallb f (l1 ++ l2) = true.
Proof. intros A f l1 l2 H1 H2. rewrite forallb_app, H1, H2. reflexivity. Qed.

Lemma wrap_good : forall k body, forallb good_tok body = true ->
  forallb good_tok (wrap k body) = true.
Proof.
  induction k as [|k IH]; intros body H; [exact H|].
  simpl. apply forallb_app_true; [apply IH; exact H|reflexivity].
Qed.

Lemma commas_good : forall l,
  forallb valid_name l = true -> forallb good_tok (commas l) = true.
Proof.
  induction l as [|s l IH]; intro H; [reflexivity|].
  simpl in H. apply andb_prop in H. destruct H as [Hv Hl].
  destruct l as [|s2 l2]; simpl; rewrite Hv; [reflexivity|]. simpl. apply IH. exact Hl.
Qed.

Lemma op_good : forall o, forallb good_tok (op_toks o) = true.
Proof. destruct o; reflexivity. Qed.

Lemma pr_good : forall a, wf_idents a -> forall ctx lay,
  forallb good_tok (fst (pr ctx a lay)) = true.
Proof.
  unfold wf_idents.
  induction a as [s|x IHx|o x IHx y IHy|l]; intros Hwf ctx lay; simpl in Hwf; simpl pr;
    destruct (next lay) as [k lay1].
  - simpl fst. apply wrap_good. simpl. rewrite Hwf. reflexivity.
  - specialize (IHx Hwf 1 lay1). destruct (pr 1 x lay1) as [p l2]. simpl fst in *.
    apply wrap_good. simpl. exact IHx.
  - apply andb_prop in Hwf. destruct Hwf as [Hx Hy].
    specialize (IHx Hx (lvl o - 1) lay1). destruct (pr (lvl o - 1) x lay1) as [p l2].
    specialize (IHy Hy (lvl o) l2). destruct (pr (lvl o) y l2) as [q l3]. simpl fst in *.
    apply wrap_good. apply forallb_app_true; [exact IHx|].
    apply forallb_app_true; [apply op_good|exact IHy].
  - simpl fst. apply wrap_good. apply andb_prop in Hwf. destruct Hwf as [_ Hl].
    simpl. apply forallb_app_true; [apply commas_good; exact Hl|reflexivity].
Qed.

(* C17_chars *)
Theorem tokenize_print_chars : forall lay a, wf_idents a ->
  tokenize (print_chars lay a) = print lay a.
Proof.
  intros lay a H. unfold print_chars, print.
  pose proof (pr_good a H 6 lay) as Hg. destruct (pr 6 a lay) as [ts lay']. simpl fst in *.
  apply tokenize_chars_of_toks. exact Hg.
Qed.

Theorem parse_chars_print_chars : forall lay a, wf_idents a ->
  parse_chars (print_chars lay a) = Some a.
Proof.
  intros lay a H. unfold parse_chars. rewrite tokenize_print_chars by exact H.
  apply parse_print. exact H.
Qed.

(* blanks, comments and redundant parentheses are irrelevant *)
Theorem layout_irrelevant : forall lay1 lay2 a, wf_idents a ->
  parse_chars (print_chars lay1 a) = parse_chars (print_chars lay2 a).
Proof.
  intros lay1 lay2 a H. rewrite !parse_chars_print_chars by exact H. reflexivity.
Qed.

(* ---------------------------------------------------------------- *)
(* Former deviations, now errors (gophersat commit "the formula parser took
   stray punctuation signs for variable names"), and remaining particularities *)

(* "," "}" "-" ">" in operand position *)
Theorem stray_operand_examples :
  parse [TId "a"; TAmp; TComma] = None /\
  parse [TId "a"; TBar; TRb] = None /\
  parse [TId "a"; TAmp; TMinus] = None /\
  parse [TId "a"; TEq; TGt] = None /\
  parse [TMinus; TMinus; TGt; TId "a"] = None /\
  parse [TRb] = None.
Proof. repeat split; reflexivity. Qed.

(* brace groups: names separated by commas; Go keywords and numbers are names *)
Theorem brace_examples :
  parse [TLb; TRb] = None /\
  parse [TLb; TRb; TRb] = None /\
  parse [TLb; TId "a"; TComma; TRb] = None /\
  parse [TLb; TId "a"; TComma; TRb; TRb] = None /\
  parse [TLb; TLp; TRb] = None /\
  parse [TLb; TComma; TRb] = None /\
  parse [TLb; TId "a"; TId "b"; TRb] = None /\
  parse [TLb; TId "if"; TComma; TId "b"; TRb] = Some (AUniq ["if"; "b"]) /\
  parse [TId "if"; TAmp; TId "1"] = Some (ABin And (AVar "if") (AVar "1")).
Proof. repeat split; reflexivity. Qed.

(* ";" inside parentheses: accepted between clauses, not at the end *)
Theorem paren_semi :
  parse [TLp; TId "a"; TSemi; TId "b"; TRp] = Some (ABin Seq (AVar "a") (AVar "b")) /\
  parse [TLp; TId "a"; TSemi; TRp] = None /\
  parse [TId "a"; TSemi] = Some (AVar "a") /\
  parse [TId "a"; TSemi; TSemi] = None.
Proof. repeat split; reflexivity. Qed.
