(* Refinement: executing the terms of Gen/GoSrc2.v (the syntactic image of the cutting-planes arithmetic of
   /repo/solver/learn_pb.go, and of abs / min / Lit.Var / Lit.IsPositive) under the semantics of Model/GoIR2.v
   computes what the hand-written model Model/CP.v computes, for every input. *)
From Coq Require Import List ZArith Bool String Lia Arith ZifyBool ZifyNat.
From GS Require Import Spec.Base Spec.PB Model.CP Proofs.CP Model.GoIR2 Gen.GoSrc2 Proofs.GoIR2 Gen.GoTypes Proofs.GoTypesGlue.
Import ListNotations.
Open Scope string_scope.
Open Scope list_scope.
Notation length := List.length (only parsing).
Open Scope Z_scope.

(* ================================================================== more rules *)

Lemma run_to_ge : forall fe g args h o, run_to fe g args h o ->
  exists f, forall f', (f <= f')%nat -> run fe f' g args h = o.
Proof. intros fe g args h o (f & H & N). exists f. intros f' Hle. eapply run_mono; eassumption. Qed.

Lemma runs_if_panic : forall fe c a b st, eval st c = EPanic -> runs fe (SIf c a b) st OPanic.
Proof. intros fe c a b st H. exists 1%nat. split; [|discriminate]. cbn [exec]. rewrite H. reflexivity. Qed.

Lemma runs_set_panic : forall fe x e st, eval st e = EPanic -> runs fe (SSet x e) st OPanic.
Proof. intros fe x e st H. exists 1%nat. split; [|discriminate]. cbn [exec]. rewrite H. reflexivity. Qed.

Lemma runs_call_run_arg_panic : forall fe x g args st d,
  find_fun g fe = Some d -> eval_list st args = LPanic -> runs fe (SCall x g args) st OPanic.
Proof. exact runs_call_arg_panic. Qed.

Lemma run_to_intro : forall g d args e0 h o,
  find_fun g go_funs = Some d -> bind_params (f_params d) args = Some e0 ->
  runs go_funs (f_body d) (St e0 h) o -> run_to go_funs g args h o.
Proof. intros g d args e0 h o Hf Hb H. apply (run_to_body _ _ _ _ _ _ _ Hf Hb). exact H. Qed.

(* ---- local variables *)

Lemma lookup_upd : forall x y v e, lookup x (upd y v e) = if String.eqb x y then Some v else lookup x e.
Proof.
  intros x y v e. induction e as [|[k w] r IH]; cbn [upd lookup].
  - reflexivity.
  - destruct (String.eqb_spec y k) as [->|Hyk]; cbn [lookup].
    + destruct (String.eqb x k); reflexivity.
    + destruct (String.eqb_spec x k) as [->|Hxk].
      * destruct (String.eqb_spec k y) as [->|_]; [congruence|reflexivity].
      * exact IH.
Qed.

Lemma eval_var : forall st x v, lookup x (locals st) = Some v -> eval st (EVar x) = EV v.
Proof. intros st x v H. cbn [eval]. rewrite H. reflexivity. Qed.

(* ---- lists *)

Lemma skipn_nth_cons : forall (l : list Z) j, (j < length l)%nat -> skipn j l = nth j l 0 :: skipn (S j) l.
Proof.
  induction l as [|x l IH]; intros j H; cbn [length] in H; [lia|].
  destruct j as [|j]; [reflexivity|]. cbn [skipn nth]. apply IH. lia.
Qed.

Lemma nth_prefix_skipn : forall (P old : list Z) j, length P = j -> nth j (P ++ skipn j old) 0 = nth j old 0.
Proof.
  intros P old j H. rewrite app_nth2 by lia. rewrite H, Nat.sub_diag.
  rewrite nth_skipn_add, Nat.add_0_r. reflexivity.
Qed.

Lemma prefix_step : forall (P old : list Z) j y, length P = j ->
  firstn j (P ++ skipn j old) ++ y :: skipn (S j) (P ++ skipn j old) = (P ++ [y]) ++ skipn (S j) old.
Proof.
  intros P old j y H. rewrite firstn_mid by (symmetry; exact H).
  rewrite skipn_app, H.
  replace (S j - j)%nat with 1%nat by lia.
  rewrite (skipn_all2 (n := S j)) by lia. cbn [app].
  rewrite skipn_skipn_add. replace (j + 1)%nat with (S j) by lia.
  rewrite <- app_assoc. reflexivity.
Qed.

Lemma prefix_keep : forall (P old : list Z) j, (j < length old)%nat ->
  P ++ skipn j old = (P ++ [nth j old 0]) ++ skipn (S j) old.
Proof. intros P old j H. rewrite (skipn_nth_cons old j H), <- app_assoc. reflexivity. Qed.

(* ---- the frame: only cells inside the windows of the slices [ss] differ between [h] and [h'],
        nothing is allocated, no array changes its length *)

Definition in_win (s : slice) (a p : nat) : Prop :=
  a = s_arr s /\ (s_off s <= p < s_off s + s_len s)%nat.

Definition only_wins (ss : list slice) (h h' : heap) : Prop :=
  length h' = length h /\
  (forall a, length (arr_of h' a) = length (arr_of h a)) /\
  (forall a p, (forall s, In s ss -> ~ in_win s a p) -> nth p (arr_of h' a) 0 = nth p (arr_of h a) 0).

Lemma only_wins_refl : forall ss h, only_wins ss h h.
Proof. intros ss h. repeat split. Qed.

Lemma only_wins_trans : forall ss h1 h2 h3, only_wins ss h1 h2 -> only_wins ss h2 h3 -> only_wins ss h1 h3.
Proof.
  intros ss h1 h2 h3 (A1 & B1 & C1) (A2 & B2 & C2). split; [congruence|]. split.
  - intros a. rewrite B2. apply B1.
  - intros a p H. rewrite C2 by exact H. apply C1. exact H.
Qed.

Lemma nth_write_at_other : forall o (l : list Z) y p d, p <> o -> nth p (write_at o [y] l) d = nth p l d.
Proof.
  induction o as [|o IH]; intros l y p d H.
  - destruct l as [|x l]; [reflexivity|]. cbn [write_at]. rewrite write_at_nil.
    destruct p as [|p]; [congruence|reflexivity].
  - destruct l as [|x l]; [reflexivity|]. cbn [write_at].
    destruct p as [|p]; [reflexivity|]. cbn [nth]. apply IH. congruence.
Qed.

Lemma only_wins_write1 : forall ss h s k y, In s ss -> (k < s_len s)%nat ->
  only_wins ss h (heap_write h (s_arr s) (s_off s + k) [y]).
Proof.
  intros ss h s k y Hin Hk. split; [apply length_heap_write|]. split; [intros a; apply length_arr_of_heap_write|].
  intros a p Hout. destruct (Nat.eq_dec (s_arr s) a) as [<-|Hne].
  - destruct (Nat.lt_ge_cases (s_arr s) (length h)) as [Hlt|Hge].
    + rewrite arr_of_heap_write_same by exact Hlt. apply nth_write_at_other.
      intros ->. apply (Hout s Hin). split; [reflexivity|lia].
    + unfold heap_write. rewrite set_arr_oob by exact Hge. reflexivity.
  - rewrite arr_of_heap_write_other by exact Hne. reflexivity.
Qed.

Lemma only_wins_write : forall ss h0 h s k y, only_wins ss h0 h -> In s ss -> (k < s_len s)%nat ->
  only_wins ss h0 (heap_write h (s_arr s) (s_off s + k) [y]).
Proof.
  intros ss h0 h s k y H Hin Hk. eapply only_wins_trans; [exact H|]. apply only_wins_write1; assumption.
Qed.

Lemma only_wins_other : forall ss h h' a, only_wins ss h h' -> (forall s, In s ss -> s_arr s <> a) ->
  arr_of h' a = arr_of h a.
Proof.
  intros ss h h' a (A & B & C) H. apply (nth_ext _ _ 0 0); [apply B|].
  intros p _. apply C. intros s Hin (E & _). apply (H s Hin). congruence.
Qed.

Lemma only_wins_read_other : forall ss h h' t, only_wins ss h h' -> (forall s, In s ss -> s_arr s <> s_arr t) ->
  sl_read h' t = sl_read h t.
Proof. intros ss h h' t H Hd. apply sl_read_ext. eapply only_wins_other; eassumption. Qed.

Lemma only_wins_ok : forall ss h h' t, only_wins ss h h' -> slice_ok h t -> slice_ok h' t.
Proof. intros ss h h' t (A & B & C) H. eapply slice_ok_ext; [exact A|apply B|exact H]. Qed.

Lemma only_wins_incl : forall ss ss' h h', only_wins ss h h' -> (forall s, In s ss -> In s ss') -> only_wins ss' h h'.
Proof.
  intros ss ss' h h' (A & B & C) Hi. split; [exact A|]. split; [exact B|].
  intros a p H. apply C. intros s Hin. apply H. apply Hi. exact Hin.
Qed.

(* ================================================================== representations *)

(* a [*pbSet]: the weights slice, and the card boxed in a one-element slice of another array *)
Definition pbset_val (sw sc : slice) : val := VStruct [VSl sw; VSl sc].

Definition pbset_at (h : heap) (sw sc : slice) (s : pbset) : Prop :=
  slice_ok h sw /\ slice_ok h sc /\ s_arr sw <> s_arr sc /\ s_len sc = 1%nat /\
  sl_read h sw = fst s /\ sl_read h sc = [snd s].

Definition pbset_rep (h : heap) (v : val) (s : pbset) : Prop :=
  exists sw sc, v = pbset_val sw sc /\ pbset_at h sw sc s.

(* a [*Solver]: a struct of [nfld_Solver] fields, of which [model] and [trail] are int slices *)
Definition solver_at (h : heap) (v : val) (sm st : slice) (model trail : list Z) : Prop :=
  exists fs, v = VStruct fs /\ length fs = nfld_Solver /\
    nth_error fs fld_Solver_model = Some (VSl sm) /\ nth_error fs fld_Solver_trail = Some (VSl st) /\
    slice_ok h sm /\ sl_read h sm = model /\ slice_ok h st /\ sl_read h st = trail.

Lemma pbset_at_len : forall h sw sc s, pbset_at h sw sc s -> s_len sw = length (fst s).
Proof. intros h sw sc s (A & _ & _ & _ & E & _). rewrite <- E. symmetry. apply length_sl_read. exact A. Qed.

Lemma pbset_at_frame : forall h h' sw sc s ss, pbset_at h sw sc s -> only_wins ss h h' ->
  (forall t, In t ss -> s_arr t <> s_arr sw) -> (forall t, In t ss -> s_arr t <> s_arr sc) ->
  pbset_at h' sw sc s.
Proof.
  intros h h' sw sc s ss (A & B & C & D & E & F) H Hw Hc. unfold pbset_at.
  rewrite (only_wins_read_other ss h h' sw H Hw), (only_wins_read_other ss h h' sc H Hc).
  repeat split; try assumption; eapply only_wins_ok; eassumption.
Qed.

(* ================================================================== stepping *)

Ltac lk := repeat (rewrite lookup_upd; cbn [String.eqb Ascii.eqb Bool.eqb]).

Ltac gocbn :=
  cbn [exec eval eval_list lookup upd locals hp set_local String.eqb Ascii.eqb Bool.eqb andb
       of_eres ebind as_int eval_bin s_len s_off s_arr s_cap bind_params f_params f_body
       find_fun go_funs nth_error rev app].

Ltac enter := eapply run_to_intro; [reflexivity|reflexivity|];
  cbn [f_body src_abs src_min src_Lit_Var src_Lit_IsPositive src_pbSet_clash src_pbSet_divideBy
       src_pbSet_roundToOne src_pbSet_falsifies src_pbSet_backtrackLevel src_pbSet_onlyFalsified].

(* ================================================================== abs, min, Lit.Var, Lit.IsPositive *)

Lemma abs_run : forall h a, run_to go_funs "abs" [VInt a] h (OReturn (VInt (Z.abs a)) h).
Proof.
  intros h a. enter. apply (runs_exec go_funs 3); [|discriminate]. gocbn.
  destruct (a <? 0) eqn:E; gocbn; f_equal; f_equal; lia.
Qed.

Lemma min_run : forall h a b, run_to go_funs "min" [VInt a; VInt b] h (OReturn (VInt (Z.min a b)) h).
Proof.
  intros h a b. enter. apply (runs_exec go_funs 3); [|discriminate]. gocbn.
  destruct (a <? b) eqn:E; gocbn; f_equal; f_equal; lia.
Qed.

Lemma Lit_Var_run : forall h l, run_to go_funs "Lit.Var" [VInt l] h (OReturn (VInt (Z.quot l 2)) h).
Proof. intros h l. enter. apply (runs_exec go_funs 1); [reflexivity|discriminate]. Qed.

Lemma Lit_IsPositive_run : forall h l,
  run_to go_funs "Lit.IsPositive" [VInt l] h (OReturn (VBool (Z.rem l 2 =? 0)) h).
Proof. intros h l. enter. apply (runs_exec go_funs 1); [reflexivity|discriminate]. Qed.

(* the same against the translation of Gen/GoTypes.v *)
Lemma Lit_Var_run_go : forall h l, run_to go_funs "Lit.Var" [VInt l] h (OReturn (VInt (go_Lit_Var l)) h).
Proof. exact Lit_Var_run. Qed.

Lemma Lit_IsPositive_run_go : forall h l,
  run_to go_funs "Lit.IsPositive" [VInt l] h (OReturn (VBool (go_Lit_IsPositive l)) h).
Proof. exact Lit_IsPositive_run. Qed.
(* ================================================================== pbSet.divideBy *)

Ltac lkh := repeat match goal with H : lookup ?x ?e = Some _ |- context [lookup ?x ?e] => rewrite H end.
Ltac ev := repeat (progress (gocbn; lk; lkh)).

Definition div_loop : stmt :=
  Eval cbv in match f_body src_pbSet_divideBy with SSeq (SSeq l _) _ => l | _ => SSkip end.
Definition div_card_step : stmt :=
  Eval cbv in match f_body src_pbSet_divideBy with SSeq (SSeq _ s) _ => s | _ => SSkip end.

Lemma src_divideBy_shape : f_body src_pbSet_divideBy = SSeq (SSeq div_loop div_card_step) (SReturn (EInt 0)).
Proof. reflexivity. Qed.

Lemma eqb_false_of_ne : forall a b, a <> b -> (a =? b) = false.
Proof. intros a b H. apply Z.eqb_neq. exact H. Qed.

Lemma div_loop_run : forall c sw sc ws card st,
  c <> 0 -> lookup "pb" (locals st) = Some (pbset_val sw sc) -> lookup "coeff" (locals st) = Some (VInt c) ->
  pbset_at (hp st) sw sc (ws, card) ->
  exists st', runs go_funs div_loop st (ONormal st') /\
    lookup "pb" (locals st') = Some (pbset_val sw sc) /\ lookup "coeff" (locals st') = Some (VInt c) /\
    only_wins [sw; sc] (hp st) (hp st') /\ pbset_at (hp st') sw sc (map (div_w c) ws, card).
Proof.
  intros c sw sc ws card st Hc Lpb Lc Hrep.
  pose proof (pbset_at_len _ _ _ _ Hrep) as Hlen.
  destruct Hrep as (Hokw & Hokc & Hne & Hlc & Hrw & Hrc). cbn [fst snd] in *.
  set (I := fun (j : nat) (st1 : state) =>
    lookup "pb" (locals st1) = Some (pbset_val sw sc) /\ lookup "coeff" (locals st1) = Some (VInt c) /\
    only_wins [sw; sc] (hp st) (hp st1) /\
    sl_read (hp st1) sw = map (div_w c) (firstn j ws) ++ skipn j ws /\ sl_read (hp st1) sc = [card]).
  unfold div_loop.
  match goal with |- context [SRange _ _ _ ?b] => set (body := b) end.
  destruct (runs_range_inv_c go_funs "j" "wj" (EFld (EVar "pb") 0) body st sw I) as (st' & Hrun & HI).
  - unfold pbset_val in *. ev. reflexivity.
  - unfold I. repeat split; assumption.
  - intros j [loc0 hp0] Hj (Lpb0 & Lc0 & Hfr & Hrd & Hrdc). cbn [locals hp] in *.
    assert (HlenP : length (map (div_w c) (firstn j ws)) = j) by (rewrite map_length, firstn_length_le; lia).
    assert (Hnth : nth (s_off sw + j) (arr_of hp0 (s_arr sw)) 0 = nth j ws 0).
    { rewrite <- nth_sl_read by exact Hj. rewrite Hrd. apply nth_prefix_skipn. exact HlenP. }
    unfold range_pre, get_sl, set_local. cbn [String.eqb Ascii.eqb Bool.eqb locals hp]. rewrite Hnth.
    set (w := nth j ws 0) in *.
    set (pre := St (upd "wj" (VInt w) (upd "j" (VInt (Z.of_nat j)) loc0)) hp0).
    assert (Hsn : firstn (S j) ws = firstn j ws ++ [w]) by (apply firstn_S_nth; lia).
    destruct (Z.eqb_spec w 0) as [Hw0|Hw0].
    + exists (OContinue pre), pre. split; [|split; [apply goes_on_continue|]].
      * apply runs_seq_abrupt; [|exact Logic.I]. eapply runs_if_true; [|apply runs_continue].
        unfold pre. ev. rewrite Hw0. reflexivity.
      * unfold I, pre. cbn [locals hp]. lk. refine (conj Lpb0 (conj Lc0 (conj Hfr (conj _ Hrdc)))).
        rewrite Hsn, map_app. cbn [map]. rewrite Hrd.
        replace (div_w c w) with w by (rewrite Hw0; reflexivity).
        apply prefix_keep. lia.
    + assert (Ew : (w =? 0) = false) by (apply Z.eqb_neq; exact Hw0).
      assert (Ec : (c =? 0) = false) by (apply Z.eqb_neq; exact Hc).
      assert (Hinv : forall y, y = div_w c w ->
        I (S j) (St (locals pre) (heap_write hp0 (s_arr sw) (s_off sw + j) [y]))).
      { intros y Hy. unfold I, pre. cbn [locals hp]. lk. refine (conj Lpb0 (conj Lc0 (conj _ (conj _ _)))).
        - apply only_wins_write; [exact Hfr|left; reflexivity|exact Hj].
        - rewrite sl_read_write_nth by (try exact Hj; eapply only_wins_ok; eassumption).
          rewrite Hrd, prefix_step by exact HlenP. rewrite Hsn, map_app, Hy. reflexivity.
        - rewrite sl_read_heap_write_other by congruence. exact Hrdc. }
      assert (Hset : forall e y, eval pre e = EV (VInt y) ->
        runs go_funs (SSetIdx (EFld (EVar "pb") 0) (EVar "j") e) pre
          (ONormal (St (locals pre) (heap_write hp0 (s_arr sw) (s_off sw + j) [y])))).
      { intros e y He.
        assert (R : runs go_funs (SSetIdx (EFld (EVar "pb") 0) (EVar "j") e) pre
          (ONormal (St (locals pre) (heap_write (hp pre) (s_arr sw) (s_off sw + Z.to_nat (Z.of_nat j)) [y])))).
        { apply (runs_setidx go_funs _ _ _ pre sw (Z.of_nat j) y); [| |exact He|lia].
          - unfold pre, pbset_val in *. ev. reflexivity.
          - unfold pre. ev. reflexivity. }
        rewrite Nat2Z.id in R. exact R. }
      assert (Hskip : runs go_funs (SIf (EBin Eq (EVar "wj") (EInt 0)) SContinue SSkip) pre (ONormal pre)).
      { eapply runs_if_false; [|apply runs_skip]. unfold pre. ev. rewrite Ew. reflexivity. }
      unfold div_w in Hinv. rewrite Ew in Hinv.
      destruct (Z.rem w c =? 0) eqn:Er; [|destruct (0 <? w) eqn:Ep].
      * eexists (ONormal _), _. split; [|split; [apply goes_on_normal|apply Hinv; reflexivity]].
        eapply runs_seq; [exact Hskip|]. eapply runs_if_true; [unfold pre; ev; rewrite Ec; ev; rewrite Er; reflexivity|].
        apply Hset. unfold pre. ev. rewrite Ec. reflexivity.
      * eexists (ONormal _), _. split; [|split; [apply goes_on_normal|apply Hinv; reflexivity]].
        eapply runs_seq; [exact Hskip|]. eapply runs_if_false; [unfold pre; ev; rewrite Ec; ev; rewrite Er; reflexivity|].
        eapply runs_if_true; [unfold pre; ev; rewrite Ep; reflexivity|].
        apply Hset. unfold pre. ev. rewrite Ec. reflexivity.
      * eexists (ONormal _), _. split; [|split; [apply goes_on_normal|apply Hinv; reflexivity]].
        eapply runs_seq; [exact Hskip|]. eapply runs_if_false; [unfold pre; ev; rewrite Ec; ev; rewrite Er; reflexivity|].
        eapply runs_if_false; [unfold pre; ev; rewrite Ep; reflexivity|].
        apply Hset. unfold pre. ev. rewrite Ec. reflexivity.
  - destruct HI as (Lpb' & Lc' & Hfr' & Hrd' & Hrdc'). exists st'. split; [exact Hrun|].
    refine (conj Lpb' (conj Lc' (conj Hfr' _))).
    rewrite Hlen, firstn_all, skipn_all, app_nil_r in Hrd'.
    unfold pbset_at. cbn [fst snd].
    refine (conj _ (conj _ (conj Hne (conj Hlc (conj Hrd' Hrdc'))))); eapply only_wins_ok; eassumption.
Qed.

(* ---- the boxed card *)

Definition card_set (h : heap) (sc : slice) (y : Z) : heap := heap_write h (s_arr sc) (s_off sc + 0) [y].

Lemma eval_card : forall st e sw sc card, eval st e = EV (pbset_val sw sc) -> s_len sc = 1%nat ->
  sl_read (hp st) sc = [card] -> eval st (EIdx (EFld e 1) (EInt 0)) = EV (VInt card).
Proof.
  intros st e sw sc card He Hl Hr. cbn [eval]. rewrite He. unfold pbset_val. gocbn.
  rewrite idx_in by lia. change (Z.to_nat 0) with 0%nat.
  rewrite <- nth_sl_read by lia. rewrite Hr. reflexivity.
Qed.

Lemma card_nth : forall h sc card, s_len sc = 1%nat -> sl_read h sc = [card] ->
  nth (s_off sc + 0) (arr_of h (s_arr sc)) 0 = card.
Proof. intros h sc card Hl Hr. rewrite <- nth_sl_read by lia. rewrite Hr. reflexivity. Qed.

(* evaluation of an expression that reads the boxed card: [Hcn] is [card_nth] in the current heap *)
Ltac evcard Hcn := ev; rewrite ?idx_in by lia; change (Z.to_nat 0) with 0%nat; rewrite ?Hcn; ev.

Lemma runs_card_set : forall fe st e e2 sw sc y, eval st e = EV (pbset_val sw sc) -> eval st e2 = EV (VInt y) ->
  s_len sc = 1%nat ->
  runs fe (SSetIdx (EFld e 1) (EInt 0) e2) st (ONormal (St (locals st) (card_set (hp st) sc y))).
Proof.
  intros fe st e e2 sw sc y He He2 Hl.
  apply (runs_setidx fe _ _ _ st sc 0 y); [|reflexivity|exact He2|lia].
  cbn [eval]. rewrite He. reflexivity.
Qed.

Lemma card_set_read : forall h sc card y, slice_ok h sc -> s_len sc = 1%nat -> sl_read h sc = [card] ->
  sl_read (card_set h sc y) sc = [y].
Proof.
  intros h sc card y Hok Hl Hr. unfold card_set. rewrite sl_read_write_nth by (try exact Hok; lia).
  rewrite Hr. reflexivity.
Qed.

Lemma card_set_read_other : forall h sc y t, s_arr t <> s_arr sc -> sl_read (card_set h sc y) t = sl_read h t.
Proof. intros h sc y t H. unfold card_set. apply sl_read_heap_write_other. exact H. Qed.

Lemma card_set_wins : forall ss h0 h sc y, only_wins ss h0 h -> In sc ss -> s_len sc = 1%nat ->
  only_wins ss h0 (card_set h sc y).
Proof. intros ss h0 h sc y H Hin Hl. unfold card_set. apply only_wins_write; [exact H|exact Hin|lia]. Qed.

Lemma card_set_ok : forall h sc y t, slice_ok h t -> slice_ok (card_set h sc y) t.
Proof. intros h sc y t H. unfold card_set. apply slice_ok_heap_write. exact H. Qed.

Lemma pbset_at_card_set : forall h sw sc ws card y, pbset_at h sw sc (ws, card) ->
  pbset_at (card_set h sc y) sw sc (ws, y).
Proof.
  intros h sw sc ws card y (A & B & C & D & E & F). cbn [fst snd] in *. unfold pbset_at. cbn [fst snd].
  refine (conj _ (conj _ (conj C (conj D (conj _ _))))).
  - apply card_set_ok. exact A.
  - apply card_set_ok. exact B.
  - rewrite card_set_read_other by exact C. exact E.
  - eapply card_set_read; eassumption.
Qed.

Theorem divideBy_run : forall h sw sc ws card c, c <> 0 -> pbset_at h sw sc (ws, card) ->
  exists h', run_to go_funs "pbSet.divideBy" [pbset_val sw sc; VInt c] h (OReturn (VInt 0) h') /\
    only_wins [sw; sc] h h' /\ pbset_at h' sw sc (divide_by c (ws, card)).
Proof.
  intros h sw sc ws card c Hc Hrep.
  destruct (div_loop_run c sw sc ws card (St [("pb", pbset_val sw sc); ("coeff", VInt c)] h) Hc
              eq_refl eq_refl Hrep) as ([loc1 h1] & Hrun & Lpb & Lc & Hfr & Hrep1).
  cbn [locals hp] in *.
  assert (Ec : (c =? 0) = false) by (apply Z.eqb_neq; exact Hc).
  pose proof Hrep1 as (Hokw & Hokc & Hne & Hlc & Hrw & Hrc). cbn [fst snd] in *.
  pose proof (card_nth h1 sc card Hlc Hrc) as Hcn.
  exists (card_set h1 sc (div_card c card)). split; [|split].
  - eapply run_to_intro; [reflexivity|reflexivity|]. rewrite src_divideBy_shape.
    apply runs_seq with (st' := St loc1 (card_set h1 sc (div_card c card))); [eapply runs_seq; [exact Hrun|]|].
    + unfold div_card_step, div_card.
      destruct (Z.rem card c =? 0) eqn:Er.
      * eapply runs_if_true.
        { unfold pbset_val in *. evcard Hcn. rewrite Ec. ev. rewrite Er. reflexivity. }
        eapply runs_card_set; [apply eval_var; exact Lpb| |exact Hlc].
        unfold pbset_val in *. evcard Hcn. rewrite Ec. ev. reflexivity.
      * eapply runs_if_false.
        { unfold pbset_val in *. evcard Hcn. rewrite Ec. ev. rewrite Er. reflexivity. }
        eapply runs_card_set; [apply eval_var; exact Lpb| |exact Hlc].
        unfold pbset_val in *. evcard Hcn. rewrite Ec. ev. reflexivity.
    + apply (runs_exec go_funs 1); [reflexivity|discriminate].
  - apply card_set_wins; [exact Hfr|right; left; reflexivity|exact Hlc].
  - unfold divide_by. cbn [fst snd]. eapply pbset_at_card_set. exact Hrep1.
Qed.

(* coeff = 0: the run always panics (at the first non-zero weight: [wj % 0]; when every weight is 0: [card % 0]) *)
Lemma first_nonzero : forall ws : list Z,
  (forall j, nth j ws 0 = 0) \/
  (exists j, (j < length ws)%nat /\ nth j ws 0 <> 0 /\ forall i, (i < j)%nat -> nth i ws 0 = 0).
Proof.
  induction ws as [|w ws IH].
  - left. intros [|j]; reflexivity.
  - destruct (Z.eq_dec w 0) as [->|Hw].
    + destruct IH as [Hall|(j & Hj & Hnz & Hb)].
      * left. intros [|j]; [reflexivity|apply Hall].
      * right. exists (S j). cbn [length nth]. split; [lia|]. split; [exact Hnz|].
        intros [|i] Hi; [reflexivity|]. apply Hb. lia.
    + right. exists O. cbn [length nth]. split; [lia|]. split; [exact Hw|]. intros i Hi. lia.
Qed.

Theorem divideBy_zero_panics : forall h sw sc ws card, pbset_at h sw sc (ws, card) ->
  run_to go_funs "pbSet.divideBy" [pbset_val sw sc; VInt 0] h OPanic.
Proof.
  intros h sw sc ws card Hrep.
  pose proof (pbset_at_len _ _ _ _ Hrep) as Hlen.
  destruct Hrep as (Hokw & Hokc & Hne & Hlc & Hrw & Hrc). cbn [fst snd] in *.
  set (I := fun (j : nat) (st1 : state) =>
    lookup "pb" (locals st1) = Some (pbset_val sw sc) /\ lookup "coeff" (locals st1) = Some (VInt 0) /\
    hp st1 = h).
  eapply run_to_intro; [reflexivity|reflexivity|]. rewrite src_divideBy_shape. unfold div_loop.
  match goal with |- context [SRange _ _ _ ?b] => set (body := b) end.
  set (st := St [("pb", pbset_val sw sc); ("coeff", VInt 0)] h).
  assert (Hpre : forall j st0, (j < s_len sw)%nat -> I j st0 ->
    range_pre "j" "wj" (get_sl sw) j st0 =
    St (upd "wj" (VInt (nth j ws 0)) (upd "j" (VInt (Z.of_nat j)) (locals st0))) h).
  { intros j [loc0 hp0] Hj (Lpb0 & Lc0 & Hh). cbn [locals hp] in *. subst hp0.
    unfold range_pre, get_sl, set_local. cbn [String.eqb Ascii.eqb Bool.eqb locals hp].
    rewrite <- nth_sl_read by exact Hj. rewrite Hrw. reflexivity. }
  assert (Hzero : forall j st0, (j < s_len sw)%nat -> I j st0 -> nth j ws 0 = 0 ->
    exists ob st1, runs go_funs body (range_pre "j" "wj" (get_sl sw) j st0) ob /\ goes_on ob st1 /\ I (S j) st1).
  { intros j st0 Hj HI Hw. rewrite (Hpre j st0 Hj HI). rewrite Hw. destruct HI as (Lpb0 & Lc0 & Hh).
    eexists (OContinue _), _. split; [|split; [apply goes_on_continue|]].
    - apply runs_seq_abrupt; [|exact Logic.I]. eapply runs_if_true; [|apply runs_continue]. ev. reflexivity.
    - unfold I. cbn [locals hp]. lk. refine (conj Lpb0 (conj Lc0 eq_refl)). }
  assert (Ha : eval st (EFld (EVar "pb") 0) = EV (VSl sw)) by reflexivity.
  assert (HI0 : I O st) by (unfold I, st; cbn [locals hp]; auto).
  destruct (first_nonzero ws) as [Hall|(j & Hj & Hnz & Hb)].
  - destruct (runs_range_inv_c go_funs "j" "wj" (EFld (EVar "pb") 0) body st sw I Ha HI0)
      as ([loc1 h1] & Hrun & (Lpb & Lc & Hh)).
    { intros j st0 Hj HI. apply Hzero; [exact Hj|exact HI|apply Hall]. }
    cbn [locals hp] in *. subst h1.
    apply runs_seq_abrupt; [|exact Logic.I]. eapply runs_seq; [exact Hrun|].
    unfold div_card_step. apply runs_if_panic.
    pose proof (card_nth h sc card Hlc Hrc) as Hcn.
    unfold pbset_val in *. evcard Hcn. reflexivity.
  - apply runs_seq_abrupt; [|exact Logic.I]. apply runs_seq_abrupt; [|exact Logic.I].
    apply (runs_range_inv_abrupt go_funs "j" "wj" (EFld (EVar "pb") 0) body st sw I j OPanic Ha HI0).
    + intros j0 st0 Hj0 HI. apply Hzero; [lia|exact HI|apply Hb; exact Hj0].
    + intros st0 HI. rewrite (Hpre j st0 ltac:(lia) HI). destruct HI as (Lpb0 & Lc0 & Hh).
      assert (Ew : (nth j ws 0 =? 0) = false) by (apply Z.eqb_neq; exact Hnz).
      eapply runs_seq; [eapply runs_if_false; [|apply runs_skip]|].
      * ev. rewrite Ew. reflexivity.
      * apply runs_if_panic. ev. reflexivity.
    + exact Logic.I.
    + lia.
Qed.

(* ================================================================== pbSet.clash *)

Lemma clash_ws_snoc : forall l w2 a,
  clash_ws (l ++ [a]) w2 =
  (fst (clash_ws l w2) ++ [a + nth (length l) w2 0],
   snd (clash_ws l w2) +
   (if a * nth (length l) w2 0 <? 0 then Z.min (Z.abs a) (Z.abs (nth (length l) w2 0)) else 0)).
Proof.
  induction l as [|x r IH]; intros w2 a.
  - cbn [app clash_ws length fst snd]. replace (nth 0 w2 0) with (hd 0 w2) by (destruct w2; reflexivity).
    f_equal. lia.
  - cbn [app clash_ws length]. rewrite IH. destruct (clash_ws r (tl w2)) as [r' k]. cbn [fst snd app].
    replace (nth (S (length r)) w2 0) with (nth (length r) (tl w2) 0)
      by (destruct w2; [destruct (length r); reflexivity|reflexivity]).
    f_equal. lia.
Qed.

Lemma length_clash_ws : forall l w2, length (fst (clash_ws l w2)) = length l.
Proof.
  induction l as [|x r IH]; intros w2; [reflexivity|].
  cbn [clash_ws]. specialize (IH (tl w2)). destruct (clash_ws r (tl w2)) as [r' k]. cbn [fst length] in *.
  rewrite IH. reflexivity.
Qed.

Definition clash_loop : stmt :=
  Eval cbv in match f_body src_pbSet_clash with SSeq (SSeq _ l) _ => l | _ => SSkip end.
Definition clash_first : stmt :=
  Eval cbv in match f_body src_pbSet_clash with SSeq (SSeq s _) _ => s | _ => SSkip end.
Definition clash_body : stmt :=
  Eval cbv in match clash_loop with SRange _ _ _ b => b | _ => SSkip end.

Lemma src_clash_shape : f_body src_pbSet_clash =
  SSeq (SSeq clash_first (SRange "i" "w1" (EFld (EVar "pb1") 0) clash_body)) (SReturn (EInt 0)).
Proof. reflexivity. Qed.

Definition clash_inv (h : heap) (sw1 sc1 sw2 sc2 : slice) (ws1 : list Z) (c1 : Z) (ws2 : list Z) (c2 : Z)
  (i : nat) (st1 : state) : Prop :=
  lookup "pb1" (locals st1) = Some (pbset_val sw1 sc1) /\ lookup "pb2" (locals st1) = Some (pbset_val sw2 sc2) /\
  only_wins [sw1; sc1] h (hp st1) /\
  sl_read (hp st1) sw1 = fst (clash_ws (firstn i ws1) ws2) ++ skipn i ws1 /\
  sl_read (hp st1) sc1 = [c1 + c2 - snd (clash_ws (firstn i ws1) ws2)].

(* the state in which turn [i] starts *)
Lemma clash_pre : forall h sw1 sc1 sw2 sc2 ws1 c1 ws2 c2 i st0,
  (i < length ws1)%nat -> s_len sw1 = length ws1 ->
  clash_inv h sw1 sc1 sw2 sc2 ws1 c1 ws2 c2 i st0 ->
  range_pre "i" "w1" (get_sl sw1) i st0 =
  St (upd "w1" (VInt (nth i ws1 0)) (upd "i" (VInt (Z.of_nat i)) (locals st0))) (hp st0).
Proof.
  intros h sw1 sc1 sw2 sc2 ws1 c1 ws2 c2 i [loc0 hp0] Hi Hlen (L1 & L2 & Hfr & Hrd & Hrdc).
  cbn [locals hp] in *.
  unfold range_pre, get_sl, set_local. cbn [String.eqb Ascii.eqb Bool.eqb locals hp].
  rewrite <- nth_sl_read by lia. rewrite Hrd, nth_prefix_skipn; [reflexivity|].
  rewrite length_clash_ws, firstn_length_le; lia.
Qed.

Lemma clash_turn : forall h sw1 sc1 sw2 sc2 ws1 c1 ws2 c2,
  pbset_at h sw1 sc1 (ws1, c1) -> pbset_at h sw2 sc2 (ws2, c2) ->
  s_arr sw1 <> s_arr sw2 -> s_arr sc1 <> s_arr sw2 ->
  forall i st0, (i < length ws1)%nat -> (i < length ws2)%nat ->
  clash_inv h sw1 sc1 sw2 sc2 ws1 c1 ws2 c2 i st0 ->
  exists ob st1, runs go_funs clash_body (range_pre "i" "w1" (get_sl sw1) i st0) ob /\ goes_on ob st1 /\
    clash_inv h sw1 sc1 sw2 sc2 ws1 c1 ws2 c2 (S i) st1.
Proof.
  intros h sw1 sc1 sw2 sc2 ws1 c1 ws2 c2 Hrep1 Hrep2 Dww Dcw i st0 Hi Hi2 HI.
  pose proof (pbset_at_len _ _ _ _ Hrep1) as Hlen1. pose proof (pbset_at_len _ _ _ _ Hrep2) as Hlen2.
  cbn [fst] in Hlen1, Hlen2.
  rewrite (clash_pre _ _ _ _ _ _ _ _ _ _ _ Hi Hlen1 HI).
  destruct st0 as [loc0 hp0]. destruct HI as (L1 & L2 & Hfr & Hrd & Hrdc). cbn [locals hp] in *.
  destruct Hrep1 as (Hokw1 & Hokc1 & Hne1 & Hlc1 & Hrw1 & Hrc1).
  destruct Hrep2 as (Hokw2 & Hokc2 & Hne2 & Hlc2 & Hrw2 & Hrc2). cbn [fst snd] in *.
  set (P := fst (clash_ws (firstn i ws1) ws2)) in *. set (K := snd (clash_ws (firstn i ws1) ws2)) in *.
  assert (HlenP : length P = i) by (unfold P; rewrite length_clash_ws, firstn_length_le; lia).
  set (w1 := nth i ws1 0). set (w2 := nth i ws2 0).
  assert (Hsn : firstn (S i) ws1 = firstn i ws1 ++ [w1]) by (apply firstn_S_nth; lia).
  assert (Hleni : length (firstn i ws1) = i) by (apply firstn_length_le; lia).
  assert (Hnth1 : nth (s_off sw1 + i) (arr_of hp0 (s_arr sw1)) 0 = w1).
  { rewrite <- nth_sl_read by lia. rewrite Hrd. apply nth_prefix_skipn. exact HlenP. }
  assert (Hnth2 : nth (s_off sw2 + i) (arr_of hp0 (s_arr sw2)) 0 = w2).
  { rewrite <- nth_sl_read by lia.
    rewrite (only_wins_read_other [sw1; sc1] h hp0 sw2 Hfr), Hrw2; [reflexivity|].
    intros s [<-|[<-|[]]]; assumption. }
  set (pre := St (upd "w1" (VInt w1) (upd "i" (VInt (Z.of_nat i)) loc0)) hp0).
  set (st1 := St (upd "w2" (VInt w2) (locals pre)) hp0).
  set (hp1 := heap_write hp0 (s_arr sw1) (s_off sw1 + i) [w1 + w2]).
  set (st2 := St (locals st1) hp1).
  assert (R1 : runs go_funs (SSet "w2" (EIdx (EFld (EVar "pb2") 0) (EVar "i"))) pre (ONormal st1)).
  { apply runs_set. unfold pre, pbset_val in *. ev. rewrite idx_in by lia. rewrite Nat2Z.id, Hnth2. reflexivity. }
  assert (R2 : runs go_funs (SSetIdx (EFld (EVar "pb1") 0) (EVar "i")
                  (EBin Add (EIdx (EFld (EVar "pb1") 0) (EVar "i")) (EVar "w2"))) st1 (ONormal st2)).
  { assert (R : runs go_funs (SSetIdx (EFld (EVar "pb1") 0) (EVar "i")
                  (EBin Add (EIdx (EFld (EVar "pb1") 0) (EVar "i")) (EVar "w2"))) st1
              (ONormal (St (locals st1) (heap_write (hp st1) (s_arr sw1) (s_off sw1 + Z.to_nat (Z.of_nat i)) [w1 + w2])))).
    { apply (runs_setidx go_funs _ _ _ st1 sw1 (Z.of_nat i) (w1 + w2)); [| | |lia].
      - unfold st1, pre, pbset_val in *. ev. reflexivity.
      - unfold st1, pre. ev. reflexivity.
      - unfold st1, pre, pbset_val in *. ev. rewrite idx_in by lia. rewrite Nat2Z.id, Hnth1. ev. reflexivity. }
    rewrite Nat2Z.id in R. exact R. }
  assert (Hfr1 : only_wins [sw1; sc1] h hp1).
  { apply only_wins_write; [exact Hfr|left; reflexivity|lia]. }
  assert (Hrd1 : sl_read hp1 sw1 = fst (clash_ws (firstn (S i) ws1) ws2) ++ skipn (S i) ws1).
  { unfold hp1. rewrite sl_read_write_nth by (try lia; eapply only_wins_ok; eassumption).
    rewrite Hrd, prefix_step by exact HlenP. rewrite Hsn, clash_ws_snoc. cbn [fst]. rewrite Hleni. reflexivity. }
  assert (Hrdc1 : sl_read hp1 sc1 = [c1 + c2 - K]).
  { unfold hp1. rewrite sl_read_heap_write_other by congruence. exact Hrdc. }
  assert (HK : snd (clash_ws (firstn (S i) ws1) ws2) =
               K + (if w1 * w2 <? 0 then Z.min (Z.abs w1) (Z.abs w2) else 0)).
  { rewrite Hsn, clash_ws_snoc. cbn [snd]. rewrite Hleni. reflexivity. }
  destruct (w1 * w2 <? 0) eqn:Em.
  - (* opposite polarities: the card loses min(|w1|, |w2|) *)
    set (y := c1 + c2 - K - Z.min (Z.abs w1) (Z.abs w2)).
    set (loc3 := upd "$3" (VInt (Z.min (Z.abs w1) (Z.abs w2)))
                   (upd "$2" (VInt (Z.abs w2)) (upd "$1" (VInt (Z.abs w1)) (locals st2)))).
    exists (ONormal (St loc3 (card_set hp1 sc1 y))), (St loc3 (card_set hp1 sc1 y)).
    split; [|split; [apply goes_on_normal|]].
    + unfold clash_body. eapply runs_seq; [exact R1|]. eapply runs_seq; [exact R2|].
      eapply runs_if_true; [unfold st2, st1, pre; ev; rewrite Em; reflexivity|].
      eapply runs_seq.
      { eapply runs_call_run; [|apply abs_run]. unfold st2, st1, pre. ev. reflexivity. }
      eapply runs_seq.
      { eapply runs_call_run; [|apply abs_run]. unfold st2, st1, pre. ev. reflexivity. }
      eapply runs_seq.
      { eapply runs_call_run; [|apply min_run]. unfold st2, st1, pre. ev. reflexivity. }
      cbn [hp locals].
      pose proof (card_nth hp1 sc1 _ Hlc1 Hrdc1) as Hcn.
      apply (runs_card_set go_funs (St loc3 hp1) (EVar "pb1") _ sw1 sc1 y); [| |exact Hlc1].
      * apply eval_var. unfold loc3, st2, st1, pre. cbn [locals]. lk. exact L1.
      * unfold loc3, st2, st1, pre, pbset_val in *. evcard Hcn. reflexivity.
    + unfold clash_inv, loc3, st2, st1, pre. cbn [locals hp]. lk.
      refine (conj L1 (conj L2 (conj _ (conj _ _)))).
      * apply card_set_wins; [exact Hfr1|right; left; reflexivity|exact Hlc1].
      * rewrite card_set_read_other by exact Hne1. exact Hrd1.
      * rewrite (card_set_read hp1 sc1 (c1 + c2 - K) y) by
          (try assumption; eapply only_wins_ok; eassumption).
        rewrite HK. unfold y. f_equal. lia.
  - exists (ONormal st2), st2. split; [|split; [apply goes_on_normal|]].
    + unfold clash_body. eapply runs_seq; [exact R1|]. eapply runs_seq; [exact R2|].
      eapply runs_if_false; [unfold st2, st1, pre; ev; rewrite Em; reflexivity|apply runs_skip].
    + unfold clash_inv, st2, st1, pre. cbn [locals hp]. lk.
      refine (conj L1 (conj L2 (conj Hfr1 (conj Hrd1 _)))).
      rewrite Hrdc1, HK. f_equal. lia.
Qed.

(* the statement before the loop: pb1.card += pb2.card *)
Lemma clash_first_run : forall h sw1 sc1 sw2 sc2 ws1 c1 ws2 c2 vs,
  pbset_at h sw1 sc1 (ws1, c1) -> pbset_at h sw2 sc2 (ws2, c2) -> s_arr sc1 <> s_arr sc2 ->
  let st := St [("pb1", pbset_val sw1 sc1); ("s", vs); ("pb2", pbset_val sw2 sc2)] h in
  runs go_funs clash_first st (ONormal (St (locals st) (card_set h sc1 (c1 + c2)))) /\
  clash_inv h sw1 sc1 sw2 sc2 ws1 c1 ws2 c2 O (St (locals st) (card_set h sc1 (c1 + c2))).
Proof.
  intros h sw1 sc1 sw2 sc2 ws1 c1 ws2 c2 vs Hrep1 Hrep2 Dcc st.
  destruct Hrep1 as (Hokw1 & Hokc1 & Hne1 & Hlc1 & Hrw1 & Hrc1).
  destruct Hrep2 as (Hokw2 & Hokc2 & Hne2 & Hlc2 & Hrw2 & Hrc2). cbn [fst snd] in *.
  pose proof (card_nth h sc1 c1 Hlc1 Hrc1) as Hcn1. pose proof (card_nth h sc2 c2 Hlc2 Hrc2) as Hcn2.
  split.
  - unfold clash_first. apply (runs_card_set go_funs st (EVar "pb1") _ sw1 sc1 (c1 + c2)); [reflexivity| |exact Hlc1].
    unfold st, pbset_val. ev. rewrite !idx_in by lia. change (Z.to_nat 0) with 0%nat. rewrite Hcn1, Hcn2. ev.
    reflexivity.
  - unfold clash_inv, st. cbn [locals hp firstn skipn clash_ws fst snd app lookup String.eqb Ascii.eqb Bool.eqb].
    refine (conj eq_refl (conj eq_refl (conj _ (conj _ _)))).
    + apply card_set_wins; [apply only_wins_refl|right; left; reflexivity|exact Hlc1].
    + rewrite card_set_read_other by exact Hne1. exact Hrw1.
    + rewrite (card_set_read h sc1 c1) by assumption. f_equal. lia.
Qed.

Theorem clash_run : forall h sw1 sc1 sw2 sc2 ws1 c1 ws2 c2 vs,
  pbset_at h sw1 sc1 (ws1, c1) -> pbset_at h sw2 sc2 (ws2, c2) ->
  s_arr sw1 <> s_arr sw2 -> s_arr sw1 <> s_arr sc2 -> s_arr sc1 <> s_arr sw2 -> s_arr sc1 <> s_arr sc2 ->
  (length ws1 <= length ws2)%nat ->
  exists h', run_to go_funs "pbSet.clash" [pbset_val sw1 sc1; vs; pbset_val sw2 sc2] h (OReturn (VInt 0) h') /\
    only_wins [sw1; sc1] h h' /\
    pbset_at h' sw1 sc1 (clash (ws1, c1) (ws2, c2)) /\ pbset_at h' sw2 sc2 (ws2, c2).
Proof.
  intros h sw1 sc1 sw2 sc2 ws1 c1 ws2 c2 vs Hrep1 Hrep2 Dww Dwc Dcw Dcc Hle.
  pose proof (pbset_at_len _ _ _ _ Hrep1) as Hlen1. cbn [fst] in Hlen1.
  destruct (clash_first_run h sw1 sc1 sw2 sc2 ws1 c1 ws2 c2 vs Hrep1 Hrep2 Dcc) as (R0 & HI0).
  cbv zeta in R0, HI0.
  set (st := St [("pb1", pbset_val sw1 sc1); ("s", vs); ("pb2", pbset_val sw2 sc2)] h) in *.
  set (st0 := St (locals st) (card_set h sc1 (c1 + c2))) in *.
  destruct (runs_range_inv_c go_funs "i" "w1" (EFld (EVar "pb1") 0) clash_body st0 sw1
              (clash_inv h sw1 sc1 sw2 sc2 ws1 c1 ws2 c2)) as ([loc' h'] & Hrun & HI).
  - reflexivity.
  - exact HI0.
  - intros j stj Hj HIj. apply clash_turn; try assumption; lia.
  - destruct HI as (L1 & L2 & Hfr & Hrd & Hrdc). cbn [locals hp] in *.
    rewrite Hlen1, firstn_all, skipn_all, app_nil_r in Hrd. rewrite Hlen1, firstn_all in Hrdc.
    exists h'. split; [|split; [exact Hfr|split]].
    + eapply run_to_intro; [reflexivity|reflexivity|]. rewrite src_clash_shape.
      eapply runs_seq; [eapply runs_seq; [exact R0|exact Hrun]|].
      apply (runs_exec go_funs 1); [reflexivity|discriminate].
    + pose proof Hrep1 as (Hokw1 & Hokc1 & Hne1 & Hlc1 & Hrw1 & Hrc1).
      unfold clash. cbn [fst snd]. destruct (clash_ws ws1 ws2) as [w k]. cbn [fst snd] in *.
      unfold pbset_at. cbn [fst snd].
      refine (conj _ (conj _ (conj Hne1 (conj Hlc1 (conj Hrd Hrdc))))); eapply only_wins_ok; eassumption.
    + eapply pbset_at_frame; [exact Hrep2|exact Hfr| |].
      * intros t [<-|[<-|[]]]; assumption.
      * intros t [<-|[<-|[]]]; assumption.
Qed.

(* pb2 shorter than pb1: index out of range at turn len(pb2.weights) *)
Theorem clash_short_panics : forall h sw1 sc1 sw2 sc2 ws1 c1 ws2 c2 vs,
  pbset_at h sw1 sc1 (ws1, c1) -> pbset_at h sw2 sc2 (ws2, c2) ->
  s_arr sw1 <> s_arr sw2 -> s_arr sw1 <> s_arr sc2 -> s_arr sc1 <> s_arr sw2 -> s_arr sc1 <> s_arr sc2 ->
  (length ws2 < length ws1)%nat ->
  run_to go_funs "pbSet.clash" [pbset_val sw1 sc1; vs; pbset_val sw2 sc2] h OPanic.
Proof.
  intros h sw1 sc1 sw2 sc2 ws1 c1 ws2 c2 vs Hrep1 Hrep2 Dww Dwc Dcw Dcc Hlt.
  pose proof (pbset_at_len _ _ _ _ Hrep1) as Hlen1. pose proof (pbset_at_len _ _ _ _ Hrep2) as Hlen2.
  cbn [fst] in Hlen1, Hlen2.
  destruct (clash_first_run h sw1 sc1 sw2 sc2 ws1 c1 ws2 c2 vs Hrep1 Hrep2 Dcc) as (R0 & HI0).
  cbv zeta in R0, HI0.
  set (st := St [("pb1", pbset_val sw1 sc1); ("s", vs); ("pb2", pbset_val sw2 sc2)] h) in *.
  set (st0 := St (locals st) (card_set h sc1 (c1 + c2))) in *.
  eapply run_to_intro; [reflexivity|reflexivity|]. rewrite src_clash_shape.
  apply runs_seq_abrupt; [|exact Logic.I]. eapply runs_seq; [exact R0|].
  apply (runs_range_inv_abrupt go_funs "i" "w1" (EFld (EVar "pb1") 0) clash_body st0 sw1
           (clash_inv h sw1 sc1 sw2 sc2 ws1 c1 ws2 c2) (length ws2) OPanic).
  - reflexivity.
  - exact HI0.
  - intros j stj Hj HIj. apply clash_turn; try assumption; lia.
  - intros stj HIj. rewrite (clash_pre _ _ _ _ _ _ _ _ _ _ _ Hlt Hlen1 HIj).
    destruct stj as [locj hpj]. destruct HIj as (L1 & L2 & _). cbn [locals hp] in *.
    unfold clash_body. apply runs_seq_abrupt; [|exact Logic.I]. apply runs_set_panic.
    unfold pbset_val in *. ev. rewrite idx_out by lia. reflexivity.
  - exact Logic.I.
  - lia.
Qed.

(* ================================================================== pbSet.falsifies *)

(* the Go code takes the internal encoding of a literal ([go_IntToLit l], l the DIMACS literal of the model) *)
Lemma quot_IntToLit : forall l, l <> 0 -> Z.quot (go_IntToLit l) 2 = Z.abs l - 1.
Proof. intros l Hl. pose proof (Lit_Var l Hl) as H. unfold go_Var_Int, go_Lit_Var in H. lia. Qed.

Lemma rem_IntToLit : forall l, l <> 0 -> (Z.rem (go_IntToLit l) 2 =? 0) = (0 <? l).
Proof. intros l Hl. apply (IsPositive l Hl). Qed.

Theorem falsifies_run : forall h sw sc ws card l, pbset_at h sw sc (ws, card) ->
  l <> 0 -> Z.abs l <= Z.of_nat (length ws) ->
  run_to go_funs "pbSet.falsifies" [pbset_val sw sc; VInt (go_IntToLit l)] h
    (OReturn (VBool (falsifies (ws, card) l)) h).
Proof.
  intros h sw sc ws card l Hrep Hl Hin.
  pose proof (pbset_at_len _ _ _ _ Hrep) as Hlen. cbn [fst] in Hlen.
  destruct Hrep as (Hokw & Hokc & Hne & Hlc & Hrw & Hrc). cbn [fst snd] in *.
  set (lit := go_IntToLit l). set (k := Z.to_nat (Z.abs l - 1)).
  set (w := nth k ws 0).
  assert (Hw : nth (s_off sw + k) (arr_of h (s_arr sw)) 0 = w).
  { rewrite <- nth_sl_read by lia. rewrite Hrw. reflexivity. }
  enter. eapply runs_seq.
  { eapply runs_call_run; [reflexivity|apply Lit_Var_run]. }
  cbn [locals hp upd String.eqb Ascii.eqb Bool.eqb]. fold lit. unfold lit at 2. rewrite (quot_IntToLit l Hl).
  eapply runs_seq.
  { apply runs_set. unfold pbset_val. ev. rewrite idx_in by lia. fold k. rewrite Hw. reflexivity. }
  unfold set_local. cbn [locals hp upd String.eqb Ascii.eqb Bool.eqb].
  unfold falsifies. cbn [fst]. fold k. fold w.
  destruct (w =? 0) eqn:Ew.
  - apply runs_seq_abrupt; [|exact Logic.I]. eapply runs_if_true; [ev; rewrite Ew; reflexivity|].
    apply (runs_exec go_funs 1); [reflexivity|discriminate].
  - eapply runs_seq; [eapply runs_if_false; [ev; rewrite Ew; reflexivity|apply runs_skip]|].
    eapply runs_seq.
    { eapply runs_call_run; [reflexivity|apply Lit_IsPositive_run]. }
    cbn [locals hp upd String.eqb Ascii.eqb Bool.eqb]. unfold lit. rewrite (rem_IntToLit l Hl).
    apply (runs_exec go_funs 1); [reflexivity|discriminate].
Qed.

(* the same for any value of type Lit (a non-negative int) whose variable is in range *)
Corollary falsifies_run_lit : forall h sw sc ws card lit, pbset_at h sw sc (ws, card) ->
  0 <= lit -> Z.quot lit 2 < Z.of_nat (length ws) ->
  run_to go_funs "pbSet.falsifies" [pbset_val sw sc; VInt lit] h
    (OReturn (VBool (falsifies (ws, card) (go_Lit_Int lit))) h).
Proof.
  intros h sw sc ws card lit Hrep Hl Hin.
  destruct (IntToLit_Lit_Int lit Hl) as (E & Hnz).
  pose proof (quot_IntToLit (go_Lit_Int lit) Hnz) as Hq. rewrite E in Hq.
  rewrite <- E at 1. apply falsifies_run; [exact Hrep|exact Hnz|lia].
Qed.

(* corner: a literal whose variable is beyond the weights: the Go code panics (index out of range),
   the model of Model/CP.v answers false *)
Theorem falsifies_out_of_range_observation : forall h sw sc ws card l, pbset_at h sw sc (ws, card) ->
  l <> 0 -> Z.of_nat (length ws) < Z.abs l ->
  run_to go_funs "pbSet.falsifies" [pbset_val sw sc; VInt (go_IntToLit l)] h OPanic /\
  falsifies (ws, card) l = false.
Proof.
  intros h sw sc ws card l Hrep Hl Hout.
  pose proof (pbset_at_len _ _ _ _ Hrep) as Hlen. cbn [fst] in Hlen.
  split.
  - enter. eapply runs_seq.
    { eapply runs_call_run; [reflexivity|apply Lit_Var_run]. }
    cbn [locals hp upd String.eqb Ascii.eqb Bool.eqb]. rewrite (quot_IntToLit l Hl).
    apply runs_seq_abrupt; [|exact Logic.I]. apply runs_set_panic.
    unfold pbset_val. ev. rewrite idx_out by lia. reflexivity.
  - unfold falsifies. cbn [fst]. rewrite nth_overflow by lia. reflexivity.
Qed.

(* ================================================================== pbSet.roundToOne *)

Definition wk_cond (wi a w : Z) : bool := negb (Z.rem w wi =? 0) && not_falsified a w.
Definition wk_w (wi a w : Z) : Z := if w =? 0 then w else if wk_cond wi a w then 0 else w.
Definition wk_k (wi a w : Z) : Z := if w =? 0 then 0 else if wk_cond wi a w then Z.abs w else 0.

Lemma weaken_ws_snoc : forall wi l assign w,
  weaken_ws wi assign (l ++ [w]) =
  (fst (weaken_ws wi assign l) ++ [wk_w wi (nth (length l) assign 0) w],
   snd (weaken_ws wi assign l) + wk_k wi (nth (length l) assign 0) w).
Proof.
  intros wi. induction l as [|x r IH]; intros assign w.
  - cbn [app weaken_ws length fst snd]. unfold wk_w, wk_k, wk_cond.
    replace (nth 0 assign 0) with (hd 0 assign) by (destruct assign; reflexivity).
    destruct (w =? 0); [reflexivity|].
    destruct (negb (Z.rem w wi =? 0) && not_falsified (hd 0 assign) w); cbn [fst snd app]; f_equal; lia.
  - cbn [app weaken_ws length]. rewrite IH. destruct (weaken_ws wi (tl assign) r) as [r' k]. cbn [fst snd].
    replace (nth (S (length r)) assign 0) with (nth (length r) (tl assign) 0)
      by (destruct assign; [destruct (length r); reflexivity|reflexivity]).
    destruct (x =? 0); [reflexivity|].
    destruct (negb (Z.rem x wi =? 0) && not_falsified (hd 0 assign) x); cbn [fst snd app]; f_equal; lia.
Qed.

Lemma length_weaken_ws : forall wi l assign, length (fst (weaken_ws wi assign l)) = length l.
Proof.
  intros wi. induction l as [|x r IH]; intros assign; [reflexivity|].
  cbn [weaken_ws]. specialize (IH (tl assign)). destruct (weaken_ws wi (tl assign) r) as [r' k].
  cbn [fst] in IH.
  destruct (x =? 0); [cbn [fst length]; rewrite IH; reflexivity|].
  destruct (negb (Z.rem x wi =? 0) && not_falsified (hd 0 assign) x); cbn [fst length]; rewrite IH; reflexivity.
Qed.

Definition round_callwi : stmt :=
  Eval cbv in match f_body src_pbSet_roundToOne with SSeq (SSeq s _) _ => s | _ => SSkip end.
Definition round_ifone : stmt :=
  Eval cbv in match f_body src_pbSet_roundToOne with SSeq (SSeq _ (SSeq s _)) _ => s | _ => SSkip end.
Definition round_body : stmt :=
  Eval cbv in match f_body src_pbSet_roundToOne with
              | SSeq (SSeq _ (SSeq _ (SSeq (SRange _ _ _ b) _))) _ => b | _ => SSkip end.
Definition round_calldiv : stmt :=
  Eval cbv in match f_body src_pbSet_roundToOne with SSeq (SSeq _ (SSeq _ (SSeq _ s))) _ => s | _ => SSkip end.

Lemma src_roundToOne_shape : f_body src_pbSet_roundToOne =
  SSeq (SSeq round_callwi (SSeq round_ifone
          (SSeq (SRange "j" "wj" (EFld (EVar "pb") 0) round_body) round_calldiv))) (SReturn (EInt 0)).
Proof. reflexivity. Qed.

Lemma eval_fld : forall st e fs k f, eval st e = EV (VStruct fs) -> nth_error fs k = Some f ->
  eval st (EFld e k) = EV f.
Proof. intros st e fs k f He Hk. cbn [eval]. rewrite He. cbn [ebind]. rewrite Hk. reflexivity. Qed.

Definition round_inv (h : heap) (sw sc : slice) (vs : val) (ws : list Z) (card wi : Z) (model : list Z)
  (j : nat) (st1 : state) : Prop :=
  lookup "pb" (locals st1) = Some (pbset_val sw sc) /\ lookup "s" (locals st1) = Some vs /\
  lookup "wi" (locals st1) = Some (VInt wi) /\
  only_wins [sw; sc] h (hp st1) /\
  sl_read (hp st1) sw = fst (weaken_ws wi model (firstn j ws)) ++ skipn j ws /\
  sl_read (hp st1) sc = [card - snd (weaken_ws wi model (firstn j ws))].

Lemma round_pre : forall h sw sc vs ws card wi model j st0,
  (j < length ws)%nat -> s_len sw = length ws ->
  round_inv h sw sc vs ws card wi model j st0 ->
  range_pre "j" "wj" (get_sl sw) j st0 =
  St (upd "wj" (VInt (nth j ws 0)) (upd "j" (VInt (Z.of_nat j)) (locals st0))) (hp st0).
Proof.
  intros h sw sc vs ws card wi model j [loc0 hp0] Hj Hlen (L1 & L2 & L3 & Hfr & Hrd & Hrdc).
  cbn [locals hp] in *.
  unfold range_pre, get_sl, set_local. cbn [String.eqb Ascii.eqb Bool.eqb locals hp].
  rewrite <- nth_sl_read by lia. rewrite Hrd, nth_prefix_skipn; [reflexivity|].
  rewrite length_weaken_ws, firstn_length_le; lia.
Qed.

Lemma round_turn : forall h sw sc vs sm strail ws card wi model trail,
  pbset_at h sw sc (ws, card) -> solver_at h vs sm strail model trail ->
  s_arr sm <> s_arr sw -> s_arr sm <> s_arr sc -> wi <> 0 ->
  forall j st0, (j < length ws)%nat -> (nth j ws 0 <> 0 -> (j < length model)%nat) ->
  round_inv h sw sc vs ws card wi model j st0 ->
  exists ob st1, runs go_funs round_body (range_pre "j" "wj" (get_sl sw) j st0) ob /\ goes_on ob st1 /\
    round_inv h sw sc vs ws card wi model (S j) st1.
Proof.
  intros h sw sc vs sm strail ws card wi model trail Hrep Hsol Dmw Dmc Hwi j st0 Hj Hjm HI.
  pose proof (pbset_at_len _ _ _ _ Hrep) as Hlen. cbn [fst] in Hlen.
  rewrite (round_pre _ _ _ _ _ _ _ _ _ _ Hj Hlen HI).
  destruct st0 as [loc0 hp0]. destruct HI as (L1 & L2 & L3 & Hfr & Hrd & Hrdc). cbn [locals hp] in *.
  destruct Hrep as (Hokw & Hokc & Hne & Hlc & Hrw & Hrc). cbn [fst snd] in *.
  destruct Hsol as (fs & -> & Hnf & Hfm & Hft & Hokm & Hrm & Hokt & Hrt).
  unfold fld_Solver_model in Hfm.
  set (P := fst (weaken_ws wi model (firstn j ws))) in *. set (K := snd (weaken_ws wi model (firstn j ws))) in *.
  assert (HlenP : length P = j) by (unfold P; rewrite length_weaken_ws, firstn_length_le; lia).
  set (w := nth j ws 0) in *. set (a := nth j model 0).
  assert (Hsn : firstn (S j) ws = firstn j ws ++ [w]) by (apply firstn_S_nth; lia).
  assert (Hlenj : length (firstn j ws) = j) by (apply firstn_length_le; lia).
  assert (Hsnoc : weaken_ws wi model (firstn (S j) ws) = (P ++ [wk_w wi a w], K + wk_k wi a w)).
  { rewrite Hsn, weaken_ws_snoc, Hlenj. reflexivity. }
  set (pre := St (upd "wj" (VInt w) (upd "j" (VInt (Z.of_nat j)) loc0)) hp0).
  assert (Ewi : (wi =? 0) = false) by (apply Z.eqb_neq; exact Hwi).
  destruct (w =? 0) eqn:Ew.
  - (* absent variable: continue *)
    exists (OContinue pre), pre. split; [|split; [apply goes_on_continue|]].
    + unfold round_body. apply runs_seq_abrupt; [|exact Logic.I]. eapply runs_if_true; [|apply runs_continue].
      unfold pre. ev. rewrite Ew. reflexivity.
    + unfold round_inv, pre. cbn [locals hp]. lk. rewrite Hsnoc. cbn [fst snd]. unfold wk_w, wk_k. rewrite Ew.
      refine (conj L1 (conj L2 (conj L3 (conj Hfr (conj _ _))))).
      * rewrite Hrd. apply prefix_keep. lia.
      * rewrite Hrdc. f_equal. lia.
  - assert (Hjm' : (j < length model)%nat) by (apply Hjm; apply Z.eqb_neq; exact Ew).
    assert (Hrm0 : sl_read hp0 sm = model).
    { rewrite (only_wins_read_other [sw; sc] h hp0 sm Hfr); [exact Hrm|].
      intros s [<-|[<-|[]]]; congruence. }
    assert (Hlm : s_len sm = length model) by (rewrite <- Hrm; symmetry; apply length_sl_read; exact Hokm).
    set (st1 := St (upd "assign" (VInt a) (locals pre)) hp0).
    assert (R0 : runs go_funs (SIf (EBin Eq (EVar "wj") (EInt 0)) SContinue SSkip) pre (ONormal pre)).
    { eapply runs_if_false; [|apply runs_skip]. unfold pre. ev. rewrite Ew. reflexivity. }
    assert (R1 : runs go_funs (SSet "assign" (EIdx (EFld (EVar "s") 8) (EVar "j"))) pre (ONormal st1)).
    { apply runs_set.
      rewrite (eval_idx_sl pre _ _ sm j); [unfold pre; cbn [hp]; rewrite Hrm0; reflexivity| | |lia].
      - eapply eval_fld; [apply eval_var; unfold pre; cbn [locals]; lk; exact L2|exact Hfm].
      - unfold pre. ev. reflexivity. }
    assert (Econd : eval st1 (EBin And (EBin Ne (EBin Rem (EVar "wj") (EVar "wi")) (EInt 0))
               (EBin Or (EBin Eq (EVar "assign") (EInt 0))
                  (EBin Eq (EBin Gt (EVar "assign") (EInt 0)) (EBin Gt (EVar "wj") (EInt 0))))) =
             EV (VBool (wk_cond wi a w))).
    { unfold st1, pre, wk_cond, not_falsified. ev. rewrite Ewi. ev.
      destruct (Z.rem w wi =? 0); cbn [negb andb]; [reflexivity|].
      destruct (a =? 0); cbn [orb]; reflexivity. }
    unfold wk_w, wk_k in Hsnoc. rewrite Ew in Hsnoc.
    destruct (wk_cond wi a w) eqn:Ec.
    + (* weakened: weight to 0, card loses |w| *)
      set (hp1 := heap_write hp0 (s_arr sw) (s_off sw + j) [0]).
      set (y := card - K - Z.abs w).
      set (loc3 := upd "$1" (VInt (Z.abs w)) (locals st1)).
      exists (ONormal (St loc3 (card_set hp1 sc y))), (St loc3 (card_set hp1 sc y)).
      assert (Hfr1 : only_wins [sw; sc] h hp1).
      { apply only_wins_write; [exact Hfr|left; reflexivity|lia]. }
      assert (Hrd1 : sl_read hp1 sw = (P ++ [0]) ++ skipn (S j) ws).
      { unfold hp1. rewrite sl_read_write_nth by (try lia; eapply only_wins_ok; eassumption).
        rewrite Hrd, prefix_step by exact HlenP. reflexivity. }
      assert (Hrdc1 : sl_read hp1 sc = [card - K]).
      { unfold hp1. rewrite sl_read_heap_write_other by congruence. exact Hrdc. }
      split; [|split; [apply goes_on_normal|]].
      * unfold round_body. eapply runs_seq; [exact R0|]. eapply runs_seq; [exact R1|].
        eapply runs_if_true; [exact Econd|].
        eapply runs_seq.
        { assert (R : runs go_funs (SSetIdx (EFld (EVar "pb") 0) (EVar "j") (EInt 0)) st1
              (ONormal (St (locals st1) (heap_write (hp st1) (s_arr sw) (s_off sw + Z.to_nat (Z.of_nat j)) [0])))).
          { apply (runs_setidx go_funs _ _ _ st1 sw (Z.of_nat j) 0); [| |reflexivity|lia].
            - unfold st1, pre, pbset_val in *. ev. reflexivity.
            - unfold st1, pre. ev. reflexivity. }
          rewrite Nat2Z.id in R. exact R. }
        eapply runs_seq.
        { eapply runs_call_run; [|apply abs_run]. unfold st1, pre. ev. reflexivity. }
        cbn [hp locals]. fold hp1. fold loc3.
        pose proof (card_nth hp1 sc _ Hlc Hrdc1) as Hcn.
        apply (runs_card_set go_funs (St loc3 hp1) (EVar "pb") _ sw sc y); [| |exact Hlc].
        -- apply eval_var. unfold loc3, st1, pre. cbn [locals]. lk. exact L1.
        -- unfold loc3, st1, pre, pbset_val in *. evcard Hcn. reflexivity.
      * unfold round_inv, loc3, st1, pre. cbn [locals hp]. lk. rewrite Hsnoc. cbn [fst snd].
        refine (conj L1 (conj L2 (conj L3 (conj _ (conj _ _))))).
        -- apply card_set_wins; [exact Hfr1|right; left; reflexivity|exact Hlc].
        -- rewrite card_set_read_other by exact Hne. exact Hrd1.
        -- rewrite (card_set_read hp1 sc (card - K) y) by (try assumption; eapply only_wins_ok; eassumption).
           unfold y. f_equal. lia.
    + exists (ONormal st1), st1. split; [|split; [apply goes_on_normal|]].
      * unfold round_body. eapply runs_seq; [exact R0|]. eapply runs_seq; [exact R1|].
        eapply runs_if_false; [exact Econd|apply runs_skip].
      * unfold round_inv, st1, pre. cbn [locals hp]. lk. rewrite Hsnoc. cbn [fst snd].
        refine (conj L1 (conj L2 (conj L3 (conj Hfr (conj _ _))))).
        -- rewrite Hrd. apply prefix_keep. lia.
        -- rewrite Hrdc. f_equal. lia.
Qed.

(* the call that computes wi = abs(pb.weights[locked]) *)
Lemma round_callwi_run : forall h sw sc ws card vs locked lvl,
  pbset_at h sw sc (ws, card) -> (locked < length ws)%nat ->
  let st := St [("pb", pbset_val sw sc); ("s", vs); ("locked", VInt (Z.of_nat locked)); ("lvl", VInt lvl)] h in
  runs go_funs round_callwi st (ONormal (St (upd "wi" (VInt (Z.abs (nth locked ws 0))) (locals st)) h)).
Proof.
  intros h sw sc ws card vs locked lvl Hrep Hl st.
  pose proof (pbset_at_len _ _ _ _ Hrep) as Hlen. cbn [fst] in Hlen.
  destruct Hrep as (Hokw & Hokc & Hne & Hlc & Hrw & Hrc). cbn [fst snd] in *.
  unfold round_callwi. eapply runs_call_run; [|apply abs_run].
  unfold st, pbset_val. ev. rewrite idx_in by lia. rewrite Nat2Z.id, <- nth_sl_read by lia. rewrite Hrw. reflexivity.
Qed.

Lemma round_callwi_panics : forall h sw sc ws card vs locked lvl,
  pbset_at h sw sc (ws, card) -> (length ws <= locked)%nat ->
  runs go_funs round_callwi
    (St [("pb", pbset_val sw sc); ("s", vs); ("locked", VInt (Z.of_nat locked)); ("lvl", VInt lvl)] h) OPanic.
Proof.
  intros h sw sc ws card vs locked lvl Hrep Hl.
  pose proof (pbset_at_len _ _ _ _ Hrep) as Hlen. cbn [fst] in Hlen.
  unfold round_callwi. eapply runs_call_arg_panic; [reflexivity|].
  unfold pbset_val. ev. rewrite idx_out by lia. reflexivity.
Qed.

Theorem roundToOne_run : forall h sw sc ws card vs sm strail model trail locked lvl s',
  pbset_at h sw sc (ws, card) -> solver_at h vs sm strail model trail ->
  s_arr sm <> s_arr sw -> s_arr sm <> s_arr sc ->
  (forall j, (j < length ws)%nat -> nth j ws 0 <> 0 -> (j < length model)%nat) ->
  round_to_one model locked (ws, card) = Some s' ->
  exists h', run_to go_funs "pbSet.roundToOne" [pbset_val sw sc; vs; VInt (Z.of_nat locked); VInt lvl] h
               (OReturn (VInt 0) h') /\
    only_wins [sw; sc] h h' /\ pbset_at h' sw sc s'.
Proof.
  intros h sw sc ws card vs sm strail model trail locked lvl s' Hrep Hsol Dmw Dmc Hmod Hround.
  pose proof (pbset_at_len _ _ _ _ Hrep) as Hlen. cbn [fst] in Hlen.
  unfold round_to_one in Hround. cbn [fst] in Hround.
  destruct (Nat.lt_ge_cases locked (length ws)) as [Hl|Hl];
    [|rewrite nth_overflow in Hround by exact Hl; discriminate].
  pose proof (round_callwi_run h sw sc ws card vs locked lvl Hrep Hl) as Rwi. cbv zeta in Rwi.
  set (wi := Z.abs (nth locked ws 0)) in *.
  set (st1 := St (upd "wi" (VInt wi)
     [("pb", pbset_val sw sc); ("s", vs); ("locked", VInt (Z.of_nat locked)); ("lvl", VInt lvl)]) h) in *.
  destruct (wi =? 1) eqn:E1.
  - (* nothing to do *)
    inversion Hround. subst s'. exists h. split; [|split; [apply only_wins_refl|exact Hrep]].
    eapply run_to_intro; [reflexivity|reflexivity|]. rewrite src_roundToOne_shape.
    apply runs_seq_abrupt; [|exact Logic.I]. eapply runs_seq; [exact Rwi|].
    apply runs_seq_abrupt; [|exact Logic.I]. unfold round_ifone.
    eapply runs_if_true; [ev; rewrite E1; reflexivity|].
    apply (runs_exec go_funs 1); [reflexivity|discriminate].
  - destruct (wi =? 0) eqn:E0; [discriminate|]. inversion Hround. subst s'. clear Hround.
    assert (Hwi : wi <> 0) by (apply Z.eqb_neq; exact E0).
    destruct (runs_range_inv_c go_funs "j" "wj" (EFld (EVar "pb") 0) round_body st1 sw
                (round_inv h sw sc vs ws card wi model)) as ([loc' h1] & Hrun & HI).
    { reflexivity. }
    { unfold round_inv, st1. cbn [locals hp firstn skipn weaken_ws fst snd app]. lk.
      pose proof Hrep as (Hokw & Hokc & Hne & Hlc & Hrw & Hrc). cbn [fst snd] in *.
      refine (conj eq_refl (conj eq_refl (conj eq_refl (conj (only_wins_refl _ _) (conj Hrw _))))).
      rewrite Hrc. f_equal. lia. }
    { intros j stj Hj HIj. eapply round_turn; try eassumption; try lia. apply Hmod. lia. }
    destruct HI as (L1 & L2 & L3 & Hfr & Hrd & Hrdc). cbn [locals hp] in *.
    rewrite Hlen, firstn_all, skipn_all, app_nil_r in Hrd. rewrite Hlen, firstn_all in Hrdc.
    assert (Hrep1 : pbset_at h1 sw sc (weaken_round wi model (ws, card))).
    { pose proof Hrep as (Hokw & Hokc & Hne & Hlc & Hrw & Hrc).
      unfold weaken_round. cbn [fst snd]. destruct (weaken_ws wi model ws) as [w k]. cbn [fst snd] in *.
      unfold pbset_at. cbn [fst snd].
      refine (conj _ (conj _ (conj Hne (conj Hlc (conj Hrd Hrdc))))); eapply only_wins_ok; eassumption. }
    destruct (weaken_round wi model (ws, card)) as [ws1 card1] eqn:Ewr.
    destruct (divideBy_run h1 sw sc ws1 card1 wi Hwi Hrep1) as (h2 & Rdiv & Hfr2 & Hrep2).
    exists h2. split; [|split; [eapply only_wins_trans; eassumption|exact Hrep2]].
    eapply run_to_intro; [reflexivity|reflexivity|]. rewrite src_roundToOne_shape.
    apply runs_seq with (st' := St (upd "_" (VInt 0) loc') h2);
      [|apply (runs_exec go_funs 1); [reflexivity|discriminate]].
    eapply runs_seq; [exact Rwi|].
    eapply runs_seq; [unfold round_ifone; eapply runs_if_false; [ev; rewrite E1; reflexivity|apply runs_skip]|].
    eapply runs_seq; [exact Hrun|].
    unfold round_calldiv. eapply runs_call_run; [|exact Rdiv].
    ev. reflexivity.
Qed.

(* [round_to_one] answers None (the locked variable is absent from the constraint, or beyond the weights):
   the run panics, whatever the model slice holds *)
Theorem roundToOne_none_panics : forall h sw sc ws card vs sm strail model trail locked lvl,
  pbset_at h sw sc (ws, card) -> solver_at h vs sm strail model trail ->
  round_to_one model locked (ws, card) = None ->
  run_to go_funs "pbSet.roundToOne" [pbset_val sw sc; vs; VInt (Z.of_nat locked); VInt lvl] h OPanic.
Proof.
  intros h sw sc ws card vs sm strail model trail locked lvl Hrep Hsol Hround.
  pose proof (pbset_at_len _ _ _ _ Hrep) as Hlen. cbn [fst] in Hlen.
  eapply run_to_intro; [reflexivity|reflexivity|]. rewrite src_roundToOne_shape.
  apply runs_seq_abrupt; [|exact Logic.I].
  destruct (Nat.lt_ge_cases locked (length ws)) as [Hl|Hl];
    [|apply runs_seq_abrupt; [|exact Logic.I]; eapply round_callwi_panics; eassumption].
  pose proof (round_callwi_run h sw sc ws card vs locked lvl Hrep Hl) as Rwi. cbv zeta in Rwi.
  unfold round_to_one in Hround. cbn [fst] in Hround.
  set (wi := Z.abs (nth locked ws 0)) in *.
  destruct (wi =? 1) eqn:E1; [discriminate|]. destruct (wi =? 0) eqn:E0; [|discriminate].
  apply Z.eqb_eq in E0. rewrite E0 in *. clear Hround.
  set (st1 := St (upd "wi" (VInt 0)
     [("pb", pbset_val sw sc); ("s", vs); ("locked", VInt (Z.of_nat locked)); ("lvl", VInt lvl)]) h) in *.
  eapply runs_seq; [exact Rwi|].
  eapply runs_seq; [unfold round_ifone; eapply runs_if_false; [ev; reflexivity|apply runs_skip]|].
  pose proof Hrep as (Hokw & Hokc & Hne & Hlc & Hrw & Hrc). cbn [fst snd] in *.
  destruct Hsol as (fs & -> & Hnf & Hfm & Hft & Hokm & Hrm & Hokt & Hrt).
  unfold fld_Solver_model in Hfm.
  set (I := fun (j : nat) (stj : state) =>
    lookup "pb" (locals stj) = Some (pbset_val sw sc) /\ lookup "s" (locals stj) = Some (VStruct fs) /\
    lookup "wi" (locals stj) = Some (VInt 0) /\ hp stj = h).
  assert (Hpre : forall j st0, (j < s_len sw)%nat -> I j st0 ->
    range_pre "j" "wj" (get_sl sw) j st0 =
    St (upd "wj" (VInt (nth j ws 0)) (upd "j" (VInt (Z.of_nat j)) (locals st0))) h).
  { intros j [loc0 hp0] Hj (L1 & L2 & L3 & Hh). cbn [locals hp] in *. subst hp0.
    unfold range_pre, get_sl, set_local. cbn [String.eqb Ascii.eqb Bool.eqb locals hp].
    rewrite <- nth_sl_read by exact Hj. rewrite Hrw. reflexivity. }
  assert (Hzero : forall j st0, (j < s_len sw)%nat -> I j st0 -> nth j ws 0 = 0 ->
    exists ob st2, runs go_funs round_body (range_pre "j" "wj" (get_sl sw) j st0) ob /\ goes_on ob st2 /\
                   I (S j) st2).
  { intros j st0 Hj HI Hw. rewrite (Hpre j st0 Hj HI). rewrite Hw. destruct HI as (L1 & L2 & L3 & Hh).
    eexists (OContinue _), _. split; [|split; [apply goes_on_continue|]].
    - unfold round_body. apply runs_seq_abrupt; [|exact Logic.I].
      eapply runs_if_true; [|apply runs_continue]. ev. reflexivity.
    - unfold I. cbn [locals hp]. lk. refine (conj L1 (conj L2 (conj L3 eq_refl))). }
  assert (Ha : eval st1 (EFld (EVar "pb") 0) = EV (VSl sw)) by reflexivity.
  assert (HI0 : I O st1) by (unfold I, st1; cbn [locals hp]; lk; auto).
  destruct (first_nonzero ws) as [Hall|(j & Hj & Hnz & Hb)].
  - destruct (runs_range_inv_c go_funs "j" "wj" (EFld (EVar "pb") 0) round_body st1 sw I Ha HI0)
      as ([loc1 h1] & Hrun & (L1 & L2 & L3 & Hh)).
    { intros j st0 Hj HI. apply Hzero; [exact Hj|exact HI|apply Hall]. }
    cbn [locals hp] in *. subst h1.
    eapply runs_seq; [exact Hrun|]. unfold round_calldiv.
    eapply runs_call_run_panic; [|apply (divideBy_zero_panics h sw sc ws card Hrep)].
    ev. reflexivity.
  - apply runs_seq_abrupt; [|exact Logic.I].
    apply (runs_range_inv_abrupt go_funs "j" "wj" (EFld (EVar "pb") 0) round_body st1 sw I j OPanic Ha HI0).
    + intros j0 st0 Hj0 HI. apply Hzero; [lia|exact HI|apply Hb; exact Hj0].
    + intros st0 HI. rewrite (Hpre j st0 ltac:(lia) HI). destruct HI as (L1 & L2 & L3 & Hh).
      assert (Ew : (nth j ws 0 =? 0) = false) by (apply Z.eqb_neq; exact Hnz).
      unfold round_body.
      eapply runs_seq; [eapply runs_if_false; [ev; rewrite Ew; reflexivity|apply runs_skip]|].
      set (pre := St (upd "wj" (VInt (nth j ws 0)) (upd "j" (VInt (Z.of_nat j)) (locals st0))) h).
      assert (Hsm : eval pre (EFld (EVar "s") 8) = EV (VSl sm)).
      { eapply eval_fld; [apply eval_var; unfold pre; cbn [locals]; lk; exact L2|exact Hfm]. }
      destruct (Nat.lt_ge_cases j (s_len sm)) as [Hjm|Hjm].
      * eapply runs_seq.
        { apply runs_set. apply (eval_idx_sl pre _ _ sm j Hsm); [unfold pre; ev; reflexivity|exact Hjm]. }
        apply runs_if_panic. unfold set_local, pre. ev. reflexivity.
      * apply runs_seq_abrupt; [|exact Logic.I]. apply runs_set_panic.
        apply (eval_idx_oob pre _ _ sm (Z.of_nat j) Hsm); [unfold pre; ev; reflexivity|lia].
    + exact Logic.I.
    + lia.
Qed.

(* ================================================================== pbSet.backtrackLevel *)

Lemma eval_list_one : forall st e v, eval st e = EV v -> eval_list st [e] = LV [v].
Proof. intros st e v H. cbn [eval_list]. rewrite H. reflexivity. Qed.

Lemma hd_skipn : forall (l : list Z) i, hd 0 (skipn i l) = nth i l 0.
Proof.
  intros l i. rewrite <- (Nat.add_0_r i) at 2. rewrite <- nth_skipn_add. destruct (skipn i l); reflexivity.
Qed.

Lemma tl_skipn : forall (l : list Z) i, tl (skipn i l) = skipn (S i) l.
Proof.
  induction l as [|x l IH]; intros i; [destruct i; reflexivity|].
  destruct i as [|i]; [reflexivity|]. cbn [skipn]. rewrite IH. reflexivity.
Qed.

Definition bt_body : stmt :=
  Eval cbv in match f_body src_pbSet_backtrackLevel with
              | SSeq _ (SSeq _ (SSeq _ (SSeq (SRange _ _ _ b) _))) => b | _ => SSkip end.

Lemma src_backtrackLevel_shape : f_body src_pbSet_backtrackLevel =
  SSeq (SCall "v" "Lit.Var" [EVar "falsified"])
    (SSeq (SCall "lvl" "abs" [EIdx (EFld (EVar "s") 8) (EVar "v")])
    (SSeq (SSet "maxLvl" (EInt 1))
    (SSeq (SRange "i" "w" (EFld (EVar "pb") 0) bt_body)
    (SReturn (EVar "maxLvl"))))).
Proof. reflexivity. Qed.

Theorem backtrackLevel_run : forall h sw sc ws card vs sm strail model trail lit,
  pbset_at h sw sc (ws, card) -> solver_at h vs sm strail model trail ->
  0 <= lit ->
  let v := Z.to_nat (Z.quot lit 2) in
  (v < length model)%nat ->
  (forall i, (i < length ws)%nat -> nth i ws 0 <> 0 -> i <> v -> (i < length model)%nat) ->
  run_to go_funs "pbSet.backtrackLevel" [pbset_val sw sc; vs; VInt lit] h
    (OReturn (VInt (backtrack_level model v (ws, card))) h).
Proof.
  intros h sw sc ws card vs sm strail model trail lit Hrep Hsol Hlit v Hv Hmod.
  pose proof (pbset_at_len _ _ _ _ Hrep) as Hlen. cbn [fst] in Hlen.
  destruct Hrep as (Hokw & Hokc & Hne & Hlc & Hrw & Hrc). cbn [fst snd] in *.
  destruct Hsol as (fs & -> & Hnf & Hfm & Hft & Hokm & Hrm & Hokt & Hrt).
  unfold fld_Solver_model in Hfm.
  assert (Hlm : s_len sm = length model) by (rewrite <- Hrm; symmetry; apply length_sl_read; exact Hokm).
  assert (Hvz : Z.quot lit 2 = Z.of_nat v).
  { unfold v. rewrite Z2Nat.id; [reflexivity|]. apply Z.quot_pos; lia. }
  set (lvl := Z.abs (nth v model 0)).
  eapply run_to_intro; [reflexivity|reflexivity|]. rewrite src_backtrackLevel_shape.
  eapply runs_seq.
  { eapply runs_call_run; [reflexivity|apply Lit_Var_run]. }
  cbn [locals hp upd String.eqb Ascii.eqb Bool.eqb]. rewrite Hvz.
  eapply runs_seq.
  { eapply runs_call_run; [|apply abs_run]. apply eval_list_one.
    apply (eval_idx_sl _ _ _ sm v); [eapply eval_fld; [reflexivity|exact Hfm]|reflexivity|lia]. }
  cbn [locals hp upd String.eqb Ascii.eqb Bool.eqb]. rewrite Hrm. fold lvl.
  eapply runs_seq; [apply runs_set; reflexivity|].
  unfold set_local. cbn [locals hp upd String.eqb Ascii.eqb Bool.eqb].
  set (st0 := St [("pb", pbset_val sw sc); ("s", VStruct fs); ("falsified", VInt lit);
                  ("v", VInt (Z.of_nat v)); ("lvl", VInt lvl); ("maxLvl", VInt 1)] h).
  set (I := fun (i : nat) (sti : state) =>
    lookup "pb" (locals sti) = Some (pbset_val sw sc) /\ lookup "s" (locals sti) = Some (VStruct fs) /\
    lookup "v" (locals sti) = Some (VInt (Z.of_nat v)) /\ lookup "lvl" (locals sti) = Some (VInt lvl) /\
    hp sti = h /\
    exists m, lookup "maxLvl" (locals sti) = Some (VInt m) /\
      backtrack_ws i v lvl (skipn i model) (skipn i ws) m = backtrack_level model v (ws, card)).
  destruct (runs_range_inv_c go_funs "i" "w" (EFld (EVar "pb") 0) bt_body st0 sw I)
    as ([loc' h'] & Hrun & (L1 & L2 & L3 & L4 & Hh & m & L5 & Hm)).
  - reflexivity.
  - unfold I, st0. cbn [locals hp]. refine (conj eq_refl (conj eq_refl (conj eq_refl (conj eq_refl (conj eq_refl _))))).
    exists 1. split; reflexivity.
  - intros i [loc0 hp0] Hi (L1 & L2 & L3 & L4 & Hh & m & L5 & Hm). cbn [locals hp] in *. subst hp0.
    unfold range_pre, get_sl, set_local. cbn [String.eqb Ascii.eqb Bool.eqb locals hp].
    rewrite <- nth_sl_read by exact Hi. rewrite Hrw.
    set (w := nth i ws 0).
    set (pre := St (upd "w" (VInt w) (upd "i" (VInt (Z.of_nat i)) loc0)) h).
    rewrite (skipn_nth_cons ws i) in Hm by lia. fold w in Hm. cbn [backtrack_ws] in Hm.
    rewrite hd_skipn, tl_skipn in Hm.
    assert (Eiv : (Z.of_nat i =? Z.of_nat v) = Nat.eqb i v).
    { destruct (Nat.eqb_spec i v); [apply Z.eqb_eq|apply Z.eqb_neq]; lia. }
    assert (Econd : eval pre (EBin Or (EBin Eq (EVar "w") (EInt 0)) (EBin Eq (EVar "i") (EVar "v"))) =
                    EV (VBool ((w =? 0) || Nat.eqb i v))).
    { unfold pre. ev. destruct (w =? 0); cbn [orb]; [reflexivity|]. ev. rewrite Eiv. reflexivity. }
    destruct ((w =? 0) || Nat.eqb i v) eqn:Ec.
    + exists (OContinue pre), pre. split; [|split; [apply goes_on_continue|]].
      * unfold bt_body. apply runs_seq_abrupt; [|exact Logic.I].
        eapply runs_if_true; [exact Econd|apply runs_continue].
      * unfold I, pre. cbn [locals hp]. lk.
        refine (conj L1 (conj L2 (conj L3 (conj L4 (conj eq_refl _))))). exists m. split; [exact L5|exact Hm].
    + apply orb_false_iff in Ec. destruct Ec as (Ew & Eni).
      assert (Him : (i < length model)%nat).
      { apply Hmod; [lia|apply Z.eqb_neq; exact Ew|apply Nat.eqb_neq; exact Eni]. }
      set (li := Z.abs (nth i model 0)) in *.
      set (st1 := St (upd "lvlI" (VInt li) (locals pre)) h).
      assert (R0 : runs go_funs (SIf (EBin Or (EBin Eq (EVar "w") (EInt 0)) (EBin Eq (EVar "i") (EVar "v")))
                                   SContinue SSkip) pre (ONormal pre)).
      { eapply runs_if_false; [exact Econd|apply runs_skip]. }
      assert (R1 : runs go_funs (SCall "lvlI" "abs" [EIdx (EFld (EVar "s") 8) (EVar "i")]) pre (ONormal st1)).
      { assert (Ea : eval pre (EIdx (EFld (EVar "s") 8) (EVar "i")) = EV (VInt (nth i model 0))).
        { rewrite (eval_idx_sl pre _ _ sm i); [unfold pre; cbn [hp]; rewrite Hrm; reflexivity| | |lia].
          - eapply eval_fld; [apply eval_var; unfold pre; cbn [locals]; lk; exact L2|exact Hfm].
          - unfold pre. ev. reflexivity. }
        eapply runs_call_run; [apply eval_list_one; exact Ea|]. apply abs_run. }
      assert (Ec2 : eval st1 (EBin And (EBin Gt (EVar "lvlI") (EVar "maxLvl")) (EBin Ne (EVar "lvlI") (EVar "lvl"))) =
                    EV (VBool ((m <? li) && negb (li =? lvl)))).
      { unfold st1, pre. ev. destruct (m <? li); cbn [andb]; [|reflexivity]. ev. reflexivity. }
      destruct ((m <? li) && negb (li =? lvl)) eqn:Eb.
      * eexists (ONormal _), _. split; [|split; [apply goes_on_normal|]].
        -- unfold bt_body. eapply runs_seq; [exact R0|]. eapply runs_seq; [exact R1|].
           eapply runs_if_true; [exact Ec2|]. apply runs_set. unfold st1, pre. ev. reflexivity.
        -- unfold I, set_local, st1, pre. cbn [locals hp]. lk.
           refine (conj L1 (conj L2 (conj L3 (conj L4 (conj eq_refl _))))). exists li. split; [reflexivity|exact Hm].
      * exists (ONormal st1), st1. split; [|split; [apply goes_on_normal|]].
        -- unfold bt_body. eapply runs_seq; [exact R0|]. eapply runs_seq; [exact R1|].
           eapply runs_if_false; [exact Ec2|apply runs_skip].
        -- unfold I, st1, pre. cbn [locals hp]. lk.
           refine (conj L1 (conj L2 (conj L3 (conj L4 (conj eq_refl _))))). exists m. split; [exact L5|exact Hm].
  - cbn [locals hp] in *. subst h'.
    rewrite Hlen, (skipn_all ws) in Hm. cbn [backtrack_ws] in Hm. subst m.
    eapply runs_seq; [exact Hrun|].
    apply (runs_return go_funs (EVar "maxLvl") (St loc' h)). apply eval_var. exact L5.
Qed.

(* ================================================================== final forms

   [returns g args h v h']: with enough fuel (and then with any larger amount) the call of [g] on [args] in heap [h]
   returns [v] and leaves the heap [h'];  [panics g args h]: it panics. *)

Definition returns (g : string) (args : list val) (h : heap) (v : val) (h' : heap) : Prop :=
  exists fuel, forall fuel', (fuel <= fuel')%nat -> run go_funs fuel' g args h = OReturn v h'.

Definition panics (g : string) (args : list val) (h : heap) : Prop :=
  exists fuel, forall fuel', (fuel <= fuel')%nat -> run go_funs fuel' g args h = OPanic.

Lemma returns_intro : forall g args h v h', run_to go_funs g args h (OReturn v h') -> returns g args h v h'.
Proof. intros g args h v h' H. exact (run_to_ge _ _ _ _ _ H). Qed.

Lemma panics_intro : forall g args h, run_to go_funs g args h OPanic -> panics g args h.
Proof. intros g args h H. exact (run_to_ge _ _ _ _ _ H). Qed.

Lemma returns_not_panics : forall g args h v h', returns g args h v h' -> ~ panics g args h.
Proof.
  intros g args h v h' (f1 & H1) (f2 & H2).
  specialize (H1 (Nat.max f1 f2) (Nat.le_max_l _ _)). specialize (H2 (Nat.max f1 f2) (Nat.le_max_r _ _)).
  congruence.
Qed.

Theorem abs_final : forall a h, returns "abs" [VInt a] h (VInt (Z.abs a)) h.
Proof. intros a h. apply returns_intro, abs_run. Qed.

Theorem min_final : forall a b h, returns "min" [VInt a; VInt b] h (VInt (Z.min a b)) h.
Proof. intros a b h. apply returns_intro, min_run. Qed.

Theorem Lit_Var_final : forall l h, returns "Lit.Var" [VInt l] h (VInt (Z.quot l 2)) h.
Proof. intros l h. apply returns_intro, Lit_Var_run. Qed.

Theorem Lit_IsPositive_final : forall l h, returns "Lit.IsPositive" [VInt l] h (VBool (Z.rem l 2 =? 0)) h.
Proof. intros l h. apply returns_intro, Lit_IsPositive_run. Qed.

(* on the encoding of a DIMACS literal [i <> 0]: the 0-based variable and the sign *)
Theorem Lit_Var_IntToLit_final : forall i h, i <> 0 ->
  returns "Lit.Var" [VInt (go_IntToLit i)] h (VInt (Z.abs i - 1)) h.
Proof. intros i h Hi. rewrite <- (quot_IntToLit i Hi). apply Lit_Var_final. Qed.

Theorem Lit_IsPositive_IntToLit_final : forall i h, i <> 0 ->
  returns "Lit.IsPositive" [VInt (go_IntToLit i)] h (VBool (0 <? i)) h.
Proof. intros i h Hi. rewrite <- (rem_IntToLit i Hi). apply Lit_IsPositive_final. Qed.

Theorem divideBy_final : forall h sw sc ws card c, c <> 0 -> pbset_at h sw sc (ws, card) ->
  exists h', returns "pbSet.divideBy" [pbset_val sw sc; VInt c] h (VInt 0) h' /\
    only_wins [sw; sc] h h' /\ pbset_at h' sw sc (divide_by c (ws, card)).
Proof.
  intros h sw sc ws card c Hc Hrep. destruct (divideBy_run h sw sc ws card c Hc Hrep) as (h' & R & F & P).
  exists h'. split; [apply returns_intro; exact R|split; assumption].
Qed.

Theorem divideBy_zero_final : forall h sw sc ws card, pbset_at h sw sc (ws, card) ->
  panics "pbSet.divideBy" [pbset_val sw sc; VInt 0] h.
Proof. intros h sw sc ws card Hrep. apply panics_intro. eapply divideBy_zero_panics. exact Hrep. Qed.

Theorem clash_final : forall h sw1 sc1 sw2 sc2 ws1 c1 ws2 c2 vs,
  pbset_at h sw1 sc1 (ws1, c1) -> pbset_at h sw2 sc2 (ws2, c2) ->
  s_arr sw1 <> s_arr sw2 -> s_arr sw1 <> s_arr sc2 -> s_arr sc1 <> s_arr sw2 -> s_arr sc1 <> s_arr sc2 ->
  (length ws1 <= length ws2)%nat ->
  exists h', returns "pbSet.clash" [pbset_val sw1 sc1; vs; pbset_val sw2 sc2] h (VInt 0) h' /\
    only_wins [sw1; sc1] h h' /\
    pbset_at h' sw1 sc1 (clash (ws1, c1) (ws2, c2)) /\ pbset_at h' sw2 sc2 (ws2, c2).
Proof.
  intros h sw1 sc1 sw2 sc2 ws1 c1 ws2 c2 vs H1 H2 D1 D2 D3 D4 Hle.
  destruct (clash_run h sw1 sc1 sw2 sc2 ws1 c1 ws2 c2 vs H1 H2 D1 D2 D3 D4 Hle) as (h' & R & F & P1 & P2).
  exists h'. split; [apply returns_intro; exact R|]. exact (conj F (conj P1 P2)).
Qed.

Theorem clash_short_final : forall h sw1 sc1 sw2 sc2 ws1 c1 ws2 c2 vs,
  pbset_at h sw1 sc1 (ws1, c1) -> pbset_at h sw2 sc2 (ws2, c2) ->
  s_arr sw1 <> s_arr sw2 -> s_arr sw1 <> s_arr sc2 -> s_arr sc1 <> s_arr sw2 -> s_arr sc1 <> s_arr sc2 ->
  (length ws2 < length ws1)%nat ->
  panics "pbSet.clash" [pbset_val sw1 sc1; vs; pbset_val sw2 sc2] h.
Proof. intros. apply panics_intro. eapply clash_short_panics; eassumption. Qed.

Theorem falsifies_final : forall h sw sc ws card l, pbset_at h sw sc (ws, card) ->
  l <> 0 -> Z.abs l <= Z.of_nat (length ws) ->
  returns "pbSet.falsifies" [pbset_val sw sc; VInt (go_IntToLit l)] h (VBool (falsifies (ws, card) l)) h.
Proof. intros. apply returns_intro. apply falsifies_run; assumption. Qed.

Theorem falsifies_lit_final : forall h sw sc ws card lit, pbset_at h sw sc (ws, card) ->
  0 <= lit -> Z.quot lit 2 < Z.of_nat (length ws) ->
  returns "pbSet.falsifies" [pbset_val sw sc; VInt lit] h (VBool (falsifies (ws, card) (go_Lit_Int lit))) h.
Proof. intros. apply returns_intro. apply falsifies_run_lit; assumption. Qed.

Theorem falsifies_out_of_range_final_observation : forall h sw sc ws card l, pbset_at h sw sc (ws, card) ->
  l <> 0 -> Z.of_nat (length ws) < Z.abs l ->
  panics "pbSet.falsifies" [pbset_val sw sc; VInt (go_IntToLit l)] h /\ falsifies (ws, card) l = false.
Proof.
  intros h sw sc ws card l Hrep Hl Ho.
  destruct (falsifies_out_of_range_observation h sw sc ws card l Hrep Hl Ho) as (R & E).
  split; [apply panics_intro; exact R|exact E].
Qed.

Theorem roundToOne_final : forall h sw sc ws card vs sm strail model trail locked lvl s',
  pbset_at h sw sc (ws, card) -> solver_at h vs sm strail model trail ->
  s_arr sm <> s_arr sw -> s_arr sm <> s_arr sc ->
  (forall j, (j < length ws)%nat -> nth j ws 0 <> 0 -> (j < length model)%nat) ->
  round_to_one model locked (ws, card) = Some s' ->
  exists h', returns "pbSet.roundToOne" [pbset_val sw sc; vs; VInt (Z.of_nat locked); VInt lvl] h (VInt 0) h' /\
    only_wins [sw; sc] h h' /\ pbset_at h' sw sc s'.
Proof.
  intros h sw sc ws card vs sm strail model trail locked lvl s' H1 H2 D1 D2 Hm Hr.
  destruct (roundToOne_run h sw sc ws card vs sm strail model trail locked lvl s' H1 H2 D1 D2 Hm Hr)
    as (h' & R & F & P).
  exists h'. split; [apply returns_intro; exact R|split; assumption].
Qed.

Theorem roundToOne_none_final : forall h sw sc ws card vs sm strail model trail locked lvl,
  pbset_at h sw sc (ws, card) -> solver_at h vs sm strail model trail ->
  round_to_one model locked (ws, card) = None ->
  panics "pbSet.roundToOne" [pbset_val sw sc; vs; VInt (Z.of_nat locked); VInt lvl] h.
Proof. intros. apply panics_intro. eapply roundToOne_none_panics; eassumption. Qed.

Theorem backtrackLevel_final : forall h sw sc ws card vs sm strail model trail lit,
  pbset_at h sw sc (ws, card) -> solver_at h vs sm strail model trail ->
  0 <= lit ->
  (Z.to_nat (Z.quot lit 2) < length model)%nat ->
  (forall i, (i < length ws)%nat -> nth i ws 0 <> 0 -> i <> Z.to_nat (Z.quot lit 2) -> (i < length model)%nat) ->
  returns "pbSet.backtrackLevel" [pbset_val sw sc; vs; VInt lit] h
    (VInt (backtrack_level model (Z.to_nat (Z.quot lit 2)) (ws, card))) h.
Proof. intros. apply returns_intro. eapply backtrackLevel_run; eassumption. Qed.

(* ---- composed with the soundness of the rules (Proofs/CP.v) *)

Theorem clash_src_sound : forall h sw1 sc1 sw2 sc2 a b vs,
  pbset_at h sw1 sc1 a -> pbset_at h sw2 sc2 b ->
  s_arr sw1 <> s_arr sw2 -> s_arr sw1 <> s_arr sc2 -> s_arr sc1 <> s_arr sw2 -> s_arr sc1 <> s_arr sc2 ->
  length (fst a) = length (fst b) ->
  exists h' s', returns "pbSet.clash" [pbset_val sw1 sc1; vs; pbset_val sw2 sc2] h (VInt 0) h' /\
    pbset_at h' sw1 sc1 s' /\ pbset_at h' sw2 sc2 b /\ only_wins [sw1; sc1] h h' /\
    forall m, sat_pbset m a = true -> sat_pbset m b = true -> sat_pbset m s' = true.
Proof.
  intros h sw1 sc1 sw2 sc2 [ws1 c1] [ws2 c2] vs H1 H2 D1 D2 D3 D4 Hlen. cbn [fst] in Hlen.
  destruct (clash_final h sw1 sc1 sw2 sc2 ws1 c1 ws2 c2 vs H1 H2 D1 D2 D3 D4 ltac:(lia)) as (h' & R & F & P1 & P2).
  exists h', (clash (ws1, c1) (ws2, c2)). refine (conj R (conj P1 (conj P2 (conj F _)))).
  intros m Ha Hb. apply clash_sound; [cbn [fst]; lia|exact Ha|exact Hb].
Qed.

Theorem divideBy_src_sound : forall h sw sc s c,
  pbset_at h sw sc s -> 0 < c -> ~ (- c < snd s < 0) ->
  exists h' s', returns "pbSet.divideBy" [pbset_val sw sc; VInt c] h (VInt 0) h' /\
    pbset_at h' sw sc s' /\ only_wins [sw; sc] h h' /\
    forall m, sat_pbset m s = true -> sat_pbset m s' = true.
Proof.
  intros h sw sc [ws card] c Hrep Hc Hok.
  destruct (divideBy_final h sw sc ws card c ltac:(lia) Hrep) as (h' & R & F & P).
  exists h', (divide_by c (ws, card)). refine (conj R (conj P (conj F _))).
  intros m Hs. apply divide_sound; assumption.
Qed.

Theorem roundToOne_src_sound : forall h sw sc s vs sm strail model trail locked lvl s',
  pbset_at h sw sc s -> solver_at h vs sm strail model trail ->
  s_arr sm <> s_arr sw -> s_arr sm <> s_arr sc ->
  (forall j, (j < length (fst s))%nat -> nth j (fst s) 0 <> 0 -> (j < length model)%nat) ->
  round_to_one model locked s = Some s' -> round_ok model locked s ->
  exists h', returns "pbSet.roundToOne" [pbset_val sw sc; vs; VInt (Z.of_nat locked); VInt lvl] h (VInt 0) h' /\
    pbset_at h' sw sc s' /\ only_wins [sw; sc] h h' /\
    forall m, sat_pbset m s = true -> sat_pbset m s' = true.
Proof.
  intros h sw sc [ws card] vs sm strail model trail locked lvl s' H1 H2 D1 D2 Hm Hr Hok. cbn [fst] in Hm.
  destruct (roundToOne_final h sw sc ws card vs sm strail model trail locked lvl s' H1 H2 D1 D2 Hm Hr)
    as (h' & R & F & P).
  exists h'. refine (conj R (conj P (conj F _))).
  intros m Hs. eapply round_sound; eassumption.
Qed.

(* ================================================================== corners where the source panics and the model answers *)

Lemma first_such : forall (P : nat -> Prop), (forall j, {P j} + {~ P j}) -> forall n,
  (forall i, (i < n)%nat -> ~ P i) \/ (exists j, (j < n)%nat /\ P j /\ forall i, (i < j)%nat -> ~ P i).
Proof.
  intros P dec n. induction n as [|n IH].
  - left. intros i Hi. lia.
  - destruct IH as [Hnone|(j & Hj & HP & Hb)].
    + destruct (dec n) as [Hn|Hn].
      * right. exists n. split; [lia|]. split; [exact Hn|]. intros i Hi. apply Hnone. exact Hi.
      * left. intros i Hi. destruct (Nat.eq_dec i n) as [->|Hne]; [exact Hn|apply Hnone; lia].
    + right. exists j. split; [lia|]. split; assumption.
Qed.

(* roundToOne: a variable present in the constraint has no cell in s.model: [s.model[j]] is out of range,
   while [round_to_one] (which reads a missing assignment as 0) answers Some *)
Theorem roundToOne_short_model_observation : forall h sw sc ws card vs sm strail model trail locked lvl,
  pbset_at h sw sc (ws, card) -> solver_at h vs sm strail model trail ->
  s_arr sm <> s_arr sw -> s_arr sm <> s_arr sc ->
  Z.abs (nth locked ws 0) <> 0 -> Z.abs (nth locked ws 0) <> 1 ->
  (exists j, (j < length ws)%nat /\ nth j ws 0 <> 0 /\ (length model <= j)%nat) ->
  run_to go_funs "pbSet.roundToOne" [pbset_val sw sc; vs; VInt (Z.of_nat locked); VInt lvl] h OPanic /\
  round_to_one model locked (ws, card) <> None.
Proof.
  intros h sw sc ws card vs sm strail model trail locked lvl Hrep Hsol Dmw Dmc Hwi0 Hwi1 Hex.
  pose proof (pbset_at_len _ _ _ _ Hrep) as Hlen. cbn [fst] in Hlen.
  set (wi := Z.abs (nth locked ws 0)) in *.
  assert (E1 : (wi =? 1) = false) by (apply Z.eqb_neq; exact Hwi1).
  assert (E0 : (wi =? 0) = false) by (apply Z.eqb_neq; exact Hwi0).
  split; [|unfold round_to_one; cbn [fst]; fold wi; rewrite E1, E0; discriminate].
  destruct (Nat.lt_ge_cases locked (length ws)) as [Hl|Hl];
    [|exfalso; apply Hwi0; unfold wi; rewrite nth_overflow by exact Hl; reflexivity].
  pose proof (round_callwi_run h sw sc ws card vs locked lvl Hrep Hl) as Rwi. cbv zeta in Rwi. fold wi in Rwi.
  set (st1 := St (upd "wi" (VInt wi)
     [("pb", pbset_val sw sc); ("s", vs); ("locked", VInt (Z.of_nat locked)); ("lvl", VInt lvl)]) h) in *.
  set (P := fun j : nat => nth j ws 0 <> 0 /\ (length model <= j)%nat).
  assert (Pdec : forall j, {P j} + {~ P j}).
  { intros j. unfold P. destruct (Z.eq_dec (nth j ws 0) 0) as [E|E]; [right; tauto|].
    destruct (le_lt_dec (length model) j) as [L|L]; [left; tauto|right; lia]. }
  destruct (first_such P Pdec (length ws)) as [Hnone|(j & Hj & (Hnz & Hjm) & Hb)].
  { exfalso. destruct Hex as (j & Hj & Hnz & Hjm). apply (Hnone j Hj). split; assumption. }
  eapply run_to_intro; [reflexivity|reflexivity|]. rewrite src_roundToOne_shape.
  apply runs_seq_abrupt; [|exact Logic.I]. eapply runs_seq; [exact Rwi|].
  eapply runs_seq; [unfold round_ifone; eapply runs_if_false; [ev; rewrite E1; reflexivity|apply runs_skip]|].
  apply runs_seq_abrupt; [|exact Logic.I].
  apply (runs_range_inv_abrupt go_funs "j" "wj" (EFld (EVar "pb") 0) round_body st1 sw
           (round_inv h sw sc vs ws card wi model) j OPanic).
  - reflexivity.
  - unfold round_inv, st1. cbn [locals hp firstn skipn weaken_ws fst snd app]. lk.
    pose proof Hrep as (Hokw & Hokc & Hne & Hlc & Hrw & Hrc). cbn [fst snd] in *.
    refine (conj eq_refl (conj eq_refl (conj eq_refl (conj (only_wins_refl _ _) (conj Hrw _))))).
    rewrite Hrc. f_equal. lia.
  - intros j0 stj Hj0 HIj. eapply round_turn; try eassumption; try lia.
    intros Hnz0. destruct (Nat.lt_ge_cases j0 (length model)) as [L|L]; [exact L|].
    exfalso. apply (Hb j0 Hj0). split; assumption.
  - intros stj HIj. rewrite (round_pre _ _ _ _ _ _ _ _ _ _ Hj Hlen HIj).
    destruct stj as [locj hpj]. destruct HIj as (L1 & L2 & L3 & Hfr & _). cbn [locals hp] in *.
    destruct Hsol as (fs & -> & Hnf & Hfm & Hft & Hokm & Hrm & Hokt & Hrt).
    unfold fld_Solver_model in Hfm.
    assert (Hlm : s_len sm = length model) by (rewrite <- Hrm; symmetry; apply length_sl_read; exact Hokm).
    assert (Ew : (nth j ws 0 =? 0) = false) by (apply Z.eqb_neq; exact Hnz).
    unfold round_body.
    eapply runs_seq; [eapply runs_if_false; [ev; rewrite Ew; reflexivity|apply runs_skip]|].
    apply runs_seq_abrupt; [|exact Logic.I]. apply runs_set_panic.
    set (pre := St (upd "wj" (VInt (nth j ws 0)) (upd "j" (VInt (Z.of_nat j)) locj)) hpj).
    apply (eval_idx_oob pre _ _ sm (Z.of_nat j)); [|unfold pre; ev; reflexivity|lia].
    eapply eval_fld; [apply eval_var; unfold pre; cbn [locals]; lk; exact L2|exact Hfm].
  - exact Logic.I.
  - lia.
Qed.

(* backtrackLevel: the variable of the falsified literal has no cell in s.model: the Go code panics
   ([s.model[v]] out of range), the model reads the missing level as 0 *)
Theorem backtrackLevel_out_of_range_observation : forall h sw sc ws card vs sm strail model trail lit,
  pbset_at h sw sc (ws, card) -> solver_at h vs sm strail model trail ->
  0 <= lit -> (length model <= Z.to_nat (Z.quot lit 2))%nat ->
  run_to go_funs "pbSet.backtrackLevel" [pbset_val sw sc; vs; VInt lit] h OPanic /\
  backtrack_level model (Z.to_nat (Z.quot lit 2)) (ws, card) =
  backtrack_ws 0 (Z.to_nat (Z.quot lit 2)) 0 model ws 1.
Proof.
  intros h sw sc ws card vs sm strail model trail lit Hrep Hsol Hlit Hv.
  split; [|unfold backtrack_level; rewrite nth_overflow by exact Hv; reflexivity].
  destruct Hsol as (fs & -> & Hnf & Hfm & Hft & Hokm & Hrm & Hokt & Hrt).
  unfold fld_Solver_model in Hfm.
  assert (Hlm : s_len sm = length model) by (rewrite <- Hrm; symmetry; apply length_sl_read; exact Hokm).
  assert (Hq : 0 <= Z.quot lit 2) by (apply Z.quot_pos; lia).
  eapply run_to_intro; [reflexivity|reflexivity|]. rewrite src_backtrackLevel_shape.
  eapply runs_seq.
  { eapply runs_call_run; [reflexivity|apply Lit_Var_run]. }
  cbn [locals hp upd String.eqb Ascii.eqb Bool.eqb].
  apply runs_seq_abrupt; [|exact Logic.I].
  eapply runs_call_arg_panic; [reflexivity|]. cbn [eval_list].
  rewrite (eval_idx_oob _ _ _ sm (Z.quot lit 2)); [reflexivity| |reflexivity|lia].
  eapply eval_fld; [reflexivity|exact Hfm].
Qed.

(* ================================================================== pbSet.onlyFalsified

   Model/CP.v has no model of this function; here is one, on the internal encoding of the literals of the trail:
   walk the trail from [ptr] down; stop at the first literal whose level is not [lvl]; the answer is the only
   literal met whose negation is in the constraint, -1 when there is none or more than one. *)

Fixpoint only_falsified_from (s : pbset) (model trail : list Z) (lvl : Z) (n : nat) (res : Z) : Z :=
  match n with
  | O => res
  | S k =>
    let lit := nth k trail 0 in
    if negb (Z.abs (nth (Z.to_nat (Z.quot lit 2)) model 0) =? lvl) then res
    else if falsifies s (go_Lit_Int lit)
         then (if negb (res =? -1) then -1 else only_falsified_from s model trail lvl k lit)
         else only_falsified_from s model trail lvl k res
  end.

Definition only_falsified (s : pbset) (model trail : list Z) (ptr lvl : Z) : Z :=
  only_falsified_from s model trail lvl (Z.to_nat (ptr + 1)) (-1).

Definition of_body : stmt :=
  Eval cbv in match f_body src_pbSet_onlyFalsified with
              | SSeq _ (SSeq (SSeq _ (SFor _ _ b)) _) => b | _ => SSkip end.

Definition of_cond : expr := EBin Ge (EVar "ptr") (EInt 0).

Lemma src_onlyFalsified_shape : f_body src_pbSet_onlyFalsified =
  SSeq (SSet "res" (EInt (-1)))
    (SSeq (SSeq SSkip (SFor of_cond SSkip of_body)) (SReturn (EVar "res"))).
Proof. reflexivity. Qed.

Lemma onlyFalsified_loop : forall h sw sc ws card fs sm strail model trail lvl,
  pbset_at h sw sc (ws, card) -> solver_at h (VStruct fs) sm strail model trail ->
  forall n, (n <= length trail)%nat ->
  (forall k, (k < n)%nat -> 0 <= nth k trail 0 /\
     (Z.to_nat (Z.quot (nth k trail 0%Z) 2) < length model)%nat /\
     (Z.to_nat (Z.quot (nth k trail 0%Z) 2) < length ws)%nat) ->
  forall res st,
  lookup "pb" (locals st) = Some (pbset_val sw sc) -> lookup "s" (locals st) = Some (VStruct fs) ->
  lookup "lvl" (locals st) = Some (VInt lvl) -> lookup "ptr" (locals st) = Some (VInt (Z.of_nat n - 1)) ->
  lookup "res" (locals st) = Some (VInt res) -> hp st = h ->
  exists o, runs go_funs (SFor of_cond SSkip of_body) st o /\
    (o = OReturn (VInt (only_falsified_from (ws, card) model trail lvl n res)) h \/
     exists st', o = ONormal st' /\ hp st' = h /\
       lookup "res" (locals st') = Some (VInt (only_falsified_from (ws, card) model trail lvl n res))).
Proof.
  intros h sw sc ws card fs sm strail model trail lvl Hrep Hsol.
  pose proof Hsol as (fs' & Efs & Hnf & Hfm & Hft & Hokm & Hrm & Hokt & Hrt).
  inversion Efs. subst fs'. clear Efs.
  unfold fld_Solver_model in Hfm. unfold fld_Solver_trail in Hft.
  assert (Hlm : s_len sm = length model) by (rewrite <- Hrm; symmetry; apply length_sl_read; exact Hokm).
  assert (Hlt : s_len strail = length trail) by (rewrite <- Hrt; symmetry; apply length_sl_read; exact Hokt).
  induction n as [|k IH]; intros Hn Hb res [loc0 hp0] Lpb Ls Llvl Lptr Lres Hh; cbn [locals hp] in *; subst hp0.
  - exists (ONormal (St loc0 h)). split.
    + apply runs_for_false. unfold of_cond. ev. reflexivity.
    + right. exists (St loc0 h). cbn [only_falsified_from locals hp]. auto.
  - replace (Z.of_nat (S k) - 1) with (Z.of_nat k) in Lptr by lia.
    destruct (Hb k ltac:(lia)) as (Hlit & Hvm & Hvw).
    cbn [only_falsified_from]. set (lit := nth k trail 0) in *. set (v := Z.to_nat (Z.quot lit 2)) in *.
    assert (Hvz : Z.quot lit 2 = Z.of_nat v) by (unfold v; rewrite Z2Nat.id; [reflexivity|apply Z.quot_pos; lia]).
    set (st := St loc0 h).
    assert (Hc : eval st of_cond = EV (VBool true)).
    { unfold st, of_cond. ev. f_equal. f_equal. lia. }
    set (st1 := St (upd "lit" (VInt lit) loc0) h).
    assert (R1 : runs go_funs (SSet "lit" (EIdx (EFld (EVar "s") 7) (EVar "ptr"))) st (ONormal st1)).
    { apply runs_set. rewrite (eval_idx_sl st _ _ strail k); [unfold st; cbn [hp]; rewrite Hrt; reflexivity| | |lia].
      - eapply eval_fld; [apply eval_var; exact Ls|exact Hft].
      - apply eval_var. exact Lptr. }
    set (st2 := St (upd "$1" (VInt (Z.of_nat v)) (locals st1)) h).
    assert (R2 : runs go_funs (SCall "$1" "Lit.Var" [EVar "lit"]) st1 (ONormal st2)).
    { unfold st2. rewrite <- Hvz. eapply runs_call_run; [|apply Lit_Var_run]. unfold st1. ev. reflexivity. }
    set (lv := Z.abs (nth v model 0)).
    set (st3 := St (upd "$2" (VInt lv) (locals st2)) h).
    assert (R3 : runs go_funs (SCall "$2" "abs" [EIdx (EFld (EVar "s") 8) (EVar "$1")]) st2 (ONormal st3)).
    { assert (Ea : eval st2 (EIdx (EFld (EVar "s") 8) (EVar "$1")) = EV (VInt (nth v model 0))).
      { rewrite (eval_idx_sl st2 _ _ sm v); [unfold st2; cbn [hp]; rewrite Hrm; reflexivity| | |lia].
        - eapply eval_fld; [apply eval_var; unfold st2, st1; cbn [locals]; lk; exact Ls|exact Hfm].
        - unfold st2, st1. ev. reflexivity. }
      eapply runs_call_run; [apply eval_list_one; exact Ea|]. apply abs_run. }
    assert (E4 : eval st3 (EBin Ne (EVar "$2") (EVar "lvl")) = EV (VBool (negb (lv =? lvl)))).
    { unfold st3, st2, st1. ev. reflexivity. }
    destruct (negb (lv =? lvl)) eqn:Elv.
    + (* out of the level: return res *)
      exists (OReturn (VInt res) h). split; [|left; reflexivity].
      apply runs_for_body_abrupt; [exact Hc| |exact Logic.I].
      unfold of_body. eapply runs_seq; [exact R1|]. apply runs_seq_abrupt; [|exact Logic.I].
      eapply runs_seq; [exact R2|]. eapply runs_seq; [exact R3|].
      eapply runs_if_true; [exact E4|].
      apply (runs_return go_funs (EVar "res") st3). apply eval_var. unfold st3, st2, st1. cbn [locals]. lk. exact Lres.
    + set (b := falsifies (ws, card) (go_Lit_Int lit)).
      set (st4 := St (upd "$3" (VBool b) (locals st3)) h).
      assert (R4 : runs go_funs (SSeq (SCall "$1" "Lit.Var" [EVar "lit"])
                     (SSeq (SCall "$2" "abs" [EIdx (EFld (EVar "s") 8) (EVar "$1")])
                        (SIf (EBin Ne (EVar "$2") (EVar "lvl")) (SReturn (EVar "res")) SSkip))) st1 (ONormal st3)).
      { eapply runs_seq; [exact R2|]. eapply runs_seq; [exact R3|].
        eapply runs_if_false; [exact E4|apply runs_skip]. }
      assert (R5 : runs go_funs (SCall "$3" "pbSet.falsifies" [EVar "pb"; EVar "lit"]) st3 (ONormal st4)).
      { eapply runs_call_run; [|apply (falsifies_run_lit h sw sc ws card lit Hrep Hlit); lia].
        unfold st3, st2, st1. ev. reflexivity. }
      assert (E6 : eval st4 (EVar "$3") = EV (VBool b)) by (unfold st4; ev; reflexivity).
      assert (Hptr : forall loc, lookup "ptr" loc = Some (VInt (Z.of_nat k)) ->
                runs go_funs (SSet "ptr" (EBin Sub (EVar "ptr") (EInt 1))) (St loc h)
                  (ONormal (St (upd "ptr" (VInt (Z.of_nat k - 1)) loc) h))).
      { intros loc L. apply runs_set. ev. reflexivity. }
      destruct b eqn:Eb.
      * destruct (negb (res =? -1)) eqn:Eres.
        -- (* a second falsified literal: return -1 *)
           exists (OReturn (VInt (-1)) h). split; [|left; reflexivity].
           apply runs_for_body_abrupt; [exact Hc| |exact Logic.I].
           unfold of_body. eapply runs_seq; [exact R1|]. eapply runs_seq; [exact R4|].
           apply runs_seq_abrupt; [|exact Logic.I]. eapply runs_seq; [exact R5|].
           eapply runs_if_true; [exact E6|]. apply runs_seq_abrupt; [|exact Logic.I].
           eapply runs_if_true; [unfold st4, st3, st2, st1; ev; rewrite Eres; reflexivity|].
           apply (runs_exec go_funs 1); [reflexivity|discriminate].
        -- set (st5 := St (upd "res" (VInt lit) (locals st4)) h).
           set (st6 := St (upd "ptr" (VInt (Z.of_nat k - 1)) (locals st5)) h).
           destruct (IH ltac:(lia) ltac:(intros k0 Hk0; apply Hb; lia) lit st6) as (o & Ro & Ho);
             try (unfold st6, st5, st4, st3, st2, st1; cbn [locals hp]; lk; first [assumption|reflexivity]).
           exists o. split; [|exact Ho].
           eapply runs_for_true; [exact Hc| |apply runs_skip|exact Ro].
           unfold of_body. eapply runs_seq; [exact R1|]. eapply runs_seq; [exact R4|].
           eapply runs_seq; [|apply Hptr; unfold st5, st4, st3, st2, st1; cbn [locals]; lk; exact Lptr].
           eapply runs_seq; [exact R5|]. eapply runs_if_true; [exact E6|].
           eapply runs_seq; [eapply runs_if_false;
             [unfold st4, st3, st2, st1; ev; rewrite Eres; reflexivity|apply runs_skip]|].
           apply runs_set. unfold st4, st3, st2, st1. ev. reflexivity.
      * set (st6 := St (upd "ptr" (VInt (Z.of_nat k - 1)) (locals st4)) h).
        destruct (IH ltac:(lia) ltac:(intros k0 Hk0; apply Hb; lia) res st6) as (o & Ro & Ho);
          try (unfold st6, st4, st3, st2, st1; cbn [locals hp]; lk; first [assumption|reflexivity]).
        exists o. split; [|exact Ho].
        eapply runs_for_true; [exact Hc| |apply runs_skip|exact Ro].
        unfold of_body. eapply runs_seq; [exact R1|]. eapply runs_seq; [exact R4|].
        eapply runs_seq; [|apply Hptr; unfold st4, st3, st2, st1; cbn [locals]; lk; exact Lptr].
        eapply runs_seq; [exact R5|]. eapply runs_if_false; [exact E6|apply runs_skip].
Qed.

Theorem onlyFalsified_run : forall h sw sc ws card vs sm strail model trail ptr lvl,
  pbset_at h sw sc (ws, card) -> solver_at h vs sm strail model trail ->
  -1 <= ptr < Z.of_nat (length trail) ->
  (forall k, (Z.of_nat k <= ptr) -> 0 <= nth k trail 0 /\
     (Z.to_nat (Z.quot (nth k trail 0%Z) 2) < length model)%nat /\
     (Z.to_nat (Z.quot (nth k trail 0%Z) 2) < length ws)%nat) ->
  run_to go_funs "pbSet.onlyFalsified" [pbset_val sw sc; vs; VInt ptr; VInt lvl] h
    (OReturn (VInt (only_falsified (ws, card) model trail ptr lvl)) h).
Proof.
  intros h sw sc ws card vs sm strail model trail ptr lvl Hrep Hsol Hptr Hb.
  pose proof Hsol as (fs & -> & _).
  eapply run_to_intro; [reflexivity|reflexivity|]. rewrite src_onlyFalsified_shape.
  eapply runs_seq; [apply runs_set; reflexivity|].
  unfold set_local. cbn [locals hp upd String.eqb Ascii.eqb Bool.eqb].
  set (st := St [("pb", pbset_val sw sc); ("s", VStruct fs); ("ptr", VInt ptr); ("lvl", VInt lvl);
                 ("res", VInt (-1))] h).
  destruct (onlyFalsified_loop h sw sc ws card fs sm strail model trail lvl Hrep Hsol (Z.to_nat (ptr + 1))
              ltac:(lia) ltac:(intros k Hk; apply Hb; lia) (-1) st) as (o & Ro & Ho);
    try reflexivity.
  { unfold st. cbn [locals lookup String.eqb Ascii.eqb Bool.eqb]. do 2 f_equal. lia. }
  unfold only_falsified. destruct Ho as [->|(st' & -> & Hh & Lres)].
  - apply runs_seq_abrupt; [|exact Logic.I]. eapply runs_seq; [apply runs_skip|exact Ro].
  - eapply runs_seq; [eapply runs_seq; [apply runs_skip|exact Ro]|].
    rewrite <- Hh. apply (runs_return go_funs (EVar "res") st'). apply eval_var. exact Lres.
Qed.

(* ---- final forms of the corners and of onlyFalsified *)

Theorem roundToOne_short_model_final_observation :
  forall h sw sc ws card vs sm strail model trail locked lvl,
  pbset_at h sw sc (ws, card) -> solver_at h vs sm strail model trail ->
  s_arr sm <> s_arr sw -> s_arr sm <> s_arr sc ->
  Z.abs (nth locked ws 0) <> 0 -> Z.abs (nth locked ws 0) <> 1 ->
  (exists j, (j < length ws)%nat /\ nth j ws 0 <> 0 /\ (length model <= j)%nat) ->
  panics "pbSet.roundToOne" [pbset_val sw sc; vs; VInt (Z.of_nat locked); VInt lvl] h /\
  round_to_one model locked (ws, card) <> None.
Proof.
  intros h sw sc ws card vs sm strail model trail locked lvl H1 H2 D1 D2 W0 W1 Hex.
  destruct (roundToOne_short_model_observation h sw sc ws card vs sm strail model trail locked lvl
              H1 H2 D1 D2 W0 W1 Hex) as (R & E).
  split; [apply panics_intro; exact R|exact E].
Qed.

Theorem backtrackLevel_out_of_range_final_observation : forall h sw sc ws card vs sm strail model trail lit,
  pbset_at h sw sc (ws, card) -> solver_at h vs sm strail model trail ->
  0 <= lit -> (length model <= Z.to_nat (Z.quot lit 2))%nat ->
  panics "pbSet.backtrackLevel" [pbset_val sw sc; vs; VInt lit] h /\
  backtrack_level model (Z.to_nat (Z.quot lit 2)) (ws, card) =
  backtrack_ws 0 (Z.to_nat (Z.quot lit 2)) 0 model ws 1.
Proof.
  intros h sw sc ws card vs sm strail model trail lit H1 H2 Hl Hv.
  destruct (backtrackLevel_out_of_range_observation h sw sc ws card vs sm strail model trail lit H1 H2 Hl Hv)
    as (R & E).
  split; [apply panics_intro; exact R|exact E].
Qed.

Theorem onlyFalsified_final : forall h sw sc ws card vs sm strail model trail ptr lvl,
  pbset_at h sw sc (ws, card) -> solver_at h vs sm strail model trail ->
  -1 <= ptr < Z.of_nat (length trail) ->
  (forall k, (Z.of_nat k <= ptr) -> 0 <= nth k trail 0 /\
     (Z.to_nat (Z.quot (nth k trail 0%Z) 2) < length model)%nat /\
     (Z.to_nat (Z.quot (nth k trail 0%Z) 2) < length ws)%nat) ->
  returns "pbSet.onlyFalsified" [pbset_val sw sc; vs; VInt ptr; VInt lvl] h
    (VInt (only_falsified (ws, card) model trail ptr lvl)) h.
Proof. intros. apply returns_intro. eapply onlyFalsified_run; eassumption. Qed.
