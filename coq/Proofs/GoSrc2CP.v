(* Refinement: executing the terms of Gen/GoSrc2.v (the syntactic image of the cutting-planes arithmetic of
   /repo/solver/learn_pb.go, and of abs / min / Lit.Var / Lit.IsPositive) under the semantics of Model/GoIR2.v
   computes what the hand-written model Model/CP.v computes, for every input. *)
From Coq Require Import List ZArith Bool String Lia Arith ZifyBool ZifyNat.
From GS Require Import Spec.Base Spec.PB Model.CP Model.GoIR2 Gen.GoSrc2 Proofs.GoIR2 Gen.GoTypes Proofs.GoTypesGlue.
Import ListNotations.
Open Scope string_scope.
Open Scope list_scope.
Notation length := List.length (only parsing).
Open Scope Z_scope.

(* ================================================================== more rules *)

Lemma run_to_ge : forall fe g args h o, run_to fe g args h o ->
  exists f, forall f', (f <= f')%nat -> run fe f' g args h = o.
Proof. intros fe g args h o (f & H & N). exists f. intros f' Hle. eapply run_mono; eassumption. Qed.

Lemma runs_if_panic : forall fe c a b st, eval st c = EPanic -> runs fe (SIf c a b) st OPanic.
Proof. intros fe c a b st H. exists 1%nat. split; [|discriminate]. cbn [exec]. rewrite H. reflexivity. Qed.

Lemma runs_set_panic : forall fe x e st, eval st e = EPanic -> runs fe (SSet x e) st OPanic.
Proof. intros fe x e st H. exists 1%nat. split; [|discriminate]. cbn [exec]. rewrite H. reflexivity. Qed.

Lemma runs_call_run_arg_panic : forall fe x g args st d,
  find_fun g fe = Some d -> eval_list st args = LPanic -> runs fe (SCall x g args) st OPanic.
Proof. exact runs_call_arg_panic. Qed.

Lemma run_to_intro : forall g d args e0 h o,
  find_fun g go_funs = Some d -> bind_params (f_params d) args = Some e0 ->
  runs go_funs (f_body d) (St e0 h) o -> run_to go_funs g args h o.
Proof. intros g d args e0 h o Hf Hb H. apply (run_to_body _ _ _ _ _ _ _ Hf Hb). exact H. Qed.

(* ---- local variables *)

Lemma lookup_upd : forall x y v e, lookup x (upd y v e) = if String.eqb x y then Some v else lookup x e.
Proof.
  intros x y v e. induction e as [|[k w] r IH]; cbn [upd lookup].
  - reflexivity.
  - destruct (String.eqb_spec y k) as [->|Hyk]; cbn [lookup].
    + destruct (String.eqb x k); reflexivity.
    + destruct (String.eqb_spec x k) as [->|Hxk].
      * destruct (String.eqb_spec k y) as [->|_]; [congruence|reflexivity].
      * exact IH.
Qed.

Lemma eval_var : forall st x v, lookup x (locals st) = Some v -> eval st (EVar x) = EV v.
Proof. intros st x v H. cbn [eval]. rewrite H. reflexivity. Qed.

(* ---- lists *)

Lemma skipn_nth_cons : forall (l : list Z) j, (j < length l)%nat -> skipn j l = nth j l 0 :: skipn (S j) l.
Proof.
  induction l as [|x l IH]; intros j H; cbn [length] in H; [lia|].
  destruct j as [|j]; [reflexivity|]. cbn [skipn nth]. apply IH. lia.
Qed.

Lemma nth_prefix_skipn : forall (P old : list Z) j, length P = j -> nth j (P ++ skipn j old) 0 = nth j old 0.
Proof.
  intros P old j H. rewrite app_nth2 by lia. rewrite H, Nat.sub_diag.
  rewrite nth_skipn_add, Nat.add_0_r. reflexivity.
Qed.

Lemma prefix_step : forall (P old : list Z) j y, length P = j ->
  firstn j (P ++ skipn j old) ++ y :: skipn (S j) (P ++ skipn j old) = (P ++ [y]) ++ skipn (S j) old.
Proof.
  intros P old j y H. rewrite firstn_mid by (symmetry; exact H).
  rewrite skipn_app, H.
  replace (S j - j)%nat with 1%nat by lia.
  rewrite (skipn_all2 (n := S j)) by lia. cbn [app].
  rewrite skipn_skipn_add. replace (j + 1)%nat with (S j) by lia.
  rewrite <- app_assoc. reflexivity.
Qed.

Lemma prefix_keep : forall (P old : list Z) j, (j < length old)%nat ->
  P ++ skipn j old = (P ++ [nth j old 0]) ++ skipn (S j) old.
Proof. intros P old j H. rewrite (skipn_nth_cons old j H), <- app_assoc. reflexivity. Qed.

(* ---- the frame: only cells inside the windows of the slices [ss] differ between [h] and [h'],
        nothing is allocated, no array changes its length *)

Definition in_win (s : slice) (a p : nat) : Prop :=
  a = s_arr s /\ (s_off s <= p < s_off s + s_len s)%nat.

Definition only_wins (ss : list slice) (h h' : heap) : Prop :=
  length h' = length h /\
  (forall a, length (arr_of h' a) = length (arr_of h a)) /\
  (forall a p, (forall s, In s ss -> ~ in_win s a p) -> nth p (arr_of h' a) 0 = nth p (arr_of h a) 0).

Lemma only_wins_refl : forall ss h, only_wins ss h h.
Proof. intros ss h. repeat split. Qed.

Lemma only_wins_trans : forall ss h1 h2 h3, only_wins ss h1 h2 -> only_wins ss h2 h3 -> only_wins ss h1 h3.
Proof.
  intros ss h1 h2 h3 (A1 & B1 & C1) (A2 & B2 & C2). split; [congruence|]. split.
  - intros a. rewrite B2. apply B1.
  - intros a p H. rewrite C2 by exact H. apply C1. exact H.
Qed.

Lemma nth_write_at_other : forall o (l : list Z) y p d, p <> o -> nth p (write_at o [y] l) d = nth p l d.
Proof.
  induction o as [|o IH]; intros l y p d H.
  - destruct l as [|x l]; [reflexivity|]. cbn [write_at]. rewrite write_at_nil.
    destruct p as [|p]; [congruence|reflexivity].
  - destruct l as [|x l]; [reflexivity|]. cbn [write_at].
    destruct p as [|p]; [reflexivity|]. cbn [nth]. apply IH. congruence.
Qed.

Lemma only_wins_write1 : forall ss h s k y, In s ss -> (k < s_len s)%nat ->
  only_wins ss h (heap_write h (s_arr s) (s_off s + k) [y]).
Proof.
  intros ss h s k y Hin Hk. split; [apply length_heap_write|]. split; [intros a; apply length_arr_of_heap_write|].
  intros a p Hout. destruct (Nat.eq_dec (s_arr s) a) as [<-|Hne].
  - destruct (Nat.lt_ge_cases (s_arr s) (length h)) as [Hlt|Hge].
    + rewrite arr_of_heap_write_same by exact Hlt. apply nth_write_at_other.
      intros ->. apply (Hout s Hin). split; [reflexivity|lia].
    + unfold heap_write. rewrite set_arr_oob by exact Hge. reflexivity.
  - rewrite arr_of_heap_write_other by exact Hne. reflexivity.
Qed.

Lemma only_wins_write : forall ss h0 h s k y, only_wins ss h0 h -> In s ss -> (k < s_len s)%nat ->
  only_wins ss h0 (heap_write h (s_arr s) (s_off s + k) [y]).
Proof.
  intros ss h0 h s k y H Hin Hk. eapply only_wins_trans; [exact H|]. apply only_wins_write1; assumption.
Qed.

Lemma only_wins_other : forall ss h h' a, only_wins ss h h' -> (forall s, In s ss -> s_arr s <> a) ->
  arr_of h' a = arr_of h a.
Proof.
  intros ss h h' a (A & B & C) H. apply (nth_ext _ _ 0 0); [apply B|].
  intros p _. apply C. intros s Hin (E & _). apply (H s Hin). congruence.
Qed.

Lemma only_wins_read_other : forall ss h h' t, only_wins ss h h' -> (forall s, In s ss -> s_arr s <> s_arr t) ->
  sl_read h' t = sl_read h t.
Proof. intros ss h h' t H Hd. apply sl_read_ext. eapply only_wins_other; eassumption. Qed.

Lemma only_wins_ok : forall ss h h' t, only_wins ss h h' -> slice_ok h t -> slice_ok h' t.
Proof. intros ss h h' t (A & B & C) H. eapply slice_ok_ext; [exact A|apply B|exact H]. Qed.

Lemma only_wins_incl : forall ss ss' h h', only_wins ss h h' -> (forall s, In s ss -> In s ss') -> only_wins ss' h h'.
Proof.
  intros ss ss' h h' (A & B & C) Hi. split; [exact A|]. split; [exact B|].
  intros a p H. apply C. intros s Hin. apply H. apply Hi. exact Hin.
Qed.

(* ================================================================== representations *)

(* a [*pbSet]: the weights slice, and the card boxed in a one-element slice of another array *)
Definition pbset_val (sw sc : slice) : val := VStruct [VSl sw; VSl sc].

Definition pbset_at (h : heap) (sw sc : slice) (s : pbset) : Prop :=
  slice_ok h sw /\ slice_ok h sc /\ s_arr sw <> s_arr sc /\ s_len sc = 1%nat /\
  sl_read h sw = fst s /\ sl_read h sc = [snd s].

Definition pbset_rep (h : heap) (v : val) (s : pbset) : Prop :=
  exists sw sc, v = pbset_val sw sc /\ pbset_at h sw sc s.

(* a [*Solver]: a struct of [nfld_Solver] fields, of which [model] and [trail] are int slices *)
Definition solver_at (h : heap) (v : val) (sm st : slice) (model trail : list Z) : Prop :=
  exists fs, v = VStruct fs /\ length fs = nfld_Solver /\
    nth_error fs fld_Solver_model = Some (VSl sm) /\ nth_error fs fld_Solver_trail = Some (VSl st) /\
    slice_ok h sm /\ sl_read h sm = model /\ slice_ok h st /\ sl_read h st = trail.

Lemma pbset_at_len : forall h sw sc s, pbset_at h sw sc s -> s_len sw = length (fst s).
Proof. intros h sw sc s (A & _ & _ & _ & E & _). rewrite <- E. symmetry. apply length_sl_read. exact A. Qed.

Lemma pbset_at_frame : forall h h' sw sc s ss, pbset_at h sw sc s -> only_wins ss h h' ->
  (forall t, In t ss -> s_arr t <> s_arr sw) -> (forall t, In t ss -> s_arr t <> s_arr sc) ->
  pbset_at h' sw sc s.
Proof.
  intros h h' sw sc s ss (A & B & C & D & E & F) H Hw Hc. unfold pbset_at.
  rewrite (only_wins_read_other ss h h' sw H Hw), (only_wins_read_other ss h h' sc H Hc).
  repeat split; try assumption; eapply only_wins_ok; eassumption.
Qed.

(* ================================================================== stepping *)

Ltac lk := repeat (rewrite lookup_upd; cbn [String.eqb Ascii.eqb Bool.eqb]).

Ltac gocbn :=
  cbn [exec eval eval_list lookup upd locals hp set_local String.eqb Ascii.eqb Bool.eqb andb
       of_eres ebind as_int eval_bin s_len s_off s_arr s_cap bind_params f_params f_body
       find_fun go_funs nth_error rev app].

Ltac enter := eapply run_to_intro; [reflexivity|reflexivity|];
  cbn [f_body src_abs src_min src_Lit_Var src_Lit_IsPositive src_pbSet_clash src_pbSet_divideBy
       src_pbSet_roundToOne src_pbSet_falsifies src_pbSet_backtrackLevel src_pbSet_onlyFalsified].

(* ================================================================== abs, min, Lit.Var, Lit.IsPositive *)

Lemma abs_run : forall h a, run_to go_funs "abs" [VInt a] h (OReturn (VInt (Z.abs a)) h).
Proof.
  intros h a. enter. apply (runs_exec go_funs 3); [|discriminate]. gocbn.
  destruct (a <? 0) eqn:E; gocbn; f_equal; f_equal; lia.
Qed.

Lemma min_run : forall h a b, run_to go_funs "min" [VInt a; VInt b] h (OReturn (VInt (Z.min a b)) h).
Proof.
  intros h a b. enter. apply (runs_exec go_funs 3); [|discriminate]. gocbn.
  destruct (a <? b) eqn:E; gocbn; f_equal; f_equal; lia.
Qed.

Lemma Lit_Var_run : forall h l, run_to go_funs "Lit.Var" [VInt l] h (OReturn (VInt (Z.quot l 2)) h).
Proof. intros h l. enter. apply (runs_exec go_funs 1); [reflexivity|discriminate]. Qed.

Lemma Lit_IsPositive_run : forall h l,
  run_to go_funs "Lit.IsPositive" [VInt l] h (OReturn (VBool (Z.rem l 2 =? 0)) h).
Proof. intros h l. enter. apply (runs_exec go_funs 1); [reflexivity|discriminate]. Qed.

(* the same against the translation of Gen/GoTypes.v *)
Lemma Lit_Var_run_go : forall h l, run_to go_funs "Lit.Var" [VInt l] h (OReturn (VInt (go_Lit_Var l)) h).
Proof. exact Lit_Var_run. Qed.

Lemma Lit_IsPositive_run_go : forall h l,
  run_to go_funs "Lit.IsPositive" [VInt l] h (OReturn (VBool (go_Lit_IsPositive l)) h).
Proof. exact Lit_IsPositive_run. Qed.
