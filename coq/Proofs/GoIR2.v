(* Metatheory of the interpreter of Model/GoIR2.v (the port of Proofs/GoIR.v to the language with break / continue,
   Quot / Rem, bool slices, range over a list of headers, and call arguments that may panic).

   1. more fuel never changes a result that is not [OFuel] ([exec_mono]);
      results are unique ([exec_det]);
   2. a big-step relation [runs] (existence of enough fuel) with one rule per
      statement form, derived from 1, including invariant rules for [SFor]
      and [SRange] and a rule for [SCall];
      - a loop body may end in [OContinue] (treated like normal completion: [goes_on]);
      - a loop body may end in [OBreak st'] (the loop then ends in [ONormal st']);
      - [abrupt] is what a SEQUENCE passes on (everything but [ONormal]; this includes [OBreak] / [OContinue]);
        [loop_exit] is what a LOOP passes on ([OReturn], [OPanic], [OStuck]);
   3. the algebra of the heap operations ([arr_of], [set_arr], [write_at],
      [heap_write], [alloc], [sl_read], [slice_ok]). *)
From Coq Require Import List ZArith Bool String Lia Arith.
From GS Require Import Model.GoIR2.
Import ListNotations.
Open Scope list_scope.
Notation length := List.length (only parsing).
Open Scope Z_scope.

(* ================================================================== *)
(* 1. monotonicity in the fuel                                         *)

Lemma range_go_mono : forall (r r' : state -> outcome) i v get,
  (forall st, r st <> OFuel -> r' st = r st) ->
  forall n k st, range_go r i v get n k st <> OFuel ->
    range_go r' i v get n k st = range_go r i v get n k st.
Proof.
  intros r r' i v get Hr n. induction n as [|n IH]; intros k st H.
  - reflexivity.
  - cbn [range_go] in *. cbv zeta in *.
    match goal with |- context [r' ?x] => set (st2 := x) in * end.
    pose proof (Hr st2) as E.
    destruct (r st2) eqn:Er.
    + rewrite E by discriminate. apply IH. exact H.
    + rewrite E by discriminate. reflexivity.
    + rewrite E by discriminate. reflexivity.
    + rewrite E by discriminate. apply IH. exact H.
    + rewrite E by discriminate. reflexivity.
    + exfalso. apply H. reflexivity.
    + rewrite E by discriminate. reflexivity.
Qed.

Lemma exec_mono_le : forall fe f f' s st, (f <= f')%nat ->
  exec fe f s st <> OFuel -> exec fe f' s st = exec fe f s st.
Proof.
  intros fe f. induction f as [|f IH]; intros f' s st Hle H.
  - cbn in H. congruence.
  - destruct f' as [|f']; [lia|]. assert (Hle' : (f <= f')%nat) by lia.
    assert (Hstep : forall s st, exec fe f s st <> OFuel -> exec fe f' s st = exec fe f s st)
      by (intros s0 st0 H0; apply IH; assumption).
    clear IH.
    destruct s; cbn [exec] in *; try reflexivity.
    + (* SSeq *)
      destruct (exec fe f s1 st) eqn:E1;
        try (rewrite Hstep by (rewrite E1; discriminate); rewrite E1; try reflexivity).
      * apply Hstep. exact H.
      * exfalso. apply H. reflexivity.
    + (* SIf *)
      destruct (eval st c) as [v| |]; cbn [of_eres] in *; try reflexivity.
      destruct v; try reflexivity. destruct b; apply Hstep; exact H.
    + (* SFor *)
      destruct (eval st c) as [v| |]; cbn [of_eres] in *; try reflexivity.
      destruct v; try reflexivity. destruct b; [|reflexivity].
      destruct (exec fe f s2 st) eqn:E1;
        try (rewrite Hstep by (rewrite E1; discriminate); rewrite E1; try reflexivity).
      * destruct (exec fe f s1 s) eqn:E2;
          try (rewrite Hstep by (rewrite E2; discriminate); rewrite E2; try reflexivity).
        -- apply Hstep. exact H.
        -- exfalso. apply H. reflexivity.
      * destruct (exec fe f s1 s) eqn:E2;
          try (rewrite Hstep by (rewrite E2; discriminate); rewrite E2; try reflexivity).
        -- apply Hstep. exact H.
        -- exfalso. apply H. reflexivity.
      * exfalso. apply H. reflexivity.
    + (* SRange *)
      destruct (eval st a) as [va| |]; cbn [of_eres] in *; try reflexivity.
      destruct va; try reflexivity.
      * apply range_go_mono; [|exact H]. intros st0 H0. apply Hstep. exact H0.
      * apply range_go_mono; [|exact H]. intros st0 H0. apply Hstep. exact H0.
    + (* SCall *)
      destruct (find_fun f0 fe) as [d|]; [|reflexivity].
      destruct (eval_list st args) as [vs| |]; try reflexivity.
      destruct (bind_params (f_params d) vs) as [e0|]; [|reflexivity].
      destruct (exec fe f (f_body d) (St e0 (hp st))) eqn:E1;
        try (rewrite Hstep by (rewrite E1; discriminate); rewrite E1; reflexivity).
      exfalso. apply H. reflexivity.
Qed.

Theorem exec_mono : forall fe f s st o, exec fe f s st = o -> o <> OFuel ->
  forall f', (f <= f')%nat -> exec fe f' s st = o.
Proof.
  intros fe f s st o He Ho f' Hle. subst o. apply exec_mono_le; assumption.
Qed.

Theorem exec_det : forall fe f1 f2 s st o1 o2,
  exec fe f1 s st = o1 -> o1 <> OFuel -> exec fe f2 s st = o2 -> o2 <> OFuel -> o1 = o2.
Proof.
  intros fe f1 f2 s st o1 o2 H1 N1 H2 N2.
  pose proof (exec_mono _ _ _ _ _ H1 N1 (Nat.max f1 f2) (Nat.le_max_l _ _)) as A.
  pose proof (exec_mono _ _ _ _ _ H2 N2 (Nat.max f1 f2) (Nat.le_max_r _ _)) as B.
  congruence.
Qed.

Theorem run_mono : forall fe f g args h o, run fe f g args h = o -> o <> OFuel ->
  forall f', (f <= f')%nat -> run fe f' g args h = o.
Proof.
  unfold run. intros fe f g args h o H Ho f' Hle.
  destruct (find_fun g fe) as [d|]; [|exact H].
  destruct (bind_params (f_params d) args) as [e0|]; [|exact H].
  eapply exec_mono; eassumption.
Qed.

Theorem run_det : forall fe f1 f2 g args h o1 o2,
  run fe f1 g args h = o1 -> o1 <> OFuel -> run fe f2 g args h = o2 -> o2 <> OFuel -> o1 = o2.
Proof.
  intros fe f1 f2 g args h o1 o2 H1 N1 H2 N2.
  pose proof (run_mono _ _ _ _ _ _ H1 N1 (Nat.max f1 f2) (Nat.le_max_l _ _)) as A.
  pose proof (run_mono _ _ _ _ _ _ H2 N2 (Nat.max f1 f2) (Nat.le_max_r _ _)) as B.
  congruence.
Qed.

(* ================================================================== *)
(* 2. big-step runs (existence of fuel) and their rules                *)

Definition runs (fe : funenv) (s : stmt) (st : state) (o : outcome) : Prop :=
  exists f, exec fe f s st = o /\ o <> OFuel.

Definition run_to (fe : funenv) (g : string) (args : list val) (h : heap) (o : outcome) : Prop :=
  exists f, run fe f g args h = o /\ o <> OFuel.

Lemma runs_ge : forall fe s st o, runs fe s st o ->
  exists f, forall f', (f <= f')%nat -> exec fe f' s st = o.
Proof.
  intros fe s st o (f & H & N). exists f. intros f' Hle. eapply exec_mono; eassumption.
Qed.

Lemma runs_not_fuel : forall fe s st o, runs fe s st o -> o <> OFuel.
Proof. intros fe s st o (f & _ & N). exact N. Qed.

Theorem runs_det : forall fe s st o1 o2, runs fe s st o1 -> runs fe s st o2 -> o1 = o2.
Proof.
  intros fe s st o1 o2 (f1 & H1 & N1) (f2 & H2 & N2). eapply exec_det; eassumption.
Qed.

Theorem run_to_det : forall fe g args h o1 o2, run_to fe g args h o1 -> run_to fe g args h o2 -> o1 = o2.
Proof.
  intros fe g args h o1 o2 (f1 & H1 & N1) (f2 & H2 & N2). eapply run_det; eassumption.
Qed.

(* an outcome that is not a normal continuation: what a sequence passes on
   (this includes [OBreak] and [OContinue], which travel up to the innermost loop) *)
Definition abrupt (o : outcome) : Prop :=
  match o with ONormal _ => False | OFuel => False | _ => True end.

Lemma abrupt_not_fuel : forall o, abrupt o -> o <> OFuel.
Proof. intros o H E. subst o. exact H. Qed.

(* an outcome of a loop body that ends the loop with the same outcome *)
Definition loop_exit (o : outcome) : Prop :=
  match o with OReturn _ _ | OPanic | OStuck => True | _ => False end.

Lemma loop_exit_abrupt : forall o, loop_exit o -> abrupt o.
Proof. intros o H. destruct o; try exact I; contradiction. Qed.

Lemma loop_exit_not_fuel : forall o, loop_exit o -> o <> OFuel.
Proof. intros o H E. subst o. exact H. Qed.

(* an outcome of a loop body after which the loop goes on from [st]: normal completion or [continue] *)
Definition goes_on (o : outcome) (st : state) : Prop := o = ONormal st \/ o = OContinue st.

Lemma goes_on_normal : forall st, goes_on (ONormal st) st.
Proof. intros st. left. reflexivity. Qed.

Lemma goes_on_continue : forall st, goes_on (OContinue st) st.
Proof. intros st. right. reflexivity. Qed.

(* statements that finish within a given fuel *)
Lemma runs_exec : forall fe n s st o, exec fe n s st = o -> o <> OFuel -> runs fe s st o.
Proof. intros fe n s st o H N. exists n. split; assumption. Qed.

Lemma runs_skip : forall fe st, runs fe SSkip st (ONormal st).
Proof. intros. exists 1%nat. split; [reflexivity|discriminate]. Qed.

Lemma runs_panic : forall fe st, runs fe SPanic st OPanic.
Proof. intros. exists 1%nat. split; [reflexivity|discriminate]. Qed.

Lemma runs_break : forall fe st, runs fe SBreak st (OBreak st).
Proof. intros. exists 1%nat. split; [reflexivity|discriminate]. Qed.

Lemma runs_continue : forall fe st, runs fe SContinue st (OContinue st).
Proof. intros. exists 1%nat. split; [reflexivity|discriminate]. Qed.

Lemma runs_set : forall fe x e st v, eval st e = EV v ->
  runs fe (SSet x e) st (ONormal (set_local st x v)).
Proof. intros fe x e st v H. exists 1%nat. cbn [exec]. rewrite H. split; [reflexivity|discriminate]. Qed.

Lemma runs_return : forall fe e st v, eval st e = EV v ->
  runs fe (SReturn e) st (OReturn v (hp st)).
Proof. intros fe e st v H. exists 1%nat. cbn [exec]. rewrite H. split; [reflexivity|discriminate]. Qed.

Lemma runs_seq : forall fe a b st st' o,
  runs fe a st (ONormal st') -> runs fe b st' o -> runs fe (SSeq a b) st o.
Proof.
  intros fe a b st st' o Ha Hb. pose proof (runs_not_fuel _ _ _ _ Hb) as N.
  apply runs_ge in Ha. apply runs_ge in Hb. destruct Ha as (f1 & H1). destruct Hb as (f2 & H2).
  exists (S (Nat.max f1 f2)). split; [|exact N]. cbn [exec].
  rewrite H1 by lia. apply H2. lia.
Qed.

Lemma runs_seq_abrupt : forall fe a b st o,
  runs fe a st o -> abrupt o -> runs fe (SSeq a b) st o.
Proof.
  intros fe a b st o (f & H & N) Ho. exists (S f). split; [|exact N]. cbn [exec]. rewrite H.
  destruct o; try reflexivity; contradiction.
Qed.

Lemma runs_if_true : forall fe c a b st o,
  eval st c = EV (VBool true) -> runs fe a st o -> runs fe (SIf c a b) st o.
Proof.
  intros fe c a b st o Hc (f & H & N). exists (S f). split; [|exact N]. cbn [exec]. rewrite Hc. exact H.
Qed.

Lemma runs_if_false : forall fe c a b st o,
  eval st c = EV (VBool false) -> runs fe b st o -> runs fe (SIf c a b) st o.
Proof.
  intros fe c a b st o Hc (f & H & N). exists (S f). split; [|exact N]. cbn [exec]. rewrite Hc. exact H.
Qed.

Lemma runs_if : forall fe c a b st o (t : bool),
  eval st c = EV (VBool t) -> runs fe (if t then a else b) st o -> runs fe (SIf c a b) st o.
Proof. intros fe c a b st o [|]; [apply runs_if_true|apply runs_if_false]. Qed.

(* ---- for *)

Lemma runs_for_false : forall fe c post body st,
  eval st c = EV (VBool false) -> runs fe (SFor c post body) st (ONormal st).
Proof.
  intros fe c post body st Hc. exists 1%nat. cbn [exec]. rewrite Hc. split; [reflexivity|discriminate].
Qed.

(* the body ends normally or in [continue] *)
Lemma runs_for_true_c : forall fe c post body st ob st1 st2 o,
  eval st c = EV (VBool true) ->
  runs fe body st ob -> goes_on ob st1 -> runs fe post st1 (ONormal st2) ->
  runs fe (SFor c post body) st2 o ->
  runs fe (SFor c post body) st o.
Proof.
  intros fe c post body st ob st1 st2 o Hc Hb Hg Hp Hl. pose proof (runs_not_fuel _ _ _ _ Hl) as N.
  apply runs_ge in Hb. apply runs_ge in Hp. apply runs_ge in Hl.
  destruct Hb as (f1 & H1). destruct Hp as (f2 & H2). destruct Hl as (f3 & H3).
  exists (S (Nat.max f1 (Nat.max f2 f3))). split; [|exact N]. cbn [exec]. rewrite Hc. cbn [of_eres].
  rewrite H1 by lia. destruct Hg as [->| ->]; (rewrite H2 by lia; apply H3; lia).
Qed.

Lemma runs_for_true : forall fe c post body st st1 st2 o,
  eval st c = EV (VBool true) ->
  runs fe body st (ONormal st1) -> runs fe post st1 (ONormal st2) ->
  runs fe (SFor c post body) st2 o ->
  runs fe (SFor c post body) st o.
Proof.
  intros fe c post body st st1 st2 o Hc Hb. eapply runs_for_true_c; [exact Hc|exact Hb|apply goes_on_normal].
Qed.

Lemma runs_for_continue : forall fe c post body st st1 st2 o,
  eval st c = EV (VBool true) ->
  runs fe body st (OContinue st1) -> runs fe post st1 (ONormal st2) ->
  runs fe (SFor c post body) st2 o ->
  runs fe (SFor c post body) st o.
Proof.
  intros fe c post body st st1 st2 o Hc Hb. eapply runs_for_true_c; [exact Hc|exact Hb|apply goes_on_continue].
Qed.

(* the body ends in [break]: the loop ends normally in the state of the break *)
Lemma runs_for_break : forall fe c post body st st1,
  eval st c = EV (VBool true) -> runs fe body st (OBreak st1) ->
  runs fe (SFor c post body) st (ONormal st1).
Proof.
  intros fe c post body st st1 Hc (f & H & N). exists (S f). split; [|discriminate].
  cbn [exec]. rewrite Hc. cbn [of_eres]. rewrite H. reflexivity.
Qed.

Lemma runs_for_body_abrupt : forall fe c post body st o,
  eval st c = EV (VBool true) -> runs fe body st o -> loop_exit o ->
  runs fe (SFor c post body) st o.
Proof.
  intros fe c post body st o Hc (f & H & N) Ho. exists (S f). split; [|exact N].
  cbn [exec]. rewrite Hc. cbn [of_eres]. rewrite H. destruct o; try reflexivity; contradiction.
Qed.

(* the while rule: an invariant and a measure that decreases at every turn; a turn may also answer
   "break now in [st1]" (then [Q st1] is what is known afterwards) *)
Theorem runs_for_inv_break : forall fe c post body (I Q : state -> Prop) (m : state -> nat),
  (forall st, I st -> exists t : bool, eval st c = EV (VBool t) /\
     (t = true ->
        (exists ob st1 st2, runs fe body st ob /\ goes_on ob st1 /\ runs fe post st1 (ONormal st2) /\
                            I st2 /\ (m st2 < m st)%nat) \/
        (exists st1, runs fe body st (OBreak st1) /\ Q st1))) ->
  forall st, I st ->
  exists st', runs fe (SFor c post body) st (ONormal st') /\
              ((I st' /\ eval st' c = EV (VBool false)) \/ Q st').
Proof.
  intros fe c post body I Q m Hstep st. remember (m st) as k eqn:Ek.
  revert st Ek. induction k as [k IH] using lt_wf_ind. intros st Ek HI.
  destruct (Hstep st HI) as (t & Hc & Ht). destruct t.
  - destruct (Ht eq_refl) as [(ob & st1 & st2 & Hb & Hg & Hp & HI2 & Hm)|(st1 & Hb & HQ)].
    + destruct (IH (m st2) ltac:(lia) st2 eq_refl HI2) as (st' & Hr & HI').
      exists st'. split; [|exact HI']. eapply runs_for_true_c; eassumption.
    + exists st1. split; [|right; exact HQ]. eapply runs_for_break; eassumption.
  - exists st. split; [|left; split; assumption]. apply runs_for_false. exact Hc.
Qed.

(* the same without break: the body ends normally or in [continue] *)
Theorem runs_for_inv_c : forall fe c post body (I : state -> Prop) (m : state -> nat),
  (forall st, I st -> exists t : bool, eval st c = EV (VBool t) /\
     (t = true -> exists ob st1 st2, runs fe body st ob /\ goes_on ob st1 /\ runs fe post st1 (ONormal st2) /\
                                   I st2 /\ (m st2 < m st)%nat)) ->
  forall st, I st ->
  exists st', runs fe (SFor c post body) st (ONormal st') /\ I st' /\ eval st' c = EV (VBool false).
Proof.
  intros fe c post body I m Hstep st HI.
  destruct (runs_for_inv_break fe c post body I (fun _ => False) m) with (st := st) as (st' & Hr & [H|[]]).
  - intros st0 HI0. destruct (Hstep st0 HI0) as (t & Hc & Ht). exists t. split; [exact Hc|].
    intros Htt. left. apply Ht. exact Htt.
  - exact HI.
  - exists st'. split; assumption.
Qed.

(* the same, the body ends normally (the rule of Proofs/GoIR.v) *)
Theorem runs_for_inv : forall fe c post body (I : state -> Prop) (m : state -> nat),
  (forall st, I st -> exists t : bool, eval st c = EV (VBool t) /\
     (t = true -> exists st1 st2, runs fe body st (ONormal st1) /\ runs fe post st1 (ONormal st2) /\
                                   I st2 /\ (m st2 < m st)%nat)) ->
  forall st, I st ->
  exists st', runs fe (SFor c post body) st (ONormal st') /\ I st' /\ eval st' c = EV (VBool false).
Proof.
  intros fe c post body I m Hstep. apply runs_for_inv_c with (m := m).
  intros st HI. destruct (Hstep st HI) as (t & Hc & Ht). exists t. split; [exact Hc|].
  intros Htt. destruct (Ht Htt) as (st1 & st2 & Hb & Hp & HI2 & Hm).
  exists (ONormal st1), st1, st2. repeat split; try assumption. apply goes_on_normal.
Qed.

(* a turn of the invariant ends the loop with a return, a panic, ... *)
Theorem runs_for_inv_abrupt : forall fe c post body (I : state -> Prop) (m : state -> nat) (R : outcome -> Prop),
  (forall st, I st ->
     (exists ob st1 st2, eval st c = EV (VBool true) /\ runs fe body st ob /\ goes_on ob st1 /\
                         runs fe post st1 (ONormal st2) /\ I st2 /\ (m st2 < m st)%nat) \/
     (exists o, eval st c = EV (VBool true) /\ runs fe body st o /\ loop_exit o /\ R o)) ->
  forall st, I st ->
  exists o, runs fe (SFor c post body) st o /\ R o.
Proof.
  intros fe c post body I m R Hstep st. remember (m st) as k eqn:Ek.
  revert st Ek. induction k as [k IH] using lt_wf_ind. intros st Ek HI.
  destruct (Hstep st HI) as [(ob & st1 & st2 & Hc & Hb & Hg & Hp & HI2 & Hm)|(o & Hc & Hb & Ho & HR)].
  - destruct (IH (m st2) ltac:(lia) st2 eq_refl HI2) as (o & Hr & HR).
    exists o. split; [|exact HR]. eapply runs_for_true_c; eassumption.
  - exists o. split; [|exact HR]. apply runs_for_body_abrupt; assumption.
Qed.

(* ---- range *)

(* the state in which the body of turn [k] starts; [get] is [get_sl s] or [get_list l] *)
Definition range_pre (i v : string) (get : state -> nat -> val) (k : nat) (st : state) : state :=
  let st1 := if String.eqb i "_" then st else set_local st i (VInt (Z.of_nat k)) in
  if String.eqb v "_" then st1 else set_local st1 v (get st1 k).

Inductive range_runs (fe : funenv) (body : stmt) (i v : string) (get : state -> nat -> val)
  : nat -> nat -> state -> outcome -> Prop :=
| rr_done : forall k st, range_runs fe body i v get O k st (ONormal st)
| rr_step : forall n k st st' o,
    runs fe body (range_pre i v get k st) (ONormal st') ->
    range_runs fe body i v get n (S k) st' o ->
    range_runs fe body i v get (S n) k st o
| rr_continue : forall n k st st' o,
    runs fe body (range_pre i v get k st) (OContinue st') ->
    range_runs fe body i v get n (S k) st' o ->
    range_runs fe body i v get (S n) k st o
| rr_break : forall n k st st',
    runs fe body (range_pre i v get k st) (OBreak st') ->
    range_runs fe body i v get (S n) k st (ONormal st')
| rr_abrupt : forall n k st o,
    runs fe body (range_pre i v get k st) o -> loop_exit o ->
    range_runs fe body i v get (S n) k st o.

Lemma rr_goes_on : forall fe body i v get n k st ob st' o,
  runs fe body (range_pre i v get k st) ob -> goes_on ob st' ->
  range_runs fe body i v get n (S k) st' o ->
  range_runs fe body i v get (S n) k st o.
Proof.
  intros fe body i v get n k st ob st' o Hb [->| ->] Hr; [eapply rr_step|eapply rr_continue]; eassumption.
Qed.

Lemma range_go_unfold : forall run i v get n k st,
  range_go run i v get (S n) k st =
  match run (range_pre i v get k st) with
  | ONormal st3 => range_go run i v get n (S k) st3
  | OContinue st3 => range_go run i v get n (S k) st3
  | OBreak st3 => ONormal st3
  | o => o
  end.
Proof. reflexivity. Qed.

Lemma range_runs_go : forall fe body i v get n k st o,
  range_runs fe body i v get n k st o ->
  o <> OFuel /\ exists f, forall f', (f <= f')%nat -> range_go (exec fe f' body) i v get n k st = o.
Proof.
  intros fe body i v get n k st o H.
  induction H as [k st|n k st st' o Hb Hr IH|n k st st' o Hb Hr IH|n k st st' Hb|n k st o Hb Ho].
  - split; [discriminate|]. exists O. intros f' _. reflexivity.
  - destruct IH as (N & f2 & H2). split; [exact N|].
    apply runs_ge in Hb. destruct Hb as (f1 & H1).
    exists (Nat.max f1 f2). intros f' Hle. rewrite range_go_unfold.
    rewrite H1 by lia. apply H2. lia.
  - destruct IH as (N & f2 & H2). split; [exact N|].
    apply runs_ge in Hb. destruct Hb as (f1 & H1).
    exists (Nat.max f1 f2). intros f' Hle. rewrite range_go_unfold.
    rewrite H1 by lia. apply H2. lia.
  - split; [discriminate|].
    apply runs_ge in Hb. destruct Hb as (f1 & H1).
    exists f1. intros f' Hle. rewrite range_go_unfold. rewrite H1 by lia. reflexivity.
  - split; [apply loop_exit_not_fuel; exact Ho|].
    apply runs_ge in Hb. destruct Hb as (f1 & H1).
    exists f1. intros f' Hle. rewrite range_go_unfold.
    rewrite H1 by lia. destruct o; try reflexivity; contradiction.
Qed.

Lemma runs_range_sl : forall fe i v a body st s o,
  eval st a = EV (VSl s) ->
  range_runs fe body i v (get_sl s) (s_len s) O st o ->
  runs fe (SRange i v a body) st o.
Proof.
  intros fe i v a body st s o Ha Hr. apply range_runs_go in Hr. destruct Hr as (N & f & H).
  exists (S f). split; [|exact N]. cbn [exec]. rewrite Ha. cbn [of_eres]. apply H. lia.
Qed.

Lemma runs_range_nil : forall fe i v a body st,
  eval st a = EV VNil -> runs fe (SRange i v a body) st (ONormal st).
Proof.
  intros fe i v a body st Ha. exists 1%nat. cbn [exec]. rewrite Ha. split; [reflexivity|discriminate].
Qed.

Lemma runs_range_list : forall fe i v a body st l o,
  eval st a = EV (VList l) ->
  range_runs fe body i v (get_list l) (length l) O st o ->
  runs fe (SRange i v a body) st o.
Proof.
  intros fe i v a body st l o Ha Hr. apply range_runs_go in Hr. destruct Hr as (N & f & H).
  exists (S f). split; [|exact N]. cbn [exec]. rewrite Ha. cbn [of_eres]. apply H. lia.
Qed.

(* an invariant indexed by the number of turns done; a turn may also answer "break now in [st1]" *)
Lemma range_runs_inv_break : forall fe body i v get (I : nat -> state -> Prop) (Q : state -> Prop) n k st,
  (forall j st0, (k <= j < k + n)%nat -> I j st0 ->
     (exists ob st1, runs fe body (range_pre i v get j st0) ob /\ goes_on ob st1 /\ I (S j) st1) \/
     (exists st1, runs fe body (range_pre i v get j st0) (OBreak st1) /\ Q st1)) ->
  I k st ->
  exists st', range_runs fe body i v get n k st (ONormal st') /\ (I (k + n)%nat st' \/ Q st').
Proof.
  intros fe body i v get I Q n. induction n as [|n IH]; intros k st Hstep HI.
  - exists st. split; [constructor|]. left. rewrite Nat.add_0_r. exact HI.
  - destruct (Hstep k st ltac:(lia) HI) as [(ob & st1 & Hb & Hg & HI1)|(st1 & Hb & HQ)].
    + destruct (IH (S k) st1) as (st' & Hr & HI').
      * intros j st0 Hj. apply Hstep. lia.
      * exact HI1.
      * exists st'. split; [eapply rr_goes_on; eassumption|].
        replace (k + S n)%nat with (S k + n)%nat by lia. exact HI'.
    + exists st1. split; [|right; exact HQ]. apply rr_break. exact Hb.
Qed.

Lemma range_runs_inv_c : forall fe body i v get (I : nat -> state -> Prop) n k st,
  (forall j st0, (k <= j < k + n)%nat -> I j st0 ->
     exists ob st1, runs fe body (range_pre i v get j st0) ob /\ goes_on ob st1 /\ I (S j) st1) ->
  I k st ->
  exists st', range_runs fe body i v get n k st (ONormal st') /\ I (k + n)%nat st'.
Proof.
  intros fe body i v get I n k st Hstep HI.
  destruct (range_runs_inv_break fe body i v get I (fun _ => False) n k st) as (st' & Hr & [H|[]]).
  - intros j st0 Hj HI0. left. apply Hstep; assumption.
  - exact HI.
  - exists st'. split; assumption.
Qed.

Lemma range_runs_inv : forall fe body i v get (I : nat -> state -> Prop) n k st,
  (forall j st0, (k <= j < k + n)%nat -> I j st0 ->
     exists st1, runs fe body (range_pre i v get j st0) (ONormal st1) /\ I (S j) st1) ->
  I k st ->
  exists st', range_runs fe body i v get n k st (ONormal st') /\ I (k + n)%nat st'.
Proof.
  intros fe body i v get I n k st Hstep HI. apply range_runs_inv_c; [|exact HI].
  intros j st0 Hj HI0. destruct (Hstep j st0 Hj HI0) as (st1 & Hb & HI1).
  exists (ONormal st1), st1. repeat split; try assumption. apply goes_on_normal.
Qed.

(* over an int slice *)
Theorem runs_range_inv_break : forall fe i v a body st s (I : nat -> state -> Prop) (Q : state -> Prop),
  eval st a = EV (VSl s) ->
  I O st ->
  (forall j st0, (j < s_len s)%nat -> I j st0 ->
     (exists ob st1, runs fe body (range_pre i v (get_sl s) j st0) ob /\ goes_on ob st1 /\ I (S j) st1) \/
     (exists st1, runs fe body (range_pre i v (get_sl s) j st0) (OBreak st1) /\ Q st1)) ->
  exists st', runs fe (SRange i v a body) st (ONormal st') /\ (I (s_len s) st' \/ Q st').
Proof.
  intros fe i v a body st s I Q Ha H0 Hstep.
  destruct (range_runs_inv_break fe body i v (get_sl s) I Q (s_len s) O st) as (st' & Hr & HI).
  - intros j st0 Hj. apply Hstep. lia.
  - exact H0.
  - exists st'. split; [|exact HI]. eapply runs_range_sl; eassumption.
Qed.

Theorem runs_range_inv_c : forall fe i v a body st s (I : nat -> state -> Prop),
  eval st a = EV (VSl s) ->
  I O st ->
  (forall j st0, (j < s_len s)%nat -> I j st0 ->
     exists ob st1, runs fe body (range_pre i v (get_sl s) j st0) ob /\ goes_on ob st1 /\ I (S j) st1) ->
  exists st', runs fe (SRange i v a body) st (ONormal st') /\ I (s_len s) st'.
Proof.
  intros fe i v a body st s I Ha H0 Hstep.
  destruct (range_runs_inv_c fe body i v (get_sl s) I (s_len s) O st) as (st' & Hr & HI).
  - intros j st0 Hj. apply Hstep. lia.
  - exact H0.
  - exists st'. split; [|exact HI]. eapply runs_range_sl; eassumption.
Qed.

Theorem runs_range_inv : forall fe i v a body st s (I : nat -> state -> Prop),
  eval st a = EV (VSl s) ->
  I O st ->
  (forall j st0, (j < s_len s)%nat -> I j st0 ->
     exists st1, runs fe body (range_pre i v (get_sl s) j st0) (ONormal st1) /\ I (S j) st1) ->
  exists st', runs fe (SRange i v a body) st (ONormal st') /\ I (s_len s) st'.
Proof.
  intros fe i v a body st s I Ha H0 Hstep.
  destruct (range_runs_inv fe body i v (get_sl s) I (s_len s) O st) as (st' & Hr & HI).
  - intros j st0 Hj. apply Hstep. lia.
  - exact H0.
  - exists st'. split; [|exact HI]. eapply runs_range_sl; eassumption.
Qed.

(* over a list of values (a slice of slices, a slice of structs) *)
Theorem runs_range_list_inv_break : forall fe i v a body st l (I : nat -> state -> Prop) (Q : state -> Prop),
  eval st a = EV (VList l) ->
  I O st ->
  (forall j st0, (j < length l)%nat -> I j st0 ->
     (exists ob st1, runs fe body (range_pre i v (get_list l) j st0) ob /\ goes_on ob st1 /\ I (S j) st1) \/
     (exists st1, runs fe body (range_pre i v (get_list l) j st0) (OBreak st1) /\ Q st1)) ->
  exists st', runs fe (SRange i v a body) st (ONormal st') /\ (I (length l) st' \/ Q st').
Proof.
  intros fe i v a body st l I Q Ha H0 Hstep.
  destruct (range_runs_inv_break fe body i v (get_list l) I Q (length l) O st) as (st' & Hr & HI).
  - intros j st0 Hj. apply Hstep. lia.
  - exact H0.
  - exists st'. split; [|exact HI]. eapply runs_range_list; eassumption.
Qed.

Theorem runs_range_list_inv_c : forall fe i v a body st l (I : nat -> state -> Prop),
  eval st a = EV (VList l) ->
  I O st ->
  (forall j st0, (j < length l)%nat -> I j st0 ->
     exists ob st1, runs fe body (range_pre i v (get_list l) j st0) ob /\ goes_on ob st1 /\ I (S j) st1) ->
  exists st', runs fe (SRange i v a body) st (ONormal st') /\ I (length l) st'.
Proof.
  intros fe i v a body st l I Ha H0 Hstep.
  destruct (range_runs_inv_c fe body i v (get_list l) I (length l) O st) as (st' & Hr & HI).
  - intros j st0 Hj. apply Hstep. lia.
  - exact H0.
  - exists st'. split; [|exact HI]. eapply runs_range_list; eassumption.
Qed.

(* the turns before [j] keep the invariant, turn [j] ends the loop: with [o] itself when [o] is a return, a panic
   or stuck, with [ONormal st'] when [o = OBreak st'] *)
Definition loop_result (o : outcome) : outcome :=
  match o with OBreak st => ONormal st | _ => o end.

Definition loop_stop (o : outcome) : Prop :=
  match o with OReturn _ _ | OPanic | OStuck | OBreak _ => True | _ => False end.

Lemma loop_exit_stop : forall o, loop_exit o -> loop_stop o /\ loop_result o = o.
Proof. intros o H. destruct o; try contradiction; split; try exact I; reflexivity. Qed.

Lemma range_runs_inv_stop : forall fe body i v get (I : nat -> state -> Prop) n k st j o,
  (forall j0 st0, (k <= j0 < j)%nat -> I j0 st0 ->
     exists ob st1, runs fe body (range_pre i v get j0 st0) ob /\ goes_on ob st1 /\ I (S j0) st1) ->
  (forall st0, I j st0 -> runs fe body (range_pre i v get j st0) o) ->
  loop_stop o -> (k <= j < k + n)%nat ->
  I k st ->
  range_runs fe body i v get n k st (loop_result o).
Proof.
  intros fe body i v get I n. induction n as [|n IH]; intros k st j o Hstep Hlast Ho Hj HI.
  - lia.
  - destruct (Nat.eq_dec k j) as [->|Hne].
    + specialize (Hlast st HI). destruct o; try contradiction; cbn [loop_result].
      * apply rr_abrupt; [exact Hlast|exact Logic.I].
      * apply rr_break. exact Hlast.
      * apply rr_abrupt; [exact Hlast|exact Logic.I].
      * apply rr_abrupt; [exact Hlast|exact Logic.I].
    + destruct (Hstep k st ltac:(lia) HI) as (ob & st1 & Hb & Hg & HI1).
      eapply rr_goes_on; [exact Hb|exact Hg|].
      apply (IH (S k) st1 j o); try assumption; try lia.
      intros j0 st0 Hj0. apply Hstep. lia.
Qed.

Lemma range_runs_inv_abrupt : forall fe body i v get (I : nat -> state -> Prop) n k st j o,
  (forall j0 st0, (k <= j0 < j)%nat -> I j0 st0 ->
     exists ob st1, runs fe body (range_pre i v get j0 st0) ob /\ goes_on ob st1 /\ I (S j0) st1) ->
  (forall st0, I j st0 -> runs fe body (range_pre i v get j st0) o) ->
  loop_exit o -> (k <= j < k + n)%nat ->
  I k st ->
  range_runs fe body i v get n k st o.
Proof.
  intros fe body i v get I n k st j o Hstep Hlast Ho Hj HI.
  destruct (loop_exit_stop o Ho) as (Hs & <-).
  eapply range_runs_inv_stop; eassumption.
Qed.

Theorem runs_range_inv_stop : forall fe i v a body st s (I : nat -> state -> Prop) j o,
  eval st a = EV (VSl s) ->
  I O st ->
  (forall j0 st0, (j0 < j)%nat -> I j0 st0 ->
     exists ob st1, runs fe body (range_pre i v (get_sl s) j0 st0) ob /\ goes_on ob st1 /\ I (S j0) st1) ->
  (forall st0, I j st0 -> runs fe body (range_pre i v (get_sl s) j st0) o) ->
  loop_stop o -> (j < s_len s)%nat ->
  runs fe (SRange i v a body) st (loop_result o).
Proof.
  intros fe i v a body st s I j o Ha H0 Hstep Hlast Ho Hj.
  eapply runs_range_sl; [exact Ha|].
  apply (range_runs_inv_stop fe body i v (get_sl s) I (s_len s) O st j o); try assumption; try lia.
  intros j0 st0 Hj0. apply Hstep. lia.
Qed.

Theorem runs_range_inv_abrupt : forall fe i v a body st s (I : nat -> state -> Prop) j o,
  eval st a = EV (VSl s) ->
  I O st ->
  (forall j0 st0, (j0 < j)%nat -> I j0 st0 ->
     exists ob st1, runs fe body (range_pre i v (get_sl s) j0 st0) ob /\ goes_on ob st1 /\ I (S j0) st1) ->
  (forall st0, I j st0 -> runs fe body (range_pre i v (get_sl s) j st0) o) ->
  loop_exit o -> (j < s_len s)%nat ->
  runs fe (SRange i v a body) st o.
Proof.
  intros fe i v a body st s I j o Ha H0 Hstep Hlast Ho Hj.
  destruct (loop_exit_stop o Ho) as (Hs & <-).
  eapply runs_range_inv_stop; eassumption.
Qed.

Theorem runs_range_list_inv_stop : forall fe i v a body st l (I : nat -> state -> Prop) j o,
  eval st a = EV (VList l) ->
  I O st ->
  (forall j0 st0, (j0 < j)%nat -> I j0 st0 ->
     exists ob st1, runs fe body (range_pre i v (get_list l) j0 st0) ob /\ goes_on ob st1 /\ I (S j0) st1) ->
  (forall st0, I j st0 -> runs fe body (range_pre i v (get_list l) j st0) o) ->
  loop_stop o -> (j < length l)%nat ->
  runs fe (SRange i v a body) st (loop_result o).
Proof.
  intros fe i v a body st l I j o Ha H0 Hstep Hlast Ho Hj.
  eapply runs_range_list; [exact Ha|].
  apply (range_runs_inv_stop fe body i v (get_list l) I (length l) O st j o); try assumption; try lia.
  intros j0 st0 Hj0. apply Hstep. lia.
Qed.

Theorem runs_range_list_inv_abrupt : forall fe i v a body st l (I : nat -> state -> Prop) j o,
  eval st a = EV (VList l) ->
  I O st ->
  (forall j0 st0, (j0 < j)%nat -> I j0 st0 ->
     exists ob st1, runs fe body (range_pre i v (get_list l) j0 st0) ob /\ goes_on ob st1 /\ I (S j0) st1) ->
  (forall st0, I j st0 -> runs fe body (range_pre i v (get_list l) j st0) o) ->
  loop_exit o -> (j < length l)%nat ->
  runs fe (SRange i v a body) st o.
Proof.
  intros fe i v a body st l I j o Ha H0 Hstep Hlast Ho Hj.
  destruct (loop_exit_stop o Ho) as (Hs & <-).
  eapply runs_range_list_inv_stop; eassumption.
Qed.

(* ---- calls *)

Lemma runs_call : forall fe x g args st d vs e0 v h',
  find_fun g fe = Some d -> eval_list st args = LV vs ->
  bind_params (f_params d) vs = Some e0 ->
  runs fe (f_body d) (St e0 (hp st)) (OReturn v h') ->
  runs fe (SCall x g args) st (ONormal (St (upd x v (locals st)) h')).
Proof.
  intros fe x g args st d vs e0 v h' Hf Ha Hb (f & H & N). exists (S f).
  split; [|discriminate]. cbn [exec]. rewrite Hf, Ha, Hb, H. reflexivity.
Qed.

Lemma runs_call_abrupt : forall fe x g args st d vs e0 o,
  find_fun g fe = Some d -> eval_list st args = LV vs ->
  bind_params (f_params d) vs = Some e0 ->
  runs fe (f_body d) (St e0 (hp st)) o -> (o = OPanic \/ o = OStuck) ->
  runs fe (SCall x g args) st o.
Proof.
  intros fe x g args st d vs e0 o Hf Ha Hb (f & H & N) Ho. exists (S f).
  split; [|exact N]. cbn [exec]. rewrite Hf, Ha, Hb.
  destruct Ho as [Ho|Ho]; rewrite Ho in H; rewrite H, Ho; reflexivity.
Qed.

(* an argument panics: the call panics (the function must exist) *)
Lemma runs_call_arg_panic : forall fe x g args st d,
  find_fun g fe = Some d -> eval_list st args = LPanic ->
  runs fe (SCall x g args) st OPanic.
Proof.
  intros fe x g args st d Hf Ha. exists 1%nat. split; [|discriminate]. cbn [exec]. rewrite Hf, Ha. reflexivity.
Qed.

(* the same with the callee given as a whole [run] *)
Lemma run_to_body : forall fe g args h d e0 o,
  find_fun g fe = Some d -> bind_params (f_params d) args = Some e0 ->
  (run_to fe g args h o <-> runs fe (f_body d) (St e0 h) o).
Proof.
  intros fe g args h d e0 o Hf Hb. unfold run_to, runs, run. rewrite Hf, Hb. tauto.
Qed.

Lemma run_to_found : forall fe g args h v h', run_to fe g args h (OReturn v h') ->
  exists d e0, find_fun g fe = Some d /\ bind_params (f_params d) args = Some e0.
Proof.
  intros fe g args h v h' (f & H & _). unfold run in H.
  destruct (find_fun g fe) as [d|] eqn:Ef; [|discriminate].
  destruct (bind_params (f_params d) args) as [e0|] eqn:Eb; [|discriminate].
  exists d, e0. split; [reflexivity|exact Eb].
Qed.

Lemma runs_call_run : forall fe x g args st vs v h',
  eval_list st args = LV vs ->
  run_to fe g vs (hp st) (OReturn v h') ->
  runs fe (SCall x g args) st (ONormal (St (upd x v (locals st)) h')).
Proof.
  intros fe x g args st vs v h' Ha Hr.
  destruct (run_to_found _ _ _ _ _ _ Hr) as (d & e0 & Hf & Hb).
  eapply runs_call; try eassumption. apply (run_to_body _ _ _ _ _ _ _ Hf Hb). exact Hr.
Qed.

Lemma runs_call_run_panic : forall fe x g args st vs,
  eval_list st args = LV vs ->
  run_to fe g vs (hp st) OPanic ->
  runs fe (SCall x g args) st OPanic.
Proof.
  intros fe x g args st vs Ha (f & H & N). exists (S f). split; [|discriminate].
  cbn [exec]. unfold run in H.
  destruct (find_fun g fe) as [d|]; [|discriminate]. rewrite Ha.
  destruct (bind_params (f_params d) vs) as [e0|]; [|discriminate].
  rewrite H. reflexivity.
Qed.

(* from a run of the body to the [exists fuel] form of the theorems *)
Lemma run_to_fuel : forall fe g args h o, run_to fe g args h o -> exists fuel, run fe fuel g args h = o.
Proof. intros fe g args h o (f & H & _). exists f. exact H. Qed.

(* ---- Quot / Rem / bool slices: what [eval] does on them *)

Lemma eval_quot : forall st a b x y, eval st a = EV (VInt x) -> eval st b = EV (VInt y) -> y <> 0 ->
  eval st (EBin Quot a b) = EV (VInt (Z.quot x y)).
Proof.
  intros st a b x y Ha Hb Hy. cbn [eval]. rewrite Ha, Hb. cbn [ebind eval_bin].
  destruct (y =? 0) eqn:E; [apply Z.eqb_eq in E; contradiction|reflexivity].
Qed.

Lemma eval_rem : forall st a b x y, eval st a = EV (VInt x) -> eval st b = EV (VInt y) -> y <> 0 ->
  eval st (EBin Rem a b) = EV (VInt (Z.rem x y)).
Proof.
  intros st a b x y Ha Hb Hy. cbn [eval]. rewrite Ha, Hb. cbn [ebind eval_bin].
  destruct (y =? 0) eqn:E; [apply Z.eqb_eq in E; contradiction|reflexivity].
Qed.

Lemma eval_quot_zero : forall st a b x, eval st a = EV (VInt x) -> eval st b = EV (VInt 0) ->
  eval st (EBin Quot a b) = EPanic.
Proof. intros st a b x Ha Hb. cbn [eval]. rewrite Ha, Hb. reflexivity. Qed.

Lemma eval_rem_zero : forall st a b x, eval st a = EV (VInt x) -> eval st b = EV (VInt 0) ->
  eval st (EBin Rem a b) = EPanic.
Proof. intros st a b x Ha Hb. cbn [eval]. rewrite Ha, Hb. reflexivity. Qed.

(* ================================================================== *)
(* 3. lists, arrays, heaps                                             *)

Section Lists.
Context {A : Type}.

Lemma skipn_skipn_add : forall (x y : nat) (l : list A), skipn x (skipn y l) = skipn (y + x) l.
Proof.
  intros x y. induction y as [|y IH]; intros l; [reflexivity|].
  destruct l as [|a l]; [rewrite !skipn_nil; reflexivity|]. cbn [skipn Nat.add]. apply IH.
Qed.

Lemma nth_firstn_lt : forall (n i : nat) (l : list A) d, (i < n)%nat -> nth i (firstn n l) d = nth i l d.
Proof.
  induction n as [|n IH]; intros i l d Hi; [lia|].
  destruct l as [|a l]; [reflexivity|]. destruct i as [|i]; [reflexivity|].
  cbn [firstn nth]. apply IH. lia.
Qed.

Lemma nth_skipn_add : forall (n i : nat) (l : list A) d, nth i (skipn n l) d = nth (n + i) l d.
Proof.
  induction n as [|n IH]; intros i l d; [reflexivity|].
  destruct l as [|a l]; [destruct i; reflexivity|]. cbn [skipn Nat.add nth]. apply IH.
Qed.

(* the three lemmas that read and write the middle of [P ++ M ++ R] *)
Lemma nth_mid : forall (o : nat) (P R : list A) x d, o = length P -> nth o (P ++ x :: R) d = x.
Proof. intros o P R x d ->. apply nth_middle. Qed.

Lemma read_mid : forall (o n : nat) (P M R : list A), o = length P -> n = length M ->
  firstn n (skipn o (P ++ M ++ R)) = M.
Proof.
  intros o n P M R -> ->. rewrite skipn_app, skipn_all, Nat.sub_diag. cbn [app skipn].
  rewrite firstn_app, firstn_all, Nat.sub_diag. cbn [firstn]. apply app_nil_r.
Qed.

Lemma skipn_mid : forall (o : nat) (P R : list A), o = length P -> skipn o (P ++ R) = R.
Proof. intros o P R ->. rewrite skipn_app, skipn_all, Nat.sub_diag. reflexivity. Qed.

Lemma firstn_mid : forall (o : nat) (P R : list A), o = length P -> firstn o (P ++ R) = P.
Proof. intros o P R ->. rewrite firstn_app, firstn_all, Nat.sub_diag. cbn [firstn]. apply app_nil_r. Qed.

Lemma last_cons_ne : forall (x : A) r d, r <> [] -> last (x :: r) d = last r d.
Proof. intros x r d H. destruct r; [congruence|reflexivity]. Qed.

Lemma removelast_length : forall (l : list A), l <> [] -> S (length (removelast l)) = length l.
Proof.
  intros l H. destruct l as [|a l]; [congruence|].
  rewrite (app_removelast_last a H) at 2.
  rewrite app_length. cbn [length]. lia.
Qed.

Lemma repeat_snoc : forall (a : A) n, repeat a n ++ [a] = a :: repeat a n.
Proof. intros a n. symmetry. apply repeat_cons. Qed.

End Lists.

(* ---- write_at *)

Lemma length_write_at : forall l o ys, length (write_at o ys l) = length l.
Proof.
  induction l as [|x l IH]; intros o ys.
  - destruct o, ys; reflexivity.
  - destruct o as [|o].
    + destruct ys as [|y ys]; [reflexivity|]. cbn [write_at length]. rewrite IH. reflexivity.
    + cbn [write_at length]. rewrite IH. reflexivity.
Qed.

Lemma write_at_nil : forall o l, write_at o [] l = l.
Proof.
  induction o as [|o IH]; intros l; [destruct l; reflexivity|].
  destruct l as [|x l]; [reflexivity|]. cbn [write_at]. rewrite IH. reflexivity.
Qed.

Lemma write_at_0_app : forall ys M R, length ys = length M -> write_at O ys (M ++ R) = ys ++ R.
Proof.
  induction ys as [|y ys IH]; intros M R H.
  - destruct M; [|discriminate]. apply write_at_nil.
  - destruct M as [|m M]; [discriminate|]. cbn [app write_at]. rewrite IH; [reflexivity|].
    cbn [length] in H. lia.
Qed.

Lemma write_at_mid : forall o ys P M R, o = length P -> length ys = length M ->
  write_at o ys (P ++ M ++ R) = P ++ ys ++ R.
Proof.
  intros o ys P M R -> H. induction P as [|p P IH].
  - cbn [length app]. apply write_at_0_app. exact H.
  - cbn [length app write_at]. rewrite IH. reflexivity.
Qed.

Lemma write_at_spec : forall o ys l, (o + length ys <= length l)%nat ->
  write_at o ys l = firstn o l ++ ys ++ skipn (o + length ys) l.
Proof.
  intros o ys l H.
  rewrite <- (firstn_skipn o l) at 1.
  rewrite <- (firstn_skipn (length ys) (skipn o l)) at 1.
  rewrite write_at_mid.
  - rewrite skipn_skipn_add. reflexivity.
  - rewrite firstn_length_le; [reflexivity|lia].
  - rewrite firstn_length_le; [reflexivity|]. rewrite skipn_length. lia.
Qed.

(* ---- set_arr, heap_write, alloc *)

Lemma length_set_arr : forall a l h, length (set_arr a l h) = length h.
Proof.
  induction a as [|a IH]; intros l h; destruct h as [|x h]; try reflexivity.
  cbn [set_arr length]. rewrite IH. reflexivity.
Qed.

Lemma arr_of_set_arr_same : forall a l h, (a < length h)%nat -> arr_of (set_arr a l h) a = l.
Proof.
  unfold arr_of. induction a as [|a IH]; intros l h H; destruct h as [|x h]; cbn [length] in H; try lia.
  - reflexivity.
  - cbn [set_arr nth]. apply IH. lia.
Qed.

Lemma arr_of_set_arr_other : forall a b l h, a <> b -> arr_of (set_arr a l h) b = arr_of h b.
Proof.
  unfold arr_of. induction a as [|a IH]; intros b l h H; destruct h as [|x h]; try reflexivity.
  - destruct b as [|b]; [congruence|reflexivity].
  - destruct b as [|b]; [reflexivity|]. cbn [set_arr nth]. apply IH. congruence.
Qed.

Lemma set_arr_oob : forall a l h, (length h <= a)%nat -> set_arr a l h = h.
Proof.
  induction a as [|a IH]; intros l h H; destruct h as [|x h]; cbn [length] in H; try reflexivity; try lia.
  cbn [set_arr]. rewrite IH by lia. reflexivity.
Qed.

Lemma length_heap_write : forall h a o ys, length (heap_write h a o ys) = length h.
Proof. intros. unfold heap_write. apply length_set_arr. Qed.

Lemma arr_of_heap_write_same : forall h a o ys, (a < length h)%nat ->
  arr_of (heap_write h a o ys) a = write_at o ys (arr_of h a).
Proof. intros. unfold heap_write. apply arr_of_set_arr_same. assumption. Qed.

Lemma arr_of_heap_write_other : forall h a b o ys, a <> b ->
  arr_of (heap_write h a o ys) b = arr_of h b.
Proof. intros. unfold heap_write. apply arr_of_set_arr_other. assumption. Qed.

Lemma length_arr_of_heap_write : forall h a b o ys,
  length (arr_of (heap_write h a o ys) b) = length (arr_of h b).
Proof.
  intros h a b o ys. destruct (Nat.eq_dec a b) as [<-|Hne].
  - destruct (Nat.lt_ge_cases a (length h)) as [Hlt|Hge].
    + rewrite arr_of_heap_write_same by exact Hlt. apply length_write_at.
    + unfold heap_write. rewrite set_arr_oob by exact Hge. reflexivity.
  - rewrite arr_of_heap_write_other by exact Hne. reflexivity.
Qed.

Lemma sl_read_heap_write_other : forall h a o ys s, s_arr s <> a ->
  sl_read (heap_write h a o ys) s = sl_read h s.
Proof.
  intros h a o ys s H. unfold sl_read. rewrite arr_of_heap_write_other by congruence. reflexivity.
Qed.

Lemma slice_ok_heap_write : forall h a o ys s, slice_ok h s -> slice_ok (heap_write h a o ys) s.
Proof.
  intros h a o ys s (H1 & H2 & H3). unfold slice_ok.
  rewrite length_heap_write, length_arr_of_heap_write. repeat split; assumption.
Qed.

Lemma arr_of_alloc_old : forall h l a, (a < length h)%nat -> arr_of (h ++ [l]) a = arr_of h a.
Proof. intros h l a H. unfold arr_of. apply app_nth1. exact H. Qed.

Lemma arr_of_alloc_new : forall h l, arr_of (h ++ [l]) (length h) = l.
Proof. intros h l. unfold arr_of. apply nth_middle. Qed.

Lemma length_alloc : forall (h : heap) l, length (h ++ [l]) = S (length h).
Proof. intros h l. rewrite app_length. cbn [length]. lia. Qed.

Lemma firstn_alloc : forall (h : heap) l, firstn (length h) (h ++ [l]) = h.
Proof. intros h l. apply firstn_mid. reflexivity. Qed.

Lemma sl_read_alloc_old : forall h l s, (s_arr s < length h)%nat -> sl_read (h ++ [l]) s = sl_read h s.
Proof. intros h l s H. unfold sl_read. rewrite arr_of_alloc_old by exact H. reflexivity. Qed.

Lemma slice_ok_alloc : forall h l s, slice_ok h s -> slice_ok (h ++ [l]) s.
Proof.
  intros h l s (H1 & H2 & H3). unfold slice_ok. rewrite length_alloc, arr_of_alloc_old by exact H1.
  repeat split; try assumption. lia.
Qed.

Lemma arr_of_oob : forall h a, (length h <= a)%nat -> arr_of h a = [].
Proof. intros h a H. unfold arr_of. apply nth_overflow. exact H. Qed.

(* ---- slices *)

Lemma length_sl_read : forall h s, slice_ok h s -> length (sl_read h s) = s_len s.
Proof.
  intros h s (H1 & H2 & H3). unfold sl_read. rewrite firstn_length_le; [reflexivity|].
  rewrite skipn_length. lia.
Qed.

(* the array of a well-formed slice: what is before the window, the window, what is after *)
Lemma slice_split : forall h s, slice_ok h s ->
  exists P Q, arr_of h (s_arr s) = P ++ sl_read h s ++ Q /\ length P = s_off s.
Proof.
  intros h s Hok. pose proof Hok as (H1 & H2 & H3).
  exists (firstn (s_off s) (arr_of h (s_arr s))),
         (skipn (s_len s) (skipn (s_off s) (arr_of h (s_arr s)))).
  split.
  - unfold sl_read. rewrite firstn_skipn, firstn_skipn. reflexivity.
  - apply firstn_length_le. lia.
Qed.

Lemma nth_sl_read : forall h s k d, (k < s_len s)%nat ->
  nth k (sl_read h s) d = nth (s_off s + k) (arr_of h (s_arr s)) d.
Proof.
  intros h s k d H. unfold sl_read. rewrite nth_firstn_lt by exact H. apply nth_skipn_add.
Qed.

(* a[lo:lo+n] reads as the corresponding part of a *)
Lemma sl_read_sub : forall h a o len c lo n c', (lo + n <= len)%nat ->
  sl_read h (Slice a (o + lo) n c') = firstn n (skipn lo (sl_read h (Slice a o len c))).
Proof.
  intros h a o len c lo n c' H. unfold sl_read. cbn [s_len s_off s_arr].
  rewrite skipn_firstn_comm, firstn_firstn, skipn_skipn_add.
  replace (Nat.min n (len - lo)) with n by lia. reflexivity.
Qed.

(* a shorter header over the same window start *)
Lemma sl_read_shorter : forall h a o len c n c', (n <= len)%nat ->
  sl_read h (Slice a o n c') = firstn n (sl_read h (Slice a o len c)).
Proof.
  intros h a o len c n c' H. unfold sl_read. cbn [s_len s_off s_arr].
  rewrite firstn_firstn. replace (Nat.min n len) with n by lia. reflexivity.
Qed.

(* writing [ys] over the part [m] of a slice that reads [d ++ m ++ r] *)
Lemma sl_read_write_mid : forall h s d m r ys, slice_ok h s ->
  sl_read h s = d ++ m ++ r -> length ys = length m ->
  sl_read (heap_write h (s_arr s) (s_off s + length d) ys) s = d ++ ys ++ r.
Proof.
  intros h s d m r ys Hok Hr Hl. destruct (slice_split h s Hok) as (P & Q & Harr & HP).
  pose proof (length_sl_read h s Hok) as Hlen. pose proof Hok as (H1 & _).
  unfold sl_read at 1. rewrite arr_of_heap_write_same by exact H1. rewrite Harr, Hr.
  replace (P ++ (d ++ m ++ r) ++ Q) with ((P ++ d) ++ m ++ (r ++ Q))
    by (rewrite <- !app_assoc; reflexivity).
  rewrite write_at_mid by (rewrite ?app_length; lia).
  replace ((P ++ d) ++ ys ++ r ++ Q) with (P ++ (d ++ ys ++ r) ++ Q)
    by (rewrite <- !app_assoc; reflexivity).
  apply read_mid; [lia|]. rewrite <- Hlen, Hr, !app_length. lia.
Qed.

(* one element *)
Lemma sl_read_write_one : forall h s d x r y, slice_ok h s ->
  sl_read h s = d ++ x :: r ->
  sl_read (heap_write h (s_arr s) (s_off s + length d) [y]) s = d ++ y :: r.
Proof.
  intros h s d x r y Hok Hr. apply (sl_read_write_mid h s d [x] r [y] Hok Hr eq_refl).
Qed.

(* writing outside the window of a slice of the same array *)
Lemma sl_read_write_after : forall h s o ys, slice_ok h s -> (s_off s + s_len s <= o)%nat ->
  sl_read (heap_write h (s_arr s) o ys) s = sl_read h s.
Proof.
  intros h s o ys Hok Ho. destruct (slice_split h s Hok) as (P & Q & Harr & HP).
  pose proof (length_sl_read h s Hok) as Hlen. pose proof Hok as (H1 & _).
  unfold sl_read at 1. rewrite arr_of_heap_write_same by exact H1.
  destruct (Nat.le_gt_cases (o + length ys) (length (arr_of h (s_arr s)))) as [Hfit|Hnofit].
  - rewrite write_at_spec by exact Hfit. rewrite Harr.
    replace (P ++ sl_read h s ++ Q) with ((P ++ sl_read h s) ++ Q) by (rewrite <- app_assoc; reflexivity).
    rewrite firstn_app.
    rewrite (firstn_all2 (n := o)) by (rewrite app_length; lia).
    rewrite <- !app_assoc. apply read_mid; [lia|lia].
  - (* the write runs over the end of the array: still nothing before [o] changes *)
    clear Hnofit. revert Ho. rewrite <- HP, <- Hlen. rewrite Harr.
    generalize (sl_read h s) as M. intros M Ho.
    replace (P ++ M ++ Q) with ((P ++ M) ++ Q) by (rewrite <- app_assoc; reflexivity).
    assert (Hgen : forall (X : list Z) o Y, (length X <= o)%nat ->
              exists Y', write_at o ys (X ++ Y) = X ++ Y').
    { induction X as [|x X IH]; intros o0 Y H0.
      - eexists. reflexivity.
      - destruct o0 as [|o0]; [cbn [length] in H0; lia|]. cbn [app write_at].
        destruct (IH o0 Y) as (Y' & E); [cbn [length] in H0; lia|]. rewrite E. eexists. reflexivity. }
    destruct (Hgen (P ++ M) o Q) as (Y' & E); [rewrite app_length; lia|].
    rewrite E, <- app_assoc. apply read_mid; reflexivity.
Qed.

(* readback of int-slice values only looks at the arrays they name *)
Lemma sl_read_ext : forall h h' s, arr_of h' (s_arr s) = arr_of h (s_arr s) -> sl_read h' s = sl_read h s.
Proof. intros h h' s H. unfold sl_read. rewrite H. reflexivity. Qed.

(* ---- small facts used when stepping *)

Lemma idx_in : forall k n, 0 <= k < Z.of_nat n -> (0 <=? k) && (k <? Z.of_nat n) = true.
Proof. intros k n H. apply andb_true_intro. split; [apply Z.leb_le|apply Z.ltb_lt]; lia. Qed.

Lemma idx_out : forall k n, ~ (0 <= k < Z.of_nat n) -> (0 <=? k) && (k <? Z.of_nat n) = false.
Proof.
  intros k n H. destruct (0 <=? k) eqn:E1; [|reflexivity]. destruct (k <? Z.of_nat n) eqn:E2; [|reflexivity].
  apply Z.leb_le in E1. apply Z.ltb_lt in E2. lia.
Qed.

Lemma sub_in : forall lo hi c, 0 <= lo <= hi -> hi <= Z.of_nat c ->
  (0 <=? lo) && (lo <=? hi) && (hi <=? Z.of_nat c) = true.
Proof. intros lo hi c H1 H2. repeat (apply andb_true_intro; split); apply Z.leb_le; lia. Qed.

(* ---- more rules and heap facts used by the function proofs *)

Lemma runs_make : forall fe x n st k, eval st n = EV (VInt k) -> 0 <= k ->
  runs fe (SMake x n) st
    (ONormal (St (upd x (VSl (Slice (length (hp st)) O (Z.to_nat k) (Z.to_nat k))) (locals st))
                 (hp st ++ [repeat 0 (Z.to_nat k)]))).
Proof.
  intros fe x n st k H Hk. exists 1%nat. split; [|discriminate]. cbn [exec]. rewrite H. cbn [of_eres].
  destruct (k <? 0) eqn:E; [apply Z.ltb_lt in E; lia|]. reflexivity.
Qed.

Lemma set_arr_alloc_new : forall (h : heap) X l, set_arr (length h) l (h ++ [X]) = h ++ [l].
Proof.
  induction h as [|x h IH]; intros X l; [reflexivity|]. cbn [length app set_arr]. rewrite IH. reflexivity.
Qed.

Lemma heap_write_alloc_new : forall (h : heap) X o ys,
  heap_write (h ++ [X]) (length h) o ys = h ++ [write_at o ys X].
Proof. intros h X o ys. unfold heap_write. rewrite arr_of_alloc_new. apply set_arr_alloc_new. Qed.

Lemma set_arr_alloc_old : forall a l (h : heap) X, (a < length h)%nat ->
  set_arr a l (h ++ [X]) = set_arr a l h ++ [X].
Proof.
  induction a as [|a IH]; intros l h X H; destruct h as [|x h]; cbn [length] in H; try lia.
  - reflexivity.
  - cbn [app set_arr]. rewrite IH by lia. reflexivity.
Qed.

Lemma heap_write_alloc_old : forall (h : heap) X a o ys, (a < length h)%nat ->
  heap_write (h ++ [X]) a o ys = heap_write h a o ys ++ [X].
Proof.
  intros h X a o ys H. unfold heap_write. rewrite arr_of_alloc_old by exact H.
  apply set_arr_alloc_old. exact H.
Qed.

Lemma slice_ok_ext : forall h h' s, length h' = length h ->
  length (arr_of h' (s_arr s)) = length (arr_of h (s_arr s)) -> slice_ok h s -> slice_ok h' s.
Proof. intros h h' s H1 H2 (A & B & C). unfold slice_ok. rewrite H1, H2. repeat split; assumption. Qed.

Lemma firstn_S_nth : forall (l : list Z) j d, (j < length l)%nat ->
  firstn (S j) l = firstn j l ++ [nth j l d].
Proof.
  induction l as [|x l IH]; intros j d H; cbn [length] in H; [lia|].
  destruct j as [|j]; [reflexivity|]. cbn [firstn nth app]. rewrite <- IH by lia. reflexivity.
Qed.

Lemma leb_in : forall a b : nat, (a <= b)%nat -> (a <=? b)%nat = true.
Proof. intros a b H. apply Nat.leb_le. exact H. Qed.

(* ---- reading an element / a bool through a header *)

Lemma eval_idx_sl : forall st a i s k, eval st a = EV (VSl s) -> eval st i = EV (VInt (Z.of_nat k)) ->
  (k < s_len s)%nat ->
  eval st (EIdx a i) = EV (VInt (nth k (sl_read (hp st) s) 0)).
Proof.
  intros st a i s k Ha Hi Hk. cbn [eval]. rewrite Ha, Hi. cbn [ebind as_int].
  rewrite idx_in by lia. rewrite Nat2Z.id, nth_sl_read by exact Hk. reflexivity.
Qed.

Lemma eval_idx_oob : forall st a i s k, eval st a = EV (VSl s) -> eval st i = EV (VInt k) ->
  ~ (0 <= k < Z.of_nat (s_len s)) ->
  eval st (EIdx a i) = EPanic.
Proof.
  intros st a i s k Ha Hi Hk. cbn [eval]. rewrite Ha, Hi. cbn [ebind as_int].
  rewrite idx_out by exact Hk. reflexivity.
Qed.

Lemma eval_idxb_sl : forall st a i s k, eval st a = EV (VSl s) -> eval st i = EV (VInt (Z.of_nat k)) ->
  (k < s_len s)%nat ->
  eval st (EIdxB a i) = EV (VBool (negb (nth k (sl_read (hp st) s) 0 =? 0))).
Proof.
  intros st a i s k Ha Hi Hk. cbn [eval]. rewrite Ha, Hi. cbn [ebind as_int].
  rewrite idx_in by lia. rewrite Nat2Z.id, nth_sl_read by exact Hk. reflexivity.
Qed.

(* [a[i] = e] on an int slice / a bool slice *)
Lemma runs_setidx : forall fe a i e st s k z, eval st a = EV (VSl s) -> eval st i = EV (VInt k) ->
  eval st e = EV (VInt z) -> 0 <= k < Z.of_nat (s_len s) ->
  runs fe (SSetIdx a i e) st
    (ONormal (St (locals st) (heap_write (hp st) (s_arr s) (s_off s + Z.to_nat k) [z]))).
Proof.
  intros fe a i e st s k z Ha Hi He Hk. exists 1%nat. split; [|discriminate]. cbn [exec].
  rewrite Ha, Hi, He. cbn [of_eres]. rewrite idx_in by exact Hk. reflexivity.
Qed.

Lemma runs_setidx_bool : forall fe a i e st s k (b : bool), eval st a = EV (VSl s) -> eval st i = EV (VInt k) ->
  eval st e = EV (VBool b) -> 0 <= k < Z.of_nat (s_len s) ->
  runs fe (SSetIdx a i e) st
    (ONormal (St (locals st) (heap_write (hp st) (s_arr s) (s_off s + Z.to_nat k) [if b then 1 else 0]))).
Proof.
  intros fe a i e st s k b Ha Hi He Hk. exists 1%nat. split; [|discriminate]. cbn [exec].
  rewrite Ha, Hi, He. cbn [of_eres]. rewrite idx_in by exact Hk. reflexivity.
Qed.

(* the k-th element of what a slice reads, after one write at k *)
Lemma sl_read_write_nth : forall h s k y, slice_ok h s -> (k < s_len s)%nat ->
  sl_read (heap_write h (s_arr s) (s_off s + k) [y]) s =
  firstn k (sl_read h s) ++ y :: skipn (S k) (sl_read h s).
Proof.
  intros h s k y Hok Hk. pose proof (length_sl_read h s Hok) as Hlen.
  assert (E : sl_read h s = firstn k (sl_read h s) ++ nth k (sl_read h s) 0 :: skipn (S k) (sl_read h s)).
  { rewrite <- (firstn_skipn k (sl_read h s)) at 1. f_equal.
    rewrite <- (firstn_skipn 1 (skipn k (sl_read h s))) at 1. rewrite skipn_skipn_add.
    replace (k + 1)%nat with (S k) by lia. f_equal.
    destruct (skipn k (sl_read h s)) as [|x r] eqn:Es.
    - apply (f_equal (@List.length Z)) in Es. rewrite skipn_length in Es. cbn [length] in Es. lia.
    - cbn [firstn app]. f_equal.
      rewrite <- (Nat.add_0_r k) at 1. rewrite <- nth_skipn_add, Es. reflexivity. }
  pose proof (sl_read_write_one h s (firstn k (sl_read h s)) _ _ y Hok E) as W.
  rewrite firstn_length_le in W by lia. exact W.
Qed.
