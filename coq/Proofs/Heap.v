(* Proofs/Heap.v -- proofs about Model/Heap.v (the decision heap of gophersat,
   solver/queue.go, and its users in solver/solver.go).

   What the code really maintains.  cleanupBindings inserts every variable it
   puts back TWICE (solver.go:326 and :332) and rebuildOrderHeap hands
   nbVars copies of variable 0 to build (solver.go:375), so [content] is a
   multiset with duplicates and [indices[v]] can be -1 although v is in
   [content].  The invariant that survives everything is the one-directional

     heap_ix act q :=  every element of content is a valid index of indices
                       and of activity, and
                       indices[v] = z >= 0  ->  content[z] = v

   ([contains q v = true -> In v (content q)], not the converse).  It is
   enough for: no crash, no fuel exhaustion, every operation permutes /
   extends / shrinks [content] as expected, and [covers] (every unbound
   variable is in the heap) is never lost.  The heap ORDER is kept by insert,
   removeMin and build whatever the duplicates, but by decrease only when the
   bumped variable occurs once.  The textbook invariant ([heap_strict]: no
   duplicates, [contains] exact) is kept by every queue.go function used as
   intended, and broken by cleanupBindings and rebuildOrderHeap.          *)
From Coq Require Import List ZArith Lia Bool Permutation Arith.
From GS Require Import Model.Heap.
Import ListNotations.

(* ================================================================== *)
(* 0. Lists: put / nth_error                                           *)

Lemma length_put : forall (A : Type) (l : list A) i a, length (put l i a) = length l.
Proof.
  intros A l; induction l as [|h t IH]; intros [|i] a; cbn [put length]; auto.
Qed.

Lemma nth_error_put_eq : forall (A : Type) (l : list A) i a,
  i < length l -> nth_error (put l i a) i = Some a.
Proof.
  intros A l; induction l as [|h t IH]; intros [|i] a Hi; cbn [length] in Hi; try lia;
    cbn [put nth_error]; auto.
  apply IH; lia.
Qed.

Lemma nth_error_put_ne : forall (A : Type) (l : list A) i k a,
  k <> i -> nth_error (put l i a) k = nth_error l k.
Proof.
  intros A l; induction l as [|h t IH]; intros [|i] [|k] a Hk; cbn [put nth_error]; auto;
    try congruence.
Qed.

Lemma put_put_same : forall (A : Type) (l : list A) i a b, put (put l i a) i b = put l i b.
Proof.
  intros A l; induction l as [|h t IH]; intros [|i] a b; cbn [put]; auto.
  now rewrite IH.
Qed.

Lemma put_same : forall (A : Type) (l : list A) i a, nth_error l i = Some a -> put l i a = l.
Proof.
  intros A l; induction l as [|h t IH]; intros [|i] a H; cbn [put nth_error] in *;
    try discriminate; auto.
  - now inversion H.
  - now rewrite IH.
Qed.

Lemma put_perm : forall (A : Type) (l : list A) i a b,
  nth_error l i = Some b -> Permutation (a :: l) (b :: put l i a).
Proof.
  intros A l; induction l as [|h t IH]; intros [|i] a b H; cbn [put nth_error] in *;
    try discriminate.
  - inversion H; subst. apply perm_swap.
  - eapply perm_trans; [apply perm_swap|].
    eapply perm_trans; [apply perm_skip, (IH _ _ _ H)|]. apply perm_swap.
Qed.

Lemma nth_error_lt : forall (A : Type) (l : list A) i a, nth_error l i = Some a -> i < length l.
Proof. intros A l i a H. apply nth_error_Some. congruence. Qed.

Lemma nth_error_ex : forall (A : Type) (l : list A) i, i < length l -> exists a, nth_error l i = Some a.
Proof.
  intros A l i H. destruct (nth_error l i) as [a|] eqn:E; [eauto|].
  apply nth_error_None in E. lia.
Qed.

(* moving [b] from position k into position h, and [a] from h into k *)
Definition swapped {A : Type} (l : list A) (h k : nat) (a b : A) : list A :=
  put (put l h b) k a.

Lemma swapped_nth : forall (A : Type) (l : list A) h k a b j,
  nth_error l h = Some a -> nth_error l k = Some b -> h <> k ->
  nth_error (swapped l h k a b) j =
  if j =? k then Some a else if j =? h then Some b else nth_error l j.
Proof.
  intros A l h k a b j Hh Hk Hne. unfold swapped.
  destruct (Nat.eqb_spec j k) as [->|Hjk].
  - apply nth_error_put_eq. rewrite length_put. eapply nth_error_lt; eauto.
  - rewrite nth_error_put_ne by auto.
    destruct (Nat.eqb_spec j h) as [->|Hjh].
    + apply nth_error_put_eq. eapply nth_error_lt; eauto.
    + now apply nth_error_put_ne.
Qed.

Lemma swapped_perm : forall (A : Type) (l : list A) h k a b,
  nth_error l h = Some a -> nth_error l k = Some b -> h <> k ->
  Permutation (swapped l h k a b) l.
Proof.
  intros A l h k a b Hh Hk Hne. unfold swapped.
  assert (H1 : Permutation (b :: l) (a :: put l h b)) by (apply put_perm; auto).
  assert (H2 : Permutation (a :: put l h b) (b :: put (put l h b) k a)).
  { apply put_perm. rewrite nth_error_put_ne by auto. exact Hk. }
  apply Permutation_cons_inv with (a := b). symmetry.
  eapply perm_trans; eauto.
Qed.

Lemma length_swapped : forall (A : Type) (l : list A) h k a b,
  length (swapped l h k a b) = length l.
Proof. intros. unfold swapped. now rewrite !length_put. Qed.

(* ================================================================== *)
(* 1. Evaluating the primitive accesses                                *)

Lemma get_some : forall (A : Type) (l : list A) i a, nth_error l i = Some a -> get l i = Ok a.
Proof. intros A l i a H. unfold get. now rewrite H. Qed.

Lemma upd_ok : forall (A : Type) (l : list A) i a, i < length l -> upd l i a = Ok (put l i a).
Proof.
  intros A l i a H. unfold upd. destruct (Nat.ltb_spec i (length l)); [reflexivity|lia].
Qed.

Definition key (act : list Z) (v : nat) : Z := nth v act 0%Z.

Lemma q_lt_ok : forall act i j, i < length act -> j < length act ->
  q_lt act i j = Ok (key act j <? key act i)%Z.
Proof.
  intros act i j Hi Hj. unfold q_lt, key.
  rewrite (get_some _ act i (nth i act 0%Z)) by (apply nth_error_nth'; auto).
  cbn [bind].
  rewrite (get_some _ act j (nth j act 0%Z)) by (apply nth_error_nth'; auto).
  reflexivity.
Qed.

Lemma to_pos_ok : forall n, to_pos (Z.of_nat n) = Ok n.
Proof.
  intros n. unfold to_pos. destruct (Z.ltb_spec (Z.of_nat n) 0); [lia|].
  now rewrite Nat2Z.id.
Qed.

(* heap index arithmetic *)
Lemma parent_spec : forall j, 0 < j -> j = 2 * h_parent j + 1 \/ j = 2 * h_parent j + 2.
Proof.
  intros j Hj. unfold h_parent.
  pose proof (Nat.div2_odd (j - 1)) as H.
  destruct (Nat.odd (j - 1)); cbn [Nat.b2n] in H; lia.
Qed.

Lemma parent_lt : forall j, 0 < j -> h_parent j < j.
Proof. intros j Hj. pose proof (parent_spec j Hj). lia. Qed.

Lemma parent_left : forall i, h_parent (h_left i) = i.
Proof.
  intros i. pose proof (parent_spec (h_left i)) as H. unfold h_left in *. lia.
Qed.

Lemma parent_right : forall i, h_parent (h_right i) = i.
Proof.
  intros i. pose proof (parent_spec (h_right i)) as H. unfold h_right in *. lia.
Qed.

Lemma parent_inv : forall i j, 0 < j -> h_parent j = i -> j = h_left i \/ j = h_right i.
Proof.
  intros i j Hj H. pose proof (parent_spec j Hj). unfold h_left, h_right. lia.
Qed.

(* ================================================================== *)
(* 2. Invariants                                                       *)

(* indices[v] = z >= 0  ->  content[z] = v *)
Definition ix_ok (c : list nat) (ix : list Z) : Prop :=
  forall v z, nth_error ix v = Some z -> (0 <= z)%Z -> nth_error c (Z.to_nat z) = Some v.

Definition in_range (act : list Z) (c : list nat) (ix : list Z) : Prop :=
  forall v, In v c -> v < length ix /\ v < length act.

(* the invariant every operation keeps, duplicates or not *)
Definition heap_ix (act : list Z) (q : queue) : Prop :=
  in_range act (content q) (indices q) /\ ix_ok (content q) (indices q).

(* the edge between position j and its parent respects the order *)
Definition edge_ok (act : list Z) (c : list nat) (j : nat) : Prop :=
  forall a b, nth_error c j = Some a -> nth_error c (h_parent j) = Some b ->
              (key act a <= key act b)%Z.

(* all edges whose upper end is at position >= k0; k0 = 0: a heap *)
Definition ord_from (act : list Z) (k0 : nat) (c : list nat) : Prop :=
  forall j, 0 < j -> k0 <= h_parent j -> edge_ok act c j.

Definition heap_ord (act : list Z) (c : list nat) : Prop := ord_from act 0 c.

(* what the code maintains *)
Definition heap_wf (act : list Z) (q : queue) : Prop :=
  heap_ix act q /\ heap_ord act (content q).

(* indices[v] >= 0 *)
Definition nonneg (ix : list Z) (v : nat) : Prop :=
  exists z, nth_error ix v = Some z /\ (0 <= z)%Z.

(* the textbook invariant: no duplicates and [contains] is exact *)
Definition heap_strict (act : list Z) (q : queue) : Prop :=
  heap_wf act q /\ NoDup (content q) /\
  forall v, In v (content q) -> contains q v = true.

Lemma contains_nonneg : forall q v, contains q v = true <-> nonneg (indices q) v.
Proof.
  intros q v. unfold contains, nonneg. split.
  - intros H. apply andb_true_iff in H. destruct H as [H1 H2].
    apply Nat.ltb_lt in H1. apply Z.leb_le in H2.
    exists (nth v (indices q) (-1)%Z). split; [apply nth_error_nth'; auto|auto].
  - intros [z [H1 H2]]. apply andb_true_iff. split.
    + apply Nat.ltb_lt. eapply nth_error_lt; eauto.
    + apply Z.leb_le. now rewrite (nth_error_nth _ _ _ H1).
Qed.

(* contains is sound on every heap the code can build *)
Lemma contains_sound : forall act q v, heap_ix act q -> contains q v = true -> In v (content q).
Proof.
  intros act q v [_ Hix] H. apply contains_nonneg in H. destruct H as [z [H1 H2]].
  eapply nth_error_In. eapply Hix; eauto.
Qed.

Lemma contains_complete : forall act q v, heap_strict act q -> In v (content q) -> contains q v = true.
Proof. intros act q v [_ [_ H]]. apply H. Qed.

(* ---- what a percolation may do to the two slices ---- *)
Definition step_rel (vc : list nat) (ix : list Z) (vc' : list nat) (ix' : list Z) : Prop :=
  Permutation vc' vc /\ length ix' = length ix /\
  (forall v, nonneg ix v -> nonneg ix' v) /\
  (forall v, ~ In v vc -> nth_error ix' v = nth_error ix v).

Lemma step_rel_refl : forall vc ix, step_rel vc ix vc ix.
Proof. intros. repeat split; auto. Qed.

Lemma step_rel_trans : forall vc ix vc1 ix1 vc2 ix2,
  step_rel vc ix vc1 ix1 -> step_rel vc1 ix1 vc2 ix2 -> step_rel vc ix vc2 ix2.
Proof.
  intros vc ix vc1 ix1 vc2 ix2 [P1 [L1 [M1 F1]]] [P2 [L2 [M2 F2]]].
  repeat split.
  - eapply perm_trans; eauto.
  - congruence.
  - auto.
  - intros v Hv. rewrite F2, F1; auto.
    intros Hin. apply Hv. eapply Permutation_in; eauto.
Qed.

(* ---- the loop invariant: x is held out of the slice, position h ("the
   hole") holds a stale value; [vc] is the slice with x written in the hole *)
Definition vinv (act : list Z) (x : nat) (vc : list nat) (ix : list Z) : Prop :=
  in_range act vc ix /\
  forall v z, v <> x -> nth_error ix v = Some z -> (0 <= z)%Z ->
              nth_error vc (Z.to_nat z) = Some v.

(* one iteration of either loop: b moves from k into the hole h *)
Lemma vinv_step : forall act x vc ix h k b,
  vinv act x vc ix -> nth_error vc h = Some x -> nth_error vc k = Some b ->
  b <> x -> h <> k ->
  vinv act x (swapped vc h k x b) (put ix b (Z.of_nat h)) /\
  step_rel vc ix (swapped vc h k x b) (put ix b (Z.of_nat h)).
Proof.
  intros act x vc ix h k b [Hr Hi] Hh Hk Hbx Hhk.
  assert (HP : Permutation (swapped vc h k x b) vc) by (apply swapped_perm; auto).
  assert (Hb : b < length ix) by (apply Hr; eapply nth_error_In; eauto).
  split; [split|].
  - intros v Hv. rewrite length_put. apply Hr. eapply Permutation_in; eauto.
  - intros v z Hvx Hz Hz0.
    rewrite (swapped_nth _ vc h k x b _ Hh Hk Hhk).
    destruct (Nat.eq_dec v b) as [->|Hvb].
    + rewrite nth_error_put_eq in Hz by auto. inversion Hz; subst z.
      rewrite Nat2Z.id.
      destruct (Nat.eqb_spec h k); [congruence|]. now rewrite Nat.eqb_refl.
    + rewrite nth_error_put_ne in Hz by auto.
      pose proof (Hi v z Hvx Hz Hz0) as Hv.
      destruct (Nat.eqb_spec (Z.to_nat z) k) as [E|_]; [rewrite E in Hv; congruence|].
      destruct (Nat.eqb_spec (Z.to_nat z) h) as [E|_]; [rewrite E in Hv; congruence|].
      exact Hv.
  - repeat split; auto.
    + apply length_put.
    + intros v [z [Hz Hz0]]. destruct (Nat.eq_dec v b) as [->|Hvb].
      * exists (Z.of_nat h). split; [apply nth_error_put_eq; auto|lia].
      * exists z. split; [rewrite nth_error_put_ne; auto|auto].
    + intros v Hv. apply nth_error_put_ne. intros ->. apply Hv.
      eapply nth_error_In; eauto.
Qed.

(* the final two writes content[h] = x; indices[x] = h *)
Lemma vinv_final : forall act x vc ix h,
  vinv act x vc ix -> nth_error vc h = Some x ->
  heap_ix act (Q vc (put ix x (Z.of_nat h))) /\
  step_rel vc ix vc (put ix x (Z.of_nat h)).
Proof.
  intros act x vc ix h [Hr Hi] Hh.
  assert (Hx : x < length ix) by (apply Hr; eapply nth_error_In; eauto).
  split; [split|].
  - intros v Hv. cbn [content indices] in *. rewrite length_put. auto.
  - intros v z Hz Hz0. cbn [content indices] in *.
    destruct (Nat.eq_dec v x) as [->|Hvx].
    + rewrite nth_error_put_eq in Hz by auto. inversion Hz; subst z.
      now rewrite Nat2Z.id.
    + rewrite nth_error_put_ne in Hz by auto. eauto.
  - repeat split; auto.
    + apply length_put.
    + intros v [z [Hz Hz0]]. destruct (Nat.eq_dec v x) as [->|Hvx].
      * exists (Z.of_nat h). split; [apply nth_error_put_eq; auto|lia].
      * exists z. split; [rewrite nth_error_put_ne; auto|auto].
    + intros v Hv. apply nth_error_put_ne. intros ->. apply Hv.
      eapply nth_error_In; eauto.
Qed.

Lemma vinv_init : forall act x c ix, heap_ix act (Q c ix) -> vinv act x c ix.
Proof. intros act x c ix [Hr Hi]. split; [exact Hr|]. intros v z _. apply Hi. Qed.

(* ================================================================== *)
(* 3. Heap order through one percolation step                          *)

(* percolateUp with the hole at i: every edge but the one above i is fine,
   and the children of i are below the parent of i                       *)
Definition up_pre (act : list Z) (vc : list nat) (i : nat) : Prop :=
  (forall j, 0 < j -> j <> i -> edge_ok act vc j) /\
  (0 < i -> forall j a b, 0 < j -> h_parent j = i -> nth_error vc j = Some a ->
            nth_error vc (h_parent i) = Some b -> (key act a <= key act b)%Z).

Lemma up_pre_step : forall act vc i x cp,
  up_pre act vc i -> 0 < i -> nth_error vc i = Some x ->
  nth_error vc (h_parent i) = Some cp -> (key act cp < key act x)%Z ->
  up_pre act (swapped vc i (h_parent i) x cp) (h_parent i).
Proof.
  intros act vc i x cp [He Hg] Hi Hx Hcp Hlt.
  pose proof (parent_lt i Hi) as Hpi.
  assert (Hne : i <> h_parent i) by lia.
  assert (SW := fun j => swapped_nth _ vc i (h_parent i) x cp j Hx Hcp Hne).
  split.
  - intros j Hj Hjp a b Ha Hb. rewrite SW in Ha, Hb.
    pose proof (parent_lt j Hj) as Hpj.
    destruct (Nat.eqb_spec j (h_parent i)) as [|_]; [contradiction|].
    destruct (Nat.eqb_spec j i) as [->|Hji].
    + rewrite Nat.eqb_refl in Hb. inversion Ha; inversion Hb; subst. lia.
    + destruct (Nat.eqb_spec (h_parent j) (h_parent i)) as [E|Hpp].
      * inversion Hb; subst b.
        assert (key act a <= key act cp)%Z; [|lia].
        apply (He j Hj Hji a cp Ha). now rewrite E.
      * destruct (Nat.eqb_spec (h_parent j) i) as [E|Hpji].
        -- inversion Hb; subst b. apply (Hg Hi j a cp Hj E Ha Hcp).
        -- apply (He j Hj Hji a b Ha Hb).
  - intros Hp j a b Hj Hjp Ha Hb. rewrite SW in Ha, Hb.
    pose proof (parent_lt _ Hp) as Hpp. pose proof (parent_lt j Hj) as Hpj.
    destruct (Nat.eqb_spec (h_parent (h_parent i)) (h_parent i)) as [|_]; [lia|].
    destruct (Nat.eqb_spec (h_parent (h_parent i)) i) as [|_]; [lia|].
    assert (Hpe : (key act cp <= key act b)%Z).
    { apply (He (h_parent i) Hp ltac:(lia) cp b Hcp Hb). }
    destruct (Nat.eqb_spec j (h_parent i)) as [|_]; [lia|].
    destruct (Nat.eqb_spec j i) as [->|Hji].
    + inversion Ha; subst a. exact Hpe.
    + assert (key act a <= key act cp)%Z; [|lia].
      apply (He j Hj Hji a cp Ha). now rewrite Hjp.
Qed.

Lemma up_pre_done0 : forall act vc, up_pre act vc 0 -> heap_ord act vc.
Proof. intros act vc [He _] j Hj _. apply He; lia. Qed.

Lemma up_pre_done : forall act vc i x cp,
  up_pre act vc i -> nth_error vc i = Some x -> nth_error vc (h_parent i) = Some cp ->
  (key act x <= key act cp)%Z -> heap_ord act vc.
Proof.
  intros act vc i x cp [He _] Hx Hcp Hle j Hj _.
  destruct (Nat.eq_dec j i) as [->|Hji]; [|apply He; auto].
  intros a b Ha Hb. rewrite Hx in Ha. rewrite Hcp in Hb. inversion Ha; inversion Hb; subst. exact Hle.
Qed.

(* percolateDown with the hole at i: every edge with its upper end at
   position >= k0 is fine but those below i, and the children of i are below
   the parent of i (when that parent is at position >= k0)                 *)
Definition down_pre (act : list Z) (k0 : nat) (vc : list nat) (i : nat) : Prop :=
  (forall j, 0 < j -> k0 <= h_parent j -> h_parent j <> i -> edge_ok act vc j) /\
  (0 < i -> k0 <= h_parent i -> forall j a b, 0 < j -> h_parent j = i ->
            nth_error vc j = Some a -> nth_error vc (h_parent i) = Some b ->
            (key act a <= key act b)%Z).

Lemma down_pre_step : forall act k0 vc i x ch cc,
  down_pre act k0 vc i -> k0 <= i -> nth_error vc i = Some x ->
  0 < ch -> h_parent ch = i -> nth_error vc ch = Some cc ->
  (key act x < key act cc)%Z ->
  (forall j a, 0 < j -> h_parent j = i -> nth_error vc j = Some a ->
               (key act a <= key act cc)%Z) ->
  down_pre act k0 (swapped vc i ch x cc) ch.
Proof.
  intros act k0 vc i x ch cc [He Hg] Hk Hx Hch Hpc Hcc Hlt Hmax.
  pose proof (parent_lt ch Hch) as Hlt1.
  assert (Hne : i <> ch) by lia.
  assert (SW := fun j => swapped_nth _ vc i ch x cc j Hx Hcc Hne).
  split.
  - intros j Hj Hkj Hjc a b Ha Hb. rewrite SW in Ha, Hb.
    pose proof (parent_lt j Hj) as Hpj.
    destruct (Nat.eqb_spec (h_parent j) ch) as [|_]; [contradiction|].
    destruct (Nat.eqb_spec j ch) as [->|Hjch].
    + rewrite Hpc, Nat.eqb_refl in Hb. inversion Ha; inversion Hb; subst. lia.
    + destruct (Nat.eqb_spec j i) as [->|Hji].
      * inversion Ha; subst a.
        destruct (Nat.eqb_spec (h_parent i) i) as [|_]; [lia|].
        apply (Hg Hj Hkj ch cc b Hch Hpc Hcc Hb).
      * destruct (Nat.eqb_spec (h_parent j) i) as [E|Hpji].
        -- inversion Hb; subst b. apply (Hmax j a Hj E Ha).
        -- apply (He j Hj Hkj Hpji a b Ha Hb).
  - intros _ _ j a b Hj Hjp Ha Hb. rewrite SW in Ha, Hb.
    pose proof (parent_lt j Hj) as Hpj.
    rewrite Hpc in Hb.
    destruct (Nat.eqb_spec i ch) as [|_]; [lia|]. rewrite Nat.eqb_refl in Hb.
    inversion Hb; subst b.
    destruct (Nat.eqb_spec j ch) as [|_]; [lia|].
    destruct (Nat.eqb_spec j i) as [|_]; [lia|].
    apply (He j Hj ltac:(lia) ltac:(lia) a cc Ha). now rewrite Hjp.
Qed.

Lemma down_pre_done : forall act k0 vc i x,
  down_pre act k0 vc i -> nth_error vc i = Some x ->
  (forall j a, 0 < j -> h_parent j = i -> nth_error vc j = Some a ->
               (key act a <= key act x)%Z) ->
  ord_from act k0 vc.
Proof.
  intros act k0 vc i x [He _] Hx Hmax j Hj Hk.
  destruct (Nat.eq_dec (h_parent j) i) as [E|Hne]; [|apply He; auto].
  intros a b Ha Hb. rewrite E, Hx in Hb. inversion Hb; subst b. eapply Hmax; eauto.
Qed.

(* ================================================================== *)
(* 4. The two loops                                                    *)

Lemma up_loop_ok : forall act x fuel c ix i,
  i < fuel -> i < length c -> vinv act x (put c i x) ix ->
  exists c' ix' i', up_loop act fuel c ix x i = Ok (c', ix', i') /\ i' < length c' /\
    vinv act x (put c' i' x) ix' /\ step_rel (put c i x) ix (put c' i' x) ix' /\
    (up_pre act (put c i x) i -> heap_ord act (put c' i' x)).
Proof.
  intros act x fuel; induction fuel as [|f IH]; intros c ix i Hf Hi Hv; [lia|].
  cbn [up_loop].
  destruct (Nat.eqb_spec i 0) as [->|Hi0].
  { exists c, ix, 0. split; [reflexivity|]. split; [exact Hi|]. split; [exact Hv|].
    split; [apply step_rel_refl|apply up_pre_done0]. }
  assert (Hi1 : 0 < i) by lia.
  pose proof (parent_lt i Hi1) as Hp.
  destruct (nth_error_ex _ c (h_parent i) ltac:(lia)) as [cp Hcp].
  assert (Hx : nth_error (put c i x) i = Some x) by (apply nth_error_put_eq; auto).
  assert (Hcp' : nth_error (put c i x) (h_parent i) = Some cp)
    by (rewrite nth_error_put_ne; auto; lia).
  destruct Hv as [Hr Hix].
  destruct (Hr x (nth_error_In _ _ Hx)) as [Hx1 Hx2].
  destruct (Hr cp (nth_error_In _ _ Hcp')) as [Hc1 Hc2].
  rewrite (get_some _ _ _ _ Hcp). cbn [bind].
  rewrite (q_lt_ok act x cp Hx2 Hc2). cbn [bind].
  destruct (Z.ltb_spec (key act cp) (key act x)) as [Hlt|Hge]; cbn [negb].
  - rewrite (upd_ok _ c i cp Hi). cbn [bind].
    rewrite (get_some _ (put c i cp) (h_parent i) cp)
      by (rewrite nth_error_put_ne; auto; lia).
    cbn [bind]. rewrite (upd_ok _ ix cp _ Hc1). cbn [bind].
    assert (E : put (put c i cp) (h_parent i) x = swapped (put c i x) i (h_parent i) x cp)
      by (unfold swapped; now rewrite put_put_same).
    assert (Hbx : cp <> x) by (intros ->; lia).
    destruct (vinv_step act x (put c i x) ix i (h_parent i) cp (conj Hr Hix) Hx Hcp' Hbx
                ltac:(lia)) as [Hv1 Hs1].
    rewrite <- E in Hv1, Hs1.
    destruct (IH (put c i cp) (put ix cp (Z.of_nat i)) (h_parent i) ltac:(lia)
                 ltac:(rewrite length_put; lia) Hv1)
      as [c' [ix' [i' [Hrun [Hi' [Hv' [Hs' Ho']]]]]]].
    exists c', ix', i'. split; [exact Hrun|]. split; [exact Hi'|]. split; [exact Hv'|].
    split; [eapply step_rel_trans; eauto|].
    intros Hpre. apply Ho'. rewrite E. apply up_pre_step; auto.
  - exists c, ix, i. split; [reflexivity|]. split; [exact Hi|]. split; [split; auto|].
    split; [apply step_rel_refl|].
    intros Hpre. eapply up_pre_done; eauto.
Qed.

(* queue.go:51-62 *)
Lemma percolate_up_ok : forall act c ix i,
  heap_ix act (Q c ix) -> i < length c ->
  exists q', percolate_up act (Q c ix) i = Ok q' /\ heap_ix act q' /\
    step_rel c ix (content q') (indices q') /\
    (up_pre act c i -> heap_ord act (content q')).
Proof.
  intros act c ix i Hq Hi. unfold percolate_up. cbn [content indices].
  destruct (nth_error_ex _ c i Hi) as [x Hx].
  rewrite (get_some _ _ _ _ Hx). cbn [bind].
  pose proof (put_same _ c i x Hx) as Eput.
  assert (Hv : vinv act x (put c i x) ix) by (rewrite Eput; now apply vinv_init).
  destruct (up_loop_ok act x (S i) c ix i ltac:(lia) Hi Hv)
    as [c' [ix' [i' [Hrun [Hi' [Hv' [Hs' Ho']]]]]]].
  rewrite Hrun. cbn [bind].
  rewrite (upd_ok _ c' i' x Hi'). cbn [bind].
  assert (Hx' : nth_error (put c' i' x) i' = Some x) by (apply nth_error_put_eq; auto).
  assert (Hxl : x < length ix').
  { destruct Hv' as [Hr' _]. apply Hr'. eapply nth_error_In; eauto. }
  rewrite (upd_ok _ ix' x _ Hxl). cbn [bind].
  destruct (vinv_final act x (put c' i' x) ix' i' Hv' Hx') as [Hq' Hs2].
  eexists. split; [reflexivity|]. cbn [content indices].
  split; [exact Hq'|]. rewrite Eput in Hs', Ho'.
  split; [eapply step_rel_trans; eauto|exact Ho'].
Qed.

(* queue.go:67-72 *)
Lemma pick_child_ok : forall act x c ix i,
  vinv act x (put c i x) ix -> i < length c -> h_left i < length c ->
  exists ch cc, pick_child act c i = Ok ch /\ 0 < ch /\ h_parent ch = i /\
    nth_error c ch = Some cc /\
    forall j a, 0 < j -> h_parent j = i -> nth_error (put c i x) j = Some a ->
                (key act a <= key act cc)%Z.
Proof.
  intros act x c ix i [Hr _] Hi Hl. unfold pick_child.
  assert (Hli : h_left i <> i) by (unfold h_left; lia).
  assert (Hri : h_right i <> i) by (unfold h_right; lia).
  destruct (nth_error_ex _ c (h_left i) Hl) as [cl Hcl].
  assert (Hcl' : nth_error (put c i x) (h_left i) = Some cl)
    by (rewrite nth_error_put_ne; auto).
  destruct (Nat.ltb_spec (h_right i) (length c)) as [Hrt|Hrt].
  - destruct (nth_error_ex _ c (h_right i) Hrt) as [cr Hcr].
    assert (Hcr' : nth_error (put c i x) (h_right i) = Some cr)
      by (rewrite nth_error_put_ne; auto).
    destruct (Hr cl (nth_error_In _ _ Hcl')) as [_ Hl2].
    destruct (Hr cr (nth_error_In _ _ Hcr')) as [_ Hr2].
    rewrite (get_some _ _ _ _ Hcr). cbn [bind].
    rewrite (get_some _ _ _ _ Hcl). cbn [bind].
    rewrite (q_lt_ok act cr cl Hr2 Hl2). cbn [bind].
    destruct (Z.ltb_spec (key act cl) (key act cr)) as [Hlt|Hge].
    + exists (h_right i), cr. split; [reflexivity|]. split; [unfold h_right; lia|].
      split; [apply parent_right|]. split; [exact Hcr|].
      intros j a Hj Hp Ha. destruct (parent_inv i j Hj Hp) as [->| ->].
      * rewrite Hcl' in Ha. inversion Ha; subst. lia.
      * rewrite Hcr' in Ha. inversion Ha; subst. lia.
    + exists (h_left i), cl. split; [reflexivity|]. split; [unfold h_left; lia|].
      split; [apply parent_left|]. split; [exact Hcl|].
      intros j a Hj Hp Ha. destruct (parent_inv i j Hj Hp) as [->| ->].
      * rewrite Hcl' in Ha. inversion Ha; subst. lia.
      * rewrite Hcr' in Ha. inversion Ha; subst. lia.
  - exists (h_left i), cl. split; [reflexivity|]. split; [unfold h_left; lia|].
    split; [apply parent_left|]. split; [exact Hcl|].
    intros j a Hj Hp Ha. destruct (parent_inv i j Hj Hp) as [->| ->].
    + rewrite Hcl' in Ha. inversion Ha; subst. lia.
    + apply nth_error_lt in Ha. rewrite length_put in Ha. lia.
Qed.

Lemma down_loop_ok : forall act x k0 fuel c ix i,
  length c - i <= fuel -> i < length c -> k0 <= i -> vinv act x (put c i x) ix ->
  exists c' ix' i', down_loop act fuel c ix x i = Ok (c', ix', i') /\ i' < length c' /\
    vinv act x (put c' i' x) ix' /\ step_rel (put c i x) ix (put c' i' x) ix' /\
    (down_pre act k0 (put c i x) i -> ord_from act k0 (put c' i' x)).
Proof.
  intros act x k0 fuel; induction fuel as [|f IH]; intros c ix i Hf Hi Hk Hv; [lia|].
  cbn [down_loop].
  assert (Hx : nth_error (put c i x) i = Some x) by (apply nth_error_put_eq; auto).
  destruct (Nat.ltb_spec (h_left i) (length c)) as [Hl|Hl]; cbn [negb].
  2:{ exists c, ix, i. split; [reflexivity|]. split; [exact Hi|]. split; [exact Hv|].
      split; [apply step_rel_refl|].
      intros Hpre. apply (down_pre_done act k0 _ i x Hpre Hx).
      intros j a Hj Hp Ha. apply nth_error_lt in Ha. rewrite length_put in Ha.
      destruct (parent_inv i j Hj Hp) as [->| ->]; unfold h_left, h_right in *; lia. }
  destruct (pick_child_ok act x c ix i Hv Hi Hl) as [ch [cc [Epick [Hch [Hpc [Hcc Hmax]]]]]].
  rewrite Epick. cbn [bind].
  pose proof (parent_lt ch Hch) as Hlt1.
  assert (Hcc' : nth_error (put c i x) ch = Some cc)
    by (rewrite nth_error_put_ne; auto; lia).
  pose proof Hv as [Hr Hix].
  destruct (Hr x (nth_error_In _ _ Hx)) as [Hx1 Hx2].
  destruct (Hr cc (nth_error_In _ _ Hcc')) as [Hc1 Hc2].
  rewrite (get_some _ _ _ _ Hcc). cbn [bind].
  rewrite (q_lt_ok act cc x Hc2 Hx2). cbn [bind].
  destruct (Z.ltb_spec (key act x) (key act cc)) as [Hlt|Hge]; cbn [negb].
  - rewrite (upd_ok _ c i cc Hi). cbn [bind].
    rewrite (get_some _ (put c i cc) i cc) by (apply nth_error_put_eq; auto).
    cbn [bind]. rewrite (upd_ok _ ix cc _ Hc1). cbn [bind].
    assert (E : put (put c i cc) ch x = swapped (put c i x) i ch x cc)
      by (unfold swapped; now rewrite put_put_same).
    assert (Hbx : cc <> x) by (intros ->; lia).
    destruct (vinv_step act x (put c i x) ix i ch cc Hv Hx Hcc' Hbx ltac:(lia)) as [Hv1 Hs1].
    rewrite <- E in Hv1, Hs1.
    pose proof (nth_error_lt _ _ _ _ Hcc) as Hchl.
    destruct (IH (put c i cc) (put ix cc (Z.of_nat i)) ch
                 ltac:(rewrite length_put; lia) ltac:(rewrite length_put; lia)
                 ltac:(lia) Hv1)
      as [c' [ix' [i' [Hrun [Hi' [Hv' [Hs' Ho']]]]]]].
    exists c', ix', i'. split; [exact Hrun|]. split; [exact Hi'|]. split; [exact Hv'|].
    split; [eapply step_rel_trans; eauto|].
    intros Hpre. apply Ho'. rewrite E. apply down_pre_step; auto.
  - exists c, ix, i. split; [reflexivity|]. split; [exact Hi|]. split; [exact Hv|].
    split; [apply step_rel_refl|].
    intros Hpre. apply (down_pre_done act k0 _ i x Hpre Hx).
    intros j a Hj Hp Ha. pose proof (Hmax j a Hj Hp Ha). lia.
Qed.

(* queue.go:64-82 *)
Lemma percolate_down_ok : forall act k0 c ix i,
  heap_ix act (Q c ix) -> i < length c -> k0 <= i ->
  exists q', percolate_down act (Q c ix) i = Ok q' /\ heap_ix act q' /\
    step_rel c ix (content q') (indices q') /\
    (down_pre act k0 c i -> ord_from act k0 (content q')).
Proof.
  intros act k0 c ix i Hq Hi Hk. unfold percolate_down. cbn [content indices].
  destruct (nth_error_ex _ c i Hi) as [x Hx].
  rewrite (get_some _ _ _ _ Hx). cbn [bind].
  pose proof (put_same _ c i x Hx) as Eput.
  assert (Hv : vinv act x (put c i x) ix) by (rewrite Eput; now apply vinv_init).
  destruct (down_loop_ok act x k0 (length c) c ix i ltac:(lia) Hi Hk Hv)
    as [c' [ix' [i' [Hrun [Hi' [Hv' [Hs' Ho']]]]]]].
  rewrite Hrun. cbn [bind].
  rewrite (upd_ok _ c' i' x Hi'). cbn [bind].
  assert (Hx' : nth_error (put c' i' x) i' = Some x) by (apply nth_error_put_eq; auto).
  assert (Hxl : x < length ix').
  { destruct Hv' as [Hr' _]. apply Hr'. eapply nth_error_In; eauto. }
  rewrite (upd_ok _ ix' x _ Hxl). cbn [bind].
  destruct (vinv_final act x (put c' i' x) ix' i' Hv' Hx') as [Hq' Hs2].
  eexists. split; [reflexivity|]. cbn [content indices].
  split; [exact Hq'|]. rewrite Eput in Hs', Ho'.
  split; [eapply step_rel_trans; eauto|exact Ho'].
Qed.

(* ================================================================== *)
(* 5. The operations of queue.go                                       *)

Lemma nth_error_snoc : forall (A : Type) (l : list A) a, nth_error (l ++ [a]) (length l) = Some a.
Proof. intros A l a. rewrite nth_error_app2 by lia. now rewrite Nat.sub_diag. Qed.

Lemma firstn_exact : forall (A : Type) (l r : list A), firstn (length l) (l ++ r) = l.
Proof. intros A l r. induction l as [|h t IH]; cbn; [now destruct r|now rewrite IH]. Qed.

(* the root of a heap has the largest key *)
Lemma heap_root_max : forall act c r, heap_ord act c -> nth_error c 0 = Some r ->
  forall j a, nth_error c j = Some a -> (key act a <= key act r)%Z.
Proof.
  intros act c r Ho Hr j. induction j as [j IH] using lt_wf_ind. intros a Ha.
  destruct (Nat.eq_dec j 0) as [->|Hj0].
  - rewrite Hr in Ha. inversion Ha. lia.
  - assert (Hj : 0 < j) by lia. pose proof (parent_lt j Hj) as Hp.
    destruct (nth_error_ex _ c (h_parent j)) as [b Hb].
    { apply nth_error_lt in Ha. lia. }
    pose proof (Ho j Hj ltac:(lia) a b Ha Hb). pose proof (IH _ Hp b Hb). lia.
Qed.

(* ---- insert, queue.go:94-101 ---- *)
Lemma nth_error_grow : forall ix n v z, nth_error (grow ix n) v = Some z ->
  nth_error ix v = Some z \/ (length ix <= v /\ z = (-1)%Z).
Proof.
  intros ix n v z H. unfold grow in H.
  destruct (Nat.lt_ge_cases v (length ix)) as [Hlt|Hge].
  - left. now rewrite nth_error_app1 in H.
  - right. split; [exact Hge|]. rewrite nth_error_app2 in H by exact Hge.
    apply nth_error_In in H. now apply repeat_spec in H.
Qed.

Lemma nth_error_grow_old : forall ix n v, v < length ix -> nth_error (grow ix n) v = nth_error ix v.
Proof. intros ix n v H. unfold grow. now rewrite nth_error_app1. Qed.

Lemma length_grow : forall ix n, length (grow ix n) = Nat.max (length ix) (S n).
Proof. intros ix n. unfold grow. rewrite app_length, repeat_length. lia. Qed.

Lemma insert_ok : forall act q n, heap_ix act q -> n < length act ->
  exists q', insert act q n = Ok q' /\ heap_ix act q' /\
    Permutation (content q') (n :: content q) /\
    contains q' n = true /\
    length (indices q') = Nat.max (length (indices q)) (S n) /\
    (forall v, contains q v = true -> contains q' v = true) /\
    (heap_ord act (content q) -> heap_ord act (content q')).
Proof.
  intros act [c ix] n [Hr Hi] Hn. unfold insert. cbn [content indices] in *.
  pose proof (length_grow ix n) as Lg.
  rewrite (upd_ok _ (grow ix n) n _ ltac:(lia)). cbn [bind].
  rewrite (get_some _ _ n (Z.of_nat (length c))) by (apply nth_error_put_eq; lia).
  cbn [bind]. rewrite to_pos_ok. cbn [bind].
  set (ix1 := put (grow ix n) n (Z.of_nat (length c))).
  assert (L1 : length ix1 = Nat.max (length ix) (S n)) by (unfold ix1; now rewrite length_put).
  assert (Hq1 : heap_ix act (Q (c ++ [n]) ix1)).
  { split; cbn [content indices].
    - intros v Hv. apply in_app_or in Hv. destruct Hv as [Hv|[<-|[]]].
      + destruct (Hr v Hv). lia.
      + lia.
    - intros v z Hz Hz0. unfold ix1 in Hz.
      destruct (Nat.eq_dec v n) as [->|Hvn].
      + rewrite nth_error_put_eq in Hz by lia. inversion Hz; subst z.
        rewrite Nat2Z.id. apply nth_error_snoc.
      + rewrite nth_error_put_ne in Hz by auto.
        destruct (nth_error_grow _ _ _ _ Hz) as [Hz'|[_ ->]]; [|lia].
        pose proof (Hi v z Hz' Hz0) as Hc.
        rewrite nth_error_app1; [exact Hc|eapply nth_error_lt; eauto]. }
  destruct (percolate_up_ok act (c ++ [n]) ix1 (length c) Hq1
              ltac:(rewrite app_length; cbn; lia))
    as [q' [Hrun [Hq' [[HP [HL [HM HF]]] Ho]]]].
  exists q'. split; [exact Hrun|]. split; [exact Hq'|].
  split; [eapply perm_trans; [exact HP|]; symmetry; apply Permutation_cons_append|].
  assert (Hnn : nonneg ix1 n).
  { exists (Z.of_nat (length c)). split; [apply nth_error_put_eq; lia|lia]. }
  split; [apply contains_nonneg; auto|].
  split; [congruence|].
  split.
  - intros v Hv. apply contains_nonneg. apply HM.
    apply contains_nonneg in Hv. cbn [indices] in Hv. destruct Hv as [z [Hz Hz0]].
    destruct (Nat.eq_dec v n) as [->|Hvn]; [exact Hnn|].
    exists z. split; [|exact Hz0]. unfold ix1. rewrite nth_error_put_ne by auto.
    rewrite nth_error_grow_old; [exact Hz|eapply nth_error_lt; eauto].
  - intros Hord. apply Ho. split.
    + intros j Hj Hjl a b Ha Hb.
      pose proof (nth_error_lt _ _ _ _ Ha) as Hjlt. rewrite app_length in Hjlt. cbn in Hjlt.
      pose proof (parent_lt j Hj) as Hp.
      rewrite nth_error_app1 in Ha by lia. rewrite nth_error_app1 in Hb by lia.
      apply (Hord j Hj ltac:(lia) a b Ha Hb).
    + intros _ j a b Hj Hp Ha _.
      pose proof (nth_error_lt _ _ _ _ Ha) as Hjlt. rewrite app_length in Hjlt. cbn in Hjlt.
      pose proof (parent_spec j Hj). lia.
Qed.

(* ---- removeMin, queue.go:103-113 ---- *)
Lemma remove_min_ok : forall act q, heap_ix act q -> content q <> [] ->
  exists q' x, remove_min act q = Ok (q', x) /\ heap_ix act q' /\
    Permutation (content q) (x :: content q') /\
    length (indices q') = length (indices q) /\
    (forall v, v <> x -> contains q v = true -> contains q' v = true) /\
    (heap_ord act (content q) ->
       heap_ord act (content q') /\
       forall v, In v (content q) -> (key act v <= key act x)%Z).
Proof.
  intros act [c ix] Hq Hne. cbn [content indices] in *.
  destruct c as [|x t]; [congruence|]. clear Hne.
  assert (Hmax : heap_ord act (x :: t) -> forall v, In v (x :: t) -> (key act v <= key act x)%Z).
  { intros Ho v Hv. apply In_nth_error in Hv. destruct Hv as [j Hj].
    apply (heap_root_max act (x :: t) x Ho eq_refl j v Hj). }
  pose proof Hq as [Hr Hi]. cbn [content indices] in Hr, Hi.
  assert (Hx : x < length ix) by (apply Hr; now left).
  destruct t as [|y t0].
  - (* a single element *)
    unfold remove_min. cbn [content indices length Nat.sub get nth_error bind].
    unfold upd at 1. cbn [length Nat.ltb Nat.leb put bind get nth_error].
    rewrite (upd_ok _ ix x _ Hx). cbn [bind].
    rewrite (upd_ok _ _ x _ ltac:(rewrite length_put; exact Hx)). cbn [bind firstn length Nat.ltb Nat.leb].
    eexists; eexists. split; [reflexivity|]. cbn [content indices].
    split; [split; cbn [content indices]|].
    + intros v [].
    + intros v z Hz Hz0. exfalso.
      destruct (Nat.eq_dec v x) as [->|Hvx].
      * rewrite nth_error_put_eq in Hz by (rewrite length_put; exact Hx).
        inversion Hz; lia.
      * rewrite !nth_error_put_ne in Hz by auto.
        pose proof (Hi v z Hz Hz0) as Hc.
        destruct (Z.to_nat z) as [|k]; cbn in Hc; [congruence|now destruct k].
    + split; [constructor; constructor|]. split; [now rewrite !length_put|].
      split.
      * intros v Hvx Hv. apply contains_nonneg in Hv. apply contains_nonneg.
        cbn [indices] in *. destruct Hv as [z [Hz Hz0]]. exists z.
        rewrite !nth_error_put_ne by auto. auto.
      * intros Ho. split; [|apply Hmax; exact Ho].
        intros j Hj _ a b Ha. now destruct j.
  - (* at least two elements: t = t' ++ [l] *)
    destruct (exists_last (l := y :: t0) ltac:(discriminate)) as [t' [l Et]].
    rewrite Et in *. clear Et y t0.
    assert (Hl : l < length ix) by (apply Hr; right; apply in_or_app; right; now left).
    unfold remove_min. cbn [content indices get nth_error bind].
    assert (E1 : length (x :: t' ++ [l]) - 1 = S (length t')).
    { cbn [length]. rewrite app_length. cbn. lia. }
    rewrite E1. rewrite (get_some _ _ _ l) by (cbn [nth_error]; apply nth_error_snoc).
    cbn [bind].
    rewrite (upd_ok _ (x :: t' ++ [l]) 0 l) by (cbn [length]; lia). cbn [put bind].
    rewrite (get_some _ (l :: t' ++ [l]) 0 l) by reflexivity. cbn [bind].
    rewrite (upd_ok _ ix l _ Hl). cbn [bind].
    rewrite (upd_ok _ _ x _ ltac:(rewrite length_put; exact Hx)). cbn [bind].
    assert (E2 : firstn (length (l :: t' ++ [l]) - 1) (l :: t' ++ [l]) = l :: t').
    { cbn [length]. rewrite app_length. cbn [length]. rewrite Nat.add_1_r.
      cbn [Nat.sub firstn]. now rewrite firstn_exact. }
    rewrite E2.
    set (ix2 := put (put ix l 0%Z) x (-1)%Z).
    assert (L2 : length ix2 = length ix) by (unfold ix2; now rewrite !length_put).
    (* positions >= 1 of the new slice are positions of the old one *)
    assert (Hpos : forall j a, 0 < j -> nth_error (l :: t') j = Some a ->
                               nth_error (x :: t' ++ [l]) j = Some a).
    { intros [|k] a Hj Ha; [lia|]. cbn [nth_error] in *.
      rewrite nth_error_app1; [exact Ha|eapply nth_error_lt; eauto]. }
    assert (Hq2 : heap_ix act (Q (l :: t') ix2)).
    { split; cbn [content indices].
      - intros v Hv. rewrite L2. apply Hr. destruct Hv as [<-|Hv].
        + right. apply in_or_app. right. now left.
        + right. apply in_or_app. now left.
      - intros v z Hz Hz0. unfold ix2 in Hz.
        destruct (Nat.eq_dec v x) as [->|Hvx].
        { rewrite nth_error_put_eq in Hz by (rewrite length_put; exact Hx).
          inversion Hz; lia. }
        rewrite nth_error_put_ne in Hz by auto.
        destruct (Nat.eq_dec v l) as [->|Hvl].
        { rewrite nth_error_put_eq in Hz by exact Hl. now inversion Hz. }
        rewrite nth_error_put_ne in Hz by auto.
        pose proof (Hi v z Hz Hz0) as Hc.
        destruct (Z.to_nat z) as [|k]; cbn [nth_error] in *; [congruence|].
        destruct (Nat.lt_ge_cases k (length t')) as [Hk|Hk].
        + now rewrite nth_error_app1 in Hc.
        + rewrite nth_error_app2 in Hc by exact Hk.
          destruct (k - length t') as [|k']; cbn in Hc; [congruence|now destruct k']. }
    assert (Hmono : forall v, v <> x -> contains (Q (x :: t' ++ [l]) ix) v = true -> nonneg ix2 v).
    { intros v Hvx Hv. apply contains_nonneg in Hv. cbn [indices] in Hv.
      destruct Hv as [z [Hz Hz0]]. unfold ix2.
      destruct (Nat.eq_dec v l) as [->|Hvl].
      - exists 0%Z. rewrite nth_error_put_ne by auto.
        split; [apply nth_error_put_eq; exact Hl|lia].
      - exists z. rewrite !nth_error_put_ne by auto. auto. }
    assert (Hpre : heap_ord act (x :: t' ++ [l]) -> down_pre act 0 (l :: t') 0).
    { intros Ho. split; [|lia].
      intros j Hj _ Hpj a b Ha Hb.
      apply (Ho j Hj ltac:(lia) a b); apply Hpos; auto; lia. }
    assert (HP0 : Permutation (x :: t' ++ [l]) (x :: l :: t')).
    { apply perm_skip. symmetry. apply Permutation_cons_append. }
    destruct (Nat.ltb_spec 1 (length (l :: t'))) as [Hlen|Hlen].
    + destruct (percolate_down_ok act 0 (l :: t') ix2 0 Hq2 ltac:(cbn; lia) ltac:(lia))
        as [q' [Hrun [Hq' [[HP [HL [HM HF]]] Ho]]]].
      rewrite Hrun. cbn [bind].
      exists q', x. split; [reflexivity|]. split; [exact Hq'|].
      split; [eapply perm_trans; [exact HP0|]; apply perm_skip; now symmetry|].
      split; [congruence|].
      split.
      * intros v Hvx Hv. apply contains_nonneg. apply HM. now apply Hmono.
      * intros Hord. split; [apply Ho, Hpre, Hord|apply Hmax, Hord].
    + cbn [bind]. exists (Q (l :: t') ix2), x. split; [reflexivity|]. split; [exact Hq2|].
      cbn [content indices].
      split; [exact HP0|]. split; [exact L2|].
      split.
      * intros v Hvx Hv. apply contains_nonneg. now apply Hmono.
      * intros Hord. split; [|apply Hmax, Hord].
        intros j Hj _ a b Ha. apply nth_error_lt in Ha. lia.
Qed.

(* ---- decrease, queue.go:90-92 ---- *)

(* [act] is [act0] after varBumpActivity(n): the order between the other
   variables is unchanged (rescaling included) and n did not go down     *)
Definition bumped (act0 act : list Z) (n : nat) : Prop :=
  (forall v w, v <> n -> w <> n -> (key act0 v <= key act0 w)%Z -> (key act v <= key act w)%Z) /\
  (forall w, w <> n -> (key act0 w <= key act0 n)%Z -> (key act w <= key act n)%Z).

Definition occurs_once (c : list nat) (n : nat) : Prop :=
  forall j k, nth_error c j = Some n -> nth_error c k = Some n -> j = k.

Lemma decrease_ok : forall act q n, heap_ix act q -> contains q n = true ->
  exists q', decrease act q n = Ok q' /\ heap_ix act q' /\
    Permutation (content q') (content q) /\
    length (indices q') = length (indices q) /\
    (forall v, contains q v = true -> contains q' v = true) /\
    (forall act0, heap_ord act0 (content q) -> bumped act0 act n ->
                  occurs_once (content q) n -> heap_ord act (content q')).
Proof.
  intros act [c ix] n Hq Hc. pose proof Hq as [Hr Hi]. cbn [content indices] in *.
  apply contains_nonneg in Hc. cbn [indices] in Hc. destruct Hc as [z [Hz Hz0]].
  pose proof (Hi n z Hz Hz0) as Hn.
  unfold decrease. cbn [content indices].
  rewrite (get_some _ _ _ _ Hz). cbn [bind].
  replace (to_pos z) with (to_pos (Z.of_nat (Z.to_nat z))) by (f_equal; lia).
  rewrite to_pos_ok. cbn [bind].
  destruct (percolate_up_ok act c ix (Z.to_nat z) Hq (nth_error_lt _ _ _ _ Hn))
    as [q' [Hrun [Hq' [[HP [HL [HM HF]]] Ho]]]].
  exists q'. split; [exact Hrun|]. split; [exact Hq'|]. split; [exact HP|].
  split; [exact HL|].
  split.
  - intros v Hv. apply contains_nonneg. apply HM. now apply contains_nonneg in Hv.
  - intros act0 Hord [Hb1 Hb2] Hone. apply Ho. set (i := Z.to_nat z) in *. split.
    + intros j Hj Hji a b Ha Hb.
      assert (Han : a <> n) by (intros ->; apply Hji; eapply Hone; eauto).
      pose proof (Hord j Hj ltac:(lia) a b Ha Hb) as Hab.
      destruct (Nat.eq_dec b n) as [->|Hbn]; [apply Hb2; auto|apply Hb1; auto].
    + intros Hi0 j a b Hj Hp Ha Hb.
      pose proof (parent_lt j Hj) as Hpj. pose proof (parent_lt i Hi0) as Hpi.
      assert (Han : a <> n) by (intros ->; assert (j = i) by (eapply Hone; eauto); lia).
      assert (Hbn : b <> n) by (intros ->; assert (h_parent i = i) by (eapply Hone; eauto); lia).
      apply Hb1; auto.
      assert (key act0 a <= key act0 n)%Z by (apply (Hord j Hj ltac:(lia) a n Ha); now rewrite Hp).
      assert (key act0 n <= key act0 b)%Z by (apply (Hord i Hi0 ltac:(lia) n b Hn Hb)).
      lia.
Qed.

(* ---- build, queue.go:116-128 ---- *)
Lemma clear_ix_ok : forall c ix, (forall v, In v c -> v < length ix) ->
  exists ix', clear_ix c ix = Ok ix' /\ length ix' = length ix /\
    (forall v, In v c -> nth_error ix' v = Some (-1)%Z) /\
    (forall v, ~ In v c -> nth_error ix' v = nth_error ix v).
Proof.
  intros c; induction c as [|v c IH]; intros ix Hr; cbn [clear_ix].
  - exists ix. repeat split; auto. intros v [].
  - rewrite (upd_ok _ ix v _ (Hr v (or_introl eq_refl))). cbn [bind].
    destruct (IH (put ix v (-1)%Z)) as [ix' [Hrun [HL [H1 H2]]]].
    { intros w Hw. rewrite length_put. apply Hr. now right. }
    exists ix'. split; [exact Hrun|]. split; [now rewrite HL, length_put|]. split.
    + intros w [<-|Hw]; [|now apply H1].
      destruct (in_dec Nat.eq_dec v c) as [Hin|Hnin]; [now apply H1|].
      rewrite H2 by exact Hnin. apply nth_error_put_eq. apply Hr. now left.
    + intros w Hw. rewrite H2 by (intros Hin; apply Hw; now right).
      apply nth_error_put_ne. intros ->. apply Hw. now left.
Qed.

Lemma fill_ix_ok : forall ns pre ix,
  ix_ok pre ix -> (forall v, In v ns -> v < length ix) ->
  exists ix', fill_ix ns (length pre) ix = Ok ix' /\ length ix' = length ix /\
    ix_ok (pre ++ ns) ix' /\ (forall v, In v ns -> nonneg ix' v).
Proof.
  intros ns; induction ns as [|v ns IH]; intros pre ix Hi Hr; cbn [fill_ix].
  - exists ix. rewrite app_nil_r. repeat split; auto. intros v [].
  - assert (Hv : v < length ix) by (apply Hr; now left).
    rewrite (upd_ok _ ix v _ Hv). cbn [bind].
    destruct (IH (pre ++ [v]) (put ix v (Z.of_nat (length pre)))) as [ix' [Hrun [HL [H1 H2]]]].
    { intros w z Hz Hz0. destruct (Nat.eq_dec w v) as [->|Hwv].
      - rewrite nth_error_put_eq in Hz by exact Hv. inversion Hz; subst z.
        rewrite Nat2Z.id. apply nth_error_snoc.
      - rewrite nth_error_put_ne in Hz by auto. pose proof (Hi w z Hz Hz0) as Hc.
        rewrite nth_error_app1; [exact Hc|eapply nth_error_lt; eauto]. }
    { intros w Hw. rewrite length_put. apply Hr. now right. }
    rewrite app_length in Hrun. cbn [length] in Hrun. rewrite Nat.add_1_r in Hrun.
    exists ix'. split; [exact Hrun|]. split; [now rewrite HL, length_put|].
    rewrite <- app_assoc in H1. cbn [app] in H1. split; [exact H1|].
    intros w [<-|Hw]; [|now apply H2].
    destruct (in_dec Nat.eq_dec v ns) as [Hin|Hnin]; [now apply H2|].
    (* v is not written again *)
    clear - Hrun Hnin Hv.
    assert (G : forall ns i ix ix', fill_ix ns i ix = Ok ix' -> ~ In v ns ->
                                   nth_error ix' v = nth_error ix v).
    { clear. intros ns; induction ns as [|w ns IH]; intros i ix ix' Hrun Hnin; cbn [fill_ix] in Hrun.
      - now inversion Hrun.
      - unfold upd in Hrun. destruct (w <? length ix); cbn [bind] in Hrun; [|discriminate].
        rewrite (IH _ _ _ Hrun) by (intros Hin; apply Hnin; now right).
        apply nth_error_put_ne. intros ->. apply Hnin. now left. }
    exists (Z.of_nat (length pre)). rewrite (G _ _ _ _ Hrun Hnin).
    split; [apply nth_error_put_eq; exact Hv|lia].
Qed.

Lemma build_down_ok : forall act k q,
  heap_ix act q -> k <= length (content q) -> ord_from act k (content q) ->
  exists q', build_down act k q = Ok q' /\ heap_ix act q' /\
    step_rel (content q) (indices q) (content q') (indices q') /\
    heap_ord act (content q').
Proof.
  intros act k; induction k as [|i IH]; intros [c ix] Hq Hk Ho; cbn [build_down content indices] in *.
  - exists (Q c ix). split; [reflexivity|]. split; [exact Hq|]. split; [apply step_rel_refl|exact Ho].
  - destruct (percolate_down_ok act i c ix i Hq ltac:(lia) ltac:(lia))
      as [q1 [Hrun [Hq1 [Hs1 Ho1]]]].
    rewrite Hrun. cbn [bind].
    assert (Hpre : down_pre act i c i).
    { split.
      - intros j Hj Hkj Hne. apply Ho; auto. lia.
      - intros Hi0 Hle. pose proof (parent_lt i Hi0). lia. }
    pose proof Hs1 as [HP1 _].
    destruct (IH q1 Hq1 ltac:(rewrite (Permutation_length HP1); lia) (Ho1 Hpre))
      as [q' [Hrun' [Hq' [Hs' Ho']]]].
    exists q'. split; [exact Hrun'|]. split; [exact Hq'|].
    split; [eapply step_rel_trans; eauto|exact Ho'].
Qed.

Lemma build_ok : forall act q ns, heap_ix act q ->
  (forall v, In v ns -> v < length (indices q) /\ v < length act) ->
  exists q', build act q ns = Ok q' /\ heap_wf act q' /\
    Permutation (content q') ns /\
    length (indices q') = length (indices q) /\
    (forall v, In v ns -> contains q' v = true).
Proof.
  intros act [c ix] ns [Hr Hi] Hns. cbn [content indices] in *. unfold build. cbn [content indices].
  destruct (clear_ix_ok c ix (fun v Hv => proj1 (Hr v Hv))) as [ix1 [Hrun1 [L1 [C1 C2]]]].
  rewrite Hrun1. cbn [bind].
  assert (Hi1 : ix_ok [] ix1).
  { intros v z Hz Hz0. exfalso. destruct (in_dec Nat.eq_dec v c) as [Hin|Hnin].
    - rewrite (C1 v Hin) in Hz. inversion Hz; lia.
    - rewrite (C2 v Hnin) in Hz. apply Hnin. eapply nth_error_In. eapply Hi; eauto. }
  destruct (fill_ix_ok ns [] ix1 Hi1) as [ix2 [Hrun2 [L2 [Hi2 N2]]]].
  { intros v Hv. rewrite L1. now apply Hns. }
  cbn [length] in Hrun2. rewrite Hrun2. cbn [bind app] in *.
  assert (Hq2 : heap_ix act (Q ns ix2)).
  { split; cbn [content indices]; [|exact Hi2].
    intros v Hv. rewrite L2, L1. now apply Hns. }
  destruct (build_down_ok act (Nat.div2 (length ns)) (Q ns ix2) Hq2) as [q' [Hrun [Hq' [Hs Ho]]]].
  { cbn [content]. pose proof (Nat.div2_odd (length ns)). destruct (Nat.odd (length ns)); cbn in *; lia. }
  { cbn [content]. intros j Hj Hk a b Ha _. apply nth_error_lt in Ha.
    pose proof (parent_spec j Hj). pose proof (Nat.div2_odd (length ns)).
    destruct (Nat.odd (length ns)); cbn [Nat.b2n] in *; lia. }
  cbn [content indices] in Hs. destruct Hs as [HP [HL [HM HF]]].
  exists q'. split; [exact Hrun|]. split; [split; assumption|]. split; [exact HP|].
  split; [congruence|].
  intros v Hv. apply contains_nonneg. apply HM. now apply N2.
Qed.

(* ---- newQueue, queue.go:32-40, and repeated insertion ---- *)
Lemma insert_all_ok : forall act vs q, heap_ix act q -> (forall v, In v vs -> v < length act) ->
  exists q', insert_all act vs q = Ok q' /\ heap_ix act q' /\
    Permutation (content q') (vs ++ content q) /\
    length (indices q) <= length (indices q') /\
    (forall v, contains q v = true -> contains q' v = true) /\
    (forall v, In v vs -> contains q' v = true) /\
    (heap_ord act (content q) -> heap_ord act (content q')).
Proof.
  intros act vs; induction vs as [|v vs IH]; intros q Hq Hvs; cbn [insert_all].
  - exists q. split; [reflexivity|]. split; [exact Hq|]. split; [apply Permutation_refl|].
    split; [lia|]. split; [auto|]. split; [intros w []|auto].
  - destruct (insert_ok act q v Hq (Hvs v (or_introl eq_refl)))
      as [q1 [Hrun1 [Hq1 [HP1 [Hc1 [HL1 [HM1 Ho1]]]]]]].
    rewrite Hrun1. cbn [bind].
    destruct (IH q1 Hq1 (fun w Hw => Hvs w (or_intror Hw)))
      as [q' [Hrun [Hq' [HP [HL [HM [HC Ho]]]]]]].
    exists q'. split; [exact Hrun|]. split; [exact Hq'|].
    split.
    { eapply perm_trans; [exact HP|]. cbn [app].
      eapply perm_trans; [apply Permutation_app_head; exact HP1|].
      symmetry. apply Permutation_middle. }
    split; [lia|]. split; [auto|]. split; [|auto].
    intros w [<-|Hw]; auto.
Qed.

Lemma insert_strict : forall act q n q', heap_strict act q -> ~ In n (content q) ->
  n < length act -> insert act q n = Ok q' -> heap_strict act q'.
Proof.
  intros act q n q' [[Hq Ho] [Hnd Hc]] Hnin Hn Hrun.
  destruct (insert_ok act q n Hq Hn) as [q1 [Hrun1 [Hq1 [HP1 [Hc1 [HL1 [HM1 Ho1]]]]]]].
  rewrite Hrun in Hrun1. inversion Hrun1; subst q1.
  split; [split; auto|]. split.
  - eapply Permutation_NoDup; [symmetry; exact HP1|]. now constructor.
  - intros v Hv. apply (Permutation_in _ HP1) in Hv. destruct Hv as [<-|Hv]; auto.
Qed.

Lemma insert_all_strict : forall act vs q q', heap_strict act q -> NoDup (vs ++ content q) ->
  (forall v, In v vs -> v < length act) -> insert_all act vs q = Ok q' -> heap_strict act q'.
Proof.
  intros act vs; induction vs as [|v vs IH]; intros q q' Hs Hnd Hvs Hrun; cbn [insert_all] in Hrun.
  - inversion Hrun; subst; exact Hs.
  - cbn [app] in Hnd. inversion Hnd as [|? ? Hnin Hnd']; subst.
    destruct Hs as [[Hq Ho] Hs2].
    destruct (insert_ok act q v Hq (Hvs v (or_introl eq_refl)))
      as [q1 [Hrun1 [Hq1 [HP1 _]]]].
    rewrite Hrun1 in Hrun. cbn [bind] in Hrun.
    apply (IH q1 q'); [| |intros w Hw; apply Hvs; now right|exact Hrun].
    + apply (insert_strict act q v q1 (conj (conj Hq Ho) Hs2)); auto.
      * intros Hin. apply Hnin. apply in_or_app. now right.
      * apply Hvs. now left.
    + eapply Permutation_NoDup; [|exact Hnd].
      eapply perm_trans; [apply Permutation_middle|].
      apply Permutation_app_head. now symmetry.
Qed.

Lemma heap_strict_empty : forall act, heap_strict act (Q [] []).
Proof.
  intros act. split; [split; [split|]|split].
  - intros v [].
  - intros v z Hz. now destruct v.
  - intros j Hj _ a b Ha. now destruct j.
  - constructor.
  - intros v [].
Qed.

Lemma new_queue_ok : forall act,
  exists q, new_queue act = Ok q /\ heap_strict act q /\
    Permutation (content q) (seq 0 (length act)) /\ length act <= length (indices q).
Proof.
  intros act. unfold new_queue.
  destruct (heap_strict_empty act) as [[Hq0 Ho0] Hs0].
  assert (Hvs : forall v, In v (seq 0 (length act)) -> v < length act).
  { intros v Hv. apply in_seq in Hv. lia. }
  destruct (insert_all_ok act (seq 0 (length act)) (Q [] []) Hq0 Hvs)
    as [q [Hrun [Hq [HP [HL [HM [HC Ho]]]]]]].
  cbn [content] in HP. rewrite app_nil_r in HP.
  exists q. split; [exact Hrun|]. split.
  - eapply insert_all_strict; eauto. { apply heap_strict_empty. }
    cbn [content]. rewrite app_nil_r. apply seq_NoDup.
  - split; [exact HP|].
    destruct (length act) as [|n] eqn:En; [lia|].
    destruct Hq as [Hr _]. destruct (Hr n) as [H1 _]; [|lia].
    eapply Permutation_in; [symmetry; exact HP|]. apply in_seq. lia.
Qed.

(* ================================================================== *)
(* 6. The textbook invariant through removeMin / decrease / build      *)

Lemma remove_min_strict : forall act q q' x, heap_strict act q ->
  remove_min act q = Ok (q', x) ->
  heap_strict act q' /\ ~ In x (content q') /\ contains q' x = false.
Proof.
  intros act q q' x [[Hq Ho] [Hnd Hc]] Hrun.
  assert (Hne : content q <> []).
  { intros E. unfold remove_min in Hrun. rewrite E in Hrun. discriminate. }
  destruct (remove_min_ok act q Hq Hne) as [q1 [x1 [Hrun1 [Hq1 [HP [HL [HM Hord]]]]]]].
  rewrite Hrun in Hrun1. inversion Hrun1; subst q1 x1. clear Hrun1.
  pose proof (Permutation_NoDup HP Hnd) as Hnd'. inversion Hnd' as [|? ? Hnin Hnd1]; subst.
  split; [|split; [exact Hnin|]].
  - split; [split; [exact Hq1|apply Hord, Ho]|]. split; [exact Hnd1|].
    intros v Hv. apply HM.
    + intros ->. contradiction.
    + apply Hc. eapply Permutation_in; [symmetry; exact HP|]. now right.
  - destruct (contains q' x) eqn:E; [|reflexivity].
    exfalso. apply Hnin. eapply contains_sound; eauto.
Qed.

Lemma NoDup_occurs_once : forall c n, NoDup c -> occurs_once c n.
Proof.
  intros c n Hnd j k Hj Hk.
  apply (proj1 (NoDup_nth_error c) Hnd); [eapply nth_error_lt; eauto|congruence].
Qed.

Lemma decrease_strict : forall act0 act q n q', heap_strict act0 q -> length act = length act0 ->
  bumped act0 act n -> contains q n = true -> decrease act q n = Ok q' -> heap_strict act q'.
Proof.
  intros act0 act q n q' [[[Hr Hi] Ho] [Hnd Hc]] HL Hb Hn Hrun.
  assert (Hq : heap_ix act q).
  { split; [|exact Hi]. intros v Hv. rewrite HL. now apply Hr. }
  destruct (decrease_ok act q n Hq Hn) as [q1 [Hrun1 [Hq1 [HP [HL1 [HM Hord]]]]]].
  rewrite Hrun in Hrun1. inversion Hrun1; subst q1. clear Hrun1.
  split; [split; [exact Hq1|]|split].
  - apply (Hord act0 Ho Hb). now apply NoDup_occurs_once.
  - eapply Permutation_NoDup; [symmetry; exact HP|exact Hnd].
  - intros v Hv. apply HM, Hc. eapply Permutation_in; eauto.
Qed.

Lemma build_strict : forall act q ns q', heap_ix act q -> NoDup ns ->
  (forall v, In v ns -> v < length (indices q) /\ v < length act) ->
  build act q ns = Ok q' -> heap_strict act q'.
Proof.
  intros act q ns q' Hq Hnd Hns Hrun.
  destruct (build_ok act q ns Hq Hns) as [q1 [Hrun1 [Hwf [HP [HL HC]]]]].
  rewrite Hrun in Hrun1. inversion Hrun1; subst q1. clear Hrun1.
  split; [exact Hwf|]. split.
  - eapply Permutation_NoDup; [symmetry; exact HP|exact Hnd].
  - intros v Hv. apply HC. eapply Permutation_in; eauto.
Qed.

(* ================================================================== *)
(* 7. The users in solver.go                                           *)

Definition unbound (model : list Z) (v : nat) : Prop := nth_error model v = Some 0%Z.

(* every unbound variable is in the heap *)
Definition covers (q : queue) (model : list Z) : Prop :=
  forall v, unbound model v -> In v (content q).

(* ---- chooseLit, solver.go:259-271 ---- *)
Lemma choose_loop_ok : forall act model fuel q,
  length (content q) < fuel -> heap_ix act q -> length model = length act ->
  covers q model ->
  exists q' ov, choose_loop act fuel q model = Ok (q', ov) /\ heap_ix act q' /\
    length (indices q') = length (indices q) /\
    (forall v, In v (content q') -> In v (content q)) /\
    (heap_ord act (content q) -> heap_ord act (content q')) /\
    (heap_strict act q -> heap_strict act q') /\
    match ov with
    | None => content q' = [] /\ forall v, v < length model -> ~ unbound model v
    | Some v => unbound model v /\
                (forall w, w <> v -> unbound model w -> In w (content q')) /\
                (heap_ord act (content q) ->
                   forall w, unbound model w -> (key act w <= key act v)%Z)
    end.
Proof.
  intros act model fuel; induction fuel as [|f IH]; intros q Hf Hq HL Hcov; [lia|].
  cbn [choose_loop]. unfold empty.
  destruct (Nat.eqb_spec (length (content q)) 0) as [E0|Hne].
  - exists q, None. split; [reflexivity|]. split; [exact Hq|]. split; [reflexivity|].
    split; [auto|]. split; [auto|]. split; [auto|].
    apply length_zero_iff_nil in E0. split; [exact E0|].
    intros v _ Hu. apply Hcov in Hu. now rewrite E0 in Hu.
  - assert (Hne' : content q <> []) by (intros E; rewrite E in Hne; now apply Hne).
    destruct (remove_min_ok act q Hq Hne') as [q1 [x [Hrun1 [Hq1 [HP [HL1 [HM Hord]]]]]]].
    rewrite Hrun1. cbn [bind].
    assert (Hxin : In x (content q)) by (eapply Permutation_in; [symmetry; exact HP|now left]).
    assert (Hxl : x < length model) by (rewrite HL; destruct Hq as [Hr _]; now apply Hr).
    destruct (nth_error_ex _ model x Hxl) as [m Hm].
    rewrite (get_some _ _ _ _ Hm). cbn [bind].
    assert (Hsub : forall v, In v (content q1) -> In v (content q)).
    { intros v Hv. eapply Permutation_in; [symmetry; exact HP|now right]. }
    assert (Hstr : heap_strict act q -> heap_strict act q1).
    { intros Hs. now destruct (remove_min_strict act q q1 x Hs Hrun1). }
    destruct (Z.eqb_spec m 0) as [->|Hm0].
    + exists q1, (Some x). split; [reflexivity|]. split; [exact Hq1|]. split; [exact HL1|].
      split; [exact Hsub|]. split; [intros Ho; now apply Hord|]. split; [exact Hstr|].
      split; [exact Hm|]. split.
      * intros w Hwx Hw. apply Hcov in Hw. apply (Permutation_in _ HP) in Hw.
        destruct Hw as [->|Hw]; [congruence|exact Hw].
      * intros Ho w Hw. apply Hord; [exact Ho|]. now apply Hcov.
    + assert (Hcov1 : covers q1 model).
      { intros w Hw. pose proof (Hcov w Hw) as Hin. apply (Permutation_in _ HP) in Hin.
        destruct Hin as [->|Hin]; [|exact Hin].
        unfold unbound in Hw. rewrite Hm in Hw. congruence. }
      pose proof (Permutation_length HP) as HPL. cbn [length] in HPL.
      destruct (IH q1 ltac:(lia) Hq1 HL Hcov1)
        as [q' [ov [Hrun [Hq' [HL' [Hsub' [Ho' [Hs' Hres]]]]]]]].
      exists q', ov. split; [exact Hrun|]. split; [exact Hq'|]. split; [congruence|].
      split; [auto|]. split; [intros Ho; now apply Ho', Hord|]. split; [auto|].
      destruct ov as [v|]; [|exact Hres].
      destruct Hres as [Hv [Hothers Hmax]]. split; [exact Hv|]. split; [exact Hothers|].
      intros Ho. apply Hmax. now apply Hord.
Qed.

Lemma signed_lit_nonneg : forall v b, (0 <= signed_lit v b)%Z.
Proof. intros v b. unfold signed_lit. destruct b; lia. Qed.

Lemma lit_var_signed_lit : forall v b, lit_var (signed_lit v b) = v.
Proof.
  intros v b. unfold lit_var, signed_lit. destruct b.
  - replace (Z.of_nat v * 2 + 1)%Z with (1 + Z.of_nat v * 2)%Z by lia.
    rewrite Z.quot_add by lia. cbn. lia.
  - rewrite Z.quot_mul by lia. lia.
Qed.

Lemma choose_lit_ok : forall act q model pol,
  heap_ix act q -> length model = length act -> length pol = length act ->
  covers q model ->
  exists q' l, choose_lit act q model pol = Ok (q', l) /\ heap_ix act q' /\
    length (indices q') = length (indices q) /\
    (forall v, In v (content q') -> In v (content q)) /\
    (heap_ord act (content q) -> heap_ord act (content q')) /\
    (heap_strict act q -> heap_strict act q') /\
    ((l = (-1)%Z /\ content q' = [] /\ forall v, v < length model -> ~ unbound model v) \/
     (exists v, l = signed_lit v (negb (nth v pol false)) /\ unbound model v /\
        (forall w, w <> v -> unbound model w -> In w (content q')) /\
        (heap_ord act (content q) ->
           forall w, unbound model w -> (key act w <= key act v)%Z))).
Proof.
  intros act q model pol Hq HL HLp Hcov. unfold choose_lit.
  destruct (choose_loop_ok act model (S (length (content q))) q ltac:(lia) Hq HL Hcov)
    as [q' [ov [Hrun [Hq' [HL' [Hsub [Ho [Hs Hres]]]]]]]].
  rewrite Hrun. cbn [bind].
  destruct ov as [v|].
  - destruct Hres as [Hv Hrest].
    assert (Hvl : v < length pol).
    { rewrite HLp, <- HL. eapply nth_error_lt; eauto. }
    rewrite (get_some _ pol v (nth v pol false)) by (apply nth_error_nth'; exact Hvl).
    cbn [bind]. eexists; eexists. split; [reflexivity|]. split; [exact Hq'|].
    split; [exact HL'|]. split; [exact Hsub|]. split; [exact Ho|]. split; [exact Hs|].
    right. exists v. split; [reflexivity|]. split; [exact Hv|exact Hrest].
  - eexists; eexists. split; [reflexivity|]. split; [exact Hq'|].
    split; [exact HL'|]. split; [exact Hsub|]. split; [exact Ho|]. split; [exact Hs|].
    left. split; [reflexivity|exact Hres].
Qed.

(* ---- varBumpActivity, solver.go:234-236 ---- *)
Lemma heap_ix_act : forall act act' q, length act' = length act -> heap_ix act q -> heap_ix act' q.
Proof.
  intros act act' q HL [Hr Hi]. split; [|exact Hi]. intros v Hv. rewrite HL. now apply Hr.
Qed.

Lemma var_bump_ok : forall act q v, heap_ix act q ->
  exists q', var_bump act q v = Ok q' /\ heap_ix act q' /\
    Permutation (content q') (content q) /\
    length (indices q') = length (indices q) /\
    (forall act0, heap_strict act0 q -> length act = length act0 -> bumped act0 act v ->
                  heap_strict act q').
Proof.
  intros act q v Hq. unfold var_bump. destruct (contains q v) eqn:Ec.
  - destruct (decrease_ok act q v Hq Ec) as [q' [Hrun [Hq' [HP [HL [HM Hord]]]]]].
    exists q'. split; [exact Hrun|]. split; [exact Hq'|]. split; [exact HP|]. split; [exact HL|].
    intros act0 Hs HL0 Hb. eapply decrease_strict; eauto.
  - exists q. split; [reflexivity|]. split; [exact Hq|]. split; [apply Permutation_refl|].
    split; [reflexivity|].
    intros act0 [[Hq0 Ho] [Hnd Hc]] HL0 [Hb1 _].
    assert (Hvn : ~ In v (content q)) by (intros Hin; apply Hc in Hin; congruence).
    split; [split; [exact Hq|]|split; assumption].
    intros j Hj Hk a b Ha Hb. apply Hb1.
    + intros ->. apply Hvn. eapply nth_error_In; eauto.
    + intros ->. apply Hvn. eapply nth_error_In; eauto.
    + apply (Ho j Hj Hk a b Ha Hb).
Qed.

(* ---- cleanupBindings, solver.go:315-333 ---- *)
Lemma cleanup_loop_ok : forall act vs q model ti,
  heap_ix act q -> length model = length act -> (forall v, In v vs -> v < length act) ->
  covers q model -> (forall v, In v ti -> v < length act) ->
  exists q' model' ti', cleanup_loop act vs q model ti = Ok (q', model', ti') /\
    heap_ix act q' /\ length model' = length model /\
    (forall w, In w vs -> unbound model' w) /\
    (forall w, ~ In w vs -> nth_error model' w = nth_error model w) /\
    covers q' model' /\
    length (indices q) <= length (indices q') /\
    (heap_ord act (content q) -> heap_ord act (content q')) /\
    (forall v, In v ti' -> v < length act) /\
    (forall v, In v (content q) -> In v (content q')).
Proof.
  intros act vs; induction vs as [|v vs IH]; intros q model ti Hq HL Hvs Hcov Hti; cbn [cleanup_loop].
  - exists q, model, ti. split; [reflexivity|]. split; [exact Hq|]. split; [reflexivity|].
    split; [intros w []|]. split; [reflexivity|]. split; [exact Hcov|]. split; [lia|].
    split; [auto|]. split; [exact Hti|auto].
  - assert (Hv : v < length act) by (apply Hvs; now left).
    rewrite (upd_ok _ model v 0%Z ltac:(lia)). cbn [bind].
    set (model1 := put model v 0%Z).
    assert (HL1 : length model1 = length act) by (unfold model1; now rewrite length_put).
    assert (Hm1v : unbound model1 v) by (apply nth_error_put_eq; lia).
    assert (Hm1o : forall w, w <> v -> nth_error model1 w = nth_error model w)
      by (intros w Hw; now apply nth_error_put_ne).
    assert (Hvs' : forall w, In w vs -> w < length act) by (intros w Hw; apply Hvs; now right).
    (* the state handed to the rest of the loop *)
    assert (Hstep : exists q1 ti1,
      (if negb (contains q v)
       then do q1 <- insert act q v; cleanup_loop act vs q1 model1 (ti ++ [v])
       else cleanup_loop act vs q model1 ti) = cleanup_loop act vs q1 model1 ti1 /\
      heap_ix act q1 /\ covers q1 model1 /\ length (indices q) <= length (indices q1) /\
      (heap_ord act (content q) -> heap_ord act (content q1)) /\
      (forall w, In w ti1 -> w < length act) /\
      (forall w, In w (content q) -> In w (content q1))).
    { destruct (contains q v) eqn:Ec; cbn [negb].
      - exists q, ti. split; [reflexivity|]. split; [exact Hq|]. split.
        + intros w Hw. destruct (Nat.eq_dec w v) as [->|Hwv].
          * eapply contains_sound; eauto.
          * apply Hcov. unfold unbound in *. now rewrite <- Hm1o.
        + split; [lia|]. split; [auto|]. split; [exact Hti|auto].
      - destruct (insert_ok act q v Hq Hv) as [q1 [Hrun1 [Hq1 [HP1 [Hc1 [HLi [HM1 Ho1]]]]]]].
        rewrite Hrun1. cbn [bind]. exists q1, (ti ++ [v]). split; [reflexivity|].
        split; [exact Hq1|]. split.
        + intros w Hw. eapply Permutation_in; [symmetry; exact HP1|].
          destruct (Nat.eq_dec w v) as [->|Hwv]; [now left|right].
          apply Hcov. unfold unbound in *. now rewrite <- Hm1o.
        + split; [lia|]. split; [exact Ho1|]. split.
          * intros w Hw. apply in_app_or in Hw. destruct Hw as [Hw|[<-|[]]]; auto.
          * intros w Hw. eapply Permutation_in; [symmetry; exact HP1|now right]. }
    destruct Hstep as [q1 [ti1 [Erun [Hq1 [Hcov1 [HLi [Ho1 [Hti1 Hsub1]]]]]]]].
    rewrite Erun.
    destruct (IH q1 model1 ti1 Hq1 HL1 Hvs' Hcov1 Hti1)
      as [q' [model' [ti' [Hrun [Hq' [HL' [Hin' [Hout' [Hcov' [HLi' [Ho' [Hti' Hsub']]]]]]]]]]]].
    exists q', model', ti'. split; [exact Hrun|]. split; [exact Hq'|].
    split; [unfold model1 in HL'; now rewrite length_put in HL'|]. split.
    { intros w [<-|Hw]; [|now apply Hin'].
      destruct (in_dec Nat.eq_dec v vs) as [Hi|Hni]; [now apply Hin'|].
      unfold unbound. now rewrite Hout'. }
    split.
    { intros w Hw. rewrite Hout' by (intros Hi; apply Hw; now right).
      apply Hm1o. intros ->. apply Hw. now left. }
    split; [exact Hcov'|]. split; [lia|]. split; [auto|]. split; [exact Hti'|auto].
Qed.

Lemma cleanup_bindings_ok : forall act vs q model,
  heap_ix act q -> length model = length act -> (forall v, In v vs -> v < length act) ->
  covers q model ->
  exists q' model', cleanup_bindings act vs q model = Ok (q', model') /\
    heap_ix act q' /\ length model' = length model /\
    (forall w, In w vs -> unbound model' w) /\
    (forall w, ~ In w vs -> nth_error model' w = nth_error model w) /\
    covers q' model' /\
    length (indices q) <= length (indices q') /\
    (heap_ord act (content q) -> heap_ord act (content q')) /\
    (forall v, In v (content q) -> In v (content q')).
Proof.
  intros act vs q model Hq HL Hvs Hcov. unfold cleanup_bindings.
  destruct (cleanup_loop_ok act vs q model [] Hq HL Hvs Hcov ltac:(intros v []))
    as [q1 [model' [ti' [Hrun [Hq1 [HL' [Hin' [Hout' [Hcov' [HLi' [Ho' [Hti' Hsub']]]]]]]]]]]].
  rewrite Hrun. cbn [bind].
  destruct (insert_all_ok act (rev ti') q1 Hq1) as [q' [Hrun2 [Hq' [HP [HLi [HM [HC Ho]]]]]]].
  { intros v Hv. apply Hti'. now apply in_rev. }
  rewrite Hrun2. cbn [bind].
  assert (Hsub2 : forall v, In v (content q1) -> In v (content q')).
  { intros v Hv. eapply Permutation_in; [symmetry; exact HP|]. apply in_or_app. now right. }
  exists q', model'. split; [reflexivity|]. split; [exact Hq'|]. split; [exact HL'|].
  split; [exact Hin'|]. split; [exact Hout'|].
  split; [intros w Hw; apply Hsub2, Hcov', Hw|]. split; [lia|]. split; [auto|auto].
Qed.

(* ---- rebuildOrderHeap, solver.go:374-382 ---- *)
Lemma unbound_from_ok : forall model n v, v + n <= length model ->
  exists us, unbound_from model v n = Ok us /\
    forall w, In w us <-> (v <= w < v + n /\ unbound model w).
Proof.
  intros model n; induction n as [|n IH]; intros v Hv; cbn [unbound_from].
  - exists []. split; [reflexivity|]. intros w. split; [intros []|lia].
  - destruct (nth_error_ex _ model v ltac:(lia)) as [m Hm].
    rewrite (get_some _ _ _ _ Hm). cbn [bind].
    destruct (IH (S v) ltac:(lia)) as [us [Hrun Hus]]. rewrite Hrun. cbn [bind].
    eexists. split; [reflexivity|]. intros w.
    destruct (Z.eqb_spec m 0) as [->|Hm0].
    + split.
      * intros [<-|Hw]; [split; [lia|exact Hm]|]. apply Hus in Hw. split; [lia|apply Hw].
      * intros [Hr Hu]. destruct (Nat.eq_dec w v) as [->|Hwv]; [now left|right].
        apply Hus. split; [lia|exact Hu].
    + split.
      * intros Hw. apply Hus in Hw. split; [lia|apply Hw].
      * intros [Hr Hu]. apply Hus. split; [|exact Hu].
        destruct (Nat.eq_dec w v) as [->|Hwv]; [|lia].
        unfold unbound in Hu. rewrite Hm in Hu. congruence.
Qed.

Lemma rebuild_order_heap_ok : forall act q model n,
  heap_ix act q -> length model = n -> n <= length act -> n <= length (indices q) ->
  exists q' us, rebuild_order_heap act q model n = Ok q' /\ heap_wf act q' /\
    covers q' model /\ length (indices q') = length (indices q) /\
    Permutation (content q') (repeat 0 n ++ us) /\
    (forall w, In w us <-> unbound model w) /\ NoDup us /\
    (forall v, contains q' v = true <-> In v (content q')).
Proof.
  intros act q model n Hq HL Hna Hni. unfold rebuild_order_heap.
  destruct (unbound_from_ok model n 0 ltac:(lia)) as [us [Hrun1 Hus]].
  rewrite Hrun1. cbn [bind].
  assert (Hus' : forall w, In w us <-> unbound model w).
  { intros w. rewrite Hus. split; [intros [_ H]; exact H|].
    intros H. split; [|exact H]. apply nth_error_lt in H. lia. }
  assert (Hns : forall v, In v (repeat 0 n ++ us) -> v < length (indices q) /\ v < length act).
  { intros v Hv. apply in_app_or in Hv. destruct Hv as [Hv|Hv].
    - pose proof (repeat_spec _ _ _ Hv) as ->. destruct n; [destruct Hv|lia].
    - apply Hus in Hv. lia. }
  destruct (build_ok act q _ Hq Hns) as [q' [Hrun [Hwf [HP [HLi HC]]]]].
  exists q', us. split; [exact Hrun|]. split; [exact Hwf|]. split.
  { intros w Hw. eapply Permutation_in; [symmetry; exact HP|].
    apply in_or_app. right. now apply Hus'. }
  split; [exact HLi|]. split; [exact HP|]. split; [exact Hus'|]. split.
  { (* us is increasing, hence without duplicates *)
    clear - Hrun1. revert us Hrun1. generalize 0 as v.
    induction n as [|n IH]; intros v us Hrun; cbn [unbound_from] in Hrun.
    - inversion Hrun. constructor.
    - destruct (get model v) as [m| |]; cbn [bind] in Hrun; try discriminate.
      destruct (unbound_from model (S v) n) as [r| |] eqn:Er; cbn [bind] in Hrun; try discriminate.
      inversion Hrun; subst us. pose proof (IH _ _ Er) as Hnd.
      destruct (m =? 0)%Z; [|exact Hnd]. constructor; [|exact Hnd].
      assert (G : forall n v r, unbound_from model v n = Ok r -> forall w, In w r -> v <= w).
      { clear. intros n; induction n as [|n IH]; intros v r Hrun w Hw; cbn [unbound_from] in Hrun.
        - inversion Hrun; subst. destruct Hw.
        - destruct (get model v) as [m| |]; cbn [bind] in Hrun; try discriminate.
          destruct (unbound_from model (S v) n) as [r'| |] eqn:Er; cbn [bind] in Hrun; try discriminate.
          inversion Hrun; subst r. destruct (m =? 0)%Z.
          + destruct Hw as [<-|Hw]; [lia|]. pose proof (IH _ _ Er w Hw). lia.
          + pose proof (IH _ _ Er w Hw). lia. }
      intros Hin. pose proof (G _ _ _ Er v Hin). lia. }
  intros v. split; [apply contains_sound with (act := act); apply Hwf|].
  intros Hv. apply HC. eapply Permutation_in; eauto.
Qed.

(* ================================================================== *)
(* 8. The heap as the search loop drives it (Model.Heap.hstep)         *)

Definition hstate_ok (s : hstate) : Prop :=
  heap_ix (h_act s) (h_q s) /\
  length (h_model s) = length (h_act s) /\
  length (h_pol s) = length (h_act s) /\
  length (h_act s) <= length (indices (h_q s)) /\
  covers (h_q s) (h_model s).

(* what the search loop guarantees about its requests; n = nbVars *)
Definition op_ok (n : nat) (o : hop) : Prop :=
  match o with
  | OChoose lvl => lvl <> 0%Z
  | OBind v lvl => v < n /\ lvl <> 0%Z
  | OBump act' v => length act' = n
  | OCleanup ls => forall l, In l ls -> lit_var l < n
  | ORebuild => True
  end.

Definition all_bound (model : list Z) : Prop :=
  forall v, v < length model -> nth v model 0%Z <> 0%Z.

Lemma not_unbound_all_bound : forall model,
  (forall v, v < length model -> ~ unbound model v) -> all_bound model.
Proof.
  intros model H v Hv E. apply (H v Hv). unfold unbound.
  rewrite <- E. now apply nth_error_nth'.
Qed.

Lemma covers_bind : forall q model v lvl, covers q model -> lvl <> 0%Z ->
  covers q (put model v lvl).
Proof.
  intros q model v lvl Hcov Hl w Hw. apply Hcov. unfold unbound in *.
  destruct (Nat.eq_dec w v) as [->|Hwv].
  - destruct (Nat.lt_ge_cases v (length model)) as [Hlt|Hge].
    + rewrite nth_error_put_eq in Hw by exact Hlt. congruence.
    + apply nth_error_lt in Hw. rewrite length_put in Hw. lia.
  - now rewrite nth_error_put_ne in Hw.
Qed.

Lemma length_save_polarity : forall ls pol, length (save_polarity pol ls) = length pol.
Proof.
  intros ls; induction ls as [|l ls IH]; intros pol; cbn [save_polarity fold_left]; [reflexivity|].
  fold (save_polarity (put pol (lit_var l) (lit_positive l)) ls). now rewrite IH, length_put.
Qed.

Lemma hstep_ok : forall s o, hstate_ok s -> op_ok (length (h_act s)) o ->
  exists s' ol, hstep s o = Ok (s', ol) /\ hstate_ok s' /\
    length (h_act s') = length (h_act s) /\
    (ol = Some (-1)%Z -> all_bound (h_model s)) /\
    (forall l, ol = Some l -> l <> (-1)%Z ->
       unbound (h_model s) (lit_var l) /\ nth (lit_var l) (h_model s') 0%Z <> 0%Z).
Proof.
  intros [act q model pol] o [Hq [HLm [HLp [HLi Hcov]]]] Hop. cbn [h_act h_q h_model h_pol] in *.
  destruct o as [lvl|v lvl|act' v|ls|]; cbn [hstep op_ok h_act h_q h_model h_pol] in *.
  - (* chooseLit *)
    destruct (choose_lit_ok act q model pol Hq HLm HLp Hcov)
      as [q' [l [Hrun [Hq' [HLi' [Hsub [_ [_ Hres]]]]]]]].
    rewrite Hrun. cbn [bind].
    destruct Hres as [[-> [Hemp Hall]]|[v [-> [Hv [Hothers _]]]]].
    + cbn [Z.eqb]. eexists; eexists. split; [reflexivity|].
      split; [|split; [reflexivity|split]].
      * split; [exact Hq'|]. cbn [h_act h_q h_model h_pol].
        split; [exact HLm|]. split; [exact HLp|]. split; [lia|].
        intros w Hw. exfalso. apply (Hall w); [eapply nth_error_lt; eauto|exact Hw].
      * intros _. now apply not_unbound_all_bound.
      * intros l E Hl. inversion E; subst. congruence.
    + set (l := signed_lit v (negb (nth v pol false))).
      pose proof (signed_lit_nonneg v (negb (nth v pol false))) as Hl0. fold l in Hl0.
      destruct (Z.eqb_spec l (-1)) as [E|_]; [lia|].
      unfold l at 1. rewrite lit_var_signed_lit.
      pose proof (nth_error_lt _ _ _ _ Hv) as Hvl.
      rewrite (upd_ok _ model v lvl Hvl). cbn [bind].
      eexists; eexists. split; [reflexivity|].
      split; [|split; [reflexivity|split]].
      * split; [exact Hq'|]. cbn [h_act h_q h_model h_pol].
        split; [now rewrite length_put|]. split; [exact HLp|]. split; [lia|].
        intros w Hw. pose proof (covers_bind q model v lvl Hcov Hop w Hw) as _.
        assert (Hwv : w <> v).
        { intros ->. unfold unbound in Hw. rewrite nth_error_put_eq in Hw by exact Hvl. congruence. }
        apply Hothers; [exact Hwv|]. unfold unbound in *. now rewrite nth_error_put_ne in Hw.
      * intros E. inversion E. lia.
      * intros l' E _. inversion E; subst l'. unfold l. rewrite lit_var_signed_lit.
        cbn [h_model]. split; [exact Hv|].
        rewrite (nth_error_nth _ _ _ (nth_error_put_eq _ model v lvl Hvl)). exact Hop.
  - (* a propagated binding *)
    destruct Hop as [Hv Hl]. rewrite (upd_ok _ model v lvl ltac:(lia)). cbn [bind].
    eexists; eexists. split; [reflexivity|].
    split; [|split; [reflexivity|split; [discriminate|discriminate]]].
    split; [exact Hq|]. cbn [h_act h_q h_model h_pol].
    split; [now rewrite length_put|]. split; [exact HLp|]. split; [exact HLi|].
    now apply covers_bind.
  - (* varBumpActivity *)
    pose proof (heap_ix_act act act' q Hop Hq) as Hq2.
    destruct (var_bump_ok act' q v Hq2) as [q' [Hrun [Hq' [HP [HL' _]]]]].
    rewrite Hrun. cbn [bind].
    eexists; eexists. split; [reflexivity|].
    split; [|split; [exact Hop|split; [discriminate|discriminate]]].
    split; [exact Hq'|]. cbn [h_act h_q h_model h_pol].
    split; [lia|]. split; [lia|]. split; [lia|].
    intros w Hw. eapply Permutation_in; [symmetry; exact HP|]. now apply Hcov.
  - (* cleanupBindings *)
    assert (Hvs : forall v, In v (map lit_var ls) -> v < length act).
    { intros v Hv. apply in_map_iff in Hv. destruct Hv as [l [<- Hl]]. now apply Hop. }
    destruct (cleanup_bindings_ok act (map lit_var ls) q model Hq HLm Hvs Hcov)
      as [q' [model' [Hrun [Hq' [HL' [_ [_ [Hcov' [HLi' _]]]]]]]]].
    rewrite Hrun. cbn [bind].
    eexists; eexists. split; [reflexivity|].
    split; [|split; [reflexivity|split; [discriminate|discriminate]]].
    split; [exact Hq'|]. cbn [h_act h_q h_model h_pol].
    split; [lia|]. split; [now rewrite length_save_polarity|]. split; [lia|exact Hcov'].
  - (* rebuildOrderHeap *)
    destruct (rebuild_order_heap_ok act q model (length model) Hq eq_refl ltac:(lia) ltac:(lia))
      as [q' [us [Hrun [[Hq' _] [Hcov' [HLi' _]]]]]].
    rewrite Hrun. cbn [bind].
    eexists; eexists. split; [reflexivity|].
    split; [|split; [reflexivity|split; [discriminate|discriminate]]].
    split; [exact Hq'|]. cbn [h_act h_q h_model h_pol].
    split; [exact HLm|]. split; [exact HLp|]. split; [lia|exact Hcov'].
Qed.

(* any sequence of requests: no crash, no fuel exhaustion, the invariant holds *)
Lemma hrun_ok : forall ops s, hstate_ok s -> Forall (op_ok (length (h_act s))) ops ->
  exists s' log, hrun s ops = Ok (s', log) /\ hstate_ok s' /\
    length (h_act s') = length (h_act s).
Proof.
  intros ops; induction ops as [|o ops IH]; intros s Hs Hops; cbn [hrun].
  - exists s, []. auto.
  - inversion Hops as [|? ? Ho Hops']; subst.
    destruct (hstep_ok s o Hs Ho) as [s1 [ol [Hrun1 [Hs1 [HL1 _]]]]].
    rewrite Hrun1. cbn [bind].
    rewrite <- HL1 in Hops'.
    destruct (IH s1 Hs1 Hops') as [s' [log [Hrun [Hs' HL']]]].
    rewrite Hrun. cbn [bind]. eexists; eexists. split; [reflexivity|]. split; [exact Hs'|lia].
Qed.

(* the state built by New (solver.go:104-126) *)
Lemma hinit_ok : forall act pol, length pol = length act ->
  exists s, hinit act pol = Ok s /\ hstate_ok s /\ h_act s = act /\
            heap_strict act (h_q s).
Proof.
  intros act pol HLp. unfold hinit.
  destruct (new_queue_ok act) as [q [Hrun [Hs [HP HLi]]]].
  rewrite Hrun. cbn [bind]. eexists. split; [reflexivity|].
  split; [|split; [reflexivity|exact Hs]].
  split; [apply Hs|]. cbn [h_act h_q h_model h_pol].
  split; [apply repeat_length|]. split; [exact HLp|]. split; [exact HLi|].
  intros v Hv. apply nth_error_lt in Hv. rewrite repeat_length in Hv.
  eapply Permutation_in; [symmetry; exact HP|]. apply in_seq. lia.
Qed.

(* Solve answers Sat when chooseLit returns -1 (solver.go:392 [for lit != -1],
   :441 [return Sat]): at that moment every variable is bound, along any run *)
Lemma choose_none_all_bound : forall act pol ops s0 s log lvl s' ,
  length pol = length act -> hinit act pol = Ok s0 ->
  Forall (op_ok (length act)) ops -> hrun s0 ops = Ok (s, log) ->
  hstep s (OChoose lvl) = Ok (s', Some (-1)%Z) ->
  all_bound (h_model s).
Proof.
  intros act pol ops s0 s log lvl s' HLp Hinit Hops Hrun Hstep.
  destruct (hinit_ok act pol HLp) as [s0' [Hinit' [Hs0 [Ea _]]]].
  rewrite Hinit in Hinit'. inversion Hinit'; subst s0'. clear Hinit'.
  rewrite <- Ea in Hops.
  destruct (hrun_ok ops s0 Hs0 Hops) as [s1 [log1 [Hrun1 [Hs1 _]]]].
  rewrite Hrun in Hrun1. inversion Hrun1; subst s1 log1. clear Hrun1.
  (* the level plays no role when the answer is -1 *)
  assert (Hs : exists q1, choose_lit (h_act s) (h_q s) (h_model s) (h_pol s) = Ok (q1, (-1)%Z)).
  { cbn [hstep] in Hstep.
    destruct (choose_lit (h_act s) (h_q s) (h_model s) (h_pol s)) as [[q1 l]| |];
      cbn [bind] in Hstep; try discriminate.
    destruct (Z.eqb_spec l (-1)) as [E|Hl]; [rewrite E; eauto|].
    destruct (upd (h_model s) (lit_var l) lvl); cbn [bind] in Hstep; try discriminate.
    inversion Hstep. congruence. }
  destruct Hs as [q1 Hc].
  destruct (hstep_ok s (OChoose 1%Z) Hs1 ltac:(cbn; lia)) as [s2 [ol [Hrun2 [_ [_ [Hnone _]]]]]].
  cbn [hstep] in Hrun2. rewrite Hc in Hrun2. cbn [bind Z.eqb] in Hrun2.
  inversion Hrun2; subst. now apply Hnone.
Qed.

(* ================================================================== *)
(* 9. Boolean checkers (to state facts about concrete heaps)           *)

Definition heap_ixb (act : list Z) (q : queue) : bool :=
  forallb (fun v => (v <? length (indices q)) && (v <? length act)) (content q) &&
  forallb (fun v => match nth_error (indices q) v with
                    | Some z => (z <? 0)%Z ||
                                match nth_error (content q) (Z.to_nat z) with
                                | Some w => w =? v
                                | None => false
                                end
                    | None => true
                    end) (seq 0 (length (indices q))).

Definition heap_ordb (act : list Z) (c : list nat) : bool :=
  forallb (fun j => match nth_error c j, nth_error c (h_parent j) with
                    | Some a, Some b => (key act a <=? key act b)%Z
                    | _, _ => true
                    end) (seq 1 (length c - 1)).

Lemma heap_ixb_ok : forall act q, heap_ixb act q = true -> heap_ix act q.
Proof.
  intros act q H. unfold heap_ixb in H. apply andb_true_iff in H. destruct H as [H1 H2].
  rewrite forallb_forall in H1, H2. split.
  - intros v Hv. apply H1 in Hv. apply andb_true_iff in Hv. destruct Hv as [Ha Hb].
    apply Nat.ltb_lt in Ha, Hb. auto.
  - intros v z Hz Hz0. pose proof (H2 v) as Hv. rewrite Hz in Hv.
    assert (Hin : In v (seq 0 (length (indices q)))).
    { apply in_seq. apply nth_error_lt in Hz. lia. }
    apply Hv in Hin. apply orb_true_iff in Hin. destruct Hin as [Hn|Hc].
    + apply Z.ltb_lt in Hn. lia.
    + destruct (nth_error (content q) (Z.to_nat z)) as [w|]; [|discriminate].
      apply Nat.eqb_eq in Hc. now subst.
Qed.

Lemma heap_ordb_ok : forall act c, heap_ordb act c = true -> heap_ord act c.
Proof.
  intros act c H j Hj _ a b Ha Hb. unfold heap_ordb in H. rewrite forallb_forall in H.
  assert (Hin : In j (seq 1 (length c - 1))).
  { apply in_seq. apply nth_error_lt in Ha. lia. }
  apply H in Hin. rewrite Ha, Hb in Hin. now apply Z.leb_le.
Qed.

Lemma heap_ordb_false : forall act c, heap_ordb act c = false -> ~ heap_ord act c.
Proof.
  intros act c H Ho. assert (E : heap_ordb act c = true); [|congruence].
  unfold heap_ordb. apply forallb_forall. intros j Hj. apply in_seq in Hj.
  destruct (nth_error c j) as [a|] eqn:Ea; [|reflexivity].
  destruct (nth_error c (h_parent j)) as [b|] eqn:Eb; [|reflexivity].
  apply Z.leb_le. apply (Ho j ltac:(lia) ltac:(lia) a b Ea Eb).
Qed.

Lemma not_NoDup_count : forall (c : list nat) v, 1 < count_occ Nat.eq_dec c v -> ~ NoDup c.
Proof.
  intros c v H Hnd. rewrite (NoDup_count_occ Nat.eq_dec) in Hnd. specialize (Hnd v). lia.
Qed.

(* writing one entry of the activity slice upwards is a bump *)
Lemma bumped_put : forall act0 n k, n < length act0 -> (key act0 n <= k)%Z ->
  bumped act0 (put act0 n k) n.
Proof.
  intros act0 n k Hn Hk.
  assert (E : forall v, v <> n -> key (put act0 n k) v = key act0 v).
  { intros v Hv. unfold key.
    destruct (Nat.lt_ge_cases v (length act0)) as [Hlt|Hge].
    - destruct (nth_error_ex _ act0 v Hlt) as [a Ha].
      rewrite (nth_error_nth _ _ _ Ha).
      apply nth_error_nth. now rewrite nth_error_put_ne.
    - rewrite !nth_overflow; auto. now rewrite length_put. }
  assert (En : key (put act0 n k) n = k).
  { unfold key. apply nth_error_nth. now apply nth_error_put_eq. }
  split.
  - intros v w Hv Hw. now rewrite !E.
  - intros w Hw. rewrite E, En by auto. lia.
Qed.

(* ================================================================== *)
(* 10. What does NOT hold (witnesses computed by the model)            *)

(* (a) cleanupBindings inserts the variables it puts back twice
   (solver.go:326 and :332): one decision followed by one backtrack and the
   heap holds the variable twice -- from the state built by New.           *)
Lemma cleanup_strict_refuted :
  exists act pol s0 ops s log,
    hinit act pol = Ok s0 /\ heap_strict act (h_q s0) /\
    Forall (op_ok (length act)) ops /\ hrun s0 ops = Ok (s, log) /\
    ~ NoDup (content (h_q s)).
Proof.
  exists [5; 3]%Z, [false; false].
  destruct (hinit_ok [5; 3]%Z [false; false] eq_refl) as [s0 [Hinit [_ [_ Hstrict]]]].
  exists s0, [OChoose 2%Z; OCleanup [1%Z]].
  assert (E : s0 = HS [5; 3]%Z (Q [0; 1] [0; 1]%Z) [0; 0]%Z [false; false]).
  { vm_compute in Hinit. now inversion Hinit. }
  subst s0. eexists; eexists. split; [exact Hinit|]. split; [exact Hstrict|].
  split; [apply Forall_cons; [cbn; lia|apply Forall_cons; [cbn; intros v [<-|[]]; vm_compute; lia|apply Forall_nil]]|].
  split; [vm_compute; reflexivity|].
  cbn [h_q content]. apply (not_NoDup_count _ 0). vm_compute. lia.
Qed.

(* (b) rebuildOrderHeap hands nbVars copies of variable 0 to build
   (solver.go:375 make([]int, s.nbVars) followed by append)                *)
Lemma rebuild_strict_refuted :
  exists act pol s0 s log,
    hinit act pol = Ok s0 /\ heap_strict act (h_q s0) /\
    hrun s0 [ORebuild] = Ok (s, log) /\
    content (h_q s) = [0; 0; 0; 1] /\ ~ NoDup (content (h_q s)).
Proof.
  exists [5; 3]%Z, [false; false].
  destruct (hinit_ok [5; 3]%Z [false; false] eq_refl) as [s0 [Hinit [_ [_ Hstrict]]]].
  exists s0.
  assert (E : s0 = HS [5; 3]%Z (Q [0; 1] [0; 1]%Z) [0; 0]%Z [false; false]).
  { vm_compute in Hinit. now inversion Hinit. }
  subst s0. eexists; eexists. split; [exact Hinit|]. split; [exact Hstrict|].
  split; [vm_compute; reflexivity|]. cbn [h_q content]. split; [reflexivity|].
  apply (not_NoDup_count _ 0). vm_compute. lia.
Qed.

(* (c) with duplicates [contains] can answer false for a variable that is in
   the heap: removeMin writes indices[x] = -1 while another copy of x stays  *)
Lemma contains_complete_refuted :
  exists act pol s0 ops s log v,
    hinit act pol = Ok s0 /\ Forall (op_ok (length act)) ops /\
    hrun s0 ops = Ok (s, log) /\ heap_wf (h_act s) (h_q s) /\
    In v (content (h_q s)) /\ contains (h_q s) v = false.
Proof.
  exists [5]%Z, [false], (HS [5]%Z (Q [0] [0]%Z) [0]%Z [false]),
         [ORebuild; OChoose 2%Z].
  eexists; eexists; exists 0.
  split; [vm_compute; reflexivity|].
  split; [apply Forall_cons; [exact I|apply Forall_cons; [cbn; lia|apply Forall_nil]]|].
  split; [vm_compute; reflexivity|]. cbn [h_act h_q].
  split; [split; [apply heap_ixb_ok|apply heap_ordb_ok]; vm_compute; reflexivity|].
  split; [now left|reflexivity].
Qed.

(* (d) decrease(n) percolates only the copy indices[n] points to: with a
   second copy of n the heap order is lost (state reached by Go, see
   Properties/C01h.v, go_trace_C and go_trace_D)                           *)
Lemma decrease_ord_refuted :
  exists act0 act q n q',
    heap_wf act0 q /\ length act = length act0 /\ bumped act0 act n /\
    contains q n = true /\ decrease act q n = Ok q' /\
    ~ heap_ord act (content q').
Proof.
  exists [3; 1; 4; 1; 5; 9; 2; 6]%Z, (put [3; 1; 4; 1; 5; 9; 2; 6]%Z 1 10%Z),
         (Q [5; 6; 5; 3; 1; 0; 2; 1] [5; 7; 6; 3; -1; 2; 1; -1]%Z), 1.
  eexists.
  split; [split; [apply heap_ixb_ok|apply heap_ordb_ok]; vm_compute; reflexivity|].
  split; [reflexivity|].
  split; [apply bumped_put; [cbn; lia|vm_compute; discriminate]|].
  split; [reflexivity|].
  split; [vm_compute; reflexivity|].
  apply heap_ordb_false. vm_compute. reflexivity.
Qed.

(* ---- the two faces of chooseLit, as used by the search loop ---- *)
Lemma choose_lit_none : forall act q model pol q',
  heap_ix act q -> length model = length act -> length pol = length act ->
  covers q model -> choose_lit act q model pol = Ok (q', (-1)%Z) ->
  all_bound model /\ content q' = [].
Proof.
  intros act q model pol q' Hq HL HLp Hcov Hrun.
  destruct (choose_lit_ok act q model pol Hq HL HLp Hcov)
    as [q1 [l [Hrun1 [_ [_ [_ [_ [_ Hres]]]]]]]].
  rewrite Hrun in Hrun1. inversion Hrun1; subst q1 l. clear Hrun1.
  destruct Hres as [[_ [Hemp Hall]]|[v [E _]]].
  - split; [now apply not_unbound_all_bound|exact Hemp].
  - pose proof (signed_lit_nonneg v (negb (nth v pol false))). lia.
Qed.

Lemma choose_lit_some : forall act q model pol q' l,
  heap_ix act q -> length model = length act -> length pol = length act ->
  covers q model -> choose_lit act q model pol = Ok (q', l) -> l <> (-1)%Z ->
  unbound model (lit_var l) /\
  l = signed_lit (lit_var l) (negb (nth (lit_var l) pol false)) /\
  heap_ix act q' /\
  (forall lvl, lvl <> 0%Z -> covers q' (put model (lit_var l) lvl)) /\
  (heap_ord act (content q) ->
     forall w, unbound model w -> (key act w <= key act (lit_var l))%Z).
Proof.
  intros act q model pol q' l Hq HL HLp Hcov Hrun Hl.
  destruct (choose_lit_ok act q model pol Hq HL HLp Hcov)
    as [q1 [l1 [Hrun1 [Hq1 [_ [_ [_ [_ Hres]]]]]]]].
  rewrite Hrun in Hrun1. inversion Hrun1; subst q1 l1. clear Hrun1.
  destruct Hres as [[E _]|[v [E [Hv [Hothers Hmax]]]]]; [congruence|].
  assert (Ev : lit_var l = v) by (rewrite E; apply lit_var_signed_lit).
  rewrite Ev. split; [exact Hv|]. split; [exact E|]. split; [exact Hq1|]. split; [|exact Hmax].
  intros lvl Hlvl w Hw. pose proof (nth_error_lt _ _ _ _ Hv) as Hvl.
  assert (Hwv : w <> v).
  { intros ->. unfold unbound in Hw. rewrite nth_error_put_eq in Hw by exact Hvl. congruence. }
  apply Hothers; [exact Hwv|]. unfold unbound in *. now rewrite nth_error_put_ne in Hw.
Qed.

(* ================================================================== *)
(* 11. Examples: traces of the Go code replayed by the model            *)
(* The right-hand sides below were printed by a throw-away test run inside
   package solver on the committed sources (newQueue, removeMin, insert,
   contains, decrease, build, rebuildOrderHeap, chooseLit, cleanupBindings
   called directly, activities 3 1 4 1 5 9 2 6 as float64).               *)

Definition ex_act : list Z := [3; 1; 4; 1; 5; 9; 2; 6]%Z.
Definition ex_act2 : list Z := [3; 10; 4; 1; 5; 9; 2; 6]%Z.   (* after bumping variable 1 *)
Definition ex_qA := Q [5; 7; 4; 2; 1; 0; 6; 3] [5; 4; 3; 7; 2; 0; 6; 1]%Z.
Definition ex_qB1 := Q [7; 2; 4; 3; 1; 0; 6] [5; 4; 1; 3; 2; -1; 6; 0]%Z.
Definition ex_qB2 := Q [4; 2; 0; 3; 1; 6] [2; 4; 1; 3; 0; -1; 5; -1]%Z.
Definition ex_qB3 := Q [2; 6; 0; 3; 1] [2; 4; 0; 3; -1; -1; 1; -1]%Z.
Definition ex_qC1 := Q [5; 6; 2; 3; 1; 0] [5; 4; 2; 3; -1; 0; 1; -1]%Z.
Definition ex_qC2 := Q [5; 6; 5; 3; 1; 0; 2] [5; 4; 6; 3; -1; 2; 1; -1]%Z.
Definition ex_qC3 := Q [5; 6; 5; 3; 1; 0; 2; 1] [5; 7; 6; 3; -1; 2; 1; -1]%Z.
Definition ex_qD := Q [1; 5; 5; 6; 1; 0; 2; 3] [5; 0; 6; 7; -1; 1; 3; -1]%Z.
Definition ex_qE := Q [] [-1; -1; -1; -1; -1; -1; -1; -1]%Z.
Definition ex_qF := Q [7; 2; 0; 0; 3; 6; 0] [2; -1; 1; 4; -1; -1; 5; 0]%Z.
Definition ex_qF1 := Q [2; 0; 0; 0; 3; 6] [1; -1; 0; 4; -1; -1; 5; -1]%Z.
Definition ex_qF2 := Q [2; 0; 0; 0; 3; 6; 0] [6; -1; 0; 4; -1; -1; 5; -1]%Z.

(* "A new" *)
Lemma go_new_queue : new_queue ex_act = Ok ex_qA.
Proof. vm_compute. reflexivity. Qed.

(* "B pop=5", "B pop=7", "B pop=4" *)
Lemma go_remove_min :
  remove_min ex_act ex_qA = Ok (ex_qB1, 5) /\
  remove_min ex_act ex_qB1 = Ok (ex_qB2, 7) /\
  remove_min ex_act ex_qB2 = Ok (ex_qB3, 4).
Proof. vm_compute. repeat split. Qed.

(* "C ins5", "C ins5again", "C ins1(dup)", contains1/7/5 *)
Lemma go_insert :
  insert ex_act ex_qB3 5 = Ok ex_qC1 /\ insert ex_act ex_qC1 5 = Ok ex_qC2 /\
  insert ex_act ex_qC2 1 = Ok ex_qC3 /\
  contains ex_qC3 1 = true /\ contains ex_qC3 7 = false /\ contains ex_qC3 5 = true.
Proof. vm_compute. repeat split. Qed.

(* "D bump1=10": activity[1] = 10, then decrease(1) *)
Lemma go_decrease : decrease ex_act2 ex_qC3 1 = Ok ex_qD.
Proof. vm_compute. reflexivity. Qed.

Fixpoint pop_all (act : list Z) (fuel : nat) (q : queue) : res (list nat * queue) :=
  match fuel with
  | O => Ok ([], q)
  | S f => if empty q then Ok ([], q) else
           do r <- remove_min act q; let '(q1, x) := r in
           do r2 <- pop_all act f q1; let '(xs, q2) := r2 in Ok (x :: xs, q2)
  end.

(* "E pop=1" ... "E pop=3": the order in which a heap with duplicates and a
   broken order gives back its elements (6 comes out after 5, 1, 5, 2, 0)    *)
Lemma go_pop_all : pop_all ex_act2 20 ex_qD = Ok ([1; 5; 1; 5; 2; 0; 6; 3], ex_qE).
Proof. vm_compute. reflexivity. Qed.

(* "F build", "F pop=7 c0=true", "F ins0" *)
Lemma go_build :
  build ex_act2 ex_qE [0; 0; 0; 2; 3; 6; 7] = Ok ex_qF /\
  remove_min ex_act2 ex_qF = Ok (ex_qF1, 7) /\ contains ex_qF1 0 = true /\
  insert ex_act2 ex_qF1 0 = Ok ex_qF2.
Proof. vm_compute. repeat split. Qed.

(* "R new" ... "R choose=1", "R real cleanupBindings", "R2 rebuilt", "R2 choose=5":
   a solver with 5 variables, activities 3 1 4 1 5, polarity all false        *)
Definition ex_actR : list Z := [3; 1; 4; 1; 5]%Z.
Definition ex_polR : list bool := [false; false; false; false; false].
Definition ex_qR := Q [4; 2; 0; 3; 1] [2; 4; 1; 3; 0]%Z.
Definition ex_qR1 := Q [4; 0; 2; 0; 0; 0; 0; 0] [1; -1; 2; -1; 0]%Z.
Definition ex_qR2 := Q [2; 0; 0; 0; 0; 0; 0] [2; -1; 0; -1; -1]%Z.
Definition ex_qR3 := Q [0; 0; 0; 0; 0; 0] [0; -1; -1; -1; -1]%Z.
Definition ex_qR4 := Q [0; 0; 0; 0; 0] [0; -1; -1; -1; -1]%Z.
Definition ex_qR5 := Q [4; 4; 2; 2; 0; 0; 0; 0; 0] [8; -1; 3; -1; 1]%Z.

Lemma go_rebuild_order_heap :
  new_queue ex_actR = Ok ex_qR /\
  rebuild_order_heap ex_actR ex_qR [0; 1; 0; -1; 0]%Z 5 = Ok ex_qR1 /\
  choose_lit ex_actR ex_qR1 [0; 1; 0; -1; 0]%Z ex_polR = Ok (ex_qR2, 9%Z) /\
  choose_lit ex_actR ex_qR2 [0; 1; 0; -1; 2]%Z ex_polR = Ok (ex_qR3, 5%Z) /\
  choose_lit ex_actR ex_qR3 [0; 1; 2; -1; 2]%Z ex_polR = Ok (ex_qR4, 1%Z) /\
  cleanup_bindings ex_actR [4; 2] ex_qR4 [2; 1; 2; -1; 2]%Z
    = Ok (ex_qR5, [2; 1; 0; -1; 0]%Z) /\
  rebuild_order_heap ex_actR (Q [4; 0; 2; 0; 0; 0; 0] [6; -1; 2; -1; 0]%Z) [0; 1; 0; 1; 1]%Z 5
    = Ok ex_qR2 /\
  choose_lit ex_actR ex_qR2 [0; 1; 0; 1; 1]%Z ex_polR = Ok (ex_qR3, 5%Z).
Proof. vm_compute. repeat split. Qed.

(* ---- the hypotheses of the theorems are satisfiable ---- *)
Lemma ex_strict : heap_strict ex_act ex_qA.
Proof.
  destruct (new_queue_ok ex_act) as [q [Hrun [Hs _]]].
  rewrite go_new_queue in Hrun. inversion Hrun; subst. exact Hs.
Qed.

(* the weak invariant with duplicates: a state produced by Go *)
Lemma ex_wf_dups : heap_wf ex_act ex_qC3 /\ ~ NoDup (content ex_qC3) /\ contains ex_qC3 1 = true.
Proof.
  split; [split; [apply heap_ixb_ok|apply heap_ordb_ok]; vm_compute; reflexivity|].
  split; [|reflexivity]. apply (not_NoDup_count _ 5). vm_compute. lia.
Qed.

Lemma ex_covers : covers ex_qR1 [0; 1; 0; -1; 0]%Z /\ heap_ix ex_actR ex_qR1.
Proof.
  split; [|apply heap_ixb_ok; vm_compute; reflexivity].
  intros v Hv. unfold unbound in Hv.
  do 5 (destruct v as [|v]; [cbn in Hv; try discriminate; cbn; tauto|]).
  destruct v; discriminate.
Qed.

(* a whole run of the machine: two decisions, a bump, a backtrack to level 1,
   a learned unit, rebuildOrderHeap, a decision, a propagation, and
   chooseLit = -1 with every variable bound                                  *)
Definition ex_s0 := HS [1; 3; 2]%Z (Q [1; 0; 2] [1; 0; 2]%Z) [0; 0; 0]%Z [false; true; false].
Definition ex_ops : list hop :=
  [OChoose 2; OChoose 3; OBump [1; 3; 7]%Z 2; OCleanup [2; 5]%Z; OBind 1 1; ORebuild;
   OChoose 2; OBind 0 (-2); OChoose 3].

Lemma ex_run :
  hinit [1; 3; 2]%Z [false; true; false] = Ok ex_s0 /\
  Forall (op_ok 3) ex_ops /\
  hrun ex_s0 (firstn 4 ex_ops)
    = Ok (HS [1; 3; 7]%Z (Q [2; 2; 1; 0; 1] [3; 4; 1]%Z) [0; 0; 0]%Z [false; true; false], [2; 5]%Z) /\
  hrun ex_s0 (firstn 6 ex_ops)
    = Ok (HS [1; 3; 7]%Z (Q [2; 0; 0; 0; 0] [1; -1; 0]%Z) [0; 1; 0]%Z [false; true; false], [2; 5]%Z) /\
  hrun ex_s0 ex_ops
    = Ok (HS [1; 3; 7]%Z (Q [] [-1; -1; -1]%Z) [-2; 1; 2]%Z [false; true; false], [2; 5; 5; -1]%Z).
Proof.
  split; [vm_compute; reflexivity|]. split.
  { unfold ex_ops. repeat (apply Forall_cons; [cbn; try lia; try tauto|]); try apply Forall_nil.
    intros l [<-|[<-|[]]]; vm_compute; lia. }
  vm_compute. repeat split.
Qed.

(* the heap grows beyond the number of variables: 2 variables, three rounds
   of (decide, decide, backtrack) and [content] holds 4 elements              *)
Lemma ex_growth :
  hrun (HS [1; 3]%Z (Q [1; 0] [1; 0]%Z) [0; 0]%Z [false; true])
       [OChoose 2; OChoose 3; OCleanup [2; 1]%Z; OChoose 2; OChoose 3; OCleanup [1; 2]%Z;
        OChoose 2; OChoose 3; OCleanup [2; 1]%Z]
  = Ok (HS [1; 3]%Z (Q [1; 1; 0; 0] [3; 1]%Z) [0; 0]%Z [false; true], [2; 1; 2; 1; 2; 1]%Z).
Proof. vm_compute. reflexivity. Qed.

(* ================================================================== *)
(* 12. Glue with the generated translation Gen/GoTypes.v               *)
(* left / right / parent (queue.go:47-49), Var.SignedLit and Lit.Var
   (types.go) are translated from the Go sources on every run; the model
   uses its own [nat] versions, tied to the generated ones here.           *)
From GS Require Import Gen.GoTypes Proofs.GoTypesGlue.

Lemma h_left_go : forall i : nat, Z.of_nat (h_left i) = GoTypes.go_left (Z.of_nat i).
Proof. intros i. unfold h_left. GoTypesGlue.go_solve. Qed.

Lemma h_right_go : forall i : nat, Z.of_nat (h_right i) = GoTypes.go_right (Z.of_nat i).
Proof. intros i. unfold h_right. GoTypesGlue.go_solve. Qed.

Lemma h_parent_go : forall i : nat, (0 < i)%nat -> Z.of_nat (h_parent i) = GoTypes.go_parent (Z.of_nat i).
Proof. intros i Hi. pose proof (parent_spec i Hi) as H. GoTypesGlue.go_solve. Qed.

Lemma signed_lit_go : forall (v : nat) (b : bool), signed_lit v b = GoTypes.go_Var_SignedLit (Z.of_nat v) b.
Proof. intros v b. unfold signed_lit. destruct b; GoTypesGlue.go_solve. Qed.

Lemma lit_var_go : forall l : Z, (0 <= l)%Z -> Z.of_nat (lit_var l) = GoTypes.go_Lit_Var l.
Proof.
  intros l Hl. unfold lit_var. rewrite Z2Nat.id by (apply Z.quot_pos; lia).
  GoTypesGlue.go_solve.
Qed.
