(* Proofs about Model/Propagate.v (solver/watcher.go). *)
From Coq Require Import List ZArith Lia Bool Permutation.
From GS Require Import Spec.Base Spec.PB Model.Propagate.
Import ListNotations.
Open Scope Z_scope.

(* ------------------------------------------------------------------ *)
(* Literal status                                                       *)

Lemma lit_val_vidx : forall m l,
  lit_val m l = if 0 <? l then nth (vidx l) m false else negb (nth (vidx l) m false).
Proof.
  intros m l. unfold lit_val, var_val, vidx.
  destruct (0 <? l) eqn:E.
  - apply Z.ltb_lt in E. f_equal. lia.
  - apply Z.ltb_ge in E. do 2 f_equal. lia.
Qed.

Lemma lstatus_eqb_eq : forall x y, lstatus_eqb x y = true <-> x = y.
Proof. intros [] []; simpl; split; intro H; try reflexivity; discriminate. Qed.

Lemma lit_status_cases : forall a l,
  (lit_status a l = LIndet /\ aget a l = 0) \/
  (lit_status a l = LSat /\ aget a l <> 0 /\ (0 < aget a l <-> 0 < l)) \/
  (lit_status a l = LUnsat /\ aget a l <> 0 /\ ~ (0 < aget a l <-> 0 < l)).
Proof.
  intros a l. unfold lit_status.
  destruct (aget a l =? 0) eqn:E0.
  - left. apply Z.eqb_eq in E0. auto.
  - apply Z.eqb_neq in E0. right.
    destruct (0 <? aget a l) eqn:E1; destruct (0 <? l) eqn:E2; simpl;
      try apply Z.ltb_lt in E1; try apply Z.ltb_lt in E2;
      try apply Z.ltb_ge in E1; try apply Z.ltb_ge in E2.
    + left. repeat split; auto.
    + right. repeat split; auto. intros [H _]. specialize (H E1). lia.
    + right. repeat split; auto. intros [_ H]. specialize (H E2). lia.
    + left. repeat split; auto; lia.
Qed.

Lemma indet_aget : forall a l, lit_status a l = LIndet <-> aget a l = 0.
Proof.
  intros a l. destruct (lit_status_cases a l) as [[H1 H2]|[[H1 [H2 _]]|[H1 [H2 _]]]];
    rewrite H1; split; intro H; auto; try discriminate; contradiction.
Qed.

Lemma is_indet_aget : forall a l, is_indet a l = (aget a l =? 0).
Proof.
  intros a l. unfold is_indet.
  destruct (aget a l =? 0) eqn:E.
  - apply Z.eqb_eq in E. apply indet_aget in E. rewrite E. reflexivity.
  - apply Z.eqb_neq in E. destruct (lit_status a l) eqn:S; auto.
    exfalso. apply E. apply indet_aget. exact S.
Qed.

Lemma is_indet_true : forall a l, is_indet a l = true <-> lit_status a l = LIndet.
Proof. intros. unfold is_indet. apply lstatus_eqb_eq. Qed.
Lemma is_sat_true : forall a l, is_sat a l = true <-> lit_status a l = LSat.
Proof. intros. unfold is_sat. apply lstatus_eqb_eq. Qed.
Lemma is_unsat_true : forall a l, is_unsat a l = true <-> lit_status a l = LUnsat.
Proof. intros. unfold is_unsat. apply lstatus_eqb_eq. Qed.

Lemma non_false_true : forall a l, non_false a l = true <-> lit_status a l <> LUnsat.
Proof.
  intros a l. unfold non_false, is_unsat.
  destruct (lit_status a l); simpl; split; intro H; auto; try discriminate;
    try (exfalso; apply H; reflexivity).
Qed.

Lemma non_false_false : forall a l, non_false a l = false <-> lit_status a l = LUnsat.
Proof.
  intros a l. unfold non_false, is_unsat.
  destruct (lit_status a l); simpl; split; intro H; auto; discriminate.
Qed.

Lemma ext_sat : forall m a l, extends m a -> lit_status a l = LSat -> lit_val m l = true.
Proof.
  intros m a l E S. rewrite lit_val_vidx.
  destruct (lit_status_cases a l) as [[H1 _]|[[_ [H2 H3]]|[H1 _]]]; try congruence.
  unfold aget in *. destruct (E (vidx l)) as [Ep En].
  destruct (0 <? l) eqn:P.
  - apply Z.ltb_lt in P. apply Ep. apply H3. exact P.
  - apply Z.ltb_ge in P. rewrite En; [reflexivity|].
    destruct (Z.lt_trichotomy (nth (vidx l) a 0) 0) as [L|[L|L]]; auto; try contradiction.
    apply H3 in L. lia.
Qed.

Lemma ext_unsat : forall m a l, extends m a -> lit_status a l = LUnsat -> lit_val m l = false.
Proof.
  intros m a l E S. rewrite lit_val_vidx.
  destruct (lit_status_cases a l) as [[H1 _]|[[H1 _]|[_ [H2 H3]]]]; try congruence.
  unfold aget in *. destruct (E (vidx l)) as [Ep En].
  destruct (0 <? l) eqn:P.
  - apply Z.ltb_lt in P. apply En.
    destruct (Z.lt_trichotomy (nth (vidx l) a 0) 0) as [L|[L|L]]; auto; try contradiction.
    exfalso. apply H3. split; auto.
  - apply Z.ltb_ge in P.
    destruct (Z.lt_trichotomy (nth (vidx l) a 0) 0) as [L|[L|L]]; try contradiction.
    + exfalso. apply H3. split; lia.
    + rewrite Ep; auto.
Qed.

Lemma extendsb_spec : forall m a, extendsb m a = true <-> extends m a.
Proof.
  intros m a. unfold extendsb, extends. rewrite forallb_forall. split.
  - intros H i. destruct (Nat.lt_ge_cases i (length a)) as [L|L].
    + specialize (H i). rewrite in_seq in H. specialize (H ltac:(lia)). cbv zeta in H.
      destruct (0 <? nth i a 0) eqn:P.
      * apply Z.ltb_lt in P. split; [auto|lia].
      * apply Z.ltb_ge in P. destruct (nth i a 0 <? 0) eqn:N.
        -- apply negb_true_iff in H. split; [lia|auto].
        -- apply Z.ltb_ge in N. split; lia.
    + rewrite (nth_overflow a 0 L). split; lia.
  - intros H i Hi. cbv zeta. destruct (H i) as [Hp Hn].
    destruct (0 <? nth i a 0) eqn:P.
    + apply Z.ltb_lt in P. auto.
    + destruct (nth i a 0 <? 0) eqn:N; [|reflexivity].
      apply Z.ltb_lt in N. rewrite (Hn N). reflexivity.
Qed.

(* ------------------------------------------------------------------ *)
(* list_set / assign                                                    *)

Lemma list_set_length : forall A (l : list A) i x, length (list_set l i x) = length l.
Proof. induction l as [|h t IH]; intros [|i] x; simpl; auto. Qed.

Lemma nth_list_set : forall A (l : list A) i j x d,
  nth j (list_set l i x) d = if Nat.eqb j i && Nat.ltb i (length l) then x else nth j l d.
Proof.
  induction l as [|h t IH]; intros i j x d.
  - destruct i; simpl; rewrite andb_false_r; reflexivity.
  - destruct i as [|i]; destruct j as [|j]; simpl; auto.
    rewrite IH. reflexivity.
Qed.

Lemma assign_length : forall a lvl l, length (assign a lvl l) = length a.
Proof. intros. apply list_set_length. Qed.

Lemma assign_all_length : forall ls a lvl, length (assign_all a lvl ls) = length a.
Proof.
  induction ls as [|l ls IH]; intros a lvl; simpl; auto.
  unfold assign_all in *. simpl. rewrite IH. apply assign_length.
Qed.

Lemma aget_assign_other : forall a lvl l l', vidx l' <> vidx l -> aget (assign a lvl l) l' = aget a l'.
Proof.
  intros a lvl l l' H. unfold aget, assign. rewrite nth_list_set.
  destruct (Nat.eqb_spec (vidx l') (vidx l)); [contradiction|reflexivity].
Qed.

Lemma status_assign_other : forall a lvl l l', vidx l' <> vidx l ->
  lit_status (assign a lvl l) l' = lit_status a l'.
Proof. intros. unfold lit_status. rewrite aget_assign_other; auto. Qed.

Lemma aget_assign_same : forall a lvl l l', vidx l' = vidx l -> (vidx l < length a)%nat ->
  aget (assign a lvl l) l' = lvl_to_signed l lvl.
Proof.
  intros a lvl l l' H R. unfold aget, assign. rewrite nth_list_set. rewrite H.
  rewrite Nat.eqb_refl. apply Nat.ltb_lt in R. rewrite R. reflexivity.
Qed.

Lemma status_assign_self : forall a lvl l, 0 < lvl -> (vidx l < length a)%nat ->
  lit_status (assign a lvl l) l = LSat.
Proof.
  intros a lvl l L R. unfold lit_status. rewrite aget_assign_same; auto.
  unfold lvl_to_signed. destruct (0 <? l) eqn:P.
  - destruct (lvl =? 0) eqn:Z0; [apply Z.eqb_eq in Z0; lia|].
    assert (E : (0 <? lvl) = true) by (apply Z.ltb_lt; lia). rewrite E. reflexivity.
  - destruct (- lvl =? 0) eqn:Z0; [apply Z.eqb_eq in Z0; lia|].
    assert (E : (0 <? - lvl) = false) by (apply Z.ltb_ge; lia). rewrite E. reflexivity.
Qed.

(* the status after a write that may have been ignored *)
Lemma status_assign_self_weak : forall a lvl l, 0 < lvl -> lit_status a l = LIndet ->
  lit_status (assign a lvl l) l <> LUnsat.
Proof.
  intros a lvl l L I. destruct (Nat.lt_ge_cases (vidx l) (length a)) as [R|R].
  - rewrite status_assign_self; auto. discriminate.
  - assert (E : assign a lvl l = a).
    { unfold assign. clear -R. revert R. generalize (vidx l) as i. generalize (lvl_to_signed l lvl) as x.
      induction a as [|h t IH]; intros x [|i] R; simpl in *; auto; try lia.
      f_equal. apply IH. lia. }
    rewrite E, I. discriminate.
Qed.

Lemma vidx_eq : forall l l', l <> 0 -> l' <> 0 -> vidx l = vidx l' -> l' = l \/ l' = - l.
Proof. intros l l' H H' E. unfold vidx in E. lia. Qed.

(* a_le *)
Lemma a_le_refl : forall a, a_le a a.
Proof. intros a i. split; auto. Qed.

Lemma a_le_trans : forall a b c, a_le a b -> a_le b c -> a_le a c.
Proof.
  intros a b c H1 H2 i. destruct (H1 i) as [A1 A2]. destruct (H2 i) as [B1 B2]. split; auto.
Qed.

Lemma a_le_assign : forall a lvl l, lit_status a l = LIndet -> a_le a (assign a lvl l).
Proof.
  intros a lvl l I i. apply indet_aget in I. unfold aget in I. unfold assign.
  rewrite nth_list_set. destruct (Nat.eqb_spec i (vidx l)) as [->|N]; simpl.
  - rewrite I. split; lia.
  - split; auto.
Qed.

Lemma a_le_sat : forall a a' l, a_le a a' -> lit_status a l = LSat -> lit_status a' l = LSat.
Proof.
  intros a a' l H S.
  destruct (lit_status_cases a l) as [[H1 _]|[[_ [H2 H3]]|[H1 _]]]; try congruence.
  destruct (H (vidx l)) as [Hp Hn]. unfold aget in *.
  destruct (lit_status_cases a' l) as [[_ K]|[[K _]|[_ [K2 K3]]]]; auto; unfold aget in *.
  - exfalso. destruct (Z.lt_trichotomy (nth (vidx l) a 0) 0) as [L|[L|L]]; try contradiction.
    + specialize (Hn L). lia.
    + specialize (Hp L). lia.
  - exfalso. apply K3. destruct (Z.lt_trichotomy (nth (vidx l) a 0) 0) as [L|[L|L]]; try contradiction.
    + specialize (Hn L). split; intro; [lia|]. apply H3 in H0. lia.
    + specialize (Hp L). split; intro; auto. apply H3. exact L.
Qed.

Lemma a_le_unsat : forall a a' l, a_le a a' -> lit_status a l = LUnsat -> lit_status a' l = LUnsat.
Proof.
  intros a a' l H S.
  destruct (lit_status_cases a l) as [[H1 _]|[[H1 _]|[_ [H2 H3]]]]; try congruence.
  destruct (H (vidx l)) as [Hp Hn]. unfold aget in *.
  destruct (lit_status_cases a' l) as [[_ K]|[[_ [K2 K3]]|[K _]]]; auto; unfold aget in *.
  - exfalso. destruct (Z.lt_trichotomy (nth (vidx l) a 0) 0) as [L|[L|L]]; try contradiction.
    + specialize (Hn L). lia.
    + specialize (Hp L). lia.
  - exfalso. apply H3. destruct (Z.lt_trichotomy (nth (vidx l) a 0) 0) as [L|[L|L]]; try contradiction.
    + specialize (Hn L). split; intro; [lia|]. apply K3 in H0. lia.
    + specialize (Hp L). split; intro; auto. apply K3. exact Hp.
Qed.

Lemma a_le_indet : forall a a' l, a_le a a' -> lit_status a' l = LIndet -> lit_status a l = LIndet.
Proof.
  intros a a' l H I. destruct (lit_status a l) eqn:S; auto.
  - rewrite (a_le_sat _ _ _ H S) in I. discriminate.
  - rewrite (a_le_unsat _ _ _ H S) in I. discriminate.
Qed.

Lemma ext_a_le : forall m a a', a_le a a' -> extends m a' -> extends m a.
Proof.
  intros m a a' H E i. destruct (H i) as [Hp Hn]. destruct (E i) as [Ep En]. split; auto.
Qed.

Lemma ext_assign : forall m a lvl l, 0 < lvl -> extends m a -> lit_val m l = true ->
  extends m (assign a lvl l).
Proof.
  intros m a lvl l L E V i. unfold assign. rewrite nth_list_set.
  destruct (Nat.eqb_spec i (vidx l)) as [->|N]; simpl; [|apply E].
  destruct (Nat.ltb (vidx l) (length a)); [|apply E].
  rewrite lit_val_vidx in V. unfold lvl_to_signed.
  destruct (0 <? l); split; intro H; try lia; auto.
  apply negb_true_iff in V. exact V.
Qed.

Lemma ext_assign_all : forall ls m a lvl, 0 < lvl -> extends m a ->
  (forall l, In l ls -> lit_val m l = true) -> extends m (assign_all a lvl ls).
Proof.
  induction ls as [|l ls IH]; intros m a lvl L E H; simpl; auto.
  unfold assign_all in *. simpl. apply IH; auto.
  - apply ext_assign; auto. apply H. left. reflexivity.
  - intros x Hx. apply H. right. exact Hx.
Qed.

(* ------------------------------------------------------------------ *)
(* complete: a total extension                                          *)

Lemma nth_map_seq : forall (g : nat -> bool) n i, (i < n)%nat ->
  nth i (map g (seq 0 n)) false = g i.
Proof.
  intros g n i H.
  rewrite nth_indep with (d' := g O) by (rewrite map_length, seq_length; exact H).
  rewrite map_nth. rewrite seq_nth by exact H. reflexivity.
Qed.

Lemma nth_complete : forall a f n i, (i < n)%nat ->
  nth i (complete a f n) false =
  (let x := nth i a 0 in if 0 <? x then true else if x <? 0 then false else f i).
Proof. intros a f n i H. unfold complete. rewrite nth_map_seq by exact H. reflexivity. Qed.

Lemma complete_length : forall a f n, length (complete a f n) = n.
Proof. intros. unfold complete. rewrite map_length, seq_length. reflexivity. Qed.

Lemma complete_extends : forall a f n, (length a <= n)%nat -> extends (complete a f n) a.
Proof.
  intros a f n L i. destruct (Nat.lt_ge_cases i n) as [H|H].
  - rewrite nth_complete by exact H. cbv zeta.
    destruct (0 <? nth i a 0) eqn:P.
    + apply Z.ltb_lt in P. split; [auto|lia].
    + apply Z.ltb_ge in P. destruct (nth i a 0 <? 0) eqn:N.
      * split; [lia|auto].
      * apply Z.ltb_ge in N. split; lia.
  - rewrite (nth_overflow a 0) by lia. split; lia.
Qed.

(* ------------------------------------------------------------------ *)
(* wsum                                                                 *)

Lemma lhs_wsum : forall m ts, lhs m ts = wsum (lit_val m) ts.
Proof. induction ts as [|t ts IH]; simpl; [reflexivity|]. rewrite IH. reflexivity. Qed.

Lemma nonneg_cons : forall t ts, nonneg_terms (t :: ts) = true -> 0 <= fst t /\ nonneg_terms ts = true.
Proof.
  intros t ts H. unfold nonneg_terms in *. simpl in H. apply andb_true_iff in H.
  destruct H as [H1 H2]. apply Z.leb_le in H1. auto.
Qed.

Lemma nonneg_in : forall ts t, nonneg_terms ts = true -> In t ts -> 0 <= fst t.
Proof.
  intros ts t H I. unfold nonneg_terms in H. rewrite forallb_forall in H.
  apply Z.leb_le. apply H. exact I.
Qed.

Lemma wsum_nonneg : forall f ts, nonneg_terms ts = true -> 0 <= wsum f ts.
Proof.
  induction ts as [|t ts IH]; intros H; simpl; [lia|].
  apply nonneg_cons in H. destruct H as [H1 H2]. specialize (IH H2).
  destruct (f (snd t)); lia.
Qed.

Lemma wsum_mono : forall f g ts, nonneg_terms ts = true ->
  (forall t, In t ts -> f (snd t) = true -> g (snd t) = true) -> wsum f ts <= wsum g ts.
Proof.
  induction ts as [|t ts IH]; intros N H; simpl; [lia|].
  apply nonneg_cons in N. destruct N as [N1 N2].
  assert (IH' : wsum f ts <= wsum g ts) by (apply IH; auto; intros; apply H; auto; right; auto).
  destruct (f (snd t)) eqn:F.
  - rewrite (H t (or_introl eq_refl) F). lia.
  - destruct (g (snd t)); lia.
Qed.

Lemma wsum_mono_strict : forall f g ts t0, nonneg_terms ts = true ->
  (forall t, In t ts -> f (snd t) = true -> g (snd t) = true) ->
  In t0 ts -> f (snd t0) = false -> g (snd t0) = true ->
  wsum f ts + fst t0 <= wsum g ts.
Proof.
  induction ts as [|t ts IH]; intros t0 N H I F G; [destruct I|].
  pose proof N as N'. apply nonneg_cons in N. destruct N as [N1 N2]. simpl.
  assert (Hr : forall t, In t ts -> f (snd t) = true -> g (snd t) = true)
    by (intros; apply H; auto; right; auto).
  destruct I as [->|I].
  - rewrite F, G. pose proof (wsum_mono f g ts N2 Hr). lia.
  - pose proof (IH t0 N2 Hr I F G) as IH'.
    destruct (f (snd t)) eqn:Ft.
    + rewrite (H t (or_introl eq_refl) Ft). lia.
    + destruct (g (snd t)); lia.
Qed.

Lemma wsum_ext : forall f g ts, (forall t, In t ts -> f (snd t) = g (snd t)) -> wsum f ts = wsum g ts.
Proof.
  induction ts as [|t ts IH]; intros H; simpl; [reflexivity|].
  rewrite (H t (or_introl eq_refl)). rewrite IH; auto. intros; apply H; right; auto.
Qed.

Lemma lhs_le_nonfalse : forall m a ts, extends m a -> nonneg_terms ts = true ->
  lhs m ts <= wsum (non_false a) ts.
Proof.
  intros m a ts E N. rewrite lhs_wsum. apply wsum_mono; auto.
  intros t _ V. apply non_false_true. intro U. rewrite (ext_unsat _ _ _ E U) in V. discriminate.
Qed.

Lemma sat_le_lhs : forall m a ts, extends m a -> nonneg_terms ts = true ->
  wsum (is_sat a) ts <= lhs m ts.
Proof.
  intros m a ts E N. rewrite lhs_wsum. apply wsum_mono; auto.
  intros t _ S. apply is_sat_true in S. apply (ext_sat _ _ _ E S).
Qed.

Lemma map_snd_unit_terms : forall ls, map snd (unit_terms ls) = ls.
Proof. induction ls as [|l ls IH]; simpl; [reflexivity|]. f_equal. exact IH. Qed.

Lemma nonneg_unit_terms : forall ls, nonneg_terms (unit_terms ls) = true.
Proof. induction ls as [|l ls IH]; simpl; auto. Qed.

Lemma in_unit_terms : forall ls t, In t (unit_terms ls) <-> fst t = 1 /\ In (snd t) ls.
Proof.
  induction ls as [|l ls IH]; intros t; simpl.
  - split; [intros []|intros [_ []]].
  - rewrite IH. split.
    + intros [<-|[H1 H2]]; simpl; auto.
    + intros [H1 [H2|H2]]; [left|right; auto]. destruct t; simpl in *; subst; reflexivity.
Qed.

(* ------------------------------------------------------------------ *)
(* The slack rule                                                       *)

Lemma slack_conflict : forall a ts card, nonneg_terms ts = true -> slack a ts card < 0 ->
  forall m, extends m a -> sat_pbc m (PBC ts card) = false.
Proof.
  intros a ts card N S m E. unfold sat_pbc. simpl. apply Z.leb_gt.
  pose proof (lhs_le_nonfalse m a ts E N). unfold slack in S. lia.
Qed.

Lemma slack_unit : forall a ts card t, nonneg_terms ts = true -> In t ts ->
  lit_status a (snd t) = LIndet -> slack a ts card < fst t ->
  forall m, extends m a -> sat_pbc m (PBC ts card) = true -> lit_val m (snd t) = true.
Proof.
  intros a ts card t N I U S m E P. destruct (lit_val m (snd t)) eqn:V; [reflexivity|exfalso].
  unfold sat_pbc in P. simpl in P. apply Z.leb_le in P. rewrite lhs_wsum in P.
  assert (H : wsum (lit_val m) ts + fst t <= wsum (non_false a) ts).
  { apply wsum_mono_strict; auto.
    - intros t' _ V'. apply non_false_true. intro X. rewrite (ext_unsat _ _ _ E X) in V'. discriminate.
    - apply non_false_true. rewrite U. discriminate. }
  unfold slack in S. lia.
Qed.

Theorem slack_rule : forall a ts card, nonneg_terms ts = true ->
  (slack a ts card < 0 -> forall m, extends m a -> sat_pbc m (PBC ts card) = false) /\
  (forall t, In t ts -> lit_status a (snd t) = LIndet -> slack a ts card < fst t ->
     forall m, extends m a -> sat_pbc m (PBC ts card) = true -> lit_val m (snd t) = true) /\
  (slack a ts card = 0 -> forall t, In t ts -> lit_status a (snd t) = LIndet -> 0 < fst t ->
     forall m, extends m a -> sat_pbc m (PBC ts card) = true -> lit_val m (snd t) = true).
Proof.
  intros a ts card N. split; [|split].
  - intros S. apply slack_conflict; auto.
  - intros t I U S. apply slack_unit; auto.
  - intros S t I U W. apply slack_unit; auto. lia.
Qed.

(* propagateAll (slack = 0) pushes EVERY unbound literal, zero weights
   included: that is not implied. *)
Lemma prop_unbound_spec : forall ls a lvl ps a',
  prop_unbound a lvl ls = (ps, a') ->
  a' = assign_all a lvl ps /\ a_le a a' /\
  (forall l, In l ps -> In l ls /\ lit_status a l = LIndet).
Proof.
  induction ls as [|l ls IH]; intros a lvl ps a' H; simpl in H.
  - injection H as <- <-. split; [reflexivity|split; [apply a_le_refl|intros l []]].
  - destruct (is_indet a l) eqn:I.
    + destruct (prop_unbound (assign a lvl l) lvl ls) as [ps0 a0] eqn:R.
      injection H as <- <-. apply is_indet_true in I.
      destruct (IH _ _ _ _ R) as [E [L P]]. split; [|split].
      * rewrite E. reflexivity.
      * eapply a_le_trans; [apply a_le_assign; exact I|exact L].
      * intros x [<-|Hx]; [split; [left; reflexivity|exact I]|].
        destruct (P x Hx) as [P1 P2]. split; [right; exact P1|].
        eapply a_le_indet; [apply a_le_assign; exact I|exact P2].
    + destruct (IH _ _ _ _ H) as [E [L P]]. split; [exact E|split; [exact L|]].
      intros x Hx. destruct (P x Hx). split; [right|]; auto.
Qed.

Theorem propagate_all_sound : forall a lvl ts card ps a',
  nonneg_terms ts = true -> slack a ts card = 0 ->
  (forall t, In t ts -> lit_status a (snd t) = LIndet -> 0 < fst t) ->
  prop_unbound a lvl (map snd ts) = (ps, a') ->
  forall l, In l ps -> forall m, extends m a -> sat_pbc m (PBC ts card) = true -> lit_val m l = true.
Proof.
  intros a lvl ts card ps a' N S Z H l Hl m E P.
  destruct (prop_unbound_spec _ _ _ _ _ H) as [_ [_ Q]]. destruct (Q l Hl) as [Q1 Q2].
  apply in_map_iff in Q1. destruct Q1 as [t [<- It]].
  eapply slack_unit; eauto. rewrite S. apply Z; auto.
Qed.

Theorem propagate_all_zero_refuted :
  exists a lvl ts card m l,
    nonneg_terms ts = true /\ slack a ts card = 0 /\
    In l (fst (prop_unbound a lvl (map snd ts))) /\
    extends m a /\ sat_pbc m (PBC ts card) = true /\ lit_val m l = false.
Proof.
  exists ex_zero_a, 2, ex_zero_ts, 2, ex_zero_m, 3.
  split; [reflexivity|split; [reflexivity|split; [vm_compute; auto|]]].
  split; [apply extendsb_spec; reflexivity|split; reflexivity].
Qed.


(* ------------------------------------------------------------------ *)
(* Counting                                                             *)

Lemma count_st_nonneg : forall st a ls, 0 <= count_st st a ls.
Proof.
  induction ls as [|l ls IH]; simpl; [lia|].
  destruct (lstatus_eqb (lit_status a l) st); lia.
Qed.

Lemma count_st_app : forall st a l1 l2, count_st st a (l1 ++ l2) = count_st st a l1 + count_st st a l2.
Proof. induction l1 as [|l l1 IH]; intros l2; simpl; [reflexivity|]. rewrite IH. lia. Qed.

Lemma count_split : forall a ls,
  Z.of_nat (length ls) = count_st LSat a ls + count_st LIndet a ls + count_st LUnsat a ls.
Proof.
  induction ls as [|l ls IH]; [reflexivity|].
  cbn [length count_st]. rewrite Nat2Z.inj_succ, IH. destruct (lit_status a l); cbn [lstatus_eqb]; lia.
Qed.

Lemma wsum_nonfalse_unit : forall a ls,
  wsum (non_false a) (unit_terms ls) = count_st LSat a ls + count_st LIndet a ls.
Proof.
  induction ls as [|l ls IH]; [reflexivity|].
  cbn [unit_terms map wsum count_st snd fst]. unfold unit_terms in IH. rewrite IH.
  unfold non_false, is_unsat. destruct (lit_status a l); cbn [lstatus_eqb negb]; lia.
Qed.

Lemma wsum_sat_unit : forall a ls, wsum (is_sat a) (unit_terms ls) = count_st LSat a ls.
Proof.
  induction ls as [|l ls IH]; [reflexivity|].
  cbn [unit_terms map wsum count_st snd fst]. unfold unit_terms in IH. rewrite IH.
  unfold is_sat. destruct (lit_status a l); cbn [lstatus_eqb]; lia.
Qed.

Lemma slack_unit_terms : forall a ls card,
  slack a (unit_terms ls) card = count_st LSat a ls + count_st LIndet a ls - card.
Proof. intros. unfold slack. rewrite wsum_nonfalse_unit. reflexivity. Qed.

Lemma count_pos_in : forall st a ls, 0 < count_st st a ls -> exists l, In l ls /\ lit_status a l = st.
Proof.
  induction ls as [|l ls IH]; simpl; intros H; [lia|].
  destruct (lstatus_eqb (lit_status a l) st) eqn:E.
  - apply lstatus_eqb_eq in E. exists l. auto.
  - destruct (IH ltac:(lia)) as [x [Hx Sx]]. exists x. auto.
Qed.

Lemma count_zero_none : forall st a ls, count_st st a ls = 0 -> forall l, In l ls -> lit_status a l <> st.
Proof.
  induction ls as [|l ls IH]; simpl; intros H x Hx; [destruct Hx|].
  pose proof (count_st_nonneg st a ls).
  destruct (lstatus_eqb (lit_status a l) st) eqn:E; [lia|].
  destruct Hx as [<-|Hx].
  - intro K. apply lstatus_eqb_eq in K. congruence.
  - apply IH; auto; lia.
Qed.

(* ------------------------------------------------------------------ *)
(* simplifyCardConstr                                                   *)

Lemma card_count_spec : forall a len card ls nbT nbF nbU,
  match card_count a len card ls nbT nbF nbU with
  | CSat => card <= nbT + count_st LSat a ls
  | CConfl => len - (nbF + count_st LUnsat a ls) < card
  | CDone t u =>
    t <= nbT + count_st LSat a ls /\ u <= nbU + count_st LIndet a ls /\
    nbT <= t /\ nbU <= u /\
    ((t = nbT + count_st LSat a ls /\ u = nbU + count_st LIndet a ls /\
      (count_st LUnsat a ls = 0 \/ card <= len - (nbF + count_st LUnsat a ls)))
     \/ card < t + u)
  end.
Proof.
  intros a len card. induction ls as [|l ls IH]; intros nbT nbF nbU.
  - simpl. repeat split; lia.
  - cbn [card_count count_st].
    pose proof (count_st_nonneg LSat a ls) as P1.
    pose proof (count_st_nonneg LIndet a ls) as P2.
    pose proof (count_st_nonneg LUnsat a ls) as P3.
    destruct (lit_status a l) eqn:S; cbn [lstatus_eqb].
    + destruct (card <? nbU + 1 + nbT) eqn:B.
      * apply Z.ltb_lt in B. repeat split; lia.
      * specialize (IH nbT nbF (nbU + 1)).
        destruct (card_count a len card ls nbT nbF (nbU + 1)); lia.
    + destruct (nbT + 1 =? card) eqn:C; [apply Z.eqb_eq in C; lia|].
      destruct (card <? nbU + (nbT + 1)) eqn:B.
      * apply Z.ltb_lt in B. repeat split; lia.
      * specialize (IH (nbT + 1) nbF nbU).
        destruct (card_count a len card ls (nbT + 1) nbF nbU); lia.
    + destruct (len - (nbF + 1) <? card) eqn:C; [apply Z.ltb_lt in C; lia|].
      apply Z.ltb_ge in C.
      destruct (card <? nbU + nbT) eqn:B.
      * apply Z.ltb_lt in B. repeat split; lia.
      * specialize (IH nbT (nbF + 1) nbU).
        destruct (card_count a len card ls nbT (nbF + 1) nbU); lia.
Qed.

Lemma ocons_props : forall l o ps, ocons l o = Props ps -> exists ps', o = Props ps' /\ ps = l :: ps'.
Proof. intros l [] ps H; simpl in H; try discriminate. injection H as <-. eauto. Qed.

Lemma card_prop_spec : forall ls a lvl nbU o a',
  card_prop a lvl ls nbU = (o, a') ->
  a_le a a' /\ (o = Crash \/ exists ps, o = Props ps) /\
  (forall ps, o = Props ps ->
     a' = assign_all a lvl ps /\ (ps = [] -> nbU <= 0) /\
     forall l, In l ps -> In l ls /\ lit_status a l = LIndet).
Proof.
  induction ls as [|l ls IH]; intros a lvl nbU o a' H; simpl in H.
  - destruct (nbU <=? 0) eqn:E; injection H as <- <-.
    + apply Z.leb_le in E. split; [apply a_le_refl|split; [right; eauto|]].
      intros ps P. injection P as <-. split; [reflexivity|split; [auto|intros l []]].
    + split; [apply a_le_refl|split; [left; reflexivity|]]. intros ps P. discriminate.
  - destruct (nbU <=? 0) eqn:E.
    + injection H as <- <-. apply Z.leb_le in E. split; [apply a_le_refl|split; [right; eauto|]].
      intros ps P. injection P as <-. split; [reflexivity|split; [auto|intros x []]].
    + apply Z.leb_gt in E. destruct (aget a l =? 0) eqn:G.
      * apply Z.eqb_eq in G. apply indet_aget in G.
        destruct (card_prop (assign a lvl l) lvl ls (nbU - 1)) as [o0 a0] eqn:R.
        injection H as <- <-. destruct (IH _ _ _ _ _ R) as [L [K P]].
        split; [eapply a_le_trans; [apply a_le_assign; exact G|exact L]|split].
        -- destruct K as [->|[ps ->]]; [left; reflexivity|right; simpl; eauto].
        -- intros ps Hps. apply ocons_props in Hps. destruct Hps as [ps' [-> ->]].
           destruct (P ps' eq_refl) as [P1 [P2 P3]]. split; [rewrite P1; reflexivity|split; [discriminate|]].
           intros x [<-|Hx]; [split; [left; reflexivity|exact G]|].
           destruct (P3 x Hx) as [Q1 Q2]. split; [right; exact Q1|].
           eapply a_le_indet; [apply a_le_assign; exact G|exact Q2].
      * destruct (IH _ _ _ _ _ H) as [L [K P]]. split; [exact L|split; [exact K|]].
        intros ps Hps. destruct (P ps Hps) as [P1 [P2 P3]]. split; [exact P1|split; [exact P2|]].
        intros x Hx. destruct (P3 x Hx). split; [right|]; auto.
Qed.

Lemma find_nonfalse_some : forall a ls pre x post, find_nonfalse a ls = Some (pre, x, post) ->
  ls = pre ++ x :: post /\ non_false a x = true /\ forall l, In l pre -> non_false a l = false.
Proof.
  induction ls as [|l ls IH]; intros pre x post H; simpl in H; [discriminate|].
  destruct (non_false a l) eqn:N.
  - injection H as <- <- <-. split; [reflexivity|split; [exact N|intros y []]].
  - destruct (find_nonfalse a ls) as [[[p y] q]|] eqn:F; [|discriminate].
    injection H as <- <- <-. destruct (IH _ _ _ eq_refl) as [E [Nx P]].
    split; [simpl; rewrite E; reflexivity|split; [exact Nx|]].
    intros z [<-|Hz]; auto.
Qed.

Lemma find_nonfalse_none : forall a ls, find_nonfalse a ls = None ->
  forall l, In l ls -> non_false a l = false.
Proof.
  induction ls as [|l ls IH]; intros H x Hx; simpl in H; [destruct Hx|].
  destruct (non_false a l) eqn:N; [discriminate|].
  destruct (find_nonfalse a ls) as [[[p y] q]|] eqn:F; [discriminate|].
  destruct Hx as [<-|Hx]; auto.
Qed.

Lemma swapf_spec : forall a W R W2 R2, swapf a W R = Some (W2, R2) ->
  Permutation (W ++ R) (W2 ++ R2) /\ length W2 = length W /\
  (forall l, In l W2 -> non_false a l = true).
Proof.
  induction W as [|w W IH]; intros R W2 R2 H; simpl in H.
  - injection H as <- <-. split; [apply Permutation_refl|split; [reflexivity|intros l []]].
  - destruct (is_unsat a w) eqn:U.
    + destruct (find_nonfalse a R) as [[[pre x] post]|] eqn:F; [|discriminate].
      destruct (swapf a W post) as [[W3 R3]|] eqn:S; [|discriminate].
      injection H as <- <-. destruct (find_nonfalse_some _ _ _ _ _ F) as [E [Nx _]].
      destruct (IH _ _ _ S) as [P [L N]]. split; [|split].
      * subst R. simpl.
        (* w :: W ++ pre ++ x :: post  ~  x :: W3 ++ pre ++ w :: R3 *)
        apply Permutation_trans with (x :: w :: pre ++ (W ++ post)).
        -- apply Permutation_trans with (w :: x :: pre ++ (W ++ post)); [|apply perm_swap].
           apply perm_skip.
           apply Permutation_trans with (W ++ x :: pre ++ post).
           ++ apply Permutation_app_head. apply Permutation_sym. apply Permutation_middle.
           ++ apply Permutation_trans with (x :: W ++ pre ++ post).
              ** apply Permutation_sym. apply Permutation_middle.
              ** apply perm_skip. rewrite !app_assoc. apply Permutation_app_tail.
                 apply Permutation_app_comm.
        -- apply perm_skip.
           apply Permutation_trans with (w :: pre ++ (W3 ++ R3)).
           ++ apply perm_skip. apply Permutation_app_head. exact P.
           ++ apply Permutation_trans with (W3 ++ w :: pre ++ R3).
              ** apply Permutation_trans with (w :: W3 ++ pre ++ R3).
                 --- apply perm_skip. rewrite !app_assoc. apply Permutation_app_tail.
                     apply Permutation_app_comm.
                 --- apply Permutation_middle.
              ** apply Permutation_app_head.
                 apply Permutation_trans with (pre ++ w :: R3); [apply Permutation_middle|apply Permutation_refl].
      * simpl. rewrite L. reflexivity.
      * intros l [<-|Hl]; auto.
    + destruct (swapf a W R) as [[W3 R3]|] eqn:S; [|discriminate].
      injection H as <- <-. destruct (IH _ _ _ S) as [P [L N]]. split; [|split].
      * simpl. apply perm_skip. exact P.
      * simpl. rewrite L. reflexivity.
      * intros l [<-|Hl]; auto. unfold non_false. rewrite U. reflexivity.
Qed.

Lemma count_all_false : forall a ls, (forall l, In l ls -> non_false a l = false) ->
  count_st LSat a ls + count_st LIndet a ls = 0.
Proof.
  induction ls as [|l ls IH]; intros H; [reflexivity|].
  cbn [count_st]. assert (U : non_false a l = false) by (apply H; left; reflexivity).
  apply non_false_false in U. rewrite U. cbn [lstatus_eqb].
  pose proof (IH (fun x Hx => H x (or_intror Hx))). lia.
Qed.

Lemma swapf_no_crash : forall a W R,
  count_st LUnsat a W <= count_st LSat a R + count_st LIndet a R -> swapf a W R <> None.
Proof.
  induction W as [|w W IH]; intros R H; simpl; [discriminate|].
  cbn [count_st] in H. pose proof (count_st_nonneg LUnsat a W) as PW.
  destruct (is_unsat a w) eqn:U.
  - apply is_unsat_true in U. rewrite U in H. cbn [lstatus_eqb] in H.
    destruct (find_nonfalse a R) as [[[pre x] post]|] eqn:F.
    + destruct (find_nonfalse_some _ _ _ _ _ F) as [E [Nx Np]].
      assert (K : swapf a W post <> None).
      { apply IH. subst R. rewrite !count_st_app in H. cbn [count_st] in H.
        pose proof (count_all_false a pre Np).
        apply non_false_true in Nx.
        destruct (lit_status a x); cbn [lstatus_eqb] in H; try lia; exfalso; apply Nx; reflexivity. }
      destruct (swapf a W post) as [[W3 R3]|]; [discriminate|contradiction].
    + pose proof (count_all_false a R (find_nonfalse_none _ _ F)). lia.
  - assert (K : swapf a W R <> None).
    { apply IH. destruct (lstatus_eqb (lit_status a w) LUnsat); lia. }
    destruct (swapf a W R) as [[W3 R3]|]; [discriminate|contradiction].
Qed.

Lemma swap_false_spec : forall a card ls ls', swap_false a card ls = Some ls' ->
  Permutation ls ls' /\
  (forall l, In l (firstn (Z.to_nat (card + 1)) ls') -> non_false a l = true).
Proof.
  intros a card ls ls' H. unfold swap_false in H.
  destruct (Nat.ltb (length ls) (Z.to_nat (card + 1))) eqn:L; [discriminate|].
  apply Nat.ltb_ge in L.
  destruct (swapf a (firstn (Z.to_nat (card + 1)) ls) (skipn (Z.to_nat (card + 1)) ls))
    as [[W R]|] eqn:S; [|discriminate].
  injection H as <-. destruct (swapf_spec _ _ _ _ _ S) as [P [Len N]]. split.
  - rewrite firstn_skipn in P. exact P.
  - rewrite firstn_length_le in Len by exact L.
    rewrite <- Len. rewrite firstn_app, Nat.sub_diag, firstn_all. simpl. rewrite app_nil_r. exact N.
Qed.

Lemma swap_false_no_crash : forall a card ls,
  card < count_st LSat a ls + count_st LIndet a ls -> swap_false a card ls <> None.
Proof.
  intros a card ls H. unfold swap_false.
  pose proof (count_split a ls) as CS.
  pose proof (count_st_nonneg LUnsat a ls) as PU.
  set (n := Z.to_nat (card + 1)).
  assert (Ln : (n <= length ls)%nat) by (unfold n; lia).
  destruct (Nat.ltb (length ls) n) eqn:L; [apply Nat.ltb_lt in L; lia|].
  assert (K : swapf a (firstn n ls) (skipn n ls) <> None).
  { apply swapf_no_crash.
    pose proof (count_split a (firstn n ls)) as C1. rewrite firstn_length_le in C1 by exact Ln.
    rewrite <- (firstn_skipn n ls) in H. rewrite !count_st_app in H.
    pose proof (count_st_nonneg LSat a (skipn n ls)).
    pose proof (count_st_nonneg LIndet a (skipn n ls)).
    pose proof (count_st_nonneg LSat a (firstn n ls)).
    pose proof (count_st_nonneg LIndet a (firstn n ls)).
    unfold n in *. lia. }
  destruct (swapf a (firstn n ls) (skipn n ls)) as [[W R]|]; [discriminate|contradiction].
Qed.

Lemma card_sat_card_pbc : forall m ls card, sat_pbc m (card_pbc ls card) = sat_pbc m (PBC (unit_terms ls) card).
Proof. reflexivity. Qed.

(* C02_card_rule: soundness *)
Theorem simplify_card_sound : forall a lvl ls card o a' ls',
  simplify_card a lvl ls card = (o, a', ls') ->
  (o = Conflict -> forall m, extends m a -> sat_pbc m (card_pbc ls card) = false) /\
  (forall ps, o = Props ps ->
     a' = assign_all a lvl ps /\
     forall l, In l ps ->
       In l ls /\ lit_status a l = LIndet /\ slack a (unit_terms ls) card = 0 /\
       forall m, extends m a -> sat_pbc m (card_pbc ls card) = true -> lit_val m l = true) /\
  a_le a a' /\ Permutation ls ls'.
Proof.
  intros a lvl ls card o a' ls' H. unfold simplify_card in H.
  pose proof (card_count_spec a (Z.of_nat (length ls)) card ls 0 0 0) as CC.
  pose proof (count_split a ls) as CS.
  destruct (card_count a (Z.of_nat (length ls)) card ls 0 0 0) as [| |t u].
  - injection H as <- <- <-. split; [discriminate|split; [|split; [apply a_le_refl|apply Permutation_refl]]].
    intros ps P. injection P as <-. split; [reflexivity|intros l []].
  - injection H as <- <- <-. split; [|split; [discriminate|split; [apply a_le_refl|apply Permutation_refl]]].
    intros _ m E. apply slack_conflict with (a := a); auto using nonneg_unit_terms.
    rewrite slack_unit_terms. lia.
  - destruct (u + t =? card) eqn:Q.
    + apply Z.eqb_eq in Q. destruct (card_prop a lvl ls u) as [o0 a0] eqn:R.
      injection H as <- <- <-. destruct (card_prop_spec _ _ _ _ _ _ R) as [L [K P]].
      split; [destruct K as [->|[ps ->]]; discriminate|split; [|split; [exact L|apply Permutation_refl]]].
      intros ps Hps. destruct (P ps Hps) as [P1 [_ P3]]. split; [exact P1|].
      intros l Hl. destruct (P3 l Hl) as [I1 I2].
      assert (S0 : slack a (unit_terms ls) card = 0) by (rewrite slack_unit_terms; lia).
      split; [exact I1|split; [exact I2|split; [exact S0|]]].
      intros m E Sm. apply (slack_unit a (unit_terms ls) card (1, l)); auto using nonneg_unit_terms.
      * apply in_unit_terms. auto.
      * rewrite S0. simpl. lia.
    + destruct (swap_false a card ls) as [ls2|] eqn:SF; injection H as <- <- <-.
      * split; [discriminate|split; [|split; [apply a_le_refl|apply (swap_false_spec _ _ _ _ SF)]]].
        intros ps P. injection P as <-. split; [reflexivity|intros l []].
      * split; [discriminate|split; [discriminate|split; [apply a_le_refl|apply Permutation_refl]]].
Qed.

(* C02_card_rule: completeness for one constraint *)
Theorem simplify_card_quiet : forall a lvl ls card a' ls',
  card <= Z.of_nat (length ls) ->
  simplify_card a lvl ls card = (Props [], a', ls') ->
  (card <= count_st LSat a ls \/ card < count_st LSat a ls + count_st LIndet a ls) /\
  (card <= count_st LSat a ls \/
   forall l, In l (firstn (Z.to_nat (card + 1)) ls') -> lit_status a l <> LUnsat).
Proof.
  intros a lvl ls card a' ls' Hc H. unfold simplify_card in H.
  pose proof (card_count_spec a (Z.of_nat (length ls)) card ls 0 0 0) as CC.
  pose proof (count_split a ls) as CS.
  pose proof (count_st_nonneg LIndet a ls) as PI.
  destruct (card_count a (Z.of_nat (length ls)) card ls 0 0 0) as [| |t u].
  - split; left; lia.
  - discriminate.
  - destruct (u + t =? card) eqn:Q.
    + apply Z.eqb_eq in Q. destruct (card_prop a lvl ls u) as [o0 a0] eqn:R.
      injection H as -> <- <-. destruct (card_prop_spec _ _ _ _ _ _ R) as [_ [_ P]].
      destruct (P [] eq_refl) as [_ [P2 _]]. specialize (P2 eq_refl).
      split; left; lia.
    + apply Z.eqb_neq in Q. destruct (swap_false a card ls) as [ls2|] eqn:SF; [|discriminate].
      injection H as <- <-. split; [right; lia|right].
      intros l Hl. apply non_false_true. apply (swap_false_spec _ _ _ _ SF). exact Hl.
Qed.

Lemma c_terms_mk_card : forall ls k, c_terms (mk_card ls k) = unit_terms ls.
Proof. intros. unfold c_terms, mk_card, c_lits, card_pbc. simpl. rewrite map_snd_unit_terms. reflexivity. Qed.

Lemma c_terms_mk_clause : forall ls, c_terms (mk_clause ls) = unit_terms ls.
Proof. intros. unfold c_terms, mk_clause, c_lits, clause_pbc. simpl. rewrite map_snd_unit_terms. reflexivity. Qed.

Lemma quiet_counts : forall a ls card,
  (card <= count_st LSat a ls \/ card < count_st LSat a ls + count_st LIndet a ls) ->
  ~ (slack a (unit_terms ls) card < 0) /\
  ~ (exists t, In t (unit_terms ls) /\ lit_status a (snd t) = LIndet /\ slack a (unit_terms ls) card < fst t).
Proof.
  intros a ls card H. rewrite slack_unit_terms.
  pose proof (count_st_nonneg LIndet a ls) as PI. split; [lia|].
  intros [t [It [Ut St]]]. apply in_unit_terms in It. destruct It as [W It]. rewrite W in St.
  assert (Z0 : count_st LIndet a ls = 0) by lia.
  exact (count_zero_none _ _ _ Z0 _ It Ut).
Qed.

Theorem simplify_card_complete : forall a lvl ls card a' ls',
  card <= Z.of_nat (length ls) ->
  simplify_card a lvl ls card = (Props [], a', ls') ->
  ~ conflicting a (mk_card ls card) /\ ~ propagating a (mk_card ls card).
Proof.
  intros a lvl ls card a' ls' Hc H. unfold conflicting, propagating.
  rewrite c_terms_mk_card. apply quiet_counts.
  apply (simplify_card_quiet _ _ _ _ _ _ Hc H).
Qed.


Lemma count_assign_other : forall st a lvl l ls, ~ In (vidx l) (map vidx ls) ->
  count_st st (assign a lvl l) ls = count_st st a ls.
Proof.
  induction ls as [|x ls IH]; intros H; [reflexivity|].
  cbn [count_st]. rewrite status_assign_other.
  - rewrite IH; [reflexivity|]. intro K. apply H. right. exact K.
  - intro K. apply H. left. exact K.
Qed.

Lemma ocons_not_crash : forall l o, o <> Crash -> ocons l o <> Crash.
Proof. intros l [] H; simpl; auto; discriminate. Qed.

Lemma card_prop_no_crash : forall ls a lvl nbU, NoDup (map vidx ls) ->
  nbU <= count_st LIndet a ls -> fst (card_prop a lvl ls nbU) <> Crash.
Proof.
  induction ls as [|l ls IH]; intros a lvl nbU ND H; simpl.
  - simpl in H. destruct (nbU <=? 0) eqn:E; [discriminate|]. apply Z.leb_gt in E. lia.
  - destruct (nbU <=? 0) eqn:E; [discriminate|]. apply Z.leb_gt in E.
    inversion ND as [|? ? Nin ND']; subst. cbn [count_st] in H.
    destruct (aget a l =? 0) eqn:G.
    + apply Z.eqb_eq in G. apply indet_aget in G. rewrite G in H. cbn [lstatus_eqb] in H.
      specialize (IH (assign a lvl l) lvl (nbU - 1) ND').
      rewrite count_assign_other in IH by exact Nin.
      destruct (card_prop (assign a lvl l) lvl ls (nbU - 1)) as [o0 a0]. cbn [fst] in *.
      apply ocons_not_crash. apply IH. lia.
    + apply Z.eqb_neq in G. apply IH; auto.
      destruct (lit_status a l) eqn:S; cbn [lstatus_eqb] in H; try lia.
      exfalso. apply G. apply indet_aget. exact S.
Qed.

Theorem simplify_card_no_crash : forall a lvl ls card,
  NoDup (map vidx ls) -> card <= Z.of_nat (length ls) ->
  fst (fst (simplify_card a lvl ls card)) <> Crash.
Proof.
  intros a lvl ls card ND Hc. unfold simplify_card.
  pose proof (card_count_spec a (Z.of_nat (length ls)) card ls 0 0 0) as CC.
  pose proof (count_split a ls) as CS.
  destruct (card_count a (Z.of_nat (length ls)) card ls 0 0 0) as [| |t u]; try (simpl; discriminate).
  destruct (u + t =? card) eqn:Q.
  - pose proof (card_prop_no_crash ls a lvl u ND ltac:(lia)) as K.
    destruct (card_prop a lvl ls u) as [o0 a0]. exact K.
  - apply Z.eqb_neq in Q.
    pose proof (swap_false_no_crash a card ls ltac:(lia)) as K.
    destruct (swap_false a card ls); [simpl; discriminate|contradiction].
Qed.

(* watcher.go:435 with a repeated literal: index out of range although the
   constraint x3 + ~x2 + ~x2 >= 2 has a model extending the assignment *)
Theorem simplify_card_dup_crash :
  fst (fst (simplify_card ex_dup_a 3 ex_dup_lits 2)) = Crash /\
  exists m, extends m ex_dup_a /\ sat_pbc m (card_pbc ex_dup_lits 2) = true.
Proof.
  split; [reflexivity|]. exists [false; false; false]. split; [apply extendsb_spec|]; reflexivity.
Qed.

(* ------------------------------------------------------------------ *)
(* simplifyCardAMOConstr                                                *)

Lemma amo_scan_spec : forall a n ls seen,
  match amo_scan a n ls seen with
  | Conflict => 2 <= (if seen then 1 else 0) + count_st LUnsat a (firstn n ls)
  | Props _ => (n <= length ls)%nat /\ (if seen then 1 else 0) + count_st LUnsat a (firstn n ls) <= 1
  | Crash => (length ls < n)%nat
  | NoFuel => False
  end.
Proof.
  intros a. induction n as [|n IH]; intros ls seen.
  - simpl. split; [lia|]. destruct seen; lia.
  - destruct ls as [|l ls]; cbn [amo_scan firstn count_st]; [simpl; lia|].
    pose proof (count_st_nonneg LUnsat a (firstn n ls)) as P.
    destruct (is_unsat a l) eqn:U.
    + apply is_unsat_true in U. rewrite U. cbn [lstatus_eqb]. destruct seen; [lia|].
      specialize (IH ls true). destruct (amo_scan a n ls true); cbn [length]; lia.
    + assert (E : lstatus_eqb (lit_status a l) LUnsat = false) by exact U. rewrite E.
      specialize (IH ls seen). destruct (amo_scan a n ls seen); cbn [length]; lia.
Qed.

Theorem simplify_card_amo_sound : forall a lvl ls card o a',
  Z.of_nat (length ls) = card + 1 ->
  simplify_card_amo a lvl ls card = (o, a') ->
  (o = Conflict -> forall m, extends m a -> sat_pbc m (card_pbc ls card) = false) /\
  (forall ps, o = Props ps -> (exists l, In l ls /\ lit_status a l = LUnsat) ->
     forall l, In l ps -> forall m, extends m a -> sat_pbc m (card_pbc ls card) = true ->
       lit_val m l = true) /\
  o <> Crash /\ a_le a a'.
Proof.
  intros a lvl ls card o a' Hl H. unfold simplify_card_amo in H.
  assert (Hn : Z.to_nat (card + 1) = length ls) by lia. rewrite Hn in H.
  pose proof (amo_scan_spec a (length ls) ls false) as SP. rewrite firstn_all in *.
  pose proof (count_split a ls) as CS.
  destruct (amo_scan a (length ls) ls false) as [|ps0| |] eqn:SC.
  - injection H as <- <-. split; [|split; [discriminate|split; [discriminate|apply a_le_refl]]].
    intros _ m E. apply slack_conflict with (a := a); auto using nonneg_unit_terms.
    rewrite slack_unit_terms. lia.
  - destruct (prop_unbound a lvl ls) as [ps a1] eqn:PU. injection H as <- <-.
    destruct (prop_unbound_spec _ _ _ _ _ PU) as [_ [L Q]].
    split; [discriminate|split; [|split; [discriminate|exact L]]].
    intros ps' E [f [Hf Uf]] l Hl' m Em Sm. injection E as <-.
    destruct (Q l Hl') as [Q1 Q2].
    assert (1 <= count_st LUnsat a ls).
    { destruct (Z_le_gt_dec 1 (count_st LUnsat a ls)); auto.
      pose proof (count_st_nonneg LUnsat a ls).
      exfalso. apply (count_zero_none LUnsat a ls ltac:(lia) f Hf Uf). }
    apply (slack_unit a (unit_terms ls) card (1, l)); auto using nonneg_unit_terms.
    + apply in_unit_terms. auto.
    + rewrite slack_unit_terms. simpl. lia.
  - lia.
  - destruct SP.
Qed.

(* called on a constraint none of whose literals is false it would push
   everything (foundFalse is not consulted after the loop, l.465) *)
Theorem simplify_card_amo_unguarded_refuted :
  exists a lvl ls card m l,
    Z.of_nat (length ls) = card + 1 /\
    In l (match fst (simplify_card_amo a lvl ls card) with Props ps => ps | _ => [] end) /\
    extends m a /\ sat_pbc m (card_pbc ls card) = true /\ lit_val m l = false.
Proof.
  exists [0; 0; 0], 1, ex_amo_lits, 2, [false; true; true], 1.
  split; [reflexivity|split; [vm_compute; auto|split; [apply extendsb_spec; reflexivity|split; reflexivity]]].
Qed.

(* watchClause l.94 tests card == Len+1, not card == Len-1 *)
Theorem watch_amo_dead : forall c, watch_kind c = WAMO ->
  c_card c = Z.of_nat (length (c_lits c)) + 1 /\ watch_clause c = None.
Proof.
  intros c H. unfold watch_clause. rewrite H. unfold watch_kind in H.
  destruct (c_pb c); [discriminate|]. destruct (1 <? c_card c); [|destruct (_ =? 2); discriminate].
  destruct (c_card c =? Z.of_nat (length (c_lits c)) + 1) eqn:E; [|discriminate].
  apply Z.eqb_eq in E. split; [exact E|]. unfold take_watch.
  assert (L : Nat.ltb (length (c_lits c)) (Z.to_nat (c_card c + 1)) = true) by (apply Nat.ltb_lt; lia).
  rewrite L. reflexivity.
Qed.

Theorem watch_amo_unreachable : forall c,
  c_card c <= Z.of_nat (length (c_lits c)) -> watch_kind c <> WAMO.
Proof. intros c H K. apply watch_amo_dead in K. lia. Qed.

Theorem amo_shape_goes_to_card : forall ls, (3 <= length ls)%nat ->
  watch_kind (mk_card ls (Z.of_nat (length ls) - 1)) = WCard.
Proof.
  intros ls H. unfold watch_kind, mk_card, c_card, c_lits, card_pbc. simpl.
  rewrite map_snd_unit_terms.
  assert (E1 : (1 <? Z.of_nat (length ls) - 1) = true) by (apply Z.ltb_lt; lia). rewrite E1.
  assert (E2 : (Z.of_nat (length ls) - 1 =? Z.of_nat (length ls) + 1) = false) by (apply Z.eqb_neq; lia).
  rewrite E2. reflexivity.
Qed.


(* ------------------------------------------------------------------ *)
(* simplifyPropClauses                                                  *)

Lemma count_st_perm : forall st a l1 l2, Permutation l1 l2 -> count_st st a l1 = count_st st a l2.
Proof.
  intros st a l1 l2 P. induction P; cbn [count_st]; try lia.
Qed.

Lemma in_count_pos : forall st a ls l, In l ls -> lit_status a l = st -> 1 <= count_st st a ls.
Proof.
  induction ls as [|x ls IH]; intros l H S; [destruct H|].
  cbn [count_st]. pose proof (count_st_nonneg st a ls). destruct H as [->|H].
  - rewrite S. assert (E : lstatus_eqb st st = true) by (apply lstatus_eqb_eq; reflexivity).
    rewrite E. lia.
  - specialize (IH l H S). destruct (lstatus_eqb (lit_status a x) st); lia.
Qed.

Lemma sat_clause_unit_pbc : forall m c, sat_clause m c = sat_pbc m (PBC (unit_terms c) 1).
Proof. intros. rewrite sat_clause_lhs. reflexivity. Qed.

Lemma clause_step_sound : forall a tl other c,
  In (- tl) (firstn 2 c) -> lit_status a (- tl) = LUnsat ->
  let st := clause_step a tl other c in
  Permutation c (cs_lits st) /\
  (cs_out st = Conflict -> count_st LSat a c + count_st LIndet a c = 0) /\
  (forall ps, cs_out st = Props ps -> ps = [] \/
     exists l, ps = [l] /\ In l c /\ lit_status a l = LIndet /\
               count_st LSat a c + count_st LIndet a c = 1) /\
  ((2 <= length c)%nat -> cs_out st <> Crash) /\ cs_out st <> NoFuel.
Proof.
  intros a tl other c Hin Hu. unfold clause_step.
  destruct (is_sat a other).
  { simpl. split; [apply Permutation_refl|split; [discriminate|split; [|split; discriminate]]].
    intros ps E. injection E as <-. left. reflexivity. }
  destruct c as [|x [|y rest]].
  { destruct Hin. }
  { simpl. split; [apply Permutation_refl|split; [discriminate|split; [discriminate|split; [lia|discriminate]]]]. }
  assert (Hsel : exists first second,
            (if x =? - tl then @pair lit lit y x else @pair lit lit x y) = @pair lit lit first second /\
            lit_status a second = LUnsat /\ Permutation (x :: y :: rest) (first :: second :: rest)).
  { destruct (x =? - tl) eqn:E.
    - apply Z.eqb_eq in E. exists y, x. split; [reflexivity|split; [rewrite E; exact Hu|apply perm_swap]].
    - apply Z.eqb_neq in E. exists x, y. split; [reflexivity|split; [|apply Permutation_refl]].
      simpl in Hin. destruct Hin as [K|[K|[]]]; [congruence|rewrite K; exact Hu]. }
  destruct Hsel as [first [second [Esel [S2 Pm]]]]. lazy beta iota zeta. rewrite Esel.
  assert (Cnt : forall st, count_st st a (x :: y :: rest) = count_st st a (first :: second :: rest))
    by (intro st; apply count_st_perm; exact Pm).
  destruct (lit_status a first) eqn:F.
  - (* first unbound *)
    destruct (find_nonfalse a rest) as [[[pre k] post]|] eqn:FN.
    + cbn [cs_lits cs_out]. destruct (find_nonfalse_some _ _ _ _ _ FN) as [-> _].
      split; [|split; [discriminate|split; [|split; discriminate]]].
      * eapply Permutation_trans; [exact Pm|]. apply perm_skip.
        apply Permutation_trans with (k :: second :: pre ++ post).
        -- apply Permutation_trans with (second :: k :: pre ++ post); [|apply perm_swap].
           apply perm_skip. apply Permutation_sym. apply Permutation_middle.
        -- apply perm_skip. apply Permutation_middle.
      * intros ps E. injection E as <-. left. reflexivity.
    + cbn [cs_lits cs_out]. pose proof (count_all_false a rest (find_nonfalse_none _ _ FN)) as Z0.
      split; [exact Pm|split; [discriminate|split; [|split; discriminate]]].
      intros ps E. injection E as <-. right. exists first. split; [reflexivity|].
      split; [change (In first (x :: y :: rest)); apply (Permutation_in first (Permutation_sym Pm)); left; reflexivity|].
      split; [exact F|]. rewrite !Cnt. cbn [count_st]. rewrite F, S2. cbn [lstatus_eqb]. lia.
  - cbn [cs_lits cs_out]. split; [exact Pm|split; [discriminate|split; [|split; discriminate]]].
    intros ps E. injection E as <-. left. reflexivity.
  - destruct (find_nonfalse a rest) as [[[pre k] post]|] eqn:FN.
    + cbn [cs_lits cs_out]. destruct (find_nonfalse_some _ _ _ _ _ FN) as [-> _].
      split; [|split; [discriminate|split; [|split; discriminate]]].
      * eapply Permutation_trans; [exact Pm|]. apply perm_skip.
        apply Permutation_trans with (k :: second :: pre ++ post).
        -- apply Permutation_trans with (second :: k :: pre ++ post); [|apply perm_swap].
           apply perm_skip. apply Permutation_sym. apply Permutation_middle.
        -- apply perm_skip. apply Permutation_middle.
      * intros ps E. injection E as <-. left. reflexivity.
    + cbn [cs_lits cs_out]. pose proof (count_all_false a rest (find_nonfalse_none _ _ FN)) as Z0.
      split; [exact Pm|split; [|split; [discriminate|split; discriminate]]].
      intros _. rewrite !Cnt. cbn [count_st]. rewrite F, S2. cbn [lstatus_eqb]. lia.
Qed.

(* C02_clause_rule: soundness *)
Theorem clause_step_rule : forall a tl other c,
  In (- tl) (firstn 2 c) -> lit_status a (- tl) = LUnsat ->
  let st := clause_step a tl other c in
  (cs_out st = Conflict -> forall m, extends m a -> sat_clause m c = false) /\
  (forall ps l, cs_out st = Props ps -> In l ps ->
     In l c /\ lit_status a l = LIndet /\
     forall m, extends m a -> sat_clause m c = true -> lit_val m l = true) /\
  Permutation c (cs_lits st).
Proof.
  intros a tl other c Hin Hu st.
  destruct (clause_step_sound a tl other c Hin Hu) as [P [C [Pr _]]]. fold st in P, C, Pr.
  split; [|split; [|exact P]].
  - intros E m Em. rewrite sat_clause_unit_pbc.
    apply slack_conflict with (a := a); auto using nonneg_unit_terms.
    rewrite slack_unit_terms. specialize (C E). lia.
  - intros ps l E Hl. destruct (Pr ps E) as [->|[l0 [-> [I [U K]]]]]; [destruct Hl|].
    destruct Hl as [<-|[]]. split; [exact I|split; [exact U|]].
    intros m Em Sm. rewrite sat_clause_unit_pbc in Sm.
    apply (slack_unit a (unit_terms c) 1 (1, l0)); auto using nonneg_unit_terms.
    + apply in_unit_terms. auto.
    + rewrite slack_unit_terms. simpl. lia.
Qed.

(* C02_clause_rule: nothing reported => neither unit nor conflicting, when at
   most one of the two watched literals is false *)
Theorem clause_step_quiet : forall a tl other c,
  In (- tl) (firstn 2 c) -> lit_status a (- tl) = LUnsat ->
  In other c -> count_st LUnsat a (firstn 2 c) <= 1 ->
  let st := clause_step a tl other c in
  cs_out st = Props [] ->
  (~ conflicting a (mk_clause c) /\ ~ propagating a (mk_clause c)) /\
  (is_sat a other = false ->
   lit_status a (nth 0 (cs_lits st) 0) = LSat \/ none_false a (firstn 2 (cs_lits st))).
Proof.
  intros a tl other c Hin Hu Ho H1 st. unfold conflicting, propagating.
  rewrite c_terms_mk_clause. unfold c_card, mk_clause, clause_pbc. cbn [c_body degree].
  unfold st, clause_step.
  destruct (is_sat a other) eqn:SO.
  { intros _. split; [|discriminate]. apply quiet_counts. left.
    apply is_sat_true in SO. apply (in_count_pos _ _ _ _ Ho SO). }
  destruct c as [|x [|y rest]]; [destruct Hin|simpl; discriminate|].
  pose proof (count_st_nonneg LSat a rest) as PS. pose proof (count_st_nonneg LIndet a rest) as PI.
  assert (Hsel : exists first second,
            (if x =? - tl then @pair lit lit y x else @pair lit lit x y) = @pair lit lit first second /\
            lit_status a second = LUnsat /\ lit_status a first <> LUnsat /\
            forall st, count_st st a (x :: y :: rest) = count_st st a (first :: second :: rest)).
  { cbn [firstn count_st] in H1.
    destruct (x =? - tl) eqn:E.
    - apply Z.eqb_eq in E. exists y, x. rewrite E in *. rewrite Hu in H1. cbn [lstatus_eqb] in H1.
      split; [reflexivity|split; [exact Hu|split]].
      + intro K. rewrite K in H1. cbn [lstatus_eqb] in H1. lia.
      + intro s. cbn [count_st]. lia.
    - apply Z.eqb_neq in E. exists x, y.
      assert (Ey : y = - tl) by (simpl in Hin; destruct Hin as [K|[K|[]]]; congruence).
      rewrite Ey in *. rewrite Hu in H1. cbn [lstatus_eqb] in H1.
      split; [reflexivity|split; [exact Hu|split]].
      + intro K. rewrite K in H1. cbn [lstatus_eqb] in H1. lia.
      + intro s. reflexivity. }
  destruct Hsel as [first [second [Esel [S2 [F1 Cnt]]]]]. lazy beta iota zeta. rewrite Esel.
  destruct (lit_status a first) eqn:F.
  - destruct (find_nonfalse a rest) as [[[pre k] post]|] eqn:FN; [|simpl; discriminate].
    cbn [cs_lits cs_out]. intros _. destruct (find_nonfalse_some _ _ _ _ _ FN) as [E [Nk _]]. split.
    + apply quiet_counts. right. rewrite !Cnt. cbn [count_st]. rewrite F, S2. cbn [lstatus_eqb].
      subst rest. rewrite !count_st_app in *. cbn [count_st] in *.
      pose proof (count_st_nonneg LSat a pre). pose proof (count_st_nonneg LIndet a pre).
      pose proof (count_st_nonneg LSat a post). pose proof (count_st_nonneg LIndet a post).
      apply non_false_true in Nk.
      destruct (lit_status a k); cbn [lstatus_eqb]; try lia. exfalso. apply Nk. reflexivity.
    + intros _. right. intros l [<-|[<-|[]]]; [rewrite F; discriminate|apply non_false_true; exact Nk].
  - cbn [cs_lits cs_out]. intros _. split.
    + apply quiet_counts. left. rewrite Cnt. cbn [count_st]. rewrite F, S2. cbn [lstatus_eqb]. lia.
    + intros _. left. exact F.
  - exfalso. apply F1. reflexivity.
Qed.

(* without the hypothesis on the other watched literal the step can stay
   silent on a unit clause: [x1; x2; x3], x1 and x2 false, x3 unbound *)
Theorem clause_step_quiet_needs_inv :
  cs_out (clause_step [-1; -1; 0] (-2) 1 [1; 2; 3]) = Props [] /\
  propagatingb [-1; -1; 0] (mk_clause [1; 2; 3]) = true.
Proof. split; reflexivity. Qed.


(* ------------------------------------------------------------------ *)
(* slackSum                                                             *)

Lemma slack_sum_go_spec : forall a card ts sl sum r b, nonneg_terms ts = true ->
  slack_sum_go a card ts sl sum = (r, b) ->
  (b = false -> r = sl + wsum (non_false a) ts) /\
  (b = true -> card <= sum + wsum (is_sat a) ts).
Proof.
  intros a card. induction ts as [|t ts IH]; intros sl sum r b N H.
  - simpl in H. injection H as <- <-. simpl. split; [lia|discriminate].
  - apply nonneg_cons in N. destruct N as [N1 N2]. cbn [slack_sum_go wsum] in *.
    unfold non_false, is_unsat, is_sat in *.
    destruct (lit_status a (snd t)) eqn:S; cbn [lstatus_eqb negb].
    + destruct (IH _ _ _ _ N2 H) as [I1 I2]. split; intro E; [rewrite (I1 E)|specialize (I2 E)]; lia.
    + destruct (card <=? sum + fst t) eqn:C.
      * apply Z.leb_le in C. injection H as <- <-. split; [discriminate|intros _].
        pose proof (wsum_nonneg (fun l => lstatus_eqb (lit_status a l) LSat) ts N2). lia.
      * destruct (IH _ _ _ _ N2 H) as [I1 I2]. split; intro E; [rewrite (I1 E)|specialize (I2 E)]; lia.
    + destruct (IH _ _ _ _ N2 H) as [I1 I2]. split; intro E; [rewrite (I1 E)|specialize (I2 E)]; lia.
Qed.

Lemma slack_sum_spec : forall a ts card r b, nonneg_terms ts = true ->
  slack_sum a ts card = (r, b) ->
  (b = false -> r = slack a ts card) /\ (b = true -> card <= wsum (is_sat a) ts).
Proof.
  intros a ts card r b N H. unfold slack_sum in H.
  destruct (slack_sum_go_spec _ _ _ _ _ _ _ N H) as [I1 I2]. unfold slack.
  split; intro E; [rewrite (I1 E)|specialize (I2 E)]; lia.
Qed.

(* ------------------------------------------------------------------ *)
(* simplifyPseudoBool                                                   *)

Lemma assign_all_app : forall a lvl p q, assign_all a lvl (p ++ q) = assign_all (assign_all a lvl p) lvl q.
Proof. intros. unfold assign_all. apply fold_left_app. Qed.

Lemma pb_pass_spec : forall ts a lvl sl ps a', pb_pass a lvl sl ts = (ps, a') ->
  a' = assign_all a lvl ps /\ a_le a a' /\
  (forall l, In l ps -> exists t, In t ts /\ snd t = l /\ lit_status a l = LIndet /\ sl < fst t) /\
  (ps = [] -> forall t, In t ts -> lit_status a (snd t) = LIndet -> fst t <= sl).
Proof.
  induction ts as [|t ts IH]; intros a lvl sl ps a' H; simpl in H.
  - injection H as <- <-. split; [reflexivity|split; [apply a_le_refl|split]].
    + intros l [].
    + intros _ t [].
  - destruct (is_indet a (snd t) && (sl <? fst t)) eqn:C.
    + apply andb_true_iff in C. destruct C as [C1 C2]. apply is_indet_true in C1. apply Z.ltb_lt in C2.
      destruct (pb_pass (assign a lvl (snd t)) lvl sl ts) as [ps0 a0] eqn:R.
      injection H as <- <-. destruct (IH _ _ _ _ _ R) as [E [L [P _]]].
      split; [rewrite E; reflexivity|split; [eapply a_le_trans; [apply a_le_assign; exact C1|exact L]|split]].
      * intros l [<-|Hl]; [exists t; split; [left; reflexivity|auto]|].
        destruct (P l Hl) as [t' [I1 [I2 [I3 I4]]]]. exists t'. split; [right; exact I1|].
        split; [exact I2|split; [|exact I4]].
        eapply a_le_indet; [apply a_le_assign; exact C1|exact I3].
      * discriminate.
    + destruct (IH _ _ _ _ _ H) as [E [L [P Q]]]. split; [exact E|split; [exact L|split]].
      * intros l Hl. destruct (P l Hl) as [t' [I1 I2]]. exists t'. split; [right; exact I1|exact I2].
      * intros Eps t' [<-|Ht'] U; [|apply Q; auto].
        apply is_indet_true in U. rewrite U in C. simpl in C. apply Z.ltb_ge in C. exact C.
Qed.


Lemma pb_wf_le : forall a a' ts, a_le a a' -> pb_wf a ts -> pb_wf a' ts.
Proof.
  intros a a' ts L [N Z]. split; [exact N|]. intros t It W U. apply (Z t It W).
  eapply a_le_indet; eauto.
Qed.

Lemma oapp_props : forall ps o qs, oapp ps o = Props qs -> exists r, o = Props r /\ qs = ps ++ r.
Proof. intros ps [] qs H; simpl in H; try discriminate. injection H as <-. eauto. Qed.

(* C02_pb_loop: soundness *)
Theorem simplify_pb_sound : forall fuel a lvl ts card o a' u, 0 < lvl -> pb_wf a ts ->
  simplify_pb fuel a lvl ts card = (o, a', u) ->
  a_le a a' /\ (forall ps, o = Props ps -> a' = assign_all a lvl ps) /\
  forall m, extends m a -> sat_pbc m (PBC ts card) = true ->
    o <> Conflict /\ extends m a' /\
    (forall ps, o = Props ps -> forall l, In l ps -> lit_val m l = true).
Proof.
  induction fuel as [|f IH]; intros a lvl ts card o a' u L W H; simpl in H.
  - injection H as <- <- <-. split; [apply a_le_refl|split; [discriminate|]].
    intros m E S. split; [discriminate|split; [exact E|discriminate]].
  - destruct W as [N Z]. destruct (slack_sum a ts card) as [sl sat] eqn:SS.
    destruct (slack_sum_spec _ _ _ _ _ N SS) as [SF ST].
    destruct sat.
    { injection H as <- <- <-. split; [apply a_le_refl|split; [intros ps E; injection E as <-; reflexivity|]].
      intros m E S. split; [discriminate|split; [exact E|]]. intros ps P. injection P as <-. intros l []. }
    specialize (SF eq_refl). subst sl.
    destruct (slack a ts card <? 0) eqn:C0.
    { apply Z.ltb_lt in C0. injection H as <- <- <-. split; [apply a_le_refl|split; [discriminate|]].
      intros m E S. rewrite (slack_conflict a ts card N C0 m E) in S. discriminate. }
    apply Z.ltb_ge in C0.
    destruct (slack a ts card =? 0) eqn:C1.
    { apply Z.eqb_eq in C1. destruct (prop_unbound a lvl (map snd ts)) as [ps a1] eqn:PU.
      injection H as <- <- <-. destruct (prop_unbound_spec _ _ _ _ _ PU) as [E1 [L1 Q]].
      assert (T : forall m, extends m a -> sat_pbc m (PBC ts card) = true ->
                  forall l, In l ps -> lit_val m l = true).
      { intros m E S l Hl. eapply propagate_all_sound; eauto.
        intros t It Ut. destruct (Z_lt_le_dec 0 (fst t)) as [Hp|Hn]; auto. exfalso. exact (Z t It Hn Ut). }
      split; [exact L1|split; [intros ps' E; injection E as <-; exact E1|]].
      intros m E S. split; [discriminate|split].
      - rewrite E1. apply ext_assign_all; auto.
      - intros ps' E'. injection E' as <-. auto. }
    apply Z.eqb_neq in C1.
    destruct (pb_pass a lvl (slack a ts card) ts) as [ps a1] eqn:PP.
    destruct (pb_pass_spec _ _ _ _ _ _ PP) as [E1 [L1 [Q _]]].
    assert (T : forall m, extends m a -> sat_pbc m (PBC ts card) = true ->
                forall l, In l ps -> lit_val m l = true).
    { intros m E S l Hl. destruct (Q l Hl) as [t [It [<- [Ut Wt]]]].
      eapply slack_unit; eauto. }
    destruct ps as [|p ps].
    { injection H as <- <- <-. split; [exact L1|split; [intros ps' E; injection E as <-; exact E1|]].
      intros m E S. split; [discriminate|split].
      - rewrite E1. exact E.
      - intros ps' E'. injection E' as <-. intros l []. }
    destruct (simplify_pb f a1 lvl ts card) as [[o2 a2] u2] eqn:R.
    injection H as <- <- <-.
    destruct (IH _ _ _ _ _ _ _ L (pb_wf_le _ _ _ L1 (conj N Z)) R) as [L2 [A2 S2]].
    split; [eapply a_le_trans; eauto|split].
    + intros qs E. apply oapp_props in E. destruct E as [r [-> ->]].
      rewrite assign_all_app. rewrite <- E1. apply A2. reflexivity.
    + intros m E S.
      assert (E1m : extends m a1) by (rewrite E1; apply ext_assign_all; auto).
      destruct (S2 m E1m S) as [NC [E2 P2]]. split; [|split; [exact E2|]].
      * destruct o2; simpl; auto; discriminate.
      * intros qs Eq. apply oapp_props in Eq. destruct Eq as [r [-> ->]].
        intros l Hl. apply in_app_or in Hl. destruct Hl as [Hl|Hl]; [apply (T m E S l Hl)|].
        apply (P2 r eq_refl l Hl).
Qed.

Corollary simplify_pb_conflict : forall fuel a lvl ts card a' u, 0 < lvl -> pb_wf a ts ->
  simplify_pb fuel a lvl ts card = (Conflict, a', u) ->
  forall m, extends m a -> sat_pbc m (PBC ts card) = false.
Proof.
  intros fuel a lvl ts card a' u L W H m E.
  destruct (sat_pbc m (PBC ts card)) eqn:S; [|reflexivity].
  destruct (simplify_pb_sound _ _ _ _ _ _ _ _ L W H) as [_ [_ K]].
  destruct (K m E S) as [NC _]. exfalso. apply NC. reflexivity.
Qed.


(* ---- fuel ---------------------------------------------------------- *)

Lemma assign_all_bound : forall ps a lvl l, 0 < lvl -> (vidx l < length a)%nat ->
  aget a l <> 0 \/ In l ps -> aget (assign_all a lvl ps) l <> 0.
Proof.
  induction ps as [|p ps IH]; intros a lvl l L R H.
  - simpl. destruct H as [H|[]]. exact H.
  - unfold assign_all in *. simpl. apply IH; auto.
    + rewrite assign_length. exact R.
    + destruct (Nat.eq_dec (vidx l) (vidx p)) as [E|E].
      * left. rewrite aget_assign_same; auto; [|rewrite <- E; exact R].
        unfold lvl_to_signed. destruct (0 <? p); lia.
      * rewrite aget_assign_other by exact E.
        destruct H as [H|[H|H]]; auto. subst p. contradiction.
Qed.

Lemma count_indet_le : forall a a' ls, a_le a a' -> count_st LIndet a' ls <= count_st LIndet a ls.
Proof.
  intros a a' ls L. induction ls as [|l ls IH]; cbn [count_st]; [lia|].
  destruct (lit_status a' l) eqn:S'; cbn [lstatus_eqb].
  - rewrite (a_le_indet _ _ _ L S'). cbn [lstatus_eqb]. lia.
  - destruct (lstatus_eqb (lit_status a l) LIndet); lia.
  - destruct (lstatus_eqb (lit_status a l) LIndet); lia.
Qed.

Lemma count_indet_lt : forall a a' ls l, a_le a a' -> In l ls ->
  lit_status a l = LIndet -> lit_status a' l <> LIndet ->
  count_st LIndet a' ls < count_st LIndet a ls.
Proof.
  intros a a' ls l L. induction ls as [|x ls IH]; intros I U U'; [destruct I|].
  cbn [count_st]. pose proof (count_indet_le a a' ls L) as LE.
  destruct I as [->|I].
  - rewrite U. cbn [lstatus_eqb]. destruct (lit_status a' l); cbn [lstatus_eqb]; try lia.
    exfalso. apply U'. reflexivity.
  - specialize (IH I U U').
    destruct (lit_status a' x) eqn:S'; cbn [lstatus_eqb].
    + rewrite (a_le_indet _ _ _ L S'). cbn [lstatus_eqb]. lia.
    + destruct (lstatus_eqb (lit_status a x) LIndet); lia.
    + destruct (lstatus_eqb (lit_status a x) LIndet); lia.
Qed.

Lemma oapp_nofuel : forall ps o, o <> NoFuel -> oapp ps o <> NoFuel.
Proof. intros ps [] H; simpl; auto; discriminate. Qed.

Lemma count_le_length : forall st a ls, count_st st a ls <= Z.of_nat (length ls).
Proof.
  intros st a ls. induction ls as [|l ls IH]; cbn [count_st length]; [lia|].
  rewrite Nat2Z.inj_succ. destruct (lstatus_eqb (lit_status a l) st); lia.
Qed.

Lemma simplify_pb_fuel_gen : forall fuel a lvl ts card, 0 < lvl ->
  in_range a (map snd ts) ->
  count_st LIndet a (map snd ts) < Z.of_nat fuel ->
  fst (fst (simplify_pb fuel a lvl ts card)) <> NoFuel.
Proof.
  induction fuel as [|f IH]; intros a lvl ts card L R H.
  - pose proof (count_st_nonneg LIndet a (map snd ts)). simpl in H. lia.
  - cbn [simplify_pb]. destruct (slack_sum a ts card) as [sl sat].
    destruct sat; [simpl; discriminate|].
    destruct (sl <? 0); [simpl; discriminate|].
    destruct (sl =? 0).
    { destruct (prop_unbound a lvl (map snd ts)) as [ps a1]. simpl. discriminate. }
    destruct (pb_pass a lvl sl ts) as [ps a1] eqn:PP.
    destruct (pb_pass_spec _ _ _ _ _ _ PP) as [E1 [L1 [Q _]]].
    destruct ps as [|p ps]; [simpl; discriminate|].
    destruct (Q p (or_introl eq_refl)) as [t [It [Et [Ut _]]]].
    assert (Ip : In p (map snd ts)) by (rewrite <- Et; apply in_map; exact It).
    assert (K : count_st LIndet a1 (map snd ts) < count_st LIndet a (map snd ts)).
    { apply count_indet_lt with (l := p); auto. intro X. apply indet_aget in X. revert X.
      rewrite E1. apply assign_all_bound; auto. right. left. reflexivity. }
    specialize (IH a1 lvl ts card L).
    assert (R1 : in_range a1 (map snd ts)).
    { intros x Hx. rewrite E1, assign_all_length. apply R. exact Hx. }
    specialize (IH R1 ltac:(lia)).
    destruct (simplify_pb f a1 lvl ts card) as [[o2 a2] u2]. cbn [fst] in *.
    apply oapp_nofuel. exact IH.
Qed.

(* C02_pb_loop: the fuel of the model is enough *)
Theorem simplify_pb_fuel : forall a lvl ts card, 0 < lvl -> in_range a (map snd ts) ->
  fst (fst (simplifyPseudoBool a lvl ts card)) <> NoFuel.
Proof.
  intros a lvl ts card L R. unfold simplifyPseudoBool, pb_fuel.
  apply simplify_pb_fuel_gen; auto.
  pose proof (count_le_length LIndet a (map snd ts)). rewrite map_length in H. unfold term in *. lia.
Qed.

(* ---- fixpoint ------------------------------------------------------ *)


Lemma no_compl_nonzero : forall ls l, no_compl ls -> In l ls -> l <> 0.
Proof. intros ls l N I E. subst l. apply (N 0 I). exact I. Qed.

Lemma non_false_assign : forall a lvl ls l x, 0 < lvl -> no_compl ls -> In l ls -> In x ls ->
  lit_status a l = LIndet -> non_false (assign a lvl l) x = non_false a x.
Proof.
  intros a lvl ls l x L N Il Ix U.
  destruct (Nat.eq_dec (vidx x) (vidx l)) as [E|E].
  - destruct (vidx_eq l x (no_compl_nonzero _ _ N Il) (no_compl_nonzero _ _ N Ix) (eq_sym E)) as [-> | ->].
    + assert (A : non_false a l = true) by (apply non_false_true; rewrite U; discriminate).
      rewrite A. apply non_false_true. apply status_assign_self_weak; auto.
    + exfalso. apply (N l Il Ix).
  - unfold non_false, is_unsat. rewrite status_assign_other by exact E. reflexivity.
Qed.

Lemma prop_unbound_nonfalse : forall ls0 ls a lvl ps a', 0 < lvl -> no_compl ls -> incl ls0 ls ->
  prop_unbound a lvl ls0 = (ps, a') -> forall x, In x ls -> non_false a' x = non_false a x.
Proof.
  induction ls0 as [|l ls0 IH]; intros ls a lvl ps a' L N I H x Hx; simpl in H.
  - injection H as <- <-. reflexivity.
  - assert (I0 : incl ls0 ls) by (intros y Hy; apply I; right; exact Hy).
    destruct (is_indet a l) eqn:U.
    + destruct (prop_unbound (assign a lvl l) lvl ls0) as [ps0 a0] eqn:R. injection H as <- <-.
      rewrite (IH ls _ _ _ _ L N I0 R x Hx). apply is_indet_true in U.
      apply non_false_assign with (ls := ls); auto. apply I. left. reflexivity.
    + apply (IH ls _ _ _ _ L N I0 H x Hx).
Qed.

Lemma prop_unbound_all_bound : forall ls a lvl ps a', 0 < lvl -> in_range a ls ->
  prop_unbound a lvl ls = (ps, a') -> forall l, In l ls -> lit_status a' l <> LIndet.
Proof.
  induction ls as [|x ls IH]; intros a lvl ps a' L R H l Hl; [destruct Hl|].
  simpl in H. destruct (is_indet a x) eqn:U.
  - destruct (prop_unbound (assign a lvl x) lvl ls) as [ps0 a0] eqn:R0. injection H as <- <-.
    assert (R1 : in_range (assign a lvl x) ls).
    { intros y Hy. rewrite assign_length. apply R. right. exact Hy. }
    destruct Hl as [<-|Hl]; [|apply (IH _ _ _ _ L R1 R0 l Hl)].
    destruct (prop_unbound_spec _ _ _ _ _ R0) as [_ [L0 _]].
    assert (S : lit_status (assign a lvl x) x = LSat)
      by (apply status_assign_self; auto; apply R; left; reflexivity).
    rewrite (a_le_sat _ _ _ L0 S). discriminate.
  - assert (R1 : in_range a ls) by (intros y Hy; apply R; right; exact Hy).
    destruct Hl as [<-|Hl]; [|apply (IH _ _ _ _ L R1 H l Hl)].
    destruct (prop_unbound_spec _ _ _ _ _ H) as [_ [L0 _]].
    intro K. apply (a_le_indet _ _ _ L0) in K. apply is_indet_true in K. congruence.
Qed.

(* C02_pb_loop: the loop ends on a fixpoint of the slack rule (no literal
   with its negation in the constraint) *)
Theorem simplify_pb_fixpoint : forall fuel a lvl ts card ps a' u, 0 < lvl ->
  nonneg_terms ts = true -> no_compl (map snd ts) -> in_range a (map snd ts) ->
  simplify_pb fuel a lvl ts card = (Props ps, a', u) ->
  pb_fixpoint a' ts card /\
  (u = true -> 0 < slack a' ts card /\
     forall t, In t ts -> lit_status a' (snd t) = LIndet -> fst t <= slack a' ts card).
Proof.
  induction fuel as [|f IH]; intros a lvl ts card ps a' u L N NC R H; simpl in H; [discriminate|].
  destruct (slack_sum a ts card) as [sl sat] eqn:SS.
  destruct (slack_sum_spec _ _ _ _ _ N SS) as [SF ST].
  destruct sat.
  { injection H as <- <- <-. split; [left; auto|discriminate]. }
  specialize (SF eq_refl). subst sl.
  destruct (slack a ts card <? 0) eqn:C0; [discriminate|]. apply Z.ltb_ge in C0.
  destruct (slack a ts card =? 0) eqn:C1.
  { apply Z.eqb_eq in C1. destruct (prop_unbound a lvl (map snd ts)) as [ps1 a1] eqn:PU.
    injection H as <- <- <-. split; [|discriminate]. right.
    assert (S1 : slack a1 ts card = slack a ts card).
    { unfold slack. f_equal. apply wsum_ext. intros t It.
      apply (prop_unbound_nonfalse _ _ _ _ _ _ L NC (incl_refl _) PU). apply in_map. exact It. }
    rewrite S1, C1. split; [lia|]. intros t It Ut. exfalso.
    apply (prop_unbound_all_bound _ _ _ _ _ L R PU (snd t)); auto. apply in_map. exact It. }
  apply Z.eqb_neq in C1.
  destruct (pb_pass a lvl (slack a ts card) ts) as [ps1 a1] eqn:PP.
  destruct (pb_pass_spec _ _ _ _ _ _ PP) as [E1 [L1 [Q Q0]]].
  destruct ps1 as [|p ps1].
  { injection H as <- <- <-. simpl in E1. subst a1. specialize (Q0 eq_refl).
    split; [right; split; [lia|exact Q0]|]. intros _. split; [lia|exact Q0]. }
  destruct (simplify_pb f a1 lvl ts card) as [[o2 a2] u2] eqn:R2.
  injection H as Ho <- <-. apply oapp_props in Ho. destruct Ho as [r [-> _]].
  apply (IH a1 lvl ts card r a2 u2); auto.
  intros x Hx. rewrite E1, assign_all_length. apply R. exact Hx.
Qed.

(* ... and misses a conflict when the constraint holds x and ~x:
   1 x2 + 2 x3 + 1 ~x2 >= 2 with x3 false: slack 0, x2 is pushed, ~x2 is then
   false, the slack is -1 and true is returned *)
Theorem simplify_pb_fixpoint_compl_refuted :
  exists a lvl ts card ps a' u,
    nonneg_terms ts = true /\ in_range a (map snd ts) /\ 0 < lvl /\
    simplifyPseudoBool a lvl ts card = (Props ps, a', u) /\
    slack a' ts card < 0.
Proof.
  exists ex_compl_a, 2, ex_compl_ts, 2, [2], [0; 2; -1], false.
  split; [reflexivity|split; [|split; [lia|split; [reflexivity|vm_compute; reflexivity]]]].
  intros l Hl. simpl in Hl. destruct Hl as [<-|[<-|[<-|[]]]]; vm_compute; lia.
Qed.


(* ------------------------------------------------------------------ *)
(* Antecedents (reason clauses)                                         *)

Lemma in_false_lits : forall a ls l, In l (false_lits a ls) <-> In l ls /\ lit_status a l = LUnsat.
Proof.
  intros a ls l. unfold false_lits. rewrite filter_In. rewrite is_unsat_true. reflexivity.
Qed.

Lemma sat_clause_false : forall m c, sat_clause m c = false -> forall l, In l c -> lit_val m l = false.
Proof.
  intros m c H l Hl. unfold sat_clause in H.
  destruct (lit_val m l) eqn:V; [|reflexivity].
  assert (K : existsb (lit_val m) c = true) by (apply existsb_exists; eauto). congruence.
Qed.

Lemma sat_clause_incl : forall m c d, incl c d -> sat_clause m c = true -> sat_clause m d = true.
Proof.
  intros m c d I H. unfold sat_clause in *. apply existsb_exists in H. destruct H as [l [Hl V]].
  apply existsb_exists. exists l. auto.
Qed.

Theorem slack_reason : forall a ts card t, nonneg_terms ts = true -> In t ts ->
  lit_status a (snd t) = LIndet -> slack a ts card < fst t ->
  forall m, sat_pbc m (PBC ts card) = true ->
    sat_clause m (snd t :: false_lits a (map snd ts)) = true.
Proof.
  intros a ts card t N I U S m P.
  destruct (sat_clause m (snd t :: false_lits a (map snd ts))) eqn:SC; [reflexivity|exfalso].
  pose proof (sat_clause_false _ _ SC) as F.
  unfold sat_pbc in P. simpl in P. apply Z.leb_le in P. rewrite lhs_wsum in P.
  assert (H : wsum (lit_val m) ts + fst t <= wsum (non_false a) ts).
  { apply wsum_mono_strict; auto.
    - intros t' It' V'. apply non_false_true. intro X.
      rewrite F in V'; [discriminate|]. right. apply in_false_lits. split; [apply in_map; exact It'|exact X].
    - apply F. left. reflexivity.
    - apply non_false_true. rewrite U. discriminate. }
  unfold slack in S. lia.
Qed.

Theorem slack_conflict_clause : forall a ts card, nonneg_terms ts = true -> slack a ts card < 0 ->
  forall m, sat_pbc m (PBC ts card) = true -> sat_clause m (false_lits a (map snd ts)) = true.
Proof.
  intros a ts card N S m P.
  destruct (sat_clause m (false_lits a (map snd ts))) eqn:SC; [reflexivity|exfalso].
  pose proof (sat_clause_false _ _ SC) as F.
  unfold sat_pbc in P. simpl in P. apply Z.leb_le in P. rewrite lhs_wsum in P.
  assert (H : wsum (lit_val m) ts <= wsum (non_false a) ts).
  { apply wsum_mono; auto. intros t' It' V'. apply non_false_true. intro X.
    rewrite F in V'; [discriminate|]. apply in_false_lits. split; [apply in_map; exact It'|exact X]. }
  unfold slack in S. lia.
Qed.

Lemma false_lits_mono : forall a a' ls, a_le a a' -> incl (false_lits a ls) (false_lits a' ls).
Proof.
  intros a a' ls L l H. apply in_false_lits in H. destruct H as [H1 H2].
  apply in_false_lits. split; [exact H1|]. eapply a_le_unsat; eauto.
Qed.

Lemma reason_mono : forall a a' ls l m, a_le a a' ->
  sat_clause m (l :: false_lits a ls) = true -> sat_clause m (l :: false_lits a' ls) = true.
Proof.
  intros a a' ls l m L H. eapply sat_clause_incl; [|exact H].
  intros x [<-|Hx]; [left; reflexivity|right]. apply (false_lits_mono _ _ _ L). exact Hx.
Qed.

Lemma conflict_mono : forall a a' ls m, a_le a a' ->
  sat_clause m (false_lits a ls) = true -> sat_clause m (false_lits a' ls) = true.
Proof. intros a a' ls m L H. eapply sat_clause_incl; [apply false_lits_mono; exact L|exact H]. Qed.

(* cardinality constraints *)
Theorem simplify_card_reason : forall a lvl ls card ps a' ls',
  simplify_card a lvl ls card = (Props ps, a', ls') ->
  forall l, In l ps -> forall m, sat_pbc m (card_pbc ls card) = true ->
    sat_clause m (l :: false_lits a ls) = true.
Proof.
  intros a lvl ls card ps a' ls' H l Hl m S.
  destruct (simplify_card_sound _ _ _ _ _ _ _ H) as [_ [P _]].
  destruct (P ps eq_refl) as [_ Q]. destruct (Q l Hl) as [I [U [S0 _]]].
  pose proof (slack_reason a (unit_terms ls) card (1, l) (nonneg_unit_terms ls)) as R.
  rewrite map_snd_unit_terms in R. apply R; auto.
  - apply in_unit_terms. auto.
  - rewrite S0. simpl. lia.
Qed.

Theorem simplify_card_conflict_clause : forall a lvl ls card a' ls',
  simplify_card a lvl ls card = (Conflict, a', ls') ->
  forall m, sat_pbc m (card_pbc ls card) = true -> sat_clause m (false_lits a ls) = true.
Proof.
  intros a lvl ls card a' ls' H m S. unfold simplify_card in H.
  pose proof (card_count_spec a (Z.of_nat (length ls)) card ls 0 0 0) as CC.
  pose proof (count_split a ls) as CS.
  destruct (card_count a (Z.of_nat (length ls)) card ls 0 0 0) as [| |t u]; try discriminate.
  - pose proof (slack_conflict_clause a (unit_terms ls) card (nonneg_unit_terms ls)) as R.
    rewrite map_snd_unit_terms in R. apply R; auto. rewrite slack_unit_terms. lia.
  - destruct (u + t =? card).
    + destruct (card_prop a lvl ls u) as [o0 a0] eqn:R. injection H as -> _ _.
      destruct (card_prop_spec _ _ _ _ _ _ R) as [_ [[K|[ps K]] _]]; discriminate.
    + destruct (swap_false a card ls); discriminate.
Qed.

(* clauses *)
Theorem clause_step_reason : forall a tl other c,
  In (- tl) (firstn 2 c) -> lit_status a (- tl) = LUnsat ->
  (forall ps l, cs_out (clause_step a tl other c) = Props ps -> In l ps ->
     forall m, sat_clause m c = true -> sat_clause m (l :: false_lits a c) = true) /\
  (cs_out (clause_step a tl other c) = Conflict ->
     forall m, sat_clause m c = true -> sat_clause m (false_lits a c) = true).
Proof.
  intros a tl other c Hin Hu.
  destruct (clause_step_sound a tl other c Hin Hu) as [_ [C [Pr _]]]. split.
  - intros ps l E Hl m S. destruct (Pr ps E) as [->|[l0 [-> [I [U K]]]]]; [destruct Hl|].
    destruct Hl as [<-|[]]. rewrite sat_clause_unit_pbc in S.
    pose proof (slack_reason a (unit_terms c) 1 (1, l0) (nonneg_unit_terms c)) as R.
    rewrite map_snd_unit_terms in R. apply R; auto.
    + apply in_unit_terms. auto.
    + rewrite slack_unit_terms. simpl. lia.
  - intros E m S. rewrite sat_clause_unit_pbc in S.
    pose proof (slack_conflict_clause a (unit_terms c) 1 (nonneg_unit_terms c)) as R.
    rewrite map_snd_unit_terms in R. apply R; auto. rewrite slack_unit_terms. specialize (C E). lia.
Qed.

(* pseudo-boolean constraints: the reason is read under the final assignment *)
Theorem simplify_pb_reason : forall fuel a lvl ts card o a' u, 0 < lvl -> pb_wf a ts ->
  simplify_pb fuel a lvl ts card = (o, a', u) ->
  forall m, sat_pbc m (PBC ts card) = true ->
    (o = Conflict -> sat_clause m (false_lits a' (map snd ts)) = true) /\
    (forall ps, o = Props ps -> forall l, In l ps ->
       sat_clause m (l :: false_lits a' (map snd ts)) = true).
Proof.
  induction fuel as [|f IH]; intros a lvl ts card o a' u L W H m S; simpl in H.
  - injection H as <- <- <-. split; discriminate.
  - pose proof W as [N Z]. destruct (slack_sum a ts card) as [sl sat] eqn:SS.
    destruct (slack_sum_spec _ _ _ _ _ N SS) as [SF ST].
    destruct sat.
    { injection H as <- <- <-. split; [discriminate|]. intros ps E. injection E as <-. intros l []. }
    specialize (SF eq_refl). subst sl.
    destruct (slack a ts card <? 0) eqn:C0.
    { apply Z.ltb_lt in C0. injection H as <- <- <-. split; [|discriminate].
      intros _. apply (slack_conflict_clause a ts card N C0 m S). }
    apply Z.ltb_ge in C0.
    destruct (slack a ts card =? 0) eqn:C1.
    { apply Z.eqb_eq in C1. destruct (prop_unbound a lvl (map snd ts)) as [ps a1] eqn:PU.
      injection H as <- <- <-. destruct (prop_unbound_spec _ _ _ _ _ PU) as [E1 [L1 Q]].
      split; [discriminate|]. intros ps' E. injection E as <-. intros l Hl.
      apply (reason_mono a a1 _ _ _ L1). destruct (Q l Hl) as [Q1 Q2].
      apply in_map_iff in Q1. destruct Q1 as [t [<- It]].
      apply (slack_reason a ts card t); auto. rewrite C1.
      destruct (Z_lt_le_dec 0 (fst t)) as [Hp|Hn]; auto. exfalso. exact (Z t It Hn Q2). }
    apply Z.eqb_neq in C1.
    destruct (pb_pass a lvl (slack a ts card) ts) as [ps a1] eqn:PP.
    destruct (pb_pass_spec _ _ _ _ _ _ PP) as [E1 [L1 [Q _]]].
    assert (T : forall l, In l ps -> sat_clause m (l :: false_lits a (map snd ts)) = true).
    { intros l Hl. destruct (Q l Hl) as [t [It [<- [Ut Wt]]]]. apply (slack_reason a ts card t); auto. }
    destruct ps as [|p ps].
    { injection H as <- <- <-. split; [discriminate|]. intros ps' E. injection E as <-. intros l []. }
    destruct (simplify_pb f a1 lvl ts card) as [[o2 a2] u2] eqn:R.
    injection H as <- <- <-.
    pose proof (pb_wf_le _ _ _ L1 W) as W1.
    destruct (simplify_pb_sound _ _ _ _ _ _ _ _ L W1 R) as [L2 _].
    destruct (IH _ _ _ _ _ _ _ L W1 R m S) as [IC IP]. split.
    + intros E. apply IC. destruct o2; simpl in E; try discriminate. reflexivity.
    + intros qs E. apply oapp_props in E. destruct E as [r [-> ->]]. intros l Hl.
      apply in_app_or in Hl. destruct Hl as [Hl|Hl]; [|apply (IP r eq_refl l Hl)].
      apply (reason_mono a a2); [eapply a_le_trans; eauto|]. apply T. exact Hl.
Qed.

(* with a zero weight the "reason" of a literal pushed by propagateAll is
   not implied: 2 x1 + 2 x2 + 0 x3 >= 2, x1 false, m = x2 only *)
Theorem simplify_pb_reason_zero_refuted :
  exists a lvl ts card ps a' u l m,
    nonneg_terms ts = true /\ simplifyPseudoBool a lvl ts card = (Props ps, a', u) /\ In l ps /\
    sat_pbc m (PBC ts card) = true /\ sat_clause m (l :: false_lits a' (map snd ts)) = false.
Proof.
  exists ex_zero_a, 2, ex_zero_ts, 2, [2; 3], [-1; 2; 2], false, 3, ex_zero_m.
  split; [reflexivity|split; [reflexivity|split; [simpl; auto|split; reflexivity]]].
Qed.


(* ------------------------------------------------------------------ *)
(* Watched literals                                                     *)


Lemma count_none : forall st a ls, (forall l, In l ls -> lit_status a l <> st) -> count_st st a ls = 0.
Proof.
  induction ls as [|l ls IH]; intros H; [reflexivity|]. cbn [count_st].
  rewrite IH by (intros x Hx; apply H; right; exact Hx).
  destruct (lstatus_eqb (lit_status a l) st) eqn:E; [|reflexivity].
  apply lstatus_eqb_eq in E. exfalso. apply (H l); auto. left. reflexivity.
Qed.

Lemma none_false_firstn_count : forall a n ls, (n <= length ls)%nat ->
  none_false a (firstn n ls) ->
  Z.of_nat n <= count_st LSat a ls + count_st LIndet a ls.
Proof.
  intros a n ls L H.
  replace (count_st LSat a ls) with (count_st LSat a (firstn n ls ++ skipn n ls))
    by (rewrite firstn_skipn; reflexivity).
  replace (count_st LIndet a ls) with (count_st LIndet a (firstn n ls ++ skipn n ls))
    by (rewrite firstn_skipn; reflexivity).
  rewrite !count_st_app.
  pose proof (count_split a (firstn n ls)) as CS. rewrite firstn_length_le in CS by exact L.
  rewrite (count_none LUnsat a (firstn n ls) H) in CS.
  pose proof (count_st_nonneg LSat a (skipn n ls)). pose proof (count_st_nonneg LIndet a (skipn n ls)). lia.
Qed.

Lemma select_all_false : forall A B (l : list A) (k : list B), select (map (fun _ => false) l) k = [].
Proof. induction l as [|x l IH]; intros [|y k]; simpl; auto. Qed.

Lemma select_map : forall A B (f : A -> B) fl l, select fl (map f l) = map f (select fl l).
Proof.
  induction fl as [|b fl IH]; intros [|x l]; simpl; auto; destruct b; simpl; auto. f_equal. apply IH.
Qed.

Lemma watch_pb_go_sum : forall goal ts sum, nonneg_terms ts = true ->
  goal <= sum + wall ts -> goal <= sum + wall (select (watch_pb_go goal sum ts) ts).
Proof.
  intros goal. induction ts as [|t ts IH]; intros sum N H; [exact H|].
  apply nonneg_cons in N. destruct N as [N1 N2]. cbn [watch_pb_go].
  destruct (sum <? goal) eqn:C.
  - cbn [select]. unfold wall in *. cbn [wsum] in *.
    assert (H' : goal <= sum + fst t + wsum (fun _ : lit => true) ts) by lia.
    specialize (IH (sum + fst t) N2 H'). rewrite Z.add_assoc. exact IH.
  - apply Z.ltb_ge in C. rewrite select_all_false. unfold wall. simpl. lia.
Qed.

Lemma wsum_select_le : forall a fl ts, nonneg_terms ts = true ->
  (forall l, In l (select fl (map snd ts)) -> non_false a l = true) ->
  wall (select fl ts) <= wsum (non_false a) ts.
Proof.
  intros a. induction fl as [|b fl IH]; intros ts N H.
  - simpl. apply wsum_nonneg. exact N.
  - destruct ts as [|t ts]; [destruct b; unfold wall; simpl; lia|].
    apply nonneg_cons in N. destruct N as [N1 N2]. unfold wall in *.
    destruct b; cbn [select wsum map] in *.
    + rewrite (H (snd t) (or_introl eq_refl)).
      specialize (IH ts N2 (fun l Hl => H l (or_intror Hl))). lia.
    + specialize (IH ts N2 H). destruct (non_false a (snd t)); lia.
Qed.


Lemma c_kind_cases : forall c,
  (c_kind c = KPB /\ c_pb c = true) \/
  (c_kind c = KCard /\ c_pb c = false /\ 1 < c_card c) \/
  (c_kind c = KClause /\ c_pb c = false /\ c_card c <= 1).
Proof.
  intros c. unfold c_kind. destruct (c_pb c); [left; auto|right].
  destruct (1 <? c_card c) eqn:E; [left; apply Z.ltb_lt in E|right; apply Z.ltb_ge in E]; auto.
Qed.

Lemma c_terms_nonpb : forall c, c_pb c = false -> c_terms c = unit_terms (c_lits c).
Proof. intros c H. unfold c_terms. rewrite H. reflexivity. Qed.

Lemma c_terms_lits : forall c, map snd (c_terms c) = c_lits c.
Proof.
  intros c. unfold c_terms. destruct (c_pb c); [reflexivity|apply map_snd_unit_terms].
Qed.

(* C02_watch_invariant: as long as none of the watched literals is false the
   constraint is neither conflicting nor propagating *)
Theorem watch_invariant : forall a c, watch_wf c -> none_false a (watched_lits c) ->
  ~ conflicting a c /\ ~ propagating a c.
Proof.
  intros a c W H. unfold watch_wf, watched_lits in *. unfold conflicting, propagating.
  destruct (c_kind_cases c) as [[K P]|[[K [P C]]|[K [P C]]]]; rewrite K in *.
  - destruct W as [N [HM G]]. rewrite <- c_terms_lits in H.
    set (ts := c_terms c) in *. set (card := c_card c) in *.
    assert (S : pb_goal ts card <= wsum (non_false a) ts).
    { unfold watch_pb in H.
      pose proof (watch_pb_go_sum (pb_goal ts card) ts 0 N ltac:(lia)) as S1.
      pose proof (wsum_select_le a _ ts N (fun l Hl => proj2 (non_false_true a l) (H l Hl))) as S2. lia. }
    unfold slack. unfold pb_goal in S. destruct ts as [|t0 ts'] eqn:Ets.
    + simpl in *. split; [lia|]. intros [t [[] _]].
    + pose proof (nonneg_in _ _ N (or_introl eq_refl)) as P0. split; [lia|].
      intros [t [It [_ St]]]. simpl in HM. specialize (HM t It). lia.
  - rewrite (c_terms_nonpb c P). apply quiet_counts. right.
    pose proof (none_false_firstn_count a (Z.to_nat (c_card c + 1)) (c_lits c) ltac:(lia) H). lia.
  - rewrite (c_terms_nonpb c P). apply quiet_counts. right.
    pose proof (none_false_firstn_count a 2 (c_lits c) W H). lia.
Qed.

(* the goal of watchPB cannot be reached: everything is watched, nothing is
   false, and both literals are implied.  3 x1 + 2 x2 >= 4. *)
Theorem watch_invariant_pb_goal_refuted :
  exists a c, c_kind c = KPB /\ nonneg_terms (c_terms c) = true /\ head_maxb (c_terms c) = true /\
    none_falseb a (watched_lits c) = true /\ propagatingb a c = true.
Proof. exists [0; 0], (mk_pb [(3, 1); (2, 2)] 4). repeat split. Qed.

(* the first weight is not the largest (after removeLit): 1 x1 + 2 x2 + 2 x3 >= 2
   watches x1 and x2; x3 false leaves slack 1 < 2 *)
Theorem watch_invariant_pb_unsorted_refuted :
  exists a c, c_kind c = KPB /\ nonneg_terms (c_terms c) = true /\
    pb_goal (c_terms c) (c_card c) <=? wall (c_terms c) = true /\
    none_falseb a (watched_lits c) = true /\ propagatingb a c = true /\ conflictingb a c = false.
Proof. exists [0; 0; -1], (mk_pb [(1, 1); (2, 2); (2, 3)] 2). repeat split. Qed.

(* ------------------------------------------------------------------ *)
(* updateWatchPB                                                        *)

Lemma update_watch_go_spec : forall a card ts ww, nonneg_terms ts = true ->
  length (update_watch_go a card ww ts) = length ts /\
  (forall l, In l (select (update_watch_go a card ww ts) (map snd ts)) -> non_false a l = true) /\
  (card < ww + wsum (non_false a) ts ->
   card < ww + wall (select (update_watch_go a card ww ts) ts)).
Proof.
  intros a card. induction ts as [|t ts IH]; intros ww N.
  - simpl. split; [reflexivity|split; [intros l []|auto]].
  - apply nonneg_cons in N. destruct N as [N1 N2]. cbn [update_watch_go].
    destruct (ww <=? card) eqn:C.
    + destruct (is_unsat a (snd t)) eqn:U.
      * destruct (IH ww N2) as [I1 [I2 I3]]. cbn [length select map wsum].
        split; [rewrite I1; reflexivity|split; [exact I2|]].
        unfold non_false. rewrite U. simpl. exact I3.
      * destruct (IH (ww + fst t) N2) as [I1 [I2 I3]]. cbn [length select map wsum].
        split; [rewrite I1; reflexivity|split].
        -- intros l [<-|Hl]; [unfold non_false; rewrite U; reflexivity|apply I2; exact Hl].
        -- unfold non_false, wall in *. rewrite U. cbn [negb wsum]. intros H.
           specialize (I3 ltac:(lia)). lia.
    + apply Z.leb_gt in C. rewrite map_length. split; [reflexivity|].
      rewrite !select_all_false. split; [intros l []|]. intros _. unfold wall. simpl. lia.
Qed.


Theorem update_watch_pb_inv : forall a ts card, nonneg_terms ts = true ->
  0 < slack a ts card -> pb_watch_inv a (update_watch_pb a ts card) ts card.
Proof.
  intros a ts card N S. unfold update_watch_pb, pb_watch_inv.
  destruct (update_watch_go_spec a card ts 0 N) as [I1 [I2 I3]].
  split; [exact I1|split].
  - intros l Hl. apply non_false_true. apply I2. exact Hl.
  - unfold slack in S. specialize (I3 ltac:(lia)). lia.
Qed.

(* it makes conflict detection complete: whatever happens to the other
   literals, the constraint cannot be violated before a watched one is false *)
Theorem pb_watch_conflict_complete : forall fl ts card a', nonneg_terms ts = true ->
  card < wall (select fl ts) -> none_false a' (select fl (map snd ts)) ->
  0 < slack a' ts card.
Proof.
  intros fl ts card a' N S H. unfold slack.
  pose proof (wsum_select_le a' fl ts N (fun l Hl => proj2 (non_false_true a' l) (H l Hl))). lia.
Qed.

(* simplifyPseudoBool calls updateWatchPB only with a positive slack *)
Lemma simplify_pb_u : forall fuel a lvl ts card o a', nonneg_terms ts = true ->
  simplify_pb fuel a lvl ts card = (o, a', true) -> 0 < slack a' ts card.
Proof.
  induction fuel as [|f IH]; intros a lvl ts card o a' N H; simpl in H; [discriminate|].
  destruct (slack_sum a ts card) as [sl sat] eqn:SS.
  destruct (slack_sum_spec _ _ _ _ _ N SS) as [SF _].
  destruct sat; [discriminate|]. specialize (SF eq_refl). subst sl.
  destruct (slack a ts card <? 0) eqn:C0; [discriminate|]. apply Z.ltb_ge in C0.
  destruct (slack a ts card =? 0) eqn:C1.
  { destruct (prop_unbound a lvl (map snd ts)); discriminate. }
  apply Z.eqb_neq in C1.
  destruct (pb_pass a lvl (slack a ts card) ts) as [ps a1] eqn:PP.
  destruct (pb_pass_spec _ _ _ _ _ _ PP) as [E1 _].
  destruct ps as [|p ps].
  - injection H as _ <-. simpl in E1. subst a1. lia.
  - destruct (simplify_pb f a1 lvl ts card) as [[o2 a2] u2] eqn:R.
    injection H as _ <- ->. apply (IH _ _ _ _ _ _ N R).
Qed.

Theorem simplify_pb_watch_step : forall fuel a lvl ts card o a', nonneg_terms ts = true ->
  simplify_pb fuel a lvl ts card = (o, a', true) ->
  pb_watch_inv a' (update_watch_pb a' ts card) ts card.
Proof.
  intros. apply update_watch_pb_inv; auto. eapply simplify_pb_u; eauto.
Qed.

(* but NOT unit propagation: 2 x1 + 2 x2 + x3 + x4 >= 2 (sorted).  x1 false:
   no unit, updateWatchPB keeps x2, x3.  Then x4 (not watched) becomes false:
   x2 is implied and no watched literal is false. *)
Theorem update_watch_pb_unit_refuted :
  exists a a' ts card,
    nonneg_terms ts = true /\ head_max ts /\
    simplifyPseudoBool a 2 ts card = (Props [], a, true) /\
    a_le a a' /\
    none_falseb a' (select (update_watch_pb a ts card) (map snd ts)) = true /\
    propagatingb a' (mk_pb ts card) = true.
Proof.
  exists ex_upd_a, ex_upd_a', ex_upd_ts, 2.
  split; [reflexivity|split; [|split; [reflexivity|split; [|split; reflexivity]]]].
  - simpl. intros u [<-|[<-|[<-|[<-|[]]]]]; simpl; lia.
  - intros [|[|[|[|i]]]]; simpl; try (split; lia).
Qed.


(* ------------------------------------------------------------------ *)
(* pushed literals are true afterwards                                  *)

Lemma status_neg : forall a l, l <> 0 -> lit_status a l = LSat -> lit_status a (- l) = LUnsat.
Proof.
  intros a l N S.
  destruct (lit_status_cases a l) as [[H1 _]|[[_ [H2 H3]]|[H1 _]]]; try congruence.
  assert (E : aget a (- l) = aget a l) by (unfold aget, vidx; rewrite Z.abs_opp; reflexivity).
  destruct (lit_status_cases a (- l)) as [[_ K]|[[_ [K2 K3]]|[K _]]]; auto; rewrite E in *.
  - contradiction.
  - exfalso. lia.
Qed.

Lemma prop_unbound_sat : forall ls a lvl ps a', 0 < lvl -> in_range a ls ->
  prop_unbound a lvl ls = (ps, a') -> forall l, In l ps -> lit_status a' l = LSat.
Proof.
  induction ls as [|x ls IH]; intros a lvl ps a' L R H l Hl; simpl in H.
  - injection H as <- <-. destruct Hl.
  - destruct (is_indet a x) eqn:U.
    + destruct (prop_unbound (assign a lvl x) lvl ls) as [ps0 a0] eqn:R0. injection H as <- <-.
      assert (R1 : in_range (assign a lvl x) ls).
      { intros y Hy. rewrite assign_length. apply R. right. exact Hy. }
      destruct Hl as [<-|Hl]; [|apply (IH _ _ _ _ L R1 R0 l Hl)].
      destruct (prop_unbound_spec _ _ _ _ _ R0) as [_ [L0 _]].
      apply (a_le_sat _ _ _ L0). apply status_assign_self; auto. apply R. left. reflexivity.
    + apply (IH _ _ _ _ L (fun y Hy => R y (or_intror Hy)) H l Hl).
Qed.

Lemma card_prop_sat : forall ls a lvl nbU ps a', 0 < lvl -> in_range a ls ->
  card_prop a lvl ls nbU = (Props ps, a') -> forall l, In l ps -> lit_status a' l = LSat.
Proof.
  induction ls as [|x ls IH]; intros a lvl nbU ps a' L R H l Hl; simpl in H.
  - destruct (nbU <=? 0); [injection H as <- <-; destruct Hl|discriminate].
  - destruct (nbU <=? 0); [injection H as <- <-; destruct Hl|].
    destruct (aget a x =? 0) eqn:G.
    + destruct (card_prop (assign a lvl x) lvl ls (nbU - 1)) as [o0 a0] eqn:R0.
      injection H as Ho <-. apply ocons_props in Ho. destruct Ho as [ps' [-> ->]].
      assert (R1 : in_range (assign a lvl x) ls).
      { intros y Hy. rewrite assign_length. apply R. right. exact Hy. }
      destruct Hl as [<-|Hl]; [|apply (IH _ _ _ _ _ L R1 R0 l Hl)].
      destruct (card_prop_spec _ _ _ _ _ _ R0) as [L0 _].
      apply (a_le_sat _ _ _ L0). apply status_assign_self; auto. apply R. left. reflexivity.
    + apply (IH _ _ _ _ _ L (fun y Hy => R y (or_intror Hy)) H l Hl).
Qed.

Lemma pb_pass_sat : forall ts a lvl sl ps a', 0 < lvl -> in_range a (map snd ts) ->
  pb_pass a lvl sl ts = (ps, a') -> forall l, In l ps -> lit_status a' l = LSat.
Proof.
  induction ts as [|t ts IH]; intros a lvl sl ps a' L R H l Hl; simpl in H.
  - injection H as <- <-. destruct Hl.
  - destruct (is_indet a (snd t) && (sl <? fst t)).
    + destruct (pb_pass (assign a lvl (snd t)) lvl sl ts) as [ps0 a0] eqn:R0. injection H as <- <-.
      assert (R1 : in_range (assign a lvl (snd t)) (map snd ts)).
      { intros y Hy. rewrite assign_length. apply R. right. exact Hy. }
      destruct Hl as [<-|Hl]; [|apply (IH _ _ _ _ _ L R1 R0 l Hl)].
      destruct (pb_pass_spec _ _ _ _ _ _ R0) as [_ [L0 _]].
      apply (a_le_sat _ _ _ L0). apply status_assign_self; auto. apply R. left. reflexivity.
    + apply (IH _ _ _ _ _ L (fun y Hy => R y (or_intror Hy)) H l Hl).
Qed.

(* the a_le part of simplify_pb without any hypothesis *)
Lemma simplify_pb_le : forall fuel a lvl ts card o a' u,
  simplify_pb fuel a lvl ts card = (o, a', u) -> a_le a a' /\ length a' = length a.
Proof.
  induction fuel as [|f IH]; intros a lvl ts card o a' u H; simpl in H.
  - injection H as _ <- _. split; [apply a_le_refl|reflexivity].
  - destruct (slack_sum a ts card) as [sl sat].
    destruct sat; [injection H as _ <- _; split; [apply a_le_refl|reflexivity]|].
    destruct (sl <? 0); [injection H as _ <- _; split; [apply a_le_refl|reflexivity]|].
    destruct (sl =? 0).
    { destruct (prop_unbound a lvl (map snd ts)) as [ps a3] eqn:PU. injection H as _ <- _.
      destruct (prop_unbound_spec _ _ _ _ _ PU) as [E [L _]].
      split; [exact L|rewrite E; apply assign_all_length]. }
    destruct (pb_pass a lvl sl ts) as [ps a3] eqn:PP.
    destruct (pb_pass_spec _ _ _ _ _ _ PP) as [E [L3 _]].
    destruct ps as [|p0 ps]; [injection H as _ <- _; split; [exact L3|rewrite E; reflexivity]|].
    destruct (simplify_pb f a3 lvl ts card) as [[o4 a4] u4] eqn:R4. injection H as _ <- _.
    destruct (IH _ _ _ _ _ _ _ R4) as [L4 Len].
    split; [eapply a_le_trans; eauto|rewrite Len, E; apply assign_all_length].
Qed.

Lemma simplify_pb_sat : forall fuel a lvl ts card ps a' u, 0 < lvl -> in_range a (map snd ts) ->
  simplify_pb fuel a lvl ts card = (Props ps, a', u) ->
  length a' = length a /\ forall l, In l ps -> In l (map snd ts) /\ lit_status a' l = LSat.
Proof.
  induction fuel as [|f IH]; intros a lvl ts card ps a' u L R H; simpl in H; [discriminate|].
  destruct (slack_sum a ts card) as [sl sat].
  destruct sat; [injection H as <- <- <-; split; [reflexivity|intros l []]|].
  destruct (sl <? 0); [discriminate|].
  destruct (sl =? 0).
  { destruct (prop_unbound a lvl (map snd ts)) as [ps1 a1] eqn:PU. injection H as <- <- <-.
    destruct (prop_unbound_spec _ _ _ _ _ PU) as [E1 [_ Q]].
    split; [rewrite E1; apply assign_all_length|]. intros l Hl.
    split; [apply (Q l Hl)|apply (prop_unbound_sat _ _ _ _ _ L R PU l Hl)]. }
  destruct (pb_pass a lvl sl ts) as [ps1 a1] eqn:PP.
  destruct (pb_pass_spec _ _ _ _ _ _ PP) as [E1 [L1 [Q _]]].
  destruct ps1 as [|p ps1]; [injection H as <- <- <-; split; [rewrite E1; reflexivity|intros l []]|].
  destruct (simplify_pb f a1 lvl ts card) as [[o2 a2] u2] eqn:R2.
  injection H as Ho <- <-. apply oapp_props in Ho. destruct Ho as [r [-> ->]].
  assert (R1 : in_range a1 (map snd ts)).
  { intros x Hx. rewrite E1, assign_all_length. apply R. exact Hx. }
  destruct (IH _ _ _ _ _ _ _ L R1 R2) as [Len I2].
  split; [rewrite Len, E1; apply assign_all_length|].
  intros l Hl. apply in_app_or in Hl. destruct Hl as [Hl|Hl]; [|apply I2; exact Hl].
  split.
  - destruct (Q l Hl) as [t [It [<- _]]]. apply in_map. exact It.
  - destruct (simplify_pb_le _ _ _ _ _ _ _ _ R2) as [La _].
    apply (a_le_sat _ _ _ La). apply (pb_pass_sat _ _ _ _ _ _ L R PP l Hl).
Qed.

Lemma simplify_card_sat : forall a lvl ls card ps a' ls', 0 < lvl -> in_range a ls ->
  simplify_card a lvl ls card = (Props ps, a', ls') ->
  forall l, In l ps -> lit_status a' l = LSat.
Proof.
  intros a lvl ls card ps a' ls' L R H l Hl. unfold simplify_card in H.
  destruct (card_count a (Z.of_nat (length ls)) card ls 0 0 0) as [| |t u].
  - injection H as <- _ _. destruct Hl.
  - discriminate.
  - destruct (u + t =? card).
    + destruct (card_prop a lvl ls u) as [o0 a0] eqn:R0. injection H as -> <- _.
      apply (card_prop_sat _ _ _ _ _ _ L R R0 l Hl).
    + destruct (swap_false a card ls); [injection H as <- _ _; destruct Hl|discriminate].
Qed.


(* ------------------------------------------------------------------ *)
(* propagate never loses a model                                        *)




Lemma lits_ok_range : forall a ls, lits_ok a ls -> in_range a ls.
Proof. intros a ls H l Hl. apply (H l Hl). Qed.

Lemma wc_ok_le : forall a a' w, a_le a a' -> length a' = length a -> wc_ok a w -> wc_ok a' w.
Proof.
  intros a a' w L E [O K]. split.
  - intros l Hl. rewrite E. apply (O l Hl).
  - destruct (c_kind (w_c w)); auto. eapply pb_wf_le; eauto.
Qed.

Lemma lhs_unit_perm : forall m l1 l2, Permutation l1 l2 -> lhs m (unit_terms l1) = lhs m (unit_terms l2).
Proof. intros m l1 l2 P. induction P; simpl; lia. Qed.

Lemma set_lits_props : forall c ls,
  c_pb (set_lits c ls) = c_pb c /\ c_card (set_lits c ls) = c_card c /\
  c_kind (set_lits c ls) = c_kind c /\ c_lits (set_lits c ls) = ls.
Proof.
  intros c ls. unfold set_lits, c_kind, c_card, c_lits. simpl.
  rewrite map_snd_unit_terms. auto.
Qed.

Lemma set_lits_meaning : forall c ls m, c_pb c = false -> Permutation (c_lits c) ls ->
  sat_pbc m (c_pbc (set_lits c ls)) = sat_pbc m (c_pbc c).
Proof.
  intros c ls m P Pm. destruct (set_lits_props c ls) as [E1 [E2 [_ E4]]].
  unfold c_pbc, sat_pbc. simpl. rewrite E2.
  rewrite !c_terms_nonpb by congruence. rewrite E4.
  rewrite (lhs_unit_perm m _ _ Pm). reflexivity.
Qed.

Lemma lits_ok_perm : forall a l1 l2, Permutation l1 l2 -> lits_ok a l1 -> lits_ok a l2.
Proof. intros a l1 l2 P H l Hl. apply H. eapply Permutation_in; [apply Permutation_sym; exact P|exact Hl]. Qed.

Lemma assign_all_one : forall a lvl l, assign_all a lvl [l] = assign a lvl l.
Proof. reflexivity. Qed.

Lemma existsb_neg_in : forall x ls, existsb (Z.eqb x) ls = true -> In x ls.
Proof.
  intros x ls H. apply existsb_exists in H. destruct H as [y [Hy E]]. apply Z.eqb_eq in E. subst. exact Hy.
Qed.


Lemma clause_meaning : forall c m, c_pb c = false -> c_card c = 1 ->
  sat_pbc m (c_pbc c) = sat_clause m (c_lits c).
Proof.
  intros c m P K. rewrite sat_clause_unit_pbc. unfold c_pbc. rewrite K, (c_terms_nonpb c P). reflexivity.
Qed.

Lemma clause_meaning_w : forall w m, c_pb (w_c w) = false -> c_card (w_c w) = 1 ->
  sat_pbc m (c_pbc (w_c w)) = sat_clause m (w_lits w).
Proof. intros. apply clause_meaning; auto. Qed.

Lemma examine_long_sound : forall a lvl tl w w' o a', 0 < lvl -> wc_ok a w ->
  c_kind (w_c w) = KClause -> lit_status a (- tl) = LUnsat -> watches w tl = true ->
  examine_long a lvl tl w (w_lits w) = (w', o, a') -> ex_post a w w' o a'.
Proof.
  intros a lvl tl w w' o a' L [O K] KC U Wt H. rewrite KC in K.
  destruct (c_kind_cases (w_c w)) as [[K1 _]|[[K1 _]|[_ [P _]]]]; try congruence.
  unfold watches in Wt. rewrite KC in Wt. apply existsb_neg_in in Wt.
  unfold examine_long in H.
  set (other := if nth 0 (w_lits w) 0 =? - tl then w_other0 w else w_other1 w) in *.
  destruct (clause_step_rule a tl other (w_lits w) Wt U) as [RC [RP Pm]].
  destruct (clause_step_sound a tl other (w_lits w) Wt U) as [_ [_ [Pr _]]].
  set (st := clause_step a tl other (w_lits w)) in *.
  injection H as Hw Ho Ha.
  assert (Wok : forall a2, length a2 = length a -> wc_ok a2 w' /\
            forall m, sat_pbc m (c_pbc (w_c w')) = sat_pbc m (c_pbc (w_c w))).
  { intros a2 E2. subst w'. destruct (is_sat a other).
    - split; [|reflexivity]. split; [intros l Hl; rewrite E2; apply (O l Hl)|rewrite KC; exact K].
    - destruct (set_lits_props (w_c w) (cs_lits st)) as [E1 [E2' [E3 E4]]]. split.
      + split; unfold w_lits; simpl.
        * rewrite E4. intros l Hl. rewrite E2. apply (lits_ok_perm a _ _ Pm O l Hl).
        * rewrite E3, KC, E2'. exact K.
      + intros m. simpl. apply set_lits_meaning; auto. }
  unfold ex_post. subst o.
  destruct (cs_out st) as [|ps| |] eqn:EO.
  - subst a'. destruct (Wok a eq_refl) as [W1 W2].
    split; [apply a_le_refl|split; [reflexivity|split; [exact W1|split; [exact W2|split; [discriminate|]]]]].
    intros m E S. exfalso. rewrite clause_meaning_w in S by auto. rewrite (RC eq_refl m E) in S. discriminate.
  - destruct (Pr ps eq_refl) as [->|[l [-> [I [Ul _]]]]].
    + simpl in Ha. subst a'. destruct (Wok a eq_refl) as [W1 W2].
      split; [apply a_le_refl|split; [reflexivity|split; [exact W1|split; [exact W2|split]]]].
      * intros ps E. injection E as <-. intros l [].
      * intros m E S. split; [discriminate|]. intros; exact E.
    + rewrite assign_all_one in Ha. subst a'.
      destruct (Wok (assign a lvl l) (assign_length _ _ _)) as [W1 W2].
      split; [apply a_le_assign; exact Ul|split; [apply assign_length|split; [exact W1|split; [exact W2|split]]]].
      * intros ps E. injection E as <-. intros x [<-|[]]. destruct (O l I) as [O1 O2].
        split; [exact O1|apply status_assign_self; auto].
      * intros m E S. split; [discriminate|]. intros _ _. apply ext_assign; auto.
        rewrite clause_meaning_w in S by auto.
        apply (RP [l] l eq_refl (or_introl eq_refl)); auto.
  - subst a'. destruct (Wok a eq_refl) as [W1 W2].
    split; [apply a_le_refl|split; [reflexivity|split; [exact W1|split; [exact W2|split; [discriminate|]]]]].
    intros m E S. split; discriminate.
  - subst a'. destruct (Wok a eq_refl) as [W1 W2].
    split; [apply a_le_refl|split; [reflexivity|split; [exact W1|split; [exact W2|split; [discriminate|]]]]].
    intros m E S. split; discriminate.
Qed.

Lemma examine_bin_sound : forall a lvl tl w x y w' o a', 0 < lvl -> wc_ok a w ->
  c_kind (w_c w) = KClause -> w_lits w = [x; y] ->
  lit_status a (- tl) = LUnsat -> watches w tl = true ->
  examine_bin a lvl tl w x y = (w', o, a') -> ex_post a w w' o a'.
Proof.
  intros a lvl tl w x y w' o a' L [O K] KC El U Wt H. rewrite KC in K.
  destruct (c_kind_cases (w_c w)) as [[K1 _]|[[K1 _]|[_ [P _]]]]; try congruence.
  unfold watches in Wt. rewrite KC, El in Wt. apply existsb_neg_in in Wt.
  unfold examine_bin in H.
  assert (Hsel : exists other, (if x =? - tl then y else x) = other /\ In other [x; y] /\
            forall m, extends m a -> sat_clause m [x; y] = lit_val m other).
  { destruct (x =? - tl) eqn:E.
    - apply Z.eqb_eq in E. exists y. split; [reflexivity|split; [simpl; auto|]].
      intros m Em. unfold sat_clause. simpl. rewrite E, (ext_unsat _ _ _ Em U). simpl.
      apply orb_false_r.
    - apply Z.eqb_neq in E. exists x. split; [reflexivity|split; [simpl; auto|]].
      assert (Ey : y = - tl) by (simpl in Wt; destruct Wt as [W|[W|[]]]; congruence).
      intros m Em. unfold sat_clause. simpl. rewrite Ey, (ext_unsat _ _ _ Em U). simpl.
      apply orb_false_r. }
  destruct Hsel as [other [Eo [Io Sem]]]. rewrite <- El in Io. rewrite Eo in H.
  injection H as <- Ho Ha. unfold bin_step in Ho, Ha.
  assert (W0 : forall a2, length a2 = length a -> wc_ok a2 w).
  { intros a2 E2. split; [intros l Hl; rewrite E2; apply (O l Hl)|rewrite KC; exact K]. }
  unfold ex_post. destruct (lit_status a other) eqn:So; subst o; try rewrite So in Ha; lazy beta iota in Ha.
  - rewrite assign_all_one in Ha. subst a'. destruct (O other Io) as [O1 O2].
    split; [apply a_le_assign; exact So|split; [apply assign_length|split; [apply W0, assign_length|]]].
    split; [reflexivity|split].
    + intros ps E. injection E as <-. intros l [<-|[]]. split; [exact O1|apply status_assign_self; auto].
    + intros m E S. split; [discriminate|]. intros _ _. apply ext_assign; auto.
      rewrite clause_meaning in S by auto. unfold w_lits in El. rewrite El, (Sem m E) in S. exact S.
  - simpl in Ha. subst a'.
    split; [apply a_le_refl|split; [reflexivity|split; [apply W0; reflexivity|split; [reflexivity|split]]]].
    + intros ps E. injection E as <-. intros l [].
    + intros m E S. split; [discriminate|]. intros; exact E.
  - subst a'.
    split; [apply a_le_refl|split; [reflexivity|split; [apply W0; reflexivity|split; [reflexivity|split; [discriminate|]]]]].
    intros m E S. exfalso. rewrite clause_meaning in S by auto. unfold w_lits in El.
    rewrite El, (Sem m E), (ext_unsat _ _ _ E So) in S. discriminate.
Qed.

Theorem examine_sound : forall a lvl tl w w' o a', 0 < lvl -> wc_ok a w ->
  lit_status a (- tl) = LUnsat -> watches w tl = true ->
  examine a lvl tl w = (w', o, a') -> ex_post a w w' o a'.
Proof.
  intros a lvl tl w w' o a' L Wk U Wt H. unfold examine in H.
  destruct (c_kind (w_c w)) eqn:KC.
  - (* clause *)
    assert (G : examine_long a lvl tl w (w_lits w) = (w', o, a') -> ex_post a w w' o a')
      by (apply examine_long_sound; auto).
    unfold w_lits in G.
    destruct (c_lits (w_c w)) as [|x [|y [|z r]]] eqn:El; auto.
    eapply examine_bin_sound; eauto.
  - (* cardinality *)
    destruct Wk as [O _].
    destruct (c_kind_cases (w_c w)) as [[K1 _]|[[_ [P _]]|[K1 _]]]; try congruence.
    destruct (simplify_card a lvl (c_lits (w_c w)) (c_card (w_c w))) as [[o1 a1] ls'] eqn:SC.
    injection H as <- <- <-.
    destruct (simplify_card_sound _ _ _ _ _ _ _ SC) as [SCf [SPr [SLe SPm]]].
    assert (Len : length a1 = length a).
    { unfold simplify_card in SC.
      destruct (card_count a _ _ _ 0 0 0) as [| |t u]; try (injection SC as _ <- _; reflexivity).
      destruct (u + t =? c_card (w_c w)).
      - destruct (card_prop a lvl (c_lits (w_c w)) u) as [o0 a0] eqn:R. injection SC as _ <- _.
        clear -R. revert a u o0 a0 R. induction (c_lits (w_c w)) as [|l ls IH]; intros a u o0 a0 R; simpl in R.
        + destruct (u <=? 0); injection R as _ <-; reflexivity.
        + destruct (u <=? 0); [injection R as _ <-; reflexivity|].
          destruct (aget a l =? 0).
          * destruct (card_prop (assign a lvl l) lvl ls (u - 1)) as [o1 a1] eqn:R1. injection R as _ <-.
            rewrite (IH _ _ _ _ R1). apply assign_length.
          * apply (IH _ _ _ _ R).
      - destruct (swap_false a (c_card (w_c w)) (c_lits (w_c w))); injection SC as _ <- _; reflexivity. }
    destruct (set_lits_props (w_c w) ls') as [E1 [E2 [E3 E4]]].
    unfold ex_post. simpl.
    split; [exact SLe|split; [exact Len|split; [|split; [|split]]]].
    + split; unfold w_lits; simpl; [|rewrite E3, KC; exact I].
      rewrite E4. intros l Hl. rewrite Len. apply (lits_ok_perm a _ _ SPm O l Hl).
    + intros m. apply set_lits_meaning; auto.
    + intros ps E l Hl. subst o1. destruct (SPr ps eq_refl) as [_ Q]. destruct (Q l Hl) as [Q1 _].
      split; [apply (O l Q1)|]. apply (simplify_card_sat _ _ _ _ _ _ _ L (lits_ok_range _ _ O) SC l Hl).
    + intros m E S.
      assert (S' : sat_pbc m (card_pbc (c_lits (w_c w)) (c_card (w_c w))) = true).
      { unfold c_pbc in S. rewrite (c_terms_nonpb _ P) in S. exact S. }
      split.
      * intro X. rewrite (SCf X m E) in S'. discriminate.
      * intros ps Eo. destruct (SPr ps Eo) as [Ea Q]. rewrite Ea. apply ext_assign_all; auto.
        intros l Hl. destruct (Q l Hl) as [_ [_ [_ F]]]. apply F; auto.
  - (* pseudo-boolean *)
    destruct Wk as [O Wf]. rewrite KC in Wf.
    destruct (simplifyPseudoBool a lvl (c_terms (w_c w)) (c_card (w_c w))) as [[o1 a1] u] eqn:SP.
    injection H as <- <- <-. unfold simplifyPseudoBool in SP.
    destruct (simplify_pb_le _ _ _ _ _ _ _ _ SP) as [SLe Len].
    destruct (simplify_pb_sound _ _ _ _ _ _ _ _ L Wf SP) as [_ [_ Snd]].
    unfold ex_post. simpl.
    split; [exact SLe|split; [exact Len|split; [|split; [reflexivity|split]]]].
    + split; unfold w_lits; simpl.
      * intros l Hl. rewrite Len. apply (O l Hl).
      * rewrite KC. eapply pb_wf_le; eauto.
    + intros ps E l Hl. subst o1.
      assert (R : in_range a (map snd (c_terms (w_c w)))).
      { rewrite c_terms_lits. apply lits_ok_range. exact O. }
      destruct (simplify_pb_sat _ _ _ _ _ _ _ _ L R SP) as [_ Q]. destruct (Q l Hl) as [Q1 Q2].
      rewrite c_terms_lits in Q1. split; [apply (O l Q1)|exact Q2].
    + intros m E S. destruct (Snd m E S) as [NC [E' _]]. split; [exact NC|intros; exact E'].
Qed.



Lemma ws_ok_le : forall a a' ws, a_le a a' -> length a' = length a -> ws_ok a ws -> ws_ok a' ws.
Proof. intros a a' ws L E H w Hw. eapply wc_ok_le; eauto. Qed.

Lemma all_post_refl : forall a ws, ws_ok a ws -> all_post a ws ws (Props []) a.
Proof.
  intros a ws H. split; [apply a_le_refl|split; [reflexivity|split; [exact H|split; [auto|split]]]].
  - intros ps E. injection E as <-. intros l [].
  - intros m E S. split; [discriminate|intros; exact E].
Qed.

Lemma all_post_trans : forall a ws ws1 p1 a1 ws2 o2 a2,
  all_post a ws ws1 (Props p1) a1 -> all_post a1 ws1 ws2 o2 a2 ->
  all_post a ws ws2 (oapp p1 o2) a2.
Proof.
  intros a ws ws1 p1 a1 ws2 o2 a2 [L1 [E1 [K1 [S1 [T1 X1]]]]] [L2 [E2 [K2 [S2 [T2 X2]]]]].
  split; [eapply a_le_trans; eauto|split; [congruence|split; [exact K2|split; [auto|split]]]].
  - intros ps E l Hl. apply oapp_props in E. destruct E as [r [-> ->]].
    apply in_app_or in Hl. destruct Hl as [Hl|Hl]; [|apply (T2 r eq_refl l Hl)].
    destruct (T1 p1 eq_refl l Hl) as [N1 N2]. split; [exact N1|]. eapply a_le_sat; eauto.
  - intros m E S. destruct (X1 m E S) as [_ Y1]. specialize (Y1 p1 eq_refl).
    destruct (X2 m Y1 (S1 m S)) as [NC Y2]. split.
    + destruct o2; simpl; auto; discriminate.
    + intros ps Eo. apply oapp_props in Eo. destruct Eo as [r [-> _]]. apply (Y2 r eq_refl).
Qed.

Lemma examine_all_sound : forall sel ws a lvl tl ws' o a', 0 < lvl -> ws_ok a ws ->
  lit_status a (- tl) = LUnsat ->
  examine_all sel a lvl tl ws = (ws', o, a') -> all_post a ws ws' o a'.
Proof.
  intros sel. induction ws as [|w ws IH]; intros a lvl tl ws' o a' L K U H; simpl in H.
  - injection H as <- <- <-. apply all_post_refl. exact K.
  - assert (Kw : wc_ok a w) by (apply K; left; reflexivity).
    assert (Kr : ws_ok a ws) by (intros x Hx; apply K; right; exact Hx).
    destruct (sel w && watches w tl) eqn:C.
    + apply andb_true_iff in C. destruct C as [_ Wt].
      destruct (examine a lvl tl w) as [[w1 o1] a1] eqn:EX.
      destruct (examine_sound _ _ _ _ _ _ _ L Kw U Wt EX) as [L1 [E1 [K1 [M1 [T1 X1]]]]].
      assert (Kr1 : ws_ok a1 ws) by (eapply ws_ok_le; eauto).
      assert (Step : all_post a (w :: ws) (w1 :: ws) o1 a1).
      { split; [exact L1|split; [exact E1|split; [|split; [|split; [exact T1|]]]]].
        - intros x [<-|Hx]; auto.
        - intros m S x [<-|Hx]; [rewrite M1; apply S; left; reflexivity|apply S; right; exact Hx].
        - intros m E S. apply (X1 m E). apply S. left. reflexivity. }
      destruct o1 as [|ps| |]; try (injection H as <- <- <-; exact Step).
      destruct (examine_all sel a1 lvl tl ws) as [[r' o'] a''] eqn:R. injection H as <- <- <-.
      assert (U1 : lit_status a1 (- tl) = LUnsat) by (eapply a_le_unsat; eauto).
      pose proof (IH _ _ _ _ _ _ L Kr1 U1 R) as [L2 [E2 [K2 [S2 [T2 X2]]]]].
      eapply all_post_trans; [exact Step|].
      split; [exact L2|split; [exact E2|split; [|split; [|split; [exact T2|]]]]].
      * intros x [<-|Hx]; [eapply wc_ok_le; eauto; apply Step|apply K2; exact Hx].
      * intros m S x [<-|Hx]; [apply S; left; reflexivity|].
        apply (S2 m (fun y Hy => S y (or_intror Hy)) x Hx).
      * intros m E S. apply (X2 m E). intros y Hy. apply S. right. exact Hy.
    + destruct (examine_all sel a lvl tl ws) as [[r' o'] a''] eqn:R. injection H as <- <- <-.
      pose proof (IH _ _ _ _ _ _ L Kr U R) as [L2 [E2 [K2 [S2 [T2 X2]]]]].
      split; [exact L2|split; [exact E2|split; [|split; [|split; [exact T2|]]]]].
      * intros x [<-|Hx]; [eapply wc_ok_le; eauto|apply K2; exact Hx].
      * intros m S x [<-|Hx]; [apply S; left; reflexivity|].
        apply (S2 m (fun y Hy => S y (or_intror Hy)) x Hx).
      * intros m E S. apply (X2 m E). intros y Hy. apply S. right. exact Hy.
Qed.

Lemma oapp_nil : forall o, oapp [] o = o.
Proof. intros []; reflexivity. Qed.

Lemma oapp_assoc : forall p q o, oapp (p ++ q) o = oapp p (oapp q o).
Proof. intros p q []; simpl; auto. rewrite app_assoc. reflexivity. Qed.

Lemma propagate_lit_sound : forall a lvl tl ws ws' o a', 0 < lvl -> ws_ok a ws ->
  lit_status a (- tl) = LUnsat ->
  propagate_lit a lvl tl ws = (ws', o, a') -> all_post a ws ws' o a'.
Proof.
  intros a lvl tl ws ws' o a' L K U H. unfold propagate_lit in H.
  destruct (examine_all is_bin a lvl tl ws) as [[ws1 o1] a1] eqn:R1.
  pose proof (examine_all_sound _ _ _ _ _ _ _ _ L K U R1) as P1.
  destruct o1 as [|p1| |]; try (injection H as <- <- <-; exact P1).
  destruct P1 as [L1 P1']. pose proof (conj L1 P1') as P1. destruct P1' as [E1 [K1 _]].
  assert (U1 : lit_status a1 (- tl) = LUnsat) by (eapply a_le_unsat; eauto).
  destruct (examine_all is_long a1 lvl tl ws1) as [[ws2 o2] a2] eqn:R2.
  pose proof (examine_all_sound _ _ _ _ _ _ _ _ L K1 U1 R2) as P2.
  pose proof (all_post_trans _ _ _ _ _ _ _ _ P1 P2) as P12.
  destruct o2 as [|p2| |]; try (injection H as <- <- <-; exact P12).
  destruct P2 as [L2 [E2 [K2 _]]].
  assert (U2 : lit_status a2 (- tl) = LUnsat) by (eapply a_le_unsat; eauto).
  destruct (examine_all is_pbcard a2 lvl tl ws2) as [[ws3 o3] a3] eqn:R3.
  pose proof (examine_all_sound _ _ _ _ _ _ _ _ L K2 U2 R3) as P3.
  injection H as <- <- <-. simpl in P12. apply (all_post_trans _ _ _ _ _ _ _ _ P12 P3).
Qed.

Lemma propagate_S : forall f a lvl tl rest ws,
  propagate (S f) a lvl (tl :: rest) ws =
  let '(ws', o, a') := propagate_lit a lvl tl ws in
  match o with
  | Props ps =>
    let '(ws'', o', a'') := propagate f a' lvl (rest ++ ps) ws' in (ws'', oapp ps o', a'')
  | _ => (ws', o, a')
  end.
Proof. reflexivity. Qed.

(* C02 for propagate: a conflict is reported only when no total extension of
   the assignment satisfies all the constraints; otherwise every satisfying
   extension agrees with all the literals that were pushed *)
Theorem propagate_sound : forall fuel a lvl todo ws ws' o a', 0 < lvl -> ws_ok a ws ->
  (forall l, In l todo -> lit_status a (- l) = LUnsat) ->
  propagate fuel a lvl todo ws = (ws', o, a') -> all_post a ws ws' o a'.
Proof.
  induction fuel as [|f IH]; intros a lvl todo ws ws' o a' L K T H.
  - simpl in H. injection H as <- <- <-. destruct (all_post_refl a ws K) as [A1 [A2 [A3 [A4 _]]]].
    split; [exact A1|split; [exact A2|split; [exact A3|split; [exact A4|split; [discriminate|]]]]].
    intros m E S. split; discriminate.
  - destruct todo as [|tl rest].
    + simpl in H. injection H as <- <- <-. apply all_post_refl. exact K.
    + rewrite propagate_S in H. destruct (propagate_lit a lvl tl ws) as [[ws1 o1] a1] eqn:R1.
      pose proof (propagate_lit_sound _ _ _ _ _ _ _ L K (T tl (or_introl eq_refl)) R1) as P1.
      destruct o1 as [|ps| |]; try (injection H as <- <- <-; exact P1).
      destruct (propagate f a1 lvl (@app lit rest ps) ws1) as [[ws2 o2] a2] eqn:R2.
      injection H as <- <- <-.
      destruct P1 as [L1 P1']. pose proof (conj L1 P1') as P1. destruct P1' as [E1 [K1 [_ [T1 _]]]].
      eapply all_post_trans; [exact P1|]. refine (IH _ _ _ _ _ _ _ L K1 _ R2).
      intros l Hl. apply in_app_or in Hl. destruct Hl as [Hl|Hl].
      * eapply a_le_unsat; [exact L1|]. apply T. right. exact Hl.
      * destruct (T1 ps eq_refl l Hl) as [N1 N2]. apply status_neg; auto.
Qed.

Corollary propagate_conflict : forall fuel a lvl todo ws ws' a', 0 < lvl -> ws_ok a ws ->
  (forall l, In l todo -> lit_status a (- l) = LUnsat) ->
  propagate fuel a lvl todo ws = (ws', Conflict, a') ->
  forall m, extends m a -> ~ ws_sat m ws.
Proof.
  intros fuel a lvl todo ws ws' a' L K T H m E S.
  destruct (propagate_sound _ _ _ _ _ _ _ _ L K T H) as [_ [_ [_ [_ [_ X]]]]].
  destruct (X m E S) as [NC _]. apply NC. reflexivity.
Qed.

Corollary unify_literal_sound : forall fuel a lvl tl ws ws' o a', 0 < lvl -> ws_ok a ws ->
  tl <> 0 -> (vidx tl < length a)%nat -> lit_status a tl = LIndet ->
  unify_literal fuel a lvl tl ws = (ws', o, a') ->
  forall m, extends m a -> lit_val m tl = true -> ws_sat m ws ->
    o <> Conflict /\ (forall ps, o = Props ps -> extends m a' /\ ws_sat m ws').
Proof.
  intros fuel a lvl tl ws ws' o a' L K N R U H m E V S. unfold unify_literal in H.
  assert (K1 : ws_ok (assign a lvl tl) ws).
  { apply (ws_ok_le a); [apply a_le_assign; exact U|apply assign_length|exact K]. }
  assert (T : forall l, In l [tl] -> lit_status (assign a lvl tl) (- l) = LUnsat).
  { intros l [<-|[]]. apply status_neg; auto. apply status_assign_self; auto. }
  destruct (propagate_sound _ _ _ _ _ _ _ _ L K1 T H) as [_ [_ [_ [S' [_ X]]]]].
  destruct (X m (ext_assign _ _ _ _ L E V) S) as [NC Y]. split; [exact NC|].
  intros ps Eo. split; [apply (Y ps Eo)|apply S'; exact S].
Qed.



Lemma examine_long_ante : forall a lvl tl w w' o a',
  c_pb (w_c w) = false -> c_card (w_c w) = 1 -> a_le a a' ->
  In (- tl) (firstn 2 (w_lits w)) -> lit_status a (- tl) = LUnsat ->
  examine_long a lvl tl w (w_lits w) = (w', o, a') -> ante_post a' w o.
Proof.
  intros a lvl tl w w' o a' P K Le Wt U H m S. unfold examine_long in H.
  set (other := if nth 0 (w_lits w) 0 =? - tl then w_other0 w else w_other1 w) in *.
  destruct (clause_step_reason a tl other (w_lits w) Wt U) as [RP RC].
  injection H as _ Ho _. rewrite clause_meaning_w in S by auto.
  unfold conflict_clause, reason_clause. fold (w_lits w). split.
  - intros E. apply (conflict_mono a a' _ _ Le). apply RC; auto. congruence.
  - intros ps l E Hl. apply (reason_mono a a' _ _ _ Le). apply (RP ps l); auto. congruence.
Qed.

Lemma examine_bin_ante : forall a lvl tl w x y w' o a',
  c_pb (w_c w) = false -> c_card (w_c w) = 1 -> a_le a a' -> w_lits w = [x; y] ->
  In (- tl) [x; y] -> lit_status a (- tl) = LUnsat ->
  examine_bin a lvl tl w x y = (w', o, a') -> ante_post a' w o.
Proof.
  intros a lvl tl w x y w' o a' P K Le El Wt U H m S. unfold examine_bin in H.
  injection H as _ Ho _. rewrite clause_meaning_w, El in S by auto.
  unfold conflict_clause, reason_clause. fold (w_lits w). rewrite El.
  assert (Hsel : exists other, (if x =? - tl then y else x) = other /\
            forall z, In z [x; y] -> z = other \/ z = - tl).
  { destruct (x =? - tl) eqn:E.
    - apply Z.eqb_eq in E. exists y. split; [reflexivity|]. intros z [<-|[<-|[]]]; auto.
    - apply Z.eqb_neq in E. exists x. split; [reflexivity|].
      assert (Ey : y = - tl) by (simpl in Wt; destruct Wt as [W|[W|[]]]; congruence).
      intros z [<-|[<-|[]]]; auto. }
  destruct Hsel as [other [Eo Cov]]. rewrite Eo in Ho. unfold bin_step in Ho.
  assert (Fm : In (- tl) (false_lits a' [x; y])).
  { apply in_false_lits. split; [exact Wt|]. eapply a_le_unsat; eauto. }
  split.
  - intros E. subst o. destruct (lit_status a other) eqn:So; try discriminate.
    eapply sat_clause_incl; [|exact S]. intros z Hz. destruct (Cov z Hz) as [->| ->]; [|exact Fm].
    apply in_false_lits. split; [exact Hz|]. eapply a_le_unsat; eauto.
  - intros ps l E Hl. subst o. destruct (lit_status a other) eqn:So; try discriminate;
      injection E as <-; [|destruct Hl]. destruct Hl as [<-|[]].
    eapply sat_clause_incl; [|exact S]. intros z Hz. destruct (Cov z Hz) as [->| ->].
    + left. reflexivity.
    + right. exact Fm.
Qed.

(* C02_antecedent: whatever the kind of the constraint, the clause
   "propagated literal or one of the now-false literals of the constraint"
   follows from the constraint; on a conflict the clause of its false literals does *)
Theorem examine_antecedent : forall a lvl tl w w' o a', 0 < lvl -> wc_ok a w ->
  lit_status a (- tl) = LUnsat -> watches w tl = true ->
  examine a lvl tl w = (w', o, a') -> ante_post a' w o.
Proof.
  intros a lvl tl w w' o a' L Wk U Wt H.
  destruct (examine_sound _ _ _ _ _ _ _ L Wk U Wt H) as [Le _].
  unfold examine in H. destruct Wk as [O Wf].
  destruct (c_kind (w_c w)) eqn:KC.
  - destruct (c_kind_cases (w_c w)) as [[K1 _]|[[K1 _]|[_ [P _]]]]; try congruence.
    unfold watches in Wt. rewrite KC in Wt. apply existsb_neg_in in Wt.
    assert (G : examine_long a lvl tl w (w_lits w) = (w', o, a') -> ante_post a' w o)
      by (apply examine_long_ante; auto).
    unfold w_lits in G, Wt.
    destruct (c_lits (w_c w)) as [|x [|y [|z r]]] eqn:El; auto.
    eapply examine_bin_ante; eauto.
  - destruct (c_kind_cases (w_c w)) as [[K1 _]|[[_ [P _]]|[K1 _]]]; try congruence.
    destruct (simplify_card a lvl (c_lits (w_c w)) (c_card (w_c w))) as [[o1 a1] ls'] eqn:SC.
    injection H as _ <- <-. intros m S.
    assert (S' : sat_pbc m (card_pbc (c_lits (w_c w)) (c_card (w_c w))) = true).
    { unfold c_pbc in S. rewrite (c_terms_nonpb _ P) in S. exact S. }
    unfold conflict_clause, reason_clause. split.
    + intros E. subst o1. apply (conflict_mono a a1 _ _ Le).
      apply (simplify_card_conflict_clause _ _ _ _ _ _ SC m S').
    + intros ps l E Hl. subst o1. apply (reason_mono a a1 _ _ _ Le).
      apply (simplify_card_reason _ _ _ _ _ _ _ SC l Hl m S').
  - destruct (simplifyPseudoBool a lvl (c_terms (w_c w)) (c_card (w_c w))) as [[o1 a1] u] eqn:SP.
    injection H as _ <- <-. unfold simplifyPseudoBool in SP. intros m S.
    destruct (simplify_pb_reason _ _ _ _ _ _ _ _ L Wf SP m S) as [RC RP].
    unfold conflict_clause, reason_clause. rewrite <- c_terms_lits. split; [exact RC|].
    intros ps l E Hl. apply (RP ps E l Hl).
Qed.


(* ------------------------------------------------------------------ *)
(* The slack rule is complete for one constraint on distinct variables  *)

Lemma nodup_map_inj : forall A B (g : A -> B) l x y,
  NoDup (map g l) -> In x l -> In y l -> g x = g y -> x = y.
Proof.
  induction l as [|h t IH]; intros x y ND Hx Hy E; [destruct Hx|].
  simpl in ND. inversion ND as [|? ? Nin ND']; subst.
  destruct Hx as [->|Hx]; destruct Hy as [->|Hy]; auto.
  - exfalso. apply Nin. rewrite E. apply in_map. exact Hy.
  - exfalso. apply Nin. rewrite <- E. apply in_map. exact Hx.
Qed.

Lemma witness_val : forall a ls l n x, NoDup (map vidx ls) -> In x ls ->
  (vidx x < n)%nat -> lit_status a x = LIndet ->
  lit_val (complete a (witness_f ls l) n) x = negb (x =? l).
Proof.
  intros a ls l n x ND Hx R U. rewrite lit_val_vidx. rewrite nth_complete by exact R.
  apply indet_aget in U. unfold aget in U. cbv zeta. rewrite U. simpl.
  unfold witness_f.
  destruct (find (fun y => Nat.eqb (vidx y) (vidx x)) ls) as [y|] eqn:F.
  - apply find_some in F. destruct F as [Hy E]. apply Nat.eqb_eq in E.
    assert (y = x) by (eapply nodup_map_inj; eauto). subst y.
    destruct (x =? l) eqn:Ex.
    + apply Z.eqb_eq in Ex. subst l. destruct (0 <? x); reflexivity.
    + destruct (0 <? x); reflexivity.
  - exfalso. pose proof (find_none _ _ F x Hx) as K. simpl in K.
    rewrite Nat.eqb_refl in K. discriminate.
Qed.

Lemma wsum_zero : forall f ts, (forall t, In t ts -> f (snd t) = false) -> wsum f ts = 0.
Proof.
  induction ts as [|t ts IH]; intros H; [reflexivity|]. simpl.
  rewrite (H t (or_introl eq_refl)). rewrite IH; [reflexivity|]. intros; apply H; right; auto.
Qed.

Lemma wsum_single : forall (ts : list term) (t : term), NoDup (map snd ts) -> In t ts ->
  wsum (fun x => x =? snd t) ts = fst t.
Proof.
  induction ts as [|h ts IH]; intros t ND I; [destruct I|].
  simpl in ND. inversion ND as [|? ? Nin ND']; subst. cbn [wsum]. cbv beta. destruct I as [->|I].
  - rewrite Z.eqb_refl. rewrite wsum_zero; [lia|].
    intros t' Ht'. apply Z.eqb_neq. intro E. apply Nin. rewrite <- E. apply in_map. exact Ht'.
  - assert (N : (snd h =? snd t) = false).
    { apply Z.eqb_neq. intro E. apply Nin. rewrite E. apply in_map. exact I. }
    rewrite N. rewrite IH; auto.
Qed.

Lemma wsum_split_le : forall f g h ts, nonneg_terms ts = true ->
  (forall t, In t ts -> f (snd t) = true -> g (snd t) = true \/ h (snd t) = true) ->
  wsum f ts <= wsum g ts + wsum h ts.
Proof.
  induction ts as [|t ts IH]; intros N H; simpl; [lia|].
  apply nonneg_cons in N. destruct N as [N1 N2].
  assert (IH' : wsum f ts <= wsum g ts + wsum h ts)
    by (apply IH; auto; intros; apply H; auto; right; auto).
  destruct (f (snd t)) eqn:F.
  - destruct (H t (or_introl eq_refl) F) as [G|G]; rewrite G;
      [destruct (h (snd t))|destruct (g (snd t))]; lia.
  - destruct (g (snd t)); destruct (h (snd t)); lia.
Qed.

Lemma nodup_vidx_lits : forall ls, NoDup (map vidx ls) -> NoDup ls.
Proof.
  induction ls as [|l ls IH]; intros H; [constructor|].
  simpl in H. inversion H as [|? ? Nin ND]; subst. constructor; auto.
  intro K. apply Nin. apply in_map. exact K.
Qed.

(* every unbound literal whose weight does not exceed the slack can be false
   in a total extension that satisfies the constraint *)
Theorem slack_rule_complete : forall a ts card n t,
  nonneg_terms ts = true -> NoDup (map vidx (map snd ts)) ->
  in_range (repeat 0 n) (map snd ts) -> (length a <= n)%nat ->
  In t ts -> lit_status a (snd t) = LIndet -> fst t <= slack a ts card ->
  exists m, length m = n /\ extends m a /\ sat_pbc m (PBC ts card) = true /\
            lit_val m (snd t) = false.
Proof.
  intros a ts card n t N ND R Ln It Ut St.
  set (m := complete a (witness_f (map snd ts) (snd t)) n).
  assert (Rn : forall x, In x (map snd ts) -> (vidx x < n)%nat).
  { intros x Hx. specialize (R x Hx). rewrite repeat_length in R. exact R. }
  assert (E : extends m a) by (apply complete_extends; exact Ln).
  exists m. split; [apply complete_length|split; [exact E|split]].
  - unfold sat_pbc. simpl. apply Z.leb_le. rewrite lhs_wsum.
    set (g := fun x => non_false a x && negb (x =? snd t)).
    assert (G1 : wsum g ts <= wsum (lit_val m) ts).
    { apply wsum_mono; auto. intros t' It' Gt. unfold g in Gt. apply andb_true_iff in Gt.
      destruct Gt as [G1 G2]. apply non_false_true in G1.
      destruct (lit_status a (snd t')) eqn:S'.
      - unfold m. rewrite witness_val; auto. apply in_map; exact It'. apply Rn, in_map; exact It'.
      - apply (ext_sat _ _ _ E S').
      - exfalso. apply G1. reflexivity. }
    assert (G2 : wsum (non_false a) ts <= wsum g ts + wsum (fun x => x =? snd t) ts).
    { apply wsum_split_le; auto. intros t' It' F. unfold g. rewrite F.
      destruct (snd t' =? snd t); simpl; auto. }
    rewrite wsum_single in G2; auto; [|apply nodup_vidx_lits; exact ND].
    unfold slack in St. lia.
  - unfold m. rewrite witness_val; auto.
    + rewrite Z.eqb_refl. reflexivity.
    + apply in_map. exact It.
    + apply Rn, in_map. exact It.
Qed.

(* and a constraint with a non-negative slack has a satisfying extension *)
Theorem slack_nonneg_sat : forall a ts card n,
  nonneg_terms ts = true -> NoDup (map vidx (map snd ts)) -> ~ In 0 (map snd ts) ->
  in_range (repeat 0 n) (map snd ts) -> (length a <= n)%nat ->
  0 <= slack a ts card ->
  exists m, length m = n /\ extends m a /\ sat_pbc m (PBC ts card) = true.
Proof.
  intros a ts card n N ND I0 R Ln S.
  set (m := complete a (witness_f (map snd ts) 0) n).
  assert (Rn : forall x, In x (map snd ts) -> (vidx x < n)%nat).
  { intros x Hx. specialize (R x Hx). rewrite repeat_length in R. exact R. }
  assert (E : extends m a) by (apply complete_extends; exact Ln).
  exists m. split; [apply complete_length|split; [exact E|]].
  unfold sat_pbc. simpl. apply Z.leb_le. rewrite lhs_wsum.
  assert (G : wsum (non_false a) ts <= wsum (lit_val m) ts).
  { apply wsum_mono; auto. intros t' It' F. apply non_false_true in F.
    assert (Z0 : snd t' <> 0) by (intro Z0; apply I0; rewrite <- Z0; apply in_map; exact It').
    destruct (lit_status a (snd t')) eqn:S'.
    - unfold m. rewrite witness_val; auto.
      + apply negb_true_iff. apply Z.eqb_neq. exact Z0.
      + apply in_map; exact It'.
      + apply Rn, in_map; exact It'.
    - apply (ext_sat _ _ _ E S').
    - exfalso. apply F. reflexivity. }
  unfold slack in S. lia.
Qed.

(* C02_card_rule, completeness in terms of models: when simplifyCardConstr
   pushes nothing, no unbound literal of the constraint is implied *)
Theorem simplify_card_complete_sem : forall a lvl ls card a' ls' n l,
  card <= Z.of_nat (length ls) -> NoDup (map vidx ls) ->
  in_range (repeat 0 n) ls -> (length a <= n)%nat ->
  simplify_card a lvl ls card = (Props [], a', ls') ->
  In l ls -> lit_status a l = LIndet ->
  exists m, length m = n /\ extends m a /\ sat_pbc m (card_pbc ls card) = true /\
            lit_val m l = false.
Proof.
  intros a lvl ls card a' ls' n l Hc ND R Ln H Il Ul.
  destruct (simplify_card_quiet _ _ _ _ _ _ Hc H) as [Q _].
  pose proof (in_count_pos LIndet a ls l Il Ul) as P1.
  pose proof (slack_rule_complete a (unit_terms ls) card n (1, l) (nonneg_unit_terms ls)) as C.
  rewrite map_snd_unit_terms in C. apply C; auto.
  - apply in_unit_terms. auto.
  - rewrite slack_unit_terms. simpl. lia.
Qed.

(* ------------------------------------------------------------------ *)
(* Boolean checkers                                                     *)

Lemma lits_okb_sound : forall a ls, lits_okb a ls = true -> lits_ok a ls.
Proof.
  intros a ls H l Hl. unfold lits_okb in H. rewrite forallb_forall in H. specialize (H l Hl).
  apply andb_true_iff in H. destruct H as [H1 H2]. apply negb_true_iff in H1.
  apply Z.eqb_neq in H1. apply Nat.ltb_lt in H2. auto.
Qed.

Lemma pb_wfb_sound : forall a ts, pb_wfb a ts = true -> pb_wf a ts.
Proof.
  intros a ts H. unfold pb_wfb in H. apply andb_true_iff in H. destruct H as [H1 H2].
  split; [exact H1|]. intros t It W U. rewrite forallb_forall in H2. specialize (H2 t It).
  apply orb_true_iff in H2. destruct H2 as [H2|H2].
  - apply Z.ltb_lt in H2. lia.
  - apply negb_true_iff in H2. apply is_indet_true in U. congruence.
Qed.

Lemma wc_okb_sound : forall a w, wc_okb a w = true -> wc_ok a w.
Proof.
  intros a w H. unfold wc_okb in H. apply andb_true_iff in H. destruct H as [H1 H2].
  split; [apply lits_okb_sound; exact H1|].
  destruct (c_kind (w_c w)); auto.
  - apply Z.eqb_eq. exact H2.
  - apply pb_wfb_sound. exact H2.
Qed.

Lemma ws_okb_sound : forall a ws, ws_okb a ws = true -> ws_ok a ws.
Proof.
  intros a ws H w Hw. unfold ws_okb in H. rewrite forallb_forall in H.
  apply wc_okb_sound. apply H. exact Hw.
Qed.

Lemma head_maxb_sound : forall ts, head_maxb ts = true -> head_max ts.
Proof.
  intros [|t ts] H; simpl; auto. unfold head_maxb in H. rewrite forallb_forall in H.
  intros u Hu. apply Z.leb_le. apply H. exact Hu.
Qed.

Lemma watch_wfb_sound : forall c, watch_wfb c = true -> watch_wf c.
Proof.
  intros c H. unfold watch_wfb, watch_wf in *. destruct (c_kind c).
  - apply Nat.leb_le. exact H.
  - apply Z.leb_le. exact H.
  - apply andb_true_iff in H. destruct H as [H H3]. apply andb_true_iff in H. destruct H as [H1 H2].
    split; [exact H1|split; [apply head_maxb_sound; exact H2|apply Z.leb_le; exact H3]].
Qed.

Lemma none_falseb_sound : forall a ls, none_falseb a ls = true -> none_false a ls.
Proof.
  intros a ls H l Hl. unfold none_falseb in H. rewrite forallb_forall in H.
  apply non_false_true. apply H. exact Hl.
Qed.

Lemma in_rangeb_sound : forall a ls, in_rangeb a ls = true -> in_range a ls.
Proof.
  intros a ls H l Hl. unfold in_rangeb in H. rewrite forallb_forall in H.
  apply Nat.ltb_lt. apply H. exact Hl.
Qed.

Lemma no_complb_sound : forall ls, no_complb ls = true -> no_compl ls.
Proof.
  intros ls H l Hl K. unfold no_complb in H. rewrite forallb_forall in H. specialize (H l Hl).
  apply negb_true_iff in H.
  assert (E : existsb (Z.eqb (- l)) ls = true).
  { apply existsb_exists. exists (- l). split; [exact K|apply Z.eqb_refl]. }
  congruence.
Qed.

(* ------------------------------------------------------------------ *)
(* Instances: the hypotheses of the theorems are satisfiable            *)

Lemma ex_ws_ok : ws_ok (assign ex_a0 2 (-1)) ex_ws.
Proof. apply ws_okb_sound. reflexivity. Qed.

Lemma ex_todo_ok : forall l, In l [-1] -> lit_status (assign ex_a0 2 (-1)) (- l) = LUnsat.
Proof. intros l [<-|[]]. reflexivity. Qed.

Lemma ex_propagate_conflict :
  snd (fst (propagate 10 (assign ex_a0 2 (-1)) 2 [-1] ex_ws)) = Conflict.
Proof. reflexivity. Qed.

Lemma ex_propagate_props :
  snd (fst (propagate 10 (assign ex_a0 2 1) 2 [1] ex_ws)) = Props [] /\
  ws_ok (assign ex_a0 2 1) ex_ws.
Proof. split; [reflexivity|apply ws_okb_sound; reflexivity]. Qed.

Lemma ex_watch_wf : forall w, In w ex_ws -> watch_wf (w_c w).
Proof.
  intros w Hw. apply watch_wfb_sound.
  assert (H : forallb (fun w => watch_wfb (w_c w)) ex_ws = true) by reflexivity.
  rewrite forallb_forall in H. apply H. exact Hw.
Qed.

Lemma ex_slack_hyp : nonneg_terms ex_upd_ts = true /\ slack ex_upd_a ex_upd_ts 2 = 2 /\
  slack ex_upd_a ex_upd_ts 5 < 0.
Proof. repeat split. Qed.

Lemma ex_card_hyp :
  simplify_card [0; -1; 0; -1] 2 [1; 2; 3; 4] 2 = (Props [1; 3], [2; -1; 2; -1], [1; 2; 3; 4]) /\
  simplify_card [0; -1; 0; 0] 2 [1; 2; 3; 4] 2 = (Props [], [0; -1; 0; 0], [1; 4; 3; 2]) /\
  simplify_card [0; -1; -1; -1] 2 [1; 2; 3; 4] 2 = (Conflict, [0; -1; -1; -1], [1; 2; 3; 4]) /\
  NoDup (map vidx [1; 2; 3; 4]) /\ in_range (repeat 0 4%nat) [1; 2; 3; 4].
Proof.
  split; [reflexivity|split; [reflexivity|split; [reflexivity|split]]].
  - simpl. repeat constructor; simpl; intuition discriminate.
  - apply in_rangeb_sound. reflexivity.
Qed.

Lemma ex_amo_hyp :
  Z.of_nat (length ex_amo_lits) = 2 + 1 /\
  simplify_card_amo [0; -1; 0] 2 ex_amo_lits 2 = (Props [1; 3], [2; -1; 2]) /\
  (exists l, In l ex_amo_lits /\ lit_status [0; -1; 0] l = LUnsat).
Proof. split; [reflexivity|split; [reflexivity|]]. exists 2. split; [simpl; auto|reflexivity]. Qed.

Lemma ex_clause_hyp :
  In (- (-2)) (firstn 2 [2; 1; 3; 4]) /\ lit_status [0; -1; -1; -1] (- (-2)) = LUnsat /\
  cs_out (clause_step [0; -1; -1; -1] (-2) 1 [2; 1; 3; 4]) = Props [1] /\
  In 1 [2; 1; 3; 4] /\ count_st LUnsat [0; -1; 0; 0] (firstn 2 [2; 1; 3; 4]) <= 1 /\
  cs_out (clause_step [0; -1; 0; 0] (-2) 4 [2; 1; 3; 4]) = Props [].
Proof. repeat split; simpl; auto; lia. Qed.

Lemma ex_pb_hyp :
  pb_wf ex_upd_a ex_upd_ts /\ no_compl (map snd ex_upd_ts) /\ in_range ex_upd_a (map snd ex_upd_ts) /\
  simplifyPseudoBool ex_upd_a 2 ex_upd_ts 2 = (Props [], ex_upd_a, true) /\
  simplifyPseudoBool ex_upd_a' 2 ex_upd_ts 2 = (Props [2], [-1; 2; 0; -2], false) /\
  0 < slack ex_upd_a ex_upd_ts 2.
Proof.
  split; [apply pb_wfb_sound; reflexivity|split; [apply no_complb_sound; reflexivity|]].
  split; [apply in_rangeb_sound; reflexivity|split; [reflexivity|split; [reflexivity|reflexivity]]].
Qed.
