(* Proofs about Model/Solve.v: the mirrored front ends composed with the
   verified reference search give a correct verdict and a model of the INPUT
   as written. *)
From Coq Require Import List ZArith Lia Bool String Ascii.
From GS Require Import Spec.Base Spec.PB Model.PBNorm Model.Text Model.Simplify Model.Solve.
From GS Require Proofs.PBNorm Proofs.TextDimacs.
From GS Require Import Proofs.Simplify.
Import ListNotations.
Open Scope Z_scope.

(* ------------------------------------------------------------------ *)
(* The residual problem                                                 *)

Lemma sat_gp_problem : forall m g,
  sat_problem m (gp_problem g) = sat_units m (gp_units g) && csem m (gp_clauses g).
Proof.
  intros m g. unfold sat_problem, gp_problem. rewrite forallb_app. f_equal.
  - unfold sat_units. induction (gp_units g) as [|u U IH]; [reflexivity|].
    cbn [map forallb]. rewrite IH, sat_clause_pbc. unfold sat_clause. cbn [existsb].
    rewrite orb_false_r. reflexivity.
  - unfold csem. induction (gp_clauses g) as [|c C IH]; [reflexivity|].
    cbn [map forallb]. rewrite IH. reflexivity.
Qed.

Lemma sat_gp_problem_live : forall m g, gp_status g <> Unsat ->
  sat_problem m (gp_problem g) = sat_gproblem m g.
Proof. intros m g H. rewrite sat_gp_problem. symmetry. apply sat_gproblem_live. exact H. Qed.

(* The generic composition lemma: [sem] is the meaning of the input. *)
Lemma solve_gproblem_spec : forall g (sem : list bool -> bool),
  (forall m, sat_gproblem m g = sem m) ->
  match solve_gproblem g with
  | (Sat, Some m) =>
      gp_status g <> Unsat /\ List.length m = Z.to_nat (gp_nbvars g) /\ sem m = true
  | (Unsat, None) =>
      (gp_status g = Unsat /\ forall m, sem m = false) \/
      (gp_status g <> Unsat /\ forall m, List.length m = Z.to_nat (gp_nbvars g) -> sem m = false)
  | _ => False
  end.
Proof.
  intros g sem Hsem. unfold solve_gproblem.
  destruct (is_unsat g) eqn:Eu.
  - apply is_unsat_true in Eu. left. split; [exact Eu|].
    intros m. rewrite <- Hsem. apply sat_gproblem_unsat. exact Eu.
  - apply is_unsat_false in Eu.
    destruct (ref_solve (Z.to_nat (gp_nbvars g)) (gp_problem g)) as [m|] eqn:Er.
    + apply ref_solve_some in Er. destruct Er as [L S].
      split; [exact Eu|split; [exact L|]].
      rewrite <- Hsem, <- sat_gp_problem_live by exact Eu. exact S.
    + right. split; [exact Eu|]. intros m L.
      rewrite <- Hsem, <- sat_gp_problem_live by exact Eu.
      apply (ref_solve_none _ _ Er m L).
Qed.

(* ------------------------------------------------------------------ *)
(* Resizing a model: variables above n read false, as out-of-range       *)
(* variables do.                                                         *)

Fixpoint fit (n : nat) (m : list bool) : list bool :=
  match n with
  | O => []
  | S k => match m with
           | [] => false :: fit k []
           | b :: r => b :: fit k r
           end
  end.

Lemma fit_length : forall n m, List.length (fit n m) = n.
Proof. induction n as [|n IH]; intros m; [reflexivity|]. destruct m; simpl; rewrite IH; reflexivity. Qed.

Lemma nth_fit : forall n m i, (i < n)%nat -> nth i (fit n m) false = nth i m false.
Proof.
  induction n as [|n IH]; intros m i Hi; [lia|].
  destruct m as [|b m]; destruct i as [|i]; cbn [fit nth]; try reflexivity.
  - rewrite IH by lia. destruct i; reflexivity.
  - apply IH. lia.
Qed.

Lemma var_val_fit : forall n m v, 1 <= v <= Z.of_nat n -> var_val (fit n m) v = var_val m v.
Proof. intros n m v Hv. unfold var_val. apply nth_fit. lia. Qed.

Lemma lit_val_fit : forall n m l, l <> 0 -> Z.abs l <= Z.of_nat n ->
  lit_val (fit n m) l = lit_val m l.
Proof.
  intros n m l Hl Hr. unfold lit_val. destruct (0 <? l) eqn:E.
  - apply Z.ltb_lt in E. apply var_val_fit. lia.
  - apply Z.ltb_ge in E. f_equal. apply var_val_fit. lia.
Qed.

Definition lits_in (n : nat) (c : list lit) : Prop :=
  forall l, In l c -> l <> 0 /\ Z.abs l <= Z.of_nat n.

Lemma sat_clause_fit : forall n m c, lits_in n c -> sat_clause (fit n m) c = sat_clause m c.
Proof.
  intros n m c. unfold sat_clause. induction c as [|l c IH]; intros H; [reflexivity|].
  cbn [existsb]. rewrite IH by (intros x Hx; apply H; right; exact Hx).
  destruct (H l (or_introl eq_refl)) as [H0 H1]. rewrite lit_val_fit by assumption. reflexivity.
Qed.

Lemma sat_cnf_fit : forall n m F, (forall c, In c F -> lits_in n c) ->
  sat_cnf (fit n m) F = sat_cnf m F.
Proof.
  intros n m F. unfold sat_cnf. induction F as [|c F IH]; intros H; [reflexivity|].
  cbn [forallb]. rewrite IH by (intros x Hx; apply H; right; exact Hx).
  rewrite sat_clause_fit by (apply H; left; reflexivity). reflexivity.
Qed.

Lemma lhs_fit : forall n m ts, lits_in n (map snd ts) -> lhs (fit n m) ts = lhs m ts.
Proof.
  intros n m ts. induction ts as [|t ts IH]; intros H; [reflexivity|].
  cbn [lhs]. rewrite IH by (intros x Hx; apply H; right; exact Hx).
  destruct (H (snd t) (or_introl eq_refl)) as [H0 H1].
  unfold term_val. rewrite lit_val_fit by assumption. reflexivity.
Qed.

Lemma maxvar_clause_ge : forall c l, In l c -> Z.abs l <= maxvar_clause c.
Proof.
  induction c as [|x c IH]; intros l H; [destruct H|]. cbn [maxvar_clause]. unfold lit_var.
  destruct H as [<-|H]; [lia|]. specialize (IH l H). lia.
Qed.

Lemma maxvar_clause_nonneg : forall c, 0 <= maxvar_clause c.
Proof. induction c as [|x c IH]; cbn [maxvar_clause]; unfold lit_var; lia. Qed.

Lemma maxvar_nonneg : forall F, 0 <= maxvar F.
Proof. induction F as [|c F IH]; cbn [maxvar]; [lia|]. pose proof (maxvar_clause_nonneg c). lia. Qed.

Lemma maxvar_ge : forall F c, In c F -> maxvar_clause c <= maxvar F.
Proof.
  induction F as [|x F IH]; intros c H; [destruct H|]. cbn [maxvar].
  destruct H as [<-|H]; [lia|]. specialize (IH c H). lia.
Qed.

Lemma wf_cnf_lits_in : forall F n, wf_cnf F -> maxvar F <= Z.of_nat n ->
  forall c, In c F -> lits_in n c.
Proof.
  intros F n Hwf Hn c Hc l Hl. split; [apply (Hwf c Hc l Hl)|].
  pose proof (maxvar_clause_ge c l Hl). pose proof (maxvar_ge F c Hc). lia.
Qed.

(* a verdict "no model with exactly N variables" extends to every length *)
Lemma no_model_any_length : forall (sem : list bool -> bool) N,
  (forall m, sem (fit N m) = sem m) ->
  (forall m, List.length m = N -> sem m = false) -> forall m, sem m = false.
Proof. intros sem N Hfit H m. rewrite <- Hfit. apply H. apply fit_length. Qed.

(* ------------------------------------------------------------------ *)
(* C01, ParseSliceNb route                                              *)

Theorem solve_cnf_spec : forall n F, wf_cnf F -> 0 <= n ->
  match solve_cnf n F with
  | (Sat, Some m) =>
      List.length m = Z.to_nat (gp_nbvars (ParseSliceNb F n)) /\ sat_cnf m F = true
  | (Unsat, None) => forall m, sat_cnf m F = false
  | _ => False
  end.
Proof.
  intros n F Hwf Hn. unfold solve_cnf.
  pose proof (solve_gproblem_spec (ParseSliceNb F n) (fun m => sat_cnf m F)
                (fun m => parse_slice_equiv n F m (parse_slice_fuel F) Hwf)) as H.
  destruct (solve_gproblem (ParseSliceNb F n)) as [[| |] [m|]]; try exact H.
  - destruct H as [_ H]. exact H.
  - destruct H as [[_ H]|[_ H]]; [exact H|].
    destruct (has_empty F) eqn:He; [intros m; apply has_empty_unsat; exact He|].
    unfold ParseSliceNb in H. rewrite parse_slice_nbvars_noempty in H by assumption.
    apply (no_model_any_length (fun m => sat_cnf m F) _ ) with (2 := H).
    intros m. apply sat_cnf_fit. apply wf_cnf_lits_in; [exact Hwf|lia].
Qed.

(* a Sat answer: there is no empty clause, and the model has max(n, maxvar F) variables *)
Theorem solve_cnf_sat : forall n F m, wf_cnf F -> 0 <= n ->
  solve_cnf n F = (Sat, Some m) ->
  has_empty F = false /\ List.length m = Z.to_nat (Z.max n (maxvar F)) /\ sat_cnf m F = true.
Proof.
  intros n F m Hwf Hn E. pose proof (solve_cnf_spec n F Hwf Hn) as H. rewrite E in H.
  destruct H as [HL HS].
  assert (He : has_empty F = false).
  { destruct (has_empty F) eqn:He; [|reflexivity].
    rewrite (has_empty_unsat m F He) in HS. discriminate. }
  split; [exact He|split; [|exact HS]].
  rewrite HL. unfold ParseSliceNb. rewrite parse_slice_nbvars_noempty by assumption. reflexivity.
Qed.

Theorem solve_cnf_noempty : forall n F, wf_cnf F -> 0 <= n -> has_empty F = false ->
  match solve_cnf n F with
  | (Sat, Some m) => List.length m = Z.to_nat (Z.max n (maxvar F)) /\ sat_cnf m F = true
  | (Unsat, None) => forall m, sat_cnf m F = false
  | _ => False
  end.
Proof.
  intros n F Hwf Hn He. pose proof (solve_cnf_spec n F Hwf Hn) as H.
  destruct (solve_cnf n F) as [[| |] [m|]] eqn:E; try exact H.
  destruct (solve_cnf_sat n F m Hwf Hn E) as [_ [HL HS]]. split; assumption.
Qed.

(* the verdict decides satisfiability *)
Theorem solve_cnf_unsat_iff : forall n F, wf_cnf F -> 0 <= n ->
  (fst (solve_cnf n F) = Unsat <-> forall m, sat_cnf m F = false).
Proof.
  intros n F Hwf Hn. pose proof (solve_cnf_spec n F Hwf Hn) as H.
  destruct (solve_cnf n F) as [[| |] [m|]]; try contradiction; cbn [fst].
  - destruct H as [_ HS]. split; [discriminate|]. intros A. rewrite A in HS. discriminate.
  - split; [intros _; exact H|reflexivity].
Qed.

(* ------------------------------------------------------------------ *)
(* C01, ParseCNF route: simplify2 on the clauses as read                 *)

Lemma plain_of_cnf : forall F, wf_cnf F -> Forall plain (map (fun c => GC c None 1) F).
Proof.
  induction F as [|c F IH]; intros Hwf; [constructor|].
  apply wf_cnf_cons in Hwf. destruct Hwf as [Hc HF]. cbn [map]. constructor; [|apply IH; exact HF].
  repeat split; auto.
Qed.

Lemma csem_of_cnf : forall m F, wf_cnf F ->
  csem m (map (fun c => GC c None 1) F) = sat_cnf m F.
Proof.
  intros m F. unfold csem, sat_cnf. induction F as [|c F IH]; intros Hwf; [reflexivity|].
  apply wf_cnf_cons in Hwf. destruct Hwf as [Hc HF]. cbn [map forallb]. rewrite IH by exact HF.
  rewrite (sat_gclause_plain m (GC c None 1)) by (repeat split; auto). reflexivity.
Qed.

Lemma parse_cnf_master : forall fuel n F, wf_cnf F ->
  gp_nbvars (parse_cnf fuel n F) = n /\
  (gp_status (parse_cnf fuel n F) = Sat -> gp_clauses (parse_cnf fuel n F) = []) /\
  (forall m, sat_gproblem m (parse_cnf fuel n F) = sat_cnf m F).
Proof.
  intros fuel n F Hwf. unfold parse_cnf, parse_cnf_full.
  destruct (s2_loop fuel (cnf_initial n F)) as [g' b] eqn:El. cbn [fst].
  rewrite s2_loop_gen in El.
  destruct (gen_loop_ok plain s2_step s2_step_ok fuel _ g' b El eq_refl
              (msound_repeat0 _ []) (plain_of_cnf F Hwf)) as [Q1 [Q2 [Q3 [Q4 Q5]]]].
  split; [exact Q1|split; [exact Q4|]].
  intros m. rewrite (Q5 m). unfold sat_gproblem, cnf_initial. cbn [gp_status gp_units gp_clauses sat_units forallb].
  cbn [andb]. apply csem_of_cnf. exact Hwf.
Qed.

Theorem parse_cnf_equiv : forall fuel n F m, wf_cnf F ->
  sat_gproblem m (parse_cnf fuel n F) = sat_cnf m F.
Proof. intros fuel n F m H. apply (parse_cnf_master fuel n F H). Qed.

Theorem parse_cnf_nbvars : forall fuel n F, wf_cnf F -> gp_nbvars (parse_cnf fuel n F) = n.
Proof. intros fuel n F H. apply (parse_cnf_master fuel n F H). Qed.

Theorem parse_cnf_fuel_enough : forall fuel n F,
  (List.length F < fuel)%nat -> parse_cnf_done fuel n F = true.
Proof.
  intros fuel n F Hf. unfold parse_cnf_done, parse_cnf_full. rewrite s2_loop_gen.
  apply (gen_loop_done nclauses s2_step s2_step_decr).
  unfold nclauses, cnf_initial. cbn [gp_clauses]. rewrite map_length. exact Hf.
Qed.

Theorem parse_cnf_stable : forall n F fuel fuel',
  parse_cnf_done fuel n F = true -> (fuel <= fuel')%nat ->
  parse_cnf fuel' n F = parse_cnf fuel n F /\ parse_cnf_done fuel' n F = true.
Proof.
  intros n F fuel fuel' Hd Hle. unfold parse_cnf, parse_cnf_done, parse_cnf_full in *.
  rewrite !s2_loop_gen in *.
  destruct (gen_loop s2_step fuel (cnf_initial n F)) as [g b] eqn:E. cbn [snd] in Hd. subst b.
  rewrite (gen_loop_stable s2_step fuel _ g E fuel' Hle). split; reflexivity.
Qed.

(* what the reader returns is well formed: 0 <= n, literals non-zero and in range *)
Lemma read_clause_wf : forall f nv s lits oc rest,
  read_clause f nv s lits = CDone oc rest -> Proofs.TextDimacs.wf_lits nv lits ->
  match oc with Some c => Proofs.TextDimacs.wf_lits nv c | None => True end.
Proof.
  induction f as [|f IH]; intros nv s lits oc rest H Hw; cbn [read_clause] in H; [discriminate|].
  destruct (read_int s) as [v r| |].
  - destruct (v =? 0) eqn:E0.
    + injection H as <- _. exact Hw.
    + destruct ((nv <? v) || (nv <? - v)) eqn:Er; [discriminate|].
      apply (IH _ _ _ _ _ H). apply Z.eqb_neq in E0. apply orb_false_iff in Er.
      destruct Er as [E1 E2]. apply Z.ltb_ge in E1. apply Z.ltb_ge in E2.
      intros l Hl. apply in_app_iff in Hl. destruct Hl as [Hl|[<-|[]]]; [apply Hw; exact Hl|].
      split; [exact E0|lia].
  - injection H as <- _. destruct lits; [exact I|exact Hw].
  - discriminate.
Qed.

Lemma cnf_top_wf : forall f s nv cls n F,
  cnf_top f s nv cls = POk (n, F) -> 0 <= nv ->
  (forall c, In c cls -> Proofs.TextDimacs.wf_lits nv c) -> Proofs.TextDimacs.wf_dimacs n F.
Proof.
  induction f as [|f IH]; intros s nv cls n F H Hnv Hc; cbn [cnf_top] in H; [discriminate|].
  destruct s as [|b r].
  - injection H as <- <-. split; assumption.
  - destruct (is_space b); [apply (IH _ _ _ _ _ H Hnv Hc)|].
    destruct (Ascii.eqb b "c"%char); [apply (IH _ _ _ _ _ H Hnv Hc)|].
    destruct (Ascii.eqb b "p"%char).
    + destruct (parse_header r) as [[[nv' nc] rest]| | |]; try discriminate.
      destruct ((nv' <? 0) || (nc <? 0)) eqn:E; [discriminate|].
      apply orb_false_iff in E. destruct E as [E _]. apply Z.ltb_ge in E.
      apply (IH _ _ _ _ _ H E). intros c [].
    + destruct (read_clause f nv (b :: r) []) as [oc rest| |] eqn:Ec; try discriminate.
      pose proof (read_clause_wf _ _ _ _ _ _ Ec (fun l (Hl : In l []) => match Hl with end)) as Hoc.
      apply (IH _ _ _ _ _ H Hnv). destruct oc as [c|]; [|exact Hc].
      intros c' Hin. apply in_app_iff in Hin. destruct Hin as [Hin|[<-|[]]]; [apply Hc; exact Hin|exact Hoc].
Qed.

Theorem parse_dimacs_wf : forall text n F, parse_dimacs text = Some (n, F) ->
  Proofs.TextDimacs.wf_dimacs n F.
Proof.
  intros text n F H. unfold parse_dimacs, parse_dimacs_r in H.
  destruct (cnf_top _ _ 0 []) as [[n' F']| | |] eqn:E; try discriminate.
  cbn [pres_opt] in H. injection H as -> ->.
  apply (cnf_top_wf _ _ _ _ _ _ E); [lia|intros c []].
Qed.

Lemma wf_dimacs_wf_cnf : forall n F, Proofs.TextDimacs.wf_dimacs n F -> wf_cnf F.
Proof. intros n F [_ H] c Hc l Hl. apply (H c Hc l Hl). Qed.

Theorem solve_cnf_problem_spec : forall n F, Proofs.TextDimacs.wf_dimacs n F ->
  match solve_gproblem (parse_cnf_problem n F) with
  | (Sat, Some m) => List.length m = Z.to_nat n /\ sat_cnf m F = true
  | (Unsat, None) => forall m, sat_cnf m F = false
  | _ => False
  end.
Proof.
  intros n F Hd. pose proof (wf_dimacs_wf_cnf n F Hd) as Hwf. unfold parse_cnf_problem.
  pose proof (solve_gproblem_spec (parse_cnf (S (List.length F)) n F) (fun m => sat_cnf m F)
                (fun m => parse_cnf_equiv _ n F m Hwf)) as H.
  rewrite parse_cnf_nbvars in H by exact Hwf.
  destruct (solve_gproblem (parse_cnf (S (List.length F)) n F)) as [[| |] [m|]]; try exact H.
  - destruct H as [_ H]. exact H.
  - destruct H as [[_ H]|[_ H]]; [exact H|].
    apply (no_model_any_length (fun m => sat_cnf m F) _ ) with (2 := H).
    intros m. apply sat_cnf_fit. destruct Hd as [Hn Hd]. intros c Hc l Hl.
    destruct (Hd c Hc l Hl) as [H0 H1]. split; [exact H0|lia].
Qed.

Theorem solve_dimacs_spec : forall text,
  match parse_dimacs text with
  | None => solve_dimacs text = None
  | Some (n, F) =>
    exists r, solve_dimacs text = Some r /\
      match r with
      | (Sat, Some m) => List.length m = Z.to_nat n /\ sat_cnf m F = true
      | (Unsat, None) => forall m, sat_cnf m F = false
      | _ => False
      end
  end.
Proof.
  intros text. unfold solve_dimacs.
  destruct (parse_dimacs text) as [[n F]|] eqn:E; [|reflexivity].
  eexists. split; [reflexivity|]. apply solve_cnf_problem_spec.
  apply (parse_dimacs_wf text n F E).
Qed.

(* ------------------------------------------------------------------ *)
(* C02: ParsePBConstrs + search                                         *)

Lemma pp_scan_nb : forall cs nb U C nb' U' C',
  pp_scan cs nb U C = (false, nb', U', C') -> 0 <= nb ->
  nb' = Z.max nb (maxvar (map pc_lits cs)).
Proof.
  induction cs as [|c cs IH]; intros nb U C nb' U' C' H Hnb.
  - simpl in H. injection H as <- _ _. simpl. lia.
  - cbn [pp_scan] in H. cbn [map maxvar].
    assert (Hg : grow_all nb (pc_lits c) = Z.max nb (maxvar_clause (pc_lits c)))
      by (apply grow_all_max; exact Hnb).
    pose proof (maxvar_clause_nonneg (pc_lits c)) as Hc.
    destruct (pc_atleast c <=? 0).
    + apply IH in H; lia.
    + destruct (pc_weight_sum c <? pc_atleast c); [discriminate|].
      destruct (pc_weight_sum c =? pc_atleast c); apply IH in H; lia.
Qed.

Lemma parse_pb_nbvars : forall fuel cs, wf_pbs cs -> gp_status (parse_pb fuel cs) <> Unsat ->
  gp_nbvars (parse_pb fuel cs) = maxvar (map pc_lits cs).
Proof.
  intros fuel cs Hwf. unfold parse_pb, parse_pb_full.
  destruct (pp_scan cs 0 [] []) as [[[e nb] U] C] eqn:Es.
  destruct (pp_scan_spec cs 0 [] [] e nb U C Es Hwf (Forall_nil _) (Forall_nil _))
    as [HU [HC [Hun Hsem]]].
  destruct e.
  - simpl. intros H. contradiction H. reflexivity.
  - pose proof (pp_scan_nb _ _ _ _ _ _ _ Es (Z.le_refl 0)) as Hnb.
    pose proof (maxvar_nonneg (map pc_lits cs)) as Hmv.
    destruct (bind_units U (repeat 0 (Z.to_nat nb))) as [M ok] eqn:Eb.
    destruct ok.
    + pose proof (bind_units_ok U _ U M HU (incl_refl U) (msound_repeat0 _ U) Eb) as HM.
      unfold simplify_pb.
      pose proof (replicate_units_sound (GP nb Indet U M C) HU HM) as HM'.
      destruct (spb_loop fuel (replicate_units (GP nb Indet U M C))) as [g' b] eqn:El. cbn [fst].
      rewrite spb_loop_gen in El.
      destruct (gen_loop_ok pbgood spb_step spb_step_ok fuel _ g' b El eq_refl HM' HC)
        as [Q1 _]. intros _. rewrite Q1. simpl. lia.
    + simpl. intros H. contradiction H. reflexivity.
Qed.

Lemma nonzero_lits_in : forall ls N, nonzero ls -> maxvar_clause ls <= Z.of_nat N -> lits_in N ls.
Proof.
  intros ls N Hnz Hm l Hl. unfold nonzero in Hnz. rewrite Forall_forall in Hnz.
  split; [apply Hnz; exact Hl|]. pose proof (maxvar_clause_ge ls l Hl). lia.
Qed.

Lemma sat_pbs_fit : forall N m cs, wf_pbs cs -> maxvar (map pc_lits cs) <= Z.of_nat N ->
  sat_pbs (fit N m) cs = sat_pbs m cs.
Proof.
  intros N m cs. unfold sat_pbs. induction cs as [|c cs IH]; intros Hwf Hm; [reflexivity|].
  inversion Hwf as [|? ? Hc Hcs]; subst. cbn [map maxvar] in Hm.
  pose proof (maxvar_nonneg (map pc_lits cs)). pose proof (maxvar_clause_nonneg (pc_lits c)).
  cbn [map forallb]. rewrite IH by (try assumption; lia). f_equal.
  destruct (wf_pbconstr_facts c Hc) as [F1 [_ [_ F4]]].
  unfold sat_pbc, pbconstr_pbc. cbn [terms degree]. rewrite lhs_fit; [reflexivity|].
  rewrite F4. apply nonzero_lits_in; [exact F1|lia].
Qed.

Theorem solve_pb_spec : forall cs, forallb wf_pbconstrb cs = true ->
  match solve_pb cs with
  | (Sat, Some m) =>
      List.length m = Z.to_nat (maxvar (map pc_lits cs)) /\
      forallb (sat_pbc m) (map pbconstr_pbc cs) = true
  | (Unsat, None) => forall m, forallb (sat_pbc m) (map pbconstr_pbc cs) = false
  | _ => False
  end.
Proof.
  intros cs Hb. pose proof (wf_pbsb_ok cs Hb) as Hwf. unfold solve_pb, ParsePBConstrs.
  pose proof (solve_gproblem_spec (parse_pb (parse_pb_fuel cs) cs) (fun m => sat_pbs m cs)
                (fun m => parse_pb_equiv cs m _ Hb)) as H.
  destruct (solve_gproblem (parse_pb (parse_pb_fuel cs) cs)) as [[| |] [m|]]; try exact H.
  - destruct H as [Hl [HL HS]]. rewrite parse_pb_nbvars in HL by assumption. split; assumption.
  - destruct H as [[_ H]|[Hl H]]; [exact H|].
    rewrite parse_pb_nbvars in H by assumption.
    apply (no_model_any_length (fun m => sat_pbs m cs) _ ) with (2 := H).
    intros m. apply sat_pbs_fit; [exact Hwf|]. pose proof (maxvar_nonneg (map pc_lits cs)). lia.
Qed.

(* ------------------------------------------------------------------ *)
(* C02: ParseCardConstrs + search.  Constraints with AtLeast <= 0 are    *)
(* skipped before their variables are counted (parser_pb.go:17-19).      *)

Definition card_live (cs : list cardconstr) : list cardconstr := filter (fun c => 0 <? snd c) cs.

Lemma pc_scan_nb : forall cs nb U C nb' U' C',
  pc_scan cs nb U C = (false, nb', U', C') -> 0 <= nb ->
  nb' = Z.max nb (maxvar (map fst (card_live cs))).
Proof.
  induction cs as [|[lits card] cs IH]; intros nb U C nb' U' C' H Hnb.
  - simpl in H. injection H as <- _ _. simpl. lia.
  - cbn [pc_scan] in H. unfold card_live. cbn [filter snd].
    assert (Hg : grow_all nb lits = Z.max nb (maxvar_clause lits)) by (apply grow_all_max; exact Hnb).
    pose proof (maxvar_clause_nonneg lits) as Hc.
    destruct (card <=? 0) eqn:E0.
    + apply Z.leb_le in E0. replace (0 <? card) with false by (symmetry; apply Z.ltb_ge; exact E0).
      apply IH in H; [exact H|exact Hnb].
    + apply Z.leb_gt in E0. replace (0 <? card) with true by (symmetry; apply Z.ltb_lt; exact E0).
      cbn [map fst maxvar]. fold (card_live cs).
      destruct (Z.of_nat (List.length lits) <? card); [discriminate|].
      destruct (Z.of_nat (List.length lits) =? card); apply IH in H; lia.
Qed.

Lemma parse_card_nbvars : forall fuel cs, wf_cards cs -> gp_status (parse_card fuel cs) <> Unsat ->
  gp_nbvars (parse_card fuel cs) = maxvar (map fst (card_live cs)).
Proof.
  intros fuel cs Hwf. unfold parse_card, parse_card_full.
  destruct (pc_scan cs 0 [] []) as [[[e nb] U] C] eqn:Es.
  destruct (pc_scan_spec cs 0 [] [] e nb U C Es Hwf (Forall_nil _) (Forall_nil _))
    as [HU [HC [_ [Hun Hsem]]]].
  destruct e.
  - simpl. intros H. contradiction H. reflexivity.
  - pose proof (pc_scan_nb _ _ _ _ _ _ _ Es (Z.le_refl 0)) as Hnb.
    pose proof (maxvar_nonneg (map fst (card_live cs))) as Hmv.
    destruct (bind_units U (repeat 0 (Z.to_nat nb))) as [M ok] eqn:Eb.
    destruct ok.
    + pose proof (bind_units_ok U _ U M HU (incl_refl U) (msound_repeat0 _ U) Eb) as HM.
      destruct (sc_loop fuel (GP nb Indet U M C)) as [g' b] eqn:El. cbn [fst].
      rewrite sc_loop_gen in El.
      destruct (gen_loop_ok cardgood sc_step sc_step_ok fuel _ g' b El eq_refl HM HC)
        as [Q1 _]. intros _. rewrite Q1. simpl. lia.
    + simpl. intros H. contradiction H. reflexivity.
Qed.

Lemma sat_cards_fit : forall N m cs, wf_cards cs ->
  maxvar (map fst (card_live cs)) <= Z.of_nat N ->
  sat_cards (fit N m) cs = sat_cards m cs.
Proof.
  intros N m cs. unfold sat_cards. induction cs as [|[lits card] cs IH]; intros Hwf Hm; [reflexivity|].
  inversion Hwf as [|? ? Hc Hcs]; subst. cbn [fst] in Hc.
  unfold card_live in Hm. cbn [filter snd] in Hm. fold (card_live cs) in Hm.
  pose proof (maxvar_nonneg (map fst (card_live cs))) as Hnn.
  pose proof (maxvar_clause_nonneg lits) as Hcn.
  cbn [map forallb]. destruct (0 <? card) eqn:E0.
  - cbn [map fst maxvar] in Hm. rewrite IH by (try assumption; lia). f_equal.
    unfold sat_pbc, card_pbc_of, card_pbc. cbn [terms degree fst snd].
    rewrite lhs_fit; [reflexivity|]. rewrite map_snd_unit_terms.
    apply nonzero_lits_in; [exact Hc|lia].
  - apply Z.ltb_ge in E0. rewrite IH by assumption. f_equal.
    unfold sat_pbc, card_pbc_of, card_pbc. cbn [terms degree fst snd].
    pose proof (lhs_unit_nonneg (fit N m) lits). pose proof (lhs_unit_nonneg m lits).
    transitivity true; [|symmetry]; apply Z.leb_le; lia.
Qed.

Theorem solve_card_spec : forall cs, forallb wf_cardconstrb cs = true ->
  match solve_card cs with
  | (Sat, Some m) =>
      List.length m = Z.to_nat (maxvar (map fst (card_live cs))) /\
      forallb (sat_pbc m) (map card_pbc_of cs) = true
  | (Unsat, None) => forall m, forallb (sat_pbc m) (map card_pbc_of cs) = false
  | _ => False
  end.
Proof.
  intros cs Hb. pose proof (wf_cardsb_ok cs Hb) as Hwf. unfold solve_card, ParseCardConstrs.
  pose proof (solve_gproblem_spec (parse_card (parse_card_fuel cs) cs) (fun m => sat_cards m cs)
                (fun m => parse_card_equiv cs m _ Hb)) as H.
  destruct (solve_gproblem (parse_card (parse_card_fuel cs) cs)) as [[| |] [m|]]; try exact H.
  - destruct H as [Hl [HL HS]]. rewrite parse_card_nbvars in HL by assumption. split; assumption.
  - destruct H as [[_ H]|[Hl H]]; [exact H|].
    rewrite parse_card_nbvars in H by assumption.
    apply (no_model_any_length (fun m => sat_cards m cs) _ ) with (2 := H).
    intros m. apply sat_cards_fit; [exact Hwf|].
    pose proof (maxvar_nonneg (map fst (card_live cs))). lia.
Qed.

(* ------------------------------------------------------------------ *)
(* C02: user-level constraints through GtEq / LtEq / Eq                  *)

Lemma pbconstr_pbc_gopb : forall g, pbconstr_pbc (gopb_pbconstr g) = pbc_of_gopb g.
Proof.
  intros g. unfold pbconstr_pbc, pbconstr_terms, gopb_pbconstr, pbc_of_gopb. cbn [pc_weights pc_lits pc_atleast].
  destruct (g_ws g); reflexivity.
Qed.

Lemma wf_clause_litsb : forall c, wf_clause c -> forallb (fun l => negb (l =? 0)) c = true.
Proof.
  intros c H. apply forallb_forall. intros l Hl. apply negb_true_iff. apply Z.eqb_neq. apply (H l Hl).
Qed.

Lemma gt_eq_wfb : forall (L ws : list Z) k, wf_clause L -> List.length L = List.length ws ->
  wf_pbconstrb (gopb_pbconstr (gt_eq L ws k)) = true.
Proof.
  intros L ws k Hwf Hlen. unfold wf_pbconstrb, gopb_pbconstr. cbn [pc_lits pc_weights].
  apply andb_true_iff. split.
  - apply wf_clause_litsb. apply Proofs.PBNorm.gt_eq_wf. exact Hwf.
  - destruct (g_ws (gt_eq L ws k)) as [ws'|] eqn:Ew; [|reflexivity].
    pose proof (Proofs.PBNorm.gt_eq_lengths L ws k Hlen ws' Ew) as HL.
    pose proof (Proofs.PBNorm.gt_eq_positive L ws k) as HP.
    unfold pbc_of_gopb in HP. rewrite Ew in HP. cbn [terms] in HP.
    apply andb_true_iff. split; [apply Nat.eqb_eq; symmetry; exact HL|].
    apply forallb_forall. intros w Hw. apply Z.ltb_lt.
    rewrite <- (Proofs.PBNorm.map_fst_combine ws' (g_lits (gt_eq L ws k)) HL) in Hw.
    apply in_map_iff in Hw. destruct Hw as [t [<- Ht]].
    rewrite Forall_forall in HP. apply HP. exact Ht.
Qed.

Definition wf_uc (c : uc) : Prop := wf_clause (map snd (u_terms c)).
Definition wf_ucb (c : uc) : bool := forallb (fun l => negb (l =? 0)) (map snd (u_terms c)).

Lemma wf_ucb_ok : forall c, wf_ucb c = true -> wf_uc c.
Proof.
  intros c H l Hl. unfold wf_ucb in H. rewrite forallb_forall in H. specialize (H l Hl).
  apply negb_true_iff in H. apply Z.eqb_neq in H. exact H.
Qed.

Lemma norm_uc_wfb : forall c g, wf_uc c -> In g (norm_uc c) -> wf_pbconstrb (gopb_pbconstr g) = true.
Proof.
  intros c g Hwf Hin.
  assert (Hlen : List.length (map snd (u_terms c)) = List.length (map fst (u_terms c)))
    by (rewrite !map_length; reflexivity).
  assert (Hge : forall k, wf_pbconstrb (gopb_pbconstr (gt_eq (map snd (u_terms c)) (map fst (u_terms c)) k)) = true)
    by (intros k; apply gt_eq_wfb; assumption).
  assert (Hle : forall k, wf_pbconstrb (gopb_pbconstr (lt_eq (map snd (u_terms c)) (map fst (u_terms c)) k)) = true).
  { intros k. unfold lt_eq. apply gt_eq_wfb; [apply Proofs.PBNorm.wf_clause_opp; exact Hwf|].
    rewrite map_length. exact Hlen. }
  unfold norm_uc in Hin. destruct (u_rel c).
  - destruct Hin as [<-|[]]. apply Hge.
  - destruct Hin as [<-|[]]. apply Hle.
  - unfold eq_ in Hin. apply in_app_iff in Hin. destruct Hin as [Hin|Hin].
    + destruct (0 <? g_atleast _) in Hin; [|destruct Hin]. destruct Hin as [<-|[]]. apply Hge.
    + destruct (0 <? g_atleast _) in Hin; [|destruct Hin]. destruct Hin as [<-|[]]. apply Hle.
Qed.

Lemma user_pbconstrs_wfb : forall ucs, Forall wf_uc ucs ->
  forallb wf_pbconstrb (user_pbconstrs ucs) = true.
Proof.
  intros ucs H. unfold user_pbconstrs. apply forallb_forall. intros p Hp.
  apply in_map_iff in Hp. destruct Hp as [g [<- Hg]]. apply in_flat_map in Hg.
  destruct Hg as [c [Hc Hg]]. rewrite Forall_forall in H. apply (norm_uc_wfb c g (H c Hc) Hg).
Qed.

Lemma user_pbconstrs_sem : forall m ucs, Forall wf_uc ucs ->
  forallb (sat_pbc m) (map pbconstr_pbc (user_pbconstrs ucs)) = sat_uproblem m ucs.
Proof.
  intros m ucs. unfold user_pbconstrs, sat_uproblem. induction ucs as [|c ucs IH]; intros H; [reflexivity|].
  inversion H as [|? ? Hc Hr]; subst. cbn [flat_map forallb]. rewrite !map_app, forallb_app.
  rewrite IH by exact Hr. f_equal.
  rewrite <- (Proofs.PBNorm.norm_uc_spec c m Hc).
  induction (norm_uc c) as [|g gs IHg]; [reflexivity|]. cbn [map forallb].
  rewrite pbconstr_pbc_gopb, IHg. reflexivity.
Qed.

Theorem solve_user_spec : forall ucs, Forall wf_uc ucs ->
  match solve_user ucs with
  | (Sat, Some m) =>
      List.length m = Z.to_nat (maxvar (map pc_lits (user_pbconstrs ucs))) /\
      sat_uproblem m ucs = true
  | (Unsat, None) => forall m, sat_uproblem m ucs = false
  | _ => False
  end.
Proof.
  intros ucs Hwf. unfold solve_user.
  pose proof (solve_pb_spec (user_pbconstrs ucs) (user_pbconstrs_wfb ucs Hwf)) as H.
  destruct (solve_pb (user_pbconstrs ucs)) as [[| |] [m|]]; try exact H.
  - rewrite user_pbconstrs_sem in H by exact Hwf. exact H.
  - intros m. rewrite <- user_pbconstrs_sem by exact Hwf. apply H.
Qed.

(* trivially true constraints (AtLeast <= 0 after normalisation) are the ones
   NewPBClause would reject; ParsePBConstrs skips them, and they hold *)
Lemma skipped_constraints_hold : forall ucs g (m : list bool), Forall wf_uc ucs ->
  In g (flat_map norm_uc ucs) -> g_atleast g <= 0 -> sat_pbc m (pbc_of_gopb g) = true.
Proof.
  intros ucs g m Hwf Hin Hle. apply in_flat_map in Hin. destruct Hin as [c [Hc Hg]].
  apply Proofs.PBNorm.trivial_true_gopb; [|exact Hle].
  apply Proofs.PBNorm.pos_nonneg_terms. apply (Proofs.PBNorm.norm_uc_positive c g Hg).
Qed.

(* examples *)
Example ex_solve_cnf : solve_cnf 0 [[1; 2]; [-1]; [3; -2; 4]] = (Sat, Some [false; true; false; true]).
Proof. vm_compute. reflexivity. Qed.
Example ex_solve_cnf_empty : solve_cnf 3 [[1; 2]; []; [7]] = (Unsat, None) /\
  gp_nbvars (ParseSliceNb [[1; 2]; []; [7]] 3) = 3.
Proof. vm_compute. split; reflexivity. Qed.
Example ex_solve_user :
  solve_user [UC [(2, 1); (-3, 2); (1, 3)] Eq 0; UC [(1, 1); (1, 3)] Ge 1] = (Sat, Some [true; true; true]).
Proof. vm_compute. reflexivity. Qed.
Example ex_wf_user : Forall wf_uc [UC [(2, 1); (-3, 2); (1, 3)] Eq 0; UC [(1, 1); (1, 3)] Ge 1].
Proof. repeat constructor; apply wf_ucb_ok; reflexivity. Qed.
Example ex_wf_dimacs : Proofs.TextDimacs.wf_dimacs 3 [[1; -2]; []; [3]].
Proof.
  split; [lia|]. intros c Hc l Hl. simpl in Hc.
  destruct Hc as [<-|[<-|[<-|[]]]]; simpl in Hl; intuition lia.
Qed.
