(* Proofs about Model/Bf.v (package bf): nnf, shape of the NNF, the
   definitional CNF (both directions), Unique, Solve and the DIMACS export. *)
From Coq Require Import List ZArith NArith Bool String Ascii Arith Lia DecimalString
     DecimalN Permutation.
From GS Require Import Spec.Base Spec.PB Spec.Solver Model.Bf.
Import ListNotations.
Open Scope Z_scope.

(* ------------------------------------------------------------------ *)
(* Induction principle for the nested inductive [form].                 *)

Section FormInd.
  Variable P : form -> Prop.
  Hypothesis HVar : forall v, P (FVar v).
  Hypothesis HLit : forall v s, P (FLit v s).
  Hypothesis HNot : forall f, P f -> P (FNot f).
  Hypothesis HAnd : forall l, Forall P l -> P (FAnd l).
  Hypothesis HOr : forall l, Forall P l -> P (FOr l).
  Hypothesis HTrue : P FTrue.
  Hypothesis HFalse : P FFalse.

  Fixpoint form_ind' (f : form) : P f :=
    match f with
    | FVar v => HVar v
    | FLit v s => HLit v s
    | FNot g => HNot g (form_ind' g)
    | FAnd l => HAnd l ((fix go (l : list form) : Forall P l :=
                           match l with
                           | [] => Forall_nil P
                           | x :: r => Forall_cons x (form_ind' x) (go r)
                           end) l)
    | FOr l => HOr l ((fix go (l : list form) : Forall P l :=
                         match l with
                         | [] => Forall_nil P
                         | x :: r => Forall_cons x (form_ind' x) (go r)
                         end) l)
    | FTrue => HTrue
    | FFalse => HFalse
    end.
End FormInd.

(* ------------------------------------------------------------------ *)
(* var_eqb                                                              *)

Lemma var_eqb_eq : forall a b, var_eqb a b = true <-> a = b.
Proof.
  intros [na da] [nb db]. unfold var_eqb; simpl. rewrite andb_true_iff.
  rewrite String.eqb_eq, Bool.eqb_true_iff. split.
  - intros [-> ->]. reflexivity.
  - intros E. injection E as -> ->. auto.
Qed.

Lemma var_eqb_refl : forall a, var_eqb a a = true.
Proof. intros a. apply var_eqb_eq. reflexivity. Qed.

Lemma var_eqb_neq : forall a b, var_eqb a b = false <-> a <> b.
Proof.
  intros a b. split.
  - intros H E. apply var_eqb_eq in E. congruence.
  - intros H. destruct (var_eqb a b) eqn:E; [|reflexivity].
    apply var_eqb_eq in E. contradiction.
Qed.

Lemma var_eq_dec : forall a b : var, {a = b} + {a <> b}.
Proof.
  intros a b. destruct (var_eqb a b) eqn:E.
  - left. apply var_eqb_eq. exact E.
  - right. apply var_eqb_neq. exact E.
Qed.

(* ------------------------------------------------------------------ *)
(* nnf preserves the semantics.                                         *)

Lemma and_collect_none : forall env l,
  and_collect l = None -> forallb (eval env) l = false.
Proof.
  induction l as [|x l IH]; simpl; intros H; [discriminate|].
  destruct x; simpl;
    try (destruct (and_collect l); simpl in H; [discriminate|];
         rewrite IH by reflexivity; apply andb_false_r).
  - apply IH. exact H.
  - reflexivity.
Qed.

Lemma and_collect_some : forall env l res,
  and_collect l = Some res -> forallb (eval env) res = forallb (eval env) l.
Proof.
  induction l as [|x l IH]; simpl; intros res H.
  - injection H as <-. reflexivity.
  - destruct x;
      try (destruct (and_collect l) as [r|]; simpl in H; [|discriminate];
           injection H as <-; simpl; rewrite (IH r eq_refl); reflexivity).
    + destruct (and_collect l) as [r|]; simpl in H; [|discriminate].
      injection H as <-. rewrite forallb_app. simpl. rewrite (IH r eq_refl). reflexivity.
    + discriminate.
Qed.

Lemma eval_and_fold : forall env l, eval env (and_fold l) = forallb (eval env) l.
Proof.
  intros env l. unfold and_fold. destruct (and_collect l) as [res|] eqn:E.
  - rewrite <- (and_collect_some env _ _ E).
    destruct res as [|x [|y r]]; simpl; try reflexivity.
    rewrite andb_true_r. reflexivity.
  - rewrite (and_collect_none env _ E). reflexivity.
Qed.

Lemma or_collect_none : forall env l,
  or_collect l = None -> existsb (eval env) l = true.
Proof.
  induction l as [|x l IH]; simpl; intros H; [discriminate|].
  destruct x; simpl;
    try (destruct (or_collect l); simpl in H; [discriminate|];
         rewrite IH by reflexivity; apply orb_true_r).
  - reflexivity.
  - apply IH. exact H.
Qed.

Lemma or_collect_some : forall env l res,
  or_collect l = Some res -> existsb (eval env) res = existsb (eval env) l.
Proof.
  induction l as [|x l IH]; simpl; intros res H.
  - injection H as <-. reflexivity.
  - destruct x;
      try (destruct (or_collect l) as [r|]; simpl in H; [|discriminate];
           injection H as <-; simpl; rewrite (IH r eq_refl); reflexivity).
    + destruct (or_collect l) as [r|]; simpl in H; [|discriminate].
      injection H as <-. rewrite existsb_app. simpl. rewrite (IH r eq_refl). reflexivity.
    + discriminate.
Qed.

Lemma eval_or_fold : forall env l, eval env (or_fold l) = existsb (eval env) l.
Proof.
  intros env l. unfold or_fold. destruct (or_collect l) as [res|] eqn:E.
  - rewrite <- (or_collect_some env _ _ E).
    destruct res as [|x [|y r]]; simpl; try reflexivity.
    rewrite orb_false_r. reflexivity.
  - rewrite (or_collect_none env _ E). reflexivity.
Qed.

Lemma forallb_map {A B} (g : B -> bool) (f : A -> B) l :
  forallb g (map f l) = forallb (fun x => g (f x)) l.
Proof. induction l as [|x l IH]; simpl; [reflexivity|]. rewrite IH. reflexivity. Qed.

Lemma existsb_map {A B} (g : B -> bool) (f : A -> B) l :
  existsb g (map f l) = existsb (fun x => g (f x)) l.
Proof. induction l as [|x l IH]; simpl; [reflexivity|]. rewrite IH. reflexivity. Qed.

Lemma forallb_ext_Forall {A} (f g : A -> bool) l :
  Forall (fun x => f x = g x) l -> forallb f l = forallb g l.
Proof. induction 1 as [|x l H _ IH]; simpl; [reflexivity|]. rewrite H, IH. reflexivity. Qed.

Lemma existsb_ext_Forall {A} (f g : A -> bool) l :
  Forall (fun x => f x = g x) l -> existsb f l = existsb g l.
Proof. induction 1 as [|x l H _ IH]; simpl; [reflexivity|]. rewrite H, IH. reflexivity. Qed.

Lemma negb_forallb {A} (f : A -> bool) l :
  negb (forallb f l) = existsb (fun x => negb (f x)) l.
Proof. induction l as [|x l IH]; simpl; [reflexivity|]. rewrite negb_andb, IH. reflexivity. Qed.

Lemma negb_existsb {A} (f : A -> bool) l :
  negb (existsb f l) = forallb (fun x => negb (f x)) l.
Proof. induction l as [|x l IH]; simpl; [reflexivity|]. rewrite negb_orb, IH. reflexivity. Qed.

Lemma eval_nnfp : forall env f neg,
  eval env (nnfp neg f) = if neg then negb (eval env f) else eval env f.
Proof.
  intros env f. induction f as [v|v s|f IH|l IH|l IH| |] using form_ind'; intros neg; simpl.
  - destruct neg; reflexivity.
  - destruct neg, s; simpl; try reflexivity. rewrite negb_involutive. reflexivity.
  - rewrite IH. destruct neg; simpl; [rewrite negb_involutive|]; reflexivity.
  - destruct neg.
    + rewrite eval_or_fold, existsb_map, negb_forallb.
      apply existsb_ext_Forall. eapply Forall_impl; [|exact IH].
      intros a Ha. exact (Ha true).
    + rewrite eval_and_fold, forallb_map.
      apply forallb_ext_Forall. eapply Forall_impl; [|exact IH].
      intros a Ha. exact (Ha false).
  - destruct neg.
    + rewrite eval_and_fold, forallb_map, negb_existsb.
      apply forallb_ext_Forall. eapply Forall_impl; [|exact IH].
      intros a Ha. exact (Ha true).
    + rewrite eval_or_fold, existsb_map.
      apply existsb_ext_Forall. eapply Forall_impl; [|exact IH].
      intros a Ha. exact (Ha false).
  - destruct neg; reflexivity.
  - destruct neg; reflexivity.
Qed.

Theorem nnf_eval : forall f env, eval env (nnf f) = eval env f.
Proof. intros f env. unfold nnf. rewrite eval_nnfp. reflexivity. Qed.

(* ------------------------------------------------------------------ *)
(* Shape of the NNF.                                                    *)

Lemma nnf_sub_top : forall k f, nnf_sub k f = true -> nnf_sub KTop f = true.
Proof.
  intros k f H. destruct f; simpl in *; try exact H.
  - destruct k; simpl in *; try exact H. discriminate.
  - destruct k; simpl in *; try exact H. discriminate.
Qed.

Lemma nnf_sub_is_nnf : forall k f, nnf_sub k f = true -> is_nnf f = true.
Proof.
  intros k f H. destruct f; try (simpl in H; discriminate); try reflexivity;
    unfold is_nnf; apply (nnf_sub_top k); exact H.
Qed.

Lemma and_collect_shape : forall l res,
  Forall (fun g => is_nnf g = true) l -> and_collect l = Some res ->
  forallb (nnf_sub KAnd) res = true.
Proof.
  induction l as [|x l IH]; intros res HF H; simpl in H.
  - injection H as <-. reflexivity.
  - inversion HF as [|x' l' Hx Hl]; subst.
    destruct x; try (simpl in Hx; discriminate); unfold is_nnf in Hx; cbn [nnf_sub] in Hx.
    + destruct (and_collect l) as [r|]; simpl in H; [|discriminate].
      injection H as <-. simpl. apply IH; auto.
    + destruct (and_collect l) as [r|]; simpl in H; [|discriminate].
      injection H as <-. rewrite forallb_app. rewrite (IH r Hl eq_refl).
      apply andb_true_iff in Hx. destruct Hx as [_ Hx]. rewrite Hx. reflexivity.
    + destruct (and_collect l) as [r|]; simpl in H; [|discriminate].
      injection H as <-. cbn [forallb]. rewrite (IH r Hl eq_refl).
      cbn [nnf_sub]. rewrite Hx. reflexivity.
    + apply IH; auto.
Qed.

Lemma or_collect_shape : forall l res,
  Forall (fun g => is_nnf g = true) l -> or_collect l = Some res ->
  forallb (nnf_sub KOr) res = true.
Proof.
  induction l as [|x l IH]; intros res HF H; simpl in H.
  - injection H as <-. reflexivity.
  - inversion HF as [|x' l' Hx Hl]; subst.
    destruct x; try (simpl in Hx; discriminate); unfold is_nnf in Hx; cbn [nnf_sub] in Hx.
    + destruct (or_collect l) as [r|]; simpl in H; [|discriminate].
      injection H as <-. simpl. apply IH; auto.
    + destruct (or_collect l) as [r|]; simpl in H; [|discriminate].
      injection H as <-. cbn [forallb]. rewrite (IH r Hl eq_refl).
      cbn [nnf_sub]. rewrite Hx. reflexivity.
    + destruct (or_collect l) as [r|]; simpl in H; [|discriminate].
      injection H as <-. rewrite forallb_app. rewrite (IH r Hl eq_refl).
      apply andb_true_iff in Hx. destruct Hx as [_ Hx]. rewrite Hx. reflexivity.
    + apply IH; auto.
Qed.

Lemma and_fold_shape : forall l,
  Forall (fun g => is_nnf g = true) l -> is_nnf (and_fold l) = true.
Proof.
  intros l HF. unfold and_fold. destruct (and_collect l) as [res|] eqn:E; [|reflexivity].
  pose proof (and_collect_shape _ _ HF E) as HS.
  destruct res as [|x [|y r]]; [reflexivity| |].
  - simpl in HS. rewrite andb_true_r in HS. apply (nnf_sub_is_nnf KAnd). exact HS.
  - cbn [is_nnf nnf_sub]. rewrite HS. reflexivity.
Qed.

Lemma or_fold_shape : forall l,
  Forall (fun g => is_nnf g = true) l -> is_nnf (or_fold l) = true.
Proof.
  intros l HF. unfold or_fold. destruct (or_collect l) as [res|] eqn:E; [|reflexivity].
  pose proof (or_collect_shape _ _ HF E) as HS.
  destruct res as [|x [|y r]]; [reflexivity| |].
  - simpl in HS. rewrite andb_true_r in HS. apply (nnf_sub_is_nnf KOr). exact HS.
  - cbn [is_nnf nnf_sub]. rewrite HS. reflexivity.
Qed.

Lemma nnfp_shape : forall f neg, is_nnf (nnfp neg f) = true.
Proof.
  induction f as [v|v s|f IH|l IH|l IH| |] using form_ind'; intros neg; simpl.
  - reflexivity.
  - reflexivity.
  - apply IH.
  - destruct neg; [apply or_fold_shape|apply and_fold_shape];
      apply Forall_forall; intros g Hg; apply in_map_iff in Hg;
      destruct Hg as [x [<- Hx]]; rewrite Forall_forall in IH; apply IH; exact Hx.
  - destruct neg; [apply and_fold_shape|apply or_fold_shape];
      apply Forall_forall; intros g Hg; apply in_map_iff in Hg;
      destruct Hg as [x [<- Hx]]; rewrite Forall_forall in IH; apply IH; exact Hx.
  - destruct neg; reflexivity.
  - destruct neg; reflexivity.
Qed.

Theorem nnf_shape : forall f, is_nnf (nnf f) = true.
Proof. intros f. apply nnfp_shape. Qed.

(* cnfRec does not panic on an NNF *)
Lemma nnf_sub_cnf_ok : forall f k, nnf_sub k f = true -> cnf_ok f = true.
Proof.
  induction f as [v|v s|f IH|l IH|l IH| |] using form_ind'; intros k H; simpl in *;
    try discriminate; try reflexivity.
  - apply andb_true_iff in H. destruct H as [_ H].
    rewrite forallb_forall in *. rewrite Forall_forall in IH.
    intros x Hx. apply (IH x Hx KAnd). apply H. exact Hx.
  - apply andb_true_iff in H. destruct H as [_ H].
    rewrite forallb_forall in *. rewrite Forall_forall in IH.
    intros x Hx. specialize (H x Hx). specialize (IH x Hx KOr H).
    destruct x; simpl in *; try discriminate; auto.
Qed.

Lemma is_nnf_cnf_ok : forall f, is_nnf f = true -> cnf_ok f = true.
Proof.
  intros f H. destruct f; simpl in H; try discriminate; try reflexivity.
  - apply (nnf_sub_cnf_ok _ KTop). exact H.
  - apply (nnf_sub_cnf_ok _ KTop). exact H.
Qed.

Theorem nnf_cnf_ok : forall f, cnf_ok (nnf f) = true.
Proof. intros f. apply is_nnf_cnf_ok. apply nnf_shape. Qed.

(* nnf is the identity on an NNF: the second normalisation pass of the De
   Morgan cases of not.nnf (bf.go:170,176) changes nothing. *)
Lemma and_collect_id : forall l, forallb (nnf_sub KAnd) l = true -> and_collect l = Some l.
Proof.
  induction l as [|x l IH]; simpl; intros H; [reflexivity|].
  apply andb_true_iff in H. destruct H as [Hx Hl].
  destruct x; simpl in Hx; try discriminate; rewrite (IH Hl); reflexivity.
Qed.

Lemma or_collect_id : forall l, forallb (nnf_sub KOr) l = true -> or_collect l = Some l.
Proof.
  induction l as [|x l IH]; simpl; intros H; [reflexivity|].
  apply andb_true_iff in H. destruct H as [Hx Hl].
  destruct x; simpl in Hx; try discriminate; rewrite (IH Hl); reflexivity.
Qed.

Lemma map_id_Forall {A} (f : A -> A) l : Forall (fun x => f x = x) l -> map f l = l.
Proof. induction 1 as [|x l H _ IH]; simpl; [reflexivity|]. rewrite H, IH. reflexivity. Qed.

Lemma nnf_sub_fix : forall f k, nnf_sub k f = true -> nnfp false f = f.
Proof.
  induction f as [v|v s|f IH|l IH|l IH| |] using form_ind'; intros k H; simpl in *;
    try discriminate; try reflexivity.
  - apply andb_true_iff in H. destruct H as [H Hl].
    apply andb_true_iff in H. destruct H as [_ Hn].
    assert (E : map (nnfp false) l = l).
    { apply map_id_Forall. rewrite Forall_forall in *. rewrite forallb_forall in Hl.
      intros x Hx. apply (IH x Hx KAnd). apply Hl. exact Hx. }
    rewrite E. unfold and_fold. rewrite (and_collect_id _ Hl).
    destruct l as [|x [|y r]]; simpl in Hn; try discriminate. reflexivity.
  - apply andb_true_iff in H. destruct H as [H Hl].
    apply andb_true_iff in H. destruct H as [_ Hn].
    assert (E : map (nnfp false) l = l).
    { apply map_id_Forall. rewrite Forall_forall in *. rewrite forallb_forall in Hl.
      intros x Hx. apply (IH x Hx KOr). apply Hl. exact Hx. }
    rewrite E. unfold or_fold. rewrite (or_collect_id _ Hl).
    destruct l as [|x [|y r]]; simpl in Hn; try discriminate. reflexivity.
Qed.

Lemma is_nnf_fix : forall f, is_nnf f = true -> nnf f = f.
Proof.
  intros f H. unfold nnf. destruct f; simpl in H; try discriminate; try reflexivity.
  - apply (nnf_sub_fix _ KTop). exact H.
  - apply (nnf_sub_fix _ KTop). exact H.
Qed.

Theorem nnf_idem : forall f neg, nnf (nnfp neg f) = nnfp neg f.
Proof. intros f neg. apply is_nnf_fix. apply nnfp_shape. Qed.

(* ------------------------------------------------------------------ *)
(* Decimal names, the dummy-k variables.                                *)

Lemma dec_inj : forall a b, dec a = dec b -> a = b.
Proof.
  intros a b H. unfold dec in H.
  assert (E : N.to_uint a = N.to_uint b).
  { pose proof (NilEmpty.usu (N.to_uint a)) as Ha.
    pose proof (NilEmpty.usu (N.to_uint b)) as Hb.
    rewrite H in Ha. rewrite Ha in Hb. injection Hb as Hb. exact Hb. }
  rewrite <- (DecimalN.Unsigned.of_to a), <- (DecimalN.Unsigned.of_to b), E. reflexivity.
Qed.

Lemma tseitin_var_name : forall i, tseitin_name (tseitin_var i) = true.
Proof.
  intros i. unfold tseitin_name, tseitin_var. simpl. destruct (dec (Z.to_N i)); reflexivity.
Qed.

Lemma tseitin_var_inj : forall a b, 0 <= a -> 0 <= b -> tseitin_var a = tseitin_var b -> a = b.
Proof.
  intros a b Ha Hb H. unfold tseitin_var, dummy_var in H. simpl in H.
  injection H as H. apply dec_inj in H. lia.
Qed.

(* ------------------------------------------------------------------ *)
(* Association lists.                                                   *)

Definition keys (t : table) : list var := map fst t.

Lemma tbl_get_in : forall t v i, tbl_get t v = Some i -> In (v, i) t.
Proof.
  induction t as [|[w x] t IH]; simpl; intros v i H; [discriminate|].
  destruct (var_eqb w v) eqn:E.
  - apply var_eqb_eq in E. injection H as <-. subst. left. reflexivity.
  - right. apply IH. exact H.
Qed.

Lemma tbl_get_none : forall t v, tbl_get t v = None <-> ~ In v (keys t).
Proof.
  induction t as [|[w x] t IH]; simpl; intros v.
  - split; auto.
  - destruct (var_eqb w v) eqn:E.
    + apply var_eqb_eq in E. split; [discriminate|]. intros H. exfalso. apply H. auto.
    + apply var_eqb_neq in E. rewrite IH. split.
      * intros H [H1|H1]; auto.
      * intros H H1. apply H. auto.
Qed.

Lemma tbl_get_some_key : forall t v i, tbl_get t v = Some i -> In v (keys t).
Proof.
  intros t v i H. apply tbl_get_in in H. unfold keys. apply in_map_iff.
  exists (v, i). auto.
Qed.

Lemma in_tbl_get : forall t v i, NoDup (keys t) -> In (v, i) t -> tbl_get t v = Some i.
Proof.
  induction t as [|[w x] t IH]; simpl; intros v i ND H; [contradiction|].
  inversion ND as [|k ks Hk Hks]; subst.
  destruct H as [H|H].
  - injection H as -> ->. rewrite var_eqb_refl. reflexivity.
  - destruct (var_eqb w v) eqn:E.
    + apply var_eqb_eq in E. subst. exfalso. apply Hk.
      unfold keys. apply in_map_iff. exists (v, i). auto.
    + apply IH; auto.
Qed.

Lemma tbl_set_fresh : forall t v x, tbl_get t v = None -> tbl_set t v x = t ++ [(v, x)].
Proof.
  induction t as [|[w y] t IH]; simpl; intros v x H; [reflexivity|].
  destruct (var_eqb w v); [discriminate|]. rewrite IH by exact H. reflexivity.
Qed.

Lemma tbl_get_app : forall t e v,
  tbl_get (t ++ e) v = match tbl_get t v with Some i => Some i | None => tbl_get e v end.
Proof.
  induction t as [|[w y] t IH]; simpl; intros e v; [reflexivity|].
  destruct (var_eqb w v); [reflexivity|]. apply IH.
Qed.

(* ------------------------------------------------------------------ *)
(* The invariant of the variable table.                                 *)

Definition nvars (vs : vars) : Z := tbl_len (v_all vs).

Record wf_vars (vs : vars) : Prop := {
  wf_idx : forall k v i, nth_error (v_all vs) k = Some (v, i) -> i = Z.of_nat k + 1;
  wf_nodup : NoDup (keys (v_all vs));
  wf_ts : forall v i, In (v, i) (v_all vs) -> tseitin_name v = true -> v = tseitin_var i;
  wf_pb : v_pb vs = filter (fun e => negb (tseitin_name (fst e))) (v_all vs) }.

Definition ext (vs vs' : vars) : Prop := exists e, v_all vs' = v_all vs ++ e.

Lemma ext_refl : forall vs, ext vs vs.
Proof. intros vs. exists []. rewrite List.app_nil_r. reflexivity. Qed.

Lemma ext_trans : forall a b c, ext a b -> ext b c -> ext a c.
Proof.
  intros a b c [e1 H1] [e2 H2]. exists (e1 ++ e2). rewrite H2, H1, List.app_assoc. reflexivity.
Qed.

Lemma ext_nvars : forall a b, ext a b -> nvars a <= nvars b.
Proof.
  intros a b [e H]. unfold nvars, tbl_len. rewrite H, app_length. lia.
Qed.

Definition sub_tbl (t T : table) : Prop :=
  forall v i, tbl_get t v = Some i -> tbl_get T v = Some i.

Lemma ext_sub_tbl : forall a b, ext a b -> sub_tbl (v_all a) (v_all b).
Proof.
  intros a b [e H] v i G. rewrite H, tbl_get_app, G. reflexivity.
Qed.

Lemma sub_tbl_trans : forall a b c, sub_tbl a b -> sub_tbl b c -> sub_tbl a c.
Proof. intros a b c H1 H2 v i G. apply H2, H1, G. Qed.

Lemma wf_empty : wf_vars (Vars [] []).
Proof.
  constructor; simpl.
  - intros k v i H. destruct k; discriminate.
  - constructor.
  - intros v i [].
  - reflexivity.
Qed.

Lemma wf_in_range : forall vs v i, wf_vars vs -> In (v, i) (v_all vs) -> 1 <= i <= nvars vs.
Proof.
  intros vs v i W H. apply In_nth_error in H. destruct H as [k Hk].
  pose proof (wf_idx _ W _ _ _ Hk) as E.
  assert (k < List.length (v_all vs))%nat by (apply nth_error_Some; congruence).
  unfold nvars, tbl_len. lia.
Qed.

Lemma wf_get_range : forall vs v i, wf_vars vs -> tbl_get (v_all vs) v = Some i -> 1 <= i <= nvars vs.
Proof. intros vs v i W H. apply (wf_in_range vs v); auto. apply tbl_get_in. exact H. Qed.

Lemma wf_inj : forall vs v w i, wf_vars vs ->
  In (v, i) (v_all vs) -> In (w, i) (v_all vs) -> v = w.
Proof.
  intros vs v w i W H1 H2.
  apply In_nth_error in H1. destruct H1 as [k1 Hk1].
  apply In_nth_error in H2. destruct H2 as [k2 Hk2].
  pose proof (wf_idx _ W _ _ _ Hk1) as E1. pose proof (wf_idx _ W _ _ _ Hk2) as E2.
  assert (k1 = k2) by lia. subst. rewrite Hk1 in Hk2. injection Hk2 as ->. reflexivity.
Qed.

(* appending a fresh key with the next index *)
Lemma wf_add : forall vs v,
  wf_vars vs -> tbl_get (v_all vs) v = None ->
  (tseitin_name v = true -> v = tseitin_var (nvars vs + 1)) ->
  wf_vars (Vars (v_all vs ++ [(v, nvars vs + 1)])
                (if tseitin_name v then v_pb vs else v_pb vs ++ [(v, nvars vs + 1)])).
Proof.
  intros vs v W G T. constructor; simpl.
  - intros k w i H. destruct (Nat.lt_ge_cases k (List.length (v_all vs))) as [L|L].
    + rewrite nth_error_app1 in H by exact L. apply (wf_idx _ W _ _ _ H).
    + rewrite nth_error_app2 in H by exact L.
      destruct (k - List.length (v_all vs))%nat as [|j] eqn:Ej; simpl in H.
      * injection H as <- <-. unfold nvars, tbl_len. lia.
      * destruct j; discriminate.
  - unfold keys. rewrite map_app. simpl. apply NoDup_app_disj.
    + apply (wf_nodup _ W).
    + constructor; [intros []|constructor].
    + intros x H1 [<-|[]]. apply tbl_get_none in G. apply G. exact H1.
  - intros w i H Hw. apply in_app_or in H. destruct H as [H|[H|[]]].
    + apply (wf_ts _ W _ _ H Hw).
    + injection H as <- <-. apply T. exact Hw.
  - rewrite filter_app. simpl. rewrite <- (wf_pb _ W).
    destruct (tseitin_name v); simpl; [rewrite List.app_nil_r|]; reflexivity.
Qed.

Lemma pb_get : forall vs v, wf_vars vs -> tseitin_name v = false ->
  tbl_get (v_pb vs) v = tbl_get (v_all vs) v.
Proof.
  intros vs v W Hv. rewrite (wf_pb _ W). induction (v_all vs) as [|[w x] t IH]; simpl; [reflexivity|].
  destruct (tseitin_name w) eqn:Ew; simpl.
  - destruct (var_eqb w v) eqn:E; [|exact IH].
    apply var_eqb_eq in E. subst. congruence.
  - destruct (var_eqb w v); [reflexivity|exact IH].
Qed.

(* ------------------------------------------------------------------ *)
(* litValue and dummy.                                                  *)

Lemma lit_value_spec : forall vs v s x vs',
  wf_vars vs -> tseitin_name v = false -> lit_value vs v s = (x, vs') ->
  exists i, x = (if s then - i else i) /\ tbl_get (v_all vs') v = Some i /\
            wf_vars vs' /\ ext vs vs' /\
            ((vs' = vs) \/
             (tbl_get (v_all vs) v = None /\ i = nvars vs + 1 /\
              v_all vs' = v_all vs ++ [(v, i)] /\ v_pb vs' = v_pb vs ++ [(v, i)])).
Proof.
  intros vs v s x vs' W Hv H. unfold lit_value in H.
  destruct (tbl_get (v_all vs) v) as [i|] eqn:G.
  - injection H as <- <-. exists i.
    split; [reflexivity|split; [exact G|split; [exact W|split; [apply ext_refl|left; reflexivity]]]].
  - injection H as <- <-. exists (nvars vs + 1).
    assert (Gp : tbl_get (v_pb vs) v = None) by (rewrite pb_get; auto).
    rewrite (tbl_set_fresh _ _ _ G), (tbl_set_fresh _ _ _ Gp). fold (nvars vs).
    pose proof (wf_add vs v W G) as W'. rewrite Hv in W'.
    split; [reflexivity|split; [|split; [|split]]].
    + simpl. rewrite tbl_get_app, G. simpl. rewrite var_eqb_refl. reflexivity.
    + apply W'. discriminate.
    + eexists. reflexivity.
    + right. repeat split; auto.
Qed.

Lemma new_dummy_spec : forall vs d vs',
  wf_vars vs -> new_dummy vs = (d, vs') ->
  d = nvars vs + 1 /\ wf_vars vs' /\ ext vs vs' /\ nvars vs' = nvars vs + 1 /\
  v_all vs' = v_all vs ++ [(tseitin_var d, d)] /\ v_pb vs' = v_pb vs.
Proof.
  intros vs d vs' W H. unfold new_dummy in H. injection H as <- <-. fold (nvars vs).
  assert (G : tbl_get (v_all vs) (tseitin_var (nvars vs + 1)) = None).
  { apply tbl_get_none. intros Hin. unfold keys in Hin. apply in_map_iff in Hin.
    destruct Hin as [[w i] [Hw Hi]]. simpl in Hw. subst w.
    pose proof (wf_ts _ W _ _ Hi (tseitin_var_name _)) as E.
    pose proof (wf_in_range _ _ _ W Hi) as R.
    apply tseitin_var_inj in E; unfold nvars, tbl_len in *; lia. }
  rewrite (tbl_set_fresh _ _ _ G).
  pose proof (wf_add vs _ W G (fun _ => eq_refl)) as W'. rewrite tseitin_var_name in W'.
  split; [reflexivity|split; [exact W'|split; [|split; [|split; reflexivity]]]].
  - eexists. reflexivity.
  - unfold nvars, tbl_len. simpl. rewrite app_length. simpl. lia.
Qed.

(* ------------------------------------------------------------------ *)
(* Unfolding the loops of cnfRec.                                       *)

Definition fv_ok (f : form) : Prop := forall v, In v (fvars f) -> tseitin_name v = false.

Lemma fv_okb_ok : forall f, fv_okb f = true <-> fv_ok f.
Proof.
  intros f. unfold fv_okb, fv_ok. rewrite forallb_forall. split.
  - intros H v Hv. specialize (H v Hv). destruct (tseitin_name v); [discriminate|reflexivity].
  - intros H v Hv. rewrite (H v Hv). reflexivity.
Qed.

Lemma fv_ok_and_in : forall l x, fv_ok (FAnd l) -> In x l -> fv_ok x.
Proof. intros l x H Hx v Hv. apply H. simpl. apply in_flat_map. exists x. auto. Qed.

Lemma fv_ok_or_in : forall l x, fv_ok (FOr l) -> In x l -> fv_ok x.
Proof. intros l x H Hx v Hv. apply H. simpl. apply in_flat_map. exists x. auto. Qed.

Lemma fv_ok_and_of : forall l, (forall x, In x l -> fv_ok x) -> fv_ok (FAnd l).
Proof. intros l H v Hv. simpl in Hv. apply in_flat_map in Hv. destruct Hv as [x [Hx Hv]]. exact (H x Hx v Hv). Qed.

Lemma fv_ok_or_of : forall l, (forall x, In x l -> fv_ok x) -> fv_ok (FOr l).
Proof. intros l H v Hv. simpl in Hv. apply in_flat_map in Hv. destruct Hv as [x [Hx Hv]]. exact (H x Hx v Hv). Qed.

Lemma thread_guard {A} : forall (step : A -> vars -> list clause * vars) d l vs,
  thread (fun sub vs0 => let '(c, vs') := step sub vs0 in (guard d c, vs')) l vs =
  let '(c, vs') := thread step l vs in (guard d c, vs').
Proof.
  intros step d. induction l as [|x l IH]; intros vs; simpl; [reflexivity|].
  destruct (step x vs) as [c1 vs1]. rewrite IH.
  destruct (thread step l vs1) as [c2 vs2]. unfold guard. rewrite map_app. reflexivity.
Qed.

Lemma cnf_rec_and_cons : forall x r vs,
  cnf_rec (FAnd (x :: r)) vs =
  let '(c1, vs1) := cnf_rec x vs in
  let '(c2, vs2) := cnf_rec (FAnd r) vs1 in (c1 ++ c2, vs2).
Proof. reflexivity. Qed.

Lemma or_thread_lit : forall v s r vs,
  or_thread cnf_rec (FLit v s :: r) vs =
  let '(x, vs1) := lit_value vs v s in
  let '(res, lits, vs2) := or_thread cnf_rec r vs1 in (res, x :: lits, vs2).
Proof. reflexivity. Qed.

Lemma or_thread_and : forall l2 r vs,
  or_thread cnf_rec (FAnd l2 :: r) vs =
  let '(d, vs1) := new_dummy vs in
  let '(c, vs2) := cnf_rec (FAnd l2) vs1 in
  let '(res, lits, vs3) := or_thread cnf_rec r vs2 in
  (guard d c ++ res, d :: lits, vs3).
Proof.
  intros l2 r vs. cbn [or_thread]. destruct (new_dummy vs) as [d vs1].
  rewrite thread_guard. cbn [cnf_rec]. destruct (thread cnf_rec l2 vs1) as [c vs2]. reflexivity.
Qed.

(* ------------------------------------------------------------------ *)
(* cnfRec keeps the table well formed, only extends it, and produces     *)
(* literals within range.                                               *)

Definition in_range (cls : list clause) (n : Z) : Prop :=
  forall c l, In c cls -> In l c -> 1 <= Z.abs l <= n.

Lemma in_range_app : forall a b n, in_range a n -> in_range b n -> in_range (a ++ b) n.
Proof. intros a b n Ha Hb c l Hc Hl. apply in_app_or in Hc. destruct Hc; eauto. Qed.

Lemma in_range_mono : forall a n n', in_range a n -> n <= n' -> in_range a n'.
Proof. intros a n n' H L c l Hc Hl. specialize (H c l Hc Hl). lia. Qed.

Lemma in_range_guard : forall d c n, in_range c n -> 1 <= d <= n -> in_range (guard d c) n.
Proof.
  intros d c n H Hd c' l Hc Hl. unfold guard in Hc. apply in_map_iff in Hc.
  destruct Hc as [c0 [<- Hc0]]. apply in_app_or in Hl. destruct Hl as [Hl|[<-|[]]].
  - exact (H c0 l Hc0 Hl).
  - lia.
Qed.

Definition struct_ok (g : form) : Prop :=
  forall vs cls vs', fv_ok g -> wf_vars vs -> cnf_rec g vs = (cls, vs') ->
  wf_vars vs' /\ ext vs vs' /\ in_range cls (nvars vs').

Lemma and_struct : forall l, Forall struct_ok l -> struct_ok (FAnd l).
Proof.
  induction l as [|x l IH]; intros HF vs cls vs' Hfv W H.
  - simpl in H. injection H as <- <-. split; [exact W|split; [apply ext_refl|]].
    intros c l0 [].
  - inversion HF as [|x' l' Hx Hl]; subst. rewrite cnf_rec_and_cons in H.
    destruct (cnf_rec x vs) as [c1 vs1] eqn:E1.
    destruct (cnf_rec (FAnd l) vs1) as [c2 vs2] eqn:E2. injection H as <- <-.
    assert (Fx : fv_ok x) by (apply (fv_ok_and_in _ _ Hfv); left; reflexivity).
    assert (Fl : fv_ok (FAnd l)).
    { apply fv_ok_and_of. intros y Hy. apply (fv_ok_and_in _ _ Hfv). right. exact Hy. }
    destruct (Hx _ _ _ Fx W E1) as [W1 [X1 R1]].
    destruct (IH Hl _ _ _ Fl W1 E2) as [W2 [X2 R2]].
    split; [exact W2|split; [eapply ext_trans; eauto|]].
    apply in_range_app; [|exact R2]. eapply in_range_mono; [exact R1|]. apply ext_nvars. exact X2.
Qed.

Lemma or_thread_struct : forall l, Forall struct_ok l ->
  forall vs res lits vs', fv_ok (FOr l) -> wf_vars vs ->
  or_thread cnf_rec l vs = (res, lits, vs') ->
  wf_vars vs' /\ ext vs vs' /\ in_range res (nvars vs') /\
  (forall x, In x lits -> 1 <= Z.abs x <= nvars vs').
Proof.
  induction l as [|sub l IH]; intros HF vs res lits vs' Hfv W H.
  - simpl in H. injection H as <- <- <-.
    split; [exact W|split; [apply ext_refl|split]]; [intros c l0 []|intros x []].
  - inversion HF as [|x' l' Hx Hl]; subst.
    assert (Fl : fv_ok (FOr l)).
    { apply fv_ok_or_of. intros y Hy. apply (fv_ok_or_in _ _ Hfv). right. exact Hy. }
    assert (Fs : fv_ok sub) by (apply (fv_ok_or_in _ _ Hfv); left; reflexivity).
    destruct sub as [v|v s|g|l2|l2| |]; try (exact (IH Hl _ _ _ _ Fl W H)).
    + (* lit *)
      rewrite or_thread_lit in H. destruct (lit_value vs v s) as [x vs1] eqn:E1.
      destruct (or_thread cnf_rec l vs1) as [[res2 lits2] vs2] eqn:E2. injection H as <- <- <-.
      assert (Hv : tseitin_name v = false) by (apply Fs; simpl; auto).
      destruct (lit_value_spec _ _ _ _ _ W Hv E1) as [i [Ex [G [W1 [X1 _]]]]].
      destruct (IH Hl _ _ _ _ Fl W1 E2) as [W2 [X2 [R2 L2]]].
      split; [exact W2|split; [eapply ext_trans; eauto|split; [exact R2|]]].
      intros y [<-|Hy]; [|exact (L2 y Hy)].
      pose proof (wf_get_range _ _ _ W1 G) as Ri. pose proof (ext_nvars _ _ X2) as Ln.
      subst x. destruct s; lia.
    + (* and *)
      rewrite or_thread_and in H. destruct (new_dummy vs) as [d vs1] eqn:E1.
      destruct (cnf_rec (FAnd l2) vs1) as [c vs2] eqn:E2.
      destruct (or_thread cnf_rec l vs2) as [[res3 lits3] vs3] eqn:E3. injection H as <- <- <-.
      destruct (new_dummy_spec _ _ _ W E1) as [Ed [W1 [X1 [N1 _]]]].
      destruct (Hx _ _ _ Fs W1 E2) as [W2 [X2 R2]].
      destruct (IH Hl _ _ _ _ Fl W2 E3) as [W3 [X3 [R3 L3]]].
      pose proof (ext_nvars _ _ X2) as Ln2. pose proof (ext_nvars _ _ X3) as Ln3.
      assert (0 <= nvars vs) by (unfold nvars, tbl_len; lia).
      split; [exact W3|split; [eauto using ext_trans|split]].
      * apply in_range_app; [|exact R3]. apply in_range_guard; [|lia].
        eapply in_range_mono; [exact R2|lia].
      * intros y [<-|Hy]; [lia|exact (L3 y Hy)].
Qed.

Lemma cnf_rec_struct : forall g, struct_ok g.
Proof.
  induction g as [v|v s|f IH|l IH|l IH| |] using form_ind'.
  - intros vs cls vs' _ W H. simpl in H. injection H as <- <-.
    split; [exact W|split; [apply ext_refl|intros c l []]].
  - intros vs cls vs' Hfv W H. simpl in H. destruct (lit_value vs v s) as [x vs1] eqn:E1.
    injection H as <- <-.
    assert (Hv : tseitin_name v = false) by (apply Hfv; simpl; auto).
    destruct (lit_value_spec _ _ _ _ _ W Hv E1) as [i [Ex [G [W1 [X1 _]]]]].
    split; [exact W1|split; [exact X1|]]. intros c l [<-|[]] [<-|[]].
    pose proof (wf_get_range _ _ _ W1 G). subst x. destruct s; lia.
  - intros vs cls vs' _ W H. simpl in H. injection H as <- <-.
    split; [exact W|split; [apply ext_refl|intros c l []]].
  - apply and_struct. exact IH.
  - intros vs cls vs' Hfv W H. cbn [cnf_rec] in H.
    destruct (or_thread cnf_rec l vs) as [[res lits] vs1] eqn:E. injection H as <- <-.
    destruct (or_thread_struct l IH _ _ _ _ Hfv W E) as [W1 [X1 [R1 L1]]].
    split; [exact W1|split; [exact X1|]]. apply in_range_app; [exact R1|].
    intros c x [<-|[]] Hx. exact (L1 x Hx).
  - intros vs cls vs' _ W H. simpl in H. injection H as <- <-.
    split; [exact W|split; [apply ext_refl|intros c l []]].
  - intros vs cls vs' _ W H. simpl in H. injection H as <- <-.
    split; [exact W|split; [apply ext_refl|]]. intros c l [<-|[]] [].
Qed.

Lemma or_struct : forall l vs res lits vs', fv_ok (FOr l) -> wf_vars vs ->
  or_thread cnf_rec l vs = (res, lits, vs') ->
  wf_vars vs' /\ ext vs vs' /\ in_range res (nvars vs') /\
  (forall x, In x lits -> 1 <= Z.abs x <= nvars vs').
Proof.
  intros l. apply or_thread_struct. apply Forall_forall. intros x _. apply cnf_rec_struct.
Qed.

(* ------------------------------------------------------------------ *)
(* Soundness of the clauses: a model of the clauses, read through the   *)
(* (final) table, satisfies the formula.                                *)

Lemma lit_val_pos : forall m i, 1 <= i -> lit_val m i = var_val m i.
Proof. intros m i H. unfold lit_val. destruct (0 <? i) eqn:E; [reflexivity|]. apply Z.ltb_ge in E. lia. Qed.

Lemma lit_val_neg : forall m i, 1 <= i -> lit_val m (- i) = negb (var_val m i).
Proof.
  intros m i H. unfold lit_val. destruct (0 <? - i) eqn:E.
  - apply Z.ltb_lt in E. lia.
  - rewrite Z.opp_involutive. reflexivity.
Qed.

Lemma sat_cnf_app : forall m a b, sat_cnf m (a ++ b) = sat_cnf m a && sat_cnf m b.
Proof. intros. unfold sat_cnf. apply forallb_app. Qed.

Lemma sat_clause_app : forall m a b, sat_clause m (a ++ b) = sat_clause m a || sat_clause m b.
Proof. intros. unfold sat_clause. apply existsb_app. Qed.

Lemma sat_guard : forall m d c, 1 <= d ->
  sat_cnf m (guard d c) = negb (var_val m d) || sat_cnf m c.
Proof.
  intros m d c Hd. unfold guard, sat_cnf. induction c as [|x c IH]; simpl.
  - rewrite orb_true_r. reflexivity.
  - rewrite IH. rewrite sat_clause_app. unfold sat_clause at 2. simpl.
    rewrite lit_val_neg by exact Hd. rewrite orb_false_r.
    destruct (var_val m d), (sat_clause m x); reflexivity.
Qed.

Definition sound_ok (g : form) : Prop :=
  forall vs cls vs' T m dflt, fv_ok g -> cnf_ok g = true -> wf_vars vs ->
  cnf_rec g vs = (cls, vs') -> sub_tbl (v_all vs') T ->
  sat_cnf m cls = true -> eval (env_tbl T m dflt) g = true.

Lemma lit_sound : forall vs v s x vs' T m dflt,
  wf_vars vs -> tseitin_name v = false -> lit_value vs v s = (x, vs') ->
  sub_tbl (v_all vs') T -> lit_val m x = true ->
  eval (env_tbl T m dflt) (FLit v s) = true.
Proof.
  intros vs v s x vs' T m dflt W Hv E HT Hx.
  destruct (lit_value_spec _ _ _ _ _ W Hv E) as [i [Ex [G [W1 _]]]].
  pose proof (wf_get_range _ _ _ W1 G) as Ri.
  simpl. unfold env_tbl. rewrite (HT _ _ G). subst x. destruct s.
  - rewrite lit_val_neg in Hx by lia. exact Hx.
  - rewrite lit_val_pos in Hx by lia. exact Hx.
Qed.

Lemma and_sound : forall l, Forall sound_ok l -> sound_ok (FAnd l).
Proof.
  induction l as [|x l IH]; intros HF vs cls vs' T m dflt Hfv Hok W H HT Hs.
  - reflexivity.
  - inversion HF as [|x' l' Hx Hl]; subst. rewrite cnf_rec_and_cons in H.
    destruct (cnf_rec x vs) as [c1 vs1] eqn:E1.
    destruct (cnf_rec (FAnd l) vs1) as [c2 vs2] eqn:E2. injection H as <- <-.
    assert (Fx : fv_ok x) by (apply (fv_ok_and_in _ _ Hfv); left; reflexivity).
    assert (Fl : fv_ok (FAnd l)).
    { apply fv_ok_and_of. intros y Hy. apply (fv_ok_and_in _ _ Hfv). right. exact Hy. }
    cbn [cnf_ok forallb] in Hok. apply andb_true_iff in Hok. destruct Hok as [Ox Ol].
    destruct (cnf_rec_struct x _ _ _ Fx W E1) as [W1 [X1 R1]].
    destruct (cnf_rec_struct (FAnd l) _ _ _ Fl W1 E2) as [W2 [X2 R2]].
    rewrite sat_cnf_app in Hs. apply andb_true_iff in Hs. destruct Hs as [S1 S2].
    cbn [eval forallb]. apply andb_true_iff. split.
    + apply (Hx _ _ _ T m dflt Fx Ox W E1); [|exact S1].
      eapply sub_tbl_trans; [apply ext_sub_tbl; exact X2|exact HT].
    + apply (IH Hl _ _ _ T m dflt Fl Ol W1 E2 HT S2).
Qed.

Lemma or_thread_sound : forall l, Forall sound_ok l ->
  forall vs res lits vs' T m dflt, fv_ok (FOr l) -> cnf_ok (FOr l) = true -> wf_vars vs ->
  or_thread cnf_rec l vs = (res, lits, vs') -> sub_tbl (v_all vs') T ->
  sat_cnf m res = true -> existsb (lit_val m) lits = true ->
  existsb (eval (env_tbl T m dflt)) l = true.
Proof.
  induction l as [|sub l IH]; intros HF vs res lits vs' T m dflt Hfv Hok W H HT Hs Hl.
  - simpl in H. injection H as <- <- <-. discriminate.
  - inversion HF as [|x' l' Hx HFl]; subst.
    assert (Fl : fv_ok (FOr l)).
    { apply fv_ok_or_of. intros y Hy. apply (fv_ok_or_in _ _ Hfv). right. exact Hy. }
    assert (Fs : fv_ok sub) by (apply (fv_ok_or_in _ _ Hfv); left; reflexivity).
    cbn [cnf_ok forallb] in Hok. apply andb_true_iff in Hok. destruct Hok as [Os Ol].
    change (cnf_ok (FOr l) = true) in Ol.
    destruct sub as [v|v s|g|l2|l2| |]; try discriminate.
    + rewrite or_thread_lit in H. destruct (lit_value vs v s) as [x vs1] eqn:E1.
      destruct (or_thread cnf_rec l vs1) as [[res2 lits2] vs2] eqn:E2. injection H as <- <- <-.
      assert (Hv : tseitin_name v = false) by (apply Fs; simpl; auto).
      destruct (lit_value_spec _ _ _ _ _ W Hv E1) as [i [Ex [G [W1 [X1 _]]]]].
      destruct (or_struct _ _ _ _ _ Fl W1 E2) as [W2 [X2 _]].
      cbn [existsb] in Hl |- *. apply orb_true_iff in Hl. apply orb_true_iff.
      destruct Hl as [Hl|Hl].
      * left. apply (lit_sound _ _ _ _ _ T m dflt W Hv E1); [|exact Hl].
        eapply sub_tbl_trans; [apply ext_sub_tbl; exact X2|exact HT].
      * right. apply (IH HFl _ _ _ _ T m dflt Fl Ol W1 E2 HT Hs Hl).
    + rewrite or_thread_and in H. destruct (new_dummy vs) as [d vs1] eqn:E1.
      destruct (cnf_rec (FAnd l2) vs1) as [c vs2] eqn:E2.
      destruct (or_thread cnf_rec l vs2) as [[res3 lits3] vs3] eqn:E3. injection H as <- <- <-.
      destruct (new_dummy_spec _ _ _ W E1) as [Ed [W1 [X1 [N1 _]]]].
      destruct (cnf_rec_struct _ _ _ _ Fs W1 E2) as [W2 [X2 R2]].
      destruct (or_struct _ _ _ _ _ Fl W2 E3) as [W3 [X3 _]].
      assert (Hd : 1 <= d) by (unfold nvars, tbl_len in Ed; lia).
      rewrite sat_cnf_app in Hs. apply andb_true_iff in Hs. destruct Hs as [S1 S3].
      cbn [existsb] in Hl |- *. apply orb_true_iff in Hl. apply orb_true_iff.
      destruct Hl as [Hl|Hl].
      * left. rewrite lit_val_pos in Hl by exact Hd.
        rewrite sat_guard in S1 by exact Hd. rewrite Hl in S1. simpl in S1.
        change (cnf_ok (FAnd l2) = true) in Os.
        apply (Hx _ _ _ T m dflt Fs Os W1 E2); [|exact S1].
        eapply sub_tbl_trans; [apply ext_sub_tbl; exact X3|exact HT].
      * right. apply (IH HFl _ _ _ _ T m dflt Fl Ol W2 E3 HT S3 Hl).
Qed.

Lemma cnf_rec_sound : forall g, sound_ok g.
Proof.
  induction g as [v|v s|f IH|l IH|l IH| |] using form_ind'.
  - intros vs cls vs' T m dflt _ Hok. discriminate.
  - intros vs cls vs' T m dflt Hfv _ W H HT Hs. simpl in H.
    destruct (lit_value vs v s) as [x vs1] eqn:E1. injection H as <- <-.
    assert (Hv : tseitin_name v = false) by (apply Hfv; simpl; auto).
    apply (lit_sound _ _ _ _ _ T m dflt W Hv E1 HT).
    simpl in Hs. rewrite andb_true_r, orb_false_r in Hs. exact Hs.
  - intros vs cls vs' T m dflt _ Hok. discriminate.
  - apply and_sound. exact IH.
  - intros vs cls vs' T m dflt Hfv Hok W H HT Hs. cbn [cnf_rec] in H.
    destruct (or_thread cnf_rec l vs) as [[res lits] vs1] eqn:E. injection H as <- <-.
    rewrite sat_cnf_app in Hs. apply andb_true_iff in Hs. destruct Hs as [S1 S2].
    simpl in S2. rewrite andb_true_r in S2.
    cbn [eval]. apply (or_thread_sound l IH _ _ _ _ T m dflt Hfv Hok W E HT S1 S2).
  - intros vs cls vs' T m dflt _ _ _ _ _ _. reflexivity.
  - intros vs cls vs' T m dflt _ _ W H HT Hs. simpl in H. injection H as <- <-.
    simpl in Hs. discriminate.
Qed.

(* ------------------------------------------------------------------ *)
(* Completeness: an assignment of the formula variables extends to a    *)
(* model of the clauses (each dummy takes the value of the conjunction  *)
(* it guards).                                                          *)

Definition mlen (m : model) : Z := Z.of_nat (List.length m).

Lemma mlen_app : forall m e, mlen (m ++ e) = mlen m + mlen e.
Proof. intros. unfold mlen. rewrite app_length. lia. Qed.

Lemma var_val_app1 : forall m e i, 1 <= i <= mlen m -> var_val (m ++ e) i = var_val m i.
Proof.
  intros m e i H. unfold var_val, mlen in *. apply app_nth1. lia.
Qed.

Lemma var_val_app_last : forall m b i, i = mlen m + 1 -> var_val (m ++ [b]) i = b.
Proof.
  intros m b i ->. unfold var_val, mlen.
  replace (Z.to_nat (Z.of_nat (List.length m) + 1 - 1)) with (List.length m) by lia.
  rewrite app_nth2 by lia. rewrite Nat.sub_diag. reflexivity.
Qed.

Lemma lit_val_app : forall m e l, 1 <= Z.abs l <= mlen m -> lit_val (m ++ e) l = lit_val m l.
Proof.
  intros m e l H. unfold lit_val. destruct (0 <? l) eqn:E.
  - apply Z.ltb_lt in E. apply var_val_app1. lia.
  - apply Z.ltb_ge in E. f_equal. apply var_val_app1. lia.
Qed.

Lemma sat_clause_app_model : forall m e c,
  (forall l, In l c -> 1 <= Z.abs l <= mlen m) -> sat_clause (m ++ e) c = sat_clause m c.
Proof.
  intros m e c H. unfold sat_clause. induction c as [|l c IH]; simpl; [reflexivity|].
  rewrite lit_val_app by (apply H; left; reflexivity).
  rewrite IH; [reflexivity|]. intros l0 Hl0. apply H. right. exact Hl0.
Qed.

Lemma sat_cnf_app_model : forall m e cls,
  in_range cls (mlen m) -> sat_cnf (m ++ e) cls = sat_cnf m cls.
Proof.
  intros m e cls H. unfold sat_cnf. induction cls as [|c cls IH]; simpl; [reflexivity|].
  rewrite sat_clause_app_model by (intros l Hl; apply (H c l); [left; reflexivity|exact Hl]).
  rewrite IH; [reflexivity|]. intros c0 l Hc Hl. apply (H c0 l); [right; exact Hc|exact Hl].
Qed.

Definition consistent (env : var -> bool) (t : table) (m : model) : Prop :=
  forall v i, tbl_get t v = Some i -> tseitin_name v = false -> var_val m i = env v.

Definition complete_ok (g : form) : Prop :=
  forall vs cls vs' env m, fv_ok g -> cnf_ok g = true -> wf_vars vs ->
  cnf_rec g vs = (cls, vs') -> mlen m = nvars vs -> consistent env (v_all vs) m ->
  exists e, mlen (m ++ e) = nvars vs' /\ consistent env (v_all vs') (m ++ e) /\
            (eval env g = true -> sat_cnf (m ++ e) cls = true).

Lemma lit_complete : forall vs v s x vs' env m,
  wf_vars vs -> tseitin_name v = false -> lit_value vs v s = (x, vs') ->
  mlen m = nvars vs -> consistent env (v_all vs) m ->
  exists e, mlen (m ++ e) = nvars vs' /\ consistent env (v_all vs') (m ++ e) /\
            lit_val (m ++ e) x = eval env (FLit v s).
Proof.
  intros vs v s x vs' env m W Hv E L C.
  destruct (lit_value_spec _ _ _ _ _ W Hv E) as [i [Ex [G [W1 [X1 [Hsame|Hnew]]]]]].
  - subst vs'. exists []. rewrite List.app_nil_r. split; [exact L|split; [exact C|]].
    pose proof (wf_get_range _ _ _ W G) as Ri. pose proof (C _ _ G Hv) as Cv.
    subst x. simpl. destruct s; [rewrite lit_val_neg by lia|rewrite lit_val_pos by lia];
      rewrite Cv; reflexivity.
  - destruct Hnew as [Gn [Ei [Ea Ep]]]. exists [env v].
    assert (Ln : nvars vs' = nvars vs + 1).
    { unfold nvars, tbl_len. rewrite Ea, app_length. simpl. lia. }
    split; [rewrite mlen_app; unfold mlen at 2; simpl; lia|]. split.
    + intros w j Gw Hw. rewrite Ea, tbl_get_app in Gw.
      destruct (tbl_get (v_all vs) w) as [j'|] eqn:Gw'.
      * injection Gw as <-. pose proof (wf_get_range _ _ _ W Gw') as Rj.
        rewrite var_val_app1 by lia. apply (C _ _ Gw' Hw).
      * simpl in Gw. destruct (var_eqb v w) eqn:Evw; [|discriminate].
        apply var_eqb_eq in Evw. injection Gw as <-. subst w.
        apply var_val_app_last. lia.
    + assert (Vi : var_val (m ++ [env v]) i = env v) by (apply var_val_app_last; lia).
      assert (1 <= i) by (unfold nvars, tbl_len in Ei; lia).
      subst x. simpl. destruct s; [rewrite lit_val_neg by lia|rewrite lit_val_pos by lia];
        rewrite Vi; reflexivity.
Qed.

Lemma and_complete : forall l, Forall complete_ok l -> complete_ok (FAnd l).
Proof.
  induction l as [|x l IH]; intros HF vs cls vs' env m Hfv Hok W H L C.
  - simpl in H. injection H as <- <-. exists []. rewrite List.app_nil_r.
    split; [exact L|split; [exact C|reflexivity]].
  - inversion HF as [|x' l' Hx Hl]; subst. rewrite cnf_rec_and_cons in H.
    destruct (cnf_rec x vs) as [c1 vs1] eqn:E1.
    destruct (cnf_rec (FAnd l) vs1) as [c2 vs2] eqn:E2. injection H as <- <-.
    assert (Fx : fv_ok x) by (apply (fv_ok_and_in _ _ Hfv); left; reflexivity).
    assert (Fl : fv_ok (FAnd l)).
    { apply fv_ok_and_of. intros y Hy. apply (fv_ok_and_in _ _ Hfv). right. exact Hy. }
    cbn [cnf_ok forallb] in Hok. apply andb_true_iff in Hok. destruct Hok as [Ox Ol].
    destruct (cnf_rec_struct x _ _ _ Fx W E1) as [W1 [X1 R1]].
    destruct (Hx _ _ _ env m Fx Ox W E1 L C) as [e1 [L1 [C1 S1]]].
    destruct (IH Hl _ _ _ env (m ++ e1) Fl Ol W1 E2 L1 C1) as [e2 [L2 [C2 S2]]].
    exists (e1 ++ e2). rewrite List.app_assoc. split; [exact L2|split; [exact C2|]].
    intros Hev. cbn [eval forallb] in Hev. apply andb_true_iff in Hev. destruct Hev as [Hev1 Hev2].
    rewrite sat_cnf_app. apply andb_true_iff. split.
    + rewrite sat_cnf_app_model by (rewrite L1; exact R1). apply S1. exact Hev1.
    + apply S2. exact Hev2.
Qed.

Lemma or_thread_complete : forall l, Forall complete_ok l ->
  forall vs res lits vs' env m, fv_ok (FOr l) -> cnf_ok (FOr l) = true -> wf_vars vs ->
  or_thread cnf_rec l vs = (res, lits, vs') -> mlen m = nvars vs ->
  consistent env (v_all vs) m ->
  exists e, mlen (m ++ e) = nvars vs' /\ consistent env (v_all vs') (m ++ e) /\
            sat_cnf (m ++ e) res = true /\
            (existsb (eval env) l = true -> existsb (lit_val (m ++ e)) lits = true).
Proof.
  induction l as [|sub l IH]; intros HF vs res lits vs' env m Hfv Hok W H L C.
  - simpl in H. injection H as <- <- <-. exists []. rewrite List.app_nil_r.
    split; [exact L|split; [exact C|split; [reflexivity|intros Hx; discriminate]]].
  - inversion HF as [|x' l' Hx HFl]; subst.
    assert (Fl : fv_ok (FOr l)).
    { apply fv_ok_or_of. intros y Hy. apply (fv_ok_or_in _ _ Hfv). right. exact Hy. }
    assert (Fs : fv_ok sub) by (apply (fv_ok_or_in _ _ Hfv); left; reflexivity).
    cbn [cnf_ok forallb] in Hok. apply andb_true_iff in Hok. destruct Hok as [Os Ol].
    change (cnf_ok (FOr l) = true) in Ol.
    destruct sub as [v|v s|g|l2|l2| |]; try discriminate.
    + rewrite or_thread_lit in H. destruct (lit_value vs v s) as [x vs1] eqn:E1.
      destruct (or_thread cnf_rec l vs1) as [[res2 lits2] vs2] eqn:E2. injection H as <- <- <-.
      assert (Hv : tseitin_name v = false) by (apply Fs; simpl; auto).
      destruct (lit_value_spec _ _ _ _ _ W Hv E1) as [i [Ex [G [W1 [X1 _]]]]].
      destruct (lit_complete _ _ _ _ _ env m W Hv E1 L C) as [e1 [L1 [C1 V1]]].
      destruct (IH HFl _ _ _ _ env (m ++ e1) Fl Ol W1 E2 L1 C1) as [e2 [L2 [C2 [S2 D2]]]].
      exists (e1 ++ e2). rewrite List.app_assoc.
      split; [exact L2|split; [exact C2|split; [exact S2|]]].
      intros Hev. cbn [existsb] in Hev |- *. apply orb_true_iff in Hev. apply orb_true_iff.
      destruct Hev as [Hev|Hev]; [left|right; exact (D2 Hev)].
      pose proof (wf_get_range _ _ _ W1 G) as Ri.
      rewrite lit_val_app; [rewrite V1; exact Hev|]. rewrite L1. subst x. destruct s; lia.
    + rewrite or_thread_and in H. destruct (new_dummy vs) as [d vs1] eqn:E1.
      destruct (cnf_rec (FAnd l2) vs1) as [c vs2] eqn:E2.
      destruct (or_thread cnf_rec l vs2) as [[res3 lits3] vs3] eqn:E3. injection H as <- <- <-.
      destruct (new_dummy_spec _ _ _ W E1) as [Ed [W1 [X1 [N1 [Ea _]]]]].
      destruct (cnf_rec_struct _ _ _ _ Fs W1 E2) as [W2 [X2 R2]].
      assert (Hd : 1 <= d) by (unfold nvars, tbl_len in Ed; lia).
      change (cnf_ok (FAnd l2) = true) in Os.
      remember (eval env (FAnd l2)) as b eqn:Hb.
      assert (L1 : mlen (m ++ [b]) = nvars vs1).
      { rewrite mlen_app. unfold mlen at 2. simpl. lia. }
      assert (C1 : consistent env (v_all vs1) (m ++ [b])).
      { intros w j Gw Hw. rewrite Ea, tbl_get_app in Gw.
        destruct (tbl_get (v_all vs) w) as [j'|] eqn:Gw'.
        - injection Gw as <-. pose proof (wf_get_range _ _ _ W Gw') as Rj.
          rewrite var_val_app1 by lia. apply (C _ _ Gw' Hw).
        - simpl in Gw. destruct (var_eqb (tseitin_var d) w) eqn:Evw; [|discriminate].
          apply var_eqb_eq in Evw. subst w. rewrite tseitin_var_name in Hw. discriminate. }
      assert (Vd : var_val (m ++ [b]) d = b) by (apply var_val_app_last; lia).
      destruct (Hx _ _ _ env (m ++ [b]) Fs Os W1 E2 L1 C1) as [e2 [L2 [C2 S2]]].
      destruct (IH HFl _ _ _ _ env ((m ++ [b]) ++ e2) Fl Ol W2 E3 L2 C2) as [e3 [L3 [C3 [S3 D3]]]].
      exists ([b] ++ e2 ++ e3). rewrite !List.app_assoc.
      assert (Vd3 : var_val (((m ++ [b]) ++ e2) ++ e3) d = b).
      { rewrite <- List.app_assoc. rewrite var_val_app1; [exact Vd|]. rewrite L1. lia. }
      split; [exact L3|split; [exact C3|split]].
      * rewrite sat_cnf_app. apply andb_true_iff. split; [|exact S3].
        rewrite sat_guard by exact Hd. rewrite Vd3.
        destruct b; [|reflexivity]. simpl.
        rewrite sat_cnf_app_model by (rewrite L2; exact R2). apply S2. symmetry. exact Hb.
      * intros Hev. cbn [existsb] in Hev |- *. apply orb_true_iff in Hev. apply orb_true_iff.
        destruct Hev as [Hev|Hev]; [left|right; exact (D3 Hev)].
        rewrite lit_val_pos by exact Hd. rewrite Vd3, Hb. exact Hev.
Qed.

Lemma cnf_rec_complete : forall g, complete_ok g.
Proof.
  induction g as [v|v s|f IH|l IH|l IH| |] using form_ind'.
  - intros vs cls vs' env m _ Hok. discriminate.
  - intros vs cls vs' env m Hfv _ W H L C. simpl in H.
    destruct (lit_value vs v s) as [x vs1] eqn:E1. injection H as <- <-.
    assert (Hv : tseitin_name v = false) by (apply Hfv; simpl; auto).
    destruct (lit_complete _ _ _ _ _ env m W Hv E1 L C) as [e1 [L1 [C1 V1]]].
    exists e1. split; [exact L1|split; [exact C1|]]. intros Hev.
    simpl. rewrite V1, Hev. reflexivity.
  - intros vs cls vs' env m _ Hok. discriminate.
  - apply and_complete. exact IH.
  - intros vs cls vs' env m Hfv Hok W H L C. cbn [cnf_rec] in H.
    destruct (or_thread cnf_rec l vs) as [[res lits] vs1] eqn:E. injection H as <- <-.
    destruct (or_thread_complete l IH _ _ _ _ env m Hfv Hok W E L C) as [e [L1 [C1 [S1 D1]]]].
    exists e. split; [exact L1|split; [exact C1|]]. intros Hev.
    rewrite sat_cnf_app, S1. simpl. rewrite andb_true_r. apply D1. exact Hev.
  - intros vs cls vs' env m _ _ W H L C. simpl in H. injection H as <- <-.
    exists []. rewrite List.app_nil_r. split; [exact L|split; [exact C|reflexivity]].
  - intros vs cls vs' env m _ _ W H L C. simpl in H. injection H as <- <-.
    exists []. rewrite List.app_nil_r. split; [exact L|split; [exact C|intros Hev; discriminate]].
Qed.

(* ------------------------------------------------------------------ *)
(* nnf does not invent variables.                                       *)

Lemma and_collect_fvars : forall l res v,
  and_collect l = Some res -> In v (flat_map fvars res) -> In v (flat_map fvars l).
Proof.
  induction l as [|x l IH]; intros res v H Hv; cbn [and_collect] in H.
  - injection H as <-. exact Hv.
  - destruct x;
      try (destruct (and_collect l) as [r|]; cbn [option_map] in H; [|discriminate];
           injection H as <-; cbn [flat_map] in Hv |- *; apply in_app_or in Hv; apply in_or_app;
           destruct Hv as [Hv|Hv]; [left; exact Hv|right; apply (IH r); auto]).
    + destruct (and_collect l) as [r|]; cbn [option_map] in H; [|discriminate].
      injection H as <-. rewrite flat_map_app in Hv. apply in_app_or in Hv.
      cbn [flat_map]. apply in_or_app.
      destruct Hv as [Hv|Hv]; [left; exact Hv|right; apply (IH r); auto].
    + cbn [flat_map]. apply in_or_app. right. apply (IH res); auto.
    + discriminate.
Qed.

Lemma or_collect_fvars : forall l res v,
  or_collect l = Some res -> In v (flat_map fvars res) -> In v (flat_map fvars l).
Proof.
  induction l as [|x l IH]; intros res v H Hv; cbn [or_collect] in H.
  - injection H as <-. exact Hv.
  - destruct x;
      try (destruct (or_collect l) as [r|]; cbn [option_map] in H; [|discriminate];
           injection H as <-; cbn [flat_map] in Hv |- *; apply in_app_or in Hv; apply in_or_app;
           destruct Hv as [Hv|Hv]; [left; exact Hv|right; apply (IH r); auto]).
    + destruct (or_collect l) as [r|]; cbn [option_map] in H; [|discriminate].
      injection H as <-. rewrite flat_map_app in Hv. apply in_app_or in Hv.
      cbn [flat_map]. apply in_or_app.
      destruct Hv as [Hv|Hv]; [left; exact Hv|right; apply (IH r); auto].
    + discriminate.
    + cbn [flat_map]. apply in_or_app. right. apply (IH res); auto.
Qed.

Lemma and_fold_fvars : forall l v, In v (fvars (and_fold l)) -> In v (flat_map fvars l).
Proof.
  intros l v H. unfold and_fold in H. destruct (and_collect l) as [res|] eqn:E; [|destruct H].
  apply (and_collect_fvars _ _ _ E).
  destruct res as [|x [|y r]]; [destruct H| |exact H].
  simpl. rewrite List.app_nil_r. exact H.
Qed.

Lemma or_fold_fvars : forall l v, In v (fvars (or_fold l)) -> In v (flat_map fvars l).
Proof.
  intros l v H. unfold or_fold in H. destruct (or_collect l) as [res|] eqn:E; [|destruct H].
  apply (or_collect_fvars _ _ _ E).
  destruct res as [|x [|y r]]; [destruct H| |exact H].
  simpl. rewrite List.app_nil_r. exact H.
Qed.

Lemma flat_map_map_in {A} (g : A -> A) (h : A -> list var) (l : list A) v :
  Forall (fun x => In v (h (g x)) -> In v (h x)) l ->
  In v (flat_map h (map g l)) -> In v (flat_map h l).
Proof.
  intros HF H. apply in_flat_map in H. destruct H as [y [Hy Hv]].
  apply in_map_iff in Hy. destruct Hy as [x [<- Hx]].
  apply in_flat_map. exists x. split; [exact Hx|].
  rewrite Forall_forall in HF. apply HF; assumption.
Qed.

Lemma nnfp_fvars : forall f neg v, In v (fvars (nnfp neg f)) -> In v (fvars f).
Proof.
  induction f as [w|w s|f IH|l IH|l IH| |] using form_ind'; intros neg v H; simpl in *.
  - exact H.
  - exact H.
  - apply (IH _ _ H).
  - destruct neg; [apply or_fold_fvars in H|apply and_fold_fvars in H];
      (eapply flat_map_map_in; [|exact H]); eapply Forall_impl; [|exact IH| |exact IH];
      intros a Ha; apply Ha.
  - destruct neg; [apply and_fold_fvars in H|apply or_fold_fvars in H];
      (eapply flat_map_map_in; [|exact H]); eapply Forall_impl; [|exact IH| |exact IH];
      intros a Ha; apply Ha.
  - destruct neg; destruct H.
  - destruct neg; destruct H.
Qed.

Lemma fv_ok_nnf : forall f, fv_ok f -> fv_ok (nnf f).
Proof. intros f H v Hv. apply H. apply (nnfp_fvars _ _ _ Hv). Qed.

(* ------------------------------------------------------------------ *)
(* asCnf: the two directions for an arbitrary formula of the AST.       *)

Lemma as_cnf_eq : forall f, cnf_rec (nnf f) (Vars [] []) = (c_clauses (as_cnf f), c_vars (as_cnf f)).
Proof. intros f. unfold as_cnf. destruct (cnf_rec (nnf f) (Vars [] [])). reflexivity. Qed.

Lemma as_cnf_struct : forall f, fv_ok f ->
  wf_vars (c_vars (as_cnf f)) /\
  in_range (c_clauses (as_cnf f)) (nvars (c_vars (as_cnf f))).
Proof.
  intros f H.
  destruct (cnf_rec_struct (nnf f) _ _ _ (fv_ok_nnf _ H) wf_empty (as_cnf_eq f)) as [W [_ R]].
  auto.
Qed.

Theorem cnf_sound_form : forall f, fv_ok f -> forall m dflt,
  sat_cnf m (c_clauses (as_cnf f)) = true -> eval (env_of (as_cnf f) m dflt) f = true.
Proof.
  intros f H m dflt S. rewrite <- nnf_eval. unfold env_of.
  apply (cnf_rec_sound (nnf f) _ _ _ _ m dflt (fv_ok_nnf _ H) (nnf_cnf_ok f) wf_empty (as_cnf_eq f)).
  - intros v i G. exact G.
  - exact S.
Qed.

Theorem cnf_complete_form : forall f, fv_ok f -> forall env, eval env f = true ->
  exists m, List.length m = List.length (v_all (c_vars (as_cnf f))) /\
            sat_cnf m (c_clauses (as_cnf f)) = true /\
            consistent env (v_all (c_vars (as_cnf f))) m.
Proof.
  intros f H env Hev.
  destruct (cnf_rec_complete (nnf f) _ _ _ env [] (fv_ok_nnf _ H) (nnf_cnf_ok f) wf_empty
              (as_cnf_eq f) eq_refl) as [e [L [C S]]].
  - intros v i G. discriminate.
  - exists e. simpl in *. split; [|split; [|exact C]].
    + unfold mlen, nvars, tbl_len in L. lia.
    + apply S. rewrite nnf_eval. exact Hev.
Qed.
