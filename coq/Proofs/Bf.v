(* Proofs about Model/Bf.v (package bf): nnf, shape of the NNF, the
   definitional CNF (both directions), Unique, Solve and the DIMACS export. *)
From Coq Require Import List ZArith NArith Bool String Ascii Arith Lia DecimalString
     DecimalN Permutation Sorted.
From GS Require Import Spec.Base Spec.PB Spec.Solver Model.Bf.
Import ListNotations.
Open Scope Z_scope.

(* ------------------------------------------------------------------ *)
(* Induction principle for the nested inductive [form].                 *)

Section FormInd.
  Variable P : form -> Prop.
  Hypothesis HVar : forall v, P (FVar v).
  Hypothesis HLit : forall v s, P (FLit v s).
  Hypothesis HNot : forall f, P f -> P (FNot f).
  Hypothesis HAnd : forall l, Forall P l -> P (FAnd l).
  Hypothesis HOr : forall l, Forall P l -> P (FOr l).
  Hypothesis HTrue : P FTrue.
  Hypothesis HFalse : P FFalse.
  Hypothesis HUnique : forall vs, P (FUnique vs).

  Fixpoint form_ind' (f : form) : P f :=
    match f with
    | FVar v => HVar v
    | FLit v s => HLit v s
    | FNot g => HNot g (form_ind' g)
    | FAnd l => HAnd l ((fix go (l : list form) : Forall P l :=
                           match l with
                           | [] => Forall_nil P
                           | x :: r => Forall_cons x (form_ind' x) (go r)
                           end) l)
    | FOr l => HOr l ((fix go (l : list form) : Forall P l :=
                         match l with
                         | [] => Forall_nil P
                         | x :: r => Forall_cons x (form_ind' x) (go r)
                         end) l)
    | FTrue => HTrue
    | FFalse => HFalse
    | FUnique vs => HUnique vs
    end.
End FormInd.

(* ------------------------------------------------------------------ *)
(* var_eqb                                                              *)

Lemma var_eqb_eq : forall a b, var_eqb a b = true <-> a = b.
Proof.
  intros [na da] [nb db]. unfold var_eqb; simpl. rewrite andb_true_iff.
  rewrite String.eqb_eq, Bool.eqb_true_iff. split.
  - intros [-> ->]. reflexivity.
  - intros E. injection E as -> ->. auto.
Qed.

Lemma var_eqb_refl : forall a, var_eqb a a = true.
Proof. intros a. apply var_eqb_eq. reflexivity. Qed.

Lemma var_eqb_neq : forall a b, var_eqb a b = false <-> a <> b.
Proof.
  intros a b. split.
  - intros H E. apply var_eqb_eq in E. congruence.
  - intros H. destruct (var_eqb a b) eqn:E; [|reflexivity].
    apply var_eqb_eq in E. contradiction.
Qed.

Lemma var_eq_dec : forall a b : var, {a = b} + {a <> b}.
Proof.
  intros a b. destruct (var_eqb a b) eqn:E.
  - left. apply var_eqb_eq. exact E.
  - right. apply var_eqb_neq. exact E.
Qed.

(* ------------------------------------------------------------------ *)
(* nnf preserves the semantics.                                         *)

Lemma and_collect_none : forall env l,
  and_collect l = None -> forallb (eval env) l = false.
Proof.
  induction l as [|x l IH]; simpl; intros H; [discriminate|].
  destruct x; simpl;
    try (destruct (and_collect l); simpl in H; [discriminate|];
         rewrite IH by reflexivity; apply andb_false_r).
  - apply IH. exact H.
  - reflexivity.
Qed.

Lemma and_collect_some : forall env l res,
  and_collect l = Some res -> forallb (eval env) res = forallb (eval env) l.
Proof.
  induction l as [|x l IH]; simpl; intros res H.
  - injection H as <-. reflexivity.
  - destruct x;
      try (destruct (and_collect l) as [r|]; simpl in H; [|discriminate];
           injection H as <-; simpl; rewrite (IH r eq_refl); reflexivity).
    + destruct (and_collect l) as [r|]; simpl in H; [|discriminate].
      injection H as <-. rewrite forallb_app. simpl. rewrite (IH r eq_refl). reflexivity.
    + discriminate.
Qed.

Lemma eval_and_fold : forall env l, eval env (and_fold l) = forallb (eval env) l.
Proof.
  intros env l. unfold and_fold. destruct (and_collect l) as [res|] eqn:E.
  - rewrite <- (and_collect_some env _ _ E).
    destruct res as [|x [|y r]]; simpl; try reflexivity.
    rewrite andb_true_r. reflexivity.
  - rewrite (and_collect_none env _ E). reflexivity.
Qed.

Lemma or_collect_none : forall env l,
  or_collect l = None -> existsb (eval env) l = true.
Proof.
  induction l as [|x l IH]; simpl; intros H; [discriminate|].
  destruct x; simpl;
    try (destruct (or_collect l); simpl in H; [discriminate|];
         rewrite IH by reflexivity; apply orb_true_r).
  - reflexivity.
  - apply IH. exact H.
Qed.

Lemma or_collect_some : forall env l res,
  or_collect l = Some res -> existsb (eval env) res = existsb (eval env) l.
Proof.
  induction l as [|x l IH]; simpl; intros res H.
  - injection H as <-. reflexivity.
  - destruct x;
      try (destruct (or_collect l) as [r|]; simpl in H; [|discriminate];
           injection H as <-; simpl; rewrite (IH r eq_refl); reflexivity).
    + destruct (or_collect l) as [r|]; simpl in H; [|discriminate].
      injection H as <-. rewrite existsb_app. simpl. rewrite (IH r eq_refl). reflexivity.
    + discriminate.
Qed.

Lemma eval_or_fold : forall env l, eval env (or_fold l) = existsb (eval env) l.
Proof.
  intros env l. unfold or_fold. destruct (or_collect l) as [res|] eqn:E.
  - rewrite <- (or_collect_some env _ _ E).
    destruct res as [|x [|y r]]; simpl; try reflexivity.
    rewrite orb_false_r. reflexivity.
  - rewrite (or_collect_none env _ E). reflexivity.
Qed.

Lemma forallb_map {A B} (g : B -> bool) (f : A -> B) l :
  forallb g (map f l) = forallb (fun x => g (f x)) l.
Proof. induction l as [|x l IH]; simpl; [reflexivity|]. rewrite IH. reflexivity. Qed.

Lemma existsb_map {A B} (g : B -> bool) (f : A -> B) l :
  existsb g (map f l) = existsb (fun x => g (f x)) l.
Proof. induction l as [|x l IH]; simpl; [reflexivity|]. rewrite IH. reflexivity. Qed.

Lemma forallb_ext_Forall {A} (f g : A -> bool) l :
  Forall (fun x => f x = g x) l -> forallb f l = forallb g l.
Proof. induction 1 as [|x l H _ IH]; simpl; [reflexivity|]. rewrite H, IH. reflexivity. Qed.

Lemma existsb_ext_Forall {A} (f g : A -> bool) l :
  Forall (fun x => f x = g x) l -> existsb f l = existsb g l.
Proof. induction 1 as [|x l H _ IH]; simpl; [reflexivity|]. rewrite H, IH. reflexivity. Qed.

Lemma negb_forallb {A} (f : A -> bool) l :
  negb (forallb f l) = existsb (fun x => negb (f x)) l.
Proof. induction l as [|x l IH]; simpl; [reflexivity|]. rewrite negb_andb, IH. reflexivity. Qed.

Lemma negb_existsb {A} (f : A -> bool) l :
  negb (existsb f l) = forallb (fun x => negb (f x)) l.
Proof. induction l as [|x l IH]; simpl; [reflexivity|]. rewrite negb_orb, IH. reflexivity. Qed.

(* the exactly-one groups of a formula *)
Fixpoint funiques (f : form) : list (list var) :=
  match f with
  | FNot g => funiques g
  | FAnd l => flat_map funiques l
  | FOr l => flat_map funiques l
  | FUnique vs => [vs]
  | _ => []
  end.

Definition pol (neg : bool) (b : bool) : bool := if neg then negb b else b.

(* if the translation [uq] of the groups of f is exact under env, so is nnf *)
Lemma eval_nnfp_gen : forall env uq f,
  (forall vs, In vs (funiques f) -> forall neg,
     eval env (uq neg vs) = pol neg (exactly_one (map env vs))) ->
  forall neg, eval env (nnfp_gen uq neg f) = pol neg (eval env f).
Proof.
  intros env uq f. unfold pol.
  induction f as [v|v s|f IH|l IH|l IH| | |vs] using form_ind'; intros Hu neg; simpl.
  - destruct neg; reflexivity.
  - destruct neg, s; simpl; try reflexivity. rewrite negb_involutive. reflexivity.
  - rewrite IH by exact Hu. destruct neg; simpl; [rewrite negb_involutive|]; reflexivity.
  - assert (IH' : Forall (fun a => forall neg, eval env (nnfp_gen uq neg a) =
                                  if neg then negb (eval env a) else eval env a) l).
    { rewrite Forall_forall in *. intros a Ha. apply (IH a Ha). intros vs Hvs.
      apply Hu. simpl. apply in_flat_map. exists a. auto. }
    destruct neg.
    + rewrite eval_or_fold, existsb_map, negb_forallb.
      apply existsb_ext_Forall. eapply Forall_impl; [|exact IH'].
      intros a Ha. exact (Ha true).
    + rewrite eval_and_fold, forallb_map.
      apply forallb_ext_Forall. eapply Forall_impl; [|exact IH'].
      intros a Ha. exact (Ha false).
  - assert (IH' : Forall (fun a => forall neg, eval env (nnfp_gen uq neg a) =
                                  if neg then negb (eval env a) else eval env a) l).
    { rewrite Forall_forall in *. intros a Ha. apply (IH a Ha). intros vs Hvs.
      apply Hu. simpl. apply in_flat_map. exists a. auto. }
    destruct neg.
    + rewrite eval_and_fold, forallb_map, negb_existsb.
      apply forallb_ext_Forall. eapply Forall_impl; [|exact IH'].
      intros a Ha. exact (Ha true).
    + rewrite eval_or_fold, existsb_map.
      apply existsb_ext_Forall. eapply Forall_impl; [|exact IH'].
      intros a Ha. exact (Ha false).
  - destruct neg; reflexivity.
  - destruct neg; reflexivity.
  - apply (Hu vs). simpl. auto.
Qed.

(* if the translation of the groups is sound (one direction), so is nnf *)
Lemma nnfp_gen_sound : forall env uq f,
  (forall vs, In vs (funiques f) -> forall neg,
     eval env (uq neg vs) = true -> exactly_one (map env vs) = negb neg) ->
  forall neg, eval env (nnfp_gen uq neg f) = true -> eval env f = negb neg.
Proof.
  intros env uq f.
  induction f as [v|v s|f IH|l IH|l IH| | |vs] using form_ind'; intros Hu neg H; simpl in *.
  - destruct neg, (env v); simpl in *; congruence.
  - destruct neg, s, (env v); simpl in *; congruence.
  - rewrite (IH Hu _ H). destruct neg; reflexivity.
  - assert (IH' : forall a, In a l -> forall neg, eval env (nnfp_gen uq neg a) = true ->
                                       eval env a = negb neg).
    { rewrite Forall_forall in IH. intros a Ha. apply (IH a Ha). intros vs Hvs.
      apply Hu. apply in_flat_map. exists a. auto. }
    destruct neg; simpl.
    + rewrite eval_or_fold, existsb_map in H. apply existsb_exists in H.
      destruct H as [a [Ha Ea]]. destruct (forallb (eval env) l) eqn:F; [|reflexivity].
      rewrite forallb_forall in F. specialize (IH' a Ha true Ea).
      rewrite (F a Ha) in IH'. discriminate.
    + rewrite eval_and_fold, forallb_map in H. rewrite forallb_forall in *.
      intros a Ha. apply (IH' a Ha false). apply H. exact Ha.
  - assert (IH' : forall a, In a l -> forall neg, eval env (nnfp_gen uq neg a) = true ->
                                       eval env a = negb neg).
    { rewrite Forall_forall in IH. intros a Ha. apply (IH a Ha). intros vs Hvs.
      apply Hu. apply in_flat_map. exists a. auto. }
    destruct neg; simpl.
    + rewrite eval_and_fold, forallb_map in H. rewrite forallb_forall in H.
      destruct (existsb (eval env) l) eqn:F; [|reflexivity]. apply existsb_exists in F.
      destruct F as [a [Ha Ea]]. rewrite (IH' a Ha true (H a Ha)) in Ea. discriminate.
    + rewrite eval_or_fold, existsb_map in H. apply existsb_exists in H.
      destruct H as [a [Ha Ea]]. apply existsb_exists. exists a. split; [exact Ha|].
      apply (IH' a Ha false Ea).
  - destruct neg; [discriminate|reflexivity].
  - destruct neg; [reflexivity|discriminate].
  - apply (Hu vs); auto.
Qed.

(* ------------------------------------------------------------------ *)
(* Shape of the NNF.                                                    *)

Lemma nnf_sub_top : forall k f, nnf_sub k f = true -> nnf_sub KTop f = true.
Proof.
  intros k f H. destruct f; simpl in *; try exact H.
  - destruct k; simpl in *; try exact H. discriminate.
  - destruct k; simpl in *; try exact H. discriminate.
Qed.

Lemma nnf_sub_is_nnf : forall k f, nnf_sub k f = true -> is_nnf f = true.
Proof.
  intros k f H. destruct f; try (simpl in H; discriminate); try reflexivity;
    unfold is_nnf; apply (nnf_sub_top k); exact H.
Qed.

Lemma and_collect_shape : forall l res,
  Forall (fun g => is_nnf g = true) l -> and_collect l = Some res ->
  forallb (nnf_sub KAnd) res = true.
Proof.
  induction l as [|x l IH]; intros res HF H; simpl in H.
  - injection H as <-. reflexivity.
  - inversion HF as [|x' l' Hx Hl]; subst.
    destruct x; try (simpl in Hx; discriminate); unfold is_nnf in Hx; cbn [nnf_sub] in Hx.
    + destruct (and_collect l) as [r|]; simpl in H; [|discriminate].
      injection H as <-. simpl. apply IH; auto.
    + destruct (and_collect l) as [r|]; simpl in H; [|discriminate].
      injection H as <-. rewrite forallb_app. rewrite (IH r Hl eq_refl).
      apply andb_true_iff in Hx. destruct Hx as [_ Hx]. rewrite Hx. reflexivity.
    + destruct (and_collect l) as [r|]; simpl in H; [|discriminate].
      injection H as <-. cbn [forallb]. rewrite (IH r Hl eq_refl).
      cbn [nnf_sub]. rewrite Hx. reflexivity.
    + apply IH; auto.
Qed.

Lemma or_collect_shape : forall l res,
  Forall (fun g => is_nnf g = true) l -> or_collect l = Some res ->
  forallb (nnf_sub KOr) res = true.
Proof.
  induction l as [|x l IH]; intros res HF H; simpl in H.
  - injection H as <-. reflexivity.
  - inversion HF as [|x' l' Hx Hl]; subst.
    destruct x; try (simpl in Hx; discriminate); unfold is_nnf in Hx; cbn [nnf_sub] in Hx.
    + destruct (or_collect l) as [r|]; simpl in H; [|discriminate].
      injection H as <-. simpl. apply IH; auto.
    + destruct (or_collect l) as [r|]; simpl in H; [|discriminate].
      injection H as <-. cbn [forallb]. rewrite (IH r Hl eq_refl).
      cbn [nnf_sub]. rewrite Hx. reflexivity.
    + destruct (or_collect l) as [r|]; simpl in H; [|discriminate].
      injection H as <-. rewrite forallb_app. rewrite (IH r Hl eq_refl).
      apply andb_true_iff in Hx. destruct Hx as [_ Hx]. rewrite Hx. reflexivity.
    + apply IH; auto.
Qed.

Lemma and_fold_shape : forall l,
  Forall (fun g => is_nnf g = true) l -> is_nnf (and_fold l) = true.
Proof.
  intros l HF. unfold and_fold. destruct (and_collect l) as [res|] eqn:E; [|reflexivity].
  pose proof (and_collect_shape _ _ HF E) as HS.
  destruct res as [|x [|y r]]; [reflexivity| |].
  - simpl in HS. rewrite andb_true_r in HS. apply (nnf_sub_is_nnf KAnd). exact HS.
  - cbn [is_nnf nnf_sub]. rewrite HS. reflexivity.
Qed.

Lemma or_fold_shape : forall l,
  Forall (fun g => is_nnf g = true) l -> is_nnf (or_fold l) = true.
Proof.
  intros l HF. unfold or_fold. destruct (or_collect l) as [res|] eqn:E; [|reflexivity].
  pose proof (or_collect_shape _ _ HF E) as HS.
  destruct res as [|x [|y r]]; [reflexivity| |].
  - simpl in HS. rewrite andb_true_r in HS. apply (nnf_sub_is_nnf KOr). exact HS.
  - cbn [is_nnf nnf_sub]. rewrite HS. reflexivity.
Qed.

Lemma nnfp_gen_shape : forall uq, (forall neg vs, is_nnf (uq neg vs) = true) ->
  forall f neg, is_nnf (nnfp_gen uq neg f) = true.
Proof.
  intros uq Hu.
  induction f as [v|v s|f IH|l IH|l IH| | |vs] using form_ind'; intros neg; simpl.
  - reflexivity.
  - reflexivity.
  - apply IH.
  - destruct neg; [apply or_fold_shape|apply and_fold_shape];
      apply Forall_forall; intros g Hg; apply in_map_iff in Hg;
      destruct Hg as [x [<- Hx]]; rewrite Forall_forall in IH; apply IH; exact Hx.
  - destruct neg; [apply and_fold_shape|apply or_fold_shape];
      apply Forall_forall; intros g Hg; apply in_map_iff in Hg;
      destruct Hg as [x [<- Hx]]; rewrite Forall_forall in IH; apply IH; exact Hx.
  - destruct neg; reflexivity.
  - destruct neg; reflexivity.
  - apply Hu.
Qed.

Lemma nnfp0_shape : forall f neg, is_nnf (nnfp0 neg f) = true.
Proof. apply nnfp_gen_shape. reflexivity. Qed.

Lemma nnfp_shape : forall f neg, is_nnf (nnfp neg f) = true.
Proof. apply nnfp_gen_shape. intros neg vs. unfold uq_go. destruct neg; apply nnfp0_shape. Qed.

Theorem nnf_shape : forall f, is_nnf (nnf f) = true.
Proof. intros f. apply nnfp_shape. Qed.

(* cnfRec does not panic on an NNF *)
Lemma nnf_sub_cnf_ok : forall f k, nnf_sub k f = true -> cnf_ok f = true.
Proof.
  induction f as [v|v s|f IH|l IH|l IH| | |vs] using form_ind'; intros k H; simpl in *;
    try discriminate; try reflexivity.
  - apply andb_true_iff in H. destruct H as [_ H].
    rewrite forallb_forall in *. rewrite Forall_forall in IH.
    intros x Hx. apply (IH x Hx KAnd). apply H. exact Hx.
  - apply andb_true_iff in H. destruct H as [_ H].
    rewrite forallb_forall in *. rewrite Forall_forall in IH.
    intros x Hx. specialize (H x Hx). specialize (IH x Hx KOr H).
    destruct x; simpl in *; try discriminate; auto.
Qed.

Lemma is_nnf_cnf_ok : forall f, is_nnf f = true -> cnf_ok f = true.
Proof.
  intros f H. destruct f; simpl in H; try discriminate; try reflexivity.
  - apply (nnf_sub_cnf_ok _ KTop). exact H.
  - apply (nnf_sub_cnf_ok _ KTop). exact H.
Qed.

Theorem nnf_cnf_ok : forall f, cnf_ok (nnf f) = true.
Proof. intros f. apply is_nnf_cnf_ok. apply nnf_shape. Qed.

(* nnf is the identity on an NNF: the second normalisation pass of the De
   Morgan cases of not.nnf (bf.go:170,176) changes nothing. *)
Lemma and_collect_id : forall l, forallb (nnf_sub KAnd) l = true -> and_collect l = Some l.
Proof.
  induction l as [|x l IH]; simpl; intros H; [reflexivity|].
  apply andb_true_iff in H. destruct H as [Hx Hl].
  destruct x; simpl in Hx; try discriminate; rewrite (IH Hl); reflexivity.
Qed.

Lemma or_collect_id : forall l, forallb (nnf_sub KOr) l = true -> or_collect l = Some l.
Proof.
  induction l as [|x l IH]; simpl; intros H; [reflexivity|].
  apply andb_true_iff in H. destruct H as [Hx Hl].
  destruct x; simpl in Hx; try discriminate; rewrite (IH Hl); reflexivity.
Qed.

Lemma map_id_Forall {A} (f : A -> A) l : Forall (fun x => f x = x) l -> map f l = l.
Proof. induction 1 as [|x l H _ IH]; simpl; [reflexivity|]. rewrite H, IH. reflexivity. Qed.

Lemma nnf_sub_fix : forall uq f k, nnf_sub k f = true -> nnfp_gen uq false f = f.
Proof.
  intros uq.
  induction f as [v|v s|f IH|l IH|l IH| | |vs] using form_ind'; intros k H; simpl in *;
    try discriminate; try reflexivity.
  - apply andb_true_iff in H. destruct H as [H Hl].
    apply andb_true_iff in H. destruct H as [_ Hn].
    assert (E : map (nnfp_gen uq false) l = l).
    { apply map_id_Forall. rewrite Forall_forall in *. rewrite forallb_forall in Hl.
      intros x Hx. apply (IH x Hx KAnd). apply Hl. exact Hx. }
    rewrite E. unfold and_fold. rewrite (and_collect_id _ Hl).
    destruct l as [|x [|y r]]; simpl in Hn; try discriminate. reflexivity.
  - apply andb_true_iff in H. destruct H as [H Hl].
    apply andb_true_iff in H. destruct H as [_ Hn].
    assert (E : map (nnfp_gen uq false) l = l).
    { apply map_id_Forall. rewrite Forall_forall in *. rewrite forallb_forall in Hl.
      intros x Hx. apply (IH x Hx KOr). apply Hl. exact Hx. }
    rewrite E. unfold or_fold. rewrite (or_collect_id _ Hl).
    destruct l as [|x [|y r]]; simpl in Hn; try discriminate. reflexivity.
Qed.

Lemma is_nnf_fix : forall f, is_nnf f = true -> nnf f = f.
Proof.
  intros f H. unfold nnf, nnfp. destruct f; simpl in H; try discriminate; try reflexivity.
  - apply (nnf_sub_fix _ _ KTop). exact H.
  - apply (nnf_sub_fix _ _ KTop). exact H.
Qed.

Theorem nnf_idem : forall f neg, nnf (nnfp neg f) = nnfp neg f.
Proof. intros f neg. apply is_nnf_fix. apply nnfp_shape. Qed.

(* ------------------------------------------------------------------ *)
(* Decimal names, the dummy-k variables.                                *)

Lemma dec_inj : forall a b, dec a = dec b -> a = b.
Proof.
  intros a b H. unfold dec in H.
  assert (E : N.to_uint a = N.to_uint b).
  { pose proof (NilEmpty.usu (N.to_uint a)) as Ha.
    pose proof (NilEmpty.usu (N.to_uint b)) as Hb.
    rewrite H in Ha. rewrite Ha in Hb. injection Hb as Hb. exact Hb. }
  rewrite <- (DecimalN.Unsigned.of_to a), <- (DecimalN.Unsigned.of_to b), E. reflexivity.
Qed.

Lemma tseitin_var_name : forall i, tseitin_name (tseitin_var i) = true.
Proof.
  intros i. unfold tseitin_name, tseitin_var. simpl. destruct (dec (Z.to_N i)); reflexivity.
Qed.

Lemma tseitin_var_inj : forall a b, 0 <= a -> 0 <= b -> tseitin_var a = tseitin_var b -> a = b.
Proof.
  intros a b Ha Hb H. unfold tseitin_var, dummy_var in H. simpl in H.
  injection H as H. apply dec_inj in H. lia.
Qed.

(* ------------------------------------------------------------------ *)
(* Association lists.                                                   *)

Definition keys (t : table) : list var := map fst t.

Lemma tbl_get_in : forall t v i, tbl_get t v = Some i -> In (v, i) t.
Proof.
  induction t as [|[w x] t IH]; simpl; intros v i H; [discriminate|].
  destruct (var_eqb w v) eqn:E.
  - apply var_eqb_eq in E. injection H as <-. subst. left. reflexivity.
  - right. apply IH. exact H.
Qed.

Lemma tbl_get_none : forall t v, tbl_get t v = None <-> ~ In v (keys t).
Proof.
  induction t as [|[w x] t IH]; simpl; intros v.
  - split; auto.
  - destruct (var_eqb w v) eqn:E.
    + apply var_eqb_eq in E. split; [discriminate|]. intros H. exfalso. apply H. auto.
    + apply var_eqb_neq in E. rewrite IH. split.
      * intros H [H1|H1]; auto.
      * intros H H1. apply H. auto.
Qed.

Lemma tbl_get_some_key : forall t v i, tbl_get t v = Some i -> In v (keys t).
Proof.
  intros t v i H. apply tbl_get_in in H. unfold keys. apply in_map_iff.
  exists (v, i). auto.
Qed.

Lemma in_tbl_get : forall t v i, NoDup (keys t) -> In (v, i) t -> tbl_get t v = Some i.
Proof.
  induction t as [|[w x] t IH]; simpl; intros v i ND H; [contradiction|].
  inversion ND as [|k ks Hk Hks]; subst.
  destruct H as [H|H].
  - injection H as -> ->. rewrite var_eqb_refl. reflexivity.
  - destruct (var_eqb w v) eqn:E.
    + apply var_eqb_eq in E. subst. exfalso. apply Hk.
      unfold keys. apply in_map_iff. exists (v, i). auto.
    + apply IH; auto.
Qed.

Lemma tbl_set_fresh : forall t v x, tbl_get t v = None -> tbl_set t v x = t ++ [(v, x)].
Proof.
  induction t as [|[w y] t IH]; simpl; intros v x H; [reflexivity|].
  destruct (var_eqb w v); [discriminate|]. rewrite IH by exact H. reflexivity.
Qed.

Lemma tbl_get_app : forall t e v,
  tbl_get (t ++ e) v = match tbl_get t v with Some i => Some i | None => tbl_get e v end.
Proof.
  induction t as [|[w y] t IH]; simpl; intros e v; [reflexivity|].
  destruct (var_eqb w v); [reflexivity|]. apply IH.
Qed.

(* ------------------------------------------------------------------ *)
(* The invariant of the variable table.                                 *)

Definition nvars (vs : vars) : Z := tbl_len (v_all vs).

Record wf_vars (vs : vars) : Prop := {
  wf_idx : forall k v i, nth_error (v_all vs) k = Some (v, i) -> i = Z.of_nat k + 1;
  wf_nodup : NoDup (keys (v_all vs));
  wf_ts : forall v i, In (v, i) (v_all vs) -> tseitin_name v = true -> v = tseitin_var i;
  wf_pb : v_pb vs = filter (fun e => negb (tseitin_name (fst e))) (v_all vs) }.

Definition ext (vs vs' : vars) : Prop := exists e, v_all vs' = v_all vs ++ e.

Lemma ext_refl : forall vs, ext vs vs.
Proof. intros vs. exists []. rewrite List.app_nil_r. reflexivity. Qed.

Lemma ext_trans : forall a b c, ext a b -> ext b c -> ext a c.
Proof.
  intros a b c [e1 H1] [e2 H2]. exists (e1 ++ e2). rewrite H2, H1, List.app_assoc. reflexivity.
Qed.

Lemma ext_nvars : forall a b, ext a b -> nvars a <= nvars b.
Proof.
  intros a b [e H]. unfold nvars, tbl_len. rewrite H, app_length. lia.
Qed.

Definition sub_tbl (t T : table) : Prop :=
  forall v i, tbl_get t v = Some i -> tbl_get T v = Some i.

Lemma ext_sub_tbl : forall a b, ext a b -> sub_tbl (v_all a) (v_all b).
Proof.
  intros a b [e H] v i G. rewrite H, tbl_get_app, G. reflexivity.
Qed.

Lemma sub_tbl_trans : forall a b c, sub_tbl a b -> sub_tbl b c -> sub_tbl a c.
Proof. intros a b c H1 H2 v i G. apply H2, H1, G. Qed.

Lemma wf_empty : wf_vars (Vars [] []).
Proof.
  constructor; simpl.
  - intros k v i H. destruct k; discriminate.
  - constructor.
  - intros v i [].
  - reflexivity.
Qed.

Lemma wf_in_range : forall vs v i, wf_vars vs -> In (v, i) (v_all vs) -> 1 <= i <= nvars vs.
Proof.
  intros vs v i W H. apply In_nth_error in H. destruct H as [k Hk].
  pose proof (wf_idx _ W _ _ _ Hk) as E.
  assert (k < List.length (v_all vs))%nat by (apply nth_error_Some; congruence).
  unfold nvars, tbl_len. lia.
Qed.

Lemma wf_get_range : forall vs v i, wf_vars vs -> tbl_get (v_all vs) v = Some i -> 1 <= i <= nvars vs.
Proof. intros vs v i W H. apply (wf_in_range vs v); auto. apply tbl_get_in. exact H. Qed.

Lemma wf_inj : forall vs v w i, wf_vars vs ->
  In (v, i) (v_all vs) -> In (w, i) (v_all vs) -> v = w.
Proof.
  intros vs v w i W H1 H2.
  apply In_nth_error in H1. destruct H1 as [k1 Hk1].
  apply In_nth_error in H2. destruct H2 as [k2 Hk2].
  pose proof (wf_idx _ W _ _ _ Hk1) as E1. pose proof (wf_idx _ W _ _ _ Hk2) as E2.
  assert (k1 = k2) by lia. subst. rewrite Hk1 in Hk2. injection Hk2 as ->. reflexivity.
Qed.

(* appending a fresh key with the next index *)
Lemma wf_add : forall vs v,
  wf_vars vs -> tbl_get (v_all vs) v = None ->
  (tseitin_name v = true -> v = tseitin_var (nvars vs + 1)) ->
  wf_vars (Vars (v_all vs ++ [(v, nvars vs + 1)])
                (if tseitin_name v then v_pb vs else v_pb vs ++ [(v, nvars vs + 1)])).
Proof.
  intros vs v W G T. constructor; simpl.
  - intros k w i H. destruct (Nat.lt_ge_cases k (List.length (v_all vs))) as [L|L].
    + rewrite nth_error_app1 in H by exact L. apply (wf_idx _ W _ _ _ H).
    + rewrite nth_error_app2 in H by exact L.
      destruct (k - List.length (v_all vs))%nat as [|j] eqn:Ej; simpl in H.
      * injection H as <- <-. unfold nvars, tbl_len. lia.
      * destruct j; discriminate.
  - unfold keys. rewrite map_app. simpl. apply NoDup_app_disj.
    + apply (wf_nodup _ W).
    + constructor; [intros []|constructor].
    + intros x H1 [<-|[]]. apply tbl_get_none in G. apply G. exact H1.
  - intros w i H Hw. apply in_app_or in H. destruct H as [H|[H|[]]].
    + apply (wf_ts _ W _ _ H Hw).
    + injection H as <- <-. apply T. exact Hw.
  - rewrite filter_app. simpl. rewrite <- (wf_pb _ W).
    destruct (tseitin_name v); simpl; [rewrite List.app_nil_r|]; reflexivity.
Qed.

Lemma pb_get : forall vs v, wf_vars vs -> tseitin_name v = false ->
  tbl_get (v_pb vs) v = tbl_get (v_all vs) v.
Proof.
  intros vs v W Hv. rewrite (wf_pb _ W). induction (v_all vs) as [|[w x] t IH]; simpl; [reflexivity|].
  destruct (tseitin_name w) eqn:Ew; simpl.
  - destruct (var_eqb w v) eqn:E; [|exact IH].
    apply var_eqb_eq in E. subst. congruence.
  - destruct (var_eqb w v); [reflexivity|exact IH].
Qed.

(* ------------------------------------------------------------------ *)
(* litValue and dummy.                                                  *)

Lemma lit_value_spec : forall vs v s x vs',
  wf_vars vs -> tseitin_name v = false -> lit_value vs v s = (x, vs') ->
  exists i, x = (if s then - i else i) /\ tbl_get (v_all vs') v = Some i /\
            wf_vars vs' /\ ext vs vs' /\
            ((vs' = vs) \/
             (tbl_get (v_all vs) v = None /\ i = nvars vs + 1 /\
              v_all vs' = v_all vs ++ [(v, i)] /\ v_pb vs' = v_pb vs ++ [(v, i)])).
Proof.
  intros vs v s x vs' W Hv H. unfold lit_value in H.
  destruct (tbl_get (v_all vs) v) as [i|] eqn:G.
  - injection H as <- <-. exists i.
    split; [reflexivity|split; [exact G|split; [exact W|split; [apply ext_refl|left; reflexivity]]]].
  - injection H as <- <-. exists (nvars vs + 1).
    assert (Gp : tbl_get (v_pb vs) v = None) by (rewrite pb_get; auto).
    rewrite (tbl_set_fresh _ _ _ G), (tbl_set_fresh _ _ _ Gp). fold (nvars vs).
    pose proof (wf_add vs v W G) as W'. rewrite Hv in W'.
    split; [reflexivity|split; [|split; [|split]]].
    + simpl. rewrite tbl_get_app, G. simpl. rewrite var_eqb_refl. reflexivity.
    + apply W'. discriminate.
    + eexists. reflexivity.
    + right. repeat split; auto.
Qed.

Lemma new_dummy_spec : forall vs d vs',
  wf_vars vs -> new_dummy vs = (d, vs') ->
  d = nvars vs + 1 /\ wf_vars vs' /\ ext vs vs' /\ nvars vs' = nvars vs + 1 /\
  v_all vs' = v_all vs ++ [(tseitin_var d, d)] /\ v_pb vs' = v_pb vs.
Proof.
  intros vs d vs' W H. unfold new_dummy in H. injection H as <- <-. fold (nvars vs).
  assert (G : tbl_get (v_all vs) (tseitin_var (nvars vs + 1)) = None).
  { apply tbl_get_none. intros Hin. unfold keys in Hin. apply in_map_iff in Hin.
    destruct Hin as [[w i] [Hw Hi]]. simpl in Hw. subst w.
    pose proof (wf_ts _ W _ _ Hi (tseitin_var_name _)) as E.
    pose proof (wf_in_range _ _ _ W Hi) as R.
    apply tseitin_var_inj in E; unfold nvars, tbl_len in *; lia. }
  rewrite (tbl_set_fresh _ _ _ G).
  pose proof (wf_add vs _ W G (fun _ => eq_refl)) as W'. rewrite tseitin_var_name in W'.
  split; [reflexivity|split; [exact W'|split; [|split; [|split; reflexivity]]]].
  - eexists. reflexivity.
  - unfold nvars, tbl_len. simpl. rewrite app_length. simpl. lia.
Qed.

(* ------------------------------------------------------------------ *)
(* Unfolding the loops of cnfRec.                                       *)

Definition fv_ok (f : form) : Prop := forall v, In v (fvars f) -> tseitin_name v = false.

Lemma fv_okb_ok : forall f, fv_okb f = true <-> fv_ok f.
Proof.
  intros f. unfold fv_okb, fv_ok. rewrite forallb_forall. split.
  - intros H v Hv. specialize (H v Hv). destruct (tseitin_name v); [discriminate|reflexivity].
  - intros H v Hv. rewrite (H v Hv). reflexivity.
Qed.

Lemma fv_ok_and_in : forall l x, fv_ok (FAnd l) -> In x l -> fv_ok x.
Proof. intros l x H Hx v Hv. apply H. simpl. apply in_flat_map. exists x. auto. Qed.

Lemma fv_ok_or_in : forall l x, fv_ok (FOr l) -> In x l -> fv_ok x.
Proof. intros l x H Hx v Hv. apply H. simpl. apply in_flat_map. exists x. auto. Qed.

Lemma fv_ok_and_of : forall l, (forall x, In x l -> fv_ok x) -> fv_ok (FAnd l).
Proof. intros l H v Hv. simpl in Hv. apply in_flat_map in Hv. destruct Hv as [x [Hx Hv]]. exact (H x Hx v Hv). Qed.

Lemma fv_ok_or_of : forall l, (forall x, In x l -> fv_ok x) -> fv_ok (FOr l).
Proof. intros l H v Hv. simpl in Hv. apply in_flat_map in Hv. destruct Hv as [x [Hx Hv]]. exact (H x Hx v Hv). Qed.

Lemma thread_guard {A} : forall (step : A -> vars -> list clause * vars) d l vs,
  thread (fun sub vs0 => let '(c, vs') := step sub vs0 in (guard d c, vs')) l vs =
  let '(c, vs') := thread step l vs in (guard d c, vs').
Proof.
  intros step d. induction l as [|x l IH]; intros vs; simpl; [reflexivity|].
  destruct (step x vs) as [c1 vs1]. rewrite IH.
  destruct (thread step l vs1) as [c2 vs2]. unfold guard. rewrite map_app. reflexivity.
Qed.

Lemma cnf_rec_and_cons : forall x r vs,
  cnf_rec (FAnd (x :: r)) vs =
  let '(c1, vs1) := cnf_rec x vs in
  let '(c2, vs2) := cnf_rec (FAnd r) vs1 in (c1 ++ c2, vs2).
Proof. reflexivity. Qed.

Lemma or_thread_lit : forall v s r vs,
  or_thread cnf_rec (FLit v s :: r) vs =
  let '(x, vs1) := lit_value vs v s in
  let '(res, lits, vs2) := or_thread cnf_rec r vs1 in (res, x :: lits, vs2).
Proof. reflexivity. Qed.

Lemma or_thread_and : forall l2 r vs,
  or_thread cnf_rec (FAnd l2 :: r) vs =
  let '(d, vs1) := new_dummy vs in
  let '(c, vs2) := cnf_rec (FAnd l2) vs1 in
  let '(res, lits, vs3) := or_thread cnf_rec r vs2 in
  (guard d c ++ res, d :: lits, vs3).
Proof.
  intros l2 r vs. cbn [or_thread]. destruct (new_dummy vs) as [d vs1].
  rewrite thread_guard. cbn [cnf_rec]. destruct (thread cnf_rec l2 vs1) as [c vs2]. reflexivity.
Qed.

(* ------------------------------------------------------------------ *)
(* cnfRec keeps the table well formed, only extends it, and produces     *)
(* literals within range.                                               *)

Definition in_range (cls : list clause) (n : Z) : Prop :=
  forall c l, In c cls -> In l c -> 1 <= Z.abs l <= n.

Lemma in_range_app : forall a b n, in_range a n -> in_range b n -> in_range (a ++ b) n.
Proof. intros a b n Ha Hb c l Hc Hl. apply in_app_or in Hc. destruct Hc; eauto. Qed.

Lemma in_range_mono : forall a n n', in_range a n -> n <= n' -> in_range a n'.
Proof. intros a n n' H L c l Hc Hl. specialize (H c l Hc Hl). lia. Qed.

Lemma in_range_guard : forall d c n, in_range c n -> 1 <= d <= n -> in_range (guard d c) n.
Proof.
  intros d c n H Hd c' l Hc Hl. unfold guard in Hc. apply in_map_iff in Hc.
  destruct Hc as [c0 [<- Hc0]]. apply in_app_or in Hl. destruct Hl as [Hl|[<-|[]]].
  - exact (H c0 l Hc0 Hl).
  - lia.
Qed.

Definition struct_ok (g : form) : Prop :=
  forall vs cls vs', fv_ok g -> wf_vars vs -> cnf_rec g vs = (cls, vs') ->
  wf_vars vs' /\ ext vs vs' /\ in_range cls (nvars vs').

Lemma and_struct : forall l, Forall struct_ok l -> struct_ok (FAnd l).
Proof.
  induction l as [|x l IH]; intros HF vs cls vs' Hfv W H.
  - simpl in H. injection H as <- <-. split; [exact W|split; [apply ext_refl|]].
    intros c l0 [].
  - inversion HF as [|x' l' Hx Hl]; subst. rewrite cnf_rec_and_cons in H.
    destruct (cnf_rec x vs) as [c1 vs1] eqn:E1.
    destruct (cnf_rec (FAnd l) vs1) as [c2 vs2] eqn:E2. injection H as <- <-.
    assert (Fx : fv_ok x) by (apply (fv_ok_and_in _ _ Hfv); left; reflexivity).
    assert (Fl : fv_ok (FAnd l)).
    { apply fv_ok_and_of. intros y Hy. apply (fv_ok_and_in _ _ Hfv). right. exact Hy. }
    destruct (Hx _ _ _ Fx W E1) as [W1 [X1 R1]].
    destruct (IH Hl _ _ _ Fl W1 E2) as [W2 [X2 R2]].
    split; [exact W2|split; [eapply ext_trans; eauto|]].
    apply in_range_app; [|exact R2]. eapply in_range_mono; [exact R1|]. apply ext_nvars. exact X2.
Qed.

Lemma or_thread_struct : forall l, Forall struct_ok l ->
  forall vs res lits vs', fv_ok (FOr l) -> wf_vars vs ->
  or_thread cnf_rec l vs = (res, lits, vs') ->
  wf_vars vs' /\ ext vs vs' /\ in_range res (nvars vs') /\
  (forall x, In x lits -> 1 <= Z.abs x <= nvars vs').
Proof.
  induction l as [|sub l IH]; intros HF vs res lits vs' Hfv W H.
  - simpl in H. injection H as <- <- <-.
    split; [exact W|split; [apply ext_refl|split]]; [intros c l0 []|intros x []].
  - inversion HF as [|x' l' Hx Hl]; subst.
    assert (Fl : fv_ok (FOr l)).
    { apply fv_ok_or_of. intros y Hy. apply (fv_ok_or_in _ _ Hfv). right. exact Hy. }
    assert (Fs : fv_ok sub) by (apply (fv_ok_or_in _ _ Hfv); left; reflexivity).
    destruct sub as [v|v s|g|l2|l2| | |us]; try (exact (IH Hl _ _ _ _ Fl W H)).
    + (* lit *)
      rewrite or_thread_lit in H. destruct (lit_value vs v s) as [x vs1] eqn:E1.
      destruct (or_thread cnf_rec l vs1) as [[res2 lits2] vs2] eqn:E2. injection H as <- <- <-.
      assert (Hv : tseitin_name v = false) by (apply Fs; simpl; auto).
      destruct (lit_value_spec _ _ _ _ _ W Hv E1) as [i [Ex [G [W1 [X1 _]]]]].
      destruct (IH Hl _ _ _ _ Fl W1 E2) as [W2 [X2 [R2 L2]]].
      split; [exact W2|split; [eapply ext_trans; eauto|split; [exact R2|]]].
      intros y [<-|Hy]; [|exact (L2 y Hy)].
      pose proof (wf_get_range _ _ _ W1 G) as Ri. pose proof (ext_nvars _ _ X2) as Ln.
      subst x. destruct s; lia.
    + (* and *)
      rewrite or_thread_and in H. destruct (new_dummy vs) as [d vs1] eqn:E1.
      destruct (cnf_rec (FAnd l2) vs1) as [c vs2] eqn:E2.
      destruct (or_thread cnf_rec l vs2) as [[res3 lits3] vs3] eqn:E3. injection H as <- <- <-.
      destruct (new_dummy_spec _ _ _ W E1) as [Ed [W1 [X1 [N1 _]]]].
      destruct (Hx _ _ _ Fs W1 E2) as [W2 [X2 R2]].
      destruct (IH Hl _ _ _ _ Fl W2 E3) as [W3 [X3 [R3 L3]]].
      pose proof (ext_nvars _ _ X2) as Ln2. pose proof (ext_nvars _ _ X3) as Ln3.
      assert (0 <= nvars vs) by (unfold nvars, tbl_len; lia).
      split; [exact W3|split; [eauto using ext_trans|split]].
      * apply in_range_app; [|exact R3]. apply in_range_guard; [|lia].
        eapply in_range_mono; [exact R2|lia].
      * intros y [<-|Hy]; [lia|exact (L3 y Hy)].
Qed.

Lemma cnf_rec_struct : forall g, struct_ok g.
Proof.
  induction g as [v|v s|f IH|l IH|l IH| | |us] using form_ind'.
  - intros vs cls vs' _ W H. simpl in H. injection H as <- <-.
    split; [exact W|split; [apply ext_refl|intros c l []]].
  - intros vs cls vs' Hfv W H. simpl in H. destruct (lit_value vs v s) as [x vs1] eqn:E1.
    injection H as <- <-.
    assert (Hv : tseitin_name v = false) by (apply Hfv; simpl; auto).
    destruct (lit_value_spec _ _ _ _ _ W Hv E1) as [i [Ex [G [W1 [X1 _]]]]].
    split; [exact W1|split; [exact X1|]]. intros c l [<-|[]] [<-|[]].
    pose proof (wf_get_range _ _ _ W1 G). subst x. destruct s; lia.
  - intros vs cls vs' _ W H. simpl in H. injection H as <- <-.
    split; [exact W|split; [apply ext_refl|intros c l []]].
  - apply and_struct. exact IH.
  - intros vs cls vs' Hfv W H. cbn [cnf_rec] in H.
    destruct (or_thread cnf_rec l vs) as [[res lits] vs1] eqn:E. injection H as <- <-.
    destruct (or_thread_struct l IH _ _ _ _ Hfv W E) as [W1 [X1 [R1 L1]]].
    split; [exact W1|split; [exact X1|]]. apply in_range_app; [exact R1|].
    intros c x [<-|[]] Hx. exact (L1 x Hx).
  - intros vs cls vs' _ W H. simpl in H. injection H as <- <-.
    split; [exact W|split; [apply ext_refl|intros c l []]].
  - intros vs cls vs' _ W H. simpl in H. injection H as <- <-.
    split; [exact W|split; [apply ext_refl|]]. intros c l [<-|[]] [].
  - intros vs cls vs' _ W H. simpl in H. injection H as <- <-.
    split; [exact W|split; [apply ext_refl|intros c l []]].
Qed.

Lemma or_struct : forall l vs res lits vs', fv_ok (FOr l) -> wf_vars vs ->
  or_thread cnf_rec l vs = (res, lits, vs') ->
  wf_vars vs' /\ ext vs vs' /\ in_range res (nvars vs') /\
  (forall x, In x lits -> 1 <= Z.abs x <= nvars vs').
Proof.
  intros l. apply or_thread_struct. apply Forall_forall. intros x _. apply cnf_rec_struct.
Qed.

(* ------------------------------------------------------------------ *)
(* Soundness of the clauses: a model of the clauses, read through the   *)
(* (final) table, satisfies the formula.                                *)

Lemma lit_val_pos : forall m i, 1 <= i -> lit_val m i = var_val m i.
Proof. intros m i H. unfold lit_val. destruct (0 <? i) eqn:E; [reflexivity|]. apply Z.ltb_ge in E. lia. Qed.

Lemma lit_val_neg : forall m i, 1 <= i -> lit_val m (- i) = negb (var_val m i).
Proof.
  intros m i H. unfold lit_val. destruct (0 <? - i) eqn:E.
  - apply Z.ltb_lt in E. lia.
  - rewrite Z.opp_involutive. reflexivity.
Qed.

Lemma sat_cnf_app : forall m a b, sat_cnf m (a ++ b) = sat_cnf m a && sat_cnf m b.
Proof. intros. unfold sat_cnf. apply forallb_app. Qed.

Lemma sat_clause_app : forall m a b, sat_clause m (a ++ b) = sat_clause m a || sat_clause m b.
Proof. intros. unfold sat_clause. apply existsb_app. Qed.

Lemma sat_guard : forall m d c, 1 <= d ->
  sat_cnf m (guard d c) = negb (var_val m d) || sat_cnf m c.
Proof.
  intros m d c Hd. unfold guard, sat_cnf. induction c as [|x c IH]; simpl.
  - rewrite orb_true_r. reflexivity.
  - rewrite IH. rewrite sat_clause_app. unfold sat_clause at 2. simpl.
    rewrite lit_val_neg by exact Hd. rewrite orb_false_r.
    destruct (var_val m d), (sat_clause m x); reflexivity.
Qed.

Definition sound_ok (g : form) : Prop :=
  forall vs cls vs' T m dflt, fv_ok g -> cnf_ok g = true -> wf_vars vs ->
  cnf_rec g vs = (cls, vs') -> sub_tbl (v_all vs') T ->
  sat_cnf m cls = true -> eval (env_tbl T m dflt) g = true.

Lemma lit_sound : forall vs v s x vs' T m dflt,
  wf_vars vs -> tseitin_name v = false -> lit_value vs v s = (x, vs') ->
  sub_tbl (v_all vs') T -> lit_val m x = true ->
  eval (env_tbl T m dflt) (FLit v s) = true.
Proof.
  intros vs v s x vs' T m dflt W Hv E HT Hx.
  destruct (lit_value_spec _ _ _ _ _ W Hv E) as [i [Ex [G [W1 _]]]].
  pose proof (wf_get_range _ _ _ W1 G) as Ri.
  simpl. unfold env_tbl. rewrite (HT _ _ G). subst x. destruct s.
  - rewrite lit_val_neg in Hx by lia. exact Hx.
  - rewrite lit_val_pos in Hx by lia. exact Hx.
Qed.

Lemma and_sound : forall l, Forall sound_ok l -> sound_ok (FAnd l).
Proof.
  induction l as [|x l IH]; intros HF vs cls vs' T m dflt Hfv Hok W H HT Hs.
  - reflexivity.
  - inversion HF as [|x' l' Hx Hl]; subst. rewrite cnf_rec_and_cons in H.
    destruct (cnf_rec x vs) as [c1 vs1] eqn:E1.
    destruct (cnf_rec (FAnd l) vs1) as [c2 vs2] eqn:E2. injection H as <- <-.
    assert (Fx : fv_ok x) by (apply (fv_ok_and_in _ _ Hfv); left; reflexivity).
    assert (Fl : fv_ok (FAnd l)).
    { apply fv_ok_and_of. intros y Hy. apply (fv_ok_and_in _ _ Hfv). right. exact Hy. }
    cbn [cnf_ok forallb] in Hok. apply andb_true_iff in Hok. destruct Hok as [Ox Ol].
    destruct (cnf_rec_struct x _ _ _ Fx W E1) as [W1 [X1 R1]].
    destruct (cnf_rec_struct (FAnd l) _ _ _ Fl W1 E2) as [W2 [X2 R2]].
    rewrite sat_cnf_app in Hs. apply andb_true_iff in Hs. destruct Hs as [S1 S2].
    cbn [eval forallb]. apply andb_true_iff. split.
    + apply (Hx _ _ _ T m dflt Fx Ox W E1); [|exact S1].
      eapply sub_tbl_trans; [apply ext_sub_tbl; exact X2|exact HT].
    + apply (IH Hl _ _ _ T m dflt Fl Ol W1 E2 HT S2).
Qed.

Lemma or_thread_sound : forall l, Forall sound_ok l ->
  forall vs res lits vs' T m dflt, fv_ok (FOr l) -> cnf_ok (FOr l) = true -> wf_vars vs ->
  or_thread cnf_rec l vs = (res, lits, vs') -> sub_tbl (v_all vs') T ->
  sat_cnf m res = true -> existsb (lit_val m) lits = true ->
  existsb (eval (env_tbl T m dflt)) l = true.
Proof.
  induction l as [|sub l IH]; intros HF vs res lits vs' T m dflt Hfv Hok W H HT Hs Hl.
  - simpl in H. injection H as <- <- <-. discriminate.
  - inversion HF as [|x' l' Hx HFl]; subst.
    assert (Fl : fv_ok (FOr l)).
    { apply fv_ok_or_of. intros y Hy. apply (fv_ok_or_in _ _ Hfv). right. exact Hy. }
    assert (Fs : fv_ok sub) by (apply (fv_ok_or_in _ _ Hfv); left; reflexivity).
    cbn [cnf_ok forallb] in Hok. apply andb_true_iff in Hok. destruct Hok as [Os Ol].
    change (cnf_ok (FOr l) = true) in Ol.
    destruct sub as [v|v s|g|l2|l2| | |us]; try discriminate.
    + rewrite or_thread_lit in H. destruct (lit_value vs v s) as [x vs1] eqn:E1.
      destruct (or_thread cnf_rec l vs1) as [[res2 lits2] vs2] eqn:E2. injection H as <- <- <-.
      assert (Hv : tseitin_name v = false) by (apply Fs; simpl; auto).
      destruct (lit_value_spec _ _ _ _ _ W Hv E1) as [i [Ex [G [W1 [X1 _]]]]].
      destruct (or_struct _ _ _ _ _ Fl W1 E2) as [W2 [X2 _]].
      cbn [existsb] in Hl |- *. apply orb_true_iff in Hl. apply orb_true_iff.
      destruct Hl as [Hl|Hl].
      * left. apply (lit_sound _ _ _ _ _ T m dflt W Hv E1); [|exact Hl].
        eapply sub_tbl_trans; [apply ext_sub_tbl; exact X2|exact HT].
      * right. apply (IH HFl _ _ _ _ T m dflt Fl Ol W1 E2 HT Hs Hl).
    + rewrite or_thread_and in H. destruct (new_dummy vs) as [d vs1] eqn:E1.
      destruct (cnf_rec (FAnd l2) vs1) as [c vs2] eqn:E2.
      destruct (or_thread cnf_rec l vs2) as [[res3 lits3] vs3] eqn:E3. injection H as <- <- <-.
      destruct (new_dummy_spec _ _ _ W E1) as [Ed [W1 [X1 [N1 _]]]].
      destruct (cnf_rec_struct _ _ _ _ Fs W1 E2) as [W2 [X2 R2]].
      destruct (or_struct _ _ _ _ _ Fl W2 E3) as [W3 [X3 _]].
      assert (Hd : 1 <= d) by (unfold nvars, tbl_len in Ed; lia).
      rewrite sat_cnf_app in Hs. apply andb_true_iff in Hs. destruct Hs as [S1 S3].
      cbn [existsb] in Hl |- *. apply orb_true_iff in Hl. apply orb_true_iff.
      destruct Hl as [Hl|Hl].
      * left. rewrite lit_val_pos in Hl by exact Hd.
        rewrite sat_guard in S1 by exact Hd. rewrite Hl in S1. simpl in S1.
        change (cnf_ok (FAnd l2) = true) in Os.
        apply (Hx _ _ _ T m dflt Fs Os W1 E2); [|exact S1].
        eapply sub_tbl_trans; [apply ext_sub_tbl; exact X3|exact HT].
      * right. apply (IH HFl _ _ _ _ T m dflt Fl Ol W2 E3 HT S3 Hl).
Qed.

Lemma cnf_rec_sound : forall g, sound_ok g.
Proof.
  induction g as [v|v s|f IH|l IH|l IH| | |us] using form_ind'.
  - intros vs cls vs' T m dflt _ Hok. discriminate.
  - intros vs cls vs' T m dflt Hfv _ W H HT Hs. simpl in H.
    destruct (lit_value vs v s) as [x vs1] eqn:E1. injection H as <- <-.
    assert (Hv : tseitin_name v = false) by (apply Hfv; simpl; auto).
    apply (lit_sound _ _ _ _ _ T m dflt W Hv E1 HT).
    simpl in Hs. rewrite andb_true_r, orb_false_r in Hs. exact Hs.
  - intros vs cls vs' T m dflt _ Hok. discriminate.
  - apply and_sound. exact IH.
  - intros vs cls vs' T m dflt Hfv Hok W H HT Hs. cbn [cnf_rec] in H.
    destruct (or_thread cnf_rec l vs) as [[res lits] vs1] eqn:E. injection H as <- <-.
    rewrite sat_cnf_app in Hs. apply andb_true_iff in Hs. destruct Hs as [S1 S2].
    simpl in S2. rewrite andb_true_r in S2.
    cbn [eval]. apply (or_thread_sound l IH _ _ _ _ T m dflt Hfv Hok W E HT S1 S2).
  - intros vs cls vs' T m dflt _ _ _ _ _ _. reflexivity.
  - intros vs cls vs' T m dflt _ _ W H HT Hs. simpl in H. injection H as <- <-.
    simpl in Hs. discriminate.
  - intros vs cls vs' T m dflt _ Hok. discriminate.
Qed.

(* ------------------------------------------------------------------ *)
(* Completeness: an assignment of the formula variables extends to a    *)
(* model of the clauses (each dummy takes the value of the conjunction  *)
(* it guards).                                                          *)

Definition mlen (m : model) : Z := Z.of_nat (List.length m).

Lemma mlen_app : forall m e, mlen (m ++ e) = mlen m + mlen e.
Proof. intros. unfold mlen. rewrite app_length. lia. Qed.

Lemma var_val_app1 : forall m e i, 1 <= i <= mlen m -> var_val (m ++ e) i = var_val m i.
Proof.
  intros m e i H. unfold var_val, mlen in *. apply app_nth1. lia.
Qed.

Lemma var_val_app_last : forall m b i, i = mlen m + 1 -> var_val (m ++ [b]) i = b.
Proof.
  intros m b i ->. unfold var_val, mlen.
  replace (Z.to_nat (Z.of_nat (List.length m) + 1 - 1)) with (List.length m) by lia.
  rewrite app_nth2 by lia. rewrite Nat.sub_diag. reflexivity.
Qed.

Lemma lit_val_app : forall m e l, 1 <= Z.abs l <= mlen m -> lit_val (m ++ e) l = lit_val m l.
Proof.
  intros m e l H. unfold lit_val. destruct (0 <? l) eqn:E.
  - apply Z.ltb_lt in E. apply var_val_app1. lia.
  - apply Z.ltb_ge in E. f_equal. apply var_val_app1. lia.
Qed.

Lemma sat_clause_app_model : forall m e c,
  (forall l, In l c -> 1 <= Z.abs l <= mlen m) -> sat_clause (m ++ e) c = sat_clause m c.
Proof.
  intros m e c H. unfold sat_clause. induction c as [|l c IH]; simpl; [reflexivity|].
  rewrite lit_val_app by (apply H; left; reflexivity).
  rewrite IH; [reflexivity|]. intros l0 Hl0. apply H. right. exact Hl0.
Qed.

Lemma sat_cnf_app_model : forall m e cls,
  in_range cls (mlen m) -> sat_cnf (m ++ e) cls = sat_cnf m cls.
Proof.
  intros m e cls H. unfold sat_cnf. induction cls as [|c cls IH]; simpl; [reflexivity|].
  rewrite sat_clause_app_model by (intros l Hl; apply (H c l); [left; reflexivity|exact Hl]).
  rewrite IH; [reflexivity|]. intros c0 l Hc Hl. apply (H c0 l); [right; exact Hc|exact Hl].
Qed.

Definition consistent (env : var -> bool) (t : table) (m : model) : Prop :=
  forall v i, tbl_get t v = Some i -> tseitin_name v = false -> var_val m i = env v.

Definition complete_ok (g : form) : Prop :=
  forall vs cls vs' env m, fv_ok g -> cnf_ok g = true -> wf_vars vs ->
  cnf_rec g vs = (cls, vs') -> mlen m = nvars vs -> consistent env (v_all vs) m ->
  exists e, mlen (m ++ e) = nvars vs' /\ consistent env (v_all vs') (m ++ e) /\
            (eval env g = true -> sat_cnf (m ++ e) cls = true).

Lemma lit_complete : forall vs v s x vs' env m,
  wf_vars vs -> tseitin_name v = false -> lit_value vs v s = (x, vs') ->
  mlen m = nvars vs -> consistent env (v_all vs) m ->
  exists e, mlen (m ++ e) = nvars vs' /\ consistent env (v_all vs') (m ++ e) /\
            lit_val (m ++ e) x = eval env (FLit v s).
Proof.
  intros vs v s x vs' env m W Hv E L C.
  destruct (lit_value_spec _ _ _ _ _ W Hv E) as [i [Ex [G [W1 [X1 [Hsame|Hnew]]]]]].
  - subst vs'. exists []. rewrite List.app_nil_r. split; [exact L|split; [exact C|]].
    pose proof (wf_get_range _ _ _ W G) as Ri. pose proof (C _ _ G Hv) as Cv.
    subst x. simpl. destruct s; [rewrite lit_val_neg by lia|rewrite lit_val_pos by lia];
      rewrite Cv; reflexivity.
  - destruct Hnew as [Gn [Ei [Ea Ep]]]. exists [env v].
    assert (Ln : nvars vs' = nvars vs + 1).
    { unfold nvars, tbl_len. rewrite Ea, app_length. simpl. lia. }
    split; [rewrite mlen_app; unfold mlen at 2; simpl; lia|]. split.
    + intros w j Gw Hw. rewrite Ea, tbl_get_app in Gw.
      destruct (tbl_get (v_all vs) w) as [j'|] eqn:Gw'.
      * injection Gw as <-. pose proof (wf_get_range _ _ _ W Gw') as Rj.
        rewrite var_val_app1 by lia. apply (C _ _ Gw' Hw).
      * simpl in Gw. destruct (var_eqb v w) eqn:Evw; [|discriminate].
        apply var_eqb_eq in Evw. injection Gw as <-. subst w.
        apply var_val_app_last. lia.
    + assert (Vi : var_val (m ++ [env v]) i = env v) by (apply var_val_app_last; lia).
      assert (1 <= i) by (unfold nvars, tbl_len in Ei; lia).
      subst x. simpl. destruct s; [rewrite lit_val_neg by lia|rewrite lit_val_pos by lia];
        rewrite Vi; reflexivity.
Qed.

Lemma and_complete : forall l, Forall complete_ok l -> complete_ok (FAnd l).
Proof.
  induction l as [|x l IH]; intros HF vs cls vs' env m Hfv Hok W H L C.
  - simpl in H. injection H as <- <-. exists []. rewrite List.app_nil_r.
    split; [exact L|split; [exact C|reflexivity]].
  - inversion HF as [|x' l' Hx Hl]; subst. rewrite cnf_rec_and_cons in H.
    destruct (cnf_rec x vs) as [c1 vs1] eqn:E1.
    destruct (cnf_rec (FAnd l) vs1) as [c2 vs2] eqn:E2. injection H as <- <-.
    assert (Fx : fv_ok x) by (apply (fv_ok_and_in _ _ Hfv); left; reflexivity).
    assert (Fl : fv_ok (FAnd l)).
    { apply fv_ok_and_of. intros y Hy. apply (fv_ok_and_in _ _ Hfv). right. exact Hy. }
    cbn [cnf_ok forallb] in Hok. apply andb_true_iff in Hok. destruct Hok as [Ox Ol].
    destruct (cnf_rec_struct x _ _ _ Fx W E1) as [W1 [X1 R1]].
    destruct (Hx _ _ _ env m Fx Ox W E1 L C) as [e1 [L1 [C1 S1]]].
    destruct (IH Hl _ _ _ env (m ++ e1) Fl Ol W1 E2 L1 C1) as [e2 [L2 [C2 S2]]].
    exists (e1 ++ e2). rewrite List.app_assoc. split; [exact L2|split; [exact C2|]].
    intros Hev. cbn [eval forallb] in Hev. apply andb_true_iff in Hev. destruct Hev as [Hev1 Hev2].
    rewrite sat_cnf_app. apply andb_true_iff. split.
    + rewrite sat_cnf_app_model by (rewrite L1; exact R1). apply S1. exact Hev1.
    + apply S2. exact Hev2.
Qed.

Lemma or_thread_complete : forall l, Forall complete_ok l ->
  forall vs res lits vs' env m, fv_ok (FOr l) -> cnf_ok (FOr l) = true -> wf_vars vs ->
  or_thread cnf_rec l vs = (res, lits, vs') -> mlen m = nvars vs ->
  consistent env (v_all vs) m ->
  exists e, mlen (m ++ e) = nvars vs' /\ consistent env (v_all vs') (m ++ e) /\
            sat_cnf (m ++ e) res = true /\
            (existsb (eval env) l = true -> existsb (lit_val (m ++ e)) lits = true).
Proof.
  induction l as [|sub l IH]; intros HF vs res lits vs' env m Hfv Hok W H L C.
  - simpl in H. injection H as <- <- <-. exists []. rewrite List.app_nil_r.
    split; [exact L|split; [exact C|split; [reflexivity|intros Hx; discriminate]]].
  - inversion HF as [|x' l' Hx HFl]; subst.
    assert (Fl : fv_ok (FOr l)).
    { apply fv_ok_or_of. intros y Hy. apply (fv_ok_or_in _ _ Hfv). right. exact Hy. }
    assert (Fs : fv_ok sub) by (apply (fv_ok_or_in _ _ Hfv); left; reflexivity).
    cbn [cnf_ok forallb] in Hok. apply andb_true_iff in Hok. destruct Hok as [Os Ol].
    change (cnf_ok (FOr l) = true) in Ol.
    destruct sub as [v|v s|g|l2|l2| | |us]; try discriminate.
    + rewrite or_thread_lit in H. destruct (lit_value vs v s) as [x vs1] eqn:E1.
      destruct (or_thread cnf_rec l vs1) as [[res2 lits2] vs2] eqn:E2. injection H as <- <- <-.
      assert (Hv : tseitin_name v = false) by (apply Fs; simpl; auto).
      destruct (lit_value_spec _ _ _ _ _ W Hv E1) as [i [Ex [G [W1 [X1 _]]]]].
      destruct (lit_complete _ _ _ _ _ env m W Hv E1 L C) as [e1 [L1 [C1 V1]]].
      destruct (IH HFl _ _ _ _ env (m ++ e1) Fl Ol W1 E2 L1 C1) as [e2 [L2 [C2 [S2 D2]]]].
      exists (e1 ++ e2). rewrite List.app_assoc.
      split; [exact L2|split; [exact C2|split; [exact S2|]]].
      intros Hev. cbn [existsb] in Hev |- *. apply orb_true_iff in Hev. apply orb_true_iff.
      destruct Hev as [Hev|Hev]; [left|right; exact (D2 Hev)].
      pose proof (wf_get_range _ _ _ W1 G) as Ri.
      rewrite lit_val_app; [rewrite V1; exact Hev|]. rewrite L1. subst x. destruct s; lia.
    + rewrite or_thread_and in H. destruct (new_dummy vs) as [d vs1] eqn:E1.
      destruct (cnf_rec (FAnd l2) vs1) as [c vs2] eqn:E2.
      destruct (or_thread cnf_rec l vs2) as [[res3 lits3] vs3] eqn:E3. injection H as <- <- <-.
      destruct (new_dummy_spec _ _ _ W E1) as [Ed [W1 [X1 [N1 [Ea _]]]]].
      destruct (cnf_rec_struct _ _ _ _ Fs W1 E2) as [W2 [X2 R2]].
      assert (Hd : 1 <= d) by (unfold nvars, tbl_len in Ed; lia).
      change (cnf_ok (FAnd l2) = true) in Os.
      remember (eval env (FAnd l2)) as b eqn:Hb.
      assert (L1 : mlen (m ++ [b]) = nvars vs1).
      { rewrite mlen_app. unfold mlen at 2. simpl. lia. }
      assert (C1 : consistent env (v_all vs1) (m ++ [b])).
      { intros w j Gw Hw. rewrite Ea, tbl_get_app in Gw.
        destruct (tbl_get (v_all vs) w) as [j'|] eqn:Gw'.
        - injection Gw as <-. pose proof (wf_get_range _ _ _ W Gw') as Rj.
          rewrite var_val_app1 by lia. apply (C _ _ Gw' Hw).
        - simpl in Gw. destruct (var_eqb (tseitin_var d) w) eqn:Evw; [|discriminate].
          apply var_eqb_eq in Evw. subst w. rewrite tseitin_var_name in Hw. discriminate. }
      assert (Vd : var_val (m ++ [b]) d = b) by (apply var_val_app_last; lia).
      destruct (Hx _ _ _ env (m ++ [b]) Fs Os W1 E2 L1 C1) as [e2 [L2 [C2 S2]]].
      destruct (IH HFl _ _ _ _ env ((m ++ [b]) ++ e2) Fl Ol W2 E3 L2 C2) as [e3 [L3 [C3 [S3 D3]]]].
      exists ([b] ++ e2 ++ e3). rewrite !List.app_assoc.
      assert (Vd3 : var_val (((m ++ [b]) ++ e2) ++ e3) d = b).
      { rewrite <- List.app_assoc. rewrite var_val_app1; [exact Vd|]. rewrite L1. lia. }
      split; [exact L3|split; [exact C3|split]].
      * rewrite sat_cnf_app. apply andb_true_iff. split; [|exact S3].
        rewrite sat_guard by exact Hd. rewrite Vd3.
        destruct b; [|reflexivity]. simpl.
        rewrite sat_cnf_app_model by (rewrite L2; exact R2). apply S2. symmetry. exact Hb.
      * intros Hev. cbn [existsb] in Hev |- *. apply orb_true_iff in Hev. apply orb_true_iff.
        destruct Hev as [Hev|Hev]; [left|right; exact (D3 Hev)].
        rewrite lit_val_pos by exact Hd. rewrite Vd3, Hb. exact Hev.
Qed.

Lemma cnf_rec_complete : forall g, complete_ok g.
Proof.
  induction g as [v|v s|f IH|l IH|l IH| | |us] using form_ind'.
  - intros vs cls vs' env m _ Hok. discriminate.
  - intros vs cls vs' env m Hfv _ W H L C. simpl in H.
    destruct (lit_value vs v s) as [x vs1] eqn:E1. injection H as <- <-.
    assert (Hv : tseitin_name v = false) by (apply Hfv; simpl; auto).
    destruct (lit_complete _ _ _ _ _ env m W Hv E1 L C) as [e1 [L1 [C1 V1]]].
    exists e1. split; [exact L1|split; [exact C1|]]. intros Hev.
    simpl. rewrite V1, Hev. reflexivity.
  - intros vs cls vs' env m _ Hok. discriminate.
  - apply and_complete. exact IH.
  - intros vs cls vs' env m Hfv Hok W H L C. cbn [cnf_rec] in H.
    destruct (or_thread cnf_rec l vs) as [[res lits] vs1] eqn:E. injection H as <- <-.
    destruct (or_thread_complete l IH _ _ _ _ env m Hfv Hok W E L C) as [e [L1 [C1 [S1 D1]]]].
    exists e. split; [exact L1|split; [exact C1|]]. intros Hev.
    rewrite sat_cnf_app, S1. simpl. rewrite andb_true_r. apply D1. exact Hev.
  - intros vs cls vs' env m _ _ W H L C. simpl in H. injection H as <- <-.
    exists []. rewrite List.app_nil_r. split; [exact L|split; [exact C|reflexivity]].
  - intros vs cls vs' env m _ _ W H L C. simpl in H. injection H as <- <-.
    exists []. rewrite List.app_nil_r. split; [exact L|split; [exact C|intros Hev; discriminate]].
  - intros vs cls vs' env m _ Hok. discriminate.
Qed.

(* ------------------------------------------------------------------ *)
(* Unique: integer square root, size of the grid.                       *)

Open Scope nat_scope.


Lemma isqrt_spec : forall n, isqrt n * isqrt n <= n < (isqrt n + 1) * (isqrt n + 1).
Proof.
  intros n. unfold isqrt. pose proof (N.sqrt_spec (N.of_nat n) (N.le_0_l _)) as H.
  set (s := N.sqrt (N.of_nat n)) in *.
  destruct H as [H1 H2].
  assert (E1 : N.to_nat (s * s) = N.to_nat s * N.to_nat s) by apply N2Nat.inj_mul.
  assert (E2 : N.to_nat (N.succ s * N.succ s) = (N.to_nat s + 1) * (N.to_nat s + 1)).
  { rewrite N2Nat.inj_mul, N2Nat.inj_succ. lia. }
  rewrite <- E1, <- E2. lia.
Qed.

Lemma nb_cols_pos : forall n, 1 <= n -> 1 <= nb_cols n.
Proof.
  intros n H. unfold nb_cols. pose proof (isqrt_spec n) as Hs.
  generalize dependent (isqrt n). intros k Hs.
  destruct (Nat.eqb_spec n (k * k)) as [E|E]; [|lia].
  destruct k; [simpl in E; lia|lia].
Qed.

Lemma grid_covers : forall n, n <= nb_lines n * nb_cols n.
Proof.
  intros n. unfold nb_lines, nb_cols. pose proof (isqrt_spec n) as Hs.
  generalize dependent (isqrt n). intros k Hs.
  destruct (Nat.leb_spec n (k * k + k)) as [E1|E1];
  destruct (Nat.eqb_spec n (k * k)) as [E2|E2].
  - lia.
  - rewrite Nat.mul_succ_r. lia.
  - lia.
  - replace (S k) with (k + 1) by lia. lia.
Qed.

Lemma nb_lines_lt : forall n, 5 <= n -> nb_lines n < n.
Proof.
  intros n H. unfold nb_lines. pose proof (isqrt_spec n) as Hs.
  generalize dependent (isqrt n). intros k Hs.
  destruct (Nat.leb_spec n (k * k + k)) as [E1|E1].
  - destruct k as [|[|k]]; [lia|lia|]. nia.
  - destruct k as [|[|k]]; [lia|lia|]. nia.
Qed.

Lemma nb_cols_lt : forall n, 5 <= n -> nb_cols n < n.
Proof.
  intros n H. unfold nb_cols. pose proof (isqrt_spec n) as Hs.
  generalize dependent (isqrt n). intros k Hs.
  destruct (Nat.eqb_spec n (k * k)) as [E2|E2].
  - destruct k as [|[|[|k]]]; [lia|lia|lia|]. nia.
  - destruct k as [|[|k]]; [lia|lia|]. nia.
Qed.

(* ------------------------------------------------------------------ *)
(* Unique: exactly one cell of a grid iff exactly one line and exactly  *)
(* one column.                                                          *)


Lemma count_true_zero : forall l,
  count_true l = 0 <-> forall q, q < List.length l -> nth q l false = false.
Proof.
  induction l as [|b l IH]; simpl.
  - split; [intros _ q Hq; lia|reflexivity].
  - split.
    + intros H q Hq. destruct b; [discriminate|]. destruct q; [reflexivity|].
      apply IH; [exact H|lia].
    + intros H. pose proof (H 0 ltac:(lia)) as H0. simpl in H0. subst b. simpl.
      apply IH. intros q Hq. apply (H (S q)). lia.
Qed.

Lemma exactly_one_iff : forall l,
  exactly_one l = true <->
  exists p, p < List.length l /\ nth p l false = true /\
            forall q, q < List.length l -> nth q l false = true -> q = p.
Proof.
  unfold exactly_one. induction l as [|b l IH].
  - simpl. split; [discriminate|]. intros [p [Hp _]]. lia.
  - cbn [count_true List.length]. destruct b.
    + replace (1 + count_true l =? 1) with (count_true l =? 0)
        by (destruct (count_true l); reflexivity).
      rewrite Nat.eqb_eq, count_true_zero. split.
      * intros H. exists 0. split; [lia|split; [reflexivity|]].
        intros q Hq Hn. destruct q; [reflexivity|]. simpl in Hn.
        rewrite H in Hn by lia. discriminate.
      * intros [p [Hp [Hn Hu]]] q Hq.
        assert (p = 0) by (symmetry; apply Hu; [lia|reflexivity]). subst p.
        destruct (nth q l false) eqn:E; [|reflexivity].
        assert (S q = 0) by (apply Hu; [lia|exact E]). discriminate.
    + cbn [Nat.add]. rewrite IH. split.
      * intros [p [Hp [Hn Hu]]]. exists (S p). split; [lia|split; [exact Hn|]].
        intros q Hq Hq'. destruct q; [discriminate|]. f_equal. apply Hu; [lia|exact Hq'].
      * intros [p [Hp [Hn Hu]]]. destruct p; [discriminate|]. exists p.
        split; [lia|split; [exact Hn|]]. intros q Hq Hq'.
        assert (S q = S p) by (apply Hu; [lia|exact Hq']). lia.
Qed.

Lemma existsb_select {A} : forall (P : nat -> bool) (g : A -> bool) (d : A) l s,
  existsb g (select P s l) = true <->
  exists p, p < List.length l /\ P (s + p) = true /\ g (nth p l d) = true.
Proof.
  intros P g d. induction l as [|x l IH]; intros s; simpl.
  - split; [discriminate|]. intros [p [Hp _]]. lia.
  - destruct (P s) eqn:Ps.
    + simpl. rewrite orb_true_iff, IH. split.
      * intros [H|[p [Hp [HP Hg]]]].
        -- exists 0. rewrite Nat.add_0_r. split; [lia|auto].
        -- exists (S p). rewrite Nat.add_succ_r. split; [lia|auto].
      * intros [p [Hp [HP Hg]]]. destruct p; [left; exact Hg|right].
        exists p. rewrite Nat.add_succ_r in HP. split; [lia|auto].
    + rewrite IH. split.
      * intros [p [Hp [HP Hg]]]. exists (S p). rewrite Nat.add_succ_r. split; [lia|auto].
      * intros [p [Hp [HP Hg]]]. destruct p.
        -- rewrite Nat.add_0_r in HP. congruence.
        -- exists p. rewrite Nat.add_succ_r in HP. split; [lia|auto].
Qed.

Lemma nth_map_seq {A} : forall (f : nat -> A) d n i, i < n -> nth i (map f (seq 0 n)) d = f i.
Proof.
  intros f d n i H. rewrite (nth_indep _ d (f 0)) by (rewrite map_length, seq_length; exact H).
  rewrite map_nth. rewrite seq_nth by exact H. reflexivity.
Qed.

Lemma nth_map_env : forall (env : var -> bool) (d : var) vars p, p < List.length vars ->
  nth p (map env vars) false = env (nth p vars d).
Proof.
  intros env d vars p H. rewrite (nth_indep _ false (env d)) by (rewrite map_length; exact H).
  apply map_nth.
Qed.

(* the grid: exactly one line and exactly one column iff exactly one cell *)
Lemma grid_exactly_one : forall (env : var -> bool) vars r c,
  1 <= c -> List.length vars <= r * c ->
  exactly_one (map (fun i => existsb env (select (fun p => p / c =? i) 0 vars)) (seq 0 r)) &&
  exactly_one (map (fun j => existsb env (select (fun p => p mod c =? j) 0 vars)) (seq 0 c))
  = exactly_one (map env vars).
Proof.
  intros env vars r c Hc Hn. set (d := pb_var EmptyString). set (n := List.length vars) in *.
  assert (HL : forall i, existsb env (select (fun p => p / c =? i) 0 vars) = true <->
                         exists p, p < n /\ p / c = i /\ env (nth p vars d) = true).
  { intros i. rewrite (existsb_select _ _ d). simpl. split; intros [p [H1 [H2 H3]]]; exists p;
      (split; [exact H1|split; [|exact H3]]); [apply Nat.eqb_eq|apply Nat.eqb_eq]; exact H2. }
  assert (HC : forall j, existsb env (select (fun p => p mod c =? j) 0 vars) = true <->
                         exists p, p < n /\ p mod c = j /\ env (nth p vars d) = true).
  { intros j. rewrite (existsb_select _ _ d). simpl. split; intros [p [H1 [H2 H3]]]; exists p;
      (split; [exact H1|split; [|exact H3]]); [apply Nat.eqb_eq|apply Nat.eqb_eq]; exact H2. }
  assert (Hdiv : forall p, p < n -> p / c < r).
  { intros p Hp. apply Nat.div_lt_upper_bound; [lia|]. nia. }
  assert (Hmod : forall p, p mod c < c) by (intros p; apply Nat.mod_upper_bound; lia).
  apply eq_true_iff_eq. rewrite andb_true_iff. rewrite !exactly_one_iff.
  rewrite !map_length, !seq_length. fold n. split.
  - intros [[I [HI [LI UI]]] [J [HJ [CJ UJ]]]].
    rewrite nth_map_seq in LI by exact HI. rewrite nth_map_seq in CJ by exact HJ.
    apply HL in LI. destruct LI as [p [Hp [HpI Ep]]].
    assert (HpJ : p mod c = J).
    { apply UJ; [apply Hmod|]. rewrite nth_map_seq by apply Hmod. apply HC. exists p. auto. }
    exists p. split; [exact Hp|split].
    + rewrite (nth_map_env env d) by exact Hp. exact Ep.
    + intros q Hq Eq. rewrite (nth_map_env env d) in Eq by exact Hq.
      assert (HqI : q / c = I).
      { apply UI; [apply Hdiv; exact Hq|]. rewrite nth_map_seq by (apply Hdiv; exact Hq).
        apply HL. exists q. auto. }
      assert (HqJ : q mod c = J).
      { apply UJ; [apply Hmod|]. rewrite nth_map_seq by apply Hmod. apply HC. exists q. auto. }
      rewrite (Nat.div_mod q c) by lia. rewrite (Nat.div_mod p c) by lia. congruence.
  - intros [p [Hp [Ep Up]]]. rewrite (nth_map_env env d) in Ep by exact Hp.
    assert (Uq : forall q, q < n -> env (nth q vars d) = true -> q = p).
    { intros q Hq Eq. apply Up; [exact Hq|]. rewrite (nth_map_env env d) by exact Hq. exact Eq. }
    split.
    + exists (p / c). split; [apply Hdiv; exact Hp|split].
      * rewrite nth_map_seq by (apply Hdiv; exact Hp). apply HL. exists p. auto.
      * intros i Hi Ei. rewrite nth_map_seq in Ei by exact Hi. apply HL in Ei.
        destruct Ei as [q [Hq [Hqi Eq]]]. rewrite <- Hqi. f_equal. apply Uq; assumption.
    + exists (p mod c). split; [apply Hmod|split].
      * rewrite nth_map_seq by apply Hmod. apply HC. exists p. auto.
      * intros j Hj Ej. rewrite nth_map_seq in Ej by exact Hj. apply HC in Ej.
        destruct Ej as [q [Hq [Hqj Eq]]]. rewrite <- Hqj. f_equal. apply Uq; assumption.
Qed.

(* ------------------------------------------------------------------ *)
(* Unique: semantics of uniqueSmall and uniqueRec.                      *)


Lemma existsb_count : forall l, existsb (fun b : bool => b) l = (1 <=? count_true l).
Proof.
  induction l as [|b l IH]; simpl; [reflexivity|]. destruct b; simpl; [reflexivity|exact IH].
Qed.

Lemma none_count : forall (env : var -> bool) l,
  forallb (fun w => negb (env w)) l = (count_true (map env l) =? 0).
Proof.
  induction l as [|w l IH]; simpl; [reflexivity|]. destruct (env w); simpl; [reflexivity|exact IH].
Qed.

Lemma pair_row : forall (env : var -> bool) v l,
  forallb (fun w => eval env (FOr [FNot (FVar v); FNot (FVar w)])) l =
  negb (env v) || forallb (fun w => negb (env w)) l.
Proof.
  intros env v. induction l as [|w l IH]; simpl.
  - rewrite orb_true_r. reflexivity.
  - simpl in IH. rewrite IH. destruct (env v), (env w); reflexivity.
Qed.

Lemma pairs_neg_count : forall (env : var -> bool) l,
  forallb (eval env) (pairs_neg l) = (count_true (map env l) <=? 1).
Proof.
  induction l as [|v l IH]; [reflexivity|].
  cbn [pairs_neg]. rewrite forallb_app, forallb_map, IH, pair_row, none_count.
  cbn [map count_true].
  destruct (env v); cbn [negb orb];
    destruct (count_true (map env l)) as [|[|k]]; reflexivity.
Qed.

Lemma eval_unique_small : forall env vars,
  eval env (unique_small vars) = exactly_one (map env vars).
Proof.
  intros env vars. unfold unique_small. cbn [eval forallb].
  rewrite pairs_neg_count, existsb_map. cbn [eval].
  assert (E : existsb env vars = (1 <=? count_true (map env vars))).
  { rewrite <- existsb_count, existsb_map. reflexivity. }
  change (fun x : var => env x) with env.
  rewrite E. unfold exactly_one.
  destruct (count_true (map env vars)) as [|[|k]]; reflexivity.
Qed.

Lemma eval_f_eq : forall env a b, eval env (f_eq a b) = Bool.eqb (eval env a) (eval env b).
Proof. intros. simpl. destruct (eval env a), (eval env b); reflexivity. Qed.

Lemma eval_grid_defs : forall env ds ms,
  forallb (eval env) (grid_defs ds ms) = consistentb env (combine ds ms).
Proof.
  intros env. induction ds as [|d ds IH]; intros ms; [reflexivity|].
  destruct ms as [|l ms]; [reflexivity|].
  cbn [grid_defs combine forallb consistentb]. rewrite eval_f_eq. cbn [eval fst snd].
  rewrite existsb_map. cbn [eval]. f_equal. apply IH.
Qed.

Lemma consistentb_app : forall env a b,
  consistentb env (a ++ b) = consistentb env a && consistentb env b.
Proof. intros. unfold consistentb. apply forallb_app. Qed.

Lemma consistent_grid : forall env (mk : nat -> var) (sel : nat -> list var) s,
  consistentb env (combine (map mk s) (map sel s)) = true ->
  map env (map mk s) = map (fun i => existsb env (sel i)) s.
Proof.
  intros env mk sel. induction s as [|i s IH]; simpl; intros H; [reflexivity|].
  apply andb_true_iff in H. destruct H as [H1 H2]. apply eqb_prop in H1.
  rewrite H1, (IH H2). reflexivity.
Qed.

Lemma unique_rec_small : forall fuel vars, List.length vars <= 4 ->
  unique_rec fuel vars = unique_small vars.
Proof.
  intros fuel vars H. destruct fuel; simpl;
    destruct (List.length vars <=? 4) eqn:E; try reflexivity; apply Nat.leb_gt in E; lia.
Qed.

Lemma unique_defs_small : forall fuel vars, List.length vars <= 4 -> unique_defs fuel vars = [].
Proof.
  intros fuel vars H. destruct fuel; simpl;
    destruct (List.length vars <=? 4) eqn:E; try reflexivity; apply Nat.leb_gt in E; lia.
Qed.

Lemma grid_vars_length : forall kind n full, List.length (grid_vars kind n full) = n.
Proof. intros. unfold grid_vars. rewrite map_length, seq_length. reflexivity. Qed.

Theorem eval_unique_rec : forall fuel vars env, List.length vars <= fuel ->
  eval env (unique_rec fuel vars) =
  consistentb env (unique_defs fuel vars) && exactly_one (map env vars).
Proof.
  induction fuel as [|k IH]; intros vars env Hf.
  - rewrite unique_rec_small, unique_defs_small by lia. apply eval_unique_small.
  - destruct (Nat.le_gt_cases (List.length vars) 4) as [Hs|Hb].
    + rewrite unique_rec_small, unique_defs_small by lia. apply eval_unique_small.
    + cbn [unique_rec unique_defs].
      destruct (List.length vars <=? 4) eqn:E; [apply Nat.leb_le in E; lia|].
      set (n := List.length vars) in *.
      set (full := full_name vars).
      set (lines := grid_vars "line-" (nb_lines n) full).
      set (cols := grid_vars "col-" (nb_cols n) full).
      cbn [eval]. rewrite !forallb_app. cbn [forallb]. rewrite !eval_grid_defs.
      rewrite !consistentb_app.
      rewrite (IH lines env) by (unfold lines; rewrite grid_vars_length; pose proof (nb_lines_lt n); lia).
      rewrite (IH cols env) by (unfold cols; rewrite grid_vars_length; pose proof (nb_cols_lt n); lia).
      destruct (consistentb env (combine lines (lines_of vars (nb_lines n) (nb_cols n)))) eqn:C1;
        [|reflexivity].
      destruct (consistentb env (combine cols (cols_of vars (nb_cols n)))) eqn:C2;
        [|reflexivity].
      unfold lines, grid_vars, lines_of in C1. apply consistent_grid in C1.
      unfold cols, grid_vars, cols_of in C2. apply consistent_grid in C2.
      fold (grid_vars "line-" (nb_lines n) full) in C1. fold lines in C1.
      fold (grid_vars "col-" (nb_cols n) full) in C2. fold cols in C2.
      rewrite C1, C2.
      assert (G := grid_exactly_one env vars (nb_lines n) (nb_cols n)
                     (nb_cols_pos n ltac:(lia)) (grid_covers n)).
      rewrite <- G.
      cbn [andb].
      destruct (consistentb env (unique_defs k lines)), (consistentb env (unique_defs k cols));
        rewrite ?andb_true_r, ?andb_false_r; cbn [andb]; try reflexivity.
Qed.

(* ------------------------------------------------------------------ *)
(* The public constructors: translation of the source formula.         *)


Section SformInd.
  Variable P : sform -> Prop.
  Hypothesis HVar : forall s, P (SVar s).
  Hypothesis HTrue : P STrue.
  Hypothesis HFalse : P SFalse.
  Hypothesis HNot : forall f, P f -> P (SNot f).
  Hypothesis HAnd : forall l, Forall P l -> P (SAnd l).
  Hypothesis HOr : forall l, Forall P l -> P (SOr l).
  Hypothesis HImp : forall a b, P a -> P b -> P (SImplies a b).
  Hypothesis HEq : forall a b, P a -> P b -> P (SEq a b).
  Hypothesis HXor : forall a b, P a -> P b -> P (SXor a b).
  Hypothesis HUnique : forall names, P (SUnique names).

  Fixpoint sform_ind' (f : sform) : P f :=
    match f with
    | SVar s => HVar s
    | STrue => HTrue
    | SFalse => HFalse
    | SNot g => HNot g (sform_ind' g)
    | SAnd l => HAnd l ((fix go (l : list sform) : Forall P l :=
                           match l with
                           | [] => Forall_nil P
                           | x :: r => Forall_cons x (sform_ind' x) (go r)
                           end) l)
    | SOr l => HOr l ((fix go (l : list sform) : Forall P l :=
                         match l with
                         | [] => Forall_nil P
                         | x :: r => Forall_cons x (sform_ind' x) (go r)
                         end) l)
    | SImplies a b => HImp a b (sform_ind' a) (sform_ind' b)
    | SEq a b => HEq a b (sform_ind' a) (sform_ind' b)
    | SXor a b => HXor a b (sform_ind' a) (sform_ind' b)
    | SUnique names => HUnique names
    end.
End SformInd.

Lemma forallb_false_exists {A} (f : A -> bool) l :
  forallb f l = false -> exists x, In x l /\ f x = false.
Proof.
  induction l as [|x l IH]; simpl; [discriminate|]. intros H.
  destruct (f x) eqn:E.
  - destruct (IH H) as [y [Hy Ey]]. exists y. auto.
  - exists x. auto.
Qed.

Lemma forallb_false_intro {A} (f : A -> bool) l x :
  In x l -> f x = false -> forallb f l = false.
Proof.
  intros Hx E. destruct (forallb f l) eqn:F; [|reflexivity].
  rewrite forallb_forall in F. rewrite (F x Hx) in E. discriminate.
Qed.

Definition nm (env : var -> bool) (s : string) : bool := env (pb_var s).

Lemma eval_f_implies : forall env a b, eval env (f_implies a b) = implb (eval env a) (eval env b).
Proof. intros. simpl. destruct (eval env a), (eval env b); reflexivity. Qed.

Lemma eval_f_xor : forall env a b, eval env (f_xor a b) = xorb (eval env a) (eval env b).
Proof. intros. simpl. destruct (eval env a), (eval env b); reflexivity. Qed.

Lemma consistentb_flat_map {A} : forall env (h : A -> list (var * list var)) l,
  consistentb env (flat_map h l) = forallb (fun x => consistentb env (h x)) l.
Proof.
  intros env h. induction l as [|x l IH]; simpl; [reflexivity|].
  rewrite consistentb_app, IH. reflexivity.
Qed.

(* ---- the public constructors never produce a "dummy-k" name ---- *)

Definition okv (v : var) : Prop := tseitin_name v = false.

Lemma okv_pb : forall s, okv (pb_var s).
Proof. intros s. reflexivity. Qed.

Lemma okv_grid : forall kind i full, kind = "line-"%string \/ kind = "col-"%string ->
  okv (dummy_var (grid_name kind i full)).
Proof.
  intros kind i full [-> | ->]; unfold okv, tseitin_name, dummy_var, grid_name; simpl;
    reflexivity.
Qed.

Lemma in_select {A} : forall (P : nat -> bool) (l : list A) s x, In x (select P s l) -> In x l.
Proof.
  intros P. induction l as [|y l IH]; intros s x H; simpl in *; [exact H|].
  destruct (P s); [destruct H as [H|H]; [left; exact H|]|]; right; eapply IH; exact H.
Qed.

Lemma fv_ok_var : forall v, okv v -> fv_ok (FVar v).
Proof. intros v H w [<-|[]]. exact H. Qed.

Lemma fv_ok_not : forall f, fv_ok f -> fv_ok (FNot f).
Proof. intros f H. exact H. Qed.

Lemma fv_ok_or_vars : forall l, Forall okv l -> fv_ok (FOr (map FVar l)).
Proof.
  intros l H. apply fv_ok_or_of. intros x Hx. apply in_map_iff in Hx.
  destruct Hx as [v [<- Hv]]. apply fv_ok_var. rewrite Forall_forall in H. auto.
Qed.

Lemma fv_ok_f_eq : forall a b, fv_ok a -> fv_ok b -> fv_ok (f_eq a b).
Proof.
  intros a b Ha Hb. unfold f_eq. apply fv_ok_and_of. intros x [<-|[<-|[]]];
    apply fv_ok_or_of; intros y [<-|[<-|[]]]; auto.
Qed.

Lemma fv_ok_f_implies : forall a b, fv_ok a -> fv_ok b -> fv_ok (f_implies a b).
Proof.
  intros a b Ha Hb. unfold f_implies. apply fv_ok_or_of; intros y [<-|[<-|[]]]; auto.
Qed.

Lemma fv_ok_f_xor : forall a b, fv_ok a -> fv_ok b -> fv_ok (f_xor a b).
Proof.
  intros a b Ha Hb. unfold f_xor. apply fv_ok_and_of. intros x [<-|[<-|[]]];
    apply fv_ok_or_of; intros y [<-|[<-|[]]]; auto.
Qed.

Lemma fv_ok_pairs_neg : forall l, Forall okv l -> forall x, In x (pairs_neg l) -> fv_ok x.
Proof.
  induction l as [|v l IH]; intros H x Hx; [destruct Hx|].
  inversion H as [|v' l' Hv Hl]; subst. cbn [pairs_neg] in Hx. apply in_app_or in Hx.
  destruct Hx as [Hx|Hx]; [|apply IH; assumption].
  apply in_map_iff in Hx. destruct Hx as [w [<- Hw]]. rewrite Forall_forall in Hl.
  apply fv_ok_or_of. intros y [<-|[<-|[]]]; apply fv_ok_var; auto.
Qed.

Lemma fv_ok_unique_small : forall l, Forall okv l -> fv_ok (unique_small l).
Proof.
  intros l H. unfold unique_small. apply fv_ok_and_of. intros x [<-|Hx].
  - apply fv_ok_or_vars. exact H.
  - apply (fv_ok_pairs_neg l H x Hx).
Qed.

Lemma fv_ok_grid_defs : forall ds ms, Forall okv ds -> Forall (Forall okv) ms ->
  forall x, In x (grid_defs ds ms) -> fv_ok x.
Proof.
  induction ds as [|d ds IH]; intros ms Hd Hm x Hx; [destruct Hx|].
  destruct ms as [|l ms]; [destruct Hx|].
  inversion Hd; subst. inversion Hm; subst. destruct Hx as [<-|Hx].
  - apply fv_ok_f_eq; [apply fv_ok_var; assumption|apply fv_ok_or_vars; assumption].
  - eapply IH; eauto.
Qed.

Lemma okv_grid_vars : forall kind n full, kind = "line-"%string \/ kind = "col-"%string ->
  Forall okv (grid_vars kind n full).
Proof.
  intros kind n full Hk. apply Forall_forall. intros v Hv. unfold grid_vars in Hv.
  apply in_map_iff in Hv. destruct Hv as [i [<- _]]. apply okv_grid. exact Hk.
Qed.

Lemma fv_ok_unique_rec : forall fuel vars, Forall okv vars -> fv_ok (unique_rec fuel vars).
Proof.
  induction fuel as [|k IH]; intros vars H; cbn [unique_rec];
    destruct (List.length vars <=? 4); try (apply fv_ok_unique_small; exact H).
  - intros v [].
  - apply fv_ok_and_of. intros x Hx. apply in_app_or in Hx. destruct Hx as [Hx|Hx].
    + eapply fv_ok_grid_defs; [| |exact Hx]; [apply okv_grid_vars; auto|].
      apply Forall_forall. intros l Hl. unfold lines_of in Hl. apply in_map_iff in Hl.
      destruct Hl as [i [<- _]]. apply Forall_forall. intros v Hv. apply in_select in Hv.
      rewrite Forall_forall in H. auto.
    + apply in_app_or in Hx. destruct Hx as [Hx|Hx].
      * eapply fv_ok_grid_defs; [| |exact Hx]; [apply okv_grid_vars; auto|].
        apply Forall_forall. intros l Hl. unfold cols_of in Hl. apply in_map_iff in Hl.
        destruct Hl as [i [<- _]]. apply Forall_forall. intros v Hv. apply in_select in Hv.
        rewrite Forall_forall in H. auto.
      * destruct Hx as [<-|[<-|[]]]; apply IH; apply okv_grid_vars; auto.
Qed.

(* ---- the names of the dummies: lengths ---- *)

Lemma length_append : forall a b, String.length (a ++ b) = String.length a + String.length b.
Proof. induction a as [|c a IH]; intros b; simpl; [reflexivity|]. rewrite IH. reflexivity. Qed.

Lemma length_esc : forall c, 1 <= String.length (esc c).
Proof.
  intros c. unfold esc.
  repeat match goal with |- context [if ?b then _ else _] => destruct b end; simpl; lia.
Qed.

Lemma length_qbody : forall s, String.length s <= String.length (qbody s).
Proof.
  induction s as [|c s IH]; simpl; [lia|]. rewrite length_append.
  pose proof (length_esc c). lia.
Qed.

Lemma length_quote : forall s, String.length s + 2 <= String.length (quote s).
Proof.
  intros s. unfold quote. simpl. rewrite length_append. simpl.
  pose proof (length_qbody s). lia.
Qed.

Lemma length_concat_in : forall sep l x, In x l -> String.length x <= String.length (String.concat sep l).
Proof.
  intros sep. induction l as [|y l IH]; intros x H; [destruct H|].
  destruct l as [|z l].
  - destruct H as [->|[]]. simpl. lia.
  - change (String.concat sep (y :: z :: l)) with (y ++ sep ++ String.concat sep (z :: l))%string.
    rewrite !length_append. destruct H as [->|H]; [lia|]. specialize (IH x H). lia.
Qed.

Lemma length_qname : forall w, String.length (vname w) + 2 <= String.length (qname w).
Proof.
  intros w. unfold qname. pose proof (length_quote (vname w)).
  destruct (vdummy w); cbn [String.length]; lia.
Qed.

Lemma length_full_name : forall ws w, In w ws ->
  String.length (vname w) + 2 <= String.length (full_name ws).
Proof.
  intros ws w H. unfold full_name.
  pose proof (length_concat_in "-" (map qname ws) (qname w) (in_map qname ws w H)) as L.
  pose proof (length_qname w). lia.
Qed.

Lemma length_grid_name : forall kind i full,
  String.length full < String.length (grid_name kind i full).
Proof. intros. unfold grid_name. rewrite !length_append. simpl. lia. Qed.

(* ---- where the definitions of unique_defs come from ---- *)

Definition gen_from (ws : list var) (e : var * list var) : Prop :=
  exists i,
    (fst e = dummy_var (grid_name "line-" i (full_name ws)) /\
     snd e = select (fun p => p / nb_cols (List.length ws) =? i) 0 ws) \/
    (fst e = dummy_var (grid_name "col-" i (full_name ws)) /\
     snd e = select (fun p => p mod nb_cols (List.length ws) =? i) 0 ws).

Inductive reach (vars : list var) : list var -> Prop :=
| reach_self : reach vars vars
| reach_lines : forall ws, reach vars ws ->
    reach vars (grid_vars "line-" (nb_lines (List.length ws)) (full_name ws))
| reach_cols : forall ws, reach vars ws ->
    reach vars (grid_vars "col-" (nb_cols (List.length ws)) (full_name ws)).

Lemma reach_trans : forall a b c, reach a b -> reach b c -> reach a c.
Proof. intros a b c H1 H2. induction H2; [exact H1|apply reach_lines|apply reach_cols]; assumption. Qed.

Lemma combine_map_seq {A B} : forall (f : nat -> A) (g : nat -> B) s,
  combine (map f s) (map g s) = map (fun i => (f i, g i)) s.
Proof. induction s as [|i s IH]; simpl; [reflexivity|]. rewrite IH. reflexivity. Qed.

Lemma unique_defs_gen : forall fuel vars e, In e (unique_defs fuel vars) ->
  exists ws, reach vars ws /\ 4 < List.length ws /\ gen_from ws e.
Proof.
  induction fuel as [|k IH]; intros vars e H; cbn [unique_defs] in H;
    destruct (List.length vars <=? 4) eqn:E; try destruct H.
  apply Nat.leb_gt in E.
  apply in_app_or in H. destruct H as [H|H].
  - exists vars. split; [constructor|split; [exact E|]].
    unfold grid_vars, lines_of in H. rewrite combine_map_seq in H. apply in_map_iff in H.
    destruct H as [i [<- _]]. exists i. left. split; reflexivity.
  - apply in_app_or in H. destruct H as [H|H].
    + exists vars. split; [constructor|split; [exact E|]].
      unfold grid_vars, cols_of in H. rewrite combine_map_seq in H. apply in_map_iff in H.
      destruct H as [i [<- _]]. exists i. right. split; reflexivity.
    + apply in_app_or in H. destruct H as [H|H]; apply IH in H;
        destruct H as [ws [R [L G]]]; exists ws; (split; [|split; [exact L|exact G]]).
      * eapply reach_trans; [apply reach_lines; constructor|exact R].
      * eapply reach_trans; [apply reach_cols; constructor|exact R].
Qed.

(* ---- rank: a dummy is defined from variables with shorter names ---- *)

Definition rank (v : var) : nat := if vdummy v then S (String.length (vname v)) else 0.

Definition ranked (defs : list (var * list var)) : Prop :=
  forall d l, In (d, l) defs -> vdummy d = true /\ forall m, In m l -> rank m < rank d.

Lemma gen_from_ranked : forall ws d l, gen_from ws (d, l) ->
  vdummy d = true /\ forall m, In m l -> rank m < rank d.
Proof.
  intros ws d l [i H]. simpl in H.
  assert (Hd : exists kind, d = dummy_var (grid_name kind i (full_name ws)) /\
                            forall m, In m l -> In m ws).
  { destruct H as [[-> ->]|[-> ->]]; eexists; (split; [reflexivity|]);
      intros m Hm; apply in_select in Hm; exact Hm. }
  destruct Hd as [kind [-> Hl]]. split; [reflexivity|]. intros m Hm.
  unfold rank at 2. simpl. pose proof (length_grid_name kind i (full_name ws)).
  pose proof (length_full_name ws m (Hl m Hm)). unfold rank. destruct (vdummy m); lia.
Qed.

Lemma unique_defs_ranked : forall fuel vars, ranked (unique_defs fuel vars).
Proof.
  intros fuel vars d l H. apply unique_defs_gen in H. destruct H as [ws [_ [_ G]]].
  apply (gen_from_ranked ws). exact G.
Qed.

Lemma ranked_app : forall a b, ranked a -> ranked b -> ranked (a ++ b).
Proof. intros a b Ha Hb d l H. apply in_app_or in H. destruct H; auto. Qed.

Lemma ranked_flat_map {A} : forall (h : A -> list (var * list var)) l,
  Forall (fun x => ranked (h x)) l -> ranked (flat_map h l).
Proof.
  intros h l HF d l0 H. apply in_flat_map in H. destruct H as [x [Hx H]].
  rewrite Forall_forall in HF. exact (HF x Hx d l0 H).
Qed.

Lemma fdefs_ranked : forall f, ranked (fdefs f).
Proof.
  induction f as [v|v s|f IH|l IH|l IH| | |us] using form_ind'; cbn [fdefs];
    try (intros d l0 []); try assumption; try (apply ranked_flat_map; assumption).
  apply unique_defs_ranked.
Qed.

(* ---- extension of an assignment of the names to the dummies ---- *)

Lemma vars_eqb_eq : forall a b, vars_eqb a b = true -> a = b.
Proof.
  induction a as [|x a IH]; destruct b as [|y b]; simpl; intros H; try discriminate; [reflexivity|].
  apply andb_true_iff in H. destruct H as [H1 H2]. apply var_eqb_eq in H1.
  rewrite H1, (IH b H2). reflexivity.
Qed.

Lemma vars_eqb_refl : forall a, vars_eqb a a = true.
Proof. induction a as [|x a IH]; simpl; [reflexivity|]. rewrite var_eqb_refl, IH. reflexivity. Qed.

Definition functional (defs : list (var * list var)) : Prop :=
  forall d l1 l2, In (d, l1) defs -> In (d, l2) defs -> l1 = l2.

Lemma functional_defs_spec : forall defs, functional_defs defs = true <-> functional defs.
Proof.
  induction defs as [|[d l] rest IH]; simpl.
  - split; [intros _ d l1 l2 []|reflexivity].
  - rewrite andb_true_iff, IH, forallb_forall. split.
    + intros [Hh Hr] d0 l1 l2 [H1|H1] [H2|H2].
      * congruence.
      * injection H1 as <- <-. specialize (Hh _ H2). simpl in Hh. rewrite var_eqb_refl in Hh.
        symmetry. apply vars_eqb_eq. exact Hh.
      * injection H2 as <- <-. specialize (Hh _ H1). simpl in Hh. rewrite var_eqb_refl in Hh.
        apply vars_eqb_eq. exact Hh.
      * exact (Hr d0 l1 l2 H1 H2).
    + intros F. split.
      * intros [d0 l0] Hin. simpl. destruct (var_eqb d0 d) eqn:E; [|reflexivity].
        apply var_eqb_eq in E. subst d0.
        rewrite (F d l0 l (or_intror Hin) (or_introl eq_refl)). apply vars_eqb_refl.
      * intros d0 l1 l2 H1 H2. apply (F d0); right; assumption.
Qed.

Fixpoint lookup_def (defs : list (var * list var)) (v : var) : option (list var) :=
  match defs with
  | [] => None
  | (d, l) :: r => if var_eqb d v then Some l else lookup_def r v
  end.

Lemma lookup_def_in : forall defs v l, lookup_def defs v = Some l -> In (v, l) defs.
Proof.
  induction defs as [|[d l0] r IH]; simpl; intros v l H; [discriminate|].
  destruct (var_eqb d v) eqn:E.
  - apply var_eqb_eq in E. injection H as <-. subst. left. reflexivity.
  - right. apply IH. exact H.
Qed.

Lemma lookup_def_some : forall defs v l, In (v, l) defs -> exists l', lookup_def defs v = Some l'.
Proof.
  induction defs as [|[d l0] r IH]; simpl; intros v l H; [destruct H|].
  destruct (var_eqb d v) eqn:E; [eauto|]. destruct H as [H|H].
  - injection H as -> _. rewrite var_eqb_refl in E. discriminate.
  - eapply IH. exact H.
Qed.

Fixpoint ext_n (e0 : var -> bool) (defs : list (var * list var)) (k : nat) (v : var) : bool :=
  match k with
  | O => e0 v
  | S k' =>
    match (if vdummy v then lookup_def defs v else None) with
    | Some l => existsb (ext_n e0 defs k') l
    | None => e0 v
    end
  end.

Lemma existsb_ext_in {A} (f g : A -> bool) l :
  (forall x, In x l -> f x = g x) -> existsb f l = existsb g l.
Proof.
  induction l as [|x l IH]; intros H; simpl; [reflexivity|].
  rewrite (H x (or_introl eq_refl)), IH; [reflexivity|]. intros y Hy. apply H. right. exact Hy.
Qed.

Lemma ext_n_stable : forall e0 defs, ranked defs ->
  forall n v k1 k2, rank v <= n -> n <= k1 -> n <= k2 -> ext_n e0 defs k1 v = ext_n e0 defs k2 v.
Proof.
  intros e0 defs R. induction n as [|n IH]; intros v k1 k2 Hv H1 H2.
  - assert (Hd : vdummy v = false).
    { unfold rank in Hv. destruct (vdummy v); [lia|reflexivity]. }
    destruct k1, k2; simpl; rewrite ?Hd; reflexivity.
  - destruct k1 as [|k1]; [lia|]. destruct k2 as [|k2]; [lia|]. simpl.
    destruct (vdummy v) eqn:Hd; [|reflexivity].
    destruct (lookup_def defs v) as [l|] eqn:E; [|reflexivity].
    apply lookup_def_in in E. destruct (R _ _ E) as [_ Hm].
    apply existsb_ext_in. intros m Hin. apply IH; [|lia|lia].
    specialize (Hm m Hin). lia.
Qed.

Definition max_rank (defs : list (var * list var)) : nat :=
  fold_right (fun e acc => Nat.max (rank (fst e)) acc) 0 defs.

Lemma max_rank_in : forall defs d l, In (d, l) defs -> rank d <= max_rank defs.
Proof.
  induction defs as [|e r IH]; intros d l H; [destruct H|]. simpl.
  destruct H as [->|H]; [simpl; lia|]. specialize (IH d l H). lia.
Qed.

Definition ext_env (e0 : var -> bool) (defs : list (var * list var)) : var -> bool :=
  ext_n e0 defs (S (max_rank defs)).

Lemma ext_env_consistent : forall defs e0, functional defs -> ranked defs ->
  consistentb (ext_env e0 defs) defs = true.
Proof.
  intros defs e0 F R. unfold consistentb. apply forallb_forall. intros [d l] Hin. simpl.
  destruct (R _ _ Hin) as [Hd Hm]. unfold ext_env at 1. cbn [ext_n]. rewrite Hd.
  destruct (lookup_def_some _ _ _ Hin) as [l' E]. rewrite E.
  rewrite (F d l' l (lookup_def_in _ _ _ E) Hin).
  replace (existsb (ext_n e0 defs (max_rank defs)) l) with (existsb (ext_env e0 defs) l).
  - apply eqb_reflx.
  - apply existsb_ext_in. intros m Hmin. unfold ext_env.
    pose proof (max_rank_in _ _ _ Hin). specialize (Hm m Hmin).
    apply (ext_n_stable e0 defs R (max_rank defs)); lia.
Qed.

Lemma ext_env_named : forall defs e0 v, vdummy v = false -> ext_env e0 defs v = e0 v.
Proof. intros defs e0 v H. unfold ext_env. simpl. rewrite H. reflexivity. Qed.

Lemma seval_ext : forall e1 e2 s, (forall n, e1 n = e2 n) -> seval e1 s = seval e2 s.
Proof.
  intros e1 e2 s H. induction s as [n| | |g IH|l IH|l IH|a b IHa IHb|a b IHa IHb|a b IHa IHb|names]
    using sform_ind'; cbn [seval]; try reflexivity.
  - apply H.
  - rewrite IH. reflexivity.
  - apply forallb_ext_Forall. exact IH.
  - apply existsb_ext_Forall. exact IH.
  - rewrite IHa, IHb. reflexivity.
  - rewrite IHa, IHb. reflexivity.
  - rewrite IHa, IHb. reflexivity.
  - f_equal. apply map_ext. exact H.
Qed.



(* ---- strconv.Quote is uniquely decodable ---- *)

Lemma append_assoc : forall a b c : string, ((a ++ b) ++ c = a ++ (b ++ c))%string.
Proof. induction a as [|x a IH]; intros b c; simpl; [reflexivity|]. rewrite IH. reflexivity. Qed.

Inductive dstate := DN | DB | DX1 | DX2 (h : N).

Definition hexval (c : ascii) : option N :=
  let n := N_of_ascii c in
  if (48 <=? n)%N && (n <=? 57)%N then Some (n - 48)%N
  else if (97 <=? n)%N && (n <=? 102)%N then Some (n - 87)%N
  else None.

Definition unesc1 (c : ascii) : option ascii :=
  let n := N_of_ascii c in
  if (n =? 34)%N then Some ch_dq
  else if (n =? 92)%N then Some ch_bs
  else if (n =? 97)%N then Some (ascii_of_N 7)
  else if (n =? 98)%N then Some (ascii_of_N 8)
  else if (n =? 102)%N then Some (ascii_of_N 12)
  else if (n =? 110)%N then Some (ascii_of_N 10)
  else if (n =? 114)%N then Some (ascii_of_N 13)
  else if (n =? 116)%N then Some (ascii_of_N 9)
  else if (n =? 118)%N then Some (ascii_of_N 11)
  else None.

Definition dcons (c : ascii) (o : option (string * string)) : option (string * string) :=
  match o with Some (d, r) => Some (String c d, r) | None => None end.

(* reads an escaped body up to the closing quote: (decoded, rest) *)
Fixpoint dbody (st : dstate) (s : string) : option (string * string) :=
  match s with
  | EmptyString => None
  | String c r =>
    match st with
    | DN => if Ascii.eqb c ch_dq then Some (EmptyString, r)
            else if Ascii.eqb c ch_bs then dbody DB r
            else dcons c (dbody DN r)
    | DB => if Ascii.eqb c "x" then dbody DX1 r
            else match unesc1 c with
                 | Some c' => dcons c' (dbody DN r)
                 | None => None
                 end
    | DX1 => match hexval c with Some h => dbody (DX2 h) r | None => None end
    | DX2 h => match hexval c with
               | Some l => dcons (ascii_of_N (16 * h + l)) (dbody DN r)
               | None => None
               end
    end
  end.

Lemma dbody_esc : forall c t, dbody DN (esc c ++ t) = dcons c (dbody DN t).
Proof.
  intros [[] [] [] [] [] [] [] []] t; reflexivity.
Qed.

Lemma dbody_qbody : forall s rest, dbody DN (qbody s ++ String ch_dq rest) = Some (s, rest).
Proof.
  induction s as [|c s IH]; intros rest.
  - reflexivity.
  - cbn [qbody]. rewrite append_assoc, dbody_esc, IH. reflexivity.
Qed.

Definition dquoted (s : string) : option (string * string) :=
  match s with
  | String c r => if Ascii.eqb c ch_dq then dbody DN r else None
  | EmptyString => None
  end.

Lemma dquoted_quote : forall s rest, dquoted (quote s ++ rest) = Some (s, rest).
Proof.
  intros s rest. unfold quote. cbn [append dquoted]. rewrite Ascii.eqb_refl.
  rewrite append_assoc. cbn [append]. apply dbody_qbody.
Qed.

(* an element of the joined name: d"..." for a dummy, "..." otherwise *)
Definition dqname (s : string) : option (var * string) :=
  match s with
  | String c r =>
    if Ascii.eqb c "d"
    then match dquoted r with Some (n, rest) => Some (V n true, rest) | None => None end
    else match dquoted s with Some (n, rest) => Some (V n false, rest) | None => None end
  | EmptyString => None
  end.

Lemma dqname_qname : forall v rest, dqname (qname v ++ rest) = Some (v, rest).
Proof.
  intros [n [|]] rest; unfold qname; cbn [vdummy vname].
  - cbn [append dqname]. rewrite Ascii.eqb_refl, dquoted_quote. reflexivity.
  - pose proof (dquoted_quote n rest) as H. unfold quote in *. cbn [append] in *.
    cbn [dqname]. replace (Ascii.eqb ch_dq "d") with false by reflexivity. rewrite H. reflexivity.
Qed.

(* the joined name determines the list of variables *)
Definition jtail (l : list var) : string :=
  match l with [] => EmptyString | _ => ("-" ++ String.concat "-" (map qname l))%string end.

Lemma concat_qname_cons : forall x l,
  String.concat "-" (map qname (x :: l)) = (qname x ++ jtail l)%string.
Proof.
  intros x [|y l]; cbn [map String.concat jtail].
  - induction (qname x) as [|c q IH]; simpl; [reflexivity|]. rewrite <- IH. reflexivity.
  - reflexivity.
Qed.

Lemma qname_nonempty : forall v t, (qname v ++ t)%string <> EmptyString.
Proof. intros [n [|]] t; unfold qname, quote; simpl; discriminate. Qed.

Lemma full_name_inj : forall a b, full_name a = full_name b -> a = b.
Proof.
  unfold full_name. induction a as [|x a IH]; intros [|y b] H.
  - reflexivity.
  - rewrite concat_qname_cons in H. exfalso. symmetry in H. exact (qname_nonempty _ _ H).
  - rewrite concat_qname_cons in H. exfalso. exact (qname_nonempty _ _ H).
  - rewrite !concat_qname_cons in H.
    assert (E : dqname (qname x ++ jtail a) = dqname (qname y ++ jtail b)) by (rewrite H; reflexivity).
    rewrite !dqname_qname in E. injection E as -> E. f_equal.
    destruct a as [|a0 a], b as [|b0 b]; cbn [jtail] in E; try discriminate; [reflexivity|].
    simpl in E. injection E as E. apply IH. exact E.
Qed.

(* ---- "<kind><i>-<full>" determines kind, i and full ---- *)

Definition is_digit (c : ascii) : bool :=
  ((48 <=? N_of_ascii c) && (N_of_ascii c <=? 57))%N.

Fixpoint all_digits (s : string) : bool :=
  match s with EmptyString => true | String c r => is_digit c && all_digits r end.

Lemma string_of_uint_digits : forall d, all_digits (NilEmpty.string_of_uint d) = true.
Proof. induction d; simpl; auto. Qed.

Lemma dec_digits : forall n, all_digits (dec n) = true.
Proof. intros n. apply string_of_uint_digits. Qed.

Lemma digits_dash_split : forall s1 s2 x y,
  all_digits s1 = true -> all_digits s2 = true ->
  (s1 ++ String "-" x)%string = (s2 ++ String "-" y)%string -> s1 = s2 /\ x = y.
Proof.
  induction s1 as [|c s1 IH]; intros [|c2 s2] x y D1 D2 H; simpl in *.
  - injection H as H. auto.
  - injection H as Hc _. subst c2. simpl in D2. discriminate.
  - injection H as Hc _. subst c. simpl in D1. discriminate.
  - injection H as Hc H. subst c2.
    apply andb_true_iff in D1. apply andb_true_iff in D2.
    destruct (IH s2 x y (proj2 D1) (proj2 D2) H) as [-> ->]. auto.
Qed.

Lemma grid_name_inj : forall k1 k2 i1 i2 f1 f2,
  (k1 = "line-" \/ k1 = "col-")%string -> (k2 = "line-" \/ k2 = "col-")%string ->
  grid_name k1 i1 f1 = grid_name k2 i2 f2 -> k1 = k2 /\ i1 = i2 /\ f1 = f2.
Proof.
  intros k1 k2 i1 i2 f1 f2 [-> | ->] [-> | ->] H; unfold grid_name in H; simpl in H;
    try discriminate; injection H as H;
    apply digits_dash_split in H; try apply dec_digits;
    destruct H as [H1 H2]; apply dec_inj in H1; (split; [reflexivity|split; [lia|exact H2]]).
Qed.

(* ---- two definitions of the same dummy are identical ---- *)

Lemma gen_from_functional : forall ws1 ws2 d l1 l2,
  gen_from ws1 (d, l1) -> gen_from ws2 (d, l2) -> l1 = l2.
Proof.
  intros ws1 ws2 d l1 l2 [i1 G1] [i2 G2]. simpl in G1, G2.
  assert (K : forall k1 k2, (k1 = "line-" \/ k1 = "col-")%string -> (k2 = "line-" \/ k2 = "col-")%string ->
              d = dummy_var (grid_name k1 i1 (full_name ws1)) ->
              d = dummy_var (grid_name k2 i2 (full_name ws2)) ->
              k1 = k2 /\ i1 = i2 /\ ws1 = ws2).
  { intros k1 k2 H1 H2 E1 E2. rewrite E1 in E2. injection E2 as E2.
    destruct (grid_name_inj _ _ _ _ _ _ H1 H2 E2) as [Ek [Ei Ef]].
    split; [exact Ek|split; [exact Ei|]]. apply full_name_inj. exact Ef. }
  destruct G1 as [[D1 L1]|[D1 L1]], G2 as [[D2 L2]|[D2 L2]].
  - destruct (K "line-"%string "line-"%string (or_introl eq_refl) (or_introl eq_refl) D1 D2) as [Ek [Ei Ew]].
    subst. reflexivity.
  - destruct (K "line-"%string "col-"%string (or_introl eq_refl) (or_intror eq_refl) D1 D2) as [Ek _].
    discriminate.
  - destruct (K "col-"%string "line-"%string (or_intror eq_refl) (or_introl eq_refl) D1 D2) as [Ek _].
    discriminate.
  - destruct (K "col-"%string "col-"%string (or_intror eq_refl) (or_intror eq_refl) D1 D2) as [Ek [Ei Ew]].
    subst. reflexivity.
Qed.

(* every definition of fdefs is generated from some list of variables *)
Lemma fdefs_gen : forall f e, In e (fdefs f) -> exists ws, gen_from ws e.
Proof.
  induction f as [v|v s|f IH|l IH|l IH| | |us] using form_ind'; cbn [fdefs]; intros e He;
    try (destruct He; fail).
  - exact (IH e He).
  - apply in_flat_map in He. destruct He as [x [Hx He]]. rewrite Forall_forall in IH.
    exact (IH x Hx e He).
  - apply in_flat_map in He. destruct He as [x [Hx He]]. rewrite Forall_forall in IH.
    exact (IH x Hx e He).
  - apply unique_defs_gen in He. destruct He as [ws [_ [_ G]]]. exists ws. exact G.
Qed.

(* Two groups of a formula that share a dummy define it identically: the
   joined name determines the list of variables (names and dummy flags). *)
Theorem fdefs_functional : forall f, functional (fdefs f).
Proof.
  intros f d l1 l2 H1 H2.
  destruct (fdefs_gen f _ H1) as [ws1 G1]. destruct (fdefs_gen f _ H2) as [ws2 G2].
  exact (gen_from_functional ws1 ws2 d l1 l2 G1 G2).
Qed.

Theorem clash_free_all : forall s, clash_free s = true.
Proof. intros s. unfold clash_free. apply functional_defs_spec. apply fdefs_functional. Qed.

(* any assignment can be made consistent on the dummies of the groups of f,
   without touching the other variables *)
Lemma fdefs_extend : forall f e0, exists env',
  (forall v, vdummy v = false -> env' v = e0 v) /\ consistentb env' (fdefs f) = true.
Proof.
  intros f e0. exists (ext_env e0 (fdefs f)). split.
  - intros v Hv. apply ext_env_named. exact Hv.
  - apply ext_env_consistent; [apply fdefs_functional|apply fdefs_ranked].
Qed.

(* ------------------------------------------------------------------ *)
(* nnf does not invent variables.                                       *)

Lemma and_collect_fvars : forall l res v,
  and_collect l = Some res -> In v (flat_map fvars res) -> In v (flat_map fvars l).
Proof.
  induction l as [|x l IH]; intros res v H Hv; cbn [and_collect] in H.
  - injection H as <-. exact Hv.
  - destruct x;
      try (destruct (and_collect l) as [r|]; cbn [option_map] in H; [|discriminate];
           injection H as <-; cbn [flat_map] in Hv |- *; apply in_app_or in Hv; apply in_or_app;
           destruct Hv as [Hv|Hv]; [left; exact Hv|right; apply (IH r); auto]).
    + destruct (and_collect l) as [r|]; cbn [option_map] in H; [|discriminate].
      injection H as <-. rewrite flat_map_app in Hv. apply in_app_or in Hv.
      cbn [flat_map]. apply in_or_app.
      destruct Hv as [Hv|Hv]; [left; exact Hv|right; apply (IH r); auto].
    + cbn [flat_map]. apply in_or_app. right. apply (IH res); auto.
    + discriminate.
Qed.

Lemma or_collect_fvars : forall l res v,
  or_collect l = Some res -> In v (flat_map fvars res) -> In v (flat_map fvars l).
Proof.
  induction l as [|x l IH]; intros res v H Hv; cbn [or_collect] in H.
  - injection H as <-. exact Hv.
  - destruct x;
      try (destruct (or_collect l) as [r|]; cbn [option_map] in H; [|discriminate];
           injection H as <-; cbn [flat_map] in Hv |- *; apply in_app_or in Hv; apply in_or_app;
           destruct Hv as [Hv|Hv]; [left; exact Hv|right; apply (IH r); auto]).
    + destruct (or_collect l) as [r|]; cbn [option_map] in H; [|discriminate].
      injection H as <-. rewrite flat_map_app in Hv. apply in_app_or in Hv.
      cbn [flat_map]. apply in_or_app.
      destruct Hv as [Hv|Hv]; [left; exact Hv|right; apply (IH r); auto].
    + discriminate.
    + cbn [flat_map]. apply in_or_app. right. apply (IH res); auto.
Qed.

Lemma and_fold_fvars : forall l v, In v (fvars (and_fold l)) -> In v (flat_map fvars l).
Proof.
  intros l v H. unfold and_fold in H. destruct (and_collect l) as [res|] eqn:E; [|destruct H].
  apply (and_collect_fvars _ _ _ E).
  destruct res as [|x [|y r]]; [destruct H| |exact H].
  simpl. rewrite List.app_nil_r. exact H.
Qed.

Lemma or_fold_fvars : forall l v, In v (fvars (or_fold l)) -> In v (flat_map fvars l).
Proof.
  intros l v H. unfold or_fold in H. destruct (or_collect l) as [res|] eqn:E; [|destruct H].
  apply (or_collect_fvars _ _ _ E).
  destruct res as [|x [|y r]]; [destruct H| |exact H].
  simpl. rewrite List.app_nil_r. exact H.
Qed.

Lemma flat_map_map_in {A} (g : A -> A) (h : A -> list var) (l : list A) v :
  Forall (fun x => In v (h (g x)) -> In v (h x)) l ->
  In v (flat_map h (map g l)) -> In v (flat_map h l).
Proof.
  intros HF H. apply in_flat_map in H. destruct H as [y [Hy Hv]].
  apply in_map_iff in Hy. destruct Hy as [x [<- Hx]].
  apply in_flat_map. exists x. split; [exact Hx|].
  rewrite Forall_forall in HF. apply HF; assumption.
Qed.

Lemma nnfp_gen_fvars : forall uq f neg v, In v (fvars (nnfp_gen uq neg f)) ->
  In v (fvars f) \/ exists vs neg', In vs (funiques f) /\ In v (fvars (uq neg' vs)).
Proof.
  intros uq.
  induction f as [w|w s|f IH|l IH|l IH| | |us] using form_ind'; intros neg v H; simpl in *.
  - left. exact H.
  - left. exact H.
  - apply (IH _ _ H).
  - assert (Hin : In v (flat_map fvars (map (nnfp_gen uq neg) l))).
    { destruct neg; [apply or_fold_fvars in H|apply and_fold_fvars in H]; exact H. }
    apply in_flat_map in Hin. destruct Hin as [y [Hy Hv]]. apply in_map_iff in Hy.
    destruct Hy as [x [<- Hx]]. rewrite Forall_forall in IH.
    destruct (IH x Hx _ _ Hv) as [Hl|[vs [neg' [Hvs Hu]]]].
    + left. apply in_flat_map. exists x. auto.
    + right. exists vs, neg'. split; [apply in_flat_map; exists x; auto|exact Hu].
  - assert (Hin : In v (flat_map fvars (map (nnfp_gen uq neg) l))).
    { destruct neg; [apply and_fold_fvars in H|apply or_fold_fvars in H]; exact H. }
    apply in_flat_map in Hin. destruct Hin as [y [Hy Hv]]. apply in_map_iff in Hy.
    destruct Hy as [x [<- Hx]]. rewrite Forall_forall in IH.
    destruct (IH x Hx _ _ Hv) as [Hl|[vs [neg' [Hvs Hu]]]].
    + left. apply in_flat_map. exists x. auto.
    + right. exists vs, neg'. split; [apply in_flat_map; exists x; auto|exact Hu].
  - destruct neg; destruct H.
  - destruct neg; destruct H.
  - right. exists us, neg. auto.
Qed.

Lemma funiques_fvars : forall f vs w, In vs (funiques f) -> In w vs -> In w (fvars f).
Proof.
  induction f as [v|v s|f IH|l IH|l IH| | |us] using form_ind'; intros vs w H Hw; simpl in *;
    try (destruct H; fail).
  - eapply IH; eauto.
  - apply in_flat_map in H. destruct H as [x [Hx H]]. rewrite Forall_forall in IH.
    apply in_flat_map. exists x. split; [exact Hx|]. eapply IH; eauto.
  - apply in_flat_map in H. destruct H as [x [Hx H]]. rewrite Forall_forall in IH.
    apply in_flat_map. exists x. split; [exact Hx|]. eapply IH; eauto.
  - destruct H as [<-|[]]. exact Hw.
Qed.

(* ---- nnf with exactly-one groups ---- *)

Lemma no_unique_funiques : forall f, no_unique f = true -> funiques f = [].
Proof.
  induction f as [v|v s|f IH|l IH|l IH| | |us] using form_ind'; intros H; simpl in *;
    try reflexivity; try discriminate.
  - apply IH. exact H.
  - rewrite forallb_forall in H. rewrite Forall_forall in IH.
    induction l as [|x l IHl]; [reflexivity|]. simpl.
    rewrite (IH x (or_introl eq_refl) (H x (or_introl eq_refl))). simpl. apply IHl.
    + intros y Hy. apply IH. right. exact Hy.
    + intros y Hy. apply H. right. exact Hy.
  - rewrite forallb_forall in H. rewrite Forall_forall in IH.
    induction l as [|x l IHl]; [reflexivity|]. simpl.
    rewrite (IH x (or_introl eq_refl) (H x (or_introl eq_refl))). simpl. apply IHl.
    + intros y Hy. apply IH. right. exact Hy.
    + intros y Hy. apply H. right. exact Hy.
Qed.

Lemma no_unique_pairs_neg : forall l, forallb no_unique (pairs_neg l) = true.
Proof.
  induction l as [|v l IH]; [reflexivity|]. cbn [pairs_neg]. rewrite forallb_app, IH, andb_true_r.
  apply forallb_forall. intros x Hx. apply in_map_iff in Hx. destruct Hx as [w [<- _]]. reflexivity.
Qed.

Lemma no_unique_or_vars : forall l, no_unique (FOr (map FVar l)) = true.
Proof.
  intros l. simpl. apply forallb_forall. intros x Hx. apply in_map_iff in Hx.
  destruct Hx as [w [<- _]]. reflexivity.
Qed.

Lemma no_unique_small : forall vs, no_unique (unique_small vs) = true.
Proof.
  intros vs. unfold unique_small. cbn [no_unique forallb].
  rewrite no_unique_pairs_neg, andb_true_r. apply (no_unique_or_vars vs).
Qed.

Lemma no_unique_grid_defs : forall ds ms, forallb no_unique (grid_defs ds ms) = true.
Proof.
  induction ds as [|d ds IH]; intros ms; [reflexivity|]. destruct ms as [|l ms]; [reflexivity|].
  cbn [grid_defs forallb]. rewrite IH, andb_true_r. unfold f_eq.
  pose proof (no_unique_or_vars l) as H. cbn [no_unique forallb] in *. rewrite H. reflexivity.
Qed.

Lemma no_unique_rec : forall fuel vs, no_unique (unique_rec fuel vs) = true.
Proof.
  induction fuel as [|k IH]; intros vs; cbn [unique_rec];
    destruct (List.length vs <=? 4); try apply no_unique_small; [reflexivity|].
  cbn [no_unique]. rewrite !forallb_app, !no_unique_grid_defs. cbn [forallb].
  rewrite !IH. reflexivity.
Qed.

Lemma eval_nnfp0 : forall env g neg, no_unique g = true ->
  eval env (nnfp0 neg g) = pol neg (eval env g).
Proof.
  intros env g neg H. unfold nnfp0. apply eval_nnfp_gen.
  rewrite (no_unique_funiques g H). intros vs [].
Qed.

Lemma eval_uq_go : forall env neg vs,
  eval env (uq_go neg vs) =
  if neg then negb (exactly_one (map env vs))
  else consistentb env (unique_defs (List.length vs) vs) && exactly_one (map env vs).
Proof.
  intros env neg vs. unfold uq_go. destruct neg.
  - rewrite eval_nnfp0 by apply no_unique_small. unfold pol. rewrite eval_unique_small. reflexivity.
  - rewrite eval_nnfp0 by apply no_unique_rec. unfold pol. apply eval_unique_rec. lia.
Qed.

(* a model of nnf f is a model of f, whatever the values of the dummies *)
Theorem nnfp_sound : forall f env neg, eval env (nnfp neg f) = true -> eval env f = negb neg.
Proof.
  intros f env. apply nnfp_gen_sound. intros vs _ neg H. rewrite eval_uq_go in H.
  destruct neg; simpl.
  - apply negb_true_iff in H. exact H.
  - apply andb_true_iff in H. apply H.
Qed.

Theorem nnf_sound : forall f env, eval env (nnf f) = true -> eval env f = true.
Proof. intros f env H. apply (nnfp_sound f env false H). Qed.

Lemma consistentb_incl : forall env a b, (forall e, In e a -> In e b) ->
  consistentb env b = true -> consistentb env a = true.
Proof.
  intros env a b Hi H. unfold consistentb in *. rewrite forallb_forall in *. auto.
Qed.

Lemma funiques_fdefs : forall f vs, In vs (funiques f) ->
  forall e, In e (unique_defs (List.length vs) vs) -> In e (fdefs f).
Proof.
  induction f as [v|v s|f IH|l IH|l IH| | |us] using form_ind'; intros vs H e He; simpl in *;
    try (destruct H; fail).
  - eapply IH; eauto.
  - apply in_flat_map in H. destruct H as [x [Hx H]]. rewrite Forall_forall in IH.
    apply in_flat_map. exists x. split; [exact Hx|]. eapply IH; eauto.
  - apply in_flat_map in H. destruct H as [x [Hx H]]. rewrite Forall_forall in IH.
    apply in_flat_map. exists x. split; [exact Hx|]. eapply IH; eauto.
  - destruct H as [<-|[]]. exact He.
Qed.

(* when the dummies of the groups of f have the value of the disjunction of
   their members, nnf f has the value of f *)
Theorem nnfp_eval : forall f env, consistentb env (fdefs f) = true ->
  forall neg, eval env (nnfp neg f) = pol neg (eval env f).
Proof.
  intros f env C. apply eval_nnfp_gen. intros vs Hvs neg. rewrite eval_uq_go.
  destruct neg; [reflexivity|].
  rewrite (consistentb_incl env _ _ (funiques_fdefs f vs Hvs) C). reflexivity.
Qed.

Theorem nnf_eval : forall f env, consistentb env (fdefs f) = true -> eval env (nnf f) = eval env f.
Proof. intros f env C. apply (nnfp_eval f env C false). Qed.

Lemma no_unique_fdefs : forall f, no_unique f = true -> fdefs f = [].
Proof.
  induction f as [v|v s|f IH|l IH|l IH| | |us] using form_ind'; intros H; simpl in *;
    try reflexivity; try discriminate.
  - apply IH. exact H.
  - rewrite forallb_forall in H. rewrite Forall_forall in IH.
    induction l as [|x l IHl]; [reflexivity|]. simpl.
    rewrite (IH x (or_introl eq_refl) (H x (or_introl eq_refl))). simpl. apply IHl.
    + intros y Hy. apply IH. right. exact Hy.
    + intros y Hy. apply H. right. exact Hy.
  - rewrite forallb_forall in H. rewrite Forall_forall in IH.
    induction l as [|x l IHl]; [reflexivity|]. simpl.
    rewrite (IH x (or_introl eq_refl) (H x (or_introl eq_refl))). simpl. apply IHl.
    + intros y Hy. apply IH. right. exact Hy.
    + intros y Hy. apply H. right. exact Hy.
Qed.

(* without exactly-one group: for every assignment *)
Theorem nnf_eval_core : forall f env, no_unique f = true -> eval env (nnf f) = eval env f.
Proof. intros f env H. apply nnf_eval. rewrite (no_unique_fdefs f H). reflexivity. Qed.

Lemma fv_ok_nnfp0 : forall g neg, no_unique g = true -> fv_ok g -> fv_ok (nnfp0 neg g).
Proof.
  intros g neg Hn Hg v Hv. unfold nnfp0 in Hv. apply nnfp_gen_fvars in Hv.
  destruct Hv as [Hv|[vs [_ [Hvs _]]]]; [apply Hg; exact Hv|].
  rewrite (no_unique_funiques g Hn) in Hvs. destruct Hvs.
Qed.

Lemma fv_ok_nnf : forall f, fv_ok f -> fv_ok (nnf f).
Proof.
  intros f H v Hv. unfold nnf, nnfp in Hv. apply nnfp_gen_fvars in Hv.
  destruct Hv as [Hv|[vs [neg' [Hvs Hu]]]]; [apply H; exact Hv|].
  assert (Hok : Forall okv vs).
  { apply Forall_forall. intros w Hw. apply H. eapply funiques_fvars; eauto. }
  revert v Hu. change (fv_ok (uq_go neg' vs)). unfold uq_go. destruct neg'.
  - apply fv_ok_nnfp0; [apply no_unique_small|apply fv_ok_unique_small; exact Hok].
  - apply fv_ok_nnfp0; [apply no_unique_rec|apply fv_ok_unique_rec; exact Hok].
Qed.

Close Scope nat_scope.

(* ------------------------------------------------------------------ *)
(* asCnf: the two directions for an arbitrary formula of the AST.       *)

Lemma as_cnf_eq : forall f, cnf_rec (nnf f) (Vars [] []) = (c_clauses (as_cnf f), c_vars (as_cnf f)).
Proof. intros f. unfold as_cnf. destruct (cnf_rec (nnf f) (Vars [] [])). reflexivity. Qed.

Lemma as_cnf_struct : forall f, fv_ok f ->
  wf_vars (c_vars (as_cnf f)) /\
  in_range (c_clauses (as_cnf f)) (nvars (c_vars (as_cnf f))).
Proof.
  intros f H.
  destruct (cnf_rec_struct (nnf f) _ _ _ (fv_ok_nnf _ H) wf_empty (as_cnf_eq f)) as [W [_ R]].
  auto.
Qed.

(* a model of the clauses, read through the table, satisfies the formula
   (exactly-one groups included, at any polarity) *)
Theorem cnf_sound_form : forall f, fv_ok f -> forall m dflt,
  sat_cnf m (c_clauses (as_cnf f)) = true -> eval (env_of (as_cnf f) m dflt) f = true.
Proof.
  intros f H m dflt S. apply nnf_sound. unfold env_of.
  apply (cnf_rec_sound (nnf f) _ _ _ _ m dflt (fv_ok_nnf _ H) (nnf_cnf_ok f) wf_empty (as_cnf_eq f)).
  - intros v i G. exact G.
  - exact S.
Qed.

(* an assignment that satisfies the formula and gives the dummies of its
   groups the value of their definition extends to a model of the clauses *)
Theorem cnf_complete_form : forall f, fv_ok f -> forall env,
  consistentb env (fdefs f) = true -> eval env f = true ->
  exists m, List.length m = List.length (v_all (c_vars (as_cnf f))) /\
            sat_cnf m (c_clauses (as_cnf f)) = true /\
            consistent env (v_all (c_vars (as_cnf f))) m.
Proof.
  intros f H env C Hev.
  destruct (cnf_rec_complete (nnf f) _ _ _ env [] (fv_ok_nnf _ H) (nnf_cnf_ok f) wf_empty
              (as_cnf_eq f) eq_refl) as [e [L [C' S]]].
  - intros v i G. discriminate.
  - exists e. simpl in *. split; [|split; [|exact C']].
    + unfold mlen, nvars, tbl_len in L. lia.
    + apply S. rewrite nnf_eval by exact C. exact Hev.
Qed.

(* ------------------------------------------------------------------ *)
(* Source level: the two directions.                                    *)

Lemma desugar_eval : forall env s, eval env (desugar s) = seval (nm env) s.
Proof.
  intros env. induction s as [n| | |g IH|l IH|l IH|a b IHa IHb|a b IHa IHb|a b IHa IHb|names]
    using sform_ind'; cbn [desugar seval].
  - reflexivity.
  - reflexivity.
  - reflexivity.
  - cbn [eval]. rewrite IH. reflexivity.
  - cbn [eval]. rewrite forallb_map. apply forallb_ext_Forall. exact IH.
  - cbn [eval]. rewrite existsb_map. apply existsb_ext_Forall. exact IH.
  - rewrite eval_f_implies, IHa, IHb. reflexivity.
  - rewrite eval_f_eq, IHa, IHb. reflexivity.
  - rewrite eval_f_xor, IHa, IHb. reflexivity.
  - unfold f_unique. cbn [eval]. rewrite map_map. reflexivity.
Qed.

Theorem fv_ok_desugar : forall s, fv_ok (desugar s).
Proof.
  induction s as [n| | |g IH|l IH|l IH|a b IHa IHb|a b IHa IHb|a b IHa IHb|names]
    using sform_ind'; cbn [desugar].
  - apply fv_ok_var. apply okv_pb.
  - intros v [].
  - intros v [].
  - exact IH.
  - apply fv_ok_and_of. intros x Hx. apply in_map_iff in Hx. destruct Hx as [y [<- Hy]].
    rewrite Forall_forall in IH. auto.
  - apply fv_ok_or_of. intros x Hx. apply in_map_iff in Hx. destruct Hx as [y [<- Hy]].
    rewrite Forall_forall in IH. auto.
  - apply fv_ok_f_implies; assumption.
  - apply fv_ok_f_eq; assumption.
  - apply fv_ok_f_xor; assumption.
  - intros v Hv. unfold f_unique in Hv. simpl in Hv. apply in_map_iff in Hv.
    destruct Hv as [n [<- _]]. apply okv_pb.
Qed.

Theorem cnf_sound : forall s m dflt,
  sat_cnf m (c_clauses (as_cnf (desugar s))) = true ->
  seval (names_of (as_cnf (desugar s)) m dflt) s = true.
Proof.
  intros s m dflt S.
  pose proof (cnf_sound_form (desugar s) (fv_ok_desugar s) m (fun v => dflt (vname v)) S) as H.
  rewrite desugar_eval in H. exact H.
Qed.

Theorem cnf_complete : forall s env, seval env s = true ->
  exists m, List.length m = List.length (v_all (c_vars (as_cnf (desugar s)))) /\
            sat_cnf m (c_clauses (as_cnf (desugar s))) = true /\
            forall n i, tbl_get (v_all (c_vars (as_cnf (desugar s)))) (pb_var n) = Some i ->
                        var_val m i = env n.
Proof.
  intros s env H.
  destruct (fdefs_extend (desugar s) (fun v => env (vname v))) as [env' [Hn C]].
  assert (He : eval env' (desugar s) = true).
  { rewrite desugar_eval, <- H. apply seval_ext. intros n. unfold nm. apply Hn. reflexivity. }
  destruct (cnf_complete_form (desugar s) (fv_ok_desugar s) env' C He) as [m [L [S Cm]]].
  exists m. split; [exact L|split; [exact S|]]. intros n i Gi.
  rewrite (Cm _ _ Gi eq_refl). apply Hn. reflexivity.
Qed.

(* ------------------------------------------------------------------ *)
(* Which variables end up in the table.                                 *)


(* ---- which variables end up in the table ---- *)

Definition cover_ok (g : form) : Prop :=
  forall vs cls vs', fv_ok g -> cnf_ok g = true -> wf_vars vs -> cnf_rec g vs = (cls, vs') ->
  forall v, tseitin_name v = false ->
  (In v (keys (v_all vs')) <-> In v (keys (v_all vs)) \/ In v (fvars g)).

Lemma lit_value_cover : forall vs v s x vs' w,
  wf_vars vs -> tseitin_name v = false -> lit_value vs v s = (x, vs') ->
  (In w (keys (v_all vs')) <-> In w (keys (v_all vs)) \/ w = v).
Proof.
  intros vs v s x vs' w W Hv E.
  destruct (lit_value_spec _ _ _ _ _ W Hv E) as [i [Ex [G [W1 [X1 [Hsame|Hnew]]]]]].
  - subst vs'. split; [auto|]. intros [H|H]; [exact H|]. subst w. eapply tbl_get_some_key. exact G.
  - destruct Hnew as [_ [_ [Ea _]]]. rewrite Ea. unfold keys. rewrite map_app, in_app_iff. simpl.
    split; intros [H|H]; auto.
    + destruct H as [H|[]]. auto.
Qed.

Lemma new_dummy_cover : forall vs d vs' w,
  wf_vars vs -> new_dummy vs = (d, vs') -> tseitin_name w = false ->
  (In w (keys (v_all vs')) <-> In w (keys (v_all vs))).
Proof.
  intros vs d vs' w W E Hw. destruct (new_dummy_spec _ _ _ W E) as [_ [_ [_ [_ [Ea _]]]]].
  rewrite Ea. unfold keys. rewrite map_app, in_app_iff. simpl. split; [|auto].
  intros [H|[H|[]]]; [exact H|]. subst w. rewrite tseitin_var_name in Hw. discriminate.
Qed.

Lemma and_cover : forall l, Forall cover_ok l -> cover_ok (FAnd l).
Proof.
  induction l as [|x l IH]; intros HF vs cls vs' Hfv Hok W H v Hv.
  - simpl in H. injection H as <- <-. simpl. tauto.
  - inversion HF as [|x' l' Hx Hl]; subst. rewrite cnf_rec_and_cons in H.
    destruct (cnf_rec x vs) as [c1 vs1] eqn:E1.
    destruct (cnf_rec (FAnd l) vs1) as [c2 vs2] eqn:E2. injection H as <- <-.
    assert (Fx : fv_ok x) by (apply (fv_ok_and_in _ _ Hfv); left; reflexivity).
    assert (Fl : fv_ok (FAnd l)).
    { apply fv_ok_and_of. intros y Hy. apply (fv_ok_and_in _ _ Hfv). right. exact Hy. }
    cbn [cnf_ok forallb] in Hok. apply andb_true_iff in Hok. destruct Hok as [Ox Ol].
    destruct (cnf_rec_struct x _ _ _ Fx W E1) as [W1 _].
    rewrite (IH Hl _ _ _ Fl Ol W1 E2 v Hv), (Hx _ _ _ Fx Ox W E1 v Hv).
    cbn [fvars flat_map]. rewrite in_app_iff. simpl. tauto.
Qed.

Lemma or_thread_cover : forall l, Forall cover_ok l ->
  forall vs res lits vs', fv_ok (FOr l) -> cnf_ok (FOr l) = true -> wf_vars vs ->
  or_thread cnf_rec l vs = (res, lits, vs') ->
  forall v, tseitin_name v = false ->
  (In v (keys (v_all vs')) <-> In v (keys (v_all vs)) \/ In v (fvars (FOr l))).
Proof.
  induction l as [|sub l IH]; intros HF vs res lits vs' Hfv Hok W H w Hw.
  - simpl in H. injection H as <- <- <-. simpl. tauto.
  - inversion HF as [|x' l' Hx HFl]; subst.
    assert (Fl : fv_ok (FOr l)).
    { apply fv_ok_or_of. intros y Hy. apply (fv_ok_or_in _ _ Hfv). right. exact Hy. }
    assert (Fs : fv_ok sub) by (apply (fv_ok_or_in _ _ Hfv); left; reflexivity).
    cbn [cnf_ok forallb] in Hok. apply andb_true_iff in Hok. destruct Hok as [Os Ol].
    change (cnf_ok (FOr l) = true) in Ol.
    destruct sub as [v|v s|g|l2|l2| | |us]; try discriminate.
    + rewrite or_thread_lit in H. destruct (lit_value vs v s) as [x vs1] eqn:E1.
      destruct (or_thread cnf_rec l vs1) as [[res2 lits2] vs2] eqn:E2. injection H as <- <- <-.
      assert (Hv : tseitin_name v = false) by (apply Fs; simpl; auto).
      destruct (lit_value_spec _ _ _ _ _ W Hv E1) as [i [_ [_ [W1 _]]]].
      rewrite (IH HFl _ _ _ _ Fl Ol W1 E2 w Hw), (lit_value_cover _ _ _ _ _ w W Hv E1).
      cbn [fvars flat_map]. rewrite in_app_iff. simpl. intuition.
    + rewrite or_thread_and in H. destruct (new_dummy vs) as [d vs1] eqn:E1.
      destruct (cnf_rec (FAnd l2) vs1) as [c vs2] eqn:E2.
      destruct (or_thread cnf_rec l vs2) as [[res3 lits3] vs3] eqn:E3. injection H as <- <- <-.
      destruct (new_dummy_spec _ _ _ W E1) as [_ [W1 _]].
      destruct (cnf_rec_struct _ _ _ _ Fs W1 E2) as [W2 _].
      change (cnf_ok (FAnd l2) = true) in Os.
      rewrite (IH HFl _ _ _ _ Fl Ol W2 E3 w Hw), (Hx _ _ _ Fs Os W1 E2 w Hw),
        (new_dummy_cover _ _ _ w W E1 Hw).
      cbn [fvars flat_map]. rewrite in_app_iff. simpl. tauto.
Qed.

Lemma cnf_rec_cover : forall g, cover_ok g.
Proof.
  induction g as [v|v s|f IH|l IH|l IH| | |us] using form_ind'.
  - intros vs cls vs' _ Hok. discriminate.
  - intros vs cls vs' Hfv _ W H w Hw. simpl in H.
    destruct (lit_value vs v s) as [x vs1] eqn:E1. injection H as <- <-.
    assert (Hv : tseitin_name v = false) by (apply Hfv; simpl; auto).
    rewrite (lit_value_cover _ _ _ _ _ w W Hv E1). simpl. intuition.
  - intros vs cls vs' _ Hok. discriminate.
  - apply and_cover. exact IH.
  - intros vs cls vs' Hfv Hok W H w Hw. cbn [cnf_rec] in H.
    destruct (or_thread cnf_rec l vs) as [[res lits] vs1] eqn:E. injection H as <- <-.
    apply (or_thread_cover l IH _ _ _ _ Hfv Hok W E w Hw).
  - intros vs cls vs' _ _ W H w Hw. simpl in H. injection H as <- <-. simpl. tauto.
  - intros vs cls vs' _ _ W H w Hw. simpl in H. injection H as <- <-. simpl. tauto.
  - intros vs cls vs' _ Hok. discriminate.
Qed.

Theorem as_cnf_cover : forall f, fv_ok f -> forall v, tseitin_name v = false ->
  (In v (keys (v_all (c_vars (as_cnf f)))) <-> In v (fvars (nnf f))).
Proof.
  intros f Hf v Hv.
  rewrite (cnf_rec_cover (nnf f) _ _ _ (fv_ok_nnf _ Hf) (nnf_cnf_ok f) wf_empty (as_cnf_eq f) v Hv).
  simpl. tauto.
Qed.

(* ------------------------------------------------------------------ *)
(* The DIMACS export.                                                   *)


(* ---- sort.Strings ---- *)

Lemma insert_str_perm : forall s l, Permutation (insert_str s l) (s :: l).
Proof.
  intros s. induction l as [|x l IH]; simpl; [apply Permutation_refl|].
  destruct (String.leb s x); [apply Permutation_refl|].
  eapply Permutation_trans; [apply perm_skip; exact IH|apply perm_swap].
Qed.

Lemma sort_strings_perm : forall l, Permutation (sort_strings l) l.
Proof.
  induction l as [|x l IH]; simpl; [constructor|].
  eapply Permutation_trans; [apply insert_str_perm|apply perm_skip; exact IH].
Qed.

Definition str_le (a b : string) : Prop := String.leb a b = true.

Lemma insert_str_sorted : forall s l, Sorted str_le l -> Sorted str_le (insert_str s l).
Proof.
  intros s. induction l as [|x l IH]; simpl; intros H.
  - constructor; constructor.
  - destruct (String.leb s x) eqn:E.
    + constructor; [exact H|constructor; exact E].
    + inversion H as [|x' l' Hs Hh]; subst. constructor; [apply IH; exact Hs|].
      assert (Hx : str_le x s).
      { destruct (String.leb_total s x) as [T|T]; [congruence|exact T]. }
      destruct l as [|y l]; simpl.
      * constructor. exact Hx.
      * destruct (String.leb s y); constructor; [exact Hx|].
        inversion Hh; subst. assumption.
Qed.

Lemma sort_strings_sorted : forall l, Sorted str_le (sort_strings l).
Proof.
  induction l as [|x l IH]; simpl; [constructor|]. apply insert_str_sorted. exact IH.
Qed.

(* ---- list facts ---- *)

Lemma NoDup_map_inj_on {A B} (f : A -> B) l :
  NoDup l -> (forall x y, In x l -> In y l -> f x = f y -> x = y) -> NoDup (map f l).
Proof.
  induction l as [|a l IH]; simpl; intros ND H; [constructor|].
  inversion ND as [|a' l' Ha Hl]; subst. constructor.
  - intros Hin. apply in_map_iff in Hin. destruct Hin as [y [Ey Hy]].
    assert (y = a) by (apply H; auto). subst. contradiction.
  - apply IH; [exact Hl|]. intros x y Hx Hy. apply H; auto.
Qed.

Lemma NoDup_keys_filter : forall (P : var * Z -> bool) (t : table),
  NoDup (keys t) -> NoDup (keys (filter P t)).
Proof.
  intros P. induction t as [|[w x] t IH]; simpl; intros H; [constructor|].
  inversion H as [|a l Ha Hl]; subst. destruct (P (w, x)); simpl.
  - constructor; [|apply IH; exact Hl]. intros Hin. apply Ha. unfold keys in *.
    apply in_map_iff in Hin. destruct Hin as [[w' x'] [E Hin]]. simpl in E. subst w'.
    apply filter_In in Hin. apply in_map_iff. exists (w, x'). split; [reflexivity|apply Hin].
  - apply IH. exact Hl.
Qed.

Lemma assoc_idx_in : forall (g : string -> Z) l n, In n l ->
  assoc_idx (map (fun s => (s, g s)) l) n = Some (g n).
Proof.
  intros g. induction l as [|x l IH]; intros n H; [destruct H|]. simpl.
  destruct (String.eqb x n) eqn:E.
  - apply String.eqb_eq in E. subst. reflexivity.
  - destruct H as [H|H]; [subst; rewrite String.eqb_refl in E; discriminate|]. apply IH. exact H.
Qed.

Lemma assoc_idx_notin : forall (g : string -> Z) l n, ~ In n l ->
  assoc_idx (map (fun s => (s, g s)) l) n = None.
Proof.
  intros g. induction l as [|x l IH]; intros n H; [reflexivity|]. simpl.
  destruct (String.eqb x n) eqn:E.
  - apply String.eqb_eq in E. subst. exfalso. apply H. left. reflexivity.
  - apply IH. intros Hin. apply H. right. exact Hin.
Qed.

(* ---- the export ---- *)

Definition export_names (f : form) : list string :=
  map vname (filter (fun v => negb (vdummy v)) (map fst (v_pb (c_vars (as_cnf f))))).

Definition export_idx (f : form) (s : string) : Z :=
  match tbl_get (v_pb (c_vars (as_cnf f))) (pb_var s) with Some i => i | None => 0 end.

Lemma d_names_eq : forall f,
  d_names (dimacs_export f) = map (fun s => (s, export_idx f s)) (sort_strings (export_names f)).
Proof. reflexivity. Qed.

Lemma pb_keys : forall vs v, wf_vars vs ->
  (In v (keys (v_pb vs)) <-> In v (keys (v_all vs)) /\ tseitin_name v = false).
Proof.
  intros vs v W. rewrite (wf_pb _ W). unfold keys. split.
  - intros H. apply in_map_iff in H. destruct H as [[w i] [E H]]. simpl in E. subst w.
    apply filter_In in H. destruct H as [H1 H2]. simpl in H2. apply negb_true_iff in H2.
    split; [|exact H2]. apply in_map_iff. exists (v, i). auto.
  - intros [H Hv]. apply in_map_iff in H. destruct H as [[w i] [E H]]. simpl in E. subst w.
    apply in_map_iff. exists (v, i). split; [reflexivity|]. apply filter_In.
    split; [exact H|]. simpl. rewrite Hv. reflexivity.
Qed.

Lemma export_names_in : forall f n, fv_ok f ->
  (In n (export_names f) <-> In (pb_var n) (keys (v_all (c_vars (as_cnf f))))).
Proof.
  intros f n Hf. destruct (as_cnf_struct f Hf) as [W _]. unfold export_names.
  rewrite in_map_iff. split.
  - intros [v [E H]]. apply filter_In in H. destruct H as [H1 H2].
    apply negb_true_iff in H2. destruct v as [nv dv]. simpl in *. subst.
    change (In (pb_var n) (keys (v_pb (c_vars (as_cnf f))))) in H1.
    apply (pb_keys _ _ W) in H1. apply H1.
  - intros H. exists (pb_var n). split; [reflexivity|]. apply filter_In. split; [|reflexivity].
    change (In (pb_var n) (keys (v_pb (c_vars (as_cnf f))))). apply (pb_keys _ _ W). auto.
Qed.

Lemma export_names_nodup : forall f, fv_ok f -> NoDup (export_names f).
Proof.
  intros f Hf. destruct (as_cnf_struct f Hf) as [W _]. unfold export_names.
  apply NoDup_map_inj_on.
  - apply NoDup_filter. change (NoDup (keys (v_pb (c_vars (as_cnf f))))).
    rewrite (wf_pb _ W). apply NoDup_keys_filter. apply (wf_nodup _ W).
  - intros [n1 d1] [n2 d2] H1 H2 E. apply filter_In in H1. apply filter_In in H2.
    destruct H1 as [_ H1]. destruct H2 as [_ H2]. simpl in *.
    apply negb_true_iff in H1. apply negb_true_iff in H2. subst. reflexivity.
Qed.

Lemma export_idx_get : forall f n, fv_ok f -> In n (export_names f) ->
  tbl_get (v_all (c_vars (as_cnf f))) (pb_var n) = Some (export_idx f n).
Proof.
  intros f n Hf H. destruct (as_cnf_struct f Hf) as [W _]. apply (export_names_in f n Hf) in H.
  unfold export_idx. rewrite (pb_get _ _ W) by reflexivity.
  destruct (tbl_get (v_all (c_vars (as_cnf f))) (pb_var n)) eqn:G; [reflexivity|].
  apply tbl_get_none in G. contradiction.
Qed.

Theorem dimacs_wellformed : forall f, fv_ok f ->
  let d := dimacs_export f in
  d_nbvars d = Z.of_nat (List.length (v_all (c_vars (as_cnf f)))) /\
  d_nbclauses d = Z.of_nat (List.length (d_clauses d)) /\
  d_clauses d = c_clauses (as_cnf f) /\
  (forall c l, In c (d_clauses d) -> In l c -> 1 <= Z.abs l <= d_nbvars d) /\
  NoDup (map fst (d_names d)) /\
  NoDup (map snd (d_names d)) /\
  (forall n i, In (n, i) (d_names d) ->
     1 <= i <= d_nbvars d /\ tbl_get (v_all (c_vars (as_cnf f))) (pb_var n) = Some i) /\
  (forall n, In n (map fst (d_names d)) <-> In (pb_var n) (fvars (nnf f))) /\
  Sorted str_le (map fst (d_names d)).
Proof.
  intros f Hf d. destruct (as_cnf_struct f Hf) as [W R].
  assert (Efst : map fst (d_names d) = sort_strings (export_names f)).
  { unfold d. rewrite d_names_eq, map_map. simpl. apply map_id. }
  assert (Hin : forall n, In n (sort_strings (export_names f)) <-> In n (export_names f)).
  { intros n. split; apply Permutation_in;
      [apply sort_strings_perm|apply Permutation_sym, sort_strings_perm]. }
  assert (ND : NoDup (sort_strings (export_names f))).
  { eapply Permutation_NoDup; [apply Permutation_sym, sort_strings_perm|].
    apply export_names_nodup. exact Hf. }
  split; [reflexivity|split; [reflexivity|split; [reflexivity|]]].
  split; [exact R|]. split; [rewrite Efst; exact ND|]. split; [|split; [|split]].
  - unfold d. rewrite d_names_eq, map_map. simpl. apply NoDup_map_inj_on; [exact ND|].
    intros x y Hx Hy E. apply Hin in Hx. apply Hin in Hy.
    pose proof (export_idx_get f x Hf Hx) as Gx. pose proof (export_idx_get f y Hf Hy) as Gy.
    rewrite E in Gx. apply tbl_get_in in Gx. apply tbl_get_in in Gy.
    pose proof (wf_inj _ _ _ _ W Gx Gy) as Ev. injection Ev as Ev. exact Ev.
  - intros n i H. unfold d in H. rewrite d_names_eq in H. apply in_map_iff in H.
    destruct H as [n' [E H]]. injection E as -> <-. apply Hin in H.
    pose proof (export_idx_get f n Hf H) as G. split; [|exact G].
    apply (wf_get_range _ _ _ W G).
  - intros n. rewrite Efst, Hin, (export_names_in f n Hf).
    apply (as_cnf_cover f Hf). reflexivity.
  - rewrite Efst. apply sort_strings_sorted.
Qed.

Lemma restrict_names_of : forall f m dflt n, fv_ok f ->
  restrict (dimacs_export f) m dflt n = names_of (as_cnf f) m dflt n.
Proof.
  intros f m dflt n Hf. unfold restrict, names_of, env_of, env_tbl. rewrite d_names_eq.
  assert (Hin : In n (sort_strings (export_names f)) <-> In n (export_names f)).
  { split; apply Permutation_in;
      [apply sort_strings_perm|apply Permutation_sym, sort_strings_perm]. }
  destruct (tbl_get (v_all (c_vars (as_cnf f))) (pb_var n)) as [i|] eqn:G.
  - assert (H : In n (export_names f)).
    { apply (export_names_in f n Hf). eapply tbl_get_some_key. exact G. }
    rewrite assoc_idx_in by (apply Hin; exact H).
    rewrite (export_idx_get f n Hf H) in G. injection G as ->. reflexivity.
  - rewrite assoc_idx_notin; [reflexivity|]. intros H. apply Hin in H.
    apply (export_names_in f n Hf) in H. apply tbl_get_none in G. contradiction.
Qed.

Theorem dimacs_models : forall s,
  let d := dimacs_export (desugar s) in
  (forall env, seval env s = true ->
     exists m, Z.of_nat (List.length m) = d_nbvars d /\ sat_cnf m (d_clauses d) = true /\
               forall dflt n, In n (map fst (d_names d)) -> restrict d m dflt n = env n) /\
  (forall m dflt,
     sat_cnf m (d_clauses d) = true -> seval (restrict d m dflt) s = true).
Proof.
  intros s d. pose proof (fv_ok_desugar s) as Hf. split.
  - intros env H. destruct (cnf_complete s env H) as [m [L [S C]]].
    exists m. split; [unfold d; simpl; unfold tbl_len; lia|split; [exact S|]].
    intros dflt n Hn. unfold d. rewrite restrict_names_of by exact Hf.
    destruct (dimacs_wellformed (desugar s) Hf) as [_ [_ [_ [_ [_ [_ [Hidx _]]]]]]].
    fold d in Hidx. apply in_map_iff in Hn. destruct Hn as [[n' i] [E Hn]]. simpl in E. subst n'.
    destruct (Hidx n i Hn) as [_ Gi]. unfold names_of, env_of, env_tbl. rewrite Gi.
    apply (C n i Gi).
  - intros m dflt S. rewrite <- (cnf_sound s m dflt S).
    apply seval_ext. intros n. apply restrict_names_of. exact Hf.
Qed.

(* ------------------------------------------------------------------ *)
(* The literal mirror of not.nnf, with its second normalisation pass.   *)

Open Scope nat_scope.


(* ---- the literal mirror of not.nnf (second normalisation pass) ---- *)

Lemma maxd_in : forall d l x, In x l -> d x <= maxd d l.
Proof.
  intros d. induction l as [|y l IH]; intros x H; [destruct H|]. simpl.
  destruct H as [->|H]; [lia|]. specialize (IH x H). lia.
Qed.

Lemma maxd_cons : forall d x l, maxd d (x :: l) = Nat.max (d x) (maxd d l).
Proof. reflexivity. Qed.

Lemma maxd_app : forall d a b, maxd d (a ++ b) = Nat.max (maxd d a) (maxd d b).
Proof. intros d. induction a as [|x a IH]; intros b; simpl; [reflexivity|]. rewrite IH. lia. Qed.

Lemma maxd_le : forall d l n, (forall x, In x l -> d x <= n) -> maxd d l <= n.
Proof.
  intros d. induction l as [|y l IH]; intros n H; simpl; [lia|].
  pose proof (H y (or_introl eq_refl)). assert (maxd d l <= n) by (apply IH; intros; apply H; right; auto).
  lia.
Qed.

Definition all_go (k : nat) (l : list form) : option (list form) :=
  fold_right (fun s acc => match nnf_go k s, acc with
                           | Some x, Some r => Some (x :: r)
                           | _, _ => None end) (Some []) l.

Lemma all_go_map : forall k (g : form -> form) l,
  (forall x, In x l -> nnf_go k x = Some (g x)) -> all_go k l = Some (map g l).
Proof.
  intros k g. induction l as [|x l IH]; intros H; [reflexivity|]. simpl.
  rewrite (H x (or_introl eq_refl)). rewrite IH by (intros; apply H; right; auto). reflexivity.
Qed.

Lemma nnf_go_and : forall k l, nnf_go (S k) (FAnd l) = option_map and_fold (all_go k l).
Proof. reflexivity. Qed.
Lemma nnf_go_or : forall k l, nnf_go (S k) (FOr l) = option_map or_fold (all_go k l).
Proof. reflexivity. Qed.
Lemma nnf_go_not_and : forall k l, nnf_go (S k) (FNot (FAnd l)) =
  match all_go k (map FNot l) with Some subs => nnf_go k (FOr subs) | None => None end.
Proof. reflexivity. Qed.
Lemma nnf_go_not_or : forall k l, nnf_go (S k) (FNot (FOr l)) =
  match all_go k (map FNot l) with Some subs => nnf_go k (FAnd subs) | None => None end.
Proof. reflexivity. Qed.

(* on an NNF the pass is the identity, with fuel = depth *)
Lemma nnf_go_fix : forall g par k, nnf_sub par g = true -> depth g <= k -> nnf_go k g = Some g.
Proof.
  induction g as [v|v s|f IH|l IH|l IH| | |us] using form_ind'; intros par k H Hk; simpl in H;
    try discriminate.
  - destruct k; [simpl in Hk; lia|reflexivity].
  - destruct k as [|k]; [simpl in Hk; lia|]. rewrite nnf_go_and.
    apply andb_true_iff in H. destruct H as [H Hl].
    apply andb_true_iff in H. destruct H as [_ Hn].
    rewrite (all_go_map k (fun x => x)).
    + rewrite map_id. simpl. unfold and_fold. rewrite (and_collect_id _ Hl).
      destruct l as [|x [|y r]]; simpl in Hn; try discriminate. reflexivity.
    + intros x Hx. rewrite Forall_forall in IH. rewrite forallb_forall in Hl.
      apply (IH x Hx KAnd); [apply Hl; exact Hx|].
      pose proof (maxd_in depth l x Hx). simpl in Hk. lia.
  - destruct k as [|k]; [simpl in Hk; lia|]. rewrite nnf_go_or.
    apply andb_true_iff in H. destruct H as [H Hl].
    apply andb_true_iff in H. destruct H as [_ Hn].
    rewrite (all_go_map k (fun x => x)).
    + rewrite map_id. simpl. unfold or_fold. rewrite (or_collect_id _ Hl).
      destruct l as [|x [|y r]]; simpl in Hn; try discriminate. reflexivity.
    + intros x Hx. rewrite Forall_forall in IH. rewrite forallb_forall in Hl.
      apply (IH x Hx KOr); [apply Hl; exact Hx|].
      pose proof (maxd_in depth l x Hx). simpl in Hk. lia.
Qed.

Lemma nnf_go_fix_top : forall g k, is_nnf g = true -> depth g <= k -> nnf_go k g = Some g.
Proof.
  intros g k H Hk. destruct g; try (simpl in H; discriminate);
    try (apply (nnf_go_fix _ KTop); assumption);
    (destruct k; [simpl in Hk; lia|reflexivity]).
Qed.

(* nnf does not increase the depth *)
Lemma and_collect_depth : forall l res, and_collect l = Some res -> maxd depth res <= maxd depth l.
Proof.
  induction l as [|x l IH]; intros res H; cbn [and_collect] in H.
  - injection H as <-. lia.
  - destruct x;
      try (destruct (and_collect l) as [r|]; cbn [option_map] in H; [|discriminate];
           injection H as <-; specialize (IH r eq_refl); rewrite !maxd_cons; lia).
    + destruct (and_collect l) as [r|]; cbn [option_map] in H; [|discriminate].
      injection H as <-. specialize (IH r eq_refl). rewrite maxd_app, maxd_cons.
      change (depth (FAnd l0)) with (S (maxd depth l0)). lia.
    + discriminate.
Qed.

Lemma or_collect_depth : forall l res, or_collect l = Some res -> maxd depth res <= maxd depth l.
Proof.
  induction l as [|x l IH]; intros res H; cbn [or_collect] in H.
  - injection H as <-. lia.
  - destruct x;
      try (destruct (or_collect l) as [r|]; cbn [option_map] in H; [|discriminate];
           injection H as <-; specialize (IH r eq_refl); rewrite !maxd_cons; lia).
    + destruct (or_collect l) as [r|]; cbn [option_map] in H; [|discriminate].
      injection H as <-. specialize (IH r eq_refl). rewrite maxd_app, maxd_cons.
      change (depth (FOr l0)) with (S (maxd depth l0)). lia.
    + discriminate.
Qed.

Lemma and_fold_depth : forall l, depth (and_fold l) <= S (maxd depth l).
Proof.
  intros l. unfold and_fold. destruct (and_collect l) as [res|] eqn:E; [|simpl; lia].
  pose proof (and_collect_depth _ _ E) as H.
  destruct res as [|x [|y r]]; simpl in *; lia.
Qed.

Lemma or_fold_depth : forall l, depth (or_fold l) <= S (maxd depth l).
Proof.
  intros l. unfold or_fold. destruct (or_collect l) as [res|] eqn:E; [|simpl; lia].
  pose proof (or_collect_depth _ _ E) as H.
  destruct res as [|x [|y r]]; simpl in *; lia.
Qed.

Lemma maxd_map_le : forall (g : form -> form) l,
  Forall (fun x => depth (g x) <= depth x) l -> maxd depth (map g l) <= maxd depth l.
Proof. induction 1 as [|x l H _ IH]; simpl; lia. Qed.

Lemma no_unique_in : forall l x, forallb no_unique l = true -> In x l -> no_unique x = true.
Proof. intros l x H Hx. rewrite forallb_forall in H. auto. Qed.

Lemma nnfp_depth : forall f neg, no_unique f = true -> depth (nnfp_gen uq_go neg f) <= depth f.
Proof.
  induction f as [v|v s|f IH|l IH|l IH| | |us] using form_ind'; intros neg Hn; simpl in *.
  - lia.
  - lia.
  - specialize (IH (negb neg) Hn). lia.
  - assert (H : forall b, maxd depth (map (nnfp_gen uq_go b) l) <= maxd depth l).
    { intros b. apply maxd_map_le. rewrite Forall_forall in *. intros a Ha.
      apply IH; [exact Ha|]. apply (no_unique_in l); assumption. }
    destruct neg; [pose proof (or_fold_depth (map (nnfp_gen uq_go true) l))
                  |pose proof (and_fold_depth (map (nnfp_gen uq_go false) l))];
      [specialize (H true)|specialize (H false)]; lia.
  - assert (H : forall b, maxd depth (map (nnfp_gen uq_go b) l) <= maxd depth l).
    { intros b. apply maxd_map_le. rewrite Forall_forall in *. intros a Ha.
      apply IH; [exact Ha|]. apply (no_unique_in l); assumption. }
    destruct neg; [pose proof (and_fold_depth (map (nnfp_gen uq_go true) l))
                  |pose proof (or_fold_depth (map (nnfp_gen uq_go false) l))];
      [specialize (H true)|specialize (H false)]; lia.
  - destruct neg; simpl; lia.
  - destruct neg; simpl; lia.
  - discriminate.
Qed.

Lemma nnf_go_both : forall f k, no_unique f = true -> 2 * depth f <= k ->
  nnf_go (S k) f = Some (nnfp_gen uq_go false f) /\
  nnf_go (S (S k)) (FNot f) = Some (nnfp_gen uq_go true f).
Proof.
  induction f as [v|v s|f IH|l IH|l IH| | |us] using form_ind'; intros k Hn Hk.
  - split; reflexivity.
  - split; reflexivity.
  - simpl in Hk, Hn. destruct k as [|[|k]]; [lia|lia|].
    destruct (IH (S k) Hn ltac:(lia)) as [H1 H2]. split.
    + exact H2.
    + change (nnf_go (S (S (S (S k)))) (FNot (FNot f))) with (nnf_go (S (S (S k))) f).
      destruct (IH (S (S k)) Hn ltac:(lia)) as [H3 _]. exact H3.
  - simpl in Hk, Hn. destruct k as [|[|k]]; [lia|lia|]. rewrite Forall_forall in IH.
    assert (Hd : forall x, In x l -> 2 * depth x <= k).
    { intros x Hx. pose proof (maxd_in depth l x Hx). lia. }
    assert (Hu : forall x, In x l -> no_unique x = true) by (intros x Hx; apply (no_unique_in l); assumption).
    split.
    + rewrite nnf_go_and. rewrite (all_go_map _ (nnfp_gen uq_go false)); [reflexivity|].
      intros x Hx. destruct (IH x Hx (S k) (Hu x Hx) ltac:(specialize (Hd x Hx); lia)) as [H1 _]. exact H1.
    + rewrite nnf_go_not_and. rewrite (all_go_map _ (fun y => match y with FNot x => nnfp_gen uq_go true x | _ => y end)).
      * rewrite map_map. cbn beta iota. rewrite nnf_go_or.
        rewrite (all_go_map _ (fun x => x)); [rewrite map_id; reflexivity|].
        intros y Hy. apply in_map_iff in Hy. destruct Hy as [x [<- Hx]].
        apply nnf_go_fix_top; [apply nnfp_shape|].
        pose proof (nnfp_depth x true (Hu x Hx)). specialize (Hd x Hx). lia.
      * intros y Hy. apply in_map_iff in Hy. destruct Hy as [x [<- Hx]].
        destruct (IH x Hx (S k) (Hu x Hx) ltac:(specialize (Hd x Hx); lia)) as [_ H2]. exact H2.
  - simpl in Hk, Hn. destruct k as [|[|k]]; [lia|lia|]. rewrite Forall_forall in IH.
    assert (Hd : forall x, In x l -> 2 * depth x <= k).
    { intros x Hx. pose proof (maxd_in depth l x Hx). lia. }
    assert (Hu : forall x, In x l -> no_unique x = true) by (intros x Hx; apply (no_unique_in l); assumption).
    split.
    + rewrite nnf_go_or. rewrite (all_go_map _ (nnfp_gen uq_go false)); [reflexivity|].
      intros x Hx. destruct (IH x Hx (S k) (Hu x Hx) ltac:(specialize (Hd x Hx); lia)) as [H1 _]. exact H1.
    + rewrite nnf_go_not_or. rewrite (all_go_map _ (fun y => match y with FNot x => nnfp_gen uq_go true x | _ => y end)).
      * rewrite map_map. cbn beta iota. rewrite nnf_go_and.
        rewrite (all_go_map _ (fun x => x)); [rewrite map_id; reflexivity|].
        intros y Hy. apply in_map_iff in Hy. destruct Hy as [x [<- Hx]].
        apply nnf_go_fix_top; [apply nnfp_shape|].
        pose proof (nnfp_depth x true (Hu x Hx)). specialize (Hd x Hx). lia.
      * intros y Hy. apply in_map_iff in Hy. destruct Hy as [x [<- Hx]].
        destruct (IH x Hx (S k) (Hu x Hx) ltac:(specialize (Hd x Hx); lia)) as [_ H2]. exact H2.
  - split; reflexivity.
  - split; reflexivity.
  - discriminate.
Qed.

(* the literal mirror (with the second pass of not.nnf) computes [nnf] *)
Theorem nnf_go_nnf : forall f k, no_unique f = true -> 2 * depth f < k ->
  nnf_go k f = Some (nnf f).
Proof.
  intros f k Hn H. destruct k as [|k]; [lia|]. apply (nnf_go_both f k Hn). lia.
Qed.

Close Scope nat_scope.

(* ------------------------------------------------------------------ *)
(* Eval.                                                                *)


(* ---- Eval on a map: the standard semantics when every name is bound ---- *)

Lemma fold_and_some : forall (g : form -> option bool) (ev : form -> bool) l acc,
  (forall s, In s l -> g s = Some (ev s)) ->
  fold_left (fun a s => match a, g s with Some x, Some y => Some (x && y) | _, _ => None end)
            l (Some acc) = Some (acc && forallb ev l).
Proof.
  intros g ev. induction l as [|x l IH]; intros acc H; simpl.
  - rewrite andb_true_r. reflexivity.
  - rewrite (H x (or_introl eq_refl)). rewrite IH by (intros; apply H; right; auto).
    rewrite andb_assoc. reflexivity.
Qed.

Lemma fold_or_some : forall (g : form -> option bool) (ev : form -> bool) l acc,
  (forall s, In s l -> g s = Some (ev s)) ->
  fold_left (fun a s => match a, g s with Some x, Some y => Some (x || y) | _, _ => None end)
            l (Some acc) = Some (acc || existsb ev l).
Proof.
  intros g ev. induction l as [|x l IH]; intros acc H; simpl.
  - rewrite orb_false_r. reflexivity.
  - rewrite (H x (or_introl eq_refl)). rewrite IH by (intros; apply H; right; auto).
    rewrite orb_assoc. reflexivity.
Qed.

Theorem eval_go_eval : forall m f,
  (forall v, In v (fvars f) -> assoc_str m (vname v) <> None) ->
  eval_go m f = Some (eval (env_map m) f).
Proof.
  intros m. induction f as [v|v s|f IH|l IH|l IH| | |us] using form_ind'; intros H; cbn [eval_go eval].
  - unfold env_map. destruct (assoc_str m (vname v)) eqn:E; [reflexivity|].
    exfalso. apply (H v); [left; reflexivity|exact E].
  - unfold env_map. destruct (assoc_str m (vname v)) eqn:E; [reflexivity|].
    exfalso. apply (H v); [left; reflexivity|exact E].
  - rewrite IH by exact H. reflexivity.
  - rewrite (fold_and_some (eval_go m) (eval (env_map m))); [reflexivity|].
    intros s Hs. rewrite Forall_forall in IH. apply (IH s Hs).
    intros v Hv. apply H. simpl. apply in_flat_map. exists s. auto.
  - rewrite (fold_or_some (eval_go m) (eval (env_map m))); [reflexivity|].
    intros s Hs. rewrite Forall_forall in IH. apply (IH s Hs).
    intros v Hv. apply H. simpl. apply in_flat_map. exists s. auto.
  - reflexivity.
  - reflexivity.
  - assert (E : fold_right (fun v acc => match assoc_str m (vname v), acc with
                                          | Some b, Some l => Some (b :: l)
                                          | _, _ => None end) (Some []) us
               = Some (map (env_map m) us)).
    { induction us as [|u us IHu]; [reflexivity|]. simpl.
      rewrite IHu by (intros v Hv; apply H; right; exact Hv).
      destruct (assoc_str m (vname u)) eqn:Eu.
      - assert (Eb : env_map m u = b) by (unfold env_map; rewrite Eu; reflexivity).
        rewrite Eb. reflexivity.
      - exfalso. apply (H u); [left; reflexivity|exact Eu]. }
    rewrite E. reflexivity.
Qed.

(* ------------------------------------------------------------------ *)
(* Every variable of the table occurs in a clause.                      *)


(* ---- every variable of the table occurs in a clause (solver.ParseSlice
        therefore counts len(vars.all) variables) ---- *)

Definition occurs (i : Z) (cls : list clause) : Prop :=
  exists c l, In c cls /\ In l c /\ Z.abs l = i.

Lemma occurs_app_l : forall i a b, occurs i a -> occurs i (a ++ b).
Proof. intros i a b [c [l [H1 H2]]]. exists c, l. split; [apply in_or_app; auto|exact H2]. Qed.

Lemma occurs_app_r : forall i a b, occurs i b -> occurs i (a ++ b).
Proof. intros i a b [c [l [H1 H2]]]. exists c, l. split; [apply in_or_app; auto|exact H2]. Qed.

Lemma occurs_guard : forall i d c, occurs i c -> occurs i (guard d c).
Proof.
  intros i d c [c0 [l [H1 [H2 H3]]]]. exists (c0 ++ [- d]), l. split; [|split; [|exact H3]].
  - unfold guard. apply in_map_iff. exists c0. auto.
  - apply in_or_app. auto.
Qed.

Definition used_ok (g : form) : Prop :=
  forall vs cls vs', fv_ok g -> wf_vars vs -> cnf_rec g vs = (cls, vs') ->
  forall i, nvars vs < i <= nvars vs' -> occurs i cls.

Lemma lit_value_used : forall vs v s x vs' i,
  wf_vars vs -> tseitin_name v = false -> lit_value vs v s = (x, vs') ->
  nvars vs < i <= nvars vs' -> Z.abs x = i.
Proof.
  intros vs v s x vs' i W Hv E Hi.
  destruct (lit_value_spec _ _ _ _ _ W Hv E) as [j [Ex [G [W1 [X1 [Hsame|Hnew]]]]]].
  - subst vs'. lia.
  - destruct Hnew as [_ [Ej [Ea _]]].
    assert (nvars vs' = nvars vs + 1).
    { unfold nvars, tbl_len. rewrite Ea, app_length. simpl. lia. }
    assert (0 <= nvars vs) by (unfold nvars, tbl_len; lia).
    subst x. destruct s; lia.
Qed.

Lemma and_used : forall l, Forall used_ok l -> used_ok (FAnd l).
Proof.
  induction l as [|x l IH]; intros HF vs cls vs' Hfv W H i Hi.
  - simpl in H. injection H as <- <-. lia.
  - inversion HF as [|x' l' Hx Hl]; subst. rewrite cnf_rec_and_cons in H.
    destruct (cnf_rec x vs) as [c1 vs1] eqn:E1.
    destruct (cnf_rec (FAnd l) vs1) as [c2 vs2] eqn:E2. injection H as <- <-.
    assert (Fx : fv_ok x) by (apply (fv_ok_and_in _ _ Hfv); left; reflexivity).
    assert (Fl : fv_ok (FAnd l)).
    { apply fv_ok_and_of. intros y Hy. apply (fv_ok_and_in _ _ Hfv). right. exact Hy. }
    destruct (cnf_rec_struct x _ _ _ Fx W E1) as [W1 _].
    destruct (Z_le_gt_dec i (nvars vs1)) as [L|L].
    + apply occurs_app_l. apply (Hx _ _ _ Fx W E1). lia.
    + apply occurs_app_r. apply (IH Hl _ _ _ Fl W1 E2). lia.
Qed.

Lemma or_thread_used : forall l, Forall used_ok l ->
  forall vs res lits vs', fv_ok (FOr l) -> wf_vars vs ->
  or_thread cnf_rec l vs = (res, lits, vs') ->
  forall i, nvars vs < i <= nvars vs' -> occurs i (res ++ [lits]).
Proof.
  induction l as [|sub l IH]; intros HF vs res lits vs' Hfv W H i Hi.
  - simpl in H. injection H as <- <- <-. lia.
  - inversion HF as [|x' l' Hx HFl]; subst.
    assert (Fl : fv_ok (FOr l)).
    { apply fv_ok_or_of. intros y Hy. apply (fv_ok_or_in _ _ Hfv). right. exact Hy. }
    assert (Fs : fv_ok sub) by (apply (fv_ok_or_in _ _ Hfv); left; reflexivity).
    assert (Hcons : forall y res0 lits0, occurs i (res0 ++ [lits0]) -> occurs i (res0 ++ [y :: lits0])).
    { intros y res0 lits0 [c [l0 [H1 [H2 H3]]]]. apply in_app_or in H1. destruct H1 as [H1|[<-|[]]].
      - exists c, l0. split; [apply in_or_app; auto|auto].
      - exists (y :: lits0), l0. split; [apply in_or_app; right; left; reflexivity|].
        split; [right; exact H2|exact H3]. }
    destruct sub as [v|v s|g|l2|l2| | |us]; try (exact (IH HFl _ _ _ _ Fl W H i Hi)).
    + rewrite or_thread_lit in H. destruct (lit_value vs v s) as [x vs1] eqn:E1.
      destruct (or_thread cnf_rec l vs1) as [[res2 lits2] vs2] eqn:E2. injection H as <- <- <-.
      assert (Hv : tseitin_name v = false) by (apply Fs; simpl; auto).
      destruct (lit_value_spec _ _ _ _ _ W Hv E1) as [j [_ [_ [W1 _]]]].
      destruct (Z_le_gt_dec i (nvars vs1)) as [L|L].
      * exists (x :: lits2), x. split; [apply in_or_app; right; left; reflexivity|].
        split; [left; reflexivity|]. apply (lit_value_used _ _ _ _ _ i W Hv E1). lia.
      * apply Hcons. apply (IH HFl _ _ _ _ Fl W1 E2). lia.
    + rewrite or_thread_and in H. destruct (new_dummy vs) as [d vs1] eqn:E1.
      destruct (cnf_rec (FAnd l2) vs1) as [c vs2] eqn:E2.
      destruct (or_thread cnf_rec l vs2) as [[res3 lits3] vs3] eqn:E3. injection H as <- <- <-.
      destruct (new_dummy_spec _ _ _ W E1) as [Ed [W1 [_ [N1 _]]]].
      destruct (cnf_rec_struct _ _ _ _ Fs W1 E2) as [W2 _].
      assert (0 <= nvars vs) by (unfold nvars, tbl_len; lia).
      destruct (Z_le_gt_dec i (nvars vs1)) as [L|L].
      * exists (d :: lits3), d. split; [apply in_or_app; right; left; reflexivity|].
        split; [left; reflexivity|lia].
      * destruct (Z_le_gt_dec i (nvars vs2)) as [L2|L2].
        -- rewrite <- List.app_assoc. apply occurs_app_l. apply occurs_guard.
           apply (Hx _ _ _ Fs W1 E2). lia.
        -- rewrite <- List.app_assoc. apply occurs_app_r. apply Hcons.
           apply (IH HFl _ _ _ _ Fl W2 E3). lia.
Qed.

Lemma cnf_rec_used : forall g, used_ok g.
Proof.
  induction g as [v|v s|f IH|l IH|l IH| | |us] using form_ind'.
  - intros vs cls vs' _ W H i Hi. simpl in H. injection H as <- <-. lia.
  - intros vs cls vs' Hfv W H i Hi. simpl in H.
    destruct (lit_value vs v s) as [x vs1] eqn:E1. injection H as <- <-.
    assert (Hv : tseitin_name v = false) by (apply Hfv; simpl; auto).
    exists [x], x. split; [left; reflexivity|split; [left; reflexivity|]].
    apply (lit_value_used _ _ _ _ _ i W Hv E1 Hi).
  - intros vs cls vs' _ W H i Hi. simpl in H. injection H as <- <-. lia.
  - apply and_used. exact IH.
  - intros vs cls vs' Hfv W H i Hi. cbn [cnf_rec] in H.
    destruct (or_thread cnf_rec l vs) as [[res lits] vs1] eqn:E. injection H as <- <-.
    apply (or_thread_used l IH _ _ _ _ Hfv W E i Hi).
  - intros vs cls vs' _ W H i Hi. simpl in H. injection H as <- <-. lia.
  - intros vs cls vs' _ W H i Hi. simpl in H. injection H as <- <-. lia.
  - intros vs cls vs' _ W H i Hi. simpl in H. injection H as <- <-. lia.
Qed.

Theorem as_cnf_used : forall f, fv_ok f -> forall i,
  1 <= i <= Z.of_nat (List.length (v_all (c_vars (as_cnf f)))) ->
  exists c l, In c (c_clauses (as_cnf f)) /\ In l c /\ Z.abs l = i.
Proof.
  intros f Hf i Hi.
  apply (cnf_rec_used (nnf f) _ _ _ (fv_ok_nnf _ Hf) wf_empty (as_cnf_eq f)).
  unfold nvars, tbl_len. simpl. lia.
Qed.

(* ------------------------------------------------------------------ *)
(* Solve.                                                               *)

Definition named_entry (e : var * Z) : bool := negb (vdummy (fst e)).

Lemma solve_keys : forall (m : list bool) (pb : table),
  map fst (map (fun e : var * Z => (vname (fst e), var_val m (snd e))) (filter named_entry pb))
  = map vname (filter (fun v => negb (vdummy v)) (map fst pb)).
Proof.
  intros m. induction pb as [|[w i] pb IH]; [reflexivity|]. unfold named_entry in *. simpl.
  destruct (vdummy w); simpl; rewrite IH; reflexivity.
Qed.

Lemma assoc_mp : forall (m : list bool) (pb : table) v i,
  NoDup (map fst (map (fun e : var * Z => (vname (fst e), var_val m (snd e))) pb)) -> In (v, i) pb ->
  assoc_str (map (fun e : var * Z => (vname (fst e), var_val m (snd e))) pb) (vname v)
  = Some (var_val m i).
Proof.
  intros m. induction pb as [|[w j] pb IH]; intros v i ND H; [destruct H|].
  simpl in ND. inversion ND as [|x xs Hx Hxs]; subst. simpl.
  destruct H as [H|H].
  - injection H as -> ->. rewrite String.eqb_refl. reflexivity.
  - destruct (String.eqb (vname w) (vname v)) eqn:E.
    + apply String.eqb_eq in E. exfalso. apply Hx. rewrite E.
      apply in_map_iff. exists (vname v, var_val m i). split; [reflexivity|].
      apply in_map_iff. exists (v, i). auto.
    + apply IH; assumption.
Qed.

(* the bindings returned by Solve: one per named variable of the table *)
Lemma solve_names_nodup : forall f (m : list bool), fv_ok f ->
  NoDup (map fst (map (fun e : var * Z => (vname (fst e), var_val m (snd e)))
                      (filter named_entry (v_pb (c_vars (as_cnf f)))))).
Proof. intros f m Hf. rewrite solve_keys. apply (export_names_nodup f Hf). Qed.

Lemma names_of_complete : forall f m dflt, fv_ok f ->
  let c := as_cnf f in
  let mp := map (fun e : var * Z => (vname (fst e), var_val m (snd e)))
                (filter named_entry (v_pb (c_vars c))) in
  forall n, names_of c m (complete mp dflt) n = complete mp dflt n.
Proof.
  intros f m dflt Hf c mp n. unfold names_of, env_of, env_tbl.
  destruct (tbl_get (v_all (c_vars c)) (pb_var n)) as [i|] eqn:G; [|reflexivity].
  destruct (as_cnf_struct f Hf) as [W _]. fold c in W.
  assert (Gp : tbl_get (v_pb (c_vars c)) (pb_var n) = Some i) by (rewrite pb_get; auto).
  apply tbl_get_in in Gp.
  assert (Gf : In (pb_var n, i) (filter named_entry (v_pb (c_vars c)))).
  { apply filter_In. split; [exact Gp|reflexivity]. }
  unfold complete at 1.
  pose proof (assoc_mp m _ _ _ (solve_names_nodup f m Hf) Gf) as A. simpl in A.
  unfold mp. fold c in A. rewrite A. reflexivity.
Qed.

Theorem solve_correct : forall solve, solver_ok solve -> forall s,
  match bf_solve solve (desugar s) with
  | None => forall env, seval env s = false
  | Some mp => forall dflt, seval (complete mp dflt) s = true
  end.
Proof.
  intros solve Hok s. unfold bf_solve.
  set (c := as_cnf (desugar s)).
  destruct (solve (List.length (v_all (c_vars c))) (cnf_problem (c_clauses c))) as [m|] eqn:E.
  - intros dflt. destruct (solver_ok_some _ Hok _ _ _ E) as [L S].
    rewrite sat_cnf_problem in S.
    set (mp := map (fun e : var * Z => (vname (fst e), var_val m (snd e)))
                   (filter (fun e : var * Z => negb (vdummy (fst e))) (v_pb (c_vars c)))).
    pose proof (cnf_sound s m (complete mp dflt) S) as H. fold c in H.
    rewrite <- H. apply seval_ext. intros n. symmetry.
    apply (names_of_complete (desugar s) m dflt (fv_ok_desugar s)).
  - intros env. destruct (seval env s) eqn:H; [|reflexivity]. exfalso.
    destruct (cnf_complete s env H) as [m [L [S _]]]. fold c in L, S.
    apply (solver_ok_none _ Hok _ _ E). exists m. split; [exact L|].
    rewrite sat_cnf_problem. exact S.
Qed.

(* the result binds exactly the named variables that survive constant
   folding, once each (the map does not depend on the iteration order) *)
Theorem solve_bindings : forall solve f mp, fv_ok f -> bf_solve solve f = Some mp ->
  NoDup (map fst mp) /\
  forall n, In n (map fst mp) <-> In (pb_var n) (fvars (nnf f)).
Proof.
  intros solve f mp Hf H. unfold bf_solve in H.
  destruct (solve _ _) as [m|]; [|discriminate]. injection H as <-. split.
  - apply (solve_names_nodup f m Hf).
  - intros n. change (fun e : var * Z => negb (vdummy (fst e))) with named_entry.
    rewrite solve_keys. change (In n (export_names f) <-> In (pb_var n) (fvars (nnf f))).
    rewrite (export_names_in f n Hf). apply (as_cnf_cover f Hf). reflexivity.
Qed.

(* ------------------------------------------------------------------ *)
(* Final statements.                                                    *)

(* ---- statements with the boolean side condition of the model ---- *)

Theorem cnf_sound_formb : forall f, fv_okb f = true -> forall m dflt,
  sat_cnf m (c_clauses (as_cnf f)) = true -> eval (env_of (as_cnf f) m dflt) f = true.
Proof. intros f H. apply cnf_sound_form. apply fv_okb_ok. exact H. Qed.

Theorem cnf_complete_formb : forall f, fv_okb f = true -> forall env,
  consistentb env (fdefs f) = true -> eval env f = true ->
  exists m, List.length m = List.length (v_all (c_vars (as_cnf f))) /\
            sat_cnf m (c_clauses (as_cnf f)) = true /\
            forall v i, tbl_get (v_all (c_vars (as_cnf f))) v = Some i ->
                        tseitin_name v = false -> var_val m i = env v.
Proof. intros f H. apply cnf_complete_form. apply fv_okb_ok. exact H. Qed.

Theorem fv_okb_desugar : forall s, fv_okb (desugar s) = true.
Proof. intros s. apply fv_okb_ok. apply fv_ok_desugar. Qed.

Theorem solve_ref_correct : forall s,
  match solve_ref (desugar s) with
  | None => forall env, seval env s = false
  | Some mp => forall dflt, seval (complete mp dflt) s = true
  end.
Proof. intros s. apply (solve_correct ref_solve ref_solver_ok). Qed.

Theorem solve_bindingsb : forall solve s mp, bf_solve solve (desugar s) = Some mp ->
  NoDup (map fst mp) /\
  forall n, In n (map fst mp) <-> In (pb_var n) (fvars (nnf (desugar s))).
Proof. intros solve s mp. apply solve_bindings. apply fv_ok_desugar. Qed.

Theorem dimacs_wellformedb : forall f, fv_okb f = true ->
  let d := dimacs_export f in
  d_nbvars d = Z.of_nat (List.length (v_all (c_vars (as_cnf f)))) /\
  d_nbclauses d = Z.of_nat (List.length (d_clauses d)) /\
  d_clauses d = c_clauses (as_cnf f) /\
  (forall c l, In c (d_clauses d) -> In l c -> 1 <= Z.abs l <= d_nbvars d) /\
  NoDup (map fst (d_names d)) /\
  NoDup (map snd (d_names d)) /\
  (forall n i, In (n, i) (d_names d) ->
     1 <= i <= d_nbvars d /\ tbl_get (v_all (c_vars (as_cnf f))) (pb_var n) = Some i) /\
  (forall n, In n (map fst (d_names d)) <-> In (pb_var n) (fvars (nnf f))) /\
  Sorted (fun a b => String.leb a b = true) (map fst (d_names d)).
Proof. intros f H. apply dimacs_wellformed. apply fv_okb_ok. exact H. Qed.

Theorem as_cnf_usedb : forall f, fv_okb f = true -> forall i,
  1 <= i <= Z.of_nat (List.length (v_all (c_vars (as_cnf f)))) ->
  exists c l, In c (c_clauses (as_cnf f)) /\ In l c /\ Z.abs l = i.
Proof. intros f H. apply as_cnf_used. apply fv_okb_ok. exact H. Qed.

(* ---- the witnesses of the former findings (all repaired in bf.go) ---- *)
Local Open Scope string_scope.

(* D15: "a and nothing else, and not exactly one of a..e" *)
Definition neg_unique_witness : sform :=
  SAnd [SVar "a"; SNot (SVar "b"); SNot (SVar "c"); SNot (SVar "d"); SNot (SVar "e");
        SNot (SUnique ["a"; "b"; "c"; "d"; "e"])].

Definition clash_witness : sform :=
  SAnd [SUnique ["a-b"; "c"; "d"; "e"; "f"]; SUnique ["a"; "b-c"; "d"; "e"; "f"];
        SVar "a-b"; SVar "b-c"].

Definition name_clash_witness : sform :=
  SAnd [SVar "line-0-a-b-c-d-e"; SVar "d"; SUnique ["a"; "b"; "c"; "d"; "e"]].
