(* Proofs about Model/Amo.v: at-most-one detection (property C15). *)
From Coq Require Import List ZArith Lia Bool NArith.
From GS Require Import Spec.Base Spec.PB Spec.Solver Model.Amo.
Import ListNotations.
Open Scope Z_scope.

(* ------------------------------------------------------------------ *)
(* Concrete runs of the real DetectAtMostOne (gophersat, PBString of the
   problem after the call), reproduced by the model.                    *)

Definition cl (l : list Z) : gcl := (l, 1).

(* complete clique on 3 variables, long clause after the binaries *)
Example amo_ex1 :
  detect_amo 3 [cl[-1;-2]; cl[-1;-3]; cl[-2;-3]; cl[1;2;3]]
  = [cl[-2;-3]; cl[1;2;3]; ([-1;-2;-3], 2)].
Proof. vm_compute. reflexivity. Qed.

(* incomplete clique: nothing happens *)
Example amo_ex2 :
  detect_amo 3 [cl[-1;-2]; cl[-1;-3]; cl[1;2;3]]
  = [cl[-1;-2]; cl[-1;-3]; cl[1;2;3]].
Proof. vm_compute. reflexivity. Qed.

(* at most one of 4, interleaved with other clauses *)
Example amo_ex3 :
  detect_amo 5 [cl[-1;-2]; cl[1;5]; cl[-1;-3]; cl[-1;-4]; cl[-2;-3]; cl[2;3;5];
                cl[-2;-4]; cl[-3;-4]; cl[4;5]]
  = [cl[1;5]; cl[-2;-3]; cl[2;3;5]; cl[-2;-4]; cl[-3;-4]; cl[4;5]; ([-1;-2;-3;-4], 3)].
Proof. vm_compute. reflexivity. Qed.

(* overlapping cliques {1,2,3} and {3,4,5} *)
Example amo_ex4 :
  detect_amo 5 [cl[-1;-2]; cl[-1;-3]; cl[-2;-3]; cl[-3;-4]; cl[-3;-5]; cl[-4;-5];
                cl[1;2;3;4;5]]
  = [cl[-2;-3]; cl[-3;-5]; cl[1;2;3;4;5]; ([-1;-2;-3], 2); ([-4;-3;-5], 2)].
Proof. vm_compute. reflexivity. Qed.

(* repeated binaries *)
Example amo_ex5 :
  detect_amo 3 [cl[-1;-2]; cl[-1;-2]; cl[-1;-3]; cl[-2;-3]; cl[-3;-2]]
  = [cl[-1;-2]; cl[-2;-3]; cl[-3;-2]; ([-1;-2;-3], 2)].
Proof. vm_compute. reflexivity. Qed.

(* mixed polarities: at most one of x1, ~x2, x3 *)
Example amo_ex6 :
  detect_amo 3 [cl[-1;2]; cl[2;-3]; cl[-3;-1]; cl[1;-2;3]]
  = [cl[2;-3]; cl[1;-2;3]; ([-1;2;-3], 2)].
Proof. vm_compute. reflexivity. Qed.

(* positive clique, literals written in decreasing order *)
Example amo_ex7 :
  detect_amo 4 [cl[2;1]; cl[3;1]; cl[3;2]; cl[-1;-2;-3;4]]
  = [cl[3;2]; cl[-1;-2;-3;4]; ([1;2;3], 2)].
Proof. vm_compute. reflexivity. Qed.

(* K4 minus one edge, and a cardinality constraint in the input *)
Example amo_ex8 :
  detect_amo 4 [cl[-1;-2]; cl[-1;-3]; cl[-1;-4]; cl[-2;-3]; cl[-2;-4]; ([1;2;3;4], 2)]
  = [cl[-2;-3]; ([1;2;3;4], 2); ([-1;-2;-3], 2); ([-4;-1;-2], 2)].
Proof. vm_compute. reflexivity. Qed.

(* binaries with a repeated variable: (x1 v x1), (x1 v ~x1) *)
Example amo_ex9 :
  detect_amo 3 [cl[1;1]; cl[1;-1]; cl[-1;-2]; cl[-1;-3]; cl[-2;-3]]
  = [cl[-1;-2]; cl[-1;-3]; cl[-2;-3]; ([1;1;1;-1], 3)].
Proof. vm_compute. reflexivity. Qed.

(* two-literal constraints of cardinality 2 are (wrongly) taken for binaries *)
Example amo_ex10 :
  detect_amo 3 [([-1;-2], 2); ([-1;-3], 2); ([-2;-3], 2)]
  = [([-2;-3], 2); ([-1;-2;-3], 2)].
Proof. vm_compute. reflexivity. Qed.

(* two disjoint cliques *)
Example amo_ex11 :
  detect_amo 6 [cl[-4;-5]; cl[-1;-2]; cl[-4;-6]; cl[-1;-3]; cl[-5;-6]; cl[-2;-3]; cl[1;4]]
  = [cl[-5;-6]; cl[-2;-3]; cl[1;4]; ([-1;-2;-3], 2); ([-4;-5;-6], 2)].
Proof. vm_compute. reflexivity. Qed.

(* at most one of 5 *)
Example amo_ex12 :
  detect_amo 5 [cl[-1;-2]; cl[-1;-3]; cl[-1;-4]; cl[-1;-5]; cl[-2;-3]; cl[-2;-4];
                cl[-2;-5]; cl[-3;-4]; cl[-3;-5]; cl[-4;-5]]
  = [cl[-2;-3]; cl[-2;-4]; cl[-2;-5]; cl[-3;-4]; cl[-3;-5]; cl[-4;-5];
     ([-1;-2;-3;-4;-5], 4)].
Proof. vm_compute. reflexivity. Qed.

(* ------------------------------------------------------------------ *)
(* Semantics                                                            *)

Lemma sat_gcls_problem : forall m P, sat_gcls m P = sat_problem m (gproblem P).
Proof.
  intros m P. unfold sat_gcls, sat_problem, gproblem.
  induction P as [|c P IH]; [reflexivity|]. cbn [map forallb]. rewrite IH. reflexivity.
Qed.

Lemma sat_gcl_clause : forall m l, sat_gcl m (l, 1) = sat_clause m l.
Proof. intros m l. unfold sat_gcl, gcl_pbc. cbn [fst snd]. apply sat_clause_pbc. Qed.

(* number of false literals, by position *)
Fixpoint nfalse (m : model) (S : list lit) : Z :=
  match S with
  | [] => 0
  | x :: r => (if lit_val m x then 0 else 1) + nfalse m r
  end.

Lemma nfalse_nonneg : forall m S, 0 <= nfalse m S.
Proof.
  intros m S. induction S as [|x r IH]; cbn [nfalse]; [lia|].
  destruct (lit_val m x); lia.
Qed.

Lemma count_true_nfalse : forall m S,
  count_true m S = Z.of_nat (List.length S) - nfalse m S.
Proof.
  intros m S. unfold count_true, unit_terms.
  induction S as [|x r IH]; [reflexivity|].
  cbn [map lhs nfalse List.length]. rewrite IH. unfold term_val. cbn [fst snd].
  destruct (lit_val m x); lia.
Qed.

Lemma forallb_or_l : forall m (b : bool) r,
  forallb (fun y => b || lit_val m y) r = if b then true else forallb (lit_val m) r.
Proof.
  intros m b r. induction r as [|y r IH]; cbn [forallb].
  - destruct b; reflexivity.
  - rewrite IH. destruct b; reflexivity.
Qed.

Lemma all_true_nfalse : forall m r, forallb (lit_val m) r = true <-> nfalse m r = 0.
Proof.
  intros m r. induction r as [|y r IH]; cbn [forallb nfalse]; [tauto|].
  pose proof (nfalse_nonneg m r) as Hn.
  destruct (lit_val m y); cbn [andb].
  - rewrite IH. lia.
  - split; [discriminate|lia].
Qed.

Definition or_val (m : model) (a b : lit) : bool := lit_val m a || lit_val m b.

Lemma all_pairs_nfalse : forall m S,
  all_pairs (or_val m) S = true <-> nfalse m S <= 1.
Proof.
  intros m S. induction S as [|x r IH]; cbn [all_pairs nfalse]; [split; [lia|reflexivity]|].
  pose proof (nfalse_nonneg m r) as Hn.
  rewrite andb_true_iff, IH. unfold or_val at 1. rewrite forallb_or_l.
  destruct (lit_val m x).
  - split; [intros [_ H]; lia|intros H; split; [reflexivity|lia]].
  - rewrite all_true_nfalse. lia.
Qed.

(* All pairs (by position) are satisfied iff at most one position is false,
   i.e. at least |S|-1 literals are true.  No distinctness hypothesis. *)
Lemma clique_iff_card : forall m S,
  all_pairs (or_val m) S = true <-> Z.of_nat (List.length S) - 1 <= count_true m S.
Proof.
  intros m S. rewrite all_pairs_nfalse, count_true_nfalse. lia.
Qed.

Lemma all_pairs_nth : forall f S,
  all_pairs f S = true <->
  (forall i j a b, (i < j)%nat -> nth_error S i = Some a -> nth_error S j = Some b ->
                   f a b = true).
Proof.
  intros f S. induction S as [|x r IH]; cbn [all_pairs].
  - split; [|reflexivity]. intros _ i j a b _ Hi. destruct i; discriminate.
  - rewrite andb_true_iff, IH, forallb_forall. split.
    + intros [Hx Hr] i j a b Hij Hi Hj.
      destruct j as [|j]; [lia|]. cbn [nth_error] in Hj.
      destruct i as [|i].
      * cbn [nth_error] in Hi. injection Hi as <-. apply Hx.
        eapply nth_error_In. exact Hj.
      * cbn [nth_error] in Hi. apply (Hr i j a b); [lia|assumption|assumption].
    + intros H. split.
      * intros y Hy. apply In_nth_error in Hy. destruct Hy as [j Hj].
        apply (H O (S j) x y); [lia|reflexivity|exact Hj].
      * intros i j a b Hij Hi Hj. apply (H (S i) (S j) a b); [lia|exact Hi|exact Hj].
Qed.

(* the same, stated on positions *)
Lemma clique_iff_card_pos : forall m S,
  (forall i j a b, i <> j -> nth_error S i = Some a -> nth_error S j = Some b ->
                   lit_val m a || lit_val m b = true)
  <-> Z.of_nat (List.length S) - 1 <= count_true m S.
Proof.
  intros m S. rewrite <- clique_iff_card, all_pairs_nth. unfold or_val. split.
  - intros H i j a b Hij. apply H. lia.
  - intros H i j a b Hij Hi Hj.
    destruct (Nat.lt_ge_cases i j) as [L|L].
    + apply (H i j a b L Hi Hj).
    + rewrite orb_comm. apply (H j i b a); [lia|exact Hj|exact Hi].
Qed.

Lemma sat_amo_pairs : forall m c,
  is_amo c = true -> sat_gcl m c = all_pairs (or_val m) (fst c).
Proof.
  intros m [S k] H. unfold is_amo in H. cbn [fst snd] in *. apply Z.eqb_eq in H. subst k.
  apply eq_iff_eq_true. rewrite clique_iff_card.
  unfold sat_gcl, gcl_pbc, card_pbc, sat_pbc. cbn [fst snd degree terms].
  rewrite Z.leb_le. unfold count_true. reflexivity.
Qed.

Lemma all_pairs_impl : forall (f g : lit -> lit -> bool) S,
  (forall a b, f a b = true -> g a b = true) ->
  all_pairs f S = true -> all_pairs g S = true.
Proof.
  intros f g S Hfg. induction S as [|x r IH]; cbn [all_pairs]; [reflexivity|].
  rewrite !andb_true_iff, !forallb_forall. intros [H1 H2]. split; [|exact (IH H2)].
  intros y Hy. apply Hfg. apply H1. exact Hy.
Qed.

(* ------------------------------------------------------------------ *)
(* Soundness of the validator                                           *)

Lemma zlist_eqb_eq : forall a b, zlist_eqb a b = true -> a = b.
Proof.
  induction a as [|x a IH]; intros [|y b] H; cbn [zlist_eqb] in H; try discriminate.
  - reflexivity.
  - apply andb_true_iff in H. destruct H as [H1 H2]. apply Z.eqb_eq in H1.
    subst y. f_equal. apply IH. exact H2.
Qed.

Lemma zlist_eqb_refl : forall a, zlist_eqb a a = true.
Proof.
  induction a as [|x a IH]; [reflexivity|]. cbn [zlist_eqb]. rewrite Z.eqb_refl, IH. reflexivity.
Qed.

Lemma gcl_mem_In : forall c P, gcl_mem c P = true -> In c P.
Proof.
  intros [l k] P H. unfold gcl_mem in H. apply existsb_exists in H.
  destruct H as [[l' k'] [Hin He]]. unfold gcl_eqb in He. cbn [fst snd] in He.
  apply andb_true_iff in He. destruct He as [H1 H2].
  apply zlist_eqb_eq in H1. apply Z.eqb_eq in H2. subst. exact Hin.
Qed.

Lemma In_gcl_mem : forall c P, In c P -> gcl_mem c P = true.
Proof.
  intros c P H. unfold gcl_mem. apply existsb_exists. exists c. split; [exact H|].
  unfold gcl_eqb. rewrite zlist_eqb_refl, Z.eqb_refl. reflexivity.
Qed.

Lemma sat_gcls_In : forall m P c, sat_gcls m P = true -> In c P -> sat_gcl m c = true.
Proof. intros m P c H Hin. unfold sat_gcls in H. rewrite forallb_forall in H. auto. Qed.

Lemma has_bin_sound : forall P a b m,
  sat_gcls m P = true -> has_bin P a b = true -> or_val m a b = true.
Proof.
  intros P a b m HP H. unfold has_bin in H. apply existsb_exists in H.
  destruct H as [[l k] [Hin Hc]]. cbn [fst snd] in Hc.
  apply andb_true_iff in Hc. destruct Hc as [Hk Hl]. apply Z.eqb_eq in Hk. subst k.
  pose proof (sat_gcls_In m P _ HP Hin) as Hs. rewrite sat_gcl_clause in Hs.
  destruct l as [|x [|y [|z l]]]; try discriminate.
  unfold sat_clause in Hs. cbn [existsb] in Hs. rewrite orb_false_r in Hs.
  unfold or_val.
  apply orb_true_iff in Hl. destruct Hl as [Hl|Hl];
    apply andb_true_iff in Hl; destruct Hl as [E1 E2];
    apply Z.eqb_eq in E1; apply Z.eqb_eq in E2; subst.
  - exact Hs.
  - rewrite orb_comm. exact Hs.
Qed.

Lemma clique_of_sound : forall P c m,
  sat_gcls m P = true -> clique_of P c = true -> sat_gcl m c = true.
Proof.
  intros P c m HP H. unfold clique_of in H. apply andb_true_iff in H.
  destruct H as [Ha Hp]. rewrite (sat_amo_pairs m c Ha).
  apply (all_pairs_impl (has_bin P)); [|exact Hp].
  intros a b Hab. exact (has_bin_sound P a b m HP Hab).
Qed.

Lemma zmem_nfalse : forall m b r,
  zmem b r = true -> lit_val m b = false -> 1 <= nfalse m r.
Proof.
  intros m b r H Hb. induction r as [|x r IH]; [discriminate|].
  unfold zmem in H. cbn [existsb] in H. cbn [nfalse].
  pose proof (nfalse_nonneg m r) as Hn.
  apply orb_true_iff in H. destruct H as [H|H].
  - apply Z.eqb_eq in H. subst x. rewrite Hb. lia.
  - specialize (IH H). destruct (lit_val m x); lia.
Qed.

Lemma pair_in_nfalse : forall m a b S,
  pair_in a b S = true -> lit_val m a = false -> lit_val m b = false -> 2 <= nfalse m S.
Proof.
  intros m a b S H Ha Hb. induction S as [|x r IH]; [discriminate|].
  cbn [pair_in] in H. cbn [nfalse].
  pose proof (nfalse_nonneg m r) as Hn.
  apply orb_true_iff in H. destruct H as [H|H]; [apply orb_true_iff in H; destruct H as [H|H]|].
  - apply andb_true_iff in H. destruct H as [E M]. apply Z.eqb_eq in E. subst x.
    rewrite Ha. pose proof (zmem_nfalse m b r M Hb). lia.
  - apply andb_true_iff in H. destruct H as [E M]. apply Z.eqb_eq in E. subst x.
    rewrite Hb. pose proof (zmem_nfalse m a r M Ha). lia.
  - specialize (IH H). destruct (lit_val m x); lia.
Qed.

Lemma covered_by_sound : forall P' c m,
  sat_gcls m P' = true -> covered_by P' c = true -> sat_gcl m c = true.
Proof.
  intros P' [l k] m HP H. unfold covered_by in H. cbn [fst snd] in H.
  apply andb_true_iff in H. destruct H as [Hk H]. apply Z.eqb_eq in Hk. subst k.
  destruct l as [|a [|b [|z l]]]; try discriminate.
  apply existsb_exists in H. destruct H as [g [Hg Hc]].
  apply andb_true_iff in Hc. destruct Hc as [Hamo Hpair].
  pose proof (sat_gcls_In m P' g HP Hg) as Hs.
  rewrite (sat_amo_pairs m g Hamo) in Hs. apply all_pairs_nfalse in Hs.
  rewrite sat_gcl_clause. unfold sat_clause. cbn [existsb]. rewrite orb_false_r.
  destruct (lit_val m a) eqn:Ea; [reflexivity|].
  destruct (lit_val m b) eqn:Eb; [reflexivity|].
  pose proof (pair_in_nfalse m a b (fst g) Hpair Ea Eb). lia.
Qed.

Lemma amo_valid_sound : forall P P',
  amo_valid P P' = true -> forall m, sat_gcls m P' = sat_gcls m P.
Proof.
  intros P P' H m. unfold amo_valid in H. apply andb_true_iff in H.
  destruct H as [H1 H2]. rewrite forallb_forall in H1, H2.
  apply eq_iff_eq_true. split; intros HS.
  - unfold sat_gcls. apply forallb_forall. intros c Hc.
    specialize (H2 c Hc). apply orb_true_iff in H2. destruct H2 as [H2|H2].
    + apply (sat_gcls_In m P' c HS). apply gcl_mem_In. exact H2.
    + exact (covered_by_sound P' c m HS H2).
  - unfold sat_gcls. apply forallb_forall. intros c Hc.
    specialize (H1 c Hc). apply orb_true_iff in H1. destruct H1 as [H1|H1].
    + apply (sat_gcls_In m P c HS). apply gcl_mem_In. exact H1.
    + exact (clique_of_sound P c m HS H1).
Qed.

(* ------------------------------------------------------------------ *)
(* The model of DetectAtMostOne always passes the validator             *)

(* clause number idx of P is the propositional clause (x v y) or (y v x) *)
Definition bin_clause (P : list gcl) (idx : nat) (x y : lit) : Prop :=
  exists c, nth_error P idx = Some c /\ snd c = 1 /\ (fst c = [x; y] \/ fst c = [y; x]).

Lemma props_from_spec : forall P i a o idx,
  In (o, idx) (props_from i P a) ->
  (i <= idx)%nat /\
  exists c, nth_error P (idx - i) = Some c /\ (fst c = [- a; o] \/ fst c = [o; - a]).
Proof.
  induction P as [|c r IH]; intros i a o idx H; [destruct H|].
  cbn [props_from] in H. apply in_app_or in H. destruct H as [H|H].
  - destruct (fst c) as [|l1 [|l2 [|l3 l]]] eqn:Ec; try (destruct H; fail).
    apply in_app_or in H. destruct H as [H|H].
    + destruct (Z.eqb_spec (- l1) a) as [E|E]; [|destruct H].
      destruct H as [H|[]]. injection H as <- <-. split; [lia|].
      exists c. rewrite Nat.sub_diag. split; [reflexivity|].
      left. rewrite Ec. f_equal. lia.
    + destruct (Z.eqb_spec (- l2) a) as [E|E]; [|destruct H].
      destruct H as [H|[]]. injection H as <- <-. split; [lia|].
      exists c. rewrite Nat.sub_diag. split; [reflexivity|].
      right. rewrite Ec. f_equal. f_equal. lia.
  - apply IH in H. destruct H as [Hle [c' [Hn Hc]]]. split; [lia|].
    exists c'. split; [|exact Hc].
    replace (idx - i)%nat with (S (idx - S i)) by lia. exact Hn.
Qed.

Lemma bin_wf_nth : forall P idx c,
  bin_wf P = true -> nth_error P idx = Some c -> List.length (fst c) = 2%nat -> snd c = 1.
Proof.
  intros P idx c H Hn Hl. unfold bin_wf in H. rewrite forallb_forall in H.
  specialize (H c (nth_error_In _ _ Hn)). rewrite Hl in H. cbn in H.
  apply Z.eqb_eq. exact H.
Qed.

Lemma props_bin : forall P a o idx,
  bin_wf P = true -> In (o, idx) (props P a) -> bin_clause P idx (- a) o.
Proof.
  intros P a o idx Hwf H. unfold props in H. apply props_from_spec in H.
  destruct H as [_ [c [Hn Hc]]]. rewrite Nat.sub_0_r in Hn.
  exists c. split; [exact Hn|]. split; [|exact Hc].
  apply (bin_wf_nth P idx c Hwf Hn). destruct Hc as [-> | ->]; reflexivity.
Qed.

Lemma bin_clause_has_bin : forall P idx x y, bin_clause P idx x y -> has_bin P x y = true.
Proof.
  intros P idx x y [[l k] [Hn [Hk Hl]]]. cbn [fst snd] in *. subst k.
  unfold has_bin. apply existsb_exists. exists (l, 1). split; [eapply nth_error_In; exact Hn|].
  cbn [fst snd]. destruct Hl as [-> | ->]; rewrite !Z.eqb_refl; cbn [andb orb].
  - reflexivity.
  - apply orb_true_r.
Qed.

Lemma has_prop_has_bin : forall P c o,
  bin_wf P = true -> has_prop P (- c) o = true -> has_bin P c o = true.
Proof.
  intros P c o Hwf H. unfold has_prop in H. apply existsb_exists in H.
  destruct H as [[o' idx] [Hin He]]. cbn [fst] in He. apply Z.eqb_eq in He. subst o'.
  pose proof (props_bin P (- c) o idx Hwf Hin) as Hb. rewrite Z.opp_involutive in Hb.
  exact (bin_clause_has_bin P idx c o Hb).
Qed.

Lemma all_pairs_snoc : forall f S x,
  all_pairs f S = true -> forallb (fun y => f y x) S = true ->
  all_pairs f (S ++ [x]) = true.
Proof.
  intros f S x. induction S as [|a r IH]; cbn [all_pairs forallb app]; [reflexivity|].
  rewrite !andb_true_iff. intros [H1 H2] [H3 H4]. split.
  - rewrite forallb_app. cbn [forallb]. rewrite H1, H3. reflexivity.
  - apply IH; assumption.
Qed.

Lemma zmem_app_l : forall x (S T : list lit), zmem x S = true -> zmem x (S ++ T) = true.
Proof.
  intros x S T H. unfold zmem in *. apply existsb_exists in H. destruct H as [y [Hy E]].
  apply existsb_exists. exists y. split; [apply in_or_app; left; exact Hy|exact E].
Qed.

Lemma zmem_snoc : forall (x : lit) (S : list lit), zmem x (S ++ [x]) = true.
Proof.
  intros x S. unfold zmem. apply existsb_exists. exists x.
  split; [apply in_or_app; right; left; reflexivity|apply Z.eqb_refl].
Qed.

Lemma pair_in_app_l : forall a b S T, pair_in a b S = true -> pair_in a b (S ++ T) = true.
Proof.
  intros a b S T. induction S as [|x r IH]; [discriminate|].
  cbn [pair_in app]. intros H.
  apply orb_true_iff in H. destruct H as [H|H]; [apply orb_true_iff in H; destruct H as [H|H]|].
  - apply andb_true_iff in H. destruct H as [E M].
    rewrite E, (zmem_app_l _ _ T M). reflexivity.
  - apply andb_true_iff in H. destruct H as [E M].
    rewrite E, (zmem_app_l _ _ T M). cbn [andb]. rewrite orb_true_r. reflexivity.
  - rewrite (IH H). apply orb_true_r.
Qed.

Lemma pair_in_sym : forall a b S, pair_in a b S = pair_in b a S.
Proof.
  intros a b S. induction S as [|x r IH]; [reflexivity|].
  cbn [pair_in]. rewrite IH. f_equal. apply orb_comm.
Qed.

(* invariant of the loop over [others] *)
Definition grow_inv (P : list gcl) (constr : list lit) (bins : list nat) : Prop :=
  all_pairs (has_bin P) constr = true /\
  forall idx, In idx bins ->
    exists x y, bin_clause P idx x y /\ pair_in x y constr = true.

Lemma grow_spec : forall P seen l, bin_wf P = true ->
  forall others rest bins constr' bins',
  (forall o idx, In (o, idx) others -> bin_clause P idx (- l) o) ->
  grow_inv P (- l :: rest) bins ->
  grow P seen others (- l :: rest) bins = (constr', bins') ->
  grow_inv P constr' bins'.
Proof.
  intros P seen l Hwf. induction others as [|[o idx] others IH];
    intros rest bins constr' bins' Hoth Hinv Hg; cbn [grow] in Hg.
  - injection Hg as <- <-. exact Hinv.
  - assert (Hoth' : forall o' idx', In (o', idx') others -> bin_clause P idx' (- l) o').
    { intros o' idx' Hin. apply Hoth. right. exact Hin. }
    destruct (zmem o seen); [exact (IH rest bins _ _ Hoth' Hinv Hg)|].
    cbn [tl] in Hg.
    destruct (forallb (fun c => has_prop P (- c) o) rest) eqn:Hall;
      [|exact (IH rest bins _ _ Hoth' Hinv Hg)].
    change ((- l :: rest) ++ [o]) with (- l :: (rest ++ [o])) in Hg.
    apply (IH (rest ++ [o]) (bins ++ [idx]) _ _ Hoth'); [|exact Hg].
    destruct Hinv as [Hp Hb].
    pose proof (Hoth o idx (or_introl eq_refl)) as Hbc.
    split.
    + change (- l :: (rest ++ [o])) with ((- l :: rest) ++ [o]).
      apply all_pairs_snoc; [exact Hp|].
      cbn [forallb]. rewrite (bin_clause_has_bin P idx (- l) o Hbc). cbn [andb].
      apply forallb_forall. intros y Hy. rewrite forallb_forall in Hall.
      apply has_prop_has_bin; [exact Hwf|]. apply Hall. exact Hy.
    + intros i Hi. apply in_app_or in Hi. destruct Hi as [Hi|[<-|[]]].
      * destruct (Hb i Hi) as [x [y [Hxy Hpi]]]. exists x, y. split; [exact Hxy|].
        change (- l :: (rest ++ [o])) with ((- l :: rest) ++ [o]).
        apply pair_in_app_l. exact Hpi.
      * exists (- l), o. split; [exact Hbc|].
        cbn [pair_in]. rewrite Z.eqb_refl, zmem_snoc. reflexivity.
Qed.

(* invariant of the main loop *)
Definition amo_inv (P : list gcl) (st : amo_state) : Prop :=
  let '(_, news, rem) := st in
  (forall g, In g news -> clique_of P g = true) /\
  (forall idx, In idx rem ->
     exists x y g, bin_clause P idx x y /\ In g news /\ is_amo g = true /\
                   pair_in x y (fst g) = true).

Lemma amo_step_inv : forall P st l,
  bin_wf P = true -> amo_inv P st -> amo_inv P (amo_step P st l).
Proof.
  intros P [[seen news] rem] l Hwf Hinv. unfold amo_step.
  destruct (zmem l seen); [exact Hinv|].
  destruct (List.length (props P l) <? 2)%nat; [exact Hinv|].
  destruct (grow P seen (props P l) [- l] []) as [constr bins] eqn:Hg.
  destruct (2 <? List.length constr)%nat; [|exact Hinv].
  assert (Hgi : grow_inv P constr bins).
  { apply (grow_spec P seen l Hwf (props P l) [] [] constr bins).
    - intros o idx Hin. exact (props_bin P l o idx Hwf Hin).
    - split; [reflexivity|]. intros idx [].
    - exact Hg. }
  destruct Hgi as [Hp Hb]. destruct Hinv as [Hn Hr].
  set (g := (constr, Z.of_nat (List.length constr) - 1)).
  assert (Hamo : is_amo g = true) by (unfold is_amo, g; cbn [fst snd]; apply Z.eqb_refl).
  unfold amo_inv. split.
  - intros g' Hg'. apply in_app_or in Hg'. destruct Hg' as [Hg'|[<-|[]]]; [auto|].
    unfold clique_of. rewrite Hamo. exact Hp.
  - intros idx Hi. apply in_app_or in Hi. destruct Hi as [Hi|Hi].
    + destruct (Hr idx Hi) as [x [y [g' [H1 [H2 [H3 H4]]]]]].
      exists x, y, g'. split; [exact H1|]. split; [apply in_or_app; left; exact H2|].
      split; assumption.
    + destruct (Hb idx Hi) as [x [y [H1 H2]]].
      exists x, y, g. split; [exact H1|]. split; [apply in_or_app; right; left; reflexivity|].
      split; [exact Hamo|exact H2].
Qed.

Lemma fold_left_inv : forall (A B : Type) (f : A -> B -> A) (I : A -> Prop),
  (forall a b, I a -> I (f a b)) -> forall l a, I a -> I (fold_left f l a).
Proof.
  intros A B f I H l. induction l as [|b l IH]; intros a Ha; cbn [fold_left]; auto.
Qed.

Lemma amo_run_inv : forall n P, bin_wf P = true -> amo_inv P (amo_run n P).
Proof.
  intros n P Hwf. unfold amo_run. apply fold_left_inv.
  - intros st l Hst. apply amo_step_inv; assumption.
  - cbn. split; [intros g []|intros idx []].
Qed.

Lemma remove_at_In : forall rem l i c, In c (remove_at i rem l) -> In c l.
Proof.
  intros rem l. induction l as [|x l IH]; intros i c H; cbn [remove_at] in H; [exact H|].
  destruct (existsb (Nat.eqb i) rem).
  - right. exact (IH _ _ H).
  - destruct H as [H|H]; [left; exact H|right; exact (IH _ _ H)].
Qed.

Lemma remove_at_keep : forall rem l i k c,
  nth_error l k = Some c -> existsb (Nat.eqb (i + k)) rem = false ->
  In c (remove_at i rem l).
Proof.
  intros rem l. induction l as [|x l IH]; intros i k c Hn He.
  - destruct k; discriminate.
  - cbn [remove_at]. destruct k as [|k].
    + cbn [nth_error] in Hn. injection Hn as ->. rewrite Nat.add_0_r in He. rewrite He.
      left. reflexivity.
    + cbn [nth_error] in Hn.
      assert (Hin : In c (remove_at (S i) rem l)).
      { apply (IH (S i) k c Hn). replace (S i + k)%nat with (i + S k)%nat by lia. exact He. }
      destruct (existsb (Nat.eqb i) rem); [exact Hin|right; exact Hin].
Qed.

Lemma not_in_existsb : forall k rem, ~ In k rem -> existsb (Nat.eqb k) rem = false.
Proof.
  intros k rem H. destruct (existsb (Nat.eqb k) rem) eqn:E; [|reflexivity].
  exfalso. apply H. apply existsb_exists in E. destruct E as [x [Hx Hk]].
  apply Nat.eqb_eq in Hk. subst x. exact Hx.
Qed.

Lemma detect_amo_valid : forall n P,
  bin_wf P = true -> amo_valid P (detect_amo n P) = true.
Proof.
  intros n P Hwf. unfold detect_amo.
  pose proof (amo_run_inv n P Hwf) as Hinv.
  destruct (amo_run n P) as [[seen news] rem]. cbn in Hinv. destruct Hinv as [Hn Hr].
  assert (Hlt : forall idx, In idx rem -> (idx < List.length P)%nat).
  { intros idx Hi. destruct (Hr idx Hi) as [x [y [g [[c [Hc _]] _]]]].
    apply nth_error_Some. rewrite Hc. discriminate. }
  assert (Hnews : forall g, In g news -> In g (remove_at 0 rem (P ++ news))).
  { intros g Hg. apply In_nth_error in Hg. destruct Hg as [k Hk].
    apply (remove_at_keep rem (P ++ news) 0 (List.length P + k) g).
    - rewrite nth_error_app2 by lia.
      replace (List.length P + k - List.length P)%nat with k by lia. exact Hk.
    - apply not_in_existsb. intros Hin. apply Hlt in Hin. lia. }
  unfold amo_valid. apply andb_true_iff. split; apply forallb_forall.
  - intros c' Hc'. apply remove_at_In in Hc'. apply in_app_or in Hc'.
    destruct Hc' as [Hc'|Hc'].
    + rewrite (In_gcl_mem c' P Hc'). reflexivity.
    + rewrite (Hn c' Hc'). apply orb_true_r.
  - intros c Hc. apply In_nth_error in Hc. destruct Hc as [idx Hidx].
    destruct (existsb (Nat.eqb idx) rem) eqn:E.
    + apply existsb_exists in E. destruct E as [i [Hi Hii]]. apply Nat.eqb_eq in Hii. subst i.
      destruct (Hr idx Hi) as [x [y [g [[c0 [Hc0 [Hk Hl]]] [Hg [Hamo Hpair]]]]]].
      rewrite Hidx in Hc0. injection Hc0 as <-.
      apply orb_true_iff. right. unfold covered_by. rewrite Hk, Z.eqb_refl. cbn [andb].
      destruct Hl as [-> | ->]; apply existsb_exists; exists g;
        (split; [exact (Hnews g Hg)|]); rewrite Hamo; cbn [andb]; [exact Hpair|].
      rewrite pair_in_sym. exact Hpair.
    + apply orb_true_iff. left. apply In_gcl_mem.
      apply (remove_at_keep rem (P ++ news) 0 idx c); [|exact E].
      rewrite nth_error_app1; [exact Hidx|]. apply nth_error_Some. rewrite Hidx. discriminate.
Qed.

Lemma detect_amo_sound : forall n P, bin_wf P = true ->
  forall m, sat_gcls m (detect_amo n P) = sat_gcls m P.
Proof.
  intros n P Hwf. apply amo_valid_sound. apply detect_amo_valid. exact Hwf.
Qed.

(* Without the precondition the transformation is wrong: DetectAtMostOne only
   looks at the length of a constraint, so x+y >= 2 is taken for a clause. *)
Lemma detect_amo_refuted : exists n P m,
  sat_gcls m (detect_amo n P) <> sat_gcls m P.
Proof.
  exists 3%nat, [([-1;-2], 2); ([-1;-3], 2); ([-2;-3], 2)], [true; false; false].
  vm_compute. discriminate.
Qed.

(* ------------------------------------------------------------------ *)
(* Verdicts, counts, optima                                             *)

Lemma count_models_ext : forall n p q,
  (forall m, p m = q m) -> count_models n p = count_models n q.
Proof.
  induction n as [|n IH]; intros p q H; cbn [count_models].
  - rewrite H. reflexivity.
  - rewrite (IH (fun m => p (false :: m)) (fun m => q (false :: m))) by (intros m; apply H).
    rewrite (IH (fun m => p (true :: m)) (fun m => q (true :: m))) by (intros m; apply H).
    reflexivity.
Qed.

Lemma find_model_ext : forall n p q,
  (forall m, p m = q m) -> find_model n p = find_model n q.
Proof.
  induction n as [|n IH]; intros p q H; cbn [find_model].
  - rewrite H. reflexivity.
  - rewrite (IH (fun m => p (false :: m)) (fun m => q (false :: m))) by (intros m; apply H).
    rewrite (IH (fun m => p (true :: m)) (fun m => q (true :: m))) by (intros m; apply H).
    reflexivity.
Qed.

Lemma list_models_ext : forall n p q,
  (forall m, p m = q m) -> list_models n p = list_models n q.
Proof.
  induction n as [|n IH]; intros p q H; cbn [list_models].
  - rewrite H. reflexivity.
  - rewrite (IH (fun m => p (false :: m)) (fun m => q (false :: m))) by (intros m; apply H).
    rewrite (IH (fun m => p (true :: m)) (fun m => q (true :: m))) by (intros m; apply H).
    reflexivity.
Qed.

Lemma min_cost_ext : forall n p q (c d : model -> Z),
  (forall m, p m = q m) -> (forall m, c m = d m) -> min_cost n p c = min_cost n q d.
Proof.
  induction n as [|n IH]; intros p q c d H Hc; cbn [min_cost].
  - rewrite H, Hc. reflexivity.
  - rewrite (IH (fun m => p (false :: m)) (fun m => q (false :: m))
                (fun m => c (false :: m)) (fun m => d (false :: m)))
      by (intros m; auto).
    rewrite (IH (fun m => p (true :: m)) (fun m => q (true :: m))
                (fun m => c (true :: m)) (fun m => d (true :: m)))
      by (intros m; auto).
    reflexivity.
Qed.

Lemma detect_amo_problem : forall n P, bin_wf P = true ->
  forall m, sat_problem m (gproblem (detect_amo n P)) = sat_problem m (gproblem P).
Proof.
  intros n P Hwf m. rewrite <- !sat_gcls_problem. apply detect_amo_sound. exact Hwf.
Qed.

Lemma amo_valid_problem : forall P P', amo_valid P P' = true ->
  forall m, sat_problem m (gproblem P') = sat_problem m (gproblem P).
Proof.
  intros P P' H m. rewrite <- !sat_gcls_problem. apply amo_valid_sound. exact H.
Qed.

Lemma detect_amo_verdict : forall n P k, bin_wf P = true ->
  find_model k (fun m => sat_problem m (gproblem (detect_amo n P)))
  = find_model k (fun m => sat_problem m (gproblem P)).
Proof. intros n P k Hwf. apply find_model_ext. apply detect_amo_problem. exact Hwf. Qed.

Lemma detect_amo_satisfiable : forall n P k, bin_wf P = true ->
  PSatisfiable k (gproblem (detect_amo n P)) <-> PSatisfiable k (gproblem P).
Proof.
  intros n P k Hwf. unfold PSatisfiable.
  split; intros [m [L S]]; exists m; (split; [exact L|]).
  - rewrite <- (detect_amo_problem n P Hwf). exact S.
  - rewrite (detect_amo_problem n P Hwf). exact S.
Qed.

Lemma detect_amo_count : forall n P k, bin_wf P = true ->
  count_models k (fun m => sat_problem m (gproblem (detect_amo n P)))
  = count_models k (fun m => sat_problem m (gproblem P)).
Proof. intros n P k Hwf. apply count_models_ext. apply detect_amo_problem. exact Hwf. Qed.

Lemma detect_amo_models : forall n P k, bin_wf P = true ->
  list_models k (fun m => sat_problem m (gproblem (detect_amo n P)))
  = list_models k (fun m => sat_problem m (gproblem P)).
Proof. intros n P k Hwf. apply list_models_ext. apply detect_amo_problem. exact Hwf. Qed.

Lemma detect_amo_optimum : forall n P k c, bin_wf P = true ->
  min_dec k (gproblem (detect_amo n P)) c = min_dec k (gproblem P) c.
Proof.
  intros n P k c Hwf. unfold min_dec. apply min_cost_ext; [|reflexivity].
  apply detect_amo_problem. exact Hwf.
Qed.
