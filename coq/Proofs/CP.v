(* Proofs about Model/CP.v: the inference rules of the cutting-planes
   strategy (property C14). *)
From Coq Require Import List ZArith Lia Bool ZifyBool.
From GS Require Import Spec.Base Spec.PB Model.CP.
Import ListNotations.
Open Scope Z_scope.

Ltac Zify.zify_post_hook ::= Z.to_euclidean_division_equations.

Ltac zcases :=
  repeat match goal with
  | |- context [?x =? ?y] => destruct (Z.eqb_spec x y)
  | |- context [?x <? ?y] => destruct (Z.ltb_spec x y)
  end.

(* ------------------------------------------------------------------ *)
(* Concrete values taken from the unit tests of gophersat
   (solver/learn_pb_test.go, which pass on the real code).              *)

(* 5 x1 +3 ~x2 +2 x4 +1 x5 >= 6 *)
Definition ex_c1 : pbc := PBC [(5, 1); (3, -2); (2, 4); (1, 5)] 6.
(* 6 x2 +2 ~x1 +2 x4 +2 x5 +1 x3 >= 7 *)
Definition ex_c2 : pbc := PBC [(6, 2); (2, -1); (2, 4); (2, 5); (1, 3)] 7.

Example pbset_ex1 : pbset_of 5 ex_c1 = ([5; -3; 0; 2; 1], 6).
Proof. vm_compute. reflexivity. Qed.
Example pbset_ex2 : pbset_of 5 ex_c2 = ([-2; 6; 1; 2; 2], 7).
Proof. vm_compute. reflexivity. Qed.
Example clause_ex1 : set_clause (pbset_of 5 ex_c1) = ex_c1.
Proof. vm_compute. reflexivity. Qed.
Example falsifies_ex :
  map (falsifies (pbset_of 5 ex_c1)) [-1; 1; 2; -2; -3; 3]
  = [true; false; true; false; false; false].
Proof. vm_compute. reflexivity. Qed.
Example slack_ex : slack [0; 0; 0; 0; 0] 1 (pbset_of 5 ex_c1) = 5.
Proof. vm_compute. reflexivity. Qed.

(* Hand-evaluated from the Go source (the functions are unexported). *)
Example clash_ex : clash ([5; -3; 0; 2; 1], 6) ([-2; 6; 1; 2; 2], 7) = ([3; 3; 1; 4; 3], 8).
Proof. vm_compute. reflexivity. Qed.
Example divide_ex1 : divide_by 3 ([3; 3; 1; 4; 3], 8) = ([1; 1; 1; 2; 1], 3).
Proof. vm_compute. reflexivity. Qed.
(* -7 % 3 = -1, -7 / 3 = -2 in Go *)
Example divide_ex2 : divide_by 3 ([-7; -6; 5; 0], -6) = ([-3; -2; 2; 0], -2).
Proof. vm_compute. reflexivity. Qed.
(* x1 true, x2 false, x3 free; 4 ~x1 + 3 x2 + 6 ~x3 >= 7, locked x1:
   ~x3 is weakened (degree 1), x2 is falsified and kept *)
Example round_ex1 : round_to_one [1; -2; 0] 0 ([-4; 3; -6], 7) = Some ([-1; 1; 0], 1).
Proof. vm_compute. reflexivity. Qed.
Example round_ex2 : round_to_one [1; -2; 0] 1 ([-4; 0; -6], 7) = None.
Proof. vm_compute. reflexivity. Qed.
Example round_ex3 : round_to_one [1; -2; 0] 0 ([-1; 3; -6], 7) = Some ([-1; 3; -6], 7).
Proof. vm_compute. reflexivity. Qed.
Example backtrack_ex : backtrack_level [3; -2; 5; -5; 0] 3 ([1; 1; 1; -1; 1], 2) = 3.
Proof. vm_compute. reflexivity. Qed.
Example slack_ex2 : slack [3; -2; 5; -5; 0] 2 ([1; 1; -1; -1; 1], 2) = 2.
Proof. vm_compute. reflexivity. Qed.

(* ------------------------------------------------------------------ *)
(* Meaning of a pbSet as a sum over the variables                       *)

Definition wval (m : model) (v w : Z) : Z :=
  if w =? 0 then 0
  else if w <? 0 then (if var_val m v then 0 else - w)
  else (if var_val m v then w else 0).

Fixpoint set_lhs (m : model) (v : Z) (ws : list Z) : Z :=
  match ws with
  | [] => 0
  | w :: r => wval m v w + set_lhs m (v + 1) r
  end.

Lemma lhs_set_terms : forall m ws v, 1 <= v -> lhs m (set_terms v ws) = set_lhs m v ws.
Proof.
  intros m ws. induction ws as [|w r IH]; intros v Hv; cbn [set_terms set_lhs]; [reflexivity|].
  unfold wval. destruct (Z.eqb_spec w 0) as [E|E].
  - rewrite IH by lia. lia.
  - destruct (Z.ltb_spec w 0) as [L|L]; cbn [lhs]; rewrite IH by lia;
      unfold term_val, lit_val; cbn [fst snd].
    + destruct (Z.ltb_spec 0 (- v)) as [L'|L']; [lia|]. rewrite Z.opp_involutive.
      destruct (var_val m v); cbn [negb]; lia.
    + destruct (Z.ltb_spec 0 v) as [L'|L']; [|lia]. destruct (var_val m v); lia.
Qed.

Lemma sat_pbset_lhs : forall m s, sat_pbset m s = (snd s <=? set_lhs m 1 (fst s)).
Proof.
  intros m [ws d]. unfold sat_pbset, sat_pbc, set_clause. cbn [fst snd terms degree].
  rewrite lhs_set_terms by lia. reflexivity.
Qed.

Lemma sat_pbset_iff : forall m s, sat_pbset m s = true <-> snd s <= set_lhs m 1 (fst s).
Proof. intros m s. rewrite sat_pbset_lhs. apply Z.leb_le. Qed.

Lemma wval_bounds : forall m v w, 0 <= wval m v w <= Z.abs w.
Proof. intros m v w. unfold wval. destruct (var_val m v); zcases; lia. Qed.

Lemma wval_0 : forall m v, wval m v 0 = 0.
Proof. reflexivity. Qed.

Lemma set_lhs_nonneg : forall m ws v, 0 <= set_lhs m v ws.
Proof.
  intros m ws. induction ws as [|w r IH]; intros v; cbn [set_lhs]; [lia|].
  pose proof (wval_bounds m v w). specialize (IH (v + 1)). lia.
Qed.

(* ------------------------------------------------------------------ *)
(* clash                                                                *)

Lemma wval_add : forall m v a b,
  wval m v (a + b)
  = wval m v a + wval m v b - (if a * b <? 0 then Z.min (Z.abs a) (Z.abs b) else 0).
Proof.
  intros m v a b. destruct (Z.ltb_spec (a * b) 0) as [H|H].
  - apply Z.lt_mul_0 in H. unfold wval. destruct (var_val m v); zcases; lia.
  - assert (H' : ~ (a < 0 < b \/ 0 < a /\ b < 0)) by (rewrite <- Z.lt_mul_0; lia).
    unfold wval. destruct (var_val m v); zcases; lia.
Qed.

Lemma set_lhs_hd_tl : forall m v ws,
  set_lhs m v ws = wval m v (hd 0 ws) + set_lhs m (v + 1) (tl ws).
Proof. intros m v [|w r]; reflexivity. Qed.

Lemma clash_ws_lhs : forall m w1 w2 v w k,
  clash_ws w1 w2 = (w, k) -> (List.length w2 <= List.length w1)%nat ->
  set_lhs m v w = set_lhs m v w1 + set_lhs m v w2 - k.
Proof.
  intros m w1. induction w1 as [|a r1 IH]; intros w2 v w k H Hlen.
  - cbn [clash_ws] in H. injection H as <- <-.
    destruct w2 as [|b w2]; [reflexivity|cbn [List.length] in Hlen; lia].
  - cbn [clash_ws] in H. destruct (clash_ws r1 (tl w2)) as [r k'] eqn:E.
    injection H as <- <-.
    assert (Hl : (List.length (tl w2) <= List.length r1)%nat).
    { destruct w2 as [|b w2]; cbn [tl List.length] in *; lia. }
    specialize (IH (tl w2) (v + 1) r k' E Hl).
    rewrite (set_lhs_hd_tl m v w2). cbn [set_lhs]. rewrite IH, wval_add. lia.
Qed.

(* Cancelling addition is a sound inference (in fact an exact identity on the
   left-hand sides). *)
Lemma clash_sound : forall a b m,
  (List.length (fst b) <= List.length (fst a))%nat ->
  sat_pbset m a = true -> sat_pbset m b = true -> sat_pbset m (clash a b) = true.
Proof.
  intros [wa da] [wb db] m Hlen Ha Hb. rewrite sat_pbset_iff in *.
  unfold clash. cbn [fst snd] in *.
  destruct (clash_ws wa wb) as [w k] eqn:E. cbn [fst snd].
  rewrite (clash_ws_lhs m wa wb 1 w k E Hlen). lia.
Qed.

(* if pb2 has more variables than pb1 its extra weights are dropped: unsound *)
Lemma clash_longer_refuted : exists a b m,
  sat_pbset m a = true /\ sat_pbset m b = true /\ sat_pbset m (clash a b) = false.
Proof.
  exists ([1], 1), ([0; 1], 1), [true; true]. vm_compute. repeat split.
Qed.

(* ------------------------------------------------------------------ *)
(* weakening                                                            *)

Lemma weaken_lhs : forall m ws j v,
  set_lhs m v ws - Z.abs (nth j ws 0) <= set_lhs m v (set_nth j 0 ws).
Proof.
  intros m ws. induction ws as [|w r IH]; intros j v.
  - destruct j; cbn; lia.
  - destruct j as [|j]; cbn [set_nth nth set_lhs].
    + pose proof (wval_bounds m v w). rewrite wval_0. lia.
    + specialize (IH j (v + 1)). lia.
Qed.

Lemma weaken_sound : forall j s m,
  sat_pbset m s = true -> sat_pbset m (weaken_at j s) = true.
Proof.
  intros j [ws d] m H. rewrite sat_pbset_iff in *. unfold weaken_at. cbn [fst snd] in *.
  pose proof (weaken_lhs m ws j 1). lia.
Qed.

Lemma weaken_ws_lhs : forall m wi ws assign v w k,
  weaken_ws wi assign ws = (w, k) ->
  0 <= k /\ set_lhs m v ws - k <= set_lhs m v w.
Proof.
  intros m wi ws. induction ws as [|wj r IH]; intros assign v w k H.
  - cbn [weaken_ws] in H. injection H as <- <-. cbn [set_lhs]. lia.
  - cbn [weaken_ws] in H. destruct (weaken_ws wi (tl assign) r) as [r' k'] eqn:E.
    specialize (IH (tl assign) (v + 1) r' k' E). pose proof (wval_bounds m v wj) as Hb.
    destruct (wj =? 0).
    + injection H as <- <-. cbn [set_lhs]. lia.
    + destruct (negb (Z.rem wj wi =? 0) && not_falsified (hd 0 assign) wj).
      * injection H as <- <-. cbn [set_lhs]. rewrite wval_0. lia.
      * injection H as <- <-. cbn [set_lhs]. lia.
Qed.

(* the weakening loop of roundToOne is sound whatever the assignment says *)
Lemma weaken_round_sound : forall wi assign s m,
  sat_pbset m s = true -> sat_pbset m (weaken_round wi assign s) = true.
Proof.
  intros wi assign [ws d] m H. rewrite sat_pbset_iff in *. unfold weaken_round.
  cbn [fst snd] in *. destruct (weaken_ws wi assign ws) as [w k] eqn:E. cbn [fst snd].
  pose proof (weaken_ws_lhs m wi ws assign 1 w k E). lia.
Qed.

(* ------------------------------------------------------------------ *)
(* division                                                             *)

(* with Go's truncating / and %, the three branches of divideBy compute the
   ceiling of |w|/c and keep the sign *)
Lemma quot_sign : forall c w, 0 < c ->
  (0 < w -> 0 <= Z.quot w c) /\ (w < 0 -> Z.quot w c <= 0) /\
  (Z.rem w c = 0 -> w <> 0 -> Z.quot w c <> 0).
Proof.
  intros c w Hc. split; [|split].
  - intros Hw. apply Z.quot_pos; lia.
  - intros Hw. pose proof (Z.quot_pos (- w) c ltac:(lia) Hc) as H.
    rewrite Z.quot_opp_l in H by lia. lia.
  - intros Hr Hw Hq. pose proof (Z.quot_rem' w c) as H. rewrite Hq, Hr in H. lia.
Qed.

Lemma div_w_spec : forall c w, 0 < c ->
  (w = 0 /\ div_w c w = 0) \/
  (0 < w /\ 0 < div_w c w /\ w <= c * div_w c w < w + c) \/
  (w < 0 /\ div_w c w < 0 /\ - w <= c * - div_w c w < - w + c).
Proof.
  intros c w Hc. destruct (quot_sign c w Hc) as [Q1 [Q2 Q3]].
  unfold div_w. zcases; lia.
Qed.

Lemma div_w_ceil : forall c w, 0 < c ->
  Z.abs (div_w c w) = (Z.abs w + c - 1) / c.
Proof.
  intros c w Hc. destruct (div_w_spec c w Hc) as [[H1 H2]|[[H1 [H2 H3]]|[H1 [H2 H3]]]].
  - rewrite H2, H1. cbn [Z.abs]. symmetry. apply Z.div_small. lia.
  - apply Z.div_unique with (r := Z.abs w + c - 1 - c * Z.abs (div_w c w)); lia.
  - apply Z.div_unique with (r := Z.abs w + c - 1 - c * Z.abs (div_w c w)); lia.
Qed.

Lemma wval_div : forall m v c w, 0 < c -> wval m v w <= c * wval m v (div_w c w).
Proof.
  intros m v c w Hc. pose proof (div_w_spec c w Hc) as H.
  set (w' := div_w c w) in *. clearbody w'. unfold wval.
  destruct (var_val m v); zcases; lia.
Qed.

Lemma set_lhs_div : forall m c ws v, 0 < c ->
  set_lhs m v ws <= c * set_lhs m v (map (div_w c) ws).
Proof.
  intros m c ws v Hc. revert v. induction ws as [|w r IH]; intros v; cbn [map set_lhs]; [lia|].
  pose proof (wval_div m v c w Hc). specialize (IH (v + 1)). lia.
Qed.

Lemma div_card_spec : forall c d, 0 < c -> ~ (- c < d < 0) ->
  c * div_card c d < d + c \/ div_card c d <= 0.
Proof.
  intros c d Hc Hd. unfold div_card. zcases.
  - left. lia.
  - destruct (Z.le_gt_cases 0 d) as [L|L]; [left; lia|right; nia].
Qed.

Lemma div_card_ceil : forall c d, 0 < c -> 0 <= d -> div_card c d = (d + c - 1) / c.
Proof.
  intros c d Hc Hd. unfold div_card. zcases.
  - apply Z.div_unique with (r := c - 1); lia.
  - apply Z.div_unique with (r := Z.rem d c - 1); lia.
Qed.

Lemma divide_sound : forall c s m,
  0 < c -> ~ (- c < snd s < 0) ->
  sat_pbset m s = true -> sat_pbset m (divide_by c s) = true.
Proof.
  intros c [ws d] m Hc Hd H. rewrite sat_pbset_iff in *. unfold divide_by.
  cbn [fst snd] in *.
  pose proof (set_lhs_div m c ws 1 Hc) as HL.
  pose proof (set_lhs_nonneg m (map (div_w c) ws) 1) as Hn.
  destruct (div_card_spec c d Hc Hd) as [Hs|Hs]; [|lia].
  set (L' := set_lhs m 1 (map (div_w c) ws)) in *.
  set (d' := div_card c d) in *. nia.
Qed.

(* As coded, divideBy rounds a negative, non-divisible degree the wrong way
   (trunc(d/c) + 1 = ceil(d/c) + 1): from the trivial 2 x1 >= -1 it derives
   x1 >= 1. *)
Lemma divide_refuted : exists c s m,
  0 < c /\ sat_pbset m s = true /\ sat_pbset m (divide_by c s) = false.
Proof.
  exists 2, ([2], -1), [false]. vm_compute. repeat split.
Qed.

(* the side condition is exactly what is needed *)
Lemma divide_unsound_iff : forall c ws d, 0 < c -> - c < d < 0 ->
  exists m, sat_pbset m (ws, d) = true /\ sat_pbset m (divide_by c (ws, d)) = false.
Proof.
  intros c ws d Hc Hd.
  (* falsify every literal: variable i is false when w_i > 0, true otherwise *)
  exists (map (fun w => w <? 0) ws).
  assert (H0 : forall (f : Z -> Z), (forall w, (f w <? 0) = (w <? 0)) ->
            forall (l : list Z) pre,
            set_lhs (pre ++ map (fun w => w <? 0) l)
                    (Z.of_nat (List.length pre) + 1) (map f l) = 0).
  { intros f Hf l. induction l as [|w r IH]; intros pre; [reflexivity|].
    cbn [map set_lhs].
    replace (pre ++ (w <? 0) :: map (fun w0 => w0 <? 0) r)
      with ((pre ++ [w <? 0]) ++ map (fun w0 => w0 <? 0) r)
      by (rewrite <- app_assoc; reflexivity).
    replace (Z.of_nat (List.length pre) + 1 + 1)
      with (Z.of_nat (List.length (pre ++ [w <? 0])) + 1)
      by (rewrite app_length; cbn [List.length]; lia).
    rewrite IH. unfold wval, var_val.
    replace (Z.to_nat (Z.of_nat (List.length pre) + 1 - 1)) with (List.length pre) by lia.
    rewrite <- app_assoc. cbn [app]. rewrite nth_middle.
    specialize (Hf w). destruct (Z.ltb_spec w 0) as [L|L].
    - destruct (Z.eqb_spec (f w) 0) as [E|E]; [lia|]. rewrite Hf. lia.
    - destruct (Z.eqb_spec (f w) 0) as [E|E]; [lia|]. rewrite Hf. lia. }
  split.
  - apply sat_pbset_iff. cbn [fst snd].
    pose proof (H0 (fun w => w) (fun w => eq_refl) ws []) as H. cbn [List.length app] in H.
    rewrite map_id in H. cbn in H. rewrite H. lia.
  - rewrite sat_pbset_lhs. unfold divide_by. cbn [fst snd].
    assert (Hf : forall w, (div_w c w <? 0) = (w <? 0)).
    { intros w. destruct (div_w_spec c w Hc) as [[H1 H2]|[[H1 [H2 H3]]|[H1 [H2 H3]]]];
        zcases; lia. }
    pose proof (H0 (div_w c) Hf ws []) as H. cbn [List.length app] in H. cbn in H.
    rewrite H. apply Z.leb_gt. unfold div_card. zcases; nia.
Qed.

(* ------------------------------------------------------------------ *)
(* roundToOne                                                           *)

(* the degree left by the weakening loop does not fall in ]-wi, 0[ *)
Definition round_ok (assign : list Z) (locked : nat) (s : pbset) : Prop :=
  let wi := Z.abs (nth locked (fst s) 0) in
  ~ (- wi < snd (weaken_round wi assign s) < 0).

Lemma round_sound : forall assign locked s s' m,
  round_to_one assign locked s = Some s' -> round_ok assign locked s ->
  sat_pbset m s = true -> sat_pbset m s' = true.
Proof.
  intros assign locked s s' m H Hok Hs. unfold round_to_one in H. unfold round_ok in Hok.
  set (wi := Z.abs (nth locked (fst s) 0)) in *.
  destruct (Z.eqb_spec wi 1) as [E1|E1]; [injection H as <-; exact Hs|].
  destruct (Z.eqb_spec wi 0) as [E0|E0]; [discriminate|].
  injection H as <-. apply divide_sound; [unfold wi in *; lia|exact Hok|].
  apply weaken_round_sound. exact Hs.
Qed.

(* As coded (no side condition) roundToOne is unsound: with x1 false and x2
   true, 2 x1 + 3 x2 >= 2, locked = x1: x2 is weakened (2 x1 >= -1) and the
   division by 2 yields x1 >= 1, which the model x1=0, x2=1 of the premise
   violates. *)
Lemma round_refuted : exists assign locked s s' m,
  round_to_one assign locked s = Some s' /\
  sat_pbset m s = true /\ sat_pbset m s' = false.
Proof.
  exists [-1; 1], 0%nat, ([2; 3], 2), ([1; 0], 1), [false; true].
  vm_compute. repeat split.
Qed.

(* When the constraint is conflicting under the assignment (negative slack),
   which is how RoundingSAT uses the rule, the side condition holds. *)
Lemma weaken_ws_slack : forall wi lvl ws assign w k,
  weaken_ws wi assign ws = (w, k) -> k <= slack_ws assign ws lvl.
Proof.
  intros wi lvl ws. induction ws as [|wj r IH]; intros assign w k H.
  - cbn [weaken_ws] in H. injection H as <- <-. cbn [slack_ws]. lia.
  - cbn [weaken_ws] in H. destruct (weaken_ws wi (tl assign) r) as [r' k'] eqn:E.
    specialize (IH (tl assign) r' k' E). cbn [slack_ws].
    destruct (Z.eqb_spec wj 0) as [E0|E0].
    + injection H as <- <-. lia.
    + destruct (not_falsified (hd 0 assign) wj).
      * cbn [orb]. destruct (negb (Z.rem wj wi =? 0)); cbn [andb] in H;
          injection H as <- <-; lia.
      * rewrite andb_false_r in H. injection H as <- <-. cbn [orb].
        destruct (lvl <? Z.abs (hd 0 assign)); lia.
Qed.

Lemma round_ok_of_conflict : forall assign lvl locked s,
  slack assign lvl s < 0 -> round_ok assign locked s.
Proof.
  intros assign lvl locked [ws d] H. unfold round_ok, weaken_round, slack in *.
  cbn [fst snd] in *.
  destruct (weaken_ws (Z.abs (nth locked ws 0)) assign ws) as [w k] eqn:E. cbn [snd].
  pose proof (weaken_ws_slack _ lvl ws assign w k E). lia.
Qed.

(* ------------------------------------------------------------------ *)
(* pbSet / clause round trip                                            *)

Lemma nodup_z_NoDup : forall l, nodup_z l = true -> NoDup l.
Proof.
  induction l as [|x r IH]; cbn [nodup_z]; intros H; [constructor|].
  apply andb_true_iff in H. destruct H as [H1 H2]. constructor; [|exact (IH H2)].
  intros Hin. apply negb_true_iff in H1.
  assert (existsb (Z.eqb x) r = true)
    by (apply existsb_exists; exists x; split; [exact Hin|apply Z.eqb_refl]).
  congruence.
Qed.

Lemma set_nth_length : forall ws k x, List.length (set_nth k x ws) = List.length ws.
Proof.
  induction ws as [|w r IH]; intros k x; [reflexivity|].
  destruct k; cbn [set_nth List.length]; [reflexivity|]. rewrite IH. reflexivity.
Qed.

Lemma nth_set_nth_neq : forall ws k j x, j <> k -> nth j (set_nth k x ws) 0 = nth j ws 0.
Proof.
  induction ws as [|w r IH]; intros k j x H; [reflexivity|].
  destruct k as [|k]; destruct j as [|j]; cbn [set_nth nth]; try reflexivity; try lia.
  apply IH. lia.
Qed.

Lemma set_lhs_set_nth : forall m ws v k x, (k < List.length ws)%nat ->
  set_lhs m v (set_nth k x ws)
  = set_lhs m v ws - wval m (v + Z.of_nat k) (nth k ws 0) + wval m (v + Z.of_nat k) x.
Proof.
  intros m ws. induction ws as [|w r IH]; intros v k x H; [cbn [List.length] in H; lia|].
  destruct k as [|k]; cbn [set_nth nth set_lhs].
  - replace (v + Z.of_nat 0) with v by lia. lia.
  - cbn [List.length] in H. rewrite IH by lia.
    replace (v + 1 + Z.of_nat k) with (v + Z.of_nat (S k)) by lia. lia.
Qed.

Definition signed_w (t : term) : Z := if 0 <? snd t then fst t else - fst t.
Definition upd (ws : list Z) (t : term) : list Z :=
  set_nth (Z.to_nat (Z.abs (snd t) - 1)) (signed_w t) ws.

Lemma wval_term : forall m (t : term), 0 <= fst t -> 1 <= Z.abs (snd t) ->
  wval m (Z.abs (snd t)) (signed_w t) = term_val m t.
Proof.
  intros m [w l] Hw Hl. unfold wval, signed_w, term_val, lit_val. cbn [fst snd] in *.
  destruct (Z.ltb_spec 0 l) as [L|L].
  - rewrite Z.abs_eq by lia. destruct (var_val m l); zcases; lia.
  - rewrite Z.abs_neq by lia. destruct (var_val m (- l)); cbn [negb]; zcases; lia.
Qed.

Lemma fold_upd_lhs : forall m ts ws,
  NoDup (map (fun t : term => Z.abs (snd t)) ts) ->
  (forall t, In t ts ->
     0 <= fst t /\ 1 <= Z.abs (snd t) <= Z.of_nat (List.length ws) /\
     nth (Z.to_nat (Z.abs (snd t) - 1)) ws 0 = 0) ->
  set_lhs m 1 (fold_left upd ts ws) = set_lhs m 1 ws + lhs m ts.
Proof.
  intros m ts. induction ts as [|t ts IH]; intros ws Hnd H; cbn [fold_left lhs map]; [lia|].
  cbn [map] in Hnd. inversion Hnd as [|x l Hnotin Hnd']; subst.
  destruct (H t (or_introl eq_refl)) as [Hw [Hr Hz]].
  rewrite IH.
  - unfold upd. rewrite set_lhs_set_nth by lia. rewrite Hz, wval_0.
    replace (1 + Z.of_nat (Z.to_nat (Z.abs (snd t) - 1))) with (Z.abs (snd t)) by lia.
    rewrite wval_term by lia. lia.
  - exact Hnd'.
  - intros t' Hin. destruct (H t' (or_intror Hin)) as [Hw' [Hr' Hz']].
    unfold upd. rewrite set_nth_length. split; [exact Hw'|]. split; [exact Hr'|].
    rewrite nth_set_nth_neq; [exact Hz'|].
    intros Heq. apply Hnotin. apply in_map_iff. exists t'. split; [lia|exact Hin].
Qed.

Lemma set_lhs_zeros : forall m n v, set_lhs m v (repeat 0 n) = 0.
Proof.
  intros m n. induction n as [|n IH]; intros v; cbn [repeat set_lhs]; [reflexivity|].
  rewrite IH, wval_0. reflexivity.
Qed.

(* clause() of pbSet(c) means the same as c *)
Lemma pbset_roundtrip : forall n c m,
  pbc_ok n c = true -> sat_pbset m (pbset_of n c) = sat_pbc m c.
Proof.
  intros n [ts d] m H. unfold pbc_ok in H. cbn [terms] in H.
  apply andb_true_iff in H. destruct H as [Hnd Hall]. rewrite forallb_forall in Hall.
  rewrite sat_pbset_lhs. unfold pbset_of, sat_pbc. cbn [fst snd terms degree].
  change (fold_left _ ts (repeat 0 n)) with (fold_left upd ts (repeat 0 n)).
  rewrite fold_upd_lhs.
  - rewrite set_lhs_zeros. reflexivity.
  - apply nodup_z_NoDup. exact Hnd.
  - intros t Hin. specialize (Hall t Hin). rewrite repeat_length, nth_repeat. lia.
Qed.

(* ------------------------------------------------------------------ *)
(* Every constraint derived from the problem by the rules is a consequence
   of the problem.                                                       *)

Inductive derivable (n : nat) (P : problem) : pbset -> Prop :=
| D_axiom : forall c, In c P -> pbc_ok n c = true -> derivable n P (pbset_of n c)
| D_clash : forall a b, derivable n P a -> derivable n P b ->
    (List.length (fst b) <= List.length (fst a))%nat -> derivable n P (clash a b)
| D_weaken : forall j a, derivable n P a -> derivable n P (weaken_at j a)
| D_divide : forall c a, derivable n P a -> 0 < c -> ~ (- c < snd a < 0) ->
    derivable n P (divide_by c a)
| D_round : forall assign locked a a', derivable n P a ->
    round_to_one assign locked a = Some a' -> round_ok assign locked a ->
    derivable n P a'.

Lemma derivable_sound : forall n P s, derivable n P s ->
  forall m, sat_problem m P = true -> sat_pbset m s = true.
Proof.
  intros n P s D m HP. induction D as
    [c Hin Hok|a b Da IHa Db IHb Hlen|j a Da IHa|c a Da IHa Hc Hd
     |assign locked a a' Da IHa Hr Hok].
  - rewrite pbset_roundtrip by exact Hok. unfold sat_problem in HP.
    rewrite forallb_forall in HP. exact (HP c Hin).
  - apply clash_sound; assumption.
  - apply weaken_sound. exact IHa.
  - apply divide_sound; assumption.
  - exact (round_sound assign locked a a' m Hr Hok IHa).
Qed.
