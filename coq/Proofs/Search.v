(* Proofs/Search.v -- soundness of every run of the search loop of
   Model/Search.v: the invariant, Unsat answers, Sat answers, no crash; and
   soundness of the executable replay.                                     *)
From Coq Require Import List ZArith Lia Bool Arith Permutation Sorted.
From GS Require Import Spec.Base Spec.PB Model.Rup Proofs.Rup Model.Learn Proofs.Learn Model.Search.
Import ListNotations.
Open Scope Z_scope.

(* ================================================================== *)
(* 0. The side conditions of Model/Search.v are those of Proofs/Learn.v *)

Lemma forces_reason_ok : forall t1 l c, forces t1 l c <-> reason_ok t1 l c.
Proof. intros. unfold forces, reason_ok. tauto. Qed.

Lemma conflicting_confl_ok : forall st lvl c, conflicting st lvl c -> confl_ok st lvl c.
Proof.
  intros st lvl c [[Hnz Hf] [Hnd Hl]]. constructor; auto.
Qed.

Lemma lit_true_bound : forall st l, lit_true st l = true -> s_model st (lvar l) <> 0.
Proof.
  intros st l. unfold lit_true. destruct (s_model st (lvar l) =? 0) eqn:E; simpl; [discriminate|].
  intros _. apply Z.eqb_neq. exact E.
Qed.

Lemma signed_lvl_nz : forall l lv, 1 <= lv -> signed_lvl l lv <> 0.
Proof. intros l lv H. unfold signed_lvl. destruct (0 <? l); lia. Qed.

Lemma lit_true_signed : forall st l lv, l <> 0 -> 1 <= lv ->
  s_model st (lvar l) = signed_lvl l lv -> lit_true st l = true.
Proof.
  intros st l lv Hl Hlv E. unfold lit_true. rewrite E. unfold signed_lvl.
  destruct (0 <? l) eqn:Eh.
  - assert (Hb : (lv =? 0) = false) by (apply Z.eqb_neq; lia). rewrite Hb.
    assert (Hp : (0 <? lv) = true) by (apply Z.ltb_lt; lia). rewrite Hp. reflexivity.
  - assert (Hb : (- lv =? 0) = false) by (apply Z.eqb_neq; lia). rewrite Hb.
    assert (Hp : (0 <? - lv) = false) by (apply Z.ltb_ge; lia). rewrite Hp. reflexivity.
Qed.

(* ================================================================== *)
(* 1. Pushing a literal, undoing levels                                 *)

(* [st2] is [st] with the free literal l bound at level lv >= the current
   one, at the end of the trail; stated pointwise, so that it applies to
   unify_literal, propagate_unit and to the states built by conflict_step *)
Lemma push_state_ok : forall st lvl st2 l lv,
  state_ok st lvl -> lvl <= lv -> 1 <= lv -> l <> 0 -> s_model st (lvar l) = 0 ->
  s_trail st2 = s_trail st ++ [l] ->
  (forall v, s_model st2 v = if v =? lvar l then signed_lvl l lv else s_model st v) ->
  (forall v, v <> lvar l -> s_reason st2 v = s_reason st v) ->
  (forall c, s_reason st2 (lvar l) = Some c -> reason_ok (s_trail st) l c) ->
  state_ok st2 lv.
Proof.
  intros st lvl st2 l lv OK Hle H1 Hl Hfree Htr Hmod Hreas Hrok.
  assert (Hnv : forall t, In t (s_trail st) -> lvar t <> lvar l).
  { intros t Ht E. apply (lit_true_bound st t (ok_true _ _ OK t Ht)). rewrite E. exact Hfree. }
  assert (Hml : s_model st2 (lvar l) = signed_lvl l lv) by (rewrite Hmod, Z.eqb_refl; reflexivity).
  assert (Hmt : forall t, In t (s_trail st) -> s_model st2 (lvar t) = s_model st (lvar t)).
  { intros t Ht. rewrite Hmod. pose proof (Hnv t Ht) as Hne. apply Z.eqb_neq in Hne. rewrite Hne. reflexivity. }
  assert (Hll : lvl_of st2 (lvar l) = lv) by (unfold lvl_of; rewrite Hml; apply abs_signed_lvl; lia).
  assert (Hlt : forall t, In t (s_trail st) -> lvl_of st2 (lvar t) = lvl_of st (lvar t)).
  { intros t Ht. unfold lvl_of. rewrite (Hmt t Ht). reflexivity. }
  constructor; rewrite ?Htr.
  - intros x Hx. apply in_app_or in Hx. destruct Hx as [Hx|[<-|[]]]; [apply (ok_nz _ _ OK); exact Hx|exact Hl].
  - rewrite map_app. apply NoDup_app_disj.
    + exact (ok_nodup _ _ OK).
    + constructor; [intros []|constructor].
    + intros v Hv [<-|[]]. apply in_map_iff in Hv. destruct Hv as [t [Ev Ht]]. exact (Hnv t Ht Ev).
  - intros x Hx. apply in_app_or in Hx. destruct Hx as [Hx|[<-|[]]].
    + pose proof (ok_true _ _ OK x Hx) as Ht. unfold lit_true in *. rewrite (Hmt x Hx). exact Ht.
    + exact (lit_true_signed st2 l lv Hl H1 Hml).
  - intros v Hv. rewrite Hmod in Hv. destruct (v =? lvar l) eqn:Ev.
    + apply Z.eqb_eq in Ev. exists l. split; [apply in_or_app; right; left; reflexivity|auto].
    + destruct (ok_bound _ _ OK v Hv) as [t [Ht Hlv]]. exists t. split; [apply in_or_app; left; exact Ht|exact Hlv].
  - intros t1 t t2 Hd t' Ht'.
    destruct (snoc_split _ _ _ _ _ _ Hd) as [[-> [-> ->]]|[t2' [-> HKd]]].
    + rewrite Hll, (Hlt t' Ht'). pose proof (ok_max _ _ OK t' Ht'). lia.
    + assert (Hi1 : In t (s_trail st)) by (rewrite HKd; apply in_or_app; right; left; reflexivity).
      assert (Hi2 : In t' (s_trail st)) by (rewrite HKd; apply in_or_app; left; exact Ht').
      rewrite (Hlt t Hi1), (Hlt t' Hi2). exact (ok_mono _ _ OK _ _ _ HKd t' Ht').
  - intros x Hx. apply in_app_or in Hx. destruct Hx as [Hx|[<-|[]]].
    + rewrite (Hlt x Hx). pose proof (ok_max _ _ OK x Hx). lia.
    + rewrite Hll. lia.
  - intros t1 t t2 c Hd Hr.
    destruct (snoc_split _ _ _ _ _ _ Hd) as [[-> [-> ->]]|[t2' [-> HKd]]].
    + exact (Hrok c Hr).
    + assert (Hi1 : In t (s_trail st)) by (rewrite HKd; apply in_or_app; right; left; reflexivity).
      rewrite (Hreas _ (Hnv t Hi1)) in Hr. exact (ok_reason _ _ OK _ _ _ _ HKd Hr).
Qed.

(* facts about cleanupBindings *)
Section Cleanup.
Variables (st : lstate) (lvl bl : Z).
Hypothesis OK : state_ok st lvl.

Let K := keep_prefix st bl (s_trail st).
Let D := skipn (length K) (s_trail st).

Lemma cl_trail : s_trail (cleanup_bindings st bl) = K.
Proof. reflexivity. Qed.

Lemma cl_split : s_trail st = K ++ D.
Proof. apply keep_prefix_split. Qed.

Lemma cl_kept : forall t, In t K ->
  In t (s_trail st) /\ lvl_of st (lvar t) <= bl /\
  s_model (cleanup_bindings st bl) (lvar t) = s_model st (lvar t) /\
  s_reason (cleanup_bindings st bl) (lvar t) = s_reason st (lvar t) /\
  lvl_of (cleanup_bindings st bl) (lvar t) = lvl_of st (lvar t).
Proof.
  intros t Ht.
  assert (Hin : In t (s_trail st)) by (rewrite cl_split; apply in_or_app; left; exact Ht).
  pose proof (keep_prefix_le st bl _ _ Ht) as Hle.
  destruct (cleanup_keeps st lvl OK bl t Hin Hle) as [H1 [H2 _]].
  repeat split; auto. unfold lvl_of. rewrite H1. reflexivity.
Qed.

Lemma cl_model : forall v, s_model (cleanup_bindings st bl) v <> 0 ->
  memv v D = false /\ s_model (cleanup_bindings st bl) v = s_model st v /\
  s_reason (cleanup_bindings st bl) v = s_reason st v.
Proof.
  intros v Hv. unfold cleanup_bindings in *. cbn [s_model s_reason] in *. fold K in Hv |- *. fold D in Hv |- *.
  destruct (memv v D); [contradiction Hv; reflexivity|auto].
Qed.

Lemma cl_reason_some : forall v c, s_reason (cleanup_bindings st bl) v = Some c -> s_reason st v = Some c.
Proof.
  intros v c H. unfold cleanup_bindings in H. cbn [s_reason] in H.
  destruct (memv v _); [discriminate|exact H].
Qed.

Lemma cl_free : forall v, s_model (cleanup_bindings st bl) v = 0 ->
  s_model st v = 0 \/ s_reason (cleanup_bindings st bl) v = None.
Proof.
  intros v H. unfold cleanup_bindings in *. cbn [s_model s_reason] in *.
  destruct (memv v _); [right; reflexivity|left; exact H].
Qed.

Theorem cleanup_state_ok : state_ok (cleanup_bindings st bl) bl.
Proof.
  constructor; rewrite ?cl_trail.
  - intros x Hx. apply (ok_nz _ _ OK). apply (cl_kept x Hx).
  - pose proof (ok_nodup _ _ OK) as ND. rewrite cl_split, map_app in ND. exact (NoDup_app_l _ _ _ ND).
  - intros x Hx. destruct (cl_kept x Hx) as [Hin [_ [Hm _]]].
    pose proof (ok_true _ _ OK x Hin) as Ht. unfold lit_true in *. rewrite Hm. exact Ht.
  - intros v Hv. destruct (cl_model v Hv) as [Hd [Hm _]]. rewrite Hm in Hv.
    destruct (ok_bound _ _ OK v Hv) as [t [Ht Hlv]]. exists t. split; [|exact Hlv].
    rewrite cl_split in Ht. apply in_app_or in Ht. destruct Ht as [Ht|Ht]; [exact Ht|exfalso].
    assert (memv v D = true) by (apply memv_spec; exists t; auto). congruence.
  - intros t1 t t2 Hd t' Ht'.
    assert (Hi1 : In t K) by (rewrite Hd; apply in_or_app; right; left; reflexivity).
    assert (Hi2 : In t' K) by (rewrite Hd; apply in_or_app; left; exact Ht').
    destruct (cl_kept t Hi1) as [_ [_ [_ [_ E1]]]]. destruct (cl_kept t' Hi2) as [_ [_ [_ [_ E2]]]].
    rewrite E1, E2. apply (ok_mono _ _ OK t1 t (t2 ++ D)); [|exact Ht'].
    rewrite cl_split, Hd, <- app_assoc. reflexivity.
  - intros x Hx. destruct (cl_kept x Hx) as [_ [Hle [_ [_ E]]]]. rewrite E. exact Hle.
  - intros t1 t t2 c Hd Hr.
    apply (ok_reason _ _ OK t1 t (t2 ++ D) c).
    + rewrite cl_split, Hd, <- app_assoc. reflexivity.
    + exact (cl_reason_some _ _ Hr).
Qed.

End Cleanup.

(* ================================================================== *)
(* 2. The invariant of the search                                       *)

Section Search.
Variable P : problem.
Variable n : nat.
Variable A : list lit.      (* the assumed literals *)

Definition entailed (c : pbc) : Prop := forall m, sat_problem m P = true -> sat_pbc m c = true.
Definition entailed_lit (l : lit) : Prop := forall m, sat_problem m P = true -> lit_val m l = true.

Record inv (st : lstate) (L : list pbc) (lvl : Z) : Prop := {
  i_ok : state_ok st lvl;
  i_lvl : 1 <= lvl;
  (* every reason on the trail is a constraint of the problem or a learned clause *)
  i_reasons : forall t c, In t (s_trail st) -> s_reason st (lvar t) = Some c -> In c (P ++ L);
  (* every learned clause follows from the problem *)
  i_learned : forall c, In c L -> entailed c;
  (* every reason-less, non-assumed literal of level 1 follows from the problem *)
  i_facts : forall t, In t (s_trail st) -> s_reason st (lvar t) = None ->
            s_assumptions st (lvar t) = false -> lvl_of st (lvar t) = 1 -> entailed_lit t;
  (* a decision is the first literal of its level *)
  i_dec : forall t1 t t2, s_trail st = t1 ++ t :: t2 -> s_reason st (lvar t) = None ->
          2 <= lvl_of st (lvar t) -> forall t', In t' t1 -> lvl_of st (lvar t') < lvl_of st (lvar t);
  (* an unbound variable has no reason *)
  i_free : forall v, s_model st v = 0 -> s_reason st v = None;
  (* the variables flagged as assumed are those of the assumed literals, which
     sit at level 1 without reason *)
  i_asm : forall v, s_assumptions st v = true ->
          exists t, In t (s_trail st) /\ lvar t = v /\ In t A /\ lvl_of st v = 1 /\ s_reason st v = None;
  (* ... and they stay on the trail *)
  i_A : forall a, In a A -> In a (s_trail st) /\ lvl_of st (lvar a) = 1
}.

Lemma entailed_db : forall st L lvl c, inv st L lvl -> In c (P ++ L) -> entailed c.
Proof.
  intros st L lvl c I Hc. apply in_app_or in Hc. destruct Hc as [Hc|Hc].
  - intros m Hm. unfold sat_problem in Hm. rewrite forallb_forall in Hm. exact (Hm c Hc).
  - exact (i_learned _ _ _ I c Hc).
Qed.

Lemma inv_push : forall st L lvl st2 l lv,
  inv st L lvl -> lvl <= lv -> l <> 0 -> s_model st (lvar l) = 0 ->
  s_trail st2 = s_trail st ++ [l] ->
  (forall v, s_model st2 v = if v =? lvar l then signed_lvl l lv else s_model st v) ->
  (forall v, v <> lvar l -> s_reason st2 v = s_reason st v) ->
  (forall v, s_assumptions st2 v = s_assumptions st v) ->
  match s_reason st2 (lvar l) with
  | Some c => In c (P ++ L) /\ reason_ok (s_trail st) l c
  | None => (lv = 1 -> entailed_lit l) /\ (2 <= lv -> lvl < lv)
  end ->
  inv st2 L lv.
Proof.
  intros st L lvl st2 l lv I Hle Hl Hfree Htr Hmod Hreas Hasm Hnew.
  pose proof (i_ok _ _ _ I) as OK. pose proof (i_lvl _ _ _ I) as H1.
  assert (Hnv : forall t, In t (s_trail st) -> lvar t <> lvar l).
  { intros t Ht E. apply (lit_true_bound st t (ok_true _ _ OK t Ht)). rewrite E. exact Hfree. }
  assert (Hml : s_model st2 (lvar l) = signed_lvl l lv) by (rewrite Hmod, Z.eqb_refl; reflexivity).
  assert (Hmv : forall v, v <> lvar l -> s_model st2 v = s_model st v).
  { intros v Hv. rewrite Hmod. apply Z.eqb_neq in Hv. rewrite Hv. reflexivity. }
  assert (Hll : lvl_of st2 (lvar l) = lv) by (unfold lvl_of; rewrite Hml; apply abs_signed_lvl; lia).
  assert (Hlt : forall t, In t (s_trail st) -> lvl_of st2 (lvar t) = lvl_of st (lvar t)).
  { intros t Ht. unfold lvl_of. rewrite (Hmv _ (Hnv t Ht)). reflexivity. }
  constructor.
  - apply (push_state_ok st lvl st2 l lv); auto; try lia.
    intros c Hc. rewrite Hc in Hnew. apply Hnew.
  - lia.
  - intros t c Ht Hr. rewrite Htr in Ht. apply in_app_or in Ht. destruct Ht as [Ht|[<-|[]]].
    + rewrite (Hreas _ (Hnv t Ht)) in Hr. exact (i_reasons _ _ _ I t c Ht Hr).
    + rewrite Hr in Hnew. apply Hnew.
  - exact (i_learned _ _ _ I).
  - intros t Ht Hr Ha Hlv. rewrite Htr in Ht. apply in_app_or in Ht. destruct Ht as [Ht|[<-|[]]].
    + rewrite (Hreas _ (Hnv t Ht)) in Hr. rewrite Hasm in Ha. rewrite (Hlt t Ht) in Hlv.
      exact (i_facts _ _ _ I t Ht Hr Ha Hlv).
    + rewrite Hr in Hnew. apply Hnew. rewrite <- Hll. exact Hlv.
  - intros t1 t t2 Hd Hr Hge t' Ht'. rewrite Htr in Hd.
    destruct (snoc_split _ _ _ _ _ _ Hd) as [[-> [-> ->]]|[t2' [-> HKd]]].
    + rewrite Hr in Hnew. rewrite Hll in *. rewrite (Hlt t' Ht').
      pose proof (ok_max _ _ OK t' Ht'). destruct Hnew as [_ Hn]. specialize (Hn Hge). lia.
    + assert (Hi1 : In t (s_trail st)) by (rewrite HKd; apply in_or_app; right; left; reflexivity).
      assert (Hi2 : In t' (s_trail st)) by (rewrite HKd; apply in_or_app; left; exact Ht').
      rewrite (Hreas _ (Hnv t Hi1)) in Hr. rewrite (Hlt t Hi1) in *. rewrite (Hlt t' Hi2).
      exact (i_dec _ _ _ I _ _ _ HKd Hr Hge t' Ht').
  - intros v Hv. destruct (Z.eq_dec v (lvar l)) as [->|Hne].
    + exfalso. rewrite Hml in Hv. exact (signed_lvl_nz l lv ltac:(lia) Hv).
    + rewrite (Hreas v Hne). apply (i_free _ _ _ I). rewrite <- (Hmv v Hne). exact Hv.
  - intros v Hv. rewrite Hasm in Hv. destruct (i_asm _ _ _ I v Hv) as [t [Ht [Ev [HA [Hlv Hr]]]]].
    assert (Hne : v <> lvar l) by (rewrite <- Ev; apply Hnv; exact Ht).
    exists t. split; [rewrite Htr; apply in_or_app; left; exact Ht|]. split; [exact Ev|]. split; [exact HA|].
    split; [unfold lvl_of in *; rewrite (Hmv v Hne); exact Hlv|rewrite (Hreas v Hne); exact Hr].
  - intros a Ha. destruct (i_A _ _ _ I a Ha) as [Hin Hlv].
    split; [rewrite Htr; apply in_or_app; left; exact Hin|]. rewrite (Hlt a Hin). exact Hlv.
Qed.

Lemma inv_cleanup : forall st L lvl bl, inv st L lvl -> 1 <= bl -> inv (cleanup_bindings st bl) L bl.
Proof.
  intros st L lvl bl I Hbl. pose proof (i_ok _ _ _ I) as OK.
  constructor.
  - exact (cleanup_state_ok st lvl bl OK).
  - exact Hbl.
  - intros t c Ht Hr. rewrite cl_trail in Ht. destruct (cl_kept st lvl bl OK t Ht) as [Hin _].
    exact (i_reasons _ _ _ I t c Hin (cl_reason_some st bl _ _ Hr)).
  - exact (i_learned _ _ _ I).
  - intros t Ht Hr Ha Hlv. rewrite cl_trail in Ht.
    destruct (cl_kept st lvl bl OK t Ht) as [Hin [_ [_ [Er El]]]].
    rewrite Er in Hr. rewrite El in Hlv. exact (i_facts _ _ _ I t Hin Hr Ha Hlv).
  - intros t1 t t2 Hd Hr Hge t' Ht'. rewrite cl_trail in Hd.
    assert (Hi1 : In t (keep_prefix st bl (s_trail st))) by (rewrite Hd; apply in_or_app; right; left; reflexivity).
    assert (Hi2 : In t' (keep_prefix st bl (s_trail st))) by (rewrite Hd; apply in_or_app; left; exact Ht').
    destruct (cl_kept st lvl bl OK t Hi1) as [_ [_ [_ [Er El]]]].
    destruct (cl_kept st lvl bl OK t' Hi2) as [_ [_ [_ [_ El']]]].
    rewrite Er in Hr. rewrite El in *. rewrite El'.
    apply (i_dec _ _ _ I t1 t (t2 ++ skipn (length (keep_prefix st bl (s_trail st))) (s_trail st))); auto.
    rewrite (cl_split st bl) at 1. rewrite Hd, <- app_assoc. reflexivity.
  - intros v Hv. destruct (cl_free st bl v Hv) as [H|H]; [|exact H].
    pose proof (i_free _ _ _ I v H) as Hn.
    destruct (s_reason (cleanup_bindings st bl) v) as [c|] eqn:E; [|reflexivity].
    rewrite (cl_reason_some st bl _ _ E) in Hn. discriminate.
  - intros v Hv. change (s_assumptions st v = true) in Hv.
    destruct (i_asm _ _ _ I v Hv) as [t [Ht [Ev [HA [Hlv Hr]]]]].
    assert (Hle : lvl_of st (lvar t) <= bl) by (rewrite Ev, Hlv; exact Hbl).
    destruct (cleanup_keeps st lvl OK bl t Ht Hle) as [H1 [H2 H3]]. rewrite Ev in H1, H2.
    exists t. split; [exact H3|]. split; [exact Ev|]. split; [exact HA|].
    split; [unfold lvl_of in *; rewrite H1; exact Hlv|rewrite H2; exact Hr].
  - intros a Ha. destruct (i_A _ _ _ I a Ha) as [Hin Hlv].
    assert (Hle : lvl_of st (lvar a) <= bl) by lia.
    destruct (cleanup_keeps st lvl OK bl a Hin Hle) as [H1 [_ H3]].
    split; [exact H3|]. unfold lvl_of in *. rewrite H1. exact Hlv.
Qed.

Lemma inv_learn : forall st L lvl c, inv st L lvl -> entailed c -> inv st (c :: L) lvl.
Proof.
  intros st L lvl c I Hc. destruct I. constructor; auto.
  - intros t r Ht Hr. specialize (i_reasons0 t r Ht Hr). apply in_app_or in i_reasons0.
    apply in_or_app. destruct i_reasons0; [left|right; right]; assumption.
  - intros r [<-|Hr]; auto.
Qed.

Lemma inv_forget : forall st L lvl L', inv st L lvl -> incl L' L ->
  (forall t c, In t (s_trail st) -> s_reason st (lvar t) = Some c -> In c (P ++ L')) ->
  inv st L' lvl.
Proof.
  intros st L lvl L' I Hi Hr. destruct I. constructor; auto.
Qed.

(* ================================================================== *)
(* 3. The conflict branch                                               *)

Lemma cs_jump : forall c lvl st st' bl h cl, conflict_step c lvl st = OJump st' bl h cl ->
  learn_clause c lvl st = LearnedClause cl /\ backtrack_data st cl = (bl, h) /\
  st' = LState (s_trail (cleanup_bindings st bl)) (s_model (cleanup_bindings st bl))
               (fun v => if v =? lvar h then Some (clause_pbc cl) else s_reason (cleanup_bindings st bl) v)
               (s_assumptions (cleanup_bindings st bl)).
Proof.
  intros c lvl st st' bl h cl H. unfold conflict_step, conflict_step_gen in H.
  change (learn_clause_gen sort_literals c lvl st) with (learn_clause c lvl st) in H.
  destruct (learn_clause c lvl st) as [c0|u0| |]; try discriminate.
  - destruct (backtrack_data st c0) as [b l] eqn:Eb. inversion H; subst. auto.
  - destruct ((lvl_of st (lvar u0) =? 1) && lit_false st u0); discriminate.
Qed.

Lemma cs_unit : forall c lvl st st' u, conflict_step c lvl st = OUnit st' u ->
  learn_clause c lvl st = LearnedUnit u /\
  ((lvl_of st (lvar u) =? 1) && lit_false st u = false) /\
  st' = LState (s_trail (cleanup_bindings st 1))
               (fun v => if v =? lvar u then signed_lvl u 1 else s_model (cleanup_bindings st 1) v)
               (s_reason (cleanup_bindings st 1)) (s_assumptions (cleanup_bindings st 1)).
Proof.
  intros c lvl st st' u H. unfold conflict_step, conflict_step_gen in H.
  change (learn_clause_gen sort_literals c lvl st) with (learn_clause c lvl st) in H.
  destruct (learn_clause c lvl st) as [c0|u0| |]; try discriminate;
    try (destruct (backtrack_data st c0); discriminate).
  destruct ((lvl_of st (lvar u0) =? 1) && lit_false st u0) eqn:E; [discriminate|].
  inversion H; subst. auto.
Qed.

Lemma cs_unsat : forall c lvl st, conflict_step c lvl st = OUnsat ->
  learn_clause c lvl st = TopLevelConflict \/
  exists u, learn_clause c lvl st = LearnedUnit u /\ lvl_of st (lvar u) = 1 /\ lit_false st u = true.
Proof.
  intros c lvl st H. unfold conflict_step, conflict_step_gen in H.
  change (learn_clause_gen sort_literals c lvl st) with (learn_clause c lvl st) in H.
  destruct (learn_clause c lvl st) as [c0|u0| |]; try discriminate; auto;
    try (destruct (backtrack_data st c0); discriminate).
  destruct ((lvl_of st (lvar u0) =? 1) && lit_false st u0) eqn:E; [|discriminate].
  apply andb_true_iff in E. destruct E as [E1 E2]. apply Z.eqb_eq in E1. right. exists u0. auto.
Qed.

Lemma cs_panic : forall c lvl st, conflict_step c lvl st = OPanic -> learn_clause c lvl st = LearnPanic.
Proof.
  intros c lvl st H. unfold conflict_step, conflict_step_gen in H.
  change (learn_clause_gen sort_literals c lvl st) with (learn_clause c lvl st) in H.
  destruct (learn_clause c lvl st) as [c0|u0| |]; try discriminate; auto;
    try (destruct (backtrack_data st c0); discriminate).
  destruct ((lvl_of st (lvar u0) =? 1) && lit_false st u0); discriminate.
Qed.

(* what is learned follows from the problem alone: no assumption is used *)
Lemma learned_entailed : forall st L lvl c, inv st L lvl -> In c (P ++ L) -> confl_ok st lvl c ->
  forall cl, learned_lits (learn_clause c lvl st) = Some cl ->
  forall m, sat_problem m P = true -> sat_clause m cl = true.
Proof.
  intros st L lvl c I Hc CF cl Hl m Hm.
  apply (learn_assumptions st lvl c (i_ok _ _ _ I) CF (fun m => sat_problem m P = true)); auto.
  - intros m0 H0. exact (entailed_db st L lvl c I Hc m0 H0).
  - intros t r Ht Hr m0 H0. exact (entailed_db st L lvl r I (i_reasons _ _ _ I t r Ht Hr) m0 H0).
  - intros t Ht Hr Ha Hlv m0 H0. exact (i_facts _ _ _ I t Ht Hr Ha Hlv m0 H0).
  - exact (i_dec _ _ _ I).
Qed.

Lemma inv_conflict_jump : forall st L lvl c st' bl h cl,
  inv st L lvl -> In c (P ++ L) -> confl_ok st lvl c ->
  conflict_step c lvl st = OJump st' bl h cl ->
  inv (unify_literal st' h bl) (clause_pbc cl :: L) bl.
Proof.
  intros st L lvl c st' bl h cl I Hc CF Hstep. pose proof (i_ok _ _ _ I) as OK.
  destruct (cs_jump _ _ _ _ _ _ _ Hstep) as [Hlc [Hbd Est]].
  destruct (conflict_step_ok st lvl c OK CF st' bl h cl Hstep) as [_ [Hcr _]].
  assert (HLL : learned_lits (learn_clause c lvl st) = Some cl) by (rewrite Hlc; reflexivity).
  destruct (learn_backjump st lvl c OK CF cl Hlc) as (h0 & x & r & Ecl & Hbd' & Hh & Hx & _).
  rewrite Hbd in Hbd'. injection Hbd' as Ebl Eh. subst h0.
  destruct (learn_asserting st lvl c OK CF cl HLL) as (h1 & tl1 & E1 & Hht & _).
  rewrite Ecl in E1. injection E1 as <- _.
  destruct (learn_falsified st lvl c OK CF cl HLL h) as [Hhnz _]; [rewrite Ecl; left; reflexivity|].
  assert (Hent : entailed (clause_pbc cl)).
  { intros m Hm. rewrite sat_clause_pbc. exact (learned_entailed st L lvl c I Hc CF cl HLL m Hm). }
  assert (I1 : inv (cleanup_bindings st bl) (clause_pbc cl :: L) bl).
  { apply inv_learn; [|exact Hent]. apply (inv_cleanup st L lvl bl I). lia. }
  assert (Hfree : s_model (cleanup_bindings st bl) (lvar h) = 0).
  { assert (Hgt : bl < lvl_of st (lvar (- h))) by (rewrite lvar_opp; lia).
    destruct (cleanup_unbinds st bl (- h) Hht Hgt) as [H _]. rewrite lvar_opp in H. exact H. }
  apply (inv_push (cleanup_bindings st bl) (clause_pbc cl :: L) bl (unify_literal st' h bl) h bl I1);
    try (rewrite Est; reflexivity); auto; try lia.
  - intros v Hv. rewrite Est. cbn [unify_literal s_reason]. apply Z.eqb_neq in Hv. rewrite Hv. reflexivity.
  - rewrite Est. cbn [unify_literal s_reason]. rewrite Z.eqb_refl. split; [apply in_or_app; right; left; reflexivity|].
    apply clause_reason_is_reason. rewrite Est in Hcr. exact Hcr.
Qed.

Lemma inv_conflict_unit : forall st L lvl c st' u,
  inv st L lvl -> In c (P ++ L) -> confl_ok st lvl c ->
  conflict_step c lvl st = OUnit st' u ->
  inv (unify_literal st' u 1) L 1.
Proof.
  intros st L lvl c st' u I Hc CF Hstep. pose proof (i_ok _ _ _ I) as OK.
  destruct (cs_unit _ _ _ _ _ Hstep) as [Hlc [Hnot Est]].
  assert (HLL : learned_lits (learn_clause c lvl st) = Some [u]) by (rewrite Hlc; reflexivity).
  destruct (learn_asserting st lvl c OK CF [u] HLL) as (h1 & tl1 & E1 & Hut & Hul & _).
  injection E1 as <- _.
  destruct (learn_falsified st lvl c OK CF [u] HLL u (or_introl eq_refl)) as [Hunz Huf].
  rewrite Huf, andb_true_r in Hnot. apply Z.eqb_neq in Hnot.
  pose proof (trail_lvl_pos st lvl OK _ Hut) as Hpos. rewrite lvar_opp in Hpos.
  assert (I1 : inv (cleanup_bindings st 1) L 1) by (apply (inv_cleanup st L lvl 1 I); lia).
  assert (Hgt : 1 < lvl_of st (lvar (- u))) by (rewrite lvar_opp; lia).
  destruct (cleanup_unbinds st 1 (- u) Hut Hgt) as [Hfree Hnr]. rewrite lvar_opp in Hfree, Hnr.
  apply (inv_push (cleanup_bindings st 1) L 1 (unify_literal st' u 1) u 1 I1);
    try (rewrite Est; reflexivity); auto; try lia.
  - intros v. rewrite Est. cbn [unify_literal s_model]. destruct (v =? lvar u); reflexivity.
  - rewrite Est. cbn [unify_literal s_reason]. rewrite Hnr. split; [|lia].
    intros _ m Hm. pose proof (learned_entailed st L lvl c I Hc CF [u] HLL m Hm) as Hs.
    unfold sat_clause in Hs. cbn [existsb] in Hs. rewrite orb_false_r in Hs. exact Hs.
Qed.


(* ================================================================== *)
(* 4. Answers                                                           *)

(* every literal of level 1 holds in the models of the problem that satisfy
   the assumptions *)
Lemma level1_entailed : forall st L lvl, inv st L lvl ->
  forall m, sat_problem m P = true -> (forall a, In a A -> lit_val m a = true) ->
  forall t, In t (s_trail st) -> lvl_of st (lvar t) = 1 -> lit_val m t = true.
Proof.
  intros st L lvl I m Hm HA. pose proof (i_ok _ _ _ I) as OK.
  apply (trail_order_ind (fun t => lvl_of st (lvar t) = 1 -> lit_val m t = true)).
  intros t1 t t2 Hsp IH Hl.
  assert (Ht : In t (s_trail st)) by (rewrite Hsp; apply in_or_app; right; left; reflexivity).
  destruct (s_reason st (lvar t)) as [c|] eqn:Er.
  - destruct (ok_reason _ _ OK _ _ _ _ Hsp Er) as [Hnz Hent].
    pose proof (entailed_db st L lvl c I (i_reasons _ _ _ I t c Ht Er) m Hm) as Hs.
    destruct (Hent m Hs) as [Hv|[x [Hx [Hx1 Hv]]]]; [exact Hv|exfalso].
    assert (Hxt : In (- x) (s_trail st)) by (rewrite Hsp; apply in_or_app; left; exact Hx1).
    pose proof (ok_mono _ _ OK _ _ _ Hsp _ Hx1) as Hle.
    pose proof (trail_lvl_pos st lvl OK _ Hxt) as Hpos.
    assert (Hv' : lit_val m (- x) = true) by (apply IH; [exact Hx1|lia]).
    rewrite lit_val_opp in Hv' by (apply Hnz; exact Hx). rewrite Hv in Hv'. discriminate.
  - destruct (s_assumptions st (lvar t)) eqn:Ea.
    + destruct (i_asm _ _ _ I _ Ea) as [t' [Ht' [Ev [HA' _]]]].
      rewrite <- (trail_var_inj st lvl OK t' t Ht' Ht Ev). exact (HA t' HA').
    + exact (i_facts _ _ _ I t Ht Er Ea Hl m Hm).
Qed.

Lemma top_conflict_unsat : forall st L c, inv st L 1 -> In c (P ++ L) -> falsified st c ->
  forall m, sat_problem m P = true -> (forall a, In a A -> lit_val m a = true) -> False.
Proof.
  intros st L c I Hc [Hnz Hf] m Hm HA. pose proof (i_ok _ _ _ I) as OK.
  destruct (Hf m (entailed_db st L 1 c I Hc m Hm)) as [x [Hx [Hfx Hv]]].
  pose proof (false_on_trail st 1 OK x (Hnz x Hx) Hfx) as Hxt.
  pose proof (ok_max _ _ OK _ Hxt) as Hle. pose proof (trail_lvl_pos st 1 OK _ Hxt) as Hpos.
  assert (Hv' : lit_val m (- x) = true) by (apply (level1_entailed st L 1 I m Hm HA); [exact Hxt|lia]).
  rewrite lit_val_opp in Hv' by (apply Hnz; exact Hx). rewrite Hv in Hv'. discriminate.
Qed.

Lemma conflict_unsat : forall st L lvl c, inv st L lvl -> In c (P ++ L) -> confl_ok st lvl c ->
  conflict_step c lvl st = OUnsat ->
  forall m, sat_problem m P = true -> (forall a, In a A -> lit_val m a = true) -> False.
Proof.
  intros st L lvl c I Hc CF Hstep m Hm HA. pose proof (i_ok _ _ _ I) as OK.
  destruct (cs_unsat _ _ _ Hstep) as [Htop|[u [Hlc [Hl1 Hfu]]]].
  - destruct (learn_top st lvl c OK CF Htop) as [t [Ht [Ha Hl]]].
    destruct (i_asm _ _ _ I _ Ha) as [_ [_ [_ [_ [Hl1 _]]]]].
    assert (E : lvl = 1) by lia. clear Hl. subst lvl.
    apply (top_conflict_unsat st L c I Hc) with (m := m); auto.
    split; [exact (cf_nz _ _ _ CF)|exact (cf_false _ _ _ CF)].
  - assert (HLL : learned_lits (learn_clause c lvl st) = Some [u]) by (rewrite Hlc; reflexivity).
    pose proof (learned_entailed st L lvl c I Hc CF [u] HLL m Hm) as Hs.
    unfold sat_clause in Hs. cbn [existsb] in Hs. rewrite orb_false_r in Hs.
    destruct (learn_falsified st lvl c OK CF [u] HLL u (or_introl eq_refl)) as [Hunz _].
    pose proof (false_on_trail st lvl OK u Hunz Hfu) as Hut.
    assert (Hv' : lit_val m (- u) = true).
    { apply (level1_entailed st L lvl I m Hm HA); [exact Hut|rewrite lvar_opp; exact Hl1]. }
    rewrite lit_val_opp in Hv' by exact Hunz. rewrite Hs in Hv'. discriminate.
Qed.

(* ---- the model read off the bindings ---- *)
Lemma read_model_length : forall st, length (read_model n st) = n.
Proof. intros st. unfold read_model. rewrite map_length, seq_length. reflexivity. Qed.

Lemma read_model_var : forall st v, 1 <= v <= Z.of_nat n ->
  var_val (read_model n st) v = (0 <? s_model st v).
Proof.
  intros st v Hv. unfold var_val, read_model.
  assert (Hlt : (Z.to_nat (v - 1) < n)%nat) by lia.
  rewrite (nth_indep _ false (0 <? s_model st (Z.of_nat (S 0)))) by (rewrite map_length, seq_length; exact Hlt).
  rewrite (map_nth (fun i => 0 <? s_model st (Z.of_nat (S i))) (seq 0 n) 0%nat).
  rewrite seq_nth by exact Hlt. cbn [plus]. f_equal. f_equal. lia.
Qed.

Lemma read_model_lit : forall st x, 1 <= lvar x <= Z.of_nat n -> s_model st (lvar x) <> 0 ->
  lit_val (read_model n st) x = negb (lit_false st x).
Proof.
  intros st x Hr Hb. unfold lit_val, lit_false. apply Z.eqb_neq in Hb. rewrite Hb. cbn [negb andb].
  unfold lvar in *. destruct (0 <? x) eqn:E; [apply Z.ltb_lt in E|apply Z.ltb_ge in E].
  - rewrite Z.abs_eq in * by lia. rewrite read_model_var by lia.
    destruct (0 <? s_model st x); reflexivity.
  - assert (x <> 0) by lia. rewrite Z.abs_neq in * by lia. rewrite read_model_var by lia.
    destruct (0 <? s_model st (- x)); reflexivity.
Qed.

Lemma read_model_lhs : forall st ts,
  (forall t, In t ts -> 1 <= lvar (snd t) <= Z.of_nat n /\ s_model st (lvar (snd t)) <> 0) ->
  lhs (read_model n st) ts = wsum (filter (fun t => negb (lit_false st (snd t))) ts).
Proof.
  intros st. induction ts as [|t ts IH]; intros H; [reflexivity|].
  cbn [lhs filter]. unfold term_val. destruct (H t (or_introl eq_refl)) as [Hr Hb].
  rewrite (read_model_lit st (snd t) Hr Hb). rewrite IH by (intros t' Ht'; apply H; right; exact Ht').
  destruct (lit_false st (snd t)); cbn [negb wsum]; lia.
Qed.

Lemma answer_sat_sound : forall st, vars_in n P -> all_assigned n st ->
  (forall c, In c P -> degree c <= nonfalse_sum st c) ->
  sat_problem (read_model n st) P = true.
Proof.
  intros st Hin Hall Hnf. unfold sat_problem. apply forallb_forall. intros c Hc.
  unfold sat_pbc. apply Z.leb_le. rewrite read_model_lhs; [exact (Hnf c Hc)|].
  intros t Ht. assert (Hx : In (snd t) (c_lits c)) by (unfold c_lits; apply in_map; exact Ht).
  pose proof (Hin c _ Hc Hx) as Hr. split; [exact Hr|apply Hall; exact Hr].
Qed.

(* ================================================================== *)
(* 5. Every run                                                         *)

Definition cinv (cf : config) : Prop :=
  match cf with
  | Running s => inv (ss_st s) (ss_learned s) (ss_lvl s)
  | Final AUnsat =>
    forall m, sat_problem m P = true -> (forall a, In a A -> lit_val m a = true) -> False
  | Final (ASat m) =>
    vars_in n P ->
    length m = n /\ sat_problem m P = true /\
    forall a, In a A -> 1 <= lvar a <= Z.of_nat n -> lit_val m a = true
  | Crashed => False
  end.

Lemma step_cinv : forall a b, cinv a -> step P n a b -> cinv b.
Proof.
  intros a b Ha Hs. destruct Hs; cbn [cinv ss_st ss_learned ss_lvl] in *.
  - (* decide *)
    pose proof (i_lvl _ _ _ Ha) as H1.
    apply (inv_push st L lvl (unify_literal st l (lvl + 1)) l (lvl + 1) Ha); auto; try lia.
    cbn [unify_literal s_reason]. rewrite (i_free _ _ _ Ha _ H0). split; lia.
  - (* propagate *)
    apply (inv_push st L lvl (propagate_unit st c lvl l) l lvl Ha); auto; try lia.
    + intros v Hv. cbn [propagate_unit s_reason]. apply Z.eqb_neq in Hv. rewrite Hv. reflexivity.
    + cbn [propagate_unit s_reason]. rewrite Z.eqb_refl. split; [exact H|]. apply forces_reason_ok. exact H2.
  - exact (inv_conflict_jump st L lvl c st' bl h cl Ha H (conflicting_confl_ok _ _ _ H0) H1).
  - exact (inv_conflict_unit st L lvl c st' u Ha H (conflicting_confl_ok _ _ _ H0) H1).
  - exact (conflict_unsat st L lvl c Ha H (conflicting_confl_ok _ _ _ H0) H1).
  - apply cs_panic in H1.
    exact (learn_no_panic st lvl c (i_ok _ _ _ Ha) (conflicting_confl_ok _ _ _ H0) H1).
  - exact (top_conflict_unsat st L c Ha H H0).
  - apply (inv_cleanup st L lvl 1 Ha). lia.
  - exact (inv_forget st L lvl L' Ha H H0).
  - intros Hin. split; [apply read_model_length|]. split; [exact (answer_sat_sound st Hin H H0)|].
    intros x Hx Hr. destruct (i_A _ _ _ Ha x Hx) as [Hxt _].
    pose proof (ok_true _ _ (i_ok _ _ _ Ha) x Hxt) as Ht.
    rewrite read_model_lit by (auto using lit_true_bound).
    apply negb_true_iff. destruct (lit_false st x) eqn:E; [|reflexivity].
    exfalso. exact (lit_true_false st x Ht E).
Qed.

Lemma run_cinv : forall a b, cinv a -> run P n a b -> cinv b.
Proof.
  intros a b Ha Hr. induction Hr as [a|a b c Hr IH Hs]; [exact Ha|].
  apply (step_cinv b c); [apply IH; exact Ha|exact Hs].
Qed.

(* ---- the initial configuration ---- *)
Lemma find_nodup : forall tr l, NoDup (map lvar tr) -> In l tr ->
  find (fun x => lvar x =? lvar l) tr = Some l.
Proof.
  induction tr as [|y tr IH]; intros l ND Hl; [destruct Hl|]. cbn [find map] in *.
  inversion ND as [|? ? Hn ND']; subst. destruct Hl as [->|Hl].
  - rewrite Z.eqb_refl. reflexivity.
  - destruct (lvar y =? lvar l) eqn:E; [|auto].
    apply Z.eqb_eq in E. exfalso. apply Hn. rewrite E. apply in_map. exact Hl.
Qed.

Lemma inv_init : forall units,
  (forall l, In l (units ++ A) -> l <> 0) -> NoDup (map lvar (units ++ A)) ->
  (forall u, In u units -> entailed_lit u) ->
  inv (init_lstate units A) [] 1.
Proof.
  intros units Hnz ND Hent. set (tr := units ++ A) in *.
  assert (Hm : forall l, In l tr -> s_model (init_lstate units A) (lvar l) = signed_lvl l 1).
  { intros l Hl. cbn [init_lstate s_model]. unfold init_model. fold tr. rewrite (find_nodup tr l ND Hl). reflexivity. }
  assert (Hlv : forall l, In l tr -> lvl_of (init_lstate units A) (lvar l) = 1).
  { intros l Hl. unfold lvl_of. rewrite (Hm l Hl). apply abs_signed_lvl. lia. }
  constructor; cbn [init_lstate s_trail s_reason s_assumptions]; fold tr.
  - constructor; cbn [init_lstate s_trail s_reason]; fold tr.
    + exact Hnz.
    + exact ND.
    + intros l Hl. apply (lit_true_signed _ l 1); [apply Hnz; exact Hl|lia|exact (Hm l Hl)].
    + intros v Hv. cbn [init_lstate s_model] in Hv. unfold init_model in Hv. fold tr in Hv.
      destruct (find (fun l => lvar l =? v) tr) as [l|] eqn:Ef; [|contradiction Hv; reflexivity].
      apply find_some in Ef. destruct Ef as [Hl E]. apply Z.eqb_eq in E. exists l. auto.
    + intros t1 l t2 E l' Hl'.
      rewrite !Hlv; [lia| |]; rewrite E; apply in_or_app; [right; left; reflexivity|left; exact Hl'].
    + intros l Hl. rewrite (Hlv l Hl). lia.
    + discriminate.
  - lia.
  - discriminate.
  - intros c [].
  - intros t Ht _ Ha _. apply in_app_or in Ht. destruct Ht as [Ht|Ht]; [exact (Hent t Ht)|exfalso].
    assert (memv (lvar t) A = true) by (apply memv_spec; exists t; auto). congruence.
  - intros t1 t t2 E _ Hge. exfalso. rewrite Hlv in Hge; [lia|].
    rewrite E. apply in_or_app. right. left. reflexivity.
  - reflexivity.
  - intros v Hv. apply memv_spec in Hv. destruct Hv as [t [Ht Ev]].
    assert (Hin : In t tr) by (apply in_or_app; right; exact Ht).
    exists t. split; [exact Hin|]. split; [exact Ev|]. split; [exact Ht|]. split; [|reflexivity].
    rewrite <- Ev. exact (Hlv t Hin).
  - intros x Hx. assert (Hin : In x tr) by (apply in_or_app; right; exact Hx). split; [exact Hin|exact (Hlv x Hin)].
Qed.

Definition init_ok (units : list lit) : Prop :=
  (forall l, In l (units ++ A) -> l <> 0) /\ NoDup (map lvar (units ++ A)) /\
  (forall u, In u units -> entailed_lit u).

Theorem run_sound : forall units cf, init_ok units -> run P n (init_config units A) cf -> cinv cf.
Proof.
  intros units cf [H1 [H2 H3]] Hr. apply (run_cinv (init_config units A)); [|exact Hr].
  exact (inv_init units H1 H2 H3).
Qed.

End Search.

(* ================================================================== *)
(* 6. The theorems                                                      *)

(* C01c_invariant *)
Theorem search_invariant : forall P n A units st L lvl,
  init_ok P A units -> run P n (init_config units A) (Running (SState st L lvl)) ->
  state_ok st lvl /\
  (forall t c, In t (s_trail st) -> s_reason st (lvar t) = Some c -> In c (P ++ L)) /\
  (forall c, In c L -> forall m, sat_problem m P = true -> sat_pbc m c = true) /\
  (forall t, In t (s_trail st) -> s_reason st (lvar t) = None -> s_assumptions st (lvar t) = false ->
             lvl_of st (lvar t) = 1 -> forall m, sat_problem m P = true -> lit_val m t = true) /\
  (forall v, s_assumptions st v = true -> exists t, In t (s_trail st) /\ lvar t = v /\ In t A).
Proof.
  intros P n A units st L lvl Hi Hr. pose proof (run_sound P n A units _ Hi Hr) as I.
  cbn [cinv ss_st ss_learned ss_lvl] in I.
  split; [exact (i_ok _ _ _ _ _ I)|]. split; [exact (i_reasons _ _ _ _ _ I)|].
  split; [exact (i_learned _ _ _ _ _ I)|]. split; [exact (i_facts _ _ _ _ _ I)|].
  intros v Hv. destruct (i_asm _ _ _ _ _ I v Hv) as [t [H1 [H2 [H3 _]]]]. exists t. auto.
Qed.

(* C01c_unsat_sound, under assumptions: no model of the problem satisfies them all *)
Theorem search_unsat_sound_assume : forall P n A units,
  init_ok P A units -> run P n (init_config units A) (Final AUnsat) ->
  forall m, sat_problem m P = true -> exists a, In a A /\ lit_val m a = false.
Proof.
  intros P n A units Hi Hr m Hm. pose proof (run_sound P n A units _ Hi Hr) as I. cbn [cinv] in I.
  destruct (existsb (fun a => negb (lit_val m a)) A) eqn:E.
  - apply existsb_exists in E. destruct E as [a [Ha Hv]]. exists a. split; [exact Ha|].
    apply negb_true_iff. exact Hv.
  - exfalso. apply (I m Hm). intros a Ha. destruct (lit_val m a) eqn:Ev; [reflexivity|exfalso].
    assert (existsb (fun a => negb (lit_val m a)) A = true).
    { apply existsb_exists. exists a. rewrite Ev. auto. }
    congruence.
Qed.

(* C01c_unsat_sound *)
Theorem search_unsat_sound : forall P n units,
  init_ok P [] units -> run P n (init_config units []) (Final AUnsat) ->
  forall m, sat_problem m P = false.
Proof.
  intros P n units Hi Hr m. destruct (sat_problem m P) eqn:E; [exfalso|reflexivity].
  destruct (search_unsat_sound_assume P n [] units Hi Hr m E) as [a [[] _]].
Qed.

(* C01c_sat_sound *)
Theorem search_sat_sound : forall P n A units m,
  init_ok P A units -> vars_in n P -> run P n (init_config units A) (Final (ASat m)) ->
  length m = n /\ sat_problem m P = true /\
  forall a, In a A -> 1 <= lvar a <= Z.of_nat n -> lit_val m a = true.
Proof.
  intros P n A units m Hi Hv Hr. pose proof (run_sound P n A units _ Hi Hr) as I. cbn [cinv] in I. auto.
Qed.

(* C01c_no_panic *)
Theorem search_no_crash : forall P n A units,
  init_ok P A units -> ~ run P n (init_config units A) Crashed.
Proof. intros P n A units Hi Hr. exact (run_sound P n A units _ Hi Hr). Qed.

Theorem search_no_panic : forall P n A units st L lvl c,
  init_ok P A units -> run P n (init_config units A) (Running (SState st L lvl)) ->
  In c (P ++ L) -> conflicting st lvl c -> conflict_step c lvl st <> OPanic.
Proof.
  intros P n A units st L lvl c Hi Hr Hc Hcf E.
  apply (search_no_crash P n A units Hi). eapply run_step; [exact Hr|].
  apply St_conflict_panic with (c := c); assumption.
Qed.

(* at level 1 a conflict handed to learnClause always ends the search *)
Theorem search_level1_conflict : forall P n A units st L c,
  init_ok P A units -> run P n (init_config units A) (Running (SState st L 1)) ->
  In c (P ++ L) -> conflicting st 1 c -> conflict_step c 1 st = OUnsat.
Proof.
  intros P n A units st L c Hi Hr Hc Hcf.
  pose proof (run_sound P n A units _ Hi Hr) as I. cbn [cinv ss_st ss_learned ss_lvl] in I.
  pose proof (i_ok _ _ _ _ _ I) as OK. pose proof (conflicting_confl_ok _ _ _ Hcf) as CF.
  destruct (conflict_step c 1 st) as [|st' u|st' bl h cl|] eqn:E; [reflexivity|exfalso..].
  - destruct (cs_unit _ _ _ _ _ E) as [Hlc [Hnot _]].
    assert (HLL : learned_lits (learn_clause c 1 st) = Some [u]) by (rewrite Hlc; reflexivity).
    destruct (learn_asserting st 1 c OK CF [u] HLL) as (h1 & tl1 & E1 & _ & Hul & _). injection E1 as <- _.
    destruct (learn_falsified st 1 c OK CF [u] HLL u (or_introl eq_refl)) as [_ Huf].
    rewrite Huf, Hul in Hnot. discriminate.
  - destruct (cs_jump _ _ _ _ _ _ _ E) as [Hlc _].
    destruct (learn_backjump st 1 c OK CF cl Hlc) as (h0 & x & r & _ & _ & _ & Hx & _). lia.
  - exact (search_no_panic P n A units st L 1 c Hi Hr Hc Hcf E).
Qed.

(* ================================================================== *)
(* 7. The executable replay is a run                                    *)

Lemma s_terms_eqb_eq : forall x y, s_terms_eqb x y = true -> x = y.
Proof.
  induction x as [|[w1 l1] x IH]; intros [|[w2 l2] y] H; cbn [s_terms_eqb] in H; try discriminate; [reflexivity|].
  apply andb_true_iff in H. destruct H as [H H3]. apply andb_true_iff in H. destruct H as [H1 H2].
  apply Z.eqb_eq in H1. apply Z.eqb_eq in H2. subst. f_equal. exact (IH y H3).
Qed.

Lemma s_pbc_eqb_eq : forall c d, s_pbc_eqb c d = true -> c = d.
Proof.
  intros [t1 d1] [t2 d2] H. unfold s_pbc_eqb in H. cbn [terms degree] in H.
  apply andb_true_iff in H. destruct H as [H1 H2]. apply Z.eqb_eq in H1. apply s_terms_eqb_eq in H2.
  subst. reflexivity.
Qed.

Lemma select_mask_incl : forall (A : Type) mask (l : list A), incl (select_mask mask l) l.
Proof.
  intros A. induction mask as [|b ms IH]; intros [|x xs]; cbn [select_mask]; try (intros y []).
  destruct b; intros y Hy.
  - destruct Hy as [<-|Hy]; [left; reflexivity|right; exact (IH xs y Hy)].
  - right. exact (IH xs y Hy).
Qed.

Lemma falsifiedb_sound : forall st c, falsifiedb st c = true -> falsified st c.
Proof.
  intros st c H. unfold falsifiedb in H. apply andb_true_iff in H. destruct H as [H Hdeg].
  apply andb_true_iff in H. destruct H as [Hw Hnz]. apply Z.ltb_lt in Hdeg.
  split; [exact (forallb_nonzero _ Hnz)|].
  intros m Hs. unfold sat_pbc in Hs. apply Z.leb_le in Hs.
  set (p := fun t : term => lit_false st (snd t)).
  set (Pf := filter p (terms c)). set (Qf := filter (fun t : term => negb (p t)) (terms c)).
  change (wsum Qf < degree c) in Hdeg.
  rewrite (lhs_split m p) in Hs. change (degree c <= lhs m Pf + lhs m Qf) in Hs.
  assert (Hle : lhs m Qf <= wsum Qf) by (apply lhs_le_wsum; apply forallb_filter; exact Hw).
  destruct (lhs_pos_exists m Pf) as [t [Ht Hv]]; [lia|].
  apply filter_In in Ht. destruct Ht as [Ht Hf]. exists (snd t).
  split; [unfold c_lits; apply in_map; exact Ht|auto].
Qed.

Lemma confl_ok_conflicting : forall st lvl c, confl_ok st lvl c -> conflicting st lvl c.
Proof.
  intros st lvl c [H1 H2 H3 H4]. split; [split; assumption|]. split; assumption.
Qed.

Lemma vars_inb_sound : forall n P, vars_inb n P = true -> vars_in n P.
Proof.
  intros n P H c x Hc Hx. unfold vars_inb in H. rewrite forallb_forall in H. specialize (H c Hc).
  rewrite forallb_forall in H. specialize (H x Hx). apply andb_true_iff in H. destruct H as [H1 H2].
  apply Z.leb_le in H1. apply Z.leb_le in H2. lia.
Qed.

Theorem replay_step_sound : forall P n s k cf, replay_step P n s k = Some cf -> step P n (Running s) cf.
Proof.
  intros P n [st L lvl] k cf H. destruct k as [l|l i|i|i| |keep|]; cbn [replay_step ss_st ss_learned ss_lvl] in H.
  - destruct (negb (l =? 0) && (s_model st (lvar l) =? 0)) eqn:E; [|discriminate]. injection H as <-.
    apply andb_true_iff in E. destruct E as [E1 E2]. apply negb_true_iff, Z.eqb_neq in E1. apply Z.eqb_eq in E2.
    apply St_decide; assumption.
  - destruct (nth_error (P ++ L) i) as [c|] eqn:En; [|discriminate].
    destruct (negb (l =? 0) && (s_model st (lvar l) =? 0) && pb_reason_chk (s_trail st) l c) eqn:E; [|discriminate].
    injection H as <-. apply andb_true_iff in E. destruct E as [E E3]. apply andb_true_iff in E.
    destruct E as [E1 E2]. apply negb_true_iff, Z.eqb_neq in E1. apply Z.eqb_eq in E2.
    apply St_propagate; auto.
    + exact (nth_error_In _ _ En).
    + apply forces_reason_ok. exact (pb_reason_chk_sound _ _ _ E3).
  - destruct (nth_error (P ++ L) i) as [c|] eqn:En; [|discriminate].
    destruct (confl_okb st lvl c) eqn:E; [|discriminate]. injection H as <-.
    pose proof (confl_ok_conflicting _ _ _ (confl_okb_sound _ _ _ E)) as Hcf.
    pose proof (nth_error_In _ _ En) as Hc.
    destruct (conflict_step c lvl st) as [|st' u|st' bl h cl|] eqn:Es.
    + eapply St_conflict_unsat; eauto.
    + eapply St_conflict_unit; eauto.
    + eapply St_conflict_jump; eauto.
    + eapply St_conflict_panic; eauto.
  - destruct (nth_error (P ++ L) i) as [c|] eqn:En; [|discriminate].
    destruct ((lvl =? 1) && falsifiedb st c) eqn:E; [|discriminate]. injection H as <-.
    apply andb_true_iff in E. destruct E as [E1 E2]. apply Z.eqb_eq in E1. subst lvl.
    apply St_top_conflict with (c := c); [exact (nth_error_In _ _ En)|exact (falsifiedb_sound _ _ E2)].
  - injection H as <-. apply St_restart.
  - match type of H with (if ?b then _ else _) = _ => destruct b eqn:E end; [|discriminate]. injection H as <-.
    apply St_forget; [apply select_mask_incl|].
    intros t c Ht Hr. rewrite forallb_forall in E. specialize (E t Ht). rewrite Hr in E.
    apply existsb_exists in E. destruct E as [d [Hd Heq]]. apply s_pbc_eqb_eq in Heq. subst d. exact Hd.
  - match type of H with (if ?b then _ else _) = _ => destruct b eqn:E end; [|discriminate]. injection H as <-.
    apply andb_true_iff in E. destruct E as [E1 E2]. apply St_answer_sat.
    + intros v Hv. rewrite forallb_forall in E1.
      assert (Hin : In (Z.to_nat (v - 1)) (seq 0 n)) by (apply in_seq; lia).
      specialize (E1 _ Hin). replace (Z.of_nat (S (Z.to_nat (v - 1)))) with v in E1 by lia.
      apply negb_true_iff, Z.eqb_neq in E1. exact E1.
    + intros c Hc. rewrite forallb_forall in E2. apply Z.leb_le. exact (E2 c Hc).
Qed.

Theorem replay_from_sound : forall P n ks cf cf', replay_from P n cf ks = Some cf' -> run P n cf cf'.
Proof.
  intros P n. 
  assert (G : forall ks cf0 cf cf', run P n cf0 cf -> replay_from P n cf ks = Some cf' -> run P n cf0 cf').
  { induction ks as [|k ks IH]; intros cf0 cf cf' Hr H; cbn [replay_from] in H.
    - injection H as <-. exact Hr.
    - destruct cf as [s| |]; try discriminate.
      destruct (replay_step P n s k) as [cf1|] eqn:E; [|discriminate].
      apply (IH cf0 cf1 cf'); [|exact H]. eapply run_step; [exact Hr|]. exact (replay_step_sound _ _ _ _ _ E). }
  intros ks cf cf' H. exact (G ks cf cf cf' (run_refl P n cf) H).
Qed.

Lemma init_okb_sound : forall P units A, init_okb P units A = true -> init_ok P A units.
Proof.
  intros P units A H. unfold init_okb in H. apply andb_true_iff in H. destruct H as [H H3].
  apply andb_true_iff in H. destruct H as [H1 H2].
  split; [exact (forallb_nonzero _ H1)|]. split; [exact (nodupb_NoDup _ H2)|].
  intros u Hu m Hm. rewrite forallb_forall in H3. specialize (H3 u Hu).
  apply existsb_exists in H3. destruct H3 as [d [Hd Heq]]. apply s_pbc_eqb_eq in Heq. subst d.
  unfold sat_problem in Hm. rewrite forallb_forall in Hm. specialize (Hm _ Hd).
  rewrite sat_clause_pbc in Hm. unfold sat_clause in Hm. cbn [existsb] in Hm. rewrite orb_false_r in Hm. exact Hm.
Qed.

Theorem replay_sound : forall P n units A ks cf, replay P n units A ks = Some cf ->
  init_ok P A units /\ run P n (init_config units A) cf.
Proof.
  intros P n units A ks cf H. unfold replay in H. destruct (init_okb P units A) eqn:E; [|discriminate].
  split; [exact (init_okb_sound _ _ _ E)|exact (replay_from_sound _ _ _ _ _ H)].
Qed.

(* what a replayed answer means *)
Theorem replay_unsat : forall P n units ks, replay P n units [] ks = Some (Final AUnsat) ->
  forall m, sat_problem m P = false.
Proof.
  intros P n units ks H. destruct (replay_sound _ _ _ _ _ _ H) as [Hi Hr].
  exact (search_unsat_sound P n units Hi Hr).
Qed.

Theorem replay_sat : forall P n units A ks m, vars_inb n P = true ->
  replay P n units A ks = Some (Final (ASat m)) -> length m = n /\ sat_problem m P = true.
Proof.
  intros P n units A ks m Hv H. destruct (replay_sound _ _ _ _ _ _ H) as [Hi Hr].
  destruct (search_sat_sound P n A units m Hi (vars_inb_sound _ _ Hv) Hr) as [H1 [H2 _]]. auto.
Qed.
